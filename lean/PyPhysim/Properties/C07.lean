import PyPhysim.Proofs.C07Complete
import PyPhysim.Proofs.C07Power
import PyPhysim.Generated.C07SaveRule

/-!
# C07 — a simulation stopped at any point resumes without losing or double counting work

Property theorems only.  Everything is about the model `PyPhysim.Model.C07` (the
C05 runner machine + a durable store + the trace of everything a crash can
separate), tied to `runner.py` / `results.py` by the fault enumeration of
`harness/props/c07.py` and by `Generated/C07SaveRule.lean`, which is re-emitted
from the source on every run (save-rule constants and the file-system steps of
`_save_to_pickle` / `_save_to_json`).

Quantification: every results type `R`, every merge operation (no law assumed),
every tag type `T` (the parameters of a variation), every `rep_max`, every
`_keep_going`, every number of variations, every save period / time threshold,
every stream of call durations (i.e. every save schedule the rule can produce),
every outcome stream of the interrupted run, **every crash point** (`pre <+: trace`:
any prefix of the trace — inside any repetition, between any two file-system
steps of any save, partial or final), every starting disk, every outcome stream
and schedule of the restart.

Vocabulary: `simC cfg d clock outs` = one `simulate()` on disk `d`; its `trace`;
`d.applyAll pre` = the disk after the events `pre` happened (the crash disk);
`CrashSpec` (Proofs/C07Run) = shape of the partial-results files after a crash;
`Merged` (Proofs/C07Resume) = per variation, final state of the restart = one-go
run over (saved prefix of the crashed run's outcomes) ++ (the restart's outcomes);
`IsVarRun`, `RunsSpec`, `stateOf`, `logOf` = the C05 specification vocabulary.
-/
namespace PyPhysim.C07

open PyPhysim.C05 (Outcome VarState Keep Stored Saved guard after stateOf freshState IsVarRun RunsSpec logOf
  oks skips)

variable {R T : Type} [DecidableEq T]

/-! ## Tie to the source -/

omit [DecidableEq T] in
/-- **Tie to the source (regenerated on every run).**  The file-system steps that
    `_save_to_pickle` / `_save_to_json` perform in the current source are those of
    the `atomic` discipline (open temp file, write, flush, fsync, close, `os.replace` — in
    this order; dropping `flush` or `fsync` or moving them changes the generated list), and the save rule of
    `save_partial_results_maybe` is the model's `Cfg.due` with the constants of the
    source.  If the source goes back to writing in place this stops compiling. -/
theorem generated_save_matches_model {C : Type} (c : C) (cfg : Cfg R T)
    (hp : cfg.period = Generated.C07.savePeriodReps) (hs : cfg.secs = Generated.C07.savePeriodSecs) :
    Generated.C07.savePickleOps c = saveOps .atomic c ∧
    Generated.C07.saveJsonOps c = saveOps .atomic c ∧
    ∀ clk rep, cfg.due clk rep = Generated.C07.dueSave clk.since rep := by
  refine ⟨rfl, rfl, ?_⟩
  intro clk rep
  simp [Cfg.due, Generated.C07.dueSave, hp, hs]

/-! ## A complete run -/

/-- **The C07 machine is the C05 machine plus a store.**  A `simulate()` that
    returns normally split the outcome stream into one complete C05 run per variation
    `0 … n-1`, each started from what `load_partial_results` gave it; results,
    `runned_reps` and the call log are those of these runs; afterwards the
    partial-results file of every variation holds its final state (either write
    discipline).  Periodic saves and the clock influence none of this. -/
theorem simulate_spec (cfg : Cfg R T) (d : Disk R T) (c : Clock) (outs : List (Outcome R))
    (h : (simC cfg d c outs).status = none) :
    ∃ segs sts, RunsSpec cfg.base (startOf cfg d) (List.range cfg.nvar) segs sts ∧
      outs = segs.flatten ++ (simC cfg d c outs).rest ∧
      (simC cfg d c outs).results = sts.map VarState.stored ∧
      (simC cfg d c outs).reps = sts.map (·.rep) ∧
      callLog (simC cfg d c outs).trace = logOf (List.range cfg.nvar) segs ∧
      ∀ j st, (j, st) ∈ (List.range cfg.nvar).zip sts →
        ((d.applyAll (simC cfg d c outs).trace).part j).main = .valid (partOf cfg j st) := by
  obtain ⟨f1, f2, f3, f4, f5⟩ := simC_fields cfg d c outs
  rw [f4] at h
  obtain ⟨_, s2, _, _⟩ := simVarsC_spec cfg (List.range cfg.nvar) d c outs List.nodup_range
  obtain ⟨segs, sts, t1, t2, t3, t4, t5, t6⟩ := s2 h
  refine ⟨segs, sts, t1, by rw [f3]; exact t2, by rw [f1]; exact t3, by rw [f2]; exact t4,
    by rw [simC_callLog]; exact t5, ?_⟩
  intro j st hj
  rw [f5]
  simp only [h]
  rw [Disk.applyAll_append, Disk.applyAll_part _ (finEvs cfg _ _) j, finEvs, partOps_map_fin]
  exact t6 j st hj

/-- **The final results file.**  A `simulate()` that returns normally leaves the
    final results file complete, holding exactly the returned results and
    `runned_reps` (either write discipline; `.pickle` and `.json` targets go through
    the same steps, see `generated_save_matches_model`). -/
theorem final_results_file_written (cfg : Cfg R T) (d : Disk R T) (c : Clock) (outs : List (Outcome R))
    (h : (simC cfg d c outs).status = none) :
    (d.applyAll (simC cfg d c outs).trace).fin.main
      = .valid ⟨(simC cfg d c outs).results, (simC cfg d c outs).reps⟩ := by
  obtain ⟨f1, f2, _, f4, f5⟩ := simC_fields cfg d c outs
  rw [f4] at h
  rw [f5, f1, f2]
  simp only [h]
  rw [Disk.applyAll_append, Disk.applyAll_fin _ (finEvs cfg _ _), finEvs, finOps_map_fin,
    Slot.applyAll_saveOps_main]

/-- **Every reachable disk is a legal starting point for `resume_exact`**: on a disk
    left behind by any number of interrupted runs (atomic discipline) every variation
    loads without raising — so `resume_exact` applies to the LAST of any number of
    interruptions as well. -/
theorem reachable_disks_load (cfg : Cfg R T) (hmode : cfg.mode = .atomic) (d : Disk R T)
    (h : Reach cfg d) (i : Nat) : LoadsOk cfg d i :=
  (Reach.durable cfg hmode d h i).loadsOk

/-! ## `simulate(index)`: one variation per call -/

/-- **A single-variation run (`simulate(i)`) is the same machine restricted to `[i]`.**
    Interrupted at ANY point it leaves the file of `i` as `CrashSpec` says (old file, or
    the merge of a prefix of its outcomes) and touches no other partial file and not the
    final results file; when it returns normally the consumed outcomes are one complete
    C05 run of variation `i` from what was loaded and the partial file holds exactly its
    final state — which is what a later `simulate()` (or a later `simulate(i)`) loads, so
    running the variations one call at a time and then `simulate()` is covered by
    `resume_exact` / `completed_variation_not_rerun`. -/
theorem single_variation_run (cfg : Cfg R T) (i : Nat) (hi : i < cfg.nvar) (d : Disk R T) (c : Clock)
    (outs : List (Outcome R)) :
    (∀ pre, pre <+: (simSingleC cfg i d c outs).trace →
      (∃ segs, segs.flatten <+: outs ∧
        CrashSpec cfg (startOf cfg d) (fun j => (d.part j).main)
          (fun j => ((d.applyAll pre).part j).main) [i] segs) ∧
      (∀ j, j ≠ i → (d.applyAll pre).part j = d.part j) ∧ (d.applyAll pre).fin = d.fin) ∧
    ((simSingleC cfg i d c outs).status = none →
      ∃ seg st, IsVarRun cfg.merge cfg.repMax (cfg.keep i) (startOf cfg d i) seg st ∧
        outs = seg ++ (simSingleC cfg i d c outs).rest ∧
        callLog (simSingleC cfg i d c outs).trace = List.replicate seg.length i ∧
        ((d.applyAll (simSingleC cfg i d c outs).trace).part i).main = .valid (partOf cfg i st) ∧
        startOf cfg (d.applyAll (simSingleC cfg i d c outs).trace) i = some (st.acc, st.rep)) := by
  have hnd : [i].Nodup := by simp
  simp only [simSingleC, hi, if_true]
  refine ⟨?_, ?_⟩
  · intro pre hp
    obtain ⟨u1, u2⟩ := simVarsC_trace_untouched cfg [i] d c outs hnd pre hp
    exact ⟨simVarsC_crash cfg [i] d c outs hnd pre hp, fun j hj => u1 j (by simpa using hj), u2⟩
  · intro hst
    obtain ⟨_, s2, _, _⟩ := simVarsC_spec cfg [i] d c outs hnd
    obtain ⟨segs, sts, t1, t2, _, _, t5, t6⟩ := s2 hst
    obtain ⟨l1, l2⟩ := C05.RunsSpec_lengths cfg.base _ [i] segs sts t1
    obtain ⟨seg, rfl⟩ : ∃ seg, segs = [seg] := List.length_eq_one_iff.mp (by simpa using l1)
    obtain ⟨st, rfl⟩ : ∃ st, sts = [st] := List.length_eq_one_iff.mp (by simpa using l2)
    simp only [RunsSpec] at t1
    have hmain := t6 i st (by simp)
    refine ⟨seg, st, by simpa [Cfg.base] using t1.1, by simpa using t2, ?_, hmain,
      startOf_valid cfg _ i st hmain⟩
    rw [t5]; simp [logOf]

/-! ## The disk after a crash -/

/-- **`crash_never_worse` (atomic discipline).**  After ANY crash point every
    partial-results file is what it was before the run, or a complete file holding
    the state the variation had after some of its outcomes — never a damaged file;
    the same for the final results file. -/
theorem crash_never_worse (cfg : Cfg R T) (hmode : cfg.mode = .atomic) (d : Disk R T) (c : Clock)
    (outs : List (Outcome R)) (pre : List (Ev R T)) (hp : pre <+: (simC cfg d c outs).trace) :
    (∀ i, ((d.applyAll pre).part i).main = (d.part i).main ∨
      ∃ p s, stateOf cfg.merge (startOf cfg d i) p = some s ∧
        ((d.applyAll pre).part i).main = .valid (partOf cfg i s)) ∧
    ((d.applyAll pre).fin.main = d.fin.main ∨ ∃ full, (d.applyAll pre).fin.main = .valid full) := by
  obtain ⟨⟨segs, _, g2⟩, g3⟩ := simC_crash cfg d c outs pre hp
  refine ⟨?_, ?_⟩
  · intro i
    by_cases hi : i ∈ List.range cfg.nvar
    · rcases CrashSpec.pointwise cfg _ _ _ _ segs g2 i hi with h | ⟨hm, _⟩ | h
      · left; exact h
      · rw [hmode] at hm; cases hm
      · right; exact h
    · left; exact g3 i hi
  · rw [Disk.applyAll_fin]
    have hat := ((simC_allAtomic cfg d c outs hmode).prefix hp).finOps
    rcases Slot.atomic_main d.fin (finOps pre) hat with h | ⟨x, _, h⟩
    · left; exact h
    · right; exact ⟨x, h⟩

/-- **`saved_is_prefix_merge` for one interrupted run (either discipline).**  After
    any crash point the partial-results files have the shape `CrashSpec`: there are
    disjoint consecutive segments of the outcome stream, one per variation, such that
    every variation before the interrupted one completed and its file holds its final
    state, the file of the interrupted one is the old file or holds the state after a
    PREFIX of its segment reached while the guard allowed every step (or is torn —
    in-place discipline only), and no later file was touched; indices that are not
    variations are untouched. -/
theorem saved_is_prefix_merge_run (cfg : Cfg R T) (d : Disk R T) (c : Clock) (outs : List (Outcome R))
    (pre : List (Ev R T)) (hp : pre <+: (simC cfg d c outs).trace) :
    (∃ segs, segs.flatten <+: outs ∧
      CrashSpec cfg (startOf cfg d) (fun j => (d.part j).main)
        (fun j => ((d.applyAll pre).part j).main) (List.range cfg.nvar) segs) ∧
    ∀ j, j ∉ List.range cfg.nvar → ((d.applyAll pre).part j).main = (d.part j).main :=
  simC_crash cfg d c outs pre hp

/-- **`saved_is_prefix_merge` (invariant, atomic discipline).**  On every disk that
    any number of runs, each interrupted at an arbitrary point, can leave behind
    starting from an empty folder, every partial-results file is missing or is a
    complete file whose results are the merge, and whose `current_rep` is the number,
    of the successful outcomes of one sequence of `_run_simulation` calls, tagged
    with the parameters of its own variation. -/
theorem saved_is_prefix_merge (cfg : Cfg R T) (hmode : cfg.mode = .atomic) (d : Disk R T)
    (h : Reach cfg d) (i : Nat) : Durable cfg i (d.part i).main :=
  Reach.durable cfg hmode d h i

/-! ## Crash, then restart -/

/-- **`resume_exact` (atomic discipline).**  Take any disk `d0` on which every
    variation loads, ANY crash point `pre` of a run with ANY outcome stream and
    schedule, and restart with the same parameters (`cfg2`: same tags, same merge,
    same number of variations; `rep_max`, `_keep_going`, schedule may differ) on the
    crash disk with ANY outcome stream and schedule.  Then the restart never raises
    (it can only run out of scripted outcomes, having consumed them all), and when
    it returns normally there are disjoint segments `segs1` of the first stream and
    `segs2` of the second, one per variation, such that (`Merged`) for every
    variation the final merged result and repetition count are those of ONE run over
    `p ++ seg2` started as the interrupted run started, where `p` is a prefix of the
    variation's own segment of the interrupted run (what was durably saved) and
    `seg2` is what the restart executed for it: nothing lost, nothing counted twice,
    nothing taken from another variation; the guard is false at the end (limit or
    stop rule reached); the restart's calls are exactly `|seg2|` per variation, in
    order. -/
theorem resume_exact (cfg cfg2 : Cfg R T) (hmode : cfg.mode = .atomic)
    (htag : ∀ i, cfg2.tag i = cfg.tag i) (hmerge : cfg2.merge = cfg.merge) (hn : cfg2.nvar = cfg.nvar)
    (d0 : Disk R T) (hclean : ∀ i, i < cfg.nvar → LoadsOk cfg d0 i)
    (c1 : Clock) (outs1 : List (Outcome R)) (pre : List (Ev R T))
    (hp : pre <+: (simC cfg d0 c1 outs1).trace) (c2 : Clock) (outs2 : List (Outcome R))
    (e2 : RunEnd R T) (he : e2 = simC cfg2 (d0.applyAll pre) c2 outs2) :
    (e2.status = none ∨ e2.status = some .Exhausted) ∧
    (e2.status = some .Exhausted → e2.rest = []) ∧
    (e2.status = none →
      ∃ segs1 segs2 sts, segs1.flatten <+: outs1 ∧ outs2 = segs2.flatten ++ e2.rest ∧
        e2.results = sts.map VarState.stored ∧ e2.reps = sts.map (·.rep) ∧
        callLog e2.trace = logOf (List.range cfg.nvar) segs2 ∧
        Merged cfg cfg2 (startOf cfg d0) (List.range cfg.nvar) segs1 segs2 sts) := by
  subst he
  obtain ⟨r1, r2⟩ := simC_resume cfg cfg2 hmode htag hn d0 hclean c1 outs1 pre hp c2 outs2
  refine ⟨r1, ?_, ?_⟩
  · intro hex
    obtain ⟨_, _, f3, f4, _⟩ := simC_fields cfg2 (d0.applyAll pre) c2 outs2
    rw [f3]; rw [f4] at hex
    exact simVarsC_exhausted cfg2 _ _ _ _ hex
  · intro hst
    obtain ⟨segs1, segs2, sts, g1, g2, g3, g4, g5, g6, g7⟩ := r2 hst
    exact ⟨segs1, segs2, sts, g1, g2, g3, g4, g5,
      Merged.of cfg cfg2 hmerge _ _ _ segs1 segs2 sts g7 g6⟩

/-- **The restart completes.**  In the situation of `resume_exact`: if the restart's
    outcome stream contains at least `n · max(1, rep_max)` successful outcomes (the
    user's `_run_simulation` does not skip for ever), the restart returns normally —
    whatever the crash point, whatever was saved, whatever the stop rule and the
    schedule.  (Together with `resume_exact`: `Exhausted` is the only other ending,
    and only after the whole stream was consumed.) -/
theorem resume_completes (cfg cfg2 : Cfg R T) (hmode : cfg.mode = .atomic)
    (htag : ∀ i, cfg2.tag i = cfg.tag i) (hn : cfg2.nvar = cfg.nvar)
    (d0 : Disk R T) (hclean : ∀ i, i < cfg.nvar → LoadsOk cfg d0 i)
    (c1 : Clock) (outs1 : List (Outcome R)) (pre : List (Ev R T))
    (hp : pre <+: (simC cfg d0 c1 outs1).trace) (c2 : Clock) (outs2 : List (Outcome R))
    (hlen : cfg.nvar * max 1 cfg2.repMax ≤ (oks outs2).length) :
    (simC cfg2 (d0.applyAll pre) c2 outs2).status = none :=
  simC_resume_completes cfg cfg2 hmode htag hn d0 hclean c1 outs1 pre hp c2 outs2 hlen

/-- **Exactly the requested number of repetitions.**  In the situation of
    `resume_exact`, with the default `_keep_going` in the restart, `rep_max ≥ 1`, a
    restart limit not below the one of the interrupted run, and a starting disk whose
    files did not exceed the limit (e.g. the empty folder): a restart that returns
    normally reports exactly `rep_max` repetitions for EVERY variation. -/
theorem resume_exact_count (cfg cfg2 : Cfg R T) (hmode : cfg.mode = .atomic)
    (htag : ∀ i, cfg2.tag i = cfg.tag i) (hmerge : cfg2.merge = cfg.merge) (hn : cfg2.nvar = cfg.nvar)
    (hkeep : ∀ i a k r, cfg2.keep i a k r = true) (hmax : 1 ≤ cfg.repMax) (hle : cfg.repMax ≤ cfg2.repMax)
    (d0 : Disk R T) (hclean : ∀ i, i < cfg.nvar → LoadsOk cfg d0 i)
    (hstart : ∀ i, i < cfg.nvar → ∀ a n, startOf cfg d0 i = some (a, n) → n ≤ cfg.repMax)
    (c1 : Clock) (outs1 : List (Outcome R)) (pre : List (Ev R T))
    (hp : pre <+: (simC cfg d0 c1 outs1).trace) (c2 : Clock) (outs2 : List (Outcome R))
    (h : (simC cfg2 (d0.applyAll pre) c2 outs2).status = none) :
    (simC cfg2 (d0.applyAll pre) c2 outs2).reps = List.replicate cfg.nvar cfg2.repMax := by
  obtain ⟨_, r2⟩ := simC_resume cfg cfg2 hmode htag hn d0 hclean c1 outs1 pre hp c2 outs2
  obtain ⟨segs1, segs2, sts, _, _, _, g4, _, g6, g7⟩ := r2 h
  rw [g4, Resumed.reps_exact cfg cfg2 hmerge hkeep hmax hle _ _ _ segs1 segs2 sts
    (fun i hi => hstart i (List.mem_range.mp hi)) g7 g6]
  simp [List.map_const']

/-- **Started from scratch, interrupted anywhere, restarted with the same
    configuration**: exactly `rep_max` repetitions per variation. -/
theorem resume_from_scratch_exact_count (cfg : Cfg R T) (hmode : cfg.mode = .atomic)
    (hkeep : ∀ i a k r, cfg.keep i a k r = true) (hmax : 1 ≤ cfg.repMax)
    (c1 : Clock) (outs1 : List (Outcome R)) (pre : List (Ev R T))
    (hp : pre <+: (simC cfg Disk.empty c1 outs1).trace) (c2 : Clock) (outs2 : List (Outcome R))
    (h : (simC cfg (Disk.empty.applyAll pre) c2 outs2).status = none) :
    (simC cfg (Disk.empty.applyAll pre) c2 outs2).reps = List.replicate cfg.nvar cfg.repMax :=
  resume_exact_count cfg cfg hmode (fun _ => rfl) rfl rfl hkeep hmax (Nat.le_refl _) Disk.empty
    (fun i _ e => by simp [loadPart, Disk.empty])
    (fun i _ a n hs => by simp [startOf, loadPart, Disk.empty] at hs) c1 outs1 pre hp c2 outs2 h

/-- **Any number of interruptions.**  On every disk reachable by interrupted runs
    (atomic discipline) a restart never raises: an interruption never leaves behind
    a file that makes the restart fail. -/
theorem restart_never_fails (cfg : Cfg R T) (hmode : cfg.mode = .atomic) (d : Disk R T)
    (h : Reach cfg d) (c : Clock) (outs : List (Outcome R)) :
    (simC cfg d c outs).status = none ∨ (simC cfg d c outs).status = some .Exhausted := by
  obtain ⟨_, _, _, f4, _⟩ := simC_fields cfg d c outs
  rw [f4]
  obtain ⟨s1, _, _, _⟩ := simVarsC_spec cfg (List.range cfg.nvar) d c outs List.nodup_range
  exact s1 (fun i _ => (Reach.durable cfg hmode d h i).loadsOk)

/-- **No variation that had reached the limit is executed again.**  In a run that
    returns normally, a variation whose loaded partial results already hold
    `rep_max` (or more) repetitions receives no `_run_simulation` call. -/
theorem completed_variation_not_rerun (cfg : Cfg R T) (d : Disk R T) (c : Clock) (outs : List (Outcome R))
    (h : (simC cfg d c outs).status = none) (i : Nat) (a : R) (n : Nat)
    (hs : startOf cfg d i = some (a, n)) (hn : cfg.repMax ≤ n) :
    Ev.call i ∉ (simC cfg d c outs).trace := by
  obtain ⟨segs, sts, t1, _, _, _, t5, _⟩ := simulate_spec cfg d c outs h
  intro hmem
  have h1 : i ∈ logOf (List.range cfg.nvar) segs := by
    rw [← t5]; exact (mem_callLog _ i).mpr hmem
  obtain ⟨seg, hz, hne⟩ := mem_logOf_zip _ segs i h1
  exact hne (Resumed.completed_not_rerun cfg cfg (startOf cfg d) (startOf cfg d) _ segs sts t1 i seg hz a n hs hn)

/-- **Temp files and the final results file never influence a run**: two disks that
    hold the same partial-results files give the same run (same trace, results,
    status), whatever temp files lie around and whatever state the final file is in —
    so a leftover `.tmp` of a hard kill, or its removal by exception unwinding
    (`Disk.sweep`), or a half-written final file make no difference to a restart. -/
theorem restart_ignores_temp_files (cfg : Cfg R T) (d d' : Disk R T)
    (h : ∀ i, (d.part i).main = (d'.part i).main) (c : Clock) (outs : List (Outcome R)) :
    simC cfg d c outs = simC cfg d' c outs ∧ simC cfg d.sweep c outs = simC cfg d c outs :=
  ⟨simC_mainEq cfg d d' c outs h, simC_mainEq cfg _ _ c outs (MainEq.sweep d)⟩

/-! ## Partial results saved for other parameters -/

/-- **`mismatch_refused`.**  If the partial-results file of a variation `j < n` was
    saved for other parameters (its tag differs), `simulate()` does not return
    normally, makes NO call for `j`, performs NO file-system step on `j`'s file (the
    store of `j` is unchanged — nothing is merged into it or over it), and whatever it
    raises is the load error of some variation (`ValueError` for foreign parameters)
    or `Exhausted`; if every other variation loads, it is `ValueError` (or the
    scripted stream ran out before `j` was reached). -/
theorem mismatch_refused (cfg : Cfg R T) (d : Disk R T) (c : Clock) (outs : List (Outcome R))
    (j : Nat) (hj : j < cfg.nvar) (x : Part R T) (hx : (d.part j).main = .valid x) (htag : x.tag ≠ cfg.tag j) :
    (simC cfg d c outs).status ≠ none ∧
    Ev.call j ∉ (simC cfg d c outs).trace ∧
    (d.applyAll (simC cfg d c outs).trace).part j = d.part j ∧
    (∀ e, (simC cfg d c outs).status = some e →
      e = .Exhausted ∨ ∃ k, k < cfg.nvar ∧ loadPart cfg d k = .error e) ∧
    ((∀ k, k < cfg.nvar → k ≠ j → LoadsOk cfg d k) →
      (simC cfg d c outs).status = some .ValueError ∨ (simC cfg d c outs).status = some .Exhausted) := by
  have hbad : loadPart cfg d j = .error .ValueError := by simp [loadPart, hx, htag]
  obtain ⟨a1, a2, a3, a4⟩ := simVarsC_refused cfg (List.range cfg.nvar) d c outs List.nodup_range j _
    (List.mem_range.mpr hj) hbad
  obtain ⟨_, _, _, f4, f5⟩ := simC_fields cfg d c outs
  have hst : (simVarsC cfg (List.range cfg.nvar) d c outs).status ≠ none := a1
  have htr : (simC cfg d c outs).trace = (simVarsC cfg (List.range cfg.nvar) d c outs).trace := by
    rw [f5]
    cases hs : (simVarsC cfg (List.range cfg.nvar) d c outs).status with
    | none => exact absurd hs hst
    | some e => simp
  rw [f4, htr]
  refine ⟨a1, a3, by rw [Disk.applyAll_part, a2]; rfl, ?_, ?_⟩
  · intro e he
    rcases a4 e he with h | ⟨k, hk, hk'⟩
    · left; exact h
    · right; exact ⟨k, List.mem_range.mp hk, hk'⟩
  · intro hall
    cases hs : (simVarsC cfg (List.range cfg.nvar) d c outs).status with
    | none => exact absurd hs hst
    | some e =>
      rcases a4 e hs with h | ⟨k, hk, hk'⟩
      · right; rw [h]
      · left
        by_cases hkj : k = j
        · subst hkj; rw [hbad] at hk'; cases hk'; rfl
        · exact absurd hk' (hall k (List.mem_range.mp hk) hkj e)

/-- **A refused restart changes nothing (R4).**  If the partial results of the FIRST
    variation cannot be used (saved for other parameters: `ValueError`; unreadable:
    `LoadError`), `simulate()` raises that error having done nothing at all: no call,
    no file-system step, no result — so the folder is exactly as it was and a
    following restart with the right parameters behaves as if the refused one had
    never happened. -/
theorem refused_restart_changes_nothing (cfg cfgOk : Cfg R T) (d : Disk R T) (c c' : Clock)
    (outs outs' : List (Outcome R)) (hn : 0 < cfg.nvar) (e : Err) (h : loadPart cfg d 0 = .error e) :
    simC cfg d c outs = ⟨[], [], [], outs, c, some e⟩ ∧
    d.applyAll (simC cfg d c outs).trace = d ∧
    simC cfgOk (d.applyAll (simC cfg d c outs).trace) c' outs' = simC cfgOk d c' outs' := by
  have h1 : simC cfg d c outs = ⟨[], [], [], outs, c, some e⟩ := by
    obtain ⟨k, hk⟩ : ∃ k, cfg.nvar = k + 1 := ⟨cfg.nvar - 1, by omega⟩
    unfold simC
    rw [hk, List.range_succ_eq_map]
    have hres : (runVarC cfg 0 d c outs).res = .error e := by rw [runVarC_error cfg 0 d c outs e h]
    rw [simVarsC_cons_error cfg 0 _ d c outs e hres, runVarC_error cfg 0 d c outs e h]
  refine ⟨h1, ?_, ?_⟩ <;> rw [h1] <;> rfl

/-! ## One level below `os.replace`: power loss -/

omit [DecidableEq T] in
/-- **The write protocol is power-loss safe.**  From a slot whose results file is
    missing or complete-and-durable, after ANY prefix of
    `[open tmp, write, flush, fsync, close, rename]` followed by a power loss (every file
    cut to what its last `fsync` made durable; performed renames persist) the file under
    the results name is the OLD complete file or the NEW complete file — and durable
    again.  Where each step is used: `flush` before `fsync` puts the data where `fsync`
    can see it (`no_flush_not_power_safe`), `fsync` before the rename makes it durable
    (`no_fsync_not_power_safe`), the rename comes after both
    (`fsync_after_rename_not_power_safe`). -/
theorem atomic_protocol_power_safe {C : Type} (s : PSlot C) (hs : s.Sound) (c : C) (q : List (SlotOp C))
    (hq : q <+: saveOps .atomic c) :
    ((s.applyAll q).powerLoss.view.main = s.view.main ∨ (s.applyAll q).powerLoss.view.main = .valid c) ∧
    (s.applyAll q).powerLoss.Sound := by
  obtain ⟨_, h2, h3⟩ := PSlot.block_prefix s hs c q hq
  refine ⟨?_, h3⟩
  rw [h2]
  have hat : ∀ op ∈ q, op.isAtomic = true := fun op hop => saveOps_atomic_isAtomic c op (hq.subset hop)
  rcases Slot.atomic_main s.view q hat with h | ⟨x, hx, h⟩
  · left; exact h
  · right
    obtain ⟨r, hr⟩ := hq
    have : x ∈ contents (saveOps .atomic c) := by rw [← hr, contents_append]; exact List.mem_append_left _ hx
    rw [contents_saveOps] at this
    rw [h, List.mem_singleton.mp this]

/-- **A power loss at any point of a run leaves what a process kill at that point
    leaves** (atomic protocol; starting disk sound, e.g. empty or left by earlier power
    losses): for EVERY prefix `pre` of the trace the results files after the power loss
    are those of the process-level crash disk `d.applyAll pre` — so `crash_never_worse`,
    `saved_is_prefix_merge_run`, `resume_exact`, `resume_exact_count`,
    `resume_completes` hold verbatim for power losses — and the disk is sound again
    (any number of power losses). -/
theorem power_loss_is_a_crash_point (cfg : Cfg R T) (hm : cfg.mode = .atomic) (pd : PDisk R T)
    (hs : pd.Sound) (c : Clock) (outs : List (Outcome R)) (pre : List (Ev R T))
    (hp : pre <+: (simC cfg pd.view c outs).trace) :
    (∀ i, (((pd.applyAll pre).powerLoss.view).part i).main = ((pd.view.applyAll pre).part i).main) ∧
    ((pd.applyAll pre).powerLoss.view).fin.main = (pd.view.applyAll pre).fin.main ∧
    (pd.applyAll pre).powerLoss.Sound ∧
    ∀ (cfg2 : Cfg R T) (c2 : Clock) (outs2 : List (Outcome R)),
      simC cfg2 (pd.applyAll pre).powerLoss.view c2 outs2 = simC cfg2 (pd.view.applyAll pre) c2 outs2 := by
  obtain ⟨h1, h2, _, h4⟩ := simC_powerLoss cfg hm pd hs c outs pre hp
  exact ⟨h1, h2, h4, fun cfg2 c2 outs2 => simC_mainEq cfg2 _ _ c2 outs2 h1⟩

/-- **Negative witness: `flush` dropped** (`fsync` then only sees what the OS already
    has — nothing): after the complete sequence the new file is under the results name
    but not durable; a power loss leaves it with zero length — neither the old nor the new
    file. -/
theorem no_flush_not_power_safe :
    ((⟨some ⟨none, some 1, some 1⟩, none⟩ : PSlot Nat).applyAll
      [.tmpOpen, .tmpWrite 2, .tmpFsync, .tmpClose, .rename 2]).powerLoss.view.main = .torn := rfl

/-- **Negative witness: `fsync` dropped.** -/
theorem no_fsync_not_power_safe :
    ((⟨some ⟨none, some 1, some 1⟩, none⟩ : PSlot Nat).applyAll
      [.tmpOpen, .tmpWrite 2, .tmpFlush, .tmpClose, .rename 2]).powerLoss.view.main = .torn := rfl

/-- **Negative witness: `fsync` moved after the rename.**  The complete sequence ends
    well, but a power loss between the rename and the `fsync` leaves a zero-length file. -/
theorem fsync_after_rename_not_power_safe :
    ((⟨some ⟨none, some 1, some 1⟩, none⟩ : PSlot Nat).applyAll
      [.tmpOpen, .tmpWrite 2, .tmpFlush, .tmpClose, .rename 2, .syncMain]).powerLoss.view.main = .valid 2 ∧
    ((⟨some ⟨none, some 1, some 1⟩, none⟩ : PSlot Nat).applyAll
      [.tmpOpen, .tmpWrite 2, .tmpFlush, .tmpClose, .rename 2]).powerLoss.view.main = .torn := ⟨rfl, rfl⟩

/-! ## The in-place discipline (the code before the `fix:` commit) -/

/-- the statement that fails for in-place writing: "after every crash point of a run
    started in an empty folder, a restart with the same configuration does not raise" -/
def RestartNeverRaises (cfg : Cfg Nat Nat) : Prop :=
  ∀ (outs1 outs2 : List (Outcome Nat)) (pre : List (Ev Nat Nat)),
    pre <+: (simC cfg Disk.empty ⟨0, []⟩ outs1).trace →
    (simC cfg (Disk.empty.applyAll pre) ⟨0, []⟩ outs2).status = none ∨
    (simC cfg (Disk.empty.applyAll pre) ⟨0, []⟩ outs2).status = some .Exhausted

/-- a one-variation configuration, `rep_max = 2`, default `_keep_going` -/
def witnessCfg (m : Mode) : Cfg Nat Nat := ⟨(· + ·), 2, 1, fun _ _ _ _ => true, fun _ => 7, 500, 300, m⟩

/-- **`torn_breaks_restart` (negative witness, in-place discipline).**  One variation,
    `rep_max = 2`: the run is killed right after `open(name, 'wb')` of the
    end-of-variation save (3 events: two calls, the truncation).  The file is torn
    and the restart raises `LoadError` (observed on the code before the fix:
    `EOFError` / `UnpicklingError`) — so the full statement is false for in-place
    writing, while it is a theorem (`restart_never_fails`) for the atomic discipline. -/
theorem torn_breaks_restart : ¬ RestartNeverRaises (witnessCfg .inPlace) := by
  intro h
  have := h [.ok 1, .ok 1] [.ok 1, .ok 1]
    ((simC (witnessCfg .inPlace) Disk.empty ⟨0, []⟩ [.ok 1, .ok 1]).trace.take 3) (List.take_prefix _ _)
  revert this
  decide

/-! ## Non-vacuity: the hypotheses are satisfiable by non-trivial values -/

/-- the witness configuration with atomic writing: the same crash point (after the
    temp file was opened) does no damage; the restart runs both repetitions again and
    reports exactly 2 -/
example :
    callLog ((simC (witnessCfg .atomic) Disk.empty ⟨0, []⟩ [.ok 1, .ok 1]).trace.take 3) = [0, 0] ∧
    (simC (witnessCfg .atomic) (Disk.empty.applyAll
        ((simC (witnessCfg .atomic) Disk.empty ⟨0, []⟩ [.ok 1, .ok 1]).trace.take 3))
      ⟨0, []⟩ [.ok 4, .ok 8, .ok 16]).status = none ∧
    (simC (witnessCfg .atomic) (Disk.empty.applyAll
        ((simC (witnessCfg .atomic) Disk.empty ⟨0, []⟩ [.ok 1, .ok 1]).trace.take 3))
      ⟨0, []⟩ [.ok 4, .ok 8, .ok 16]).reps = [2] ∧
    (simC (witnessCfg .atomic) (Disk.empty.applyAll
        ((simC (witnessCfg .atomic) Disk.empty ⟨0, []⟩ [.ok 1, .ok 1]).trace.take 3))
      ⟨0, []⟩ [.ok 4, .ok 8, .ok 16]).results.map (·.acc) = [12] := by
  decide

/-- a two-variation configuration, `rep_max = 3`, tags = variation index -/
def exampleCfg : Cfg Nat Nat := ⟨(· + ·), 3, 2, fun _ _ _ _ => true, fun i => i, 500, 300, .atomic⟩

/-- two variations, `rep_max = 3`, a skip, a time-triggered periodic save (a call of
    301 s): killed in the middle of variation 0 right after that save (9 events), the
    restart continues variation 0 from the saved 2 repetitions (tokens 1+2), runs only
    what is missing (one call), then variation 1; every token is counted once -/
example :
    (callLog ((simC exampleCfg Disk.empty ⟨0, [0, 0, 301]⟩ [.ok 1, .skip, .ok 2, .ok 4, .ok 8]).trace.take 9),
     (simC exampleCfg (Disk.empty.applyAll
        ((simC exampleCfg Disk.empty ⟨0, [0, 0, 301]⟩ [.ok 1, .skip, .ok 2, .ok 4, .ok 8]).trace.take 9))
        ⟨0, []⟩ [.ok 16, .ok 32, .ok 64, .ok 128, .ok 256]).status,
     callLog (simC exampleCfg (Disk.empty.applyAll
        ((simC exampleCfg Disk.empty ⟨0, [0, 0, 301]⟩ [.ok 1, .skip, .ok 2, .ok 4, .ok 8]).trace.take 9))
        ⟨0, []⟩ [.ok 16, .ok 32, .ok 64, .ok 128, .ok 256]).trace,
     (simC exampleCfg (Disk.empty.applyAll
        ((simC exampleCfg Disk.empty ⟨0, [0, 0, 301]⟩ [.ok 1, .skip, .ok 2, .ok 4, .ok 8]).trace.take 9))
        ⟨0, []⟩ [.ok 16, .ok 32, .ok 64, .ok 128, .ok 256]).reps,
     (simC exampleCfg (Disk.empty.applyAll
        ((simC exampleCfg Disk.empty ⟨0, [0, 0, 301]⟩ [.ok 1, .skip, .ok 2, .ok 4, .ok 8]).trace.take 9))
        ⟨0, []⟩ [.ok 16, .ok 32, .ok 64, .ok 128, .ok 256]).results.map (·.acc))
      = ([0, 0, 0], none, [0, 1, 1, 1], [3, 3], [1 + 2 + 16, 32 + 64 + 128]) := by
  decide

/-- a file saved for other parameters is refused with `ValueError`, without a call -/
example :
    ((simC (witnessCfg .atomic) ⟨fun _ => ⟨.valid ⟨⟨5, 0, 1⟩, 0⟩, false⟩, ⟨.absent, false⟩⟩ ⟨0, []⟩
        [.ok 1, .ok 1]).status,
     callLog (simC (witnessCfg .atomic) ⟨fun _ => ⟨.valid ⟨⟨5, 0, 1⟩, 0⟩, false⟩, ⟨.absent, false⟩⟩ ⟨0, []⟩
        [.ok 1, .ok 1]).trace)
      = (some .ValueError, []) := by
  decide

end PyPhysim.C07
