import PyPhysim.Proofs.C04Round
import PyPhysim.Proofs.C04Mrt
import PyPhysim.Proofs.C04Alamouti
import PyPhysim.Proofs.C04Energy
import PyPhysim.Proofs.C04Limit
import PyPhysim.Proofs.C04Mse
import PyPhysim.Proofs.C04Gmd
import PyPhysim.Proofs.C04Rank
import PyPhysim.Proofs.C04Examples
import PyPhysim.Proofs.C04ObjLimit
import PyPhysim.Proofs.C04Close
import PyPhysim.Proofs.C04GmdFromSvd

/-!
# C04 — MIMO schemes recover data over any full-rank channel within the power budget

Property theorems only.  All statements are about the executable model
`PyPhysim.C04` (`Model/C04.lean`) instantiated at `ℂ`; the correspondence check of
`harness/props/c04.py` ties the same definitions, compiled at binary64, to
`pyphysim/mimo/mimo.py`.

External kernels are parameters with contracts (checked numerically on every case
the harness runs):

* `Gp` = result of `np.linalg.pinv(A)`: `IsPinv A Gp` (the four Moore–Penrose conditions);
* `Ws` = result of `np.linalg.solve(A, B)`: `IsSolve A B Ws` (`A · Ws = B`);
* `(U, S, _)`, `(_, _, VH)` = results of the two `np.linalg.svd` calls of `SVDMimo`:
  `U · diag S · VH = H`, `Uᴴ U = 1`, `VH · VHᴴ = 1`;
* `(Q, R, _)`, `(_, _, P)` = results of the two `gmd` calls of `GMDMimo`:
  `Q · R · Pᴴ = H`, `Pᴴ P = 1` — a hypothesis of the *contract-conditional* theorems
  `gmd_roundtrip`, `encode_energy_gmd` (they hold for ANY routine with that contract).
  `util.misc.gmd` is pyphysim's own code, and its sweep is no longer only a contract: the
  `…_from_svd` theorems (section "GMD MIMO from the SVD contract alone") take the results of
  the executable model of the sweep (`PyPhysim.LinAlg.gmd`, `Model/C20Gmd.lean`, proved correct
  in `Proofs/C20GmdInv*.lean`) and assume only the contract of the full `np.linalg.svd`
  (`IsFullSvd`: `U Σ V_H = H`, unitary factors, positive non-increasing singular values).

`FullColRank H` is `IsUnit (Hᴴ H)`.
-/
namespace PyPhysim.C04
open PyPhysim.Proto Matrix Filter Topology

variable {Nr Nt n : Nat}

/-! ## zero-forcing and MMSE filters -/

/-- **ZF defining equation.** For a channel of full column rank every matrix satisfying
    the contract of `pinv` is a left inverse of the channel: `W_zf · H = 1`. -/
theorem zf_defining (H : Mat ℂ Nr Nt) (Gp : Mat ℂ Nt Nr) (hr : FullColRank H) (hp : IsPinv H Gp) :
    matMul (zfFilter Gp) H = eye := by
  have h1 := hp.hgh
  c04_matrix at h1
  c04_matrix
  exact Pf.pinv_left_inv _ _ hr h1

/-- … and it is *the* least-squares left inverse `(Hᴴ H)⁻¹ Hᴴ`: `(Hᴴ H) · W_zf = Hᴴ`,
    which determines it uniquely. -/
theorem zf_normal_equation (H : Mat ℂ Nr Nt) (Gp : Mat ℂ Nt Nr) (hp : IsPinv H Gp) :
    matMul (matMul (cT H) H) (zfFilter Gp) = cT H := by
  have h1 := hp.hgh
  have h3 := hp.hg_herm
  c04_matrix at h1
  c04_matrix at h3
  c04_matrix
  exact Pf.pinv_normal _ _ h1 h3

/-- uniqueness of the ZF filter under the `pinv` contract -/
theorem zf_unique (H : Mat ℂ Nr Nt) (G G' : Mat ℂ Nt Nr) (hr : FullColRank H)
    (hp : IsPinv H G) (hp' : IsPinv H G') : G = G' := by
  have e := zf_normal_equation H G hp
  have e' := zf_normal_equation H G' hp'
  c04_matrix at e
  c04_matrix at e'
  apply toM_inj
  exact Pf.pinv_unique _ _ _ hr e e'

/-- **MMSE defining equation.** Whatever `np.linalg.solve` returns for the two arguments
    the code builds satisfies `(Hᴴ H + σ² I) · W = Hᴴ`. -/
theorem mmse_defining (H : Mat ℂ Nr Nt) (nv : ℂ) (Ws : Mat ℂ Nt Nr)
    (hs : IsSolve (mmseLhs H nv) (mmseRhs H) Ws) :
    matMul (madd (matMul (cT H) H) (smul nv eye)) (mmseFilter Ws) = cT H := hs

/-- the MMSE system is uniquely solvable for every channel (any shape, any rank) as soon
    as the noise variance is positive -/
theorem mmse_unique (H : Mat ℂ Nr Nt) (s : ℝ) (hs : 0 < s) (W W' : Mat ℂ Nt Nr)
    (h : IsSolve (mmseLhs H (s : ℂ)) (mmseRhs H) W) (h' : IsSolve (mmseLhs H (s : ℂ)) (mmseRhs H) W') :
    W = W' := by
  unfold IsSolve at h h'
  c04_matrix at h
  c04_matrix at h'
  apply toM_inj
  exact Pf.unit_cancel (Pf.mmse_lhs_isUnit _ hs) (h.trans h'.symm)

/-- **MMSE vs ZF.** `(Hᴴ H + σ² I)(W_zf − W_mmse) = σ² W_zf`, i.e.
    `W_zf − W_mmse = σ² (Hᴴ H + σ² I)⁻¹ W_zf`. -/
theorem mmse_minus_zf (H : Mat ℂ Nr Nt) (nv : ℂ) (Gp Ws : Mat ℂ Nt Nr) (hp : IsPinv H Gp)
    (hs : IsSolve (mmseLhs H nv) (mmseRhs H) Ws) :
    matMul (mmseLhs H nv) (msub (zfFilter Gp) (mmseFilter Ws)) = smul nv (zfFilter Gp) := by
  have e := zf_normal_equation H Gp hp
  unfold IsSolve at hs
  c04_matrix at e
  c04_matrix at hs
  c04_matrix
  exact Pf.mmse_sub _ _ _ _ e hs

/-- **MMSE is the minimum-mean-square-error receiver.**  For unit-power uncorrelated
    symbols and white noise of variance `σ² > 0` the result of `solve` has a mean square
    error `‖W H − 1‖_F² + σ²‖W‖_F²` not larger than that of any other linear receiver `W'`
    — this, not only the normal equation, is what "MMSE filter" means. -/
theorem mmse_minimises_mse (H : Mat ℂ Nr Nt) (s : ℝ) (hs : 0 < s) (Ws : Mat ℂ Nt Nr)
    (h : IsSolve (mmseLhs H (s : ℂ)) (mmseRhs H) Ws) (W' : Mat ℂ Nt Nr) :
    (mseOf H (s : ℂ) (mmseFilter Ws)).re ≤ (mseOf H (s : ℂ) W').re := by
  unfold IsSolve at h
  c04_matrix at h
  rw [Pf.mseOf_eq, Pf.mseOf_eq]
  exact Pf.mse_min (toM H) s hs _ _ h

/-- `FullColRank` is the textbook notion: the rank equals the number of transmit antennas -/
theorem fullColRank_iff_rank (H : Mat ℂ Nr Nt) : FullColRank H ↔ (toM H).rank = Nt :=
  Pf.isUnit_gram_iff_rank (toM H)

/-! ## round trips of the linear schemes -/

/-- **BLAST with ZF** (noise variance not positive ⇒ the code selects the `pinv` branch):
    for every full-column-rank channel, every block whose length is a multiple of `Nt`
    (that is: whenever `encode` succeeds) decoding the noise-free channel output returns
    the data, symbol by symbol (Fortran-order reshape on both sides). -/
theorem blast_roundtrip (H : Mat ℂ Nr Nt) (hr : FullColRank H) (Gp Ws : Mat ℂ Nt Nr)
    (hp : IsPinv H Gp) (nv : ℂ) (hnv : ¬ 0 < nv.re) (x : Vec ℂ n) (E : Mat ℂ Nt (n / Nt))
    (hE : blastEncode Nt x = .ok E) (j : Nat) (hj : j < n) (hj' : j < Nt * (n / Nt)) :
    blastDecode (blastFilter nv Gp Ws) (matMul H E) ⟨j, hj'⟩ = x ⟨j, hj⟩ := by
  obtain ⟨hNt, h, hEm⟩ := Pf.blastEncode_ok hE
  have hGH := zf_defining H Gp hr hp
  c04_matrix at hGH
  have key : matMul (blastFilter nv Gp Ws) (matMul H E) = reshapeF Nt x h := by
    apply toM_inj
    rw [toM_matMul, toM_matMul, Pf.toM_blastFilter_zf nv hnv, hEm]
    exact Pf.scaled_roundtrip _ _ _ _ (sqrtNat_ne_zero hNt) hGH
  unfold blastDecode
  rw [key]
  exact Pf.flattenF_reshapeF Nt x h j hj hj'

/-- **MRC** is `Blast` on a channel with a single transmit antenna (`Nt = 1`): every
    non-zero channel vector recovers every block of every length. -/
theorem mrc_roundtrip (H : Mat ℂ Nr 1) (hne : ∃ r, H r 0 ≠ 0) (Gp Ws : Mat ℂ 1 Nr)
    (hp : IsPinv H Gp) (nv : ℂ) (hnv : ¬ 0 < nv.re) (x : Vec ℂ n) (j : Nat) (hj : j < n)
    (hj' : j < 1 * (n / 1)) :
    ∃ E, blastEncode 1 x = .ok E ∧
      blastDecode (blastFilter nv Gp Ws) (matMul H E) ⟨j, hj'⟩ = x ⟨j, hj⟩ := by
  have hr : FullColRank H := (Pf.isUnit_gram_col_iff (toM H)).mpr hne
  have h1 : n % 1 = 0 := Nat.mod_one n
  have hE : blastEncode 1 x = .ok (fun i j => reshapeF 1 x h1 i j / sqrtNat 1) := by
    unfold blastEncode
    rw [if_neg (by decide), dif_pos h1]
  exact ⟨_, hE, blast_roundtrip H hr Gp Ws hp nv hnv x _ hE j hj hj'⟩

/-- **SVD MIMO** (code after the `full_matrices=False` repair).  `(U, S)` come from the
    thin SVD computed in `_calc_receive_filter`, `VH` from the SVD computed in
    `_calc_precoder`; together they factor the channel, `U` has orthonormal columns and
    `VH` is unitary.  Then every block `encode` accepts is recovered (C-order reshape). -/
theorem svd_roundtrip (H : Mat ℂ Nr Nt) (hr : FullColRank H) (U : Mat ℂ Nr Nt) (S : Vec ℂ Nt)
    (VH : Mat ℂ Nt Nt) (hf : matMul (matMul U (diagM S)) VH = H)
    (hU : matMul (cT U) U = eye) (hV : matMul VH (cT VH) = eye)
    (x : Vec ℂ n) (E : Mat ℂ Nt (n / Nt)) (hE : precodeC (svdPrecoder VH) x = .ok E)
    (j : Nat) (hj : j < n) (hj' : j < Nt * (n / Nt)) :
    decodeC (svdFilter Nt U S) (matMul H E) ⟨j, hj'⟩ = x ⟨j, hj⟩ := by
  obtain ⟨hNt, h, hEm⟩ := Pf.precodeC_ok hE
  c04_matrix at hf
  c04_matrix at hU
  c04_matrix at hV
  have hS := Pf.sing_ne_zero _ _ _ _ hf hr
  have key : matMul (svdFilter Nt U S) (matMul H E) = reshapeC Nt x h := by
    apply toM_inj
    rw [hEm, toM_matMul, toM_matMul, toM_matMul, Pf.toM_svdFilter, Pf.toM_svdPrecoder]
    exact Pf.precoded_roundtrip _ _ _ _ _ (sqrtNat_ne_zero hNt) (Pf.svd_chain _ _ _ _ hf hU hV hS)
  unfold decodeC
  rw [key]
  exact Pf.flattenC_reshapeC Nt x h j hj hj'

/-- **GMD MIMO with ZF** (CONTRACT-CONDITIONAL form: `gmd` may be any routine with the stated
    contract; for the `gmd` that exists see `gmd_roundtrip_from_svd`).  `P` comes from the `gmd`
    call in `_calc_precoder`, `(Q, R)` from the one in `_calc_receive_filter`; `Gp` is what `pinv`
    returns for the equivalent channel `Q·R` the code hands to it.  Under the `gmd` contract
    (`Q R Pᴴ = H`, `Pᴴ P = 1`) every block `encode` accepts is recovered. -/
theorem gmd_roundtrip (H : Mat ℂ Nr Nt) (hr : FullColRank H) (Q : Mat ℂ Nr Nr) (R : Mat ℂ Nr Nt)
    (P : Mat ℂ Nt Nt) (hf : matMul (matMul Q R) (cT P) = H) (hP : matMul (cT P) P = eye)
    (Gp Ws : Mat ℂ Nt Nr) (hp : IsPinv (gmdChannelEq Q R) Gp) (nv : ℂ) (hnv : ¬ 0 < nv.re)
    (x : Vec ℂ n) (E : Mat ℂ Nt (n / Nt)) (hE : precodeC (gmdPrecoder P) x = .ok E)
    (j : Nat) (hj : j < n) (hj' : j < Nt * (n / Nt)) :
    decodeC (blastFilter nv Gp Ws) (matMul H E) ⟨j, hj'⟩ = x ⟨j, hj⟩ := by
  obtain ⟨hNt, h, hEm⟩ := Pf.precodeC_ok hE
  c04_matrix at hf
  c04_matrix at hP
  have hQR : toM (gmdChannelEq Q R) = toM H * toM P := by
    rw [toM_gmdChannelEq]
    exact Pf.gmd_channel_eq _ _ _ _ hf hP
  have hr' : FullColRank (gmdChannelEq Q R) := by
    unfold FullColRank
    rw [hQR]
    exact Pf.fullColRank_mul_unitary _ _ hr hP
  have hGH := zf_defining (gmdChannelEq Q R) Gp hr' hp
  c04_matrix at hGH
  rw [← toM_gmdChannelEq, hQR, ← Matrix.mul_assoc] at hGH
  have key : matMul (blastFilter nv Gp Ws) (matMul H E) = reshapeC Nt x h := by
    apply toM_inj
    rw [hEm, toM_matMul, toM_matMul, toM_matMul, Pf.toM_blastFilter_zf nv hnv, Pf.toM_gmdPrecoder]
    exact Pf.precoded_roundtrip _ _ _ _ _ (sqrtNat_ne_zero hNt) hGH
  unfold decodeC
  rw [key]
  exact Pf.flattenC_reshapeC Nt x h j hj hj'

/-- **MRT** (single receive antenna): every channel vector with at least one non-zero tap
    (zero taps are allowed: `exp(−j·angle 0) = 1`) recovers every block of any length. -/
theorem mrt_roundtrip (h : Vec ℂ Nt) (hne : ∃ i, h i ≠ 0) (x : Vec ℂ n) (j : Fin n) :
    mrtDecode h (matMul (fun (_ : Fin 1) i => h i) (mrtEncode h x)) j = x j :=
  Pf.mrt_roundtrip h hne x j

/-- **Alamouti** (`Nt = 2`, any number of receive antennas): no kernel, pure algebra.
    Every non-zero channel recovers every block of even length; `encode` accepts every
    even length. -/
theorem alamouti_roundtrip {B : Nat} (H : Mat ℂ Nr 2) (hne : ∃ r a, H r a ≠ 0) (x : Vec ℂ (2 * B)) :
    ∃ E, alamoutiEncode x = .ok E ∧ ∀ j, alamoutiDecode H (matMul H E) j = x j :=
  ⟨_, Pf.alamoutiEncode_ok x, fun j => Pf.alamouti_roundtrip H hne x j⟩

/-! ## the MMSE filter tends to the zero-forcing filter -/

/-- **MMSE → ZF.**  For a full-column-rank channel, any family `W σ²` of results of
    `np.linalg.solve` on the arguments the code builds (one for every `σ² > 0`) converges,
    entry by entry, to the zero-forcing filter as `σ² → 0⁺`. -/
theorem mmse_tendsto_zf (H : Mat ℂ Nr Nt) (hr : FullColRank H) (Gp : Mat ℂ Nt Nr) (hp : IsPinv H Gp)
    (W : ℝ → Mat ℂ Nt Nr)
    (hs : ∀ s : ℝ, 0 < s → IsSolve (mmseLhs H (s : ℂ)) (mmseRhs H) (W s)) (i : Fin Nt) (j : Fin Nr) :
    Tendsto (fun s => mmseFilter (W s) i j) (𝓝[>] 0) (𝓝 (zfFilter Gp i j)) := by
  have e := zf_normal_equation H Gp hp
  c04_matrix at e
  have hW : ∀ s : ℝ, 0 < s → Pf.regGram (toM H) s * toM (W s) = (toM H)ᴴ := by
    intro s h0
    have h1 := hs s h0
    unfold IsSolve at h1
    c04_matrix at h1
    exact h1
  have hT := Pf.mmse_tendsto (toM H) (toM Gp) (fun s => toM (W s)) hr e hW
  exact (tendsto_pi_nhds.mp ((tendsto_pi_nhds.mp hT) i)) j

/-- the contracts are satisfiable for every channel the property quantifies over: a
    full-column-rank channel has a Moore–Penrose inverse, and the MMSE system has a
    solution for every positive noise variance (so none of the theorems is vacuous) -/
theorem kernels_exist (H : Mat ℂ Nr Nt) :
    (FullColRank H → ∃ G, IsPinv H G) ∧
    (∀ s : ℝ, 0 < s → ∃ W, IsSolve (mmseLhs H (s : ℂ)) (mmseRhs H) W) := by
  constructor
  · intro hr
    obtain ⟨G, h1, h2, h3, h4⟩ := Pf.pinv_exists (toM H) hr
    refine ⟨fun i j => G i j, ⟨?_, ?_, ?_, ?_⟩⟩
    · c04_matrix; exact h1
    · c04_matrix; exact h2
    · c04_matrix; exact h3
    · c04_matrix; exact h4
  · intro s hs
    obtain ⟨W, hW⟩ := Pf.mmse_exists (toM H) hs
    refine ⟨fun i j => W i j, ?_⟩
    unfold IsSolve
    c04_matrix
    exact hW

/-! ## transmitted energy -/

/-- **Energy, Blast / MRC.**  Every channel use radiates `1/Nt` of the energy of the `Nt`
    symbols it carries; the whole block radiates `1/Nt` of the block's symbol energy; hence
    the average energy per channel use equals the mean symbol energy. -/
theorem encode_energy_blast (x : Vec ℂ n) (E : Mat ℂ Nt (n / Nt)) (hE : blastEncode Nt x = .ok E) :
    (∃ h : n % Nt = 0, ∀ j, colEnergy E j = colEnergy (reshapeF Nt x h) j / (Nt : ℂ)) ∧
    totalEnergy E = vecEnergy x / (Nt : ℂ) ∧
    (0 < n → totalEnergy E / ((n / Nt : ℕ) : ℂ) = vecEnergy x / (n : ℂ)) := by
  obtain ⟨hNt, h, hEm⟩ := Pf.blastEncode_ok hE
  have hEq : E = fun i j => reshapeF Nt x h i j / sqrtNat Nt := by
    apply toM_inj
    rw [hEm]
    ext i j
    simp [div_eq_inv_mul]
  have hcol : ∀ j, colEnergy E j = colEnergy (reshapeF Nt x h) j / (Nt : ℂ) := by
    intro j
    rw [hEq]
    exact Pf.scaled_colEnergy _ j
  have htot : totalEnergy E = vecEnergy x / (Nt : ℂ) := by
    rw [Pf.totalEnergy_div E _ hcol, Pf.totalEnergy_reshapeF]
  exact ⟨⟨h, hcol⟩, htot, fun hn => Pf.avg_of_total hNt h hn _ _ htot⟩

/-- **Energy, SVD MIMO.**  The same, for every precoder result `VH` with `VH · VHᴴ = 1`
    (the `svd` contract). -/
theorem encode_energy_svd (VH : Mat ℂ Nt Nt) (hV : matMul VH (cT VH) = eye) (x : Vec ℂ n)
    (E : Mat ℂ Nt (n / Nt)) (hE : precodeC (svdPrecoder VH) x = .ok E) :
    (∃ h : n % Nt = 0, ∀ j, colEnergy E j = colEnergy (reshapeC Nt x h) j / (Nt : ℂ)) ∧
    totalEnergy E = vecEnergy x / (Nt : ℂ) ∧
    (0 < n → totalEnergy E / ((n / Nt : ℕ) : ℂ) = vecEnergy x / (n : ℂ)) := by
  obtain ⟨hNt, h, hEm⟩ := Pf.precodeC_ok hE
  c04_matrix at hV
  have hcol : ∀ j, colEnergy E j = colEnergy (reshapeC Nt x h) j / (Nt : ℂ) := by
    intro j
    rw [hEm]
    exact Pf.precoded_colEnergy _ (Pf.svdPrecoder_gram VH hV) _ j
  have htot : totalEnergy E = vecEnergy x / (Nt : ℂ) := by
    rw [Pf.totalEnergy_div E _ hcol, Pf.totalEnergy_reshapeC]
  exact ⟨⟨h, hcol⟩, htot, fun hn => Pf.avg_of_total hNt h hn _ _ htot⟩

/-- **Energy, GMD MIMO** (CONTRACT-CONDITIONAL form; for the `gmd` that exists see
    `gmd_encode_energy_from_svd`).  The same, for every `gmd` result `P` with `Pᴴ P = 1`. -/
theorem encode_energy_gmd (P : Mat ℂ Nt Nt) (hP : matMul (cT P) P = eye) (x : Vec ℂ n)
    (E : Mat ℂ Nt (n / Nt)) (hE : precodeC (gmdPrecoder P) x = .ok E) :
    (∃ h : n % Nt = 0, ∀ j, colEnergy E j = colEnergy (reshapeC Nt x h) j / (Nt : ℂ)) ∧
    totalEnergy E = vecEnergy x / (Nt : ℂ) ∧
    (0 < n → totalEnergy E / ((n / Nt : ℕ) : ℂ) = vecEnergy x / (n : ℂ)) := by
  obtain ⟨hNt, h, hEm⟩ := Pf.precodeC_ok hE
  c04_matrix at hP
  have hcol : ∀ j, colEnergy E j = colEnergy (reshapeC Nt x h) j / (Nt : ℂ) := by
    intro j
    rw [hEm]
    exact Pf.precoded_colEnergy _ (Pf.gmdPrecoder_gram P hP) _ j
  have htot : totalEnergy E = vecEnergy x / (Nt : ℂ) := by
    rw [Pf.totalEnergy_div E _ hcol, Pf.totalEnergy_reshapeC]
  exact ⟨⟨h, hcol⟩, htot, fun hn => Pf.avg_of_total hNt h hn _ _ htot⟩

/-- **Energy, MRT.**  One symbol per channel use; every channel use radiates exactly the
    energy of its symbol (each of the `Nt ≥ 1` antennas radiates `1/Nt` of it), for every
    channel, including zero taps. -/
theorem encode_energy_mrt (h : Vec ℂ Nt) (hNt : 0 < Nt) (x : Vec ℂ n) :
    (∀ j, colEnergy (mrtEncode h x) j = x j * conj (x j)) ∧
    totalEnergy (mrtEncode h x) = vecEnergy x := by
  have hcol : ∀ j, colEnergy (mrtEncode h x) j = x j * conj (x j) :=
    fun j => Pf.mrt_colEnergy h hNt x j
  refine ⟨hcol, ?_⟩
  simp only [totalEnergy, vecEnergy, hcol]

/-- **Energy, Alamouti.**  One symbol per channel use on average; every channel use
    radiates the mean of the energies of the two symbols of its codeword, and the whole
    block radiates exactly the energy of the symbols it carries. -/
theorem encode_energy_alamouti {B : Nat} (x : Vec ℂ (2 * B)) :
    ∃ E, alamoutiEncode x = .ok E ∧
      (∀ j, colEnergy E j = (x j * conj (x j) + x (Pf.alaPartner j) * conj (x (Pf.alaPartner j))) / 2) ∧
      totalEnergy E = vecEnergy x :=
  ⟨_, Pf.alamoutiEncode_ok x, fun j => Pf.alamouti_colEnergy' x j, Pf.alamouti_totalEnergy x⟩

/-! ## guards: the shapes and lengths each scheme requires -/

/-- `Blast.encode` (hence `MRC.encode`) raises `ValueError` exactly for the block lengths
    that are not a multiple of the number of layers -/
theorem blast_encode_rejects (hNt : 0 < Nt) (x : Vec ℂ n) :
    n % Nt ≠ 0 ↔ blastEncode Nt x = .error .ValueError := Pf.blastEncode_error hNt

/-- so do `SVDMimo.encode` and `GMDMimo.encode` -/
theorem precode_rejects (hNt : 0 < Nt) (W : Mat ℂ Nt Nt) (x : Vec ℂ n) :
    n % Nt ≠ 0 ↔ precodeC W x = .error .ValueError := Pf.precodeC_error hNt

/-- … and all three accept every block length that is a multiple of the layers (the
    hypothesis `encode … = .ok E` of the round-trip theorems is exactly "length is a
    multiple of `Nt`") -/
theorem encode_accepts (hNt : 0 < Nt) (W : Mat ℂ Nt Nt) (x : Vec ℂ n) (h : n % Nt = 0) :
    (∃ E, blastEncode Nt x = .ok E) ∧ (∃ E, precodeC W x = .ok E) := by
  have h0 : Nt ≠ 0 := Nat.pos_iff_ne_zero.mp hNt
  constructor
  · exact ⟨_, by unfold blastEncode; rw [if_neg h0, dif_pos h]⟩
  · exact ⟨_, by unfold precodeC; rw [if_neg h0, dif_pos h]⟩

/-- `Alamouti.encode` fails (`IndexError`) on every odd block length -/
theorem alamouti_encode_rejects_odd (x : Vec ℂ n) (h : n % 2 = 1) :
    alamoutiEncode x = .error .IndexError := Pf.alamoutiEncode_odd x h

/-- the channel shapes the schemes accept: Alamouti needs `Nt = 2`, MRT needs `Nr = 1`,
    MRC turns a vector into a single-transmit-antenna column -/
theorem shape_guards (nr nt len : Nat) :
    (alamoutiShape [nr, nt] = .error .ValueError ↔ nt ≠ 2) ∧
    (misoShape [nr, nt] = .error .ValueError ↔ nr ≠ 1) ∧
    (nt = 2 → alamoutiShape [nr, nt] = .ok (nr, nt)) ∧
    (nr = 1 → misoShape [nr, nt] = .ok (nr, nt)) ∧
    misoShape [len] = .ok (1, len) ∧ mrcShape [len] = .ok (len, 1) := by
  refine ⟨?_, ?_, ?_, ?_, rfl, rfl⟩
  · by_cases h : nt = 2 <;> simp [alamoutiShape, h]
  · by_cases h : nr = 1 <;> simp [misoShape, h]
  · intro h; simp [alamoutiShape, h]
  · intro h; simp [misoShape, h]

/-- `set_noise_var` rejects exactly the negative values; `None` selects zero forcing -/
theorem noise_var_guard (s : ℝ) :
    (setNoiseVar (some (s : ℂ)) = .error .ValueError ↔ s < 0) ∧
    (0 ≤ s → setNoiseVar (some (s : ℂ)) = .ok (s : ℂ)) ∧
    setNoiseVar (none : Option ℂ) = .ok 0 := by
  refine ⟨?_, ?_, rfl⟩
  · by_cases h : 0 ≤ s
    · simp [setNoiseVar, nonnegB_def, h, not_lt.mpr h]
    · simp [setNoiseVar, nonnegB_def, h, not_le.mp h]
  · intro h
    simp [setNoiseVar, nonnegB_def, h]

/-! ## consistency of `encode` with the advertised precoder; the `gmd` step -/

/-- `Blast.encode` is the linear precoding `W · X` with the `W = 1/√Nt` that
    `_calc_precoder` reports (the matrix `calc_SINRs` works with) -/
theorem blast_encode_is_precoding (x : Vec ℂ n) (E : Mat ℂ Nt (n / Nt)) (hE : blastEncode Nt x = .ok E) :
    ∃ h : n % Nt = 0, E = matMul (blastPrecoder Nt) (reshapeF Nt x h) := by
  obtain ⟨_, h, hEm⟩ := Pf.blastEncode_ok hE
  refine ⟨h, ?_⟩
  apply toM_inj
  rw [hEm, toM_matMul, Pf.toM_blastPrecoder, Matrix.smul_mul, Matrix.one_mul]

/-- **One Givens step of `gmd`** (the 2×2 algebra on its own; the WHOLE sweep — permutation
    bookkeeping, existence of a straddling partner, array bounds — is proved for the executable
    model, see `gmd_contract_from_svd` below and `Properties/C20.lean: gmd_correct_complex`): for
    `δ2 ≤ σ̄ ≤ δ1`, `δ2 < δ1` the rotations the code builds are orthogonal and map
    `diag(δ1, δ2)` to `[[σ̄, x], [0, y]]` with the stored `x = s c (δ2² − δ1²)/σ̄`,
    `y = δ1 δ2 / σ̄`. -/
theorem gmd_step_preserves (d1 d2 sb : ℝ) (h2 : 0 ≤ d2) (h12 : d2 < d1) (hlo : d2 ≤ sb) (hhi : sb ≤ d1)
    (hsb : sb ≠ 0) :
    let c := Real.sqrt ((sb ^ 2 - d2 ^ 2) / (d1 ^ 2 - d2 ^ 2))
    let s := Real.sqrt (1 - c ^ 2)
    let G1 : Matrix (Fin 2) (Fin 2) ℝ := !![c, -s; s, c]
    let G2 : Matrix (Fin 2) (Fin 2) ℝ := (1 / sb) • !![c * d1, -s * d2; s * d2, c * d1]
    G2ᵀ * !![d1, 0; 0, d2] * G1 = !![sb, s * c * (d2 ^ 2 - d1 ^ 2) / sb; 0, d1 * d2 / sb] ∧
    G1ᵀ * G1 = 1 ∧ G2ᵀ * G2 = 1 := by
  intro c s
  obtain ⟨hc, hs⟩ := Pf.gmd_cs d1 d2 sb h2 h12 hlo hhi
  exact Pf.gmd_step d1 d2 sb c s hsb hc hs

/-! ## GMD MIMO from the SVD contract alone

`GMDMimo` runs `gmd(*np.linalg.svd(channel))` — once in `_calc_precoder` (keeps `P`), once in
`_calc_receive_filter` (keeps `Q`, `R`); the real code therefore calls numpy's SVD TWICE on the same
array.  `np.linalg.svd` is a deterministic function of the array contents, so both calls return
the same triple `(U, S, V_H)` (the harness checks this on every case: contract `gmd-two-calls`),
and `gmd` is a function of that triple: below ONE triple and ONE result `gmdCall U S V_H σ̄` of the
executable model of the sweep stand for both calls.  (Two *different* valid SVDs of one channel
would in general not fit together: `Q₂ R₂ P₁ᴴ ≠ H`.)

What is assumed: the contract `IsFullSvd` of LAPACK's SVD and, in the round trip, the contract of
`pinv`.  What is no longer assumed: anything about `gmd`. -/

/-- **The `gmd` contract is a theorem (central lemma).**  For every channel with a full SVD
    `U Σ V_H = H` (unitary `U`, `V_H`, positive non-increasing singular values) and every `σ̄ > 0`
    with `σ̄^p = ∏ S`, `p = min(Nr, Nt) ≥ 1`, the model of the code's `gmd(U, S, V_H)` raises
    nothing and returns `(Q, R, P)` with `Q R Pᴴ = H`, `Pᴴ P = 1`, `Qᴴ Q = 1`, `R` upper triangular
    with the constant diagonal `σ̄` — exactly what `gmd_roundtrip` / `encode_energy_gmd` take as a
    hypothesis, plus the two clauses that make it a geometric-mean decomposition. -/
theorem gmd_contract_from_svd (H : Mat ℂ Nr Nt) (U : Mat ℂ Nr Nr) (S : Fin (min Nr Nt) → ℝ)
    (VH : Mat ℂ Nt Nt) (hsvd : IsFullSvd H U S VH) (hp : 0 < min Nr Nt) (sb : ℝ) (hsb : 0 < sb)
    (hprod : sb ^ (min Nr Nt) = ∏ i, S i) :
    ∃ Q R P, gmdCall U S VH sb = .ok (Q, R, P) ∧ IsGmd H sb Q R P :=
  Pf.gmd_contract_of_svd H U S VH hsvd hp sb hsb hprod

/-- … in particular for the `σ̄ = exp(mean(log S))` the code computes (read over the reals) -/
theorem gmd_contract_from_svd_code_sigma_bar (H : Mat ℂ Nr Nt) (U : Mat ℂ Nr Nr)
    (S : Fin (min Nr Nt) → ℝ) (VH : Mat ℂ Nt Nt) (hsvd : IsFullSvd H U S VH) (hp : 0 < min Nr Nt) :
    ∃ Q R P, gmdCall U S VH (gmdSigmaBar S) = .ok (Q, R, P) ∧ IsGmd H (gmdSigmaBar S) Q R P :=
  Pf.gmd_contract_of_svd H U S VH hsvd hp _ (Pf.gmdSigmaBar_spec S hp hsvd.pos).1
    (Pf.gmdSigmaBar_spec S hp hsvd.pos).2

/-- **Positive singular values are full column rank** (`Nt ≤ Nr`; conversely full column rank
    forces `Nt ≤ Nr`): the hypothesis `FullColRank H` of the contract-conditional theorems is part
    of the SVD contract. -/
theorem fullColRank_from_svd (H : Mat ℂ Nr Nt) (U : Mat ℂ Nr Nr) (S : Fin (min Nr Nt) → ℝ)
    (VH : Mat ℂ Nt Nt) :
    (IsFullSvd H U S VH → Nt ≤ Nr → FullColRank H) ∧ (FullColRank H → Nt ≤ Nr) :=
  ⟨fun hsvd h => Pf.fullColRank_of_svd H U S VH hsvd h, Pf.le_of_fullColRank H⟩

/-- **GMD MIMO with ZF, from the SVD contract alone.**  For every channel with `1 ≤ Nt ≤ Nr` and a
    full SVD with positive singular values, the sweep succeeds, and with the `P`, `Q`, `R` IT
    RETURNS (not an assumed decomposition): precoder `P/√Nt`, equivalent channel `Q·R` handed to
    `pinv`, zero-forcing branch — every block `encode` accepts is recovered from the noise-free
    channel output, symbol by symbol. -/
theorem gmd_roundtrip_from_svd (H : Mat ℂ Nr Nt) (U : Mat ℂ Nr Nr) (S : Fin (min Nr Nt) → ℝ)
    (VH : Mat ℂ Nt Nt) (hsvd : IsFullSvd H U S VH) (hNt0 : 0 < Nt) (hNt : Nt ≤ Nr) :
    ∃ Q R P, gmdCall U S VH (gmdSigmaBar S) = .ok (Q, R, P) ∧
      ∀ (Gp Ws : Mat ℂ Nt Nr), IsPinv (gmdChannelEq Q R) Gp → ∀ nv : ℂ, ¬ 0 < nv.re →
      ∀ (n : Nat) (x : Vec ℂ n) (E : Mat ℂ Nt (n / Nt)), precodeC (gmdPrecoder P) x = .ok E →
      ∀ (j : Nat) (hj : j < n) (hj' : j < Nt * (n / Nt)),
        decodeC (blastFilter nv Gp Ws) (matMul H E) ⟨j, hj'⟩ = x ⟨j, hj⟩ := by
  obtain ⟨Q, R, P, hok, hg⟩ :=
    gmd_contract_from_svd_code_sigma_bar H U S VH hsvd (Nat.lt_min.mpr ⟨lt_of_lt_of_le hNt0 hNt, hNt0⟩)
  exact ⟨Q, R, P, hok, fun Gp Ws hp nv hnv n x E hE j hj hj' =>
    gmd_roundtrip H (Pf.fullColRank_of_svd H U S VH hsvd hNt) Q R P hg.factor hg.p_unitary Gp Ws hp nv hnv
      x E hE j hj hj'⟩

/-- **Energy, GMD MIMO, from the SVD contract alone** (any shape with `min(Nr, Nt) ≥ 1`): with the
    `P` the sweep returns, every channel use radiates `1/Nt` of the energy of the `Nt` symbols it
    carries, the block `1/Nt` of the block's symbol energy, the average per channel use is the mean
    symbol energy. -/
theorem gmd_encode_energy_from_svd (H : Mat ℂ Nr Nt) (U : Mat ℂ Nr Nr) (S : Fin (min Nr Nt) → ℝ)
    (VH : Mat ℂ Nt Nt) (hsvd : IsFullSvd H U S VH) (hp : 0 < min Nr Nt) :
    ∃ Q R P, gmdCall U S VH (gmdSigmaBar S) = .ok (Q, R, P) ∧
      ∀ (n : Nat) (x : Vec ℂ n) (E : Mat ℂ Nt (n / Nt)), precodeC (gmdPrecoder P) x = .ok E →
        (∃ h : n % Nt = 0, ∀ j, colEnergy E j = colEnergy (reshapeC Nt x h) j / (Nt : ℂ)) ∧
        totalEnergy E = vecEnergy x / (Nt : ℂ) ∧
        (0 < n → totalEnergy E / ((n / Nt : ℕ) : ℂ) = vecEnergy x / (n : ℂ)) := by
  obtain ⟨Q, R, P, hok, hg⟩ := gmd_contract_from_svd_code_sigma_bar H U S VH hsvd hp
  exact ⟨Q, R, P, hok, fun n x E hE => encode_energy_gmd P hg.p_unitary x E hE⟩

/-- **What the GMD post-processing sees.**  With the `Q`, `R`, `P` the sweep returns, the channel
    between the precoder `P` and the matched rotation `Qᴴ` is `Qᴴ (H P) = R`: upper triangular, every
    layer with the same gain `σ̄`, the geometric mean of the singular values (`σ̄ > 0`,
    `σ̄^p = ∏ S`); and the equivalent channel the code hands to `pinv` / `solve` is `Q R = H P`. -/
theorem gmd_equal_gain_layers_from_svd (H : Mat ℂ Nr Nt) (U : Mat ℂ Nr Nr) (S : Fin (min Nr Nt) → ℝ)
    (VH : Mat ℂ Nt Nt) (hsvd : IsFullSvd H U S VH) (hp : 0 < min Nr Nt) :
    ∃ Q R P, gmdCall U S VH (gmdSigmaBar S) = .ok (Q, R, P) ∧
      matMul (cT Q) (matMul H P) = R ∧ gmdChannelEq Q R = matMul H P ∧
      (∀ i j, j.val < i.val → R i j = 0) ∧
      (∀ i j, i.val = j.val → i.val < min Nr Nt → R i j = ((gmdSigmaBar S : ℝ) : ℂ)) ∧
      0 < gmdSigmaBar S ∧ gmdSigmaBar S ^ (min Nr Nt) = ∏ i, S i := by
  obtain ⟨Q, R, P, hok, hg⟩ := gmd_contract_from_svd_code_sigma_bar H U S VH hsvd hp
  exact ⟨Q, R, P, hok, Pf.gmd_triangular H _ Q R P hg, Pf.gmd_channelEq_eq H _ Q R P hg, hg.upper, hg.diag,
    Pf.gmdSigmaBar_spec S hp hsvd.pos⟩

/-! ## the scheme objects as state machines: no stale derived state

`Model/C04Obj.lean`: an object is constructed with a channel and then driven by any
history of `set_channel_matrix`, `set_noise_var`, `encode`, `decode`,
precoder / filter and SINR queries (`Op`).  The kernels are a function parameter `K`. -/

/-- **After ANY history the object is its current configuration and nothing else.**
    The state reached is `(scheme, channel, noise variance)` with the channel / noise
    variance of the last *accepted* `set_channel_matrix` / `set_noise_var` call (`cfgChan`,
    `cfgNv`, defined over the history independently of `step`; rejected calls and all
    `encode` / `decode` / query calls leave no trace). -/
theorem object_state_is_configuration (K : Kernels ℂ) (ops : List (Op ℂ)) (o : Obj ℂ) :
    run K o ops = ⟨o.scheme, cfgChan o.scheme o.chan ops, cfgNv o.scheme o.nv ops⟩ :=
  Pf.run_state K ops o

/-- **Every observation after a history equals the one of a freshly configured object.**
    `o0 = cls(c0)` driven through `ops`, versus `f = cls(cL)` followed by
    `set_noise_var(vL)`, where `cL` stores the channel and `vL` the noise variance the
    history leaves configured: `encode`, `decode`, the precoder / receive filter pair and
    the SINRs agree — whatever was decoded, with whatever filter, earlier in the history. -/
theorem history_eq_fresh_object (K : Kernels ℂ) (s : Scheme) (c0 cL : ChanArg ℂ) (o0 f : Obj ℂ)
    (h0 : construct s c0 = .ok o0) (hf : construct s cL = .ok f) (ops : List (Op ℂ))
    (hc : f.chan = cfgChan s o0.chan ops) (vL : Option ℂ)
    (hv : s.blastFamily = true → setNoiseVar vL = .ok (cfgNv s o0.nv ops)) (obs : Op ℂ) :
    (step K (run K o0 ops) obs).2 = (step K (run K f [.setNoiseVar vL]) obs).2 := by
  rw [Pf.run_eq_fresh K s c0 cL o0 f h0 hf ops hc vL hv]

/-- observations never change the state (so they cannot make a later observation stale) -/
theorem observation_keeps_state (K : Kernels ℂ) (o : Obj ℂ) (op : Op ℂ)
    (h : ∀ c, op ≠ .setChannel c) (h' : ∀ v, op ≠ .setNoiseVar v) : (step K o op).1 = o :=
  Pf.step_obs_state K o op h h'

/-- **Round trip after any history (Blast / MRC).**  Whatever the object did before
    (decodes with an MMSE filter included), once the configured noise variance is `None`/`0`
    (not positive) and the configured channel `c` has full column rank, decoding the
    noise-free channel output of what the object encodes returns the data. -/
theorem blast_object_roundtrip_after_history (K : Kernels ℂ) (o0 : Obj ℂ)
    (hs : o0.scheme = .blast ∨ o0.scheme = .mrc) (ops : List (Op ℂ)) (c : Chan ℂ)
    (hoc : (run K o0 ops).chan = some c)
    (hr : FullColRank c.H) (hp : IsPinv c.H (K.pinv c.H))
    (hnv : ¬ 0 < (run K o0 ops).nv.re) (x : Vec ℂ n) (E : Mat ℂ c.nt (n / c.nt))
    (hE : (step K (run K o0 ops) (.encode n x)).2 = .mat _ _ E) :
    ∃ d : Vec ℂ (c.nt * (n / c.nt)),
      (step K (run K o0 ops) (.decode _ _ (matMul c.H E))).2 = .vec _ d ∧
      ∀ (j : Nat) (hj : j < n) (hj' : j < c.nt * (n / c.nt)), d ⟨j, hj'⟩ = x ⟨j, hj⟩ := by
  have hs' : (run K o0 ops).scheme = .blast ∨ (run K o0 ops).scheme = .mrc := by
    rw [Pf.run_scheme]; exact hs
  exact Pf.blast_obj_roundtrip K (run K o0 ops) c hoc hs' hr hp hnv x E hE

/-- **SNR sweep on one object.**  `set_noise_var(σ²)` replaces the stored noise variance and
    nothing else, and the receive filter the object then computes for its channel `c` tends,
    entry by entry, to the zero-forcing filter it computes after `set_noise_var(0)` /
    `set_noise_var(None)`. -/
theorem object_sweep_tendsto_zf (K : Kernels ℂ) (o : Obj ℂ) (hb : o.scheme.blastFamily = true)
    (c : Chan ℂ) (hr : FullColRank c.H) (hp : IsPinv c.H (K.pinv c.H))
    (hsol : ∀ s : ℝ, 0 < s → IsSolve (mmseLhs c.H (s : ℂ)) (mmseRhs c.H)
      (K.solve (mmseLhs c.H (s : ℂ)) (mmseRhs c.H))) :
    (∀ s : ℝ, 0 ≤ s → (step K o (.setNoiseVar (some (s : ℂ)))).1 = { o with nv := (s : ℂ) }) ∧
    (step K o (.setNoiseVar none)).1 = { o with nv := 0 } ∧
    ∀ i j, Tendsto (fun s : ℝ => blastFilterK K c.H (s : ℂ) i j) (𝓝[>] 0)
      (𝓝 (blastFilterK K c.H 0 i j)) :=
  ⟨fun s hs => (Pf.step_setNoiseVar K o hb s hs).1, (Pf.step_setNoiseVar K o hb 0 le_rfl).2,
    fun i j => Pf.blastFilterK_tendsto K c.H hr hp hsol i j⟩

/-- **Same configuration, same object (R7: any entry point, any order, any repetition).**
    Two objects of the same class — built with or without a channel (`construct`,
    `constructEmpty`), driven through ANY two histories — are in the same state as soon as
    the histories leave the same channel and the same noise variance configured; hence
    every later `encode` / `decode` / query agrees. -/
theorem same_configuration_same_object (K : Kernels ℂ) (o1 o2 : Obj ℂ) (ops1 ops2 : List (Op ℂ))
    (hs : o1.scheme = o2.scheme)
    (hc : cfgChan o1.scheme o1.chan ops1 = cfgChan o2.scheme o2.chan ops2)
    (hv : cfgNv o1.scheme o1.nv ops1 = cfgNv o2.scheme o2.nv ops2) :
    run K o1 ops1 = run K o2 ops2 := by
  rw [Pf.run_state K ops1 o1, Pf.run_state K ops2 o2, hc, hv, hs]

/-- **A call that raises leaves the object exactly as it was (R4).**  Whatever operation
    returns a Python exception (rejected channel shape, negative noise variance,
    `set_noise_var` on a class without it, bad block length, wrong number of rows, missing
    channel …) the state is unchanged. -/
theorem rejected_call_keeps_state (K : Kernels ℂ) (o : Obj ℂ) (op : Op ℂ) (e : PyErr)
    (h : (step K o op).2 = .err e) : (step K o op).1 = o :=
  Pf.step_err_state K o op e h

/-! ## every way of handing the channel to a scheme -/

/-- **Constructor path = setter path.**  `cls(channel)` is `cls()` followed by the class's
    own `set_channel_matrix(channel)`: the same object when the channel is accepted, the same
    exception (and a still channel-less object) when it is rejected. -/
theorem constructor_is_setter (K : Kernels ℂ) (s : Scheme) (c : ChanArg ℂ) :
    (∀ o, construct s c = .ok o ↔ step K (constructEmpty s) (.setChannel c) = (o, .done)) ∧
    (∀ e, construct s c = .error e ↔
      step K (constructEmpty s) (.setChannel c) = (constructEmpty s, .err e)) :=
  Pf.construct_eq_setter K s c

/-- **Later replacement = constructor.**  Re-pointing any object of the class (whatever
    channel it had, in whatever layout) with `set_channel_matrix(channel)` gives the object
    `cls(channel)` builds (noise variance at its default), hence the same `encode` /
    `decode` / stored channel / SINRs afterwards. -/
theorem replacement_is_constructor (K : Kernels ℂ) (s : Scheme) (c : ChanArg ℂ) (o o' : Obj ℂ)
    (h : construct s c = .ok o) (hs : o'.scheme = s) (hn : o'.nv = 0) (obs : Op ℂ) :
    step K o' (.setChannel c) = (o, .done) ∧
    (step K (step K o' (.setChannel c)).1 obs).2 = (step K o obs).2 := by
  have e := Pf.replace_eq_construct K s c o o' h hs hn
  exact ⟨e, by rw [e]⟩

/-- **The documented channel layouts are the same channel.**  A vector of `Nr` gains and
    the `Nr × 1` column are stored identically by MRC (as `Nr × 1`), a vector of `Nt` gains
    and the `1 × Nt` row identically by MRT (as `1 × Nt`), a 2-vector and the `1 × 2` row
    identically by Alamouti — so by the two theorems above every observation agrees,
    whichever layout and whichever entry point was used; reading `_channel` returns that
    2-D matrix. -/
theorem channel_layouts_agree (K : Kernels ℂ) (n : Nat) (v : Vec ℂ n) (w : Vec ℂ 2) :
    storeChan .mrc (.vec n v) = storeChan .mrc (.mat n 1 (fun i _ => v i)) ∧
    storeChan .mrt (.vec n v) = storeChan .mrt (.mat 1 n (fun _ j => v j)) ∧
    storeChan .alamouti (.vec 2 w) = storeChan .alamouti (.mat 1 2 (fun _ j => w j)) ∧
    storeChan .mrc (.vec n v) = .ok ⟨n, 1, fun i _ => v i⟩ ∧
    (∀ o, construct .mrc (.vec n v) = .ok o →
      (step K o .channel).2 = .mat n 1 (fun i _ => v i)) := by
  refine ⟨rfl, rfl, rfl, rfl, ?_⟩
  intro o ho
  cases ho
  rfl

/-! ## argument forms and read-back of the configuration (R8, R11) -/

/-- **Omitted / `None` noise variance of `_calc_receive_filter` is `0.0`** (the default
    argument, the explicit `None` and the explicit `0.0` select the same zero-forcing
    filter). -/
theorem filter_default_noise_var (K : Kernels ℂ) (o : Obj ℂ) :
    step K o (.filters none) = step K o (.filters (some 0)) := rfl

/-- **What was configured is what is read back, after any history**: `_channel` is the
    last accepted channel (as a 2-D matrix, `None` if there never was one), `_noise_var`
    the last accepted noise variance, `getNumberOfLayers()` the `Nt` of that channel
    (`1` for MRT / Alamouti) — queries in between (`encode`, `decode`, `calc_*`,
    `getNumberOfLayers`, reading attributes) leave no trace (`observation_keeps_state`). -/
theorem configuration_read_back (K : Kernels ℂ) (o : Obj ℂ) (ops : List (Op ℂ)) :
    (step K (run K o ops) .channel).2 =
      (match cfgChan o.scheme o.chan ops with
       | some c => .mat c.nr c.nt c.H
       | none => .done) ∧
    (o.scheme.blastFamily = true →
      (step K (run K o ops) .noiseVar).2 = .vec 1 (fun _ => cfgNv o.scheme o.nv ops)) := by
  rw [Pf.run_state K ops o]
  refine ⟨?_, ?_⟩
  · simp only [step]
    cases cfgChan o.scheme o.chan ops <;> rfl
  · intro hb
    simp [step, hb]

/-! ## R15 — distinct values that are merely close

The model is a function of the *exact* value: no comparison in it has a tolerance.  The
theorems below say what a tolerance (an `isclose`, a rounded key, an absolute threshold)
would break. -/

/-- **A setter takes effect for every new value** (noise variance): whatever the object held,
    after `set_noise_var(σ²)` it holds exactly `σ²` — read back bit for bit — and the object
    has changed as soon as `σ²` differs from the old value, by however little. -/
theorem setter_takes_effect_for_every_new_value (K : Kernels ℂ) (o : Obj ℂ)
    (hb : o.scheme.blastFamily = true) (s : ℝ) (hs : 0 ≤ s) :
    (step K o (.setNoiseVar (some (s : ℂ)))).1.nv = (s : ℂ) ∧
    (step K (step K o (.setNoiseVar (some (s : ℂ)))).1 .noiseVar).2 = .vec 1 (fun _ => (s : ℂ)) ∧
    ((s : ℂ) ≠ o.nv → (step K o (.setNoiseVar (some (s : ℂ)))).1 ≠ o) := by
  rw [(Pf.step_setNoiseVar K o hb s hs).1]
  refine ⟨rfl, ?_, ?_⟩
  · simp [step, hb]
  · intro hne h
    exact hne (congrArg Obj.nv h)

/-- **… and so does `set_channel_matrix`**: an accepted channel is stored as it is (and read
    back as it is), and the object has changed as soon as the stored channel differs. -/
theorem channel_setter_takes_effect_for_every_new_value (K : Kernels ℂ) (o : Obj ℂ) (c : ChanArg ℂ)
    (ch : Chan ℂ) (h : storeChan o.scheme c = .ok ch) :
    (step K o (.setChannel c)).1.chan = some ch ∧
    (step K (step K o (.setChannel c)).1 .channel).2 = .mat ch.nr ch.nt ch.H ∧
    (o.chan ≠ some ch → (step K o (.setChannel c)).1 ≠ o) := by
  rw [Pf.step_setChannel_ok K o c ch h]
  refine ⟨rfl, rfl, ?_⟩
  intro hne h'
  exact hne (congrArg Obj.chan h').symm

/-- **Close channels are different channels.**  Two matrices of one shape that differ in a
    single entry — by a relative `1e-6`, by one unit in the last place — configure different
    objects: no "unchanged, skip" shortcut is sound. -/
theorem close_channels_give_distinct_objects (K : Kernels ℂ) (o : Obj ℂ) (nr nt : Nat)
    (H H' : Mat ℂ nr nt) (ch ch' : Chan ℂ) (h : storeChan o.scheme (.mat nr nt H) = .ok ch)
    (h' : storeChan o.scheme (.mat nr nt H') = .ok ch') (hne : H ≠ H') :
    (step K o (.setChannel (.mat nr nt H))).1 ≠ (step K o (.setChannel (.mat nr nt H'))).1 := by
  rw [Pf.step_setChannel_ok K o _ ch h, Pf.step_setChannel_ok K o _ ch' h']
  intro e
  have e2 : some ch = some ch' := congrArg Obj.chan e
  exact Pf.storeChan_mat_injective o.scheme nr nt H H' ch ch' h h' hne (Option.some.inj e2)

/-- **The MMSE / zero-forcing decision is the exact test `0 < σ²`.**  For every positive
    noise variance, however small, the Blast-family filter is `√Nt` times what `solve`
    returned for that very `σ²`; for `σ² = 0` it is `√Nt` times the pseudo-inverse. -/
theorem filter_decision_is_exact (K : Kernels ℂ) (H : Mat ℂ Nr Nt) :
    (∀ s : ℝ, 0 < s → blastFilterK K H (s : ℂ) =
      fun i j => K.solve (mmseLhs H (s : ℂ)) (mmseRhs H) i j * sqrtNat Nt) ∧
    blastFilterK K H 0 = fun i j => K.pinv H i j * sqrtNat Nt := by
  constructor
  · intro s hs
    funext i j
    simp [blastFilterK, blastFilter, posB_def, hs, mmseFilter]
  · funext i j
    simp [blastFilterK, blastFilter, posB_def, zfFilter]

/-- **Different noise variances never share an MMSE filter.**  If one matrix satisfies the
    MMSE defining equation of a non-zero channel for `σ²` and for `σ'²`, then `σ² = σ'²`:
    a filter kept from a close-but-different noise variance always violates the defining
    equation. -/
theorem mmse_filter_separates_noise_variances (H : Mat ℂ Nr Nt) (v v' : ℂ) (W : Mat ℂ Nt Nr)
    (hH : ∃ i j, H i j ≠ 0) (h : IsSolve (mmseLhs H v) (mmseRhs H) W)
    (h' : IsSolve (mmseLhs H v') (mmseRhs H) W) : v = v' := by
  unfold IsSolve at h h'
  c04_matrix at h
  c04_matrix at h'
  refine Pf.mmse_separates (toM H) (toM W) v v' h h' ?_
  intro h0
  obtain ⟨i, j, hij⟩ := hH
  exact hij (congrFun (congrFun h0 i) j)

/-- **A negligible noise variance is not zero.**  For a channel of full column rank with at
    least one transmit antenna, the zero-forcing filter satisfies the MMSE defining equation
    of NO non-zero noise variance — treating a small `σ²` as `0` always breaks the equation. -/
theorem zf_filter_is_not_an_mmse_filter (H : Mat ℂ Nr Nt) (Gp : Mat ℂ Nt Nr) (hNt : 0 < Nt)
    (hr : FullColRank H) (hp : IsPinv H Gp) (s : ℂ) (hs : s ≠ 0) :
    ¬ IsSolve (mmseLhs H s) (mmseRhs H) (zfFilter Gp) := by
  intro h
  unfold IsSolve at h
  have e1 := zf_defining H Gp hr hp
  have e2 := zf_normal_equation H Gp hp
  c04_matrix at h
  c04_matrix at e1
  c04_matrix at e2
  exact Pf.zf_not_mmse (toM H) (toM (zfFilter Gp)) s hNt e1 e2 hs h

/-! ## R16 — argument identity and buffer reuse

`Model/C04Buf.lean`: a caller with ONE preallocated channel array (`refill`, `setBuffer`,
`setFresh`, `observe`), the code as it is (`codeRun`: `set_channel_matrix` keeps the array
object) against value semantics (`valRun`: the object works with the contents at call time,
which is what `Op.setChannel` of `Model/C04Obj.lean` takes). -/

/-- **Whatever was handed over before, the last contents win.**  After any history — the same
    array with other contents included — `set_channel_matrix(c)` leaves the object that the
    contents `c` define; nothing of the earlier channels survives. -/
theorem last_handed_over_contents_win (K : Kernels ℂ) (o : Obj ℂ) (ops : List (Op ℂ)) (c : ChanArg ℂ)
    (ch : Chan ℂ) (h : storeChan o.scheme c = .ok ch) :
    run K o (ops ++ [.setChannel c]) = ⟨o.scheme, some ch, cfgNv o.scheme o.nv ops⟩ := by
  rw [Pf.run_append_one, Pf.run_state K ops o,
    Pf.step_setChannel_ok K ⟨o.scheme, cfgChan o.scheme o.chan ops, cfgNv o.scheme o.nv ops⟩ c ch h]

/-- **A refilled buffer that is handed over again is a fresh value.**  As long as the caller
    passes its array to `set_channel_matrix` again after every refill (the loop of a Monte
    Carlo simulation), the code — which keeps the array object — makes exactly the
    observations of value semantics: the k-th call sees the contents of the k-th refill. -/
theorem refilled_buffer_equals_fresh_object {β : Type} (b : β) (ops : List (Buf.BOp β))
    (h : Buf.disciplined false ops = true) :
    Buf.codeRun ⟨b, none, false⟩ ops = Buf.valRun ⟨b, none⟩ ops :=
  Buf.disciplined_runs_agree ops _ _ false ⟨rfl, fun _ => rfl, fun _ => rfl⟩ h

/-- **Known finding, negative witness on the model of the code.**  The discipline is needed:
    `set_channel_matrix(buf); buf[...] = 1; observe` — the code works with the new contents
    `1`, value semantics with the contents `0` that were handed over
    (`C04:set_channel_matrix:keeps-the-callers-array`; replayed on the library by the
    `reuse` oracle, mode `after-call`). -/
theorem channel_kept_by_reference_fails :
    Buf.codeRun (β := Nat) ⟨0, none, false⟩ [.setBuffer, .refill 1, .observe] = [some 1] ∧
    Buf.valRun (β := Nat) ⟨0, none⟩ [.setBuffer, .refill 1, .observe] = [some 0] := by
  decide

/-! ## non-vacuity: concrete values satisfying the hypotheses -/

/-- the `pinv` contract and full column rank hold for the 2×1 channel `[1, j]ᵀ` with
    `G = [1/2, −j/2]` (hypotheses of `zf_*`, `blast_roundtrip`, `mrc_roundtrip`, `mmse_*`) -/
example : FullColRank Ex.H ∧ IsPinv Ex.H Ex.G := Ex.pinv_contract

/-- the `svd` contract of `svd_roundtrip` / `encode_energy_svd` holds for `[2, 0]ᵀ` -/
example : FullColRank Ex.H2 ∧ matMul (matMul Ex.U2 (diagM Ex.S2)) Ex.VH2 = Ex.H2 ∧
    matMul (cT Ex.U2) Ex.U2 = eye ∧ matMul Ex.VH2 (cT Ex.VH2) = eye :=
  ⟨Ex.H2_fullColRank, Ex.svd_contract⟩

/-- the `gmd` contract of `gmd_roundtrip` / `encode_energy_gmd` holds for `[2, 0]ᵀ` -/
example : matMul (matMul Ex.Q2 Ex.H2) (cT Ex.P2) = Ex.H2 ∧ matMul (cT Ex.P2) Ex.P2 = eye :=
  Ex.gmd_contract

/-- the hypotheses of the `…_from_svd` theorems hold for the channel `diag(4, 1)` with its SVD
    `1 · diag(4, 1) · 1` (`σ̄ = 2`: the sweep performs a genuine rotation): `IsFullSvd`,
    `0 < min Nr Nt`, `Nt ≤ Nr` -/
example : IsFullSvd Ex.H3 eye LinAlg.GmdInv.exS eye ∧ 0 < min 2 2 ∧ 2 ≤ 2 := Ex.fullSvd_contract

/-- a channel vector with a zero tap still satisfies the MRT hypothesis -/
example : ∃ i, (fun i : Fin 2 => if i.val = 0 then (0 : ℂ) else Complex.I) i ≠ 0 :=
  ⟨1, by simp⟩

/-- encode succeeds on a block of two layers × two channel uses (hypothesis `hE`) -/
example : ∃ E, blastEncode 2 (fun i : Fin 4 => (i.val : ℂ)) = .ok E := ⟨_, by
  unfold blastEncode; rw [if_neg (by decide), dif_pos (by decide)]⟩

/-- the hypotheses of `gmd_step_preserves` hold for `δ = (4, 1)`, `σ̄ = 2` -/
example : (0:ℝ) ≤ 1 ∧ (1:ℝ) < 4 ∧ (1:ℝ) ≤ 2 ∧ (2:ℝ) ≤ 4 ∧ (2:ℝ) ≠ 0 := by norm_num

/-- the hypotheses of `history_eq_fresh_object` are satisfiable by a non-trivial history:
    a Blast object built on `[1, j]ᵀ`, switched to MMSE, re-pointed to `[2, 0]ᵀ` and switched
    back to zero forcing is configured like `Blast([2, 0]ᵀ)` followed by `set_noise_var(None)` -/
example (y : Mat ℂ 2 1) :
    ∃ o0 f : Obj ℂ, construct .blast (.mat 2 1 Ex.H) = .ok o0 ∧ construct .blast (.mat 2 1 Ex.H2) = .ok f ∧
      f.chan = cfgChan .blast o0.chan
        [.setNoiseVar (some ((1 / 2 : ℝ) : ℂ)), .decode 2 1 y, .setChannel (.mat 2 1 Ex.H2), .setNoiseVar none] ∧
      setNoiseVar (none : Option ℂ) = .ok (cfgNv .blast o0.nv
        [.setNoiseVar (some ((1 / 2 : ℝ) : ℂ)), .decode 2 1 y, .setChannel (.mat 2 1 Ex.H2), .setNoiseVar none]) := by
  refine ⟨⟨.blast, some ⟨2, 1, Ex.H⟩, 0⟩, ⟨.blast, some ⟨2, 1, Ex.H2⟩, 0⟩, rfl, rfl, ?_, ?_⟩
  · simp [cfgChan, storeChan]
  · have h : (0 : ℝ) ≤ 1 / 2 := by norm_num
    simp [cfgNv, Scheme.blastFamily, setNoiseVar, nonnegB_def]

/-- `same_configuration_same_object` is not vacuous: `Blast()` followed by `set_noise_var(1/2)`,
    a rejected 1-D channel, `set_channel_matrix([1, j]ᵀ)` and a repeated `set_noise_var(1/2)`
    leaves the configuration of `Blast([1, j]ᵀ)` followed by `set_noise_var(1/2)` -/
example : cfgChan .blast (constructEmpty (α := ℂ) .blast).chan
      [.setNoiseVar (some ((1 / 2 : ℝ) : ℂ)), .setChannel (.vec 2 (fun _ => 1)), .setChannel (.mat 2 1 Ex.H),
        .setNoiseVar (some ((1 / 2 : ℝ) : ℂ))]
    = cfgChan .blast (some ⟨2, 1, Ex.H⟩) [.setNoiseVar (some ((1 / 2 : ℝ) : ℂ))] := by
  simp [cfgChan, storeChan]

/-- the hypotheses of `mmse_filter_separates_noise_variances` / `filter_decision_is_exact` are
    satisfiable: the channel `[1, j]ᵀ` is non-zero and its MMSE system has a solution for the
    tiny noise variance `4·10⁻¹²` -/
example : (∃ i j, Ex.H i j ≠ 0) ∧
    ∃ W, IsSolve (mmseLhs Ex.H (((4e-12 : ℝ)) : ℂ)) (mmseRhs Ex.H) W := by
  refine ⟨⟨0, 0, by simp [Ex.H]⟩, ?_⟩
  obtain ⟨W, hW⟩ := Pf.mmse_exists (toM Ex.H) (s := 4e-12) (by norm_num)
  refine ⟨fun i j => W i j, ?_⟩
  unfold IsSolve
  c04_matrix
  exact hW

/-- `zf_filter_is_not_an_mmse_filter` is not vacuous: `[1, j]ᵀ` with `G = [1/2, −j/2]` and one
    transmit antenna -/
example : (0 < 1) ∧ FullColRank Ex.H ∧ IsPinv Ex.H Ex.G ∧ (((4e-12 : ℝ)) : ℂ) ≠ 0 := by
  refine ⟨Nat.one_pos, Ex.pinv_contract.1, Ex.pinv_contract.2, ?_⟩
  norm_num

/-- `close_channels_give_distinct_objects`: `[1, j]ᵀ` and `[2, 0]ᵀ` are both accepted by Blast -/
example : storeChan (α := ℂ) .blast (.mat 2 1 Ex.H) = .ok ⟨2, 1, Ex.H⟩ ∧
    storeChan (α := ℂ) .blast (.mat 2 1 Ex.H2) = .ok ⟨2, 1, Ex.H2⟩ := ⟨rfl, rfl⟩

/-- a disciplined Monte Carlo loop (hypothesis of `refilled_buffer_equals_fresh_object`):
    hand over, observe, refill, hand over again, observe twice, replace by a fresh array, observe -/
example : Buf.disciplined (β := Nat) false
    [.setBuffer, .observe, .refill 1, .setBuffer, .observe, .observe, .refill 2, .setFresh 3, .observe] = true := rfl

end PyPhysim.C04
