import Mathlib.Algebra.Order.Field.Rat
import PyPhysim.Proofs.C12Optimal
import PyPhysim.Proofs.C12Exact
import PyPhysim.Proofs.C12Gen

/-!
# C12 — water-filling returns the capacity-optimal power allocation

Property theorems only.  `doWFWith asc n P N Es` is the hand model of
`pyphysim.comm.waterfilling.doWF` after the sort (`Model/C12.lean`), `asc` being
the result of the external kernel `np.argsort` paired with the gains; every
theorem holds for **every** `asc` satisfying `SortContract g asc` (a permutation
of the indexed gains in non-decreasing gain order), i.e. for every tie order.
`doWF g P N Es` is the same function with the model's own stable merge sort
(`argsortAsc_contract`), which is what the compiled driver runs at `Rat` in the
correspondence check.  `α` is an arbitrary linear ordered field; optimality is
over `ℝ`.  Quantifier of the property: all gain vectors of length ≥ 1 with
positive gains, `P > 0`, `N > 0`, `Es > 0` — no bound on the length.
-/
namespace PyPhysim.C12
open PyPhysim.Proto

variable {α : Type} [Field α] [LinearOrder α] [IsStrictOrderedRing α]

/-- On the whole domain of the property the code returns a value (no exception; the
    loop never removes every channel), for every admissible sort result. -/
theorem wf_returns (g : List α) (asc : List (Chan α)) (P N Es : α)
    (hc : SortContract g asc) (hne : g ≠ []) (hg : ∀ x ∈ g, 0 < x)
    (hP : 0 < P) (hN : 0 < N) (hEs : 0 < Es) :
    ∃ p mu, doWFWith asc g.length P N Es = .ok (p, mu) := by
  obtain ⟨p, mu, h, _, _⟩ := doWFWith_isWaterFilling g asc P N Es hc hne hg hP.le hN hEs
  exact ⟨p, mu, h⟩

/-- Clause "equals max(0, water level − noise/(energy × gain)) on every channel for the
    returned water level": one entry per channel, entry `j` has that form. -/
theorem wf_form (g : List α) (asc : List (Chan α)) (P N Es : α) (p : List α) (mu : α)
    (hc : SortContract g asc) (hne : g ≠ []) (hg : ∀ x ∈ g, 0 < x)
    (hP : 0 < P) (hN : 0 < N) (hEs : 0 < Es)
    (hres : doWFWith asc g.length P N Es = .ok (p, mu)) :
    p.length = g.length ∧
      ∀ (j : Nat) (hj : j < g.length) (hj' : j < p.length), p[j] = max 0 (mu - N / (Es * g[j])) := by
  obtain ⟨p', mu', h, hw, _⟩ := doWFWith_isWaterFilling g asc P N Es hc hne hg hP.le hN hEs
  rw [hres] at h
  cases h
  exact ⟨hw.length, hw.getElem⟩

/-- Which channels the loop switches off (the loop invariant, seen from outside): channel
    `j` gets zero power exactly when its level `N/(Es·g_j)` is at or above the returned
    water level. -/
theorem wf_switched_off_iff (g : List α) (asc : List (Chan α)) (P N Es : α) (p : List α) (mu : α)
    (hc : SortContract g asc) (hne : g ≠ []) (hg : ∀ x ∈ g, 0 < x)
    (hP : 0 < P) (hN : 0 < N) (hEs : 0 < Es)
    (hres : doWFWith asc g.length P N Es = .ok (p, mu)) :
    ∀ (j : Nat) (hj : j < g.length) (hj' : j < p.length),
      p[j] = 0 ↔ mu ≤ N / (Es * g[j]) := by
  obtain ⟨p', mu', h, hw, _⟩ := doWFWith_isWaterFilling g asc P N Es hc hne hg hP.le hN hEs
  rw [hres] at h
  cases h
  intro j hj hj'
  rw [hw.getElem j hj hj', max_eq_left_iff, sub_nonpos]

/-- Clause "the allocation is non-negative". -/
theorem wf_nonneg (g : List α) (asc : List (Chan α)) (P N Es : α) (p : List α) (mu : α)
    (hc : SortContract g asc) (hne : g ≠ []) (hg : ∀ x ∈ g, 0 < x)
    (hP : 0 < P) (hN : 0 < N) (hEs : 0 < Es)
    (hres : doWFWith asc g.length P N Es = .ok (p, mu)) : ∀ y ∈ p, 0 ≤ y := by
  obtain ⟨p', mu', h, hw, _⟩ := doWFWith_isWaterFilling g asc P N Es hc hne hg hP.le hN hEs
  rw [hres] at h
  cases h
  exact hw.nonneg

/-- Clause "sums to the total power". -/
theorem wf_sum (g : List α) (asc : List (Chan α)) (P N Es : α) (p : List α) (mu : α)
    (hc : SortContract g asc) (hne : g ≠ []) (hg : ∀ x ∈ g, 0 < x)
    (hP : 0 < P) (hN : 0 < N) (hEs : 0 < Es)
    (hres : doWFWith asc g.length P N Es = .ok (p, mu)) : p.sum = P := by
  obtain ⟨p', mu', h, hw, _⟩ := doWFWith_isWaterFilling g asc P N Es hc hne hg hP.le hN hEs
  rw [hres] at h
  cases h
  exact hw.sum

/-- Clause "no other non-negative allocation with the same total achieves a larger sum of
    log2(1 + gain × energy × power / noise)" (over ℝ, any number of channels). -/
theorem wf_optimal (g : List ℝ) (asc : List (Chan ℝ)) (P N Es : ℝ) (p : List ℝ) (mu : ℝ)
    (hc : SortContract g asc) (hne : g ≠ []) (hg : ∀ x ∈ g, 0 < x)
    (hP : 0 < P) (hN : 0 < N) (hEs : 0 < Es)
    (hres : doWFWith asc g.length P N Es = .ok (p, mu))
    (q : List ℝ) (hlen : q.length = g.length) (hq : ∀ y ∈ q, 0 ≤ y) (hqs : q.sum = P) :
    (List.zipWith (fun x y => Real.logb 2 (1 + x * Es * y / N)) g q).sum
      ≤ (List.zipWith (fun x y => Real.logb 2 (1 + x * Es * y / N)) g p).sum := by
  obtain ⟨p', mu', h, hw, _⟩ := doWFWith_isWaterFilling g asc P N Es hc hne hg hP.le hN hEs
  rw [hres] at h
  cases h
  exact hw.optimal hP hg hN hEs hlen hq hqs

/-- The result does not depend on which admissible sort result (tie order) `argsort`
    returns: ties get equal power, so the unstable sort in the code is harmless. -/
theorem wf_sort_irrelevant (g : List α) (asc asc' : List (Chan α)) (P N Es : α)
    (hc : SortContract g asc) (hc' : SortContract g asc') (hne : g ≠ []) (hg : ∀ x ∈ g, 0 < x)
    (hP : 0 < P) (hN : 0 < N) (hEs : 0 < Es) :
    doWFWith asc g.length P N Es = doWFWith asc' g.length P N Es := by
  obtain ⟨p, mu, h, hw, _⟩ := doWFWith_isWaterFilling g asc P N Es hc hne hg hP.le hN hEs
  obtain ⟨p', mu', h', hw', _⟩ := doWFWith_isWaterFilling g asc' P N Es hc' hne hg hP.le hN hEs
  obtain ⟨e1, e2⟩ := hw.unique hw' hP
  rw [h, h', e1, e2]

/-- The returned pair is the *only* pair of the water-filling form with total `P`
    (so `mu` really is "the" water level). -/
theorem wf_unique (g : List α) (asc : List (Chan α)) (P N Es : α) (p : List α) (mu : α)
    (hc : SortContract g asc) (hne : g ≠ []) (hg : ∀ x ∈ g, 0 < x)
    (hP : 0 < P) (hN : 0 < N) (hEs : 0 < Es)
    (hres : doWFWith asc g.length P N Es = .ok (p, mu))
    (nu : α) (hsum : (g.map (fun x => max 0 (nu - N / (Es * x)))).sum = P) :
    nu = mu ∧ g.map (fun x => max 0 (nu - N / (Es * x))) = p := by
  obtain ⟨p', mu', h, hw, _⟩ := doWFWith_isWaterFilling g asc P N Es hc hne hg hP.le hN hEs
  rw [hres] at h
  cases h
  have := (IsWaterFilling.mk (g := g) (N := N) (Es := Es) (mu := nu) rfl hsum).unique hw hP
  exact ⟨this.2, this.1⟩

/-- Clause "permuting the channels permutes the allocation identically": for every
    permutation `σ` of the channel positions, running the code on `g ∘ σ` gives the same
    level and the allocation `p ∘ σ`. -/
theorem wf_perm_equivariant (g : List α) (σ : Equiv.Perm (Fin g.length))
    (asc asc' : List (Chan α)) (P N Es : α) (p p' : List α) (mu mu' : α)
    (hc : SortContract g asc) (hc' : SortContract (List.ofFn (fun i => g[σ i])) asc')
    (hne : g ≠ []) (hg : ∀ x ∈ g, 0 < x) (hP : 0 < P) (hN : 0 < N) (hEs : 0 < Es)
    (hres : doWFWith asc g.length P N Es = .ok (p, mu))
    (hres' : doWFWith asc' (List.ofFn (fun i => g[σ i])).length P N Es = .ok (p', mu')) :
    mu' = mu ∧ p'.length = g.length ∧ ∀ i : Fin g.length, p'[(i : Nat)]? = p[(σ i : Nat)]? := by
  have hperm : (List.ofFn (fun i => g[σ i])).Perm g := by
    have e : List.ofFn (fun i : Fin g.length => g[i]) = g := by simp [Fin.getElem_fin]
    have := Equiv.Perm.ofFn_comp_perm σ (fun i : Fin g.length => g[i])
    rwa [e] at this
  have hne' : List.ofFn (fun i => g[σ i]) ≠ [] := by
    intro h
    have := hperm.length_eq
    rw [h] at this
    exact hne (List.length_eq_zero_iff.mp this.symm)
  have hg' : ∀ x ∈ List.ofFn (fun i => g[σ i]), 0 < x := fun x hx => hg x (hperm.mem_iff.mp hx)
  obtain ⟨q, nu, h, hw, _⟩ := doWFWith_isWaterFilling g asc P N Es hc hne hg hP.le hN hEs
  rw [hres] at h
  cases h
  obtain ⟨q', nu', h', hw', _⟩ := doWFWith_isWaterFilling _ asc' P N Es hc' hne' hg' hP.le hN hEs
  rw [hres'] at h'
  cases h'
  obtain ⟨e1, e2⟩ := hw'.unique (hw.of_perm hperm) hP
  refine ⟨e2, ?_, ?_⟩
  · rw [hw'.length, List.length_ofFn]
  · intro i
    rw [e1, hw.form]
    simp

/-! ### robustness facts (follow-up R5, R6) -/

/-- R6, change of power unit: total power and noise variance both multiplied by `s > 0`
    ⇒ the allocation and the level are multiplied by `s` (no absolute scale anywhere). -/
theorem wf_scale_power_noise (g : List α) (asc asc' : List (Chan α)) (P N Es s : α)
    (p p' : List α) (mu mu' : α)
    (hc : SortContract g asc) (hc' : SortContract g asc') (hne : g ≠ []) (hg : ∀ x ∈ g, 0 < x)
    (hP : 0 < P) (hN : 0 < N) (hEs : 0 < Es) (hs : 0 < s)
    (hres : doWFWith asc g.length P N Es = .ok (p, mu))
    (hres' : doWFWith asc' g.length (s * P) (s * N) Es = .ok (p', mu')) :
    mu' = s * mu ∧ p' = p.map (fun y => s * y) := by
  obtain ⟨q, nu, h, hw, _⟩ := doWFWith_isWaterFilling g asc P N Es hc hne hg hP.le hN hEs
  rw [hres] at h; cases h
  obtain ⟨q', nu', h', hw', _⟩ := doWFWith_isWaterFilling g asc' (s * P) (s * N) Es hc' hne hg
    (mul_pos hs hP).le (mul_pos hs hN) hEs
  rw [hres'] at h'; cases h'
  obtain ⟨e1, e2⟩ := hw'.unique (hw.scale_power_noise hs) (mul_pos hs hP)
  exact ⟨e2, e1⟩

/-- R6: gains and noise variance multiplied by the same `s > 0` ⇒ same allocation, same level. -/
theorem wf_scale_gain_noise (g : List α) (asc asc' : List (Chan α)) (P N Es s : α)
    (p p' : List α) (mu mu' : α)
    (hc : SortContract g asc) (hc' : SortContract (g.map (fun x => s * x)) asc')
    (hne : g ≠ []) (hg : ∀ x ∈ g, 0 < x)
    (hP : 0 < P) (hN : 0 < N) (hEs : 0 < Es) (hs : 0 < s)
    (hres : doWFWith asc g.length P N Es = .ok (p, mu))
    (hres' : doWFWith asc' (g.map (fun x => s * x)).length P (s * N) Es = .ok (p', mu')) :
    mu' = mu ∧ p' = p := by
  obtain ⟨q, nu, h, hw, _⟩ := doWFWith_isWaterFilling g asc P N Es hc hne hg hP.le hN hEs
  rw [hres] at h; cases h
  have hne' : g.map (fun x => s * x) ≠ [] := by simpa using hne
  have hg' : ∀ x ∈ g.map (fun x => s * x), 0 < x := by
    intro x hx
    obtain ⟨y, hy, rfl⟩ := List.mem_map.mp hx
    exact mul_pos hs (hg y hy)
  obtain ⟨q', nu', h', hw', _⟩ := doWFWith_isWaterFilling _ asc' P (s * N) Es hc' hne' hg'
    hP.le (mul_pos hs hN) hEs
  rw [hres'] at h'; cases h'
  obtain ⟨e1, e2⟩ := hw'.unique (hw.scale_gain_noise hs) hP
  exact ⟨e2, e1⟩

/-- R6: gains divided and symbol energy multiplied by the same `s > 0` ⇒ same result. -/
theorem wf_scale_gain_energy (g : List α) (asc asc' : List (Chan α)) (P N Es s : α)
    (p p' : List α) (mu mu' : α)
    (hc : SortContract g asc) (hc' : SortContract (g.map (fun x => x / s)) asc')
    (hne : g ≠ []) (hg : ∀ x ∈ g, 0 < x)
    (hP : 0 < P) (hN : 0 < N) (hEs : 0 < Es) (hs : 0 < s)
    (hres : doWFWith asc g.length P N Es = .ok (p, mu))
    (hres' : doWFWith asc' (g.map (fun x => x / s)).length P N (s * Es) = .ok (p', mu')) :
    mu' = mu ∧ p' = p := by
  obtain ⟨q, nu, h, hw, _⟩ := doWFWith_isWaterFilling g asc P N Es hc hne hg hP.le hN hEs
  rw [hres] at h; cases h
  have hne' : g.map (fun x => x / s) ≠ [] := by simpa using hne
  have hg' : ∀ x ∈ g.map (fun x => x / s), 0 < x := by
    intro x hx
    obtain ⟨y, hy, rfl⟩ := List.mem_map.mp hx
    exact div_pos (hg y hy) hs
  obtain ⟨q', nu', h', hw', _⟩ := doWFWith_isWaterFilling _ asc' P N (s * Es) hc' hne' hg'
    hP.le hN (mul_pos hs hEs)
  rw [hres'] at h'; cases h'
  obtain ⟨e1, e2⟩ := hw'.unique (hw.scale_gain_energy hs) hP
  exact ⟨e2, e1⟩

/-- R5, boundary `P = 0` (outside the quantifier, accepted by the code): a value is
    returned and every channel gets exactly zero power. -/
theorem wf_zero_power (g : List α) (asc : List (Chan α)) (N Es : α)
    (hc : SortContract g asc) (hne : g ≠ []) (hg : ∀ x ∈ g, 0 < x) (hN : 0 < N) (hEs : 0 < Es) :
    ∃ p mu, doWFWith asc g.length 0 N Es = .ok (p, mu) ∧ p.length = g.length ∧ ∀ y ∈ p, y = 0 := by
  obtain ⟨p, mu, h, hw, _⟩ := doWFWith_isWaterFilling g asc 0 N Es hc hne hg le_rfl hN hEs
  exact ⟨p, mu, h, hw.length,
    fun y hy => List.all_zero_of_le_zero_le_of_sum_eq_zero hw.nonneg hw.sum hy⟩

omit [IsStrictOrderedRing α] in
/-- R5, a single channel (`K = 1`): it gets the whole power and the level is
    `P + N/(Es·g)`, for every `P ≥ 0`. -/
theorem wf_single_channel (g0 P N Es : α) (hP : 0 ≤ P) :
    doWFWith [((g0, 0) : Chan α)] 1 P N Es = .ok ([P], P + N / (Es * g0)) := by
  have h : ¬ P < 0 := not_lt.mpr hP
  simp [doWFWith, dropLoop, excess, level, scatter, scatterAt, List.lookup, h]

omit [IsStrictOrderedRing α] in
/-- The model is a function of the *logical* input only (R1/R2/R3/R4/R7 on the model side):
    a list of values in, a fresh value out, no state — so the same values delivered in any
    dtype, memory layout or call order give the same result, and a rejected call (`.error`)
    leaves nothing behind.  Stated as: equal inputs give equal outputs, errors included. -/
theorem wf_function_of_values (g g' : List α) (P P' N N' Es Es' : α)
    (hg : g = g') (hP : P = P') (hN : N = N') (hEs : Es = Es') :
    doWF g P N Es = doWF g' P' N' Es' := by
  subst hg hP hN hEs; rfl

/-! ### robustness facts (round 2: R8, R14) -/

omit [IsStrictOrderedRing α] in
/-- R8, argument forms: leaving `noiseVar` and/or `Es` out of the call (positionally or by
    keyword) is the call with the value `1` — all four combinations. -/
theorem wf_default_args (g : List α) (P N Es : α) :
    doWFCall g P none none = doWF g P 1 1 ∧ doWFCall g P (some N) none = doWF g P N 1 ∧
    doWFCall g P none (some Es) = doWF g P 1 Es ∧ doWFCall g P (some N) (some Es) = doWF g P N Es := by
  simp [doWFCall]

/-- R8: with both optional arguments left out the clauses read `p_j = max 0 (mu − 1/g_j)`,
    `Σ p = P`, `p ≥ 0` (the textbook form). -/
theorem wf_default_call_clauses (g : List α) (P : α) (p : List α) (mu : α)
    (hne : g ≠ []) (hg : ∀ x ∈ g, 0 < x) (hP : 0 < P)
    (hres : doWFCall g P none none = .ok (p, mu)) :
    p.sum = P ∧ (∀ y ∈ p, 0 ≤ y) ∧ p = g.map (fun x => max 0 (mu - 1 / x)) := by
  have h1 : doWFCall g P none none = doWFWith (argsortAsc g) g.length P 1 1 := by
    simp [doWFCall, doWF]
  rw [h1] at hres
  obtain ⟨p', mu', h, hw, _⟩ := doWFWith_isWaterFilling g (argsortAsc g) P 1 1
    (argsortAsc_contract g) hne hg hP.le one_pos one_pos
  rw [hres] at h
  cases h
  refine ⟨hw.sum, hw.nonneg, ?_⟩
  have := hw.form
  simpa using this

/-- The driver's `doWFCallRat` is the `ℚ` instance of `doWFCall`. -/
theorem wf_driver_call_instance (g : List ℚ) (P : ℚ) (N Es : Option ℚ) :
    doWFCallRat g P N Es = doWFCall g P N Es := rfl

/-- R14 / R5, any NUMBER of channels with equal gains (257, 2^16+1, … — no bound on `n`):
    every channel gets `P/n` and the level is `P/n + N/(Es·x)`. -/
theorem wf_equal_gains (n : Nat) (x : α) (asc : List (Chan α)) (P N Es : α) (p : List α) (mu : α)
    (hn : 0 < n) (hx : 0 < x) (hc : SortContract (List.replicate n x) asc)
    (hP : 0 < P) (hN : 0 < N) (hEs : 0 < Es)
    (hres : doWFWith asc (List.replicate n x).length P N Es = .ok (p, mu)) :
    mu = P / n + N / (Es * x) ∧ p = List.replicate n (P / n) := by
  have hne : List.replicate n x ≠ [] := by
    intro h; have := congrArg List.length h; simp at this; omega
  have hg : ∀ y ∈ List.replicate n x, 0 < y := by
    intro y hy; rw [(List.mem_replicate.mp hy).2]; exact hx
  have hn' : (n : α) ≠ 0 := by exact_mod_cast hn.ne'
  have hsum : ((List.replicate n x).map
      (fun y => max 0 (P / n + N / (Es * x) - N / (Es * y)))).sum = P := by
    have : (List.replicate n x).map (fun y => max 0 (P / n + N / (Es * x) - N / (Es * y)))
        = List.replicate n (P / n) := by
      rw [List.map_replicate]
      congr 1
      rw [add_sub_cancel_right]
      exact max_eq_right (div_nonneg hP.le (Nat.cast_nonneg n))
    rw [this, List.sum_replicate, nsmul_eq_mul, mul_div_cancel₀ _ hn']
  obtain ⟨e1, e2⟩ := wf_unique _ asc P N Es p mu hc hne hg hP hN hEs hres _ hsum
  refine ⟨e1.symm, ?_⟩
  rw [← e2, List.map_replicate, add_sub_cancel_right,
    max_eq_right (div_nonneg hP.le (Nat.cast_nonneg n))]

/-! ### robustness facts (round 4: R15 distinct values that are merely close, R16 argument
identity and buffer reuse)

R15.  The code has no lookup, cache or "unchanged" test; the places where a value decides
something are the loop test `sum(Ps) > dPt` and the sort.  The theorems say that the result
is a function of the EXACT value of every input that can matter: two total powers, two noise
variances, two symbol energies, two gains of a channel in use are never identified, however
close they are (`α` is any linear ordered field: there is no tolerance in the model). -/

/-- R15, total power: `P < P'` (no matter how close) ⇒ strictly higher water level and a
    different allocation. -/
theorem wf_exact_in_power (g : List α) (asc asc' : List (Chan α)) (P P' N Es : α)
    (p p' : List α) (mu mu' : α)
    (hc : SortContract g asc) (hc' : SortContract g asc') (hne : g ≠ []) (hg : ∀ x ∈ g, 0 < x)
    (hP : 0 < P) (hN : 0 < N) (hEs : 0 < Es) (hPP : P < P')
    (hres : doWFWith asc g.length P N Es = .ok (p, mu))
    (hres' : doWFWith asc' g.length P' N Es = .ok (p', mu')) :
    mu < mu' ∧ p ≠ p' := by
  obtain ⟨q, nu, h, hw, _⟩ := doWFWith_isWaterFilling g asc P N Es hc hne hg hP.le hN hEs
  rw [hres] at h; cases h
  obtain ⟨q', nu', h', hw', _⟩ := doWFWith_isWaterFilling g asc' P' N Es hc' hne hg
    (hP.trans hPP).le hN hEs
  rw [hres'] at h'; cases h'
  refine ⟨hw.level_strictMono hw' hPP, ?_⟩
  intro e
  have := hw.sum
  rw [e, hw'.sum] at this
  exact absurd this hPP.ne'

/-- R15, noise variance: two different noise variances (4e-12 and 4e-13, say) never give the
    same result. -/
theorem wf_exact_in_noise (g : List α) (asc asc' : List (Chan α)) (P N N' Es : α)
    (p p' : List α) (mu mu' : α)
    (hc : SortContract g asc) (hc' : SortContract g asc') (hne : g ≠ []) (hg : ∀ x ∈ g, 0 < x)
    (hP : 0 < P) (hN : 0 < N) (hN' : 0 < N') (hEs : 0 < Es) (hNN : N ≠ N')
    (hres : doWFWith asc g.length P N Es = .ok (p, mu))
    (hres' : doWFWith asc' g.length P N' Es = .ok (p', mu')) :
    (p, mu) ≠ (p', mu') := by
  obtain ⟨q, nu, h, hw, _⟩ := doWFWith_isWaterFilling g asc P N Es hc hne hg hP.le hN hEs
  rw [hres] at h; cases h
  obtain ⟨q', nu', h', hw', _⟩ := doWFWith_isWaterFilling g asc' P N' Es hc' hne hg hP.le hN' hEs
  rw [hres'] at h'; cases h'
  intro e
  cases e
  exact hNN (hw.noise_eq hw' hP hg hEs)

/-- R15, symbol energy: two different symbol energies never give the same result. -/
theorem wf_exact_in_energy (g : List α) (asc asc' : List (Chan α)) (P N Es Es' : α)
    (p p' : List α) (mu mu' : α)
    (hc : SortContract g asc) (hc' : SortContract g asc') (hne : g ≠ []) (hg : ∀ x ∈ g, 0 < x)
    (hP : 0 < P) (hN : 0 < N) (hEs : 0 < Es) (hEs' : 0 < Es') (hEE : Es ≠ Es')
    (hres : doWFWith asc g.length P N Es = .ok (p, mu))
    (hres' : doWFWith asc' g.length P N Es' = .ok (p', mu')) :
    (p, mu) ≠ (p', mu') := by
  obtain ⟨q, nu, h, hw, _⟩ := doWFWith_isWaterFilling g asc P N Es hc hne hg hP.le hN hEs
  rw [hres] at h; cases h
  obtain ⟨q', nu', h', hw', _⟩ := doWFWith_isWaterFilling g asc' P N Es' hc' hne hg hP.le hN hEs'
  rw [hres'] at h'; cases h'
  intro e
  cases e
  exact hEE (hw.energy_eq hw' hP hg hN hEs hEs')

/-- R15, gains: two gain vectors that differ — by however little — on a channel that gets
    power never give the same result (the gain of a switched-off channel may change without
    effect: it is legitimately invisible, `wf_switched_off_iff`). -/
theorem wf_exact_in_used_gain (g g' : List α) (asc asc' : List (Chan α)) (P N Es : α)
    (p p' : List α) (mu mu' : α)
    (hc : SortContract g asc) (hc' : SortContract g' asc')
    (hne : g ≠ []) (hne' : g' ≠ []) (hg : ∀ x ∈ g, 0 < x) (hg' : ∀ x ∈ g', 0 < x)
    (hP : 0 < P) (hN : 0 < N) (hEs : 0 < Es)
    (hres : doWFWith asc g.length P N Es = .ok (p, mu))
    (hres' : doWFWith asc' g'.length P N Es = .ok (p', mu'))
    (j : Nat) (hj : j < g.length) (hj' : j < g'.length) (hp : j < p.length)
    (hused : 0 < p[j]) (hdiff : g[j] ≠ g'[j]) :
    (p, mu) ≠ (p', mu') := by
  obtain ⟨q, nu, h, hw, _⟩ := doWFWith_isWaterFilling g asc P N Es hc hne hg hP.le hN hEs
  rw [hres] at h; cases h
  obtain ⟨q', nu', h', hw', _⟩ := doWFWith_isWaterFilling g' asc' P N Es hc' hne' hg' hP.le hN hEs
  rw [hres'] at h'; cases h'
  intro e
  cases e
  exact hdiff (hw.used_gain_eq hw' hg hg' hN hEs j hj hj' hp hused)

/-- R15, all scalar arguments at once, for the function the driver runs: `doWF` returns the
    same value for `(P, N, Es)` and `(P', N', Es')` only if `P = P'` and `N/Es = N'/Es'`
    (the ratio is the only way the two enter: `wf_scale_gain_energy`, `wf_scale_gain_noise`). -/
theorem wf_close_values_not_identified (g : List α) (P P' N N' Es Es' : α)
    (hne : g ≠ []) (hg : ∀ x ∈ g, 0 < x) (hP : 0 < P) (hP' : 0 < P')
    (hN : 0 < N) (hN' : 0 < N') (hEs : 0 < Es) (hEs' : 0 < Es')
    (heq : doWF g P N Es = doWF g P' N' Es') : P = P' ∧ N / Es = N' / Es' := by
  obtain ⟨p, mu, h, _, hs, _, hw⟩ := doWF_facts g P N Es hne hg hP.le hN hEs
  obtain ⟨p', mu', h', _, hs', _, hw'⟩ := doWF_facts g P' N' Es' hne hg hP'.le hN' hEs'
  rw [heq, h'] at h
  cases h
  exact ⟨hs.symm.trans hs', hw.ratio_eq hw' hP hg hEs hEs'⟩

/-- non-vacuity of the R15 theorems at close values: noise 4e-12 vs 4e-13 (both "equal to 0"
    for `np.isclose`) and powers 1 vs 1 + 1e-13 give different model results (the sort result
    `[(1/2, 1), (1, 0)]` is the one of `g = [1, 1/2]`) -/
example :
    (doWFWith [((1/2 : Rat), 1), (1, 0)] 2 (1/1000000000000) (4/1000000000000) 1).toOption
      ≠ (doWFWith [((1/2 : Rat), 1), (1, 0)] 2 (1/1000000000000) (4/10000000000000) 1).toOption ∧
    (doWFWith [((1/2 : Rat), 1), (1, 0)] 2 1 1 1).toOption
      ≠ (doWFWith [((1/2 : Rat), 1), (1, 0)] 2 (1 + 1/10000000000000) 1 1).toOption := by
  decide +kernel

/-! R16.  `doWF` is a pure function of the values it is handed: the model of a caller that
keeps one array and refills it in place (`runOps`, `Model/C12.lean`) returns, for every
call, `doWF` of the contents at call time; nothing a later refill or call does reaches an
earlier result. -/

omit [Field α] [LinearOrder α] [IsStrictOrderedRing α] in
/-- R16: the k-th result of a history on ONE reused buffer is `doWF` of the k-th argument
    values (= the contents the buffer had when the call was made) — a fresh call on a copy. -/
theorem wf_history_results [Add α] [Sub α] [Mul α] [Div α] [Zero α] [NatCast α] [LT α]
    [DecidableLT α] (buf : List α) (ops : List (Op α)) :
    runOps buf ops = (callArgs buf ops).map (fun a => doWF a.1 a.2.1 a.2.2.1 a.2.2.2) := by
  induction ops generalizing buf with
  | nil => rfl
  | cons o ops ih =>
    cases o with
    | refill new => exact ih new
    | call P N Es => simp only [runOps, callArgs, List.map_cons, ih buf]

omit [Field α] [LinearOrder α] [IsStrictOrderedRing α] in
/-- R16: whatever the caller does later (refills, further calls) leaves the results of the
    earlier calls as they were, and the later calls see exactly the buffer the earlier
    operations left behind. -/
theorem wf_history_append [Add α] [Sub α] [Mul α] [Div α] [Zero α] [NatCast α] [LT α]
    [DecidableLT α] (buf : List α) (ops more : List (Op α)) :
    runOps buf (ops ++ more) = runOps buf ops ++ runOps (bufAfter buf ops) more := by
  induction ops generalizing buf with
  | nil => rfl
  | cons o ops ih =>
    cases o with
    | refill new => exact ih new
    | call P N Es => simp only [List.cons_append, runOps, bufAfter, ih buf]

omit [Field α] [LinearOrder α] [IsStrictOrderedRing α] in
/-- R16: refilling the buffer with the contents it already has (an equal-content array, the
    same or another object) changes nothing; and one value handed over in several roles
    (`doWF(g, z, z, z)` with ONE 0-d array `z`) is the call with that value in each role. -/
theorem wf_equal_contents_same_result [Add α] [Sub α] [Mul α] [Div α] [Zero α] [NatCast α]
    [LT α] [DecidableLT α] (buf : List α) (ops : List (Op α)) (z : α) :
    runOps buf (.refill buf :: ops) = runOps buf ops ∧
    runOps buf [.call z z z] = [doWF buf z z z] ∧
    doWFCall buf z (some z) (some z) = doWF buf z z z :=
  ⟨rfl, rfl, rfl⟩

/-- The driver's `runOpsRat` is the `ℚ` instance of `runOps`. -/
theorem wf_driver_history_instance (buf : List ℚ) (ops : List (Op ℚ)) :
    runOpsRat buf ops = runOps buf ops := rfl

/-- non-vacuity: a history A, B (a permutation of A: same sum, same first element), A on one
    buffer — the second call sees the permuted contents, the third the restored ones
    (`argsortAsc` is a well-founded recursion the kernel does not unfold, so the three values
    are obtained through `wf_sort_irrelevant` from explicit sort results) -/
example :
    (runOpsRat [] [.refill [1, 1/2, 1/10], .call 1 (1/2) 2, .refill [1, 1/10, 1/2],
                   .call 1 (1/2) 2, .refill [1, 1/2, 1/10], .call 1 (1/2) 2]).map Except.toOption
      = [some ([5/8, 3/8, 0], 7/8), some ([5/8, 0, 3/8], 7/8), some ([5/8, 3/8, 0], 7/8)] := by
  have key : ∀ (g : List ℚ) (asc : List (Chan ℚ)), SortContract g asc → g ≠ [] →
      (∀ x ∈ g, 0 < x) → doWF g 1 (1/2) 2 = doWFWith asc g.length 1 (1/2) 2 := by
    intro g asc hc hne hg
    exact wf_sort_irrelevant g (argsortAsc g) asc 1 (1/2) 2 (argsortAsc_contract g) hc hne hg
      one_pos (by norm_num) (by norm_num)
  have hA : doWF ([1, 1/2, 1/10] : List ℚ) 1 (1/2) 2
      = doWFWith [((1/10 : ℚ), 2), (1/2, 1), (1, 0)] 3 1 (1/2) 2 :=
    key _ _ ⟨by decide +kernel, by simp; norm_num⟩ (by simp) (by simp)
  have hB : doWF ([1, 1/10, 1/2] : List ℚ) 1 (1/2) 2
      = doWFWith [((1/10 : ℚ), 1), (1/2, 2), (1, 0)] 3 1 (1/2) 2 :=
    key _ _ ⟨by decide +kernel, by simp; norm_num⟩ (by simp) (by simp)
  have vA : (doWFWith [((1/10 : ℚ), 2), (1/2, 1), (1, 0)] 3 1 (1/2) 2).toOption
      = some ([5/8, 3/8, 0], 7/8) := by decide +kernel
  have vB : (doWFWith [((1/10 : ℚ), 1), (1/2, 2), (1, 0)] 3 1 (1/2) 2).toOption
      = some ([5/8, 0, 3/8], 7/8) := by decide +kernel
  simp only [runOpsRat, runOps, List.map_cons, List.map_nil, hA, hB, vA, vB]

/-! ### tie by regeneration

`Generated/C12WaterFilling.lean` is re-emitted from the current AST of `waterfilling.py: doWF`
on every run (`harness/gen/c12.py`): the sort direction, the initial number of removed
channels, the recomputed `minMu` / `Ps` and the loop test as a function of the loop counter,
the remainder split, the scatter back to the original order and the returned level, in the
source's own terms (descending view, Python index arithmetic).  The theorems below say that
this text, assembled by the fixed skeleton `doWFGen`, IS the hand model the clauses above are
proved about — for every input, including the ones on which the code raises. -/

omit [IsStrictOrderedRing α] in
/-- The regenerated `doWF` equals the hand model, for every `argsort` result and all
    arguments (any field, any number of channels, errors included). -/
theorem generated_wf_matches_model (asc : List (Chan α)) (P N Es : α) :
    Generated.C12WaterFilling.doWFGen asc asc.length P N Es = doWFWith asc asc.length P N Es :=
  doWFGen_eq_doWFWith asc P N Es

omit [IsStrictOrderedRing α] in
/-- … in the form the clauses use: `n = vtChannels.size` and `asc` any sort result satisfying
    the contract of `np.argsort`. -/
theorem generated_wf_matches_model_contract (g : List α) (asc : List (Chan α)) (P N Es : α)
    (hc : SortContract g asc) :
    Generated.C12WaterFilling.doWFGen asc g.length P N Es = doWFWith asc g.length P N Es := by
  have hl : asc.length = g.length := by rw [hc.perm.length_eq, List.length_zipIdx]
  rw [← hl]
  exact doWFGen_eq_doWFWith asc P N Es

/-- … and for the function the compiled driver runs in the correspondence check. -/
theorem generated_wf_matches_doWF (g : List α) (P N Es : α) :
    Generated.C12WaterFilling.doWFGen (argsortAsc g) g.length P N Es = doWF g P N Es :=
  generated_wf_matches_model_contract g (argsortAsc g) P N Es (argsortAsc_contract g)

omit [IsStrictOrderedRing α] in
/-- The fuel `n + 1` of the regenerated loop suffices and the index expressions stay inside
    the domain on which `a[np.arange(0, k)]` and `a[:k]` agree: the regenerated function
    returns a value or `IndexError`, never `Fuel` / `RuntimeError`. -/
theorem generated_wf_fuel_suffices (asc : List (Chan α)) (P N Es : α) :
    (∃ v, Generated.C12WaterFilling.doWFGen asc asc.length P N Es = .ok v) ∨
      Generated.C12WaterFilling.doWFGen asc asc.length P N Es = .error .IndexError := by
  rw [doWFGen_eq_doWFWith]
  unfold doWFWith
  split
  · exact Or.inr rfl
  · split
    · exact Or.inr rfl
    · dsimp only
      split
      · exact Or.inl ⟨_, rfl⟩
      · exact Or.inr rfl

/-- non-vacuity: the regenerated text evaluated by the kernel on the witness input
    (one channel switched off, `Es ≠ 1`) gives the value of the model (`wf_witness_value`). -/
example :
    (Generated.C12WaterFilling.doWFGen [((1/10 : Rat), 2), (1/2, 1), (1, 0)] 3 (1 : Rat) (1/2) 2).toOption
      = some ([5/8, 3/8, 0], 7/8) := by
  decide +kernel

/-- The model's own sort (the one the compiled driver runs) is an admissible `argsort`
    result, so every theorem above applies to `doWF g P N Es`. -/
theorem wf_model_sort_admissible (g : List α) :
    SortContract g (argsortAsc g) ∧ doWF g = doWFWith (argsortAsc g) g.length :=
  ⟨argsortAsc_contract g, rfl⟩

/-- The function the driver executes (`doWFRat`: core `Rat` instances, elaborated without
    Mathlib) *is* the `ℚ` instance (Mathlib's ordered-field instances) of the polymorphic
    model the theorems are about. -/
theorem wf_driver_instance (g : List ℚ) (P N Es : ℚ) :
    doWFRat g P N Es = doWF g P N Es := rfl

/-- … hence the clauses hold for the very function the correspondence check executes
    (the generic theorems instantiate at `doWFRat` up to definitional equality of the
    `ℚ` instances). -/
theorem wf_driver_covered (g : List ℚ) (P N Es : ℚ) (p : List ℚ) (mu : ℚ)
    (hne : g ≠ []) (hg : ∀ x ∈ g, 0 < x) (hP : 0 < P) (hN : 0 < N) (hEs : 0 < Es)
    (hres : doWFRat g P N Es = .ok (p, mu)) :
    p.sum = P ∧ (∀ y ∈ p, 0 ≤ y) ∧ p = g.map (fun x => max 0 (mu - N / (Es * x))) := by
  obtain ⟨p', mu', h, hw, _⟩ := doWFWith_isWaterFilling g (argsortAsc g) P N Es
    (argsortAsc_contract g) hne hg hP.le hN hEs
  have : doWFRat g P N Es = doWFWith (argsortAsc g) g.length P N Es := rfl
  rw [this] at hres
  rw [hres] at h
  cases h
  exact ⟨hw.sum, hw.nonneg, hw.form⟩

omit [IsStrictOrderedRing α] in
/-- Outside the quantifier (recorded behaviour, tied by the malformed-input stream):
    an empty gain vector raises `IndexError`. -/
theorem wf_empty_raises (n : Nat) (P N Es : α) :
    doWFWith ([] : List (Chan α)) n P N Es = .error .IndexError := rfl

/-- Outside the quantifier: a negative total power removes every channel and the code
    raises `IndexError` (`vtOptPaux[0]` on an empty array). -/
theorem wf_negative_power_raises (g : List α) (asc : List (Chan α)) (P N Es : α)
    (hc : SortContract g asc) (hne : g ≠ []) (hg : ∀ x ∈ g, 0 < x)
    (hP : P < 0) (hN : 0 < N) (hEs : 0 < Es) :
    doWFWith asc g.length P N Es = .error .IndexError := by
  have h := dropLoop_neg N Es P hP asc (hc.levelSorted hg N Es hN hEs)
  obtain ⟨a, l, rfl⟩ := List.exists_cons_of_ne_nil (hc.ne_nil hne)
  simp only [doWFWith, h]

/-- REGRESSION WITNESS of finding `C12:doWF:water-level-missing-Es` (fixed by commit
    `fix: doWF water level accounts for the symbol energy`): with the formula the code used
    before (`vtOptPaux[0] + noiseVar/g_best`), on `g=[1,1/2,1/10], P=1, N=1/2, Es=2` the
    returned level was `9/8`, for which the best channel's power `5/8` is *not*
    `max 0 (mu − N/(Es·g))`. -/
theorem muPreFix_not_water_level :
    muPreFix (5/8 : Rat) (1/2) ((1 : Rat), 0) = 9/8 ∧
      (5/8 : Rat) ≠ max 0 (9/8 - (1/2) / (2 * 1)) := by
  decide +kernel

/-- … while the repaired code returns the level `7/8` on that input (kernel evaluation of
    the model on the witness). -/
theorem wf_witness_value :
    (doWFWith [((1/10 : Rat), 2), (1/2, 1), (1, 0)] 3 (1 : Rat) (1/2) 2).toOption
      = some ([5/8, 3/8, 0], 7/8) := by
  decide +kernel

/-- non-vacuity: the hypotheses of the theorems are met by the witness input (a sort
    result with one channel switched off, `Es ≠ 1`) … -/
example : SortContract ([1, 1/2, 1/10] : List ℚ) [((1/10 : ℚ), 2), (1/2, 1), (1, 0)] ∧
    ([1, 1/2, 1/10] : List ℚ) ≠ [] ∧ (∀ x ∈ ([1, 1/2, 1/10] : List ℚ), 0 < x) := by
  refine ⟨⟨by decide +kernel, by simp; norm_num⟩, by simp, by simp⟩

/-- … and by every non-empty positive gain vector through the model's own sort. -/
example (g : List ℝ) (hne : g ≠ []) (hg : ∀ x ∈ g, 0 < x) :
    ∃ p mu, doWF g 1 1 1 = .ok (p, mu) ∧ p.sum = 1 := by
  obtain ⟨p, mu, h⟩ := wf_returns g (argsortAsc g) 1 1 1 (argsortAsc_contract g) hne hg
    one_pos one_pos one_pos
  exact ⟨p, mu, h, wf_sum g _ 1 1 1 p mu (argsortAsc_contract g) hne hg one_pos one_pos one_pos h⟩

end PyPhysim.C12
