/-
C16 — model of the theoretical error-rate formulas of `fundamental.py`
(`calcTheoreticalSER/BER/PER/SpectralEfficiency`, `qfunc`, `dB2Linear`).
Core Lean only; polymorphic in the scalar.  `Q` (Gaussian tail) is a parameter:
ℝ-proofs assume only its order/limit properties, the driver reports the
coefficient and the argument of `Q` and the harness evaluates it with `math.erfc`.
-/
import PyPhysim.Model.Proto
import PyPhysim.Model.C01
namespace PyPhysim.C16
open PyPhysim.C01 (Trig)

/-- scalar functions the formulas use beyond field arithmetic -/
class Fn (α : Type) where
  pow10 : α → α          -- `pow(10, x)`
  log2 : α → α           -- `np.log2`

instance : Fn Float := ⟨fun x => Float.pow 10.0 x, Float.log2⟩

section
variable {α : Type} [Add α] [Sub α] [Mul α] [Div α] [NatCast α] [Trig α] [Fn α]

/-- `dB2Linear` -/
def db2lin (snrDb : α) : α := Fn.pow10 (snrDb / ((10 : Nat) : α))

/-- argument of `Q` in `PSK.calcTheoreticalSER`: `sqrt(2γ)·sin(π/M)` -/
def pskArg (M : Nat) (snrDb : α) : α :=
  Trig.sqrt (((2 : Nat) : α) * db2lin snrDb) * Trig.sin (Trig.pi / (M : α))
/-- `PSK.calcTheoreticalSER = 2·Q(arg)` -/
def pskSER (Q : α → α) (M : Nat) (snrDb : α) : α := ((2 : Nat) : α) * Q (pskArg M snrDb)
/-- `PSK.calcTheoreticalBER = 1/k · SER`, `k = level2bits M` -/
def pskBER (Q : α → α) (M k : Nat) (snrDb : α) : α := ((1 : Nat) : α) / (k : α) * pskSER Q M snrDb

/-- argument of `Q` in `BPSK.calcTheoreticalSER`: `sqrt(2γ)` -/
def bpskArg (snrDb : α) : α := Trig.sqrt (((2 : Nat) : α) * db2lin snrDb)
def bpskSER (Q : α → α) (snrDb : α) : α := Q (bpskArg snrDb)

/-- argument of `Q` in QAM: `sqrt(γ·3/(M−1))` -/
def qamArg (M : Nat) (snrDb : α) : α :=
  Trig.sqrt (db2lin snrDb * ((3 : Nat) : α) / ((M : α) - ((1 : Nat) : α)))
/-- coefficient `2(1 − 1/√M)` -/
def qamCoef (M : Nat) : α :=
  ((2 : Nat) : α) * (((1 : Nat) : α) - ((1 : Nat) : α) / Trig.sqrt (M : α))
/-- `_calcTheoreticalSingleCarrierErrorRate` -/
def qamPsc (Q : α → α) (M : Nat) (snrDb : α) : α := qamCoef M * Q (qamArg M snrDb)
/-- `QAM.calcTheoreticalSER = 1 − (1 − Psc)²` -/
def qamSER (Q : α → α) (M : Nat) (snrDb : α) : α :=
  let p := qamPsc Q M snrDb
  ((1 : Nat) : α) - (((1 : Nat) : α) - p) * (((1 : Nat) : α) - p)
/-- `QAM.calcTheoreticalBER = 2·Psc/k` -/
def qamBER (Q : α → α) (M k : Nat) (snrDb : α) : α := ((2 : Nat) : α) * qamPsc Q M snrDb / (k : α)

def powNat (x : α) : Nat → α
  | 0 => ((1 : Nat) : α)
  | n+1 => powNat x n * x

/-- `calcTheoreticalPER = 1 − (1 − BER)^L` -/
def per (ber : α) (L : Nat) : α := ((1 : Nat) : α) - powNat (((1 : Nat) : α) - ber) L
/-- `calcTheoreticalSpectralEfficiency = K·(1 − PER)`, `K = log2 M` -/
def spectralEff (K perOrBer : α) : α := K * (((1 : Nat) : α) - perOrBer)
end

end PyPhysim.C16
