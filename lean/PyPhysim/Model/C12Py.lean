import PyPhysim.Model.Proto
/-!
# C12 — the numpy primitives the regenerated text of `doWF` is written in   (core Lean only)

`Generated/C12WaterFilling.lean` is re-emitted from the AST of
`pyphysim/comm/waterfilling.py` by `harness/gen/c12.py`; it states the algorithm the way the
source does — on the *descending* view of the sorted gains, with Python integer index
arithmetic — in terms of the three primitives below.  They are hand-written and fixed.

* `pyGet l i`      — `l[i]` for a Python integer `i` (negative indices count from the end,
  out of range is `IndexError`);
* `pyPrefix l k`   — `l[np.arange(0, k)]` and `l[:k]`.  The two spellings agree exactly when
  `0 ≤ k ≤ len(l)`; outside that range they differ (fancy indexing raises / a negative slice
  bound counts from the end), so outside it the primitive returns `RuntimeError`, a value the
  hand model never returns: the bridge theorem can only hold if that case is unreachable;
* `pyScatter n idx vals` — `a = np.zeros(n); a[idx] = vals` (for a repeated index the LAST
  assignment wins, as in numpy; indices are positions of the sort permutation, `< n`).
-/
namespace PyPhysim.C12
open PyPhysim.Proto

/-- `l[i]`, Python indexing -/
def pyGet {β : Type} (l : List β) (i : Int) : Except PyErr β :=
  let j : Int := if i < 0 then i + (l.length : Int) else i
  if j < 0 then .error .IndexError
  else match l[j.toNat]? with
    | some x => .ok x
    | none => .error .IndexError

/-- `l[np.arange(0, k)]` / `l[:k]` on their common domain `0 ≤ k ≤ len(l)` -/
def pyPrefix {β : Type} (l : List β) (k : Int) : Except PyErr (List β) :=
  if 0 ≤ k ∧ k ≤ (l.length : Int) then .ok (l.take k.toNat) else .error .RuntimeError

/-- entry `j` of `a = np.zeros(n); a[idx] = vals`: the value assigned last to position `j` -/
def pyScatterAt {α : Type} [Zero α] (idx : List Nat) (vals : List α) (j : Nat) : α :=
  match (List.zip idx vals).reverse.lookup j with | some v => v | none => 0

/-- `a = np.zeros(n); a[idx] = vals` -/
def pyScatter {α : Type} [Zero α] (n : Nat) (idx : List Nat) (vals : List α) : List α :=
  (List.range n).map (pyScatterAt idx vals)

end PyPhysim.C12
