/-
C19 — model of `Cluster._calc_cell_positions(_hexagon/_3sec/_square)` and of the
cells a `Cluster` creates (cell.py).  Core Lean only, polymorphic in the scalar.
-/
import PyPhysim.Model.C19
namespace PyPhysim.C19
open PyPhysim.Proto

section layout
variable {α : Type} [Add α] [Sub α] [Mul α] [Div α] [Neg α] [NatCast α] [Circ α]

/-- `cmath.rect(d, angle)` with the angle given in degrees -/
def rectDeg (d : α) (deg : Nat) : Pt α := smul d (Circ.cisDeg ((deg : Nat) : α))

/-- `Cluster._normalized_cell_positions[n][i]`: cell `0` at the origin; cells `1..6` at distance
    `2·height` and angles `30°, 90°, …, 330°`; cells `7..18` at angles `0°, 30°, …, 330°` and
    distances alternating `3·radius`, `4·height` (unit radius); the array is zero beyond. -/
def hexNorm (i : Nat) : Pt α :=
  let h1 : α := hexHeight ((1 : Nat) : α)
  if i = 0 then (((0 : Nat) : α), ((0 : Nat) : α))
  else if i < 7 then rectDeg (((2 : Nat) : α) * h1) (30 + 60 * (i - 1))
  else if i < 19 then
    rectDeg (if (i - 7) % 2 = 0 then ((3 : Nat) : α) * ((1 : Nat) : α) else ((4 : Nat) : α) * h1) (30 * (i - 7))
  else (((0 : Nat) : α), ((0 : Nat) : α))

/-- `_calc_cell_positions_hexagon` before rotation: normalised positions times the cell radius -/
def hexRaw (R : α) (n : Nat) : List (Pt α) := (List.range n).map (fun i => smul R (hexNorm i))

/-- `_calc_cell_positions_square` before rotation: cell `t` of a `k × k` grid sits at
    `side·((t mod k) + 1j·(k-1 - t div k) - 0.5 - 0.5j)` -/
def squareRawPt (side : α) (k t : Nat) : Pt α :=
  let half : α := ((1 : Nat) : α) / ((2 : Nat) : α)
  (side * (((t % k : Nat) : α) - half), side * (((k - 1 - t / k : Nat) : α) - half))

def squareRaw (side : α) (n : Nat) : Except PyErr (List (Pt α)) :=
  let k := Nat.sqrt n
  if k * k = n then .ok ((List.range n).map (squareRawPt side k)) else .error .ValueError

def sumPts : List (Pt α) → Pt α
  | [] => (((0 : Nat) : α), ((0 : Nat) : α))
  | p :: ps => padd p (sumPts ps)

/-- `np.sum(cell_positions, axis=0) / num_cells` -/
def meanPt (l : List (Pt α)) : Pt α :=
  let s := sumPts l
  (s.1 / ((l.length : Nat) : α), s.2 / ((l.length : Nat) : α))

/-- `_calc_cell_positions` + `Cluster.__init__`: rotate the raw positions, move their mean to the
    origin, add the cluster position -/
def clusterCentres (raw : List (Pt α)) (u pos : Pt α) : List (Pt α) :=
  let r := raw.map (rot u)
  let c := meanPt r
  r.map (fun p => padd (psub p c) pos)

/-- vertices of cell `i` of a cluster: every cell has the cluster's radius and rotation -/
def cellVerts (base : List (Pt α)) (u : Pt α) (centre : Pt α) : List (Pt α) := place centre u base

/-! ### the class-level cache `Cluster._normalized_cell_positions`

`_calc_cell_positions_hexagon` keeps, per *number of cells* (an exact integer key), the positions of
the cluster of unit radius; a later cluster of the same size multiplies the stored positions by
ITS OWN radius (into a new array) and rotates the product.  The cache is explicit here so that
"a cluster built after any other clusters is the cluster computed from scratch" is a statement. -/

/-- the dictionary: `num_cells ↦ ` unit-radius positions -/
abbrev NormCache (α : Type) := List (Nat × List (Pt α))

/-- what the `if num_cells not in Cluster._normalized_cell_positions` block computes -/
def normPositions (n : Nat) : List (Pt α) := (List.range n).map hexNorm

/-- `_calc_cell_positions_hexagon(cell_radius, num_cells)` before rotation: look the key
    `num_cells` up, compute and store the unit-radius positions when it is absent, return
    `cache[num_cells] * cell_radius` (a new array: the cache entry is not modified) -/
def hexRawCached (c : NormCache α) (R : α) (n : Nat) : NormCache α × List (Pt α) :=
  match c.lookup n with
  | some l => (c, l.map (smul R))
  | none => ((n, normPositions n) :: c, (normPositions n).map (smul R))

/-- clusters `(num_cells, cell_radius, exp(j·rotation), pos)` constructed one after the other in
    one process: the centres of each, the cache threaded through -/
def clusterSeq (c : NormCache α) : List (Nat × α × Pt α × Pt α) → List (List (Pt α))
  | [] => []
  | (n, R, u, pos) :: rest =>
    let cr := hexRawCached c R n
    clusterCentres cr.2 u pos :: clusterSeq cr.1 rest
end layout

section squarecell
variable {α : Type} [Add α] [Sub α] [Mul α] [Div α] [Neg α] [NatCast α] [LT α] [DecidableLT α]
/-- the `CellSquare(centre, side, rotation)` a square cluster creates: the corners come from
    `Rectangle.__init__`, the centre is the one handed to `CellBase.__init__` -/
def squareCell (side : α) (centre : Pt α) : Rect α := { mkSquare centre side with pos := centre }

def squareCellVerts (side : α) (u centre : Pt α) : List (Pt α) :=
  place centre u (rectVerts (squareCell side centre))
end squarecell

end PyPhysim.C19
