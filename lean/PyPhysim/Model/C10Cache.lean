import PyPhysim.Model.Proto
/-!
# C10 — the solution / derived-quantity state machine of `IASolverBaseClass`

Executable model (core Lean only) of the attributes
`_F _full_F _W _W_H _full_W_H _full_W _P _Ns` of
`pyphysim/ia/iabase.py : IASolverBaseClass`, of the helpers that clear them,
of the public mutators (`P` setter, `randomizeF`, `set_precoders`,
`set_receive_filters`, `clear`, `solve`) and of the lazily computing getters.
Every lazily derived attribute is an explicit `Option` field, so that a stale
value is expressible.

The machine is generic in the type `μ` of "one matrix per user" arrays and in
the scalar type `ρ` of the powers; the matrix operations the getters perform
are the fields of `Ops` (the driver instantiates them with binary64 complex
matrices and the channel of the solver, `Proofs/C10*.lean` state what the real
operations satisfy).  Theorems about the machine hold for every `Ops`.

`Cfg` selects between the code at the design round (`Cfg.orig`, kept for the
negative witnesses) and the repaired code (`Cfg.fixed`, what the working tree is
compared with).

`solve` is modelled by its effect on the eight attributes: it stores the stream
counts, assigns the power through the setter, clears everything and installs
the precoders / filters the algorithm produced (`Solution`, a parameter: the
numeric content of the five algorithms is the subject of `Model/C10.lean`).
Derived attributes the real `solve` happens to leave populated are not
observable as long as they are coherent, which is what the correspondence
compares (outputs of the getters).

Out of the model (guards of the harness generators): arrays whose length is not
`K`, Python lists instead of numpy object arrays.
-/
namespace PyPhysim.C10
open PyPhysim.Proto

/-- the matrix operations performed by the getters -/
structure Ops (μ ρ : Type) where
  /-- `self._F * np.sqrt(self.P)` -/
  scale : μ → List ρ → Except PyErr μ
  /-- per user `.conj().T` -/
  herm : μ → μ
  /-- per user `np.linalg.solve(W_H[k] · H_kk · full_F[k], W_H[k])`
      (arguments: `W_H`, `full_F`) -/
  comp : μ → μ → Except PyErr μ
  /-- per user `X / np.linalg.norm(X, 'fro')` -/
  normalize : μ → μ
  /-- per user `X.shape[1]` -/
  ncols : μ → List Nat
  /-- `value > 0.0` -/
  pos : ρ → Bool
  /-- `1.0` -/
  one : ρ
  /-- an object array of `K` `None`s (`np.empty(K, dtype=np.ndarray)` never filled) -/
  noneArr : μ

/-- which source revision is modelled -/
structure Cfg where
  /-- the `P` setter clears `_full_F`, `_full_W_H`, `_full_W` -/
  pClears : Bool
  /-- `_clear_precoder_filter` also clears `_full_W_H`, `_full_W` -/
  fClearsFilters : Bool
  /-- `full_W_H` / `full_W` store the new array only once it is completely computed -/
  atomic : Bool
  /-- `randomizeF`, `set_receive_filters` and `solve` validate their arguments BEFORE they
      modify anything (a rejected call leaves the object as it was) -/
  validateFirst : Bool
  deriving DecidableEq, Repr

/-- the code at the design round (commit 6fe5d71) -/
def Cfg.orig : Cfg := ⟨false, false, false, false⟩
/-- the code after the first round of repairs (stale caches fixed, rejected calls still
    modified the object before raising) -/
def Cfg.round1 : Cfg := ⟨true, true, true, false⟩
/-- the repaired code -/
def Cfg.fixed : Cfg := ⟨true, true, true, true⟩

/-- argument of the `P` setter -/
inductive PArg (ρ : Type) where
  | none
  | scalar (x : ρ)
  | vec (xs : List ρ)
  /-- an array that is neither 0-dimensional nor 1-dimensional (e.g. shape `(K, 1)`) -/
  | malformed
  deriving DecidableEq, Repr

/-- `Ns` argument of `randomizeF` / `solve` -/
inductive NsArg where
  | int (n : Nat)
  | list (ns : List Nat)
  deriving DecidableEq, Repr

structure State (μ ρ : Type) where
  /-- `_Ns` -/
  ns : Option (List Nat)
  /-- `_P` -/
  p : Option (List ρ)
  /-- `_F` -/
  f : Option μ
  /-- `_full_F` -/
  fullF : Option μ
  /-- `_W` -/
  w : Option μ
  /-- `_W_H` -/
  wH : Option μ
  /-- `_full_W_H` -/
  fullWH : Option μ
  /-- `_full_W` -/
  fullW : Option μ
  deriving DecidableEq, Repr

/-- state after `__init__` -/
def State.init (μ ρ : Type) : State μ ρ :=
  { ns := none, p := none, f := none, fullF := none, w := none, wH := none, fullWH := none, fullW := none }

/-- what an algorithm's `solve` leaves in `_F`, `_full_F`, `_W`, `_W_H`, `_Ns` -/
structure Solution (μ : Type) where
  f : μ
  /-- only the MMSE solver stores `_full_F` itself -/
  fullF : Option μ
  /-- the receive filters the algorithm stored … -/
  filt : μ
  /-- … in `_W_H` (alternating minimisation) or in `_W` (all others) -/
  filtIsH : Bool
  /-- `_Ns` after `_solve_finalize` -/
  ns : List Nat
  deriving DecidableEq, Repr

inductive Op (μ ρ : Type) where
  /-- `solver.P = v` -/
  | setP (v : PArg ρ)
  /-- `randomizeF(Ns, P)`; `drawn` = the matrices returned by `randn_c_RS` -/
  | randomizeF (drawn : μ) (ns : NsArg) (p : PArg ρ)
  /-- `set_precoders(F, full_F, P)` -/
  | setPrecoders (f fullF : Option μ) (p : Option (List ρ))
  /-- `set_receive_filters(W_H, W)` -/
  | setFilters (wH w : Option μ)
  /-- `solve(Ns, P)`; `closedForm` = the solver asserts `K == 3` -/
  | solve (closedForm : Bool) (ns : NsArg) (p : PArg ρ) (sol : Solution μ)
  /-- `clear()` -/
  | clear
  /-- `solver.initialize_with = value`; `accepted` = the value is one of the known modes
      (and not `'alt_min'` on the alternating-minimisation solver) -/
  | setInit (accepted : Bool)
  /-- a call of the non-mutating API: `calc_Q`, `calc_Q_rev`, `calc_SINR`, `calc_SINR_in_dB`,
      `calc_sum_capacity`, `calc_remaining_interference_percentage`, `get_cost`, `repr`, `noise_var`,
      `K`, `Nr`, `Nt` (whatever it returns or raises).  Internally such a call may read
      `full_F` / `full_W_H`; by `ObsEq` (Proofs/C10Obs.lean) that is not observable, so the model
      does nothing. -/
  | query
  /-- the object is replaced by a deep copy / a pickle round trip of itself -/
  | fork
  | readF | readFullF | readW | readWH | readFullWH | readFullW | readNs | readP
  deriving Repr

inductive Out (μ ρ : Type) where
  | unit
  | err (e : PyErr)
  /-- a per-user array, or `None` -/
  | arr (x : Option μ)
  | ns (x : Option (List Nat))
  | pow (x : List ρ)
  deriving DecidableEq, Repr

section Step
variable {μ ρ : Type}

/-- `_clear_receive_filter` -/
def clearRx (st : State μ ρ) : State μ ρ :=
  { st with w := none, wH := none, fullWH := none, fullW := none }

/-- `_clear_precoder_filter` -/
def clearTx (cfg : Cfg) (st : State μ ρ) : State μ ρ :=
  if cfg.fClearsFilters then { st with f := none, fullF := none, fullWH := none, fullW := none }
  else { st with f := none, fullF := none }

/-- the `P` getter: `np.ones(K)` when `_P is None` -/
def curP (O : Ops μ ρ) (K : Nat) (st : State μ ρ) : List ρ :=
  match st.p with
  | none => List.replicate K O.one
  | some p => p

/-- `np.ones(K, dtype=int) * Ns` for an `int` -/
def NsArg.expand (K : Nat) : NsArg → List Nat
  | .int n => List.replicate K n
  | .list ns => ns

/-- what the `P` setter stores after a successful validation -/
def storeP (cfg : Cfg) (st : State μ ρ) (p : Option (List ρ)) : State μ ρ :=
  if cfg.pClears then { st with p := p, fullF := none, fullWH := none, fullW := none }
  else { st with p := p }

/-- the `P` setter -/
def setP (cfg : Cfg) (O : Ops μ ρ) (K : Nat) (st : State μ ρ) : PArg ρ → State μ ρ × Except PyErr Unit
  | .none => (storeP cfg st none, .ok ())
  | .scalar x =>
    if O.pos x then (storeP cfg st (some (List.replicate K x)), .ok ())
    else (st, .error .ValueError)
  | .vec xs =>
    if xs.length ≠ K then (st, .error .ValueError)
    else if xs.all O.pos then (storeP cfg st (some xs), .ok ())
    else (st, .error .ValueError)
  | .malformed => (st, .error .ValueError)

def outOf (r : Except PyErr Unit) : Out μ ρ :=
  match r with
  | .ok _ => .unit
  | .error e => .err e

/-- `randomizeF(Ns, P)` -/
def doRandomizeF (cfg : Cfg) (O : Ops μ ρ) (K : Nat) (st : State μ ρ) (drawn : μ) (ns : NsArg)
    (p : PArg ρ) : State μ ρ × Out μ ρ :=
  if cfg.validateFirst then
    -- repaired: the power is assigned (validated) first, then the precoder is cleared
    match setP cfg O K st p with
    | (_, .error e) => (st, .err e)
    | (st1, .ok _) =>
      ({ clearTx cfg st1 with f := some (O.normalize drawn), ns := some (ns.expand K) }, .unit)
  else
    match setP cfg O K (clearTx cfg st) p with
    | (st1, .error e) => (st1, .err e)
    | (st1, .ok _) => ({ st1 with f := some (O.normalize drawn), ns := some (ns.expand K) }, .unit)

/-- `set_precoders(F, full_F, P)` -/
def doSetPrecoders (cfg : Cfg) (O : Ops μ ρ) (st : State μ ρ) (f fullF : Option μ)
    (p : Option (List ρ)) : State μ ρ × Out μ ρ :=
  match f, fullF with
  | none, none => (st, .err .RuntimeError)
  | _, _ =>
    let st1 := clearTx cfg st
    let st2 := match p with
      | none => st1
      | some q => { st1 with p := some q }          -- `self._P = P` (no validation)
    let fNew : Option μ := match f with
      | some F => some F
      | none => fullF.map O.normalize
    ({ st2 with fullF := fullF, f := fNew, ns := fNew.map O.ncols }, .unit)

/-- `set_receive_filters(W_H, W)` (the design-round code cleared the filters before it checked
    the arguments) -/
def doSetFilters (cfg : Cfg) (st : State μ ρ) (wH w : Option μ) : State μ ρ × Out μ ρ :=
  let st1 := clearRx st
  let rej := if cfg.validateFirst then st else st1
  match wH, w with
  | none, none => (rej, .err .RuntimeError)
  | some _, some _ => (rej, .err .RuntimeError)
  | _, _ => ({ st1 with w := w, wH := wH }, .unit)

/-- `solve(Ns, P)` seen from the eight attributes -/
def doSolve (cfg : Cfg) (O : Ops μ ρ) (K : Nat) (st : State μ ρ) (closedForm : Bool) (ns : NsArg)
    (p : PArg ρ) (sol : Solution μ) : State μ ρ × Out μ ρ :=
  if closedForm && K != 3 then (st, .err .AssertionError)
  else
    -- the design-round code stored `_Ns` before the power setter validated `P`
    let st0 := if cfg.validateFirst then st else { st with ns := some (ns.expand K) }
    match setP cfg O K st0 p with
    | (st1, .error e) => (st1, .err e)
    | (st1, .ok _) =>
      let st2 := clearRx (clearTx cfg st1)
      ({ st2 with f := some sol.f, fullF := sol.fullF,
                  w := if sol.filtIsH then none else some sol.filt,
                  wH := if sol.filtIsH then some sol.filt else none,
                  ns := some sol.ns }, .unit)

/-- the `full_F` getter -/
def readFullF (O : Ops μ ρ) (K : Nat) (st : State μ ρ) : State μ ρ × Except PyErr μ :=
  match st.fullF with
  | some X => (st, .ok X)
  | none =>
    match st.f with
    | none => (st, .error .TypeError)                 -- `None * np.sqrt(P)`
    | some F =>
      match O.scale F (curP O K st) with
      | .ok X => ({ st with fullF := some X }, .ok X)
      | .error e => (st, .error e)

/-- the `W` getter -/
def readW (O : Ops μ ρ) (st : State μ ρ) : State μ ρ × Option μ :=
  match st.w with
  | some X => (st, some X)
  | none =>
    match st.wH with
    | some Y => ({ st with w := some (O.herm Y) }, some (O.herm Y))
    | none => (st, none)

/-- the `W_H` getter -/
def readWH (O : Ops μ ρ) (st : State μ ρ) : State μ ρ × Option μ :=
  match st.wH with
  | some Y => (st, some Y)
  | none =>
    match st.w with
    | some X => ({ st with wH := some (O.herm X) }, some (O.herm X))
    | none => (st, none)

/-- the `full_W_H` getter -/
def readFullWH (cfg : Cfg) (O : Ops μ ρ) (K : Nat) (st : State μ ρ) :
    State μ ρ × Except PyErr (Option μ) :=
  match st.fullWH with
  | some Z => (st, .ok (some Z))
  | none =>
    match readWH O st with
    | (st1, none) => (st1, .ok none)
    | (st1, some Y) =>
      -- the design-round code assigns `np.empty(K)` to `_full_W_H` before filling it
      let poison (s : State μ ρ) : State μ ρ :=
        if cfg.atomic then s else { s with fullWH := some O.noneArr }
      match readFullF O K st1 with
      | (st2, .error e) => (poison st2, .error e)
      | (st2, .ok fF) =>
        match O.comp Y fF with
        | .error e => (poison st2, .error e)
        | .ok Z => ({ st2 with fullWH := some Z }, .ok (some Z))

/-- the `full_W` getter -/
def readFullW (cfg : Cfg) (O : Ops μ ρ) (K : Nat) (st : State μ ρ) :
    State μ ρ × Except PyErr μ :=
  match st.fullW with
  | some Z => (st, .ok Z)
  | none =>
    let poison (s : State μ ρ) : State μ ρ :=
      if cfg.atomic then s else { s with fullW := some O.noneArr }
    match readFullWH cfg O K st with
    | (st1, .error e) => (poison st1, .error e)
    | (st1, .ok none) => (poison st1, .error .TypeError)     -- `None[k]`
    | (st1, .ok (some Z)) => ({ st1 with fullW := some (O.herm Z) }, .ok (O.herm Z))

def outArr (r : Except PyErr μ) : Out μ ρ :=
  match r with
  | .ok X => .arr (some X)
  | .error e => .err e

def outArrO (r : Except PyErr (Option μ)) : Out μ ρ :=
  match r with
  | .ok X => .arr X
  | .error e => .err e

def step (cfg : Cfg) (O : Ops μ ρ) (K : Nat) (st : State μ ρ) : Op μ ρ → State μ ρ × Out μ ρ
  | .setP v => let r := setP cfg O K st v; (r.1, outOf r.2)
  | .randomizeF drawn ns p => doRandomizeF cfg O K st drawn ns p
  | .setPrecoders f fullF p => doSetPrecoders cfg O st f fullF p
  | .setFilters wH w => doSetFilters cfg st wH w
  | .solve cf ns p sol => doSolve cfg O K st cf ns p sol
  | .clear => ({ clearRx (clearTx cfg st) with p := none, ns := none }, .unit)
  | .setInit accepted => (st, if accepted then .unit else .err .RuntimeError)
  | .query => (st, .unit)
  | .fork => (st, .unit)
  | .readF => (st, .arr st.f)
  | .readFullF => let r := readFullF O K st; (r.1, outArr r.2)
  | .readW => let r := readW O st; (r.1, .arr r.2)
  | .readWH => let r := readWH O st; (r.1, .arr r.2)
  | .readFullWH => let r := readFullWH cfg O K st; (r.1, outArrO r.2)
  | .readFullW => let r := readFullW cfg O K st; (r.1, outArr r.2)
  | .readNs => (st, .ns st.ns)
  | .readP => (st, .pow (curP O K st))

/-- run a history; outputs in order -/
def run (cfg : Cfg) (O : Ops μ ρ) (K : Nat) : State μ ρ → List (Op μ ρ) → State μ ρ × List (Out μ ρ)
  | st, [] => (st, [])
  | st, op :: ops =>
    let r := step cfg O K st op
    let rs := run cfg O K r.1 ops
    (rs.1, r.2 :: rs.2)

/-- the state a fresh solver reaches by a history -/
def reach (cfg : Cfg) (O : Ops μ ρ) (K : Nat) (ops : List (Op μ ρ)) : State μ ρ :=
  (run cfg O K (State.init μ ρ) ops).1

end Step

end PyPhysim.C10
