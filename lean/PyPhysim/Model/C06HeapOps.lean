/-
C06 — meaning of the container idioms of `SimulationResults` on the object-level
model (`Model/C06Heap.lean`).  Core Lean only.

`Generated/C06Sim.lean` (re-emitted from the source of `add_result`,
`append_result`, `add_new_result`, `merge_all_results` by `harness/gen/c06sim.py`)
is written in terms of these primitives and of the heap operations of the hand
model; `Properties/C06.lean` proves the re-emitted functions equal to the hand
model's `addResult`, `appendResult`, `addNewResult`, `mergeAll`.

A `SimulationResults` object is an address `x` into `Mach.sims`, a Python list of
results an address `l` into `Mach.lists`, a `Result` object an address `a` into
`Mach.res` (a dangling address cannot occur in Python; `AttributeError` as in the
hand model).
-/
import PyPhysim.Model.C06Heap
namespace PyPhysim.C06M.Ops
open PyPhysim.Proto

/-- `list(X._results.keys())`  (= `X.get_result_names()`), in insertion order -/
def names (m : Mach) (x : Nat) : List String := (dictOf m x).map (·.1)

/-- `len(X._results)`  (= `len(X)`) -/
def size (m : Mach) (x : Nat) : Nat := (dictOf m x).length

/-- `X._results[key]`  (= `X[key]`): the list object stored under `key`; `KeyError` if absent -/
def getList (m : Mach) (x : Nat) (key : String) : Except PyErr Nat :=
  match dictGet? (dictOf m x) key with
  | none => .error .KeyError
  | some l => .ok l

/-- `L[-1]` -/
def last (m : Mach) (l : Nat) : Except PyErr Nat :=
  match (listAt m l).getLast? with
  | none => .error .IndexError
  | some a => .ok a

/-- `L[0]` -/
def first (m : Mach) (l : Nat) : Except PyErr Nat :=
  match listAt m l with
  | [] => .error .IndexError
  | a :: _ => .ok a

/-- the attribute record of the `Result` object at address `a` -/
def deref (m : Mach) (a : Nat) : Except PyErr Res :=
  match m.res[a]? with
  | none => .error .AttributeError
  | some r => .ok r

/-- `X._results[key] = [a₁, …]`: a new list object is stored under `key` (an existing key keeps
    its position in the dictionary) -/
def setEntryNewList (m : Mach) (x : Nat) (key : String) (elems : List Nat) : Mach :=
  let (m1, l) := allocList m elems
  setDict m1 x (dictSet (dictOf m1 x) key l)

/-- `L.append(r)` -/
def listAppend (m : Mach) (l a : Nat) : Mach := setList m l (listAt m l ++ [a])

end PyPhysim.C06M.Ops
