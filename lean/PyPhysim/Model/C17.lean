import PyPhysim.Model.Proto
/-!
# C17 model, value layer (core Lean only)

Python values the serialisation code can meet (`PyVal`), JSON trees (`Json`),
the encoder `NumpyOrSetEncoder.default` + `json.dumps` (`enc`), the decoder
`json.loads(object_hook=json_numpy_or_set_obj_hook)` (`dec`: the hook is applied
bottom-up to every decoded object, exactly as CPython does), and the normal form
`norm` (numpy scalars become the Python scalar of the same value; nothing else
changes).

Numbers.  A finite binary64 / binary32 / binary16 value is an exact dyadic
rational and is carried as `num/den` in lowest terms (`den > 0`), so structural
equality is numeric equality; the non-finite values and `-0.0` are separate
constructors.  `repr(float)` and its parser are CPython's (trusted: `float(repr
x) = x`), so a JSON float is the same payload.

The model is the code *after* the `fix:` commits of the C17 worktree (encoder:
`np.integer`/`np.floating`/`np.bool_`, fallback `super().default`; decoder:
`np.array(data, dtype=dct['dtype']).reshape(dct['shape'])`).
-/
namespace PyPhysim.C17
open PyPhysim.Proto

inductive PyFloat where
  | fin (num : Int) (den : Nat)
  | negZero | posInf | negInf | nan
  deriving DecidableEq, Repr, Inhabited

/-- what a model function can answer instead of a value: a Python exception, or
    "this input is outside what the model describes" (never used to make a
    theorem true: every theorem states `= .ok …`) -/
inductive Err where
  | py (e : PyErr)
  | unmodelled
  deriving DecidableEq, Repr, Inhabited

abbrev R (α : Type) := Except Err α
def raise {α : Type} (e : PyErr) : R α := .error (.py e)

inductive PyVal where
  | none
  | bool (b : Bool)
  | int (i : Int)
  | float (f : PyFloat)
  | str (s : String)
  /-- `np.int8 … np.uint64` scalar -/
  | npint (signed : Bool) (width : Nat) (i : Int)
  /-- `np.float16/32/64` scalar (`np.longdouble` only when the value is a binary64) -/
  | npfloat (width : Nat) (f : PyFloat)
  | npbool (b : Bool)
  | list (xs : List PyVal)
  /-- a Python `set`; the list is the iteration order (`list(obj)`), an
      enumeration without Python-equal duplicates -/
  | set (xs : List PyVal)
  /-- `np.ndarray`: `str(dtype)`, `shape`, `tolist()`.  This is the *logical*
      content of the array (index ↦ element); its memory layout (C / Fortran
      order, transposed, strided, reversed or broadcast view) is not part of the
      value — the code must treat all layouts of the same content alike, which the
      harness checks by producing every multi-dimensional array in each layout. -/
  | ndarray (dtype : String) (shape : List Nat) (data : PyVal)
  | dict (kvs : List (String × PyVal))
  deriving Repr, Inhabited

inductive Json where
  | null
  | bool (b : Bool)
  | int (i : Int)
  | float (f : PyFloat)
  | str (s : String)
  | arr (xs : List Json)
  | obj (kvs : List (String × Json))
  deriving Repr, Inhabited

/-! ## encoder -/

mutual
  /-- `json.dumps(v, cls=NumpyOrSetEncoder)` as a tree -/
  def enc : PyVal → Json
    | .none => .null
    | .bool b => .bool b
    | .int i => .int i
    | .float f => .float f
    | .str s => .str s
    | .npint _ _ i => .int i          -- `int(obj)`
    | .npfloat _ f => .float f        -- `float(obj)`
    | .npbool b => .bool b            -- `bool(obj)`
    | .list xs => .arr (encList xs)
    | .set xs => .obj [("data", .arr (encList xs)), ("_is_set", .bool true)]
    | .ndarray dt sh data =>
        .obj [("data", enc data), ("dtype", .str dt), ("_is_numpy_array", .bool true),
              ("shape", .arr (sh.map (fun (n : Nat) => Json.int (n : Int))))]
    | .dict kvs => .obj (encKVs kvs)
  def encList : List PyVal → List Json
    | [] => []
    | x :: xs => enc x :: encList xs
  def encKVs : List (String × PyVal) → List (String × Json)
    | [] => []
    | (k, v) :: kvs => (k, enc v) :: encKVs kvs
end

/-! ## decoder -/

/-- `dct[k]` / `k in dct` on a decoded JSON object (keys are unique) -/
def lookup {α : Type} (k : String) : List (String × α) → Option α
  | [] => .none
  | (k', v) :: kvs => if k' == k then some v else lookup k kvs

/-- kinds of array elements -/
inductive Leaf where | int | float | bool
  deriving DecidableEq, Repr

/-- `str(dtype)` of the real numeric dtypes -/
def dtypeKind (dt : String) : Option Leaf :=
  if dt == "int8" || dt == "int16" || dt == "int32" || dt == "int64"
     || dt == "uint8" || dt == "uint16" || dt == "uint32" || dt == "uint64" then some .int
  else if dt == "float16" || dt == "float32" || dt == "float64" then some .float
  else if dt == "bool" then some .bool
  else .none

mutual
  /-- every scalar in the nested list is a Python scalar of the kind of the dtype
      (then `np.array(data, dtype)` converts nothing) -/
  def leavesOk (k : Leaf) : PyVal → Bool
    | .int _ => k == .int
    | .float _ => k == .float
    | .bool _ => k == .bool
    | .list xs => leavesOkList k xs
    | _ => false
  def leavesOkList (k : Leaf) : List PyVal → Bool
    | [] => true
    | x :: xs => leavesOk k x && leavesOkList k xs
end

mutual
  /-- shape numpy infers for a nested list (`np.array(data).shape`);
      `none` = ragged / not numeric (numpy raises `ValueError`) -/
  def inferShape : PyVal → Option (List Nat)
    | .int _ => some []
    | .float _ => some []
    | .bool _ => some []
    | .list xs => inferList xs
    | _ => .none
  /-- shape of a non-scalar level: length followed by the common shape of the items -/
  def inferList : List PyVal → Option (List Nat)
    | [] => some [0]
    | x :: xs =>
      match inferShape x, xs, inferList xs with
      | some s, [], _ => some (1 :: s)
      | some s, _ :: _, some (n :: s') => if s = s' then some ((n + 1) :: s) else .none
      | _, _, _ => .none
end

/-- what `tolist()` keeps of a shape: everything up to the first zero dimension -/
def collapse : List Nat → List Nat
  | [] => []
  | 0 :: _ => [0]
  | (n + 1) :: r => (n + 1) :: collapse r

def natList : List PyVal → Option (List Nat)
  | [] => some []
  | .int i :: r => if i < 0 then .none else (natList r).map (i.toNat :: ·)
  | _ => .none

/-- `np.array(data, dtype=dtype).reshape(shape)`.  Modelled when the elements
    already have the kind of the dtype and the recorded shape is the shape of
    the nested list up to `tolist()`'s collapse of zero-sized arrays (then the
    result has exactly the recorded dtype/shape and the same `tolist()`). -/
def mkArray (data dtype shape : PyVal) : R PyVal :=
  match dtype, shape with
  | .str dt, .list shp =>
    match dtypeKind dt, natList shp with
    | some k, some sh =>
      if leavesOk k data then
        match inferShape data with
        | .none => raise .ValueError          -- inhomogeneous
        | some s => if s = collapse sh then .ok (.ndarray dt sh data) else .error .unmodelled
      else .error .unmodelled
    | _, _ => .error .unmodelled
  | _, _ => .error .unmodelled

/-- numeric value of a hashable scalar (`True == 1 == 1.0`, `-0.0 == 0`) -/
inductive Num where
  | fin (num : Int) (den : Nat) | posInf | negInf | nan
  deriving DecidableEq, Repr

def floatNum : PyFloat → Num
  | .fin n d => .fin n d
  | .negZero => .fin 0 1
  | .posInf => .posInf
  | .negInf => .negInf
  | .nan => .nan

def numOf : PyVal → Option Num
  | .bool b => some (.fin (if b then 1 else 0) 1)
  | .int i => some (.fin i 1)
  | .float f => some (floatNum f)
  | .npint _ _ i => some (.fin i 1)
  | .npfloat _ f => some (floatNum f)
  | .npbool b => some (.fin (if b then 1 else 0) 1)
  | _ => .none

/-- hashable scalars: what a Python `set` can hold here -/
def hashable : PyVal → Bool
  | .none | .bool _ | .int _ | .float _ | .str _ | .npint _ _ _ | .npfloat _ _ | .npbool _ => true
  | _ => false

/-- Python `==` between two hashable scalars -/
def pyEq (a b : PyVal) : Bool :=
  match numOf a, numOf b with
  | some .nan, _ => false
  | _, some .nan => false
  | some x, some y => x == y
  | .none, .none =>
    match a, b with
    | .none, .none => true
    | .str s, .str t => s == t
    | _, _ => false
  | _, _ => false

/-- one `set.add` -/
def setAdd (acc : List PyVal) (x : PyVal) : List PyVal :=
  if acc.any (fun y => pyEq y x) then acc else acc ++ [x]

/-- `set(data)` -/
def mkSet (data : PyVal) : R PyVal :=
  match data with
  | .list xs => if xs.all hashable then .ok (.set (xs.foldl setAdd [])) else raise .TypeError
  | _ => .error .unmodelled

/-- `json_numpy_or_set_obj_hook` on an already decoded `dict` -/
def objHook (d : List (String × PyVal)) : R PyVal :=
  match lookup "_is_numpy_array" d with
  | some (.bool true) =>
    match lookup "data" d with
    | .none => raise .KeyError
    | some data =>
      match lookup "dtype" d, lookup "shape" d with
      | some dt, some sh => mkArray data dt sh
      | _, _ => .error .unmodelled      -- files written without dtype/shape
  | some _ => raise .ValueError
  | .none =>
    match lookup "_is_set" d with
    | some (.bool true) =>
      match lookup "data" d with
      | .none => raise .KeyError
      | some data => mkSet data
    | some _ => raise .ValueError
    | .none => .ok (.dict d)

mutual
  /-- `json.loads(text, object_hook=json_numpy_or_set_obj_hook)` -/
  def dec : Json → R PyVal
    | .null => .ok .none
    | .bool b => .ok (.bool b)
    | .int i => .ok (.int i)
    | .float f => .ok (.float f)
    | .str s => .ok (.str s)
    | .arr xs => (decList xs).bind (fun vs => .ok (.list vs))
    | .obj kvs => (decKVs kvs).bind objHook
  def decList : List Json → R (List PyVal)
    | [] => .ok []
    | x :: xs => (dec x).bind (fun v => (decList xs).bind (fun vs => .ok (v :: vs)))
  def decKVs : List (String × Json) → R (List (String × PyVal))
    | [] => .ok []
    | (k, x) :: kvs => (dec x).bind (fun v => (decKVs kvs).bind (fun r => .ok ((k, v) :: r)))
end

/-! ## normal form and the supported values -/

mutual
  /-- numpy scalars replaced by the Python scalar of the same value -/
  def norm : PyVal → PyVal
    | .npint _ _ i => .int i
    | .npfloat _ f => .float f
    | .npbool b => .bool b
    | .list xs => .list (normList xs)
    | .set xs => .set (normList xs)
    | .dict kvs => .dict (normKVs kvs)
    | v => v
  def normList : List PyVal → List PyVal
    | [] => []
    | x :: xs => norm x :: normList xs
  def normKVs : List (String × PyVal) → List (String × PyVal)
    | [] => []
    | (k, v) :: kvs => (k, norm v) :: normKVs kvs
end

def reserved (k : String) : Bool := k == "_is_set" || k == "_is_numpy_array"

/-- no two elements are Python-equal (true of the iteration of any `set`) -/
def pairwiseDistinct : List PyVal → Bool
  | [] => true
  | x :: xs => !(xs.any (fun y => pyEq x y)) && pairwiseDistinct xs

mutual
  /-- supported values: what a real object of the supported types looks like.
      * a set holds hashable scalars, pairwise different (any Python set does)
      * an array has a real numeric dtype, Python scalars of that kind as
        `tolist()` leaves and a shape consistent with its `tolist()`
      * a dict does not use the two keys the decoder hook reserves -/
  def wf : PyVal → Bool
    | .npfloat w _ => decide (w ≤ 64)
    | .list xs => wfList xs
    | .set xs => xs.all hashable && pairwiseDistinct xs && wfList xs
    | .ndarray dt sh data =>
        match dtypeKind dt with
        | some k => leavesOk k data && (inferShape data == some (collapse sh))
        | .none => false
    | .dict kvs => wfKVs kvs
    | _ => true
  def wfList : List PyVal → Bool
    | [] => true
    | x :: xs => wf x && wfList xs
  def wfKVs : List (String × PyVal) → Bool
    | [] => true
    | (k, v) :: kvs => !reserved k && wf v && wfKVs kvs
end

def isNegZero : PyVal → Bool
  | .float .negZero => true
  | .npfloat _ .negZero => true
  | _ => false

mutual
  /-- same tree, same numeric values; only scalar *types* may differ
      (first-principles reading of "loses nothing") -/
  def sameValue : PyVal → PyVal → Bool
    | .list xs, .list ys => sameValueList xs ys
    | .set xs, .set ys => sameValueList xs ys
    | .dict kvs, .dict kws => sameValueKVs kvs kws
    | .ndarray dt sh d, .ndarray dt' sh' d' => dt == dt' && sh == sh' && sameValue d d'
    | .none, .none => true
    | .str s, .str t => s == t
    | a, b =>
      match numOf a, numOf b with
      | some x, some y => x == y && (isNegZero a == isNegZero b)
      | _, _ => false
  def sameValueList : List PyVal → List PyVal → Bool
    | [], [] => true
    | x :: xs, y :: ys => sameValue x y && sameValueList xs ys
    | _, _ => false
  def sameValueKVs : List (String × PyVal) → List (String × PyVal) → Bool
    | [], [] => true
    | (k, x) :: xs, (k', y) :: ys => k == k' && sameValue x y && sameValueKVs xs ys
    | _, _ => false
end

-- JSON tree as a value without numpy/set types (used to print `enc`)
mutual
  def Json.toVal : Json → PyVal
    | .null => .none
    | .bool b => .bool b
    | .int i => .int i
    | .float f => .float f
    | .str s => .str s
    | .arr xs => .list (Json.toValList xs)
    | .obj kvs => .dict (Json.toValKVs kvs)
  def Json.toValList : List Json → List PyVal
    | [] => []
    | x :: xs => x.toVal :: Json.toValList xs
  def Json.toValKVs : List (String × Json) → List (String × PyVal)
    | [] => []
    | (k, x) :: kvs => (k, x.toVal) :: Json.toValKVs kvs
end

end PyPhysim.C17
