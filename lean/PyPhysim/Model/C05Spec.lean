import PyPhysim.Model.C05

/-!
C05 — specification-side vocabulary (core Lean only; no control flow of the code
appears here).  A *run of one variation* is described purely by folds over the
outcomes it consumed (`freshState`, `after`) and by the guard evaluated on those
folds; `IsVarRun` says that a segment of the outcome stream is exactly one
complete run, `RunsSpec` chains such segments over a list of variations.
Reused by C07.
-/
namespace PyPhysim.C05

variable {R : Type}

/-- state of a FRESH variation after the outcomes `p` were consumed: `none` while no
    repetition has returned results yet, otherwise the left fold of the successful
    outcomes, their number, the number of skips and the number of calls -/
def freshState (merge : R → R → R) (p : List (Outcome R)) : Option (VarState R) :=
  match oks p with
  | [] => none
  | r :: rs => some ⟨rs.foldl merge r, (oks p).length, skips p, p.length⟩

/-- state after the outcomes `p`, for a fresh variation (`start = none`) or one
    resumed from loaded partial results `(acc, rep)` -/
def stateOf (merge : R → R → R) (start : Option (R × Nat)) (p : List (Outcome R)) :
    Option (VarState R) :=
  match start with
  | some (a, r) => some (after merge ⟨a, r, 0, 0⟩ p)
  | none => freshState merge p

/-- `seg` is exactly one complete run of a variation and it ends in `st`:
    * `st` is the fold of `seg` (merge of exactly the successful outcomes, their
      count, the skips, the calls);
    * the guard `keep ∧ rep < repMax` is false on `st` (limit or stop rule reached);
    * after every proper prefix the run had to go on: either no repetition had
      succeeded yet (fresh variation) or the guard was true.
    Hence `seg.length` is the least number of calls after which the guard fails. -/
def IsVarRun (merge : R → R → R) (repMax : Nat) (keep : Keep R) (start : Option (R × Nat))
    (seg : List (Outcome R)) (st : VarState R) : Prop :=
  stateOf merge start seg = some st ∧
  guard repMax keep st = false ∧
  ∀ p, p <+: seg → p ≠ seg → ∀ s, stateOf merge start p = some s → guard repMax keep s = true

/-- the stream was split into one complete run per listed variation -/
def RunsSpec (cfg : Cfg R) (load : Nat → Option (R × Nat)) :
    List Nat → List (List (Outcome R)) → List (VarState R) → Prop
  | [], [], [] => True
  | i :: is, seg :: segs, st :: sts =>
    IsVarRun cfg.merge cfg.repMax (cfg.keep i) (load i) seg st ∧ RunsSpec cfg load is segs sts
  | _, _, _ => False

/-- the call log of such a split: `|seg_k|` calls to variation `i_k`, in list order -/
def logOf : List Nat → List (List (Outcome R)) → List Nat
  | i :: is, seg :: segs => List.replicate seg.length i ++ logOf is segs
  | _, _ => []

def VarState.stored (s : VarState R) : Stored R := ⟨s.acc, s.skipped⟩
def VarState.saved (s : VarState R) : Saved R := ⟨s.acc, s.skipped, s.rep⟩

end PyPhysim.C05
