import PyPhysim.Model.C10Cache
/-!
A small exact interpretation of the machine operations: every user has ONE
antenna and ONE stream, all matrices are `1 × 1` rational numbers (a per-user
array is a `List Rat`), powers are rational perfect squares.  It is the real
semantics of the getters specialised to that case (`x * sqrt p`, `y / (y h f)`,
`x / |x|`, conjugation = identity), and decidable, so that concrete histories can
be evaluated by the kernel.
-/
namespace PyPhysim.C10
open PyPhysim.Proto

/-- exact square root of a rational perfect square -/
def sqrtQ (p : Rat) : Rat := mkRat (Int.ofNat (Nat.sqrt p.num.toNat)) (Nat.sqrt p.den)

def zip3 (f : Rat → Rat → Rat → Except PyErr Rat) : List Rat → List Rat → List Rat → Except PyErr (List Rat)
  | a :: as, b :: bs, c :: cs =>
    match f a b c, zip3 f as bs cs with
    | .ok x, .ok xs => .ok (x :: xs)
    | .error e, _ => .error e
    | _, .error e => .error e
  | [], [], [] => .ok []
  | _, _, _ => .error .ValueError

/-- the operations of a solver whose direct channels are the `1 × 1` matrices `h` -/
def toyOps (h : List Rat) : Ops (List Rat) Rat where
  scale F P := if F.length ≠ P.length then .error .ValueError
               else .ok (List.zipWith (fun f p => f * sqrtQ p) F P)
  herm X := X
  comp Y fF := zip3 (fun y hk f => if y * hk * f = 0 then .error .ValueError else .ok (y / (y * hk * f))) Y h fF
  normalize X := X.map (fun x => x / (if x < 0 then -x else x))
  ncols X := X.map (fun _ => 1)
  pos x := decide (0 < x)
  one := 1
  noneArr := []

end PyPhysim.C10
