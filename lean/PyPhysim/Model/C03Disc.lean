/-
C03 — model of `TdlChannelProfile._calc_discretized_tap_powers_and_delays`
over exact rationals (core Lean only).

  delay_indexes, idx_inverse = np.unique(np.round(delays / Ts).astype(int), return_inverse=True)
  powers = zeros(len(delay_indexes));  for i, v in enumerate(p): powers[idx_inverse[i]] += v
  powers /= sum(powers)

The final `linear2dB` / `dB2Linear` round trip (`10^(log10 p)`) is a numeric
kernel outside the model; the correspondence compares the linear powers at 1e-12.
-/
namespace PyPhysim.C03

/-- `np.round` = round half to even, on an exact rational -/
def roundHalfEven (x : Rat) : Int :=
  let f := x.floor
  let r := x - (f : Rat)
  if r < 1/2 then f else if 1/2 < r then f + 1 else if f % 2 = 0 then f else f + 1

/-- insert into a strictly increasing list, dropping duplicates -/
def insertU (a : Int) : List Int → List Int
  | [] => [a]
  | b :: bs => if a < b then a :: b :: bs else if a = b then b :: bs else b :: insertU a bs

/-- `np.unique`: the sorted distinct values -/
def uniqueSorted (l : List Int) : List Int := l.foldr insertU []

/-- the `return_inverse` array: position of each element in the unique array -/
def inverseIdx (u l : List Int) : List Nat := l.map (fun a => u.idxOf a)

/-- `for i, v in enumerate(p): acc[inv[i]] += v`, starting from `m` zeros -/
def accumulate (m : Nat) (inv : List Nat) (p : List Rat) : List Rat :=
  (inv.zip p).foldl (fun acc ip => acc.modify ip.1 (· + ip.2)) (List.replicate m 0)

/-- integer delay of every input tap -/
def delayIdx (delays : List Rat) (Ts : Rat) : List Int := delays.map (fun d => roundHalfEven (d / Ts))

/-- (delay_indexes, normalised linear powers) -/
def discretize (delays powers : List Rat) (Ts : Rat) : List Int × List Rat :=
  let idx := delayIdx delays Ts
  let u := uniqueSorted idx
  let acc := accumulate u.length (inverseIdx u idx) powers
  let tot := acc.sum
  (u, acc.map (· / tot))

/-- SPEC: total linear power of the input taps whose rounded delay is `d` -/
def collidingPower (idx : List Int) (p : List Rat) (d : Int) : Rat :=
  (((idx.zip p).filter (fun ip => ip.1 == d)).map (·.2)).sum

end PyPhysim.C03
