import PyPhysim.Model.C04
/-!
# C04 — the MIMO scheme *objects* as state machines (core Lean only)

`Blast`, `MRC`, `MRT`, `SVDMimo`, `GMDMimo`, `Alamouti` objects of
`pyphysim/mimo/mimo.py` seen through their public life cycle: constructed with
a channel, then any sequence of

* `set_channel_matrix(channel)`      (`Op.setChannel`; the object may also be built without a
  channel, `constructEmpty`, and get one later)
* `set_noise_var(None | σ²)`         (`Op.setNoiseVar`, Blast family only)
* `encode(x)`, `decode(Y)`           (`Op.encode`, `Op.decode`)
* `_calc_precoder(self._channel)`, `_calc_receive_filter(self._channel, v)`
  — the pair `calc_linear_SINRs(v)` works with (`Op.filters v`; `v = none` is the omitted / `None` argument, which means `0.0`)
* `calc_post_processing_linear_SINRs(self._channel, W, G_H, v)` for that pair
  (`Op.sinr v`; `Alamouti.calc_linear_SINRs(v)` for Alamouti);
* reading the stored `_channel` (always 2-D, whichever way and in whichever layout it was
  handed over; `None` while unset) and hence `Nr`, `Nt` (`Op.channel`), the stored
  `_noise_var` (`Op.noiseVar`) and `getNumberOfLayers()` (`Op.layers`).

The channel reaches the object in three ways: the constructor argument (`construct`: the
constructor calls the class's own `set_channel_matrix`), `set_channel_matrix` on an object
built without one (`constructEmpty` + `Op.setChannel`), or as a later replacement.

The state the code keeps is exactly `_channel` and (Blast family) `_noise_var`:
there is no cached precoder / filter, every `encode` / `decode` recomputes them
from the stored configuration.  The model mirrors that (`Obj`), so that a cached
filter that is not invalidated shows up as a disagreement with the model on the
first reconfiguration history.

The external kernels are a *function* parameter `Kernels` (they are called again
on every `decode`; "same argument ⇒ same result" is what makes a reconfigured
object comparable with a fresh one).  In the driver the functions are the
constants recorded from the real calls of that step.
-/
namespace PyPhysim.C04
open PyPhysim.Proto

inductive Scheme | blast | mrc | mrt | svd | gmd | alamouti
  deriving DecidableEq, Repr, Inhabited

/-- has `set_noise_var` / `_noise_var` (`Blast` and its subclasses) -/
def Scheme.blastFamily : Scheme → Bool
  | .blast | .mrc | .svd | .gmd => true
  | .mrt | .alamouti => false

/-- argument of `set_channel_matrix`: a 1-D or a 2-D array -/
inductive ChanArg (α : Type)
  | vec (n : Nat) (v : Vec α n)
  | mat (nr nt : Nat) (H : Mat α nr nt)

/-- the stored `_channel` (always 2-D) -/
structure Chan (α : Type) where
  nr : Nat
  nt : Nat
  H : Mat α nr nt

/-- the external kernels as functions of their argument: `pinv`, `solve`, the factors of
    `svd(channel)` (`VH` of the full, `U`, `S` of the economy-size call) and of
    `gmd(*svd(channel))` -/
structure Kernels (α : Type) where
  pinv : {m n : Nat} → Mat α m n → Mat α n m
  solve : {n m : Nat} → Mat α n n → Mat α n m → Mat α n m
  svdVH : {m n : Nat} → Mat α m n → Mat α n n
  svdU : {m n : Nat} → Mat α m n → Mat α m (min m n)
  svdS : {m n : Nat} → Mat α m n → Vec α (min m n)
  gmdQ : {m n : Nat} → Mat α m n → Mat α m m
  gmdR : {m n : Nat} → Mat α m n → Mat α m n
  gmdP : {m n : Nat} → Mat α m n → Mat α n n

/-- what an operation returns: a Python exception, `None`, a matrix, a vector, or a
    (precoder, filter) pair -/
inductive Out (α : Type)
  | err (e : PyErr)
  | done
  | mat (m n : Nat) (A : Mat α m n)
  | vec (n : Nat) (v : Vec α n)
  | two (m n : Nat) (A : Mat α m n) (p q : Nat) (B : Mat α p q)
  | nat (k : Nat)

inductive Op (α : Type)
  | setChannel (c : ChanArg α)
  | setNoiseVar (v : Option α)
  | encode (n : Nat) (x : Vec α n)
  | decode (nr L : Nat) (Y : Mat α nr L)
  | filters (v : Option α)
  | sinr (v : α)
  | channel
  | noiseVar
  | layers

/-- the object state: `_channel` (`None` until a channel is set) and `_noise_var` (`0.0` and
    never read outside the Blast family) -/
structure Obj (α : Type) where
  scheme : Scheme
  chan : Option (Chan α)
  nv : α

/-- which observation is made (for the error an object without channel answers with) -/
inductive ObsKind | encode | decode | filters | sinr

section
variable {α : Type} [Zero α] [One α] [Add α] [Sub α] [Mul α] [Div α] [Neg α] [NatCast α] [CScalar α]

/-- `set_channel_matrix` of each class: what is stored, or the `ValueError` it raises
    (state unchanged).  `Blast / SVDMimo / GMDMimo` unpack `Nr, Nt = channel.shape`
    (`ValueError` for a 1-D array); `MRC` turns a vector into a column; `MRT` and
    `Alamouti` turn it into a row and check `Nr = 1` resp. `Nt = 2` for 2-D input -/
def storeChan : Scheme → ChanArg α → Except PyErr (Chan α)
  | .blast, .vec _ _ | .svd, .vec _ _ | .gmd, .vec _ _ => .error .ValueError
  | .blast, .mat nr nt H | .svd, .mat nr nt H | .gmd, .mat nr nt H | .mrc, .mat nr nt H => .ok ⟨nr, nt, H⟩
  | .mrc, .vec n v => .ok ⟨n, 1, fun i _ => v i⟩
  | .mrt, .vec n v | .alamouti, .vec n v => .ok ⟨1, n, fun _ j => v j⟩
  | .mrt, .mat nr nt H => if nr ≠ 1 then .error .ValueError else .ok ⟨nr, nt, H⟩
  | .alamouti, .mat nr nt H => if nt ≠ 2 then .error .ValueError else .ok ⟨nr, nt, H⟩

/-- `cls(channel)`: `set_channel_matrix(channel)`, then `_noise_var = 0.0` -/
def construct (s : Scheme) (c : ChanArg α) : Except PyErr (Obj α) :=
  match storeChan s c with
  | .ok ch => .ok ⟨s, some ch, 0⟩
  | .error e => .error e

/-- `cls()`: no channel yet (`_channel = None`), `_noise_var = 0.0` -/
def constructEmpty (s : Scheme) : Obj α := ⟨s, none, 0⟩

/-- what the calls raise while `_channel is None`: `encode` of the Blast family trips the
    `assert` in `Nt`; the others fail on `None.shape` (`AttributeError`), on `svd(None)`
    (GMD decode: `LinAlgError`, a `ValueError`), on indexing the 0-d array `asarray(None)` (Alamouti decode:
    `IndexError`), on `norm(None, 'fro')` (Alamouti SINR: `ValueError`); Alamouti has no
    linear precoder at all (`RuntimeError`).  `Alamouti.encode` does not use the channel. -/
def unsetErr : Scheme → ObsKind → PyErr
  | .blast, .encode | .mrc, .encode | .svd, .encode | .gmd, .encode => .AssertionError
  | .gmd, .decode => .ValueError
  | .alamouti, .decode => .IndexError
  | .alamouti, .filters => .RuntimeError
  | .alamouti, .sinr => .ValueError
  | _, _ => .AttributeError

/-- first row of the stored channel (the MRT channel vector) -/
def row0 (c : Chan α) : Option (Vec α c.nt) :=
  if h : 0 < c.nr then some (fun j => c.H ⟨0, h⟩ j) else none

/-- `_calc_precoder(self._channel)` -/
def precoderOf (K : Kernels α) (s : Scheme) (c : Chan α) : Out α :=
  match s with
  | .blast | .mrc => .mat c.nt c.nt (blastPrecoder c.nt)
  | .svd => .mat c.nt c.nt (svdPrecoder (K.svdVH c.H))
  | .gmd => .mat c.nt c.nt (gmdPrecoder (K.gmdP c.H))
  | .mrt => match row0 c with
      | some h => .mat c.nt 1 (fun i _ => mrtPrecoder h i)
      | none => .err .IndexError
  | .alamouti => .err .RuntimeError

/-- the equivalent channel `Q.dot(R)` of GMD -/
def gmdEq (K : Kernels α) (c : Chan α) : Mat α c.nr c.nt := gmdChannelEq (K.gmdQ c.H) (K.gmdR c.H)

/-- the Blast-family receive filter for channel `H` (`Blast._calc_receive_filter`) -/
def blastFilterK (K : Kernels α) {nr nt : Nat} (H : Mat α nr nt) (v : α) : Mat α nt nr :=
  blastFilter v (K.pinv H) (K.solve (mmseLhs H v) (mmseRhs H))

/-- `_calc_receive_filter(self._channel, v)` -/
def filterOf (K : Kernels α) (s : Scheme) (c : Chan α) (v : α) : Out α :=
  match s with
  | .blast | .mrc => .mat c.nt c.nr (blastFilterK K c.H v)
  | .svd => .mat (min c.nr c.nt) c.nr (svdFilter c.nt (K.svdU c.H) (K.svdS c.H))
  | .gmd => .mat c.nt c.nr (blastFilterK K (gmdEq K c) v)
  | .mrt => match row0 c with
      | some h => .mat 1 1 (fun _ _ => mrtFilter h)
      | none => .err .IndexError
  | .alamouti => .err .RuntimeError

def outOfExcept {m n : Nat} : Except PyErr (Mat α m n) → Out α
  | .ok A => .mat m n A
  | .error e => .err e

/-- `encode(x)` with the stored configuration -/
def encodeOf (K : Kernels α) (s : Scheme) (c : Chan α) {n : Nat} (x : Vec α n) : Out α :=
  match s with
  | .blast | .mrc => outOfExcept (blastEncode c.nt x)
  | .svd => outOfExcept (precodeC (svdPrecoder (K.svdVH c.H)) x)
  | .gmd => outOfExcept (precodeC (gmdPrecoder (K.gmdP c.H)) x)
  | .mrt => match row0 c with
      | some h => .mat c.nt n (mrtEncode h x)
      | none => .err .IndexError
  | .alamouti => outOfExcept (alamoutiEncode x)

/-- `decode(Y)` with the stored configuration (`v` = the stored `_noise_var`).  A received
    block whose row count differs from the channel's makes `dot` raise `ValueError`
    (MRT broadcasts its scalar filter instead).  Not modelled (`Fuel`): Alamouti with an
    odd number of columns (the code returns uninitialised memory in the last slot) or a
    stored channel with more than two columns (only reachable through a 1-D channel). -/
def decodeOf (K : Kernels α) (s : Scheme) (c : Chan α) (v : α) {nr L : Nat} (Y : Mat α nr L) : Out α :=
  match s with
  | .blast | .mrc =>
      if h : nr = c.nr then .vec (c.nt * L) (blastDecode (blastFilterK K c.H v) (h ▸ Y)) else .err .ValueError
  | .svd =>
      if h : nr = c.nr then
        .vec (min c.nr c.nt * L) (decodeC (svdFilter c.nt (K.svdU c.H) (K.svdS c.H)) (h ▸ Y))
      else .err .ValueError
  | .gmd =>
      if h : nr = c.nr then .vec (c.nt * L) (decodeC (blastFilterK K (gmdEq K c) v) (h ▸ Y)) else .err .ValueError
  | .mrt => match row0 c with
      | some hv =>
          if h : nr = 1 then .vec L (mrtDecode hv (h ▸ Y))
          else .vec (nr * L) (flattenC (fun i j => mrtFilter hv * Y i j))
      | none => .err .IndexError
  | .alamouti =>
      if h2 : c.nt = 2 then
        if h : nr = c.nr then
          if hL : L = 2 * (L / 2) then
            .vec (2 * (L / 2)) (alamoutiDecode (Nr := c.nr) (B := L / 2)
              (fun r a => c.H r (h2 ▸ a)) (fun r j => (h ▸ Y) r (hL ▸ j)))
          else .err .Fuel
        else .err .ValueError
      else if c.nt < 2 then .err .IndexError else .err .Fuel

/-- `calc_post_processing_linear_SINRs(channel, W, G_H, v)` for a square equalised channel:
    `|s|² / (|Σ_j ce_ij − s|² + v ‖G_i‖²)` with `ce = G (H W)`, `s = diag ce` -/
def sinrOf {k nr : Nat} (ce : Mat α k k) (G : Mat α k nr) (v : α) : Vec α k :=
  fun i =>
    let s := ce i i
    let itf := sumFin k (fun j => ce i j) - s
    (CScalar.abs s * CScalar.abs s) /
      (CScalar.abs itf * CScalar.abs itf + v * sumFin nr (fun j => CScalar.abs (G i j) * CScalar.abs (G i j)))

/-- the SINRs `calc_linear_SINRs(v)` is computed from (before its dB conversion); for
    Alamouti `norm(channel, 'fro')**2 / v` -/
def sinrObs (K : Kernels α) (s : Scheme) (c : Chan α) (v : α) : Out α :=
  match s with
  | .blast | .mrc =>
      .vec c.nt (sinrOf (matMul (blastFilterK K c.H v) (matMul c.H (blastPrecoder c.nt))) (blastFilterK K c.H v) v)
  | .gmd =>
      .vec c.nt (sinrOf (matMul (blastFilterK K (gmdEq K c) v) (matMul c.H (gmdPrecoder (K.gmdP c.H))))
        (blastFilterK K (gmdEq K c) v) v)
  | .svd =>
      if h : min c.nr c.nt = c.nt then
        .vec c.nt (sinrOf (matMul (h ▸ svdFilter c.nt (K.svdU c.H) (K.svdS c.H))
          (matMul c.H (svdPrecoder (K.svdVH c.H)))) (h ▸ svdFilter c.nt (K.svdU c.H) (K.svdS c.H)) v)
      else .err .Fuel
  | .mrt => match row0 c with
      | some h =>
          let G : Mat α 1 1 := fun _ _ => mrtFilter h
          let W : Mat α c.nt 1 := fun i _ => mrtPrecoder h i
          .vec 1 (sinrOf (matMul G (matMul (fun (_ : Fin 1) j => h j) W)) G v)
      | none => .err .IndexError
  | .alamouti => .vec 1 (fun _ => frobNorm c.H * frobNorm c.H / v)

/-- the `noise_var=None` default of `_calc_receive_filter`: `if noise_var is None: noise_var = 0.0` -/
def nvArg : Option α → α
  | none => 0
  | some v => v

/-- one public operation on the object: new state and what the call returns -/
def step (K : Kernels α) (o : Obj α) : Op α → Obj α × Out α
  | .setChannel c =>
      match storeChan o.scheme c with
      | .ok ch => ({ o with chan := some ch }, .done)
      | .error e => (o, .err e)
  | .setNoiseVar v =>
      if o.scheme.blastFamily then
        match setNoiseVar v with
        | .ok x => ({ o with nv := x }, .done)
        | .error e => (o, .err e)
      else (o, .err .AttributeError)
  | .encode _ x =>
      (o, match o.chan with
          | some c => encodeOf K o.scheme c x
          | none => if o.scheme = .alamouti then outOfExcept (alamoutiEncode x)
                    else .err (unsetErr o.scheme .encode))
  | .decode _ _ Y =>
      (o, match o.chan with
          | some c => decodeOf K o.scheme c o.nv Y
          | none => .err (unsetErr o.scheme .decode))
  | .filters v =>
      (o, match o.chan with
          | some c =>
              (match precoderOf K o.scheme c, filterOf K o.scheme c (nvArg v) with
               | .mat m n A, .mat p q B => .two m n A p q B
               | .err e, _ => .err e
               | _, .err e => .err e
               | _, _ => .err .Fuel)
          | none => .err (unsetErr o.scheme .filters))
  | .sinr v =>
      (o, match o.chan with
          | some c => sinrObs K o.scheme c v
          | none => .err (unsetErr o.scheme .sinr))
  | .channel =>
      (o, match o.chan with
          | some c => .mat c.nr c.nt c.H
          | none => .done)
  | .noiseVar =>
      (o, if o.scheme.blastFamily then .vec 1 (fun _ => o.nv) else .err .AttributeError)
  | .layers =>
      (o, match o.scheme with
          | .mrt | .alamouti => .nat 1
          | _ => match o.chan with
                 | some c => .nat c.nt
                 | none => .err .AssertionError)

/-- the object after a history -/
def run (K : Kernels α) (o : Obj α) : List (Op α) → Obj α
  | [] => o
  | op :: ops => run K (step K o op).1 ops

/-! ## the configuration a history leaves behind (specification, independent of `step`) -/

/-- the channel stored after the history: the last `set_channel_matrix` argument the class
    accepts, else the one the object had -/
def cfgChan (s : Scheme) (c0 : Option (Chan α)) : List (Op α) → Option (Chan α)
  | [] => c0
  | .setChannel c :: ops =>
      (match storeChan s c with
       | .ok ch => cfgChan s (some ch) ops
       | .error _ => cfgChan s c0 ops)
  | _ :: ops => cfgChan s c0 ops

/-- the noise variance in force after the history: the last accepted `set_noise_var`
    argument (`None ↦ 0`), else the one the object had -/
def cfgNv (s : Scheme) (v0 : α) : List (Op α) → α
  | [] => v0
  | .setNoiseVar v :: ops =>
      (if s.blastFamily then
        match setNoiseVar v with
        | .ok x => cfgNv s x ops
        | .error _ => cfgNv s v0 ops
       else cfgNv s v0 ops)
  | _ :: ops => cfgNv s v0 ops

end
end PyPhysim.C04
