/-
C14 — model of `JakesSampleGenerator` (pyphysim/channels/fading_generators.py).
Core Lean only (the driver links this file).

The model mirrors the code AFTER the repair of finding `C14:float-stepped-arange`
(index based time vector: the generator keeps the integer number `_sample_index`
of the next sample; request `n` evaluates the Jakes sum at the times
`(_sample_index + j) * Ts`, `j < n`, and advances the counter by `n`).

The numeric part (`jakes`, `sampleTime`) is polymorphic over the scalar: it is
instantiated at `ℝ` in `Proofs/C14.lean` (Mathlib terms) and at `Float` in the
driver.  The bookkeeping part (`State`, `Op`, `step`, `trace`) is over `Nat`.

The last section is the model of the stepping that the code used BEFORE the
repair (`np.arange(ct, n*Ts+ct, Ts*1.0000000001)`, `ct ← t[-1]+Ts`); it is kept
for the negative witnesses that document the fixed finding.
-/
import PyPhysim.Model.Proto
namespace PyPhysim.C14
open PyPhysim.Proto

/-- transcendental functions the Jakes sum needs -/
class Transc (α : Type) where
  pi : α
  sqrt : α → α
  cos : α → α
  sin : α → α

section numeric
variable {α : Type} [Add α] [Mul α] [Div α] [NatCast α] [Transc α]

/-- time of sample number `k` of the process: `k * Ts`
    (`(self._sample_index + np.arange(n)) * self.Ts`) -/
def sampleTime (Ts : α) (k : Nat) : α := (k : α) * Ts

/-- phase of one ray `(phi_l, psi_l)` at time `t`:
    `2 * np.pi * Fd * np.cos(phi_l) * t + psi_l` (association as in the code) -/
def rayPhase (Fd t : α) (ray : α × α) : α :=
  ((2 : Nat) : α) * Transc.pi * Fd * Transc.cos ray.1 * t + ray.2

/-- `np.sum(..., axis=0)` over the rays -/
def sumList : List α → α
  | [] => ((0 : Nat) : α)
  | x :: xs => x + sumList xs

/-- `math.sqrt(1.0 / L) * np.sum(np.exp(1j * phase), axis=0)` as (re, im);
    `L = 0` is Python's `ZeroDivisionError` (`1.0 / self.L`). -/
def jakes (Fd : α) (rays : List (α × α)) (t : α) : Except PyErr (α × α) :=
  if rays.isEmpty then .error .ZeroDivisionError
  else
    let s : α := Transc.sqrt (((1 : Nat) : α) / ((rays.length : Nat) : α))
    .ok (s * sumList (rays.map fun r => Transc.cos (rayPhase Fd t r)),
         s * sumList (rays.map fun r => Transc.sin (rayPhase Fd t r)))

/-- value of sample number `k` of the process for one entry of the configured
    shape (`rays` = that entry's `(phi_l, psi_l)`, `l < L`) -/
def processSample (Fd Ts : α) (rays : List (α × α)) (k : Nat) : Except PyErr (α × α) :=
  jakes Fd rays (sampleTime Ts k)

end numeric

/-! ### bookkeeping: which samples does a request return -/

/-- what `get_samples()` holds: an array of shape `dims` whose last axis are the
    process samples number `first, first+1, …, first+count-1`, computed with the
    `epoch`-th draw of the random phases -/
structure Block where
  dims : List Nat
  first : Nat
  count : Nat
  epoch : Nat
  deriving DecidableEq, Repr, Inhabited

/-- generator state: number of the next sample, configured shape (`None` or a
    tuple), how often `phi/psi` were redrawn, the array `get_samples()` returns -/
structure State where
  k : Nat
  shape : Option (List Nat)
  epoch : Nat
  last : Option Block
  deriving DecidableEq, Repr, Inhabited

/-- argument of the `shape` setter / constructor: `None`, an `int`, a tuple -/
inductive ShapeArg
  | none
  | int (n : Nat)
  | tuple (d : List Nat)
  deriving DecidableEq, Repr, Inhabited

/-- `FadingSampleGenerator.shape.fset`: an `int` becomes a 1-tuple -/
def ShapeArg.norm : ShapeArg → Option (List Nat)
  | .none => Option.none
  | .int n => some [n]
  | .tuple d => some d

inductive Op
  /-- `generate_more_samples(num_samples)`; `none` is the default argument -/
  | gen (n : Option Nat)
  /-- `skip_samples_for_next_generation(n)` -/
  | skip (n : Nat)
  /-- `obj.shape = new_shape` (redraws `phi_l`, `psi_l`) -/
  | setShape (s : ShapeArg)
  /-- any call of the non-mutating API: `get_samples()`, the `shape` / `L` / `Ts` /
      `Fd` properties, `repr`, `==`, `copy`, `deepcopy`, `pickle.dumps`,
      `get_similar_fading_generator()` (robustness class R11) -/
  | query
  deriving DecidableEq, Repr, Inhabited

/-- `if num_samples is None: num_samples = 1` -/
def reqCount : Option Nat → Nat
  | none => 1
  | some n => n

/-- shape of the generated array: configured shape plus the time axis -/
def outDims : Option (List Nat) → Nat → List Nat
  | none, n => [n]
  | some d, n => d ++ [n]

/-- the block a `generate_more_samples(n)` issued in state `s` produces -/
def genBlock (s : State) (n : Option Nat) : Block :=
  { dims := outDims s.shape (reqCount n), first := s.k, count := reqCount n, epoch := s.epoch }

def step (s : State) : Op → State
  | .gen n => { s with k := s.k + reqCount n, last := some (genBlock s n) }
  | .skip n => { s with k := s.k + n }
  | .setShape a => { s with shape := a.norm, epoch := s.epoch + 1 }
  | .query => s

/-- the array produced by one operation (only `gen` produces one) -/
def produced (s : State) : Op → Option Block
  | .gen n => some (genBlock s n)
  | _ => Option.none

def run (s : State) : List Op → State
  | [] => s
  | op :: ops => run (step s op) ops

/-- per operation: the block it produced -/
def trace (s : State) : List Op → List (Option Block)
  | [] => []
  | op :: ops => produced s op :: trace (step s op) ops

/-- per operation: what `get_samples()` returns after it -/
def observed (s : State) : List Op → List (Option Block)
  | [] => []
  | op :: ops => (step s op).last :: observed (step s op) ops

/-- `JakesSampleGenerator.__init__`: counter 0, phases drawn once, then one
    sample is generated -/
def construct (a : ShapeArg) : State :=
  step { k := 0, shape := a.norm, epoch := 0, last := Option.none } (.gen Option.none)

/-- number of samples an operation consumes -/
def Op.size : Op → Nat
  | .gen n => reqCount n
  | .skip n => n
  | .setShape _ => 0
  | .query => 0

def total : List Op → Nat
  | [] => 0
  | op :: ops => op.size + total ops

/-- number of phase redraws in a history -/
def redraws : List Op → Nat
  | [] => 0
  | .setShape _ :: ops => 1 + redraws ops
  | _ :: ops => redraws ops

/-- configured shape after a history -/
def shapeAfter (sh : Option (List Nat)) : List Op → Option (List Nat)
  | [] => sh
  | .setShape a :: ops => shapeAfter a.norm ops
  | _ :: ops => shapeAfter sh ops

/-- the samples of a block along the time axis, for any per-sample value `f` -/
def Block.samples {β : Type} (f : Nat → β) (b : Block) : List β :=
  (List.range b.count).map fun j => f (b.first + j)

/-- entry `(idx, j)` of a produced block (`get_samples()[idx + (j,)]`): the Jakes
    sum for the rays of shape entry `idx` in the block's phase draw, at the time
    of process sample number `first + j`.  `phases e idx` = the list
    `[(phi_l[idx], psi_l[idx]) | l < L]` of the `e`-th draw (drawn by numpy's
    RNG: a parameter of the model). -/
def Block.value {α : Type} [Add α] [Mul α] [Div α] [NatCast α] [Transc α]
    (Fd Ts : α) (phases : Nat → List Nat → List (α × α)) (b : Block) (idx : List Nat) (j : Nat) :
    Except PyErr (α × α) :=
  processSample Fd Ts (phases b.epoch idx) (b.first + j)

/-! ### requests as the caller passes them (argument validation, rejected calls)

The code converts a request size with `operator.index` (Python ints, numpy
integer scalars of every width, 0-d integer arrays give their VALUE; floats,
strings, lists raise `TypeError`), rejects negative sizes with `ValueError`,
and only then touches the state.  The shape setter converts to a tuple of
Python ints the same way before it stores anything.  So the model's request is
the logical integer value only: element type, width and memory layout of the
argument are not part of the state. -/

/-- a request size as passed: no argument, an integer-valued object (its value),
    or something that is not an integer -/
inductive SizeArg
  | default
  | int (z : Int)
  | notInt
  deriving DecidableEq, Repr, Inhabited

/-- a shape as passed: `None`, an integer-valued scalar, a sequence of
    integer-valued entries, or something else (float, string, sequence with a
    non-integer entry) -/
inductive RawShape
  | none
  | int (z : Int)
  | seq (d : List Int)
  | notShape
  deriving DecidableEq, Repr, Inhabited

inductive RawOp
  | gen (a : SizeArg)
  | skip (a : SizeArg)
  | setShape (a : RawShape)
  | query
  deriving DecidableEq, Repr, Inhabited

/-- `operator.index(n)`, then `n < 0 → ValueError` -/
def checkSize : Int → Except PyErr Nat
  | .ofNat n => .ok n
  | .negSucc _ => .error .ValueError

def checkDims : List Int → Except PyErr (List Nat)
  | [] => .ok []
  | z :: zs => do
      let n ← checkSize z
      let ns ← checkDims zs
      pure (n :: ns)

/-- validation of one call; `.error` = the exception the call raises -/
def RawOp.check : RawOp → Except PyErr Op
  | .gen .default => .ok (.gen Option.none)
  | .gen (.int z) => (checkSize z).map fun n => .gen (some n)
  | .gen .notInt => .error .TypeError
  | .skip .default => .error .TypeError      -- the argument is required
  | .skip (.int z) => (checkSize z).map .skip
  | .skip .notInt => .error .TypeError
  | .setShape .none => .ok (.setShape .none)
  | .setShape (.int z) => (checkSize z).map fun n => .setShape (.int n)
  | .setShape (.seq d) => (checkDims d).map fun ns => .setShape (.tuple ns)
  | .setShape .notShape => .error .TypeError
  | .query => .ok .query

/-- a history with its non-mutating calls removed -/
def dropQueries : List Op → List Op
  | [] => []
  | .query :: ops => dropQueries ops
  | op :: ops => op :: dropQueries ops

/-- shape, first sample number and count of a block (everything but the phase draw) -/
def Block.geometry (b : Block) : List Nat × Nat × Nat := (b.dims, b.first, b.count)

/-- one call on the object: a rejected call raises and changes nothing -/
def stepR (s : State) (r : RawOp) : State × Option PyErr :=
  match r.check with
  | .ok op => (step s op, Option.none)
  | .error e => (s, some e)

def runR (s : State) : List RawOp → State
  | [] => s
  | r :: rs => runR (stepR s r).1 rs

/-- the accepted calls of a raw history -/
def accepted : List RawOp → List Op
  | [] => []
  | r :: rs => match r.check with
    | .ok op => op :: accepted rs
    | .error _ => accepted rs

/-! ### the caller's argument buffers (robustness class R16)

A caller may keep ONE preallocated 0-d integer array for request sizes and ONE
list / integer array for shapes, refill them in place (`buf[...] = n`,
`lst[:] = dims`) and pass the SAME object to every call — to
`generate_more_samples` and to `skip_samples_for_next_generation` alike (one
object in two roles) — and may overwrite the buffer right after a call.  The
code reads an argument with `operator.index` during the call and keeps no
reference to it, so the generator's `State` has no field a buffer could be
remembered in: a call sees the CONTENT of the buffer at call time. -/

/-- what the caller holds between calls: the content of its size buffer and of
    its shape buffer -/
structure Caller where
  size : SizeArg
  shape : RawShape
  deriving DecidableEq, Repr, Inhabited

/-- one statement of the caller's program -/
inductive CallerOp
  /-- `nbuf[...] = a` — refills the size buffer; not a call on the generator -/
  | fillSize (a : SizeArg)
  /-- `sbuf[:] = a` — refills the shape buffer; not a call on the generator -/
  | fillShape (a : RawShape)
  /-- `g.generate_more_samples(nbuf)` -/
  | genBuf
  /-- `g.skip_samples_for_next_generation(nbuf)` (the same object as for `genBuf`) -/
  | skipBuf
  /-- `g.shape = sbuf` -/
  | setShapeBuf
  /-- a call whose argument is a fresh object -/
  | call (r : RawOp)
  deriving DecidableEq, Repr, Inhabited

/-- the call (if any) a statement issues, given what the buffers hold now -/
def CallerOp.issued (c : Caller) : CallerOp → Option RawOp
  | .fillSize _ => Option.none
  | .fillShape _ => Option.none
  | .genBuf => some (.gen c.size)
  | .skipBuf => some (.skip c.size)
  | .setShapeBuf => some (.setShape c.shape)
  | .call r => some r

/-- the buffers after a statement -/
def CallerOp.refill (c : Caller) : CallerOp → Caller
  | .fillSize a => { c with size := a }
  | .fillShape a => { c with shape := a }
  | _ => c

/-- one statement: the buffers are refilled or the call is made on the object -/
def stepC (c : Caller) (s : State) (op : CallerOp) : Caller × State :=
  match op.issued c with
  | some r => (op.refill c, (stepR s r).1)
  | Option.none => (op.refill c, s)

def runC (c : Caller) (s : State) : List CallerOp → Caller × State
  | [] => (c, s)
  | op :: ops => runC (stepC c s op).1 (stepC c s op).2 ops

/-- the calls the generator receives: buffer contents AT CALL TIME -/
def callsSeen (c : Caller) : List CallerOp → List RawOp
  | [] => []
  | op :: ops => match op.issued c with
    | some r => r :: callsSeen (op.refill c) ops
    | Option.none => callsSeen (op.refill c) ops

/-! ### model of the stepping used before the repair (finding `C14:float-stepped-arange`) -/

section oldStepping
variable {α : Type} [Add α] [Sub α] [Mul α] [Div α] [NatCast α]

/-- `(stop - start) / step` of `np.arange(ct, n*Ts+ct, Ts*infl)`; numpy returns
    `ceil` of this many elements -/
def oldArangeRatio (infl Ts ct : α) (n : Nat) : α :=
  (((n : α) * Ts + ct) - ct) / (Ts * infl)

/-- element `j` of that `arange` (`start + j*step`) -/
def oldTime (infl Ts ct : α) (j : Nat) : α := ct + (j : α) * (Ts * infl)

/-- `self._current_time = t[-1] + self.Ts` when the `arange` has `len` elements -/
def oldNextTime (infl Ts ct : α) (len : Nat) : α := oldTime infl Ts ct (len - 1) + Ts

end oldStepping

/-- binary64 instances for the driver and for the kernel-evaluated witness -/
instance : NatCast Float := ⟨Float.ofNat⟩
/-- `np.pi` as binary64 (bit pattern 0x400921FB54442D18) -/
instance : Transc Float := ⟨Float.ofBits 4614256656552045848, Float.sqrt, Float.cos, Float.sin⟩

/-- number of elements numpy's `arange` returns for the old stepping, binary64:
    `ceil((stop-start)/step)`, computed as the number of `j` with `j < ratio`
    (equal to the ceiling for `0 ≤ ratio ≤ 2n+2`; written without `Float.ceil`
    so that the kernel can evaluate it) -/
def oldArangeLen (infl Ts ct : Float) (n : Nat) : Nat :=
  ((List.range (2 * n + 2)).filter fun j => Float.ofNat j < oldArangeRatio infl Ts ct n).length

/-- binary64 constants of the witness: `Ts = 1e-3`, the step inflation
    `1.0000000001`, and `ct = 0.001 + 2048002 * 0.001 = 2048.003` (the value of
    `_current_time` after `skip_samples_for_next_generation(2048002)` on a fresh
    generator) -/
def wTs : Float := Float.ofBits 4562254508917369340
def wInfl : Float := Float.ofBits 4607182418800467768
def wCt : Float := Float.ofBits 4656722021298162631

end PyPhysim.C14
