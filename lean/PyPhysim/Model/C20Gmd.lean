import PyPhysim.Model.Proto
import PyPhysim.Model.C20
/-!
# C20 — executable model of `util.misc.gmd` (core Lean only)

Mirrors the Givens-rotation sweep statement by statement.  `sigma_bar`
(`math.exp(np.mean(np.log(S[0:p])))`, the geometric mean) is a parameter: the harness passes the value the
code computes and the oracle checks independently that it is the geometric
mean.  Array accesses are checked: an index outside the array is the
`IndexError` numpy would raise.
-/
namespace PyPhysim.LinAlg
open PyPhysim.Proto

section rot
variable {α : Type} [Zero α] [One α] [Add α] [Sub α] [Mul α] [Div α] [Neg α] [RSqrt α]

/-- rotation parameters of one step: `(c, s)`;
    `c = sqrt((σ̄² − δ2²)/(δ1² − δ2²))`, `s = sqrt(1 − c²)` unless `flag` -/
def gmdCS (flag : Bool) (sb d1 d2 : α) : α × α :=
  if flag then (1, 0)
  else
    let c := RSqrt.sqrt ((sb * sb - d2 * d2) / (d1 * d1 - d2 * d2))
    (c, RSqrt.sqrt (1 - c * c))

/-- `d[k1] = δ1 δ2 / σ̄` (`y` of the paper) -/
def gmdY (sb d1 d2 : α) : α := d1 * d2 / sb
/-- `z[k] = s c (δ2² − δ1²) / σ̄` (`x` of the paper) -/
def gmdX (sb d1 d2 c s : α) : α := s * c * (d2 * d2 - d1 * d1) / sb

/-- `G1 = [[c, -s], [s, c]]` as `(g00, g01, g10, g11)` -/
def gmdG1 (c s : α) : α × α × α × α := (c, -s, s, c)
/-- `G2 = (1/σ̄) [[c δ1, -s δ2], [s δ2, c δ1]]` -/
def gmdG2 (sb d1 d2 c s : α) : α × α × α × α :=
  ((1 / sb) * (c * d1), (1 / sb) * (-(s * d2)), (1 / sb) * (s * d2), (1 / sb) * (c * d1))

end rot

section sweep
variable {α : Type} [Zero α] [One α] [Add α] [Sub α] [Mul α] [Div α] [Neg α] [RSqrt α]
  [LE α] [DecidableLE α]

structure GmdState (α : Type) where
  d : Array α
  z : Array α
  R : Array (Array α)          -- rows
  P : Array (Array α)          -- columns
  Q : Array (Array α)          -- columns
  perm : Array Nat
  invperm : Array Nat
  large : Nat
  small : Nat
  /-- diagnostic only: smallest `min(c², 1 − c²)·|δ1² − δ2²|/σ̄²` over the rotations performed so far
      (conditioning of the quotient and of the two square roots); not part of the Python state -/
  margin : α

def idx {β : Type} (a : Array β) (i : Nat) : Except PyErr β :=
  match a[i]? with
  | some x => .ok x
  | none => .error .IndexError

def upd {β : Type} (a : Array β) (i : Nat) (x : β) : Except PyErr (Array β) :=
  if i < a.size then .ok (a.set! i x) else .error .IndexError

/-- `M[:, [a, b]] = M[:, [a, b]].dot(G)` on a column-stored matrix -/
def rotCols (M : Array (Array α)) (a b : Nat) (g : α × α × α × α) : Except PyErr (Array (Array α)) := do
  let ca ← idx M a
  let cb ← idx M b
  let (g00, g01, g10, g11) := g
  let na := (ca.zip cb).map (fun (x, y) => x * g00 + y * g10)
  let nb := (ca.zip cb).map (fun (x, y) => x * g01 + y * g11)
  let M ← upd M a na
  upd M b nb

def swapCols {β : Type} (M : Array β) (a b : Nat) : Except PyErr (Array β) := do
  let ca ← idx M a
  let cb ← idx M b
  let M ← upd M a cb
  upd M b ca

/-- one iteration `k` of the sweep -/
def gmdStep (sb : α) (k : Nat) (st : GmdState α) : Except PyErr (GmdState α) := do
  let dk ← idx st.d k
  -- choose the partner index `i` and whether to skip the rotation
  let (i, large, small, flag) ←
    (if sb ≤ dk then do
        let i ← idx st.perm st.small
        let di ← idx st.d i
        pure (i, st.large, st.small - 1, decide (sb ≤ di))   -- `small ≥ large ≥ 1` whenever it is decremented
      else do
        let i ← idx st.perm st.large
        let di ← idx st.d i
        pure (i, st.large + 1, st.small, decide (di ≤ sb)) : Except PyErr (Nat × Nat × Nat × Bool))
  let k1 := k + 1
  let (d, perm, invperm, Q, P) ←
    (if i ≠ k1 then do
        let t ← idx st.d k1
        let di ← idx st.d i
        let d ← upd st.d k1 di
        let d ← upd d i t
        let j ← idx st.invperm k1
        let perm ← upd st.perm j i
        let invperm ← upd st.invperm i j
        let Q ← swapCols st.Q k1 i
        let P ← swapCols st.P k1 i
        pure (d, perm, invperm, Q, P)
      else pure (st.d, st.perm, st.invperm, st.Q, st.P) :
      Except PyErr (Array α × Array Nat × Array Nat × Array (Array α) × Array (Array α)))
  let d1 ← idx d k
  let d2 ← idx d k1
  let (c, s) := gmdCS flag sb d1 d2
  let d ← upd d k1 (gmdY sb d1 d2)
  let z ← upd st.z k (gmdX sb d1 d2 c s)
  -- R[k, k] = sigma_bar ; R[0:k, k] = z[0:k] * c ; z[0:k] = -z[0:k] * s
  let rowk ← idx st.R k
  let rowk ← upd rowk k sb
  let R ← upd st.R k rowk
  let (R, z) ← (List.range k).foldlM (fun (Rz : Array (Array α) × Array α) t => do
      let (R, z) := Rz
      let zt ← idx z t
      let row ← idx R t
      let row ← upd row k (zt * c)
      let R ← upd R t row
      let z ← upd z t (-zt * s)
      pure (R, z)) (R, z)
  let P ← rotCols P k k1 (gmdG1 c s)
  let Q ← rotCols Q k k1 (gmdG2 sb d1 d2 c s)
  let cc := c * c
  let mg := if flag then st.margin else
    (let a := if cc ≤ 1 - cc then cc else 1 - cc
     let df := d1 * d1 - d2 * d2
     let adf := if 0 ≤ df then df else -df
     let a := a * (adf / (sb * sb))
     if a ≤ st.margin then a else st.margin)
  pure { d := d, z := z, R := R, P := P, Q := Q, perm := perm, invperm := invperm,
         large := large, small := small, margin := mg }

/-- `gmd(U, S, V_H, tol)` with `p` = number of singular values `≥ tol` and
    `sb = sigma_bar`; `U` (`m×m`) and `V = V_Hᴴ` (`n×n`) are given by columns.
    Returns `(Q columns, R rows, P columns, margin)`. -/
def gmd (m n p : Nat) (sb : α) (Ucols : Array (Array α)) (S : Array α) (Vcols : Array (Array α)) :
    Except PyErr (Array (Array α) × Array (Array α) × Array (Array α) × α) := do
  if p < 1 then throw PyErr.RuntimeError
  let R0 : Array (Array α) := Array.replicate m (Array.replicate n 0)
  let R0 ← (if p < 2 then do
      let d0 ← idx S 0
      let row ← idx R0 0
      let row ← upd row 0 d0
      upd R0 0 row
    else pure R0 : Except PyErr (Array (Array α)))
  let st0 : GmdState α :=
    { d := S, z := Array.replicate (p - 1) 0, R := R0, P := Vcols, Q := Ucols,
      perm := Array.range p, invperm := Array.range p, large := 1, small := p - 1, margin := 1 }
  let st ← (List.range (p - 1)).foldlM (fun st k => gmdStep sb k st) st0
  -- R[p-1, p-1] = sigma_bar ; R[0:p-1, p-1] = z
  let row ← idx st.R (p - 1)
  let row ← upd row (p - 1) sb
  let R ← upd st.R (p - 1) row
  let R ← (List.range (p - 1)).foldlM (fun (R : Array (Array α)) t => do
      let zt ← idx st.z t
      let row ← idx R t
      let row ← upd row (p - 1) zt
      upd R t row) R
  pure (st.Q, R, st.P, st.margin)

end sweep
end PyPhysim.LinAlg
