/-
C19 — cell objects as state machines (`Cell`, `Cell3Sec` with its three sector cells,
`CellSquare`, `CellWrap`): the attributes the objects store, the setters `pos`, `radius`,
`rotation`, and the queries as functions of the stored state.  Core Lean only.

The stored state contains *derived* attributes (the sector cells of a `Cell3Sec`, the absolute
corners of a `CellSquare`); "no stale derived state" means that after any history of setter calls
the state equals the state of a freshly constructed cell with the current
`(pos, radius, rotation)`.
-/
import PyPhysim.Model.C19
import PyPhysim.Model.C19Cluster
namespace PyPhysim.C19
open PyPhysim.Proto

inductive CellKind | hex | sec3 | square
  deriving DecidableEq, Repr

/-- one sector cell of a `Cell3Sec`: a `Cell` with its own position, radius and rotation (degrees) -/
structure Sector (α : Type) where
  pos : Pt α
  radius : α
  rot : α

/-- what a cell object stores -/
structure CellState (α : Type) where
  kind : CellKind
  pos : Pt α
  radius : α
  rot : α                    -- `_rotation`, in degrees
  lower : Pt α               -- `_lower_coord` (CellSquare; absolute)
  upper : Pt α               -- `_upper_coord`
  secs : List (Sector α)     -- `_sec1, _sec2, _sec3` (Cell3Sec)

inductive CellOp (α : Type)
  | setPos (p : Pt α)
  | setRadius (r : α)
  | setRot (θ : α)
  /-- `move_by_relative_coordinate(d)`: `self.pos += d` (goes through the `pos` setter) -/
  | moveBy (d : Pt α)
  /-- `move_by_relative_polar_coordinate(r, a)`: `self.pos += cmath.rect(r, a)` (angle in radians) -/
  | movePolar (r a : α)

section
variable {α : Type} [Add α] [Sub α] [Mul α] [Div α] [Neg α] [NatCast α] [LT α] [DecidableLT α] [Circ α]

def zeroPt : Pt α := (((0 : Nat) : α), ((0 : Nat) : α))

/-- `Cell3Sec._calc_sectors_positions` + the sector attributes the setters install:
    positions `pos + rot(sector centres)`, radius `secradius`, rotation `rotation - 30` -/
def mkSectors (pos : Pt α) (R θ : α) : List (Sector α) :=
  (secCentres R).map (fun c =>
    { pos := padd (rot (Circ.cisDeg θ) c) pos, radius := secRadius R, rot := θ - ((30 : Nat) : α) })

/-- side length of the `CellSquare` whose radius (half diagonal) is `R`: `radius = sqrt(2)·side/2` -/
def sideOfRadius (R : α) : α := ((2 : Nat) : α) * R / Circ.sqrt ((2 : Nat) : α)

/-- a freshly constructed cell with the given position, radius and rotation
    (`Cell(pos, R, rotation)`, `Cell3Sec(pos, R, rotation)`, `CellSquare(pos, side, rotation)` with
    the side whose half diagonal is `R`) -/
def fresh (k : CellKind) (pos : Pt α) (R θ : α) : CellState α :=
  match k with
  | .hex => { kind := .hex, pos := pos, radius := R, rot := θ, lower := zeroPt, upper := zeroPt, secs := [] }
  | .sec3 => { kind := .sec3, pos := pos, radius := R, rot := θ, lower := zeroPt, upper := zeroPt,
               secs := mkSectors pos R θ }
  | .square =>
    let r := squareCell (sideOfRadius R) pos
    { kind := .square, pos := pos, radius := R, rot := θ, lower := r.lower, upper := r.upper, secs := [] }

/-- `CellSquare(pos, side, rotation)` as the constructor computes it: `radius = sqrt(2)·side/2` -/
def freshSquare (pos : Pt α) (side θ : α) : CellState α :=
  let r := squareCell side pos
  { kind := .square, pos := pos, radius := Circ.sqrt ((2 : Nat) : α) * side / ((2 : Nat) : α), rot := θ,
    lower := r.lower, upper := r.upper, secs := [] }

/-- the setters.
    * `Cell`: plain attribute stores.
    * `Cell3Sec`: store, then re-derive the three sector cells from the *new* attributes.
    * `CellSquare` (repaired `Rectangle.pos` / `Rectangle.radius` setters): the absolute corners move
      with the centre, and are scaled about the centre by `new radius / old radius`. -/
def stepPos (st : CellState α) (p : Pt α) : CellState α :=
  match st.kind with
  | .hex => { st with pos := p }
  | .sec3 => { st with pos := p, secs := mkSectors p st.radius st.rot }
  | .square =>
    let d := psub p st.pos
    { st with pos := p, lower := padd st.lower d, upper := padd st.upper d }

def step (st : CellState α) : CellOp α → CellState α
  | .setPos p => stepPos st p
  | .moveBy d => stepPos st (padd st.pos d)
  | .movePolar r a => stepPos st (padd st.pos (smul r (Circ.cisRad a)))
  | .setRadius r =>
    match st.kind with
    | .hex => { st with radius := r }
    | .sec3 => { st with radius := r, secs := mkSectors st.pos r st.rot }
    | .square =>
      let s := r / st.radius
      { st with radius := r, lower := padd st.pos (smul s (psub st.lower st.pos)),
                upper := padd st.pos (smul s (psub st.upper st.pos)) }
  | .setRot θ =>
    match st.kind with
    | .hex => { st with rot := θ }
    | .sec3 => { st with rot := θ, secs := mkSectors st.pos st.radius θ }
    | .square => { st with rot := θ }

def run (st : CellState α) : List (CellOp α) → CellState α
  | [] => st
  | op :: ops => run (step st op) ops

/-- the `(pos, radius, rotation)` a history of setter calls leaves -/
def params (p : Pt α) (R θ : α) : List (CellOp α) → Pt α × α × α
  | [] => (p, R, θ)
  | .setPos p' :: ops => params p' R θ ops
  | .setRadius r :: ops => params p r θ ops
  | .setRot t :: ops => params p R t ops
  | .moveBy d :: ops => params (padd p d) R θ ops
  | .movePolar r a :: ops => params (padd p (smul r (Circ.cisRad a))) R θ ops

/-- the `CellSquare` setters before the repair: `pos` and `radius` only store the attribute and the
    corners stay where they were (kept for the negative witness) -/
def stepStale (st : CellState α) : CellOp α → CellState α
  | .setPos p => { st with pos := p }
  | .setRadius r => { st with radius := r }
  | .setRot θ => { st with rot := θ }
  | .moveBy d => { st with pos := padd st.pos d }
  | .movePolar _ _ => st

/-! ### queries, as functions of the stored state -/

/-- `_get_vertex_positions()` (no translation, no rotation) -/
def stBase (st : CellState α) : List (Pt α) :=
  match st.kind with
  | .hex => hexVerts st.radius
  | .sec3 => sec3Verts st.radius
  | .square => rectVerts { pos := st.pos, lower := st.lower, upper := st.upper }

/-- `vertices` -/
def stVerts (st : CellState α) : List (Pt α) := place st.pos (Circ.cisDeg st.rot) (stBase st)

/-- `is_point_inside_shape`; `inside` is the polygon oracle of the hexagon-based cells -/
def stInside (inside : List (Pt α) → Pt α → Bool) (st : CellState α) (p : Pt α) : Bool :=
  match st.kind with
  | .square => rectInside { pos := st.pos, lower := st.lower, upper := st.upper } (Circ.cisDeg st.rot) p
  | _ => inside (stVerts st) p

/-- sector `k` seen as a cell of its own (a `Cell` = hexagon) -/
def sectorState (s : Sector α) : CellState α :=
  { kind := .hex, pos := s.pos, radius := s.radius, rot := s.rot, lower := zeroPt, upper := zeroPt, secs := [] }

/-- a `CellWrap`: its own position and (a reference to) the wrapped cell; radius and rotation are
    read from the wrapped cell at query time -/
structure WrapState (α : Type) where
  pos : Pt α
  inner : CellState α

/-- `CellWrap.vertices`: the wrapped cell's unplaced vertices, its rotation, the wrap's position -/
def wrapVerts (w : WrapState α) : List (Pt α) := place w.pos (Circ.cisDeg w.inner.rot) (stBase w.inner)
end

section border
variable {α : Type} [Add α] [Sub α] [Mul α] [Div α] [Neg α] [NatCast α] [LT α] [DecidableLT α]
  [LE α] [DecidableLE α] [Circ α]

/-- `get_border_point(angle, ratio)` -/
def stBorder (st : CellState α) (ang ratio : α) : Except PyErr (Pt α) :=
  borderPoint st.pos (stVerts st) (Circ.cisDeg ang) ratio

/-- `add_random_user(min_dist_ratio)` on a stream of draws -/
def stRandomUser (inside : List (Pt α) → Pt α → Bool) (st : CellState α) (ratio : α) (us : List (α × α)) :
    Option (Pt α × Nat) :=
  addRandomUser (stInside inside st) st.pos st.radius ratio us

/-! ### the cell object with its users; calls that may be rejected -/

/-- a cell object: the stored geometric state and the positions of its users -/
structure CellObj (α : Type) where
  st : CellState α
  users : List (Pt α)

inductive Call (α : Type)
  /-- a setter / `move_by_*` call -/
  | set (op : CellOp α)
  /-- `add_user(Node(p), relative_pos_bool=False)` -/
  | addUser (p : Pt α)
  /-- `add_border_user(angle, ratio)` -/
  | borderUser (ang ratio : α)
  | deleteUsers

/-- does the call go through the `pos` setter (which also moves the users: `user.pos += diff`)? -/
def CellOp.isMove : CellOp α → Bool
  | .setPos _ | .moveBy _ | .movePolar _ _ => true
  | _ => false

/-- one call on the object; a rejected call returns the Python exception and no new object -/
def callStep (inside : List (Pt α) → Pt α → Bool) (eps : α) (o : CellObj α) : Call α → Except PyErr (CellObj α)
  | .set op =>
    let st' := step o.st op
    .ok { st := st', users := if op.isMove then o.users.map (fun u => padd u (psub st'.pos o.st.pos)) else o.users }
  | .addUser p =>
    if stInside inside o.st p then .ok { o with users := o.users ++ [p] } else .error .ValueError
  | .borderUser ang ratio =>
    match borderUser o.st.pos (stVerts o.st) (Circ.cisDeg ang) ratio eps with
    | .ok p => .ok { o with users := o.users ++ [p] }
    | .error e => .error e
  | .deleteUsers => .ok { o with users := [] }

/-- a history of calls: a rejected call raises in the caller and the object stays as it was -/
def callRun (inside : List (Pt α) → Pt α → Bool) (eps : α) (o : CellObj α) : List (Call α) → CellObj α
  | [] => o
  | c :: cs =>
    match callStep inside eps o c with
    | .ok o' => callRun inside eps o' cs
    | .error _ => callRun inside eps o cs

/-- `Cell3Sec.add_random_user_in_sector(k+1, min_dist_ratio)`: the sector cell places the user -/
def stRandomUserInSector (inside : List (Pt α) → Pt α → Bool) (st : CellState α) (k : Nat) (ratio : α)
    (us : List (α × α)) : Except PyErr (Option (Pt α × Nat)) :=
  match st.secs[k]? with
  | none => .error .RuntimeError
  | some s => .ok (stRandomUser inside (sectorState s) ratio us)
end border

end PyPhysim.C19
