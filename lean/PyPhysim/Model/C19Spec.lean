/-
C19 — specification vocabulary used in the statements of the property theorems
(core Lean only): convex hulls, polygon boundaries, separating lines.
-/
import PyPhysim.Model.C19
import PyPhysim.Model.C19Cluster
namespace PyPhysim.C19

section spec
variable {α : Type} [Add α] [Sub α] [Mul α] [NatCast α] [LE α] [LT α]

/-- weighted sum `Σ wₖ·vₖ` -/
def combo : List α → List (Pt α) → Pt α
  | w :: ws, v :: vs => padd (smul w v) (combo ws vs)
  | _, _ => (((0 : Nat) : α), ((0 : Nat) : α))

def sumL : List α → α
  | [] => ((0 : Nat) : α)
  | x :: xs => x + sumL xs

/-- `p` is a convex combination of the points `vs` (a point of the polygon they span, for a convex polygon) -/
def InHull (vs : List (Pt α)) (p : Pt α) : Prop :=
  ∃ ws : List α, ws.length = vs.length ∧ (∀ w ∈ ws, ((0 : Nat) : α) ≤ w) ∧ sumL ws = ((1 : Nat) : α) ∧ combo ws vs = p

/-- `p` lies on the closed segment from `a` to `b` -/
def OnSegment (a b p : Pt α) : Prop :=
  ∃ s : α, ((0 : Nat) : α) ≤ s ∧ s ≤ ((1 : Nat) : α) ∧ p = padd a (smul s (psub b a))

/-- `p` lies on the boundary of the polygon with the cyclic vertex list `vs` -/
def OnBoundary (vs : List (Pt α)) (p : Pt α) : Prop := ∃ e ∈ cyc vs, OnSegment e.1 e.2 p

/-- seen from the origin every edge of the polygon runs counter-clockwise (the origin is strictly
    inside a polygon that is star-shaped around it) -/
def StarCCW (rel : List (Pt α)) : Prop := ∀ e ∈ cyc rel, ((0 : Nat) : α) < cross e.1 e.2

/-- a line separates the point sets: normal `n ≠ 0`, level `m`; `A` is in the closed half-plane
    `n·x ≤ m` and `B` in `m ≤ n·x` (so do their convex hulls, whose interiors are then disjoint) -/
def Separated (A B : List (Pt α)) : Prop :=
  ∃ (n : Pt α) (m : α), ((0 : Nat) : α) < norm2 n ∧ (∀ a ∈ A, dot n a ≤ m) ∧ (∀ b ∈ B, m ≤ dot n b)
end spec

end PyPhysim.C19
