import PyPhysim.Model.Proto
/-!
# C10 — matrix vocabulary of the interference-alignment model (core Lean only)

`Fin`-indexed function matrices with an own left-to-right `sumFin`; every
definition is polymorphic in the scalar through core notation classes, so the
same text is instantiated at `ℂ` (Mathlib) in `Proofs/C10*.lean` and at a
binary64 complex type in the compiled driver `Drivers/C10.lean`.
-/
namespace PyPhysim.C10
open PyPhysim.Proto

/-- complex conjugation (`.conj()` / `.conjugate()`) -/
class Conj (α : Type) where
  conj : α → α

/-- real square root of a (real, non-negative) scalar: `np.sqrt(P)`, the root
    inside `np.linalg.norm(.., 'fro')` -/
class RSqrt (α : Type) where
  sqrt : α → α

/-- `np.abs` of a scalar (as a scalar of the same type) -/
class AbsR (α : Type) where
  abs : α → α

abbrev Mat (α : Type) (m n : Nat) := Fin m → Fin n → α

section matrix
variable {α : Type}

/-- left-to-right sum of `f 0 … f (n-1)` -/
def sumFin [Zero α] [Add α] : (n : Nat) → (Fin n → α) → α
  | 0, _ => 0
  | n+1, f => sumFin n (fun i => f i.castSucc) + f (Fin.last n)

variable [Zero α] [One α] [Add α] [Sub α] [Mul α]

/-- `np.dot(A, B)` -/
def matMul {m k n : Nat} (A : Mat α m k) (B : Mat α k n) : Mat α m n :=
  fun i j => sumFin k (fun l => A i l * B l j)

/-- `A.conj().T` -/
def cT [Conj α] {m n : Nat} (A : Mat α m n) : Mat α n m :=
  fun i j => Conj.conj (A j i)

/-- `np.eye(n)` -/
def eye {n : Nat} : Mat α n n := fun i j => if i = j then 1 else 0

def mzero {m n : Nat} : Mat α m n := fun _ _ => 0
def madd {m n : Nat} (A B : Mat α m n) : Mat α m n := fun i j => A i j + B i j
def msub {m n : Nat} (A B : Mat α m n) : Mat α m n := fun i j => A i j - B i j
/-- `c * A` -/
def smul {m n : Nat} (c : α) (A : Mat α m n) : Mat α m n := fun i j => c * A i j
/-- `A * c` (numpy array times scalar) -/
def mscale {m n : Nat} (A : Mat α m n) (c : α) : Mat α m n := fun i j => A i j * c
/-- `A / c` -/
def mdiv [Div α] {m n : Nat} (A : Mat α m n) (c : α) : Mat α m n := fun i j => A i j / c

/-- `np.trace(A)` -/
def trace {n : Nat} (A : Mat α n n) : α := sumFin n (fun i => A i i)

/-- squared Frobenius norm `Σ_ij A_ij · conj A_ij` -/
def frobSq [Conj α] {m n : Nat} (A : Mat α m n) : α :=
  sumFin m (fun i => sumFin n (fun j => A i j * Conj.conj (A i j)))

/-- `np.linalg.norm(A, 'fro')` -/
def frobNorm [Conj α] [RSqrt α] {m n : Nat} (A : Mat α m n) : α := RSqrt.sqrt (frobSq A)

/-- `A / np.linalg.norm(A, 'fro')` -/
def normalize [Conj α] [RSqrt α] [Div α] {m n : Nat} (A : Mat α m n) : Mat α m n :=
  mdiv A (frobNorm A)

/-- `np.dot(A, A.conj().T)` -/
def outerG [Conj α] {m n : Nat} (A : Mat α m n) : Mat α m m := matMul A (cT A)

/-- sum of a family of equally shaped matrices, left to right -/
def msum {m n : Nat} : (K : Nat) → (Fin K → Mat α m n) → Mat α m n
  | 0, _ => mzero
  | K+1, f => madd (msum K (fun i => f i.castSucc)) (f (Fin.last K))

end matrix

end PyPhysim.C10
