/-
C16 — the error-rate API seen by a caller who keeps ONE argument array and
refills it in place between calls (robustness class R16).  Core Lean only.

`fundamental.py` keeps no state between `calcTheoretical*` calls: every call
reads the argument and returns a fresh value.  The model says exactly that — the
state of the little machine below is the caller's buffer and the list of results
handed out so far; a call appends a pure function of the buffer's *current*
contents and touches nothing else.  (A memo keyed by the identity of the
argument, or a retained output buffer, would need an extra state component and
would falsify the theorems of `Properties/C16Robust.lean`; the code is tied to
this model by the R16 correspondence stream of `harness/props/c16.py`.)
-/
import PyPhysim.Model.C16
namespace PyPhysim.C16

/-- the array entry points of a modulator -/
inductive Call where
  | ser | ber | se0
  | per (L : Nat)
  | se (L : Nat)

/-- a modulator as far as the error-rate API is concerned: its two curves and `K = log2 M` -/
structure Curves (α : Type) where
  ser : α → α
  ber : α → α
  K : α

section
variable {α : Type} [Sub α] [Mul α] [NatCast α]

/-- value of one call on an argument with the given contents (element-wise, as numpy does) -/
def evalCall (m : Curves α) : Call → List α → List α
  | .ser, xs => xs.map m.ser
  | .ber, xs => xs.map m.ber
  | .se0, xs => xs.map (fun s => spectralEff m.K (m.ber s))
  | .per L, xs => xs.map (fun s => per (m.ber s) L)
  | .se L, xs => xs.map (fun s => spectralEff m.K (per (m.ber s) L))

/-- what the caller does: overwrite the buffer in place, or call a method on it -/
inductive Op (α : Type) where
  | refill (vals : List α)
  | call (c : Call)

/-- caller's buffer (current contents) × results handed out so far -/
abbrev St (α : Type) := List α × List (List α)

def step (m : Curves α) : St α → Op α → St α
  | (_, outs), .refill v => (v, outs)
  | (buf, outs), .call c => (buf, outs ++ [evalCall m c buf])

def run (m : Curves α) (st : St α) (ops : List (Op α)) : St α := ops.foldl (step m) st
end

end PyPhysim.C16
