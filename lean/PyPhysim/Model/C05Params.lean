import PyPhysim.Model.C05

/-!
C05 — the `SimulationParameters` object as a state machine (core Lean only).

State = what the Python object stores: the `parameters` dictionary (insertion
order kept, as a Python dict) and `_unpacked_parameters_set`.  The code keeps NO
derived state: every look-up (`get_num_unpacked_variations`,
`get_unpacked_params_list`, `get_pack_indexes`, and through it
`SimulationResults.get_result_values_list`) recomputes from these two fields.
The model mirrors that: the queries below are functions of the current state
only, and `Properties/C05.lean` proves that they depend on the state only through
its *content* (dictionary as a finite map, set as a set), i.e. not on the history
of `add` / `remove` / `set_unpack_parameter` calls that produced it.
-/
namespace PyPhysim.C05

/-- a parameter value: a scalar (not iterable) or a list of values -/
inductive PVal
  | scalar (v : Int)
  | list (vs : List Int)
  deriving DecidableEq, Repr

structure PState where
  /-- `self.parameters` -/
  params : List (String × PVal)
  /-- `self._unpacked_parameters_set` (kept duplicate-free by the operations) -/
  unpacked : List String
  deriving Repr

def PState.empty : PState := ⟨[], []⟩

inductive POp
  /-- `params.add(name, value)` / `params[name] = value`: new key or replacement -/
  | add (name : String) (v : PVal)
  /-- `params.remove(name)` -/
  | remove (name : String)
  /-- `params.set_unpack_parameter(name, b)` -/
  | setUnpack (name : String) (b : Bool)
  deriving Repr

/-- `d[name] = v` on a Python dict: replace in place, or append a new key -/
def dictSet (name : String) (v : PVal) : List (String × PVal) → List (String × PVal)
  | [] => [(name, v)]
  | (k, w) :: rest => if k == name then (k, v) :: rest else (k, w) :: dictSet name v rest

/-- `del d[name]` (first and only entry of that key) -/
def dictDel (name : String) : List (String × PVal) → List (String × PVal)
  | [] => []
  | (k, w) :: rest => if k == name then rest else (k, w) :: dictDel name rest

/-- one method call: the new state and the exception raised, if any (the state is
    unchanged when the call raises) -/
def PState.step (s : PState) : POp → PState × Option Err
  | .add name v => ({ s with params := dictSet name v s.params }, none)
  | .remove name =>
    match s.params.lookup name with
    | none => (s, some .KeyError)
    | some _ => (⟨dictDel name s.params, s.unpacked.erase name⟩, none)
  | .setUnpack name b =>
    match s.params.lookup name with
    | none => (s, some .ValueError)                      -- unknown parameter
    | some (.scalar _) => (s, some .ValueError)          -- not iterable
    | some (.list _) =>
      if b then
        (if name ∈ s.unpacked then s else { s with unpacked := name :: s.unpacked }, none)
      else if name ∈ s.unpacked then ({ s with unpacked := s.unpacked.erase name }, none)
      else (s, some .KeyError)                           -- `set.remove` of a missing element

/-- a history of calls (exceptions are caught by the caller and leave the state as it was) -/
def PState.run (s : PState) : List POp → PState
  | [] => s
  | op :: ops => (s.step op).1.run ops

/-- the value list of a parameter, if it has one -/
def PState.valsOf (s : PState) (name : String) : Option (List Int) :=
  match s.params.lookup name with
  | some (.list vs) => some vs
  | _ => none

/-- the unpacked parameters with their CURRENT value lists (in set order, which no
    look-up depends on: they all sort by name).  `TypeError` when an unpacked name
    no longer holds a list (`len()` / `iter()` of a scalar). -/
def PState.view (s : PState) : Except Err (List (Param Int)) :=
  if s.unpacked.all (fun n => (s.valsOf n).isSome) then
    .ok (s.unpacked.filterMap (fun n => (s.valsOf n).map (fun vs => (n, vs))))
  else .error .TypeError

/-- everything a caller can look up, for one dictionary of fixed values and one list
    of stored results -/
structure Lookup (X : Type) where
  /-- `get_num_unpacked_variations()` -/
  num : Nat
  /-- values carried by the variations of `get_unpacked_params_list()`, in order -/
  combos : List (List Int)
  /-- `get_pack_indexes(fixed)` -/
  pack : Except Err (List Nat)
  /-- `results.get_result_values_list(name, fixed)` -/
  values : Except Err (List X)

def PState.lookup {X : Type} (s : PState) (results : List X) (fixed : List (String × Int)) :
    Except Err (Lookup X) :=
  s.view.map (fun ps =>
    ⟨prod (dimsOf ps), combos ps, packIndexes ps fixed, resultValues ps results fixed⟩)

/-- two objects store the same thing: same dictionary as a finite map, same set -/
def SameContent (s s' : PState) : Prop :=
  (∀ n, s.params.lookup n = s'.params.lookup n) ∧ (∀ n, n ∈ s.unpacked ↔ n ∈ s'.unpacked)

end PyPhysim.C05
