/-
C19 — the user-placement entry points and their arguments: `CellBase.add_random_users(num_users,
color, min_dist_ratio)`, `Cluster.add_random_users(cell_ids, num_users, user_color,
min_dist_ratio)` with a single id / a list of ids / all cells and scalar or per-cell arguments,
`Cluster.add_border_users`.  Core Lean only.

A placed user is `(cell index, position, colour)`; `np.random` is an explicit stream of draw pairs
that every placement consumes from the front.
-/
import PyPhysim.Model.C19
namespace PyPhysim.C19
open PyPhysim.Proto

/-- an argument that may be given once for all cells or per cell (`x` or `[x₁, x₂, …]`) -/
inductive Arg (β : Type)
  | one (x : β)
  | many (xs : List β)

/-- what `zip` sees of an argument: `itertools.repeat(x)` (here: as long as the ids) or the list -/
def Arg.expand {β : Type} : Arg β → Nat → List β
  | .one x, n => List.replicate n x
  | .many xs, _ => xs

/-- the geometry of one cell of the cluster: centre, radius, containment test -/
structure CellGeom (α : Type) where
  pos : Pt α
  radius : α
  inside : Pt α → Bool

/-- one placed user -/
structure Placed (α : Type) where
  cell : Nat            -- index of the cell (id - 1)
  pos : Pt α
  color : Option String -- `None` keeps the default marker colour

section
variable {α : Type} [Add α] [Sub α] [Mul α] [Div α] [NatCast α] [LT α] [DecidableLT α] [Circ α]

/-- `CellBase.add_random_users(num_users, user_color, min_dist_ratio)`: `num_users` times
    `add_random_user(user_color, min_dist_ratio)`, each consuming draws from the front of the stream.
    Returns the placed positions and the rest of the stream; `none` when the stream ends first. -/
def addRandomUsers (c : CellGeom α) (ratio : α) : Nat → List (α × α) → Option (List (Pt α) × List (α × α))
  | 0, us => some ([], us)
  | n + 1, us =>
    match addRandomUser c.inside c.pos c.radius ratio us with
    | none => none
    | some (p, m) =>
      match addRandomUsers c ratio n (us.drop m) with
      | none => none
      | some (ps, rest) => some (p :: ps, rest)

/-- one request of the cluster-level call: cell id (from 1), number of users, colour, ratio -/
structure Req (α : Type) where
  id : Nat
  num : Nat
  color : Option String
  ratio : α

/-- the single-cell branch of `Cluster.add_random_users`: look the cell up (`IndexError` for an id
    that does not exist; id 0 is Python's index -1, not modelled → `IndexError` as well) and place
    `num` users with the request's OWN colour and ratio -/
def clusterPlaceOne (cells : List (CellGeom α)) (r : Req α) (us : List (α × α)) :
    Except PyErr (Option (List (Placed α) × List (α × α))) :=
  if r.id = 0 then .error .IndexError else
  match cells[r.id - 1]? with
  | none => .error .IndexError
  | some c =>
    .ok ((addRandomUsers c r.ratio r.num us).map (fun pr =>
      (pr.1.map (fun p => { cell := r.id - 1, pos := p, color := r.color }), pr.2)))

/-- the requests one after the other, threading the stream -/
def clusterPlace (cells : List (CellGeom α)) : List (Req α) → List (α × α) →
    Except PyErr (Option (List (Placed α) × List (α × α)))
  | [], us => .ok (some ([], us))
  | r :: rs, us =>
    match clusterPlaceOne cells r us with
    | .error e => .error e
    | .ok none => .ok none
    | .ok (some (ps, rest)) =>
      match clusterPlace cells rs rest with
      | .error e => .error e
      | .ok none => .ok none
      | .ok (some (qs, rest')) => .ok (some (ps ++ qs, rest'))

/-- the requests `Cluster.add_random_users(cell_ids, num_users, user_color, min_dist_ratio)` makes when
    `cell_ids` is iterable: `zip(cell_ids, num_users | repeat, user_color | repeat, min_dist_ratio | repeat)`
    (the shortest per-cell list ends the zip) -/
def mkReqs (ids : List Nat) (nums : Arg Nat) (colors : Arg (Option String)) (ratios : Arg α) : List (Req α) :=
  let n := ids.length
  (((ids.zip (nums.expand n)).zip (colors.expand n)).zip (ratios.expand n)).map
    (fun x => { id := x.1.1.1, num := x.1.1.2, color := x.1.2, ratio := x.2 })

/-- `Cluster.add_random_users`: `ids = none` means all cells (`range(1, num_cells + 1)`) -/
def clusterAddRandomUsers (cells : List (CellGeom α)) (ids : Option (List Nat)) (nums : Arg Nat)
    (colors : Arg (Option String)) (ratios : Arg α) (us : List (α × α)) :
    Except PyErr (Option (List (Placed α) × List (α × α))) :=
  let ids' := match ids with
    | none => (List.range cells.length).map (· + 1)
    | some l => l
  clusterPlace cells (mkReqs ids' nums colors ratios) us
end


section forms
variable {α : Type} [Add α] [Sub α] [Mul α] [Div α] [NatCast α] [LT α] [DecidableLT α] [LE α] [DecidableLE α]

/-- `CellBase.add_user(Node(rel), relative_pos_bool=True)`: the relative position is scaled by `scale`
    (the radius; half a side for `CellSquare`) and moved to the cell, then added like an absolute one -/
def addUserRel (inside : Pt α → Bool) (pos : Pt α) (scale : α) (rel : Pt α) : Except PyErr (Pt α) :=
  addUser inside (padd (smul scale rel) pos)

/-- `get_border_point(angle, ratio)` with the documented default `ratio=None` meaning the border itself -/
def borderPointOpt (pos : Pt α) (verts : List (Pt α)) (d : Pt α) (ratio : Option α) : Except PyErr (Pt α) :=
  borderPoint pos verts d (match ratio with | none => ((1 : Nat) : α) | some r => r)

/-- users of a cluster in the order `get_all_users` / the distance matrix use: cell by cell, inside a
    cell in the order they were added; `adds` is the global sequence of additions `(cell index, position)` -/
def usersByCell (n : Nat) (adds : List (Nat × Pt α)) : List (Pt α) :=
  (List.range n).flatMap (fun i => (adds.filter (fun a => a.1 == i)).map (·.2))
end forms

end PyPhysim.C19
