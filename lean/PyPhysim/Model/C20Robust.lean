/-
C20, robustness class R16 (core Lean only): the caller's preallocated arrays and the calls made on them.

Every entry point of C20 is modelled as a *pure function* of the contents of its array arguments (and of
the values the numpy kernels return for them, which are parameters of the model functions of
`Model/C20.lean`).  `Heap` / `Op` / `run` make the consequence explicit for histories: a call reads the
contents the array has *at call time*, returns a fresh value and leaves the array alone; the same
array may be handed over in two (three) roles.  The machine is generic in the function called — the
driver (`hist`) instantiates it with `projWith`, `chordal2`, `project`, `reflect`, `updateInvSumDiag`,
`gmd` and the conversions, `β` being a shape-carrying binary64 array and `γ` the printed result.
-/
import PyPhysim.Model.Proto

namespace PyPhysim.C20R

/-- the caller's arrays: array id ↦ current contents -/
abbrev Heap (β : Type) := Nat → β

inductive Op (β γ : Type)
  /-- `buf_i[...] = v` (the caller refills its preallocated array) -/
  | refill (i : Nat) (v : β)
  /-- `f(buf_i)` -/
  | call1 (f : β → γ) (i : Nat)
  /-- `f(buf_i, buf_j)`; `i = j` is the same array object in both roles -/
  | call2 (f : β → β → γ) (i j : Nat)
  /-- `f(buf_i, buf_j, buf_k)` (`gmd(U, S, V_H)`) -/
  | call3 (f : β → β → β → γ) (i j k : Nat)

variable {β γ : Type}

/-- what an operation returns, from the contents the arrays have when it is made -/
def result (h : Heap β) : Op β γ → Option γ
  | .refill _ _ => none
  | .call1 f i => some (f (h i))
  | .call2 f i j => some (f (h i) (h j))
  | .call3 f i j k => some (f (h i) (h j) (h k))

/-- effect of one operation on the caller's arrays: only a refill writes -/
def write (h : Heap β) : Op β γ → Heap β
  | .refill i v => fun k => if k = i then v else h k
  | _ => h

/-- arrays after the history, and the value every operation returned -/
def run : Heap β → List (Op β γ) → Heap β × List (Option γ)
  | h, [] => (h, [])
  | h, op :: ops =>
    let r := run (write h op) ops
    (r.1, result h op :: r.2)

def isRefill : Op β γ → Bool
  | .refill _ _ => true
  | _ => false

/-- the refills of a history (what the caller wrote), calls dropped -/
def refillsOnly (ops : List (Op β γ)) : List (Op β γ) := ops.filter isRefill

end PyPhysim.C20R
