import PyPhysim.Model.Proto
/-!
# C04 — model of the MIMO schemes of `pyphysim/mimo/mimo.py` (core Lean only)

`Blast`, `MRC`, `MRT`, `SVDMimo`, `GMDMimo`, `Alamouti`: `_calc_precoder`,
`_calc_receive_filter`, `encode`, `decode`, `set_noise_var`, the shape guards of
`set_channel_matrix`, and `MimoBase._calcZeroForceFilter / _calcMMSEFilter`.

Everything is polymorphic in the scalar through core notation classes plus the
small class `CScalar`, so the same text is instantiated at `ℂ` (Mathlib) in
`Proofs/` and at a binary64 complex type in the compiled driver.

External kernels are NOT modelled: the *results* of `np.linalg.pinv`,
`np.linalg.solve`, `np.linalg.svd` and of `pyphysim.util.misc.gmd` are
parameters (`Gp`, `Ws`, `U S VH`, `Q R P`); the model says which *arguments* the
code hands to each kernel (`mmseLhs`, `mmseRhs`, `gmdChannelEq`, …) and what it
does with the results.  The theorems quantify over every result satisfying the
kernel's contract; the harness checks the contract on every case.
(`gmdSweep` below additionally models the body of `gmd` itself.)
-/
namespace PyPhysim.C04
open PyPhysim.Proto

/-- what the code needs of its complex scalars beyond ring arithmetic -/
class CScalar (α : Type) where
  /-- `.conjugate()` -/
  conj : α → α
  /-- `math.sqrt` (argument is real and non-negative in the code) -/
  sqrt : α → α
  /-- `np.abs` (the modulus, as a scalar of the same type) -/
  abs : α → α
  /-- `np.angle` -/
  angle : α → α
  /-- `np.exp` -/
  exp : α → α
  /-- `1j` -/
  I : α
  /-- `x > 0` for a real `x` -/
  posB : α → Bool
  /-- `x >= 0.0` for a real `x` -/
  nonnegB : α → Bool

export CScalar (conj)

abbrev Mat (α : Type) (m n : Nat) := Fin m → Fin n → α
abbrev Vec (α : Type) (n : Nat) := Fin n → α

section matrix
variable {α : Type}

/-- left-to-right sum of `f 0 … f (n-1)` -/
def sumFin [Zero α] [Add α] : (n : Nat) → (Fin n → α) → α
  | 0, _ => 0
  | n+1, f => sumFin n (fun i => f i.castSucc) + f (Fin.last n)

variable [Zero α] [One α] [Add α] [Sub α] [Mul α] [Div α] [Neg α] [NatCast α] [CScalar α]

/-- `A.dot(B)` -/
def matMul {m k n : Nat} (A : Mat α m k) (B : Mat α k n) : Mat α m n :=
  fun i j => sumFin k (fun l => A i l * B l j)

/-- `A.conj().T` -/
def cT {m n : Nat} (A : Mat α m n) : Mat α n m := fun i j => conj (A j i)

/-- `np.eye(n)` -/
def eye {n : Nat} : Mat α n n := fun i j => if i = j then 1 else 0

def madd {m n : Nat} (A B : Mat α m n) : Mat α m n := fun i j => A i j + B i j
def msub {m n : Nat} (A B : Mat α m n) : Mat α m n := fun i j => A i j - B i j
def smul {m n : Nat} (c : α) (A : Mat α m n) : Mat α m n := fun i j => c * A i j

/-- `np.diag(d)` -/
def diagM {n : Nat} (d : Vec α n) : Mat α n n := fun i j => if i = j then d i else 0

/-- `math.sqrt(n)` for a natural number -/
def sqrtNat (n : Nat) : α := CScalar.sqrt (n : α)

/-- energy radiated in channel use (column) `j`: `Σ_i |E_ij|²` -/
def colEnergy {m n : Nat} (E : Mat α m n) (j : Fin n) : α :=
  sumFin m (fun i => E i j * conj (E i j))

/-- total energy of a block: `Σ_ij |E_ij|²` -/
def totalEnergy {m n : Nat} (E : Mat α m n) : α := sumFin n (fun j => colEnergy E j)

/-- total energy of a symbol vector: `Σ_k |x_k|²` -/
def vecEnergy {n : Nat} (x : Vec α n) : α := sumFin n (fun k => x k * conj (x k))

/-! ## `MimoBase`: zero-forcing and MMSE filters -/

/-- `_calcZeroForceFilter(channel)`: the value `Gp` returned by `np.linalg.pinv(channel)` -/
def zfFilter {Nr Nt : Nat} (Gp : Mat α Nt Nr) : Mat α Nt Nr := Gp

/-- first argument of `np.linalg.solve` in `_calcMMSEFilter`:
    `np.dot(H_H, H) + noise_var * np.eye(Nt)` -/
def mmseLhs {Nr Nt : Nat} (H : Mat α Nr Nt) (nv : α) : Mat α Nt Nt :=
  madd (matMul (cT H) H) (smul nv eye)

/-- second argument of `np.linalg.solve` in `_calcMMSEFilter`: `H_H` -/
def mmseRhs {Nr Nt : Nat} (H : Mat α Nr Nt) : Mat α Nt Nr := cT H

/-- `_calcMMSEFilter(channel, noise_var)`: the value `Ws` returned by `np.linalg.solve` -/
def mmseFilter {Nr Nt : Nat} (Ws : Mat α Nt Nr) : Mat α Nt Nr := Ws

/-- mean square error `E‖W(Hx+n) − x‖²` of a linear receiver `W` for unit-power
    uncorrelated symbols and white noise of variance `nv`:
    `‖W H − 1‖_F² + nv ‖W‖_F²` (specification; not a function of the library) -/
def mseOf {Nr Nt : Nat} (H : Mat α Nr Nt) (nv : α) (W : Mat α Nt Nr) : α :=
  totalEnergy (msub (matMul W H) eye) + nv * totalEnergy W

/-! ## shape guards of `set_channel_matrix` / `set_noise_var` -/

/-- `MisoBase.set_channel_matrix` (MRT): a 1-D channel of length `len` becomes
    `1 × len`; a 2-D `Nr × Nt` channel is rejected unless `Nr = 1`.
    `dims = [len]` or `[Nr, Nt]`; result = stored shape -/
def misoShape : List Nat → Except PyErr (Nat × Nat)
  | [len] => .ok (1, len)
  | [nr, nt] => if nr ≠ 1 then .error .ValueError else .ok (nr, nt)
  | _ => .error .ValueError

/-- `MRC.set_channel_matrix`: a 1-D channel of length `len` becomes `len × 1`;
    (`Blast.set_channel_matrix` only warns when `Nt > Nr`) -/
def mrcShape : List Nat → Except PyErr (Nat × Nat)
  | [len] => .ok (len, 1)
  | [nr, nt] => .ok (nr, nt)
  | _ => .error .ValueError

/-- `Alamouti.set_channel_matrix`: 1-D becomes `1 × len`; 2-D needs `Nt = 2` -/
def alamoutiShape : List Nat → Except PyErr (Nat × Nat)
  | [len] => .ok (1, len)
  | [nr, nt] => if nt ≠ 2 then .error .ValueError else .ok (nr, nt)
  | _ => .error .ValueError

/-- `Blast.set_noise_var`: `None ↦ 0.0`, negative values are rejected; result =
    the stored `_noise_var` -/
def setNoiseVar : Option α → Except PyErr α
  | none => .ok 0
  | some nv => if CScalar.nonnegB nv then .ok nv else .error .ValueError

/-! ## Blast (and MRC, which inherits everything) -/

/-- `Blast._calc_precoder`: `np.eye(Nt) / math.sqrt(Nt)` -/
def blastPrecoder (Nt : Nat) : Mat α Nt Nt := fun i j => eye i j / sqrtNat Nt

/-- `Blast._calc_receive_filter(channel, noise_var)`: MMSE filter when
    `noise_var > 0`, zero-forcing otherwise, times `math.sqrt(Nt)`.
    `Gp` = result of `pinv`, `Ws` = result of `solve` (only the selected one is used) -/
def blastFilter {Nr Nt : Nat} (nv : α) (Gp Ws : Mat α Nt Nr) : Mat α Nt Nr :=
  fun i j => (if CScalar.posB nv then mmseFilter Ws i j else zfFilter Gp i j) * sqrtNat Nt

theorem fIdx {n Nt : Nat} (h : n % Nt = 0) (i : Fin Nt) (j : Fin (n / Nt)) :
    j.val * Nt + i.val < n := by
  have h1 : (j.val + 1) * Nt ≤ (n / Nt) * Nt := Nat.mul_le_mul_right _ j.isLt
  have h2 : (n / Nt) * Nt = n := Nat.div_mul_cancel (Nat.dvd_of_mod_eq_zero h)
  have h3 : (j.val + 1) * Nt = j.val * Nt + Nt := Nat.succ_mul _ _
  have := i.isLt
  omega

theorem cIdx {n Nt : Nat} (h : n % Nt = 0) (i : Fin Nt) (j : Fin (n / Nt)) :
    i.val * (n / Nt) + j.val < n := by
  have h1 : (i.val + 1) * (n / Nt) ≤ Nt * (n / Nt) := Nat.mul_le_mul_right _ i.isLt
  have h2 : Nt * (n / Nt) = n := Nat.mul_div_cancel' (Nat.dvd_of_mod_eq_zero h)
  have h3 : (i.val + 1) * (n / Nt) = i.val * (n / Nt) + n / Nt := Nat.succ_mul _ _
  have := j.isLt
  omega

/-- `transmit_data.reshape((Nt, -1), order='F')`: entry `(i, j)` is `x[j·Nt + i]` -/
def reshapeF {n : Nat} (Nt : Nat) (x : Vec α n) (h : n % Nt = 0) : Mat α Nt (n / Nt) :=
  fun i j => x ⟨j.val * Nt + i.val, fIdx h i j⟩

/-- `transmit_data.reshape(Nt, -1)` (C order): entry `(i, j)` is `x[i·L + j]` -/
def reshapeC {n : Nat} (Nt : Nat) (x : Vec α n) (h : n % Nt = 0) : Mat α Nt (n / Nt) :=
  fun i j => x ⟨i.val * (n / Nt) + j.val, cIdx h i j⟩

/-- `Blast.encode`: `ValueError` unless the number of symbols is a multiple of
    `Nt` (`ZeroDivisionError` for `Nt = 0`); Fortran-order reshape divided by
    `math.sqrt(Nt)` -/
def blastEncode {n : Nat} (Nt : Nat) (x : Vec α n) : Except PyErr (Mat α Nt (n / Nt)) :=
  if Nt = 0 then .error .ZeroDivisionError
  else if h : n % Nt = 0 then .ok (fun i j => reshapeF Nt x h i j / sqrtNat Nt)
  else .error .ValueError

/-- `M.reshape(-1, order='F')` of a `K × L` matrix -/
def flattenF {K L : Nat} (M : Mat α K L) : Vec α (K * L) :=
  fun k => M ⟨k.val % K, Nat.mod_lt _ (Nat.pos_of_ne_zero (by
              intro h; subst h; have := k.isLt; simp at this))⟩
             ⟨k.val / K, Nat.div_lt_of_lt_mul k.isLt⟩

/-- `M.reshape(-1)` (C order) of a `K × L` matrix -/
def flattenC {K L : Nat} (M : Mat α K L) : Vec α (K * L) :=
  fun k => M ⟨k.val / L, Nat.div_lt_of_lt_mul (Nat.mul_comm K L ▸ k.isLt)⟩
             ⟨k.val % L, Nat.mod_lt _ (Nat.pos_of_ne_zero (by
              intro h; subst h; have := k.isLt; simp at this))⟩

/-- `Blast.decode`: `G_H.dot(received_data).reshape(-1, order='F')` -/
def blastDecode {Nr Nt L : Nat} (G : Mat α Nt Nr) (Y : Mat α Nr L) : Vec α (Nt * L) :=
  flattenF (matMul G Y)

/-! ## SVD MIMO (after the `full_matrices=False` repair of the receive filter) -/

/-- `SVDMimo._calc_precoder`: `V_H.conj().T / math.sqrt(Nt)`, `VH` = third result
    of `np.linalg.svd(channel)` (`Nt × Nt`) -/
def svdPrecoder {Nt : Nat} (VH : Mat α Nt Nt) : Mat α Nt Nt := fun i j => cT VH i j / sqrtNat Nt

/-- `SVDMimo._calc_receive_filter`: `np.diag(1. / S).dot(U.conj().T) * math.sqrt(Nt)`,
    `(U, S, _)` = result of `np.linalg.svd(channel, full_matrices=False)`
    (`U : Nr × K`, `S : K`, `K = min(Nr, Nt)`) -/
def svdFilter {Nr K : Nat} (Nt : Nat) (U : Mat α Nr K) (S : Vec α K) : Mat α K Nr :=
  fun i j => matMul (diagM (fun a => 1 / S a)) (cT U) i j * sqrtNat Nt

/-- `SVDMimo.encode` / `GMDMimo.encode`: `W.dot(transmit_data.reshape(Nt, -1))` -/
def precodeC {n Nt : Nat} (W : Mat α Nt Nt) (x : Vec α n) : Except PyErr (Mat α Nt (n / Nt)) :=
  if Nt = 0 then .error .ZeroDivisionError
  else if h : n % Nt = 0 then .ok (matMul W (reshapeC Nt x h))
  else .error .ValueError

/-- `SVDMimo.decode` / `GMDMimo.decode`: `G_H.dot(received_data).reshape(-1)` -/
def decodeC {Nr K L : Nat} (G : Mat α K Nr) (Y : Mat α Nr L) : Vec α (K * L) :=
  flattenC (matMul G Y)

/-! ## GMD MIMO -/

/-- `GMDMimo._calc_precoder`: `P / math.sqrt(Nt)`, `P` = third result of `gmd` -/
def gmdPrecoder {Nt : Nat} (P : Mat α Nt Nt) : Mat α Nt Nt := fun i j => P i j / sqrtNat Nt

/-- the equivalent channel `Q.dot(R)` that `GMDMimo._calc_receive_filter` hands to
    `Blast._calc_receive_filter` (hence to `pinv` / `solve`); `Q : Nr × Nr`, `R : Nr × Nt` -/
def gmdChannelEq {Nr Nt : Nat} (Q : Mat α Nr Nr) (R : Mat α Nr Nt) : Mat α Nr Nt := matMul Q R

/-! ## MRT -/

/-- `MRT._calc_precoder`: `np.exp(-1j * np.angle(channel)).T / math.sqrt(Nt)`
    (`h` = the single row of the `1 × Nt` channel) -/
def mrtPrecoder {Nt : Nat} (h : Vec α Nt) : Vec α Nt :=
  fun i => CScalar.exp ((-CScalar.I) * CScalar.angle (h i)) / sqrtNat Nt

/-- `MRT._calc_receive_filter`: `math.sqrt(Nt) / np.sum(np.abs(channel))` -/
def mrtFilter {Nt : Nat} (h : Vec α Nt) : α :=
  sqrtNat Nt / sumFin Nt (fun i => CScalar.abs (h i))

/-- `MRT.encode`: `W * x[np.newaxis, :]` (broadcast) -/
def mrtEncode {Nt n : Nat} (h : Vec α Nt) (x : Vec α n) : Mat α Nt n :=
  fun i j => mrtPrecoder h i * x j

/-- `MRT.decode`: `G_H * received_data`, flattened (`received_data` is `1 × n`) -/
def mrtDecode {Nt n : Nat} (h : Vec α Nt) (Y : Mat α 1 n) : Vec α n :=
  fun j => mrtFilter h * Y 0 j

/-! ## Alamouti -/

/-- `Alamouti._encode`: codeword `[[s0, -s1*], [s1, s0*]]` per pair of symbols;
    an odd number of symbols runs off the end of `transmit_data` (`IndexError`) -/
def alamoutiEncodeRaw {n : Nat} (x : Vec α n) : Except PyErr (Mat α 2 n) :=
  if h : n % 2 = 0 then
    .ok (fun a j =>
      if hj : j.val % 2 = 0 then
        (if a.val = 0 then x j else x ⟨j.val + 1, by have := j.isLt; omega⟩)
      else
        (if a.val = 0 then -(conj (x j)) else conj (x ⟨j.val - 1, by have := j.isLt; omega⟩)))
  else .error .IndexError

/-- `Alamouti.encode`: `_encode(x) / math.sqrt(2)` -/
def alamoutiEncode {n : Nat} (x : Vec α n) : Except PyErr (Mat α 2 n) :=
  (alamoutiEncodeRaw x).map (fun E => fun a j => E a j / sqrtNat 2)

/-- `np.linalg.norm(channel, 'fro')`: `sqrt(Σ |h|²)` -/
def frobNorm {m n : Nat} (H : Mat α m n) : α :=
  CScalar.sqrt (sumFin m (fun i => sumFin n (fun j => CScalar.abs (H i j) * CScalar.abs (H i j))))

/-- `Alamouti._decode` on `B` received codewords (`received_data` is `Nr × 2B`):
    matched combiner divided by `norm(channel, 'fro')**2` -/
def alamoutiDecodeRaw {Nr B : Nat} (H : Mat α Nr 2) (Y : Mat α Nr (2 * B)) : Vec α (2 * B) :=
  fun j =>
    (if hj : j.val % 2 = 0 then
      sumFin Nr (fun r => conj (H r 0) * Y r j) +
      sumFin Nr (fun r => H r 1 * conj (Y r ⟨j.val + 1, by have := j.isLt; omega⟩))
    else
      sumFin Nr (fun r => conj (H r 1) * Y r ⟨j.val - 1, by have := j.isLt; omega⟩) +
      sumFin Nr (fun r => (-(H r 0)) * conj (Y r j)))
    / (frobNorm H * frobNorm H)

/-- `Alamouti.decode`: `_decode(received, channel) * math.sqrt(2)` -/
def alamoutiDecode {Nr B : Nat} (H : Mat α Nr 2) (Y : Mat α Nr (2 * B)) : Vec α (2 * B) :=
  fun j => alamoutiDecodeRaw H Y j * sqrtNat 2

end matrix

end PyPhysim.C04
