/-
C08 — the caller's preallocated arrays (robustness class R16), core Lean only.

`Model/C08.lean` takes the arguments of every operation as *values*.  A caller of the real classes
owns array *objects*: it may keep ONE preallocated array per role, refill it in place
(`buf[...] = new`) before every call, pass the same array object for two parameters
(`set_pathloss(P, P)`, `Nr is Nt`, the same block twice in a list of filters), or overwrite an
argument right after the call.  This file is the caller's side of that picture:

* `Heap α`  — the caller's arrays, addressed by a slot number;
* `BOp α`   — what the caller does: `refill s M` (new contents, same array object, NO call on the
  channel object) or `call mk` (a call on the channel object whose array arguments are *read from
  the caller's arrays at the moment of the call*; `mk` may read one slot for several parameters);
* `bufStep` / `bufRun` — the semantics the property demands (and the repaired source implements by
  copying every array it stores: `np.array(channel_matrix)`, `np.array(pathloss_matrix)`,
  `np.hstack`, `[np.array(w) for w in filters]`, `np.vstack(data)`): the object works with the
  contents at call time.

The harness runs the real classes under exactly such caller programs (`case['reuse']`,
`BufPool` in harness/props/c08.py) and compares every output with `run` on `resolve`d values.
-/
import PyPhysim.Model.C08

namespace PyPhysim.C08.Buf
open PyPhysim.C08

/-- the caller's arrays -/
abbrev Heap (α : Type) := Nat → Mat α

/-- `buf[...] = M` on the array in slot `s` -/
def Heap.set {α : Type} (h : Heap α) (s : Nat) (M : Mat α) : Heap α := fun i => if i = s then M else h i

inductive BOp (α : Type) where
  /-- `buf_s[...] = M` : new contents, same array object; no call on the channel object -/
  | refill (s : Nat) (M : Mat α)
  /-- a call on the channel object; its array arguments are whatever the caller's arrays hold now -/
  | call (mk : Heap α → Op α)

section
variable {α : Type} [Add α] [Mul α] [Zero α]

/-- one action of the caller: (heap, object) ↦ (heap, object), and the output of the call if there was one -/
def bufStep (cfg : Cfg) (F : Fns α) (hs : Heap α × State α) : BOp α → (Heap α × State α) × Option (Out α)
  | .refill s M => ((hs.1.set s M, hs.2), none)
  | .call mk => let r := step cfg F hs.2 (mk hs.1); ((hs.1, r.1), some r.2)

/-- a caller program; the outputs of its calls in order -/
def bufRun (cfg : Cfg) (F : Fns α) : Heap α × State α → List (BOp α) → (Heap α × State α) × List (Out α)
  | hs, [] => (hs, [])
  | hs, op :: ops =>
    let r := bufStep cfg F hs op
    let rest := bufRun cfg F r.1 ops
    (rest.1, match r.2 with | some o => o :: rest.2 | none => rest.2)

/-- the value history a caller program amounts to: every call with the contents its arrays had when it
    was made -/
def resolve : Heap α → List (BOp α) → List (Op α)
  | _, [] => []
  | h, .refill s M :: ops => resolve (h.set s M) ops
  | h, .call mk :: ops => mk h :: resolve h ops

/-- the heap after a program -/
def heapAfter : Heap α → List (BOp α) → Heap α
  | h, [] => h
  | h, .refill s M :: ops => heapAfter (h.set s M) ops
  | h, .call _ :: ops => heapAfter h ops

end

end PyPhysim.C08.Buf
