import PyPhysim.Model.C17
/-!
# C17 model, class layer (core Lean only)

`SimulationParameters`, `Result`, `SimulationResults` as plain records, their
`_to_dict` / `_from_dict`, `to_json = enc ∘ toDict`, `from_json = fromDict ∘ dec`,
the CHOICETYPE update machine, the extension dispatch of
`save_to_file`/`load_from_file` over an explicit file store, and the file-name
template expansion (`replace_dict_values` for scalar fields).

The model is the code *after* the `fix:` commits of the C17 worktree
(`Result._from_dict` rebuilds a non-CHOICE result field by field instead of
re-running `update`; the CHOICE branch restores `value_list`;
`SimulationResults` serialises `current_rep`).
-/
namespace PyPhysim.C17
open PyPhysim.Proto

/-! ## SimulationParameters -/

/-- one `SimulationParameters` object without its `_original_sim_params` link -/
structure Node where
  parameters : List (String × PyVal)
  /-- `_unpacked_parameters_set` in iteration order -/
  unpacked : List String
  unpackIndex : Int
  deriving Repr, Inhabited

/-- an object followed by its chain of `_original_sim_params`; `[]` is `None` -/
abbrev Chain := List Node

def strVals (xs : List String) : List PyVal := xs.map PyVal.str

/-- `SimulationParameters._to_dict` -/
def paramsToDict : Chain → PyVal
  | [] => .none
  | n :: rest =>
    .dict [("parameters", .dict n.parameters),
           ("unpacked_parameters_set", .set (strVals n.unpacked)),
           ("unpack_index", .int n.unpackIndex),
           ("original_sim_params", paramsToDict rest)]

def strList : List PyVal → Option (List String)
  | [] => some []
  | .str s :: r => (strList r).map (s :: ·)
  | _ => .none

/-- `SimulationParameters._from_dict` (recursive on `original_sim_params`;
    `fuel` bounds the depth of the chain, `Fuel` = not enough of it) -/
def paramsFromDict : Nat → PyVal → R Chain
  | 0, _ => raise .Fuel
  | fuel + 1, .dict d =>
    match lookup "parameters" d, lookup "unpacked_parameters_set" d,
          lookup "unpack_index" d, lookup "original_sim_params" d with
    | some ps, some us, some idx, some orig =>
      (match orig with
       | .none => (.ok [] : R Chain)
       | o => paramsFromDict fuel o).bind fun rest =>
        match ps, us, idx with
        | .dict p, .set u, .int i =>
          match strList u with
          | some names => .ok ({ parameters := p, unpacked := names, unpackIndex := i } :: rest)
          | .none => .error .unmodelled
        | _, _, _ => .error .unmodelled
    | _, _, _, _ => raise .KeyError
  | _ + 1, _ => .error .unmodelled

def Node.norm (n : Node) : Node := { n with parameters := normKVs n.parameters }
def normChain (c : Chain) : Chain := c.map Node.norm

def wfNode (n : Node) : Bool := wfKVs n.parameters && pairwiseDistinct (strVals n.unpacked)
def wfChain (c : Chain) : Bool := c.all wfNode

/-- `SimulationParameters.to_json` / `from_json` -/
def paramsToJson (c : Chain) : Json := enc (paramsToDict c)
def paramsFromJson (fuel : Nat) (j : Json) : R Chain := (dec j).bind (paramsFromDict fuel)

/-- `isinstance(v, collections.abc.Iterable)` -/
def isIterableV : PyVal → Bool
  | .list _ | .set _ | .ndarray _ _ _ | .str _ | .dict _ => true
  | _ => false

/-! ### mutators of a parameters object (used after unpacking, on a child or on
its original) -/

/-- `parameters[k] = v`: an existing key keeps its position, a new one is appended -/
def setKV (k : String) (v : PyVal) : List (String × PyVal) → List (String × PyVal)
  | [] => [(k, v)]
  | (k', v') :: r => if k' == k then (k', v) :: r else (k', v') :: setKV k v r

def removeKV (k : String) : List (String × PyVal) → List (String × PyVal)
  | [] => []
  | (k', v') :: r => if k' == k then removeKV k r else (k', v') :: removeKV k r

inductive POp where
  /-- `p.add(name, v)` / `p[name] = v` -/
  | set (name : String) (v : PyVal)
  /-- `p.remove(name)` -/
  | remove (name : String)
  /-- `p.set_unpack_parameter(name)` -/
  | mark (name : String)
  /-- `p.set_unpack_parameter(name, False)` -/
  | unmark (name : String)
  deriving Repr, Inhabited

def Node.apply (n : Node) : POp → R Node
  | .set k v => .ok { n with parameters := setKV k v n.parameters }
  | .remove k =>
    match lookup k n.parameters with
    | .none => raise .KeyError
    | some _ => .ok { n with parameters := removeKV k n.parameters, unpacked := n.unpacked.filter (· != k) }
  | .mark k =>
    match lookup k n.parameters with
    | .none => raise .ValueError
    | some v =>
      if isIterableV v then
        .ok { n with unpacked := if n.unpacked.contains k then n.unpacked else n.unpacked ++ [k] }
      else raise .ValueError
  | .unmark k =>
    match lookup k n.parameters with
    | .none => raise .ValueError
    | some v =>
      if isIterableV v then
        if n.unpacked.contains k then .ok { n with unpacked := n.unpacked.filter (· != k) }
        else raise .KeyError
      else raise .ValueError

/-- the operation applied to the object (`level = 0`), to its
    `_original_sim_params` (`1`), … ; the other objects of the chain are untouched
    (a child holds deep copies of its parent's values) -/
def applyAt : Chain → Nat → POp → R Chain
  | [], _, _ => .error .unmodelled
  | n :: rest, 0, op => (n.apply op).bind fun n' => .ok (n' :: rest)
  | n :: rest, l + 1, op => (applyAt rest l op).bind fun rest' => .ok (n :: rest')

def applyOps (c : Chain) : List (Nat × POp) → R Chain
  | [] => .ok c
  | (l, op) :: ops => (applyAt c l op).bind fun c' => applyOps c' ops

/-! ## Result -/

structure Result where
  name : String
  /-- 0 SUMTYPE, 1 RATIOTYPE, 2 MISCTYPE, 3 CHOICETYPE -/
  typeCode : Int
  value : PyVal
  total : PyVal
  resultSum : PyVal
  resultSqSum : PyVal
  numUpdates : PyVal
  acc : Bool
  valueList : List PyVal
  totalList : List PyVal
  deriving Repr, Inhabited

/-- `Result._to_dict` -/
def resultToDict (r : Result) : PyVal :=
  .dict [("name", .str r.name), ("update_type_code", .int r.typeCode), ("value", r.value),
         ("total", r.total), ("result_sum", r.resultSum), ("result_squared_sum", r.resultSqSum),
         ("num_updates", r.numUpdates), ("accumulate_values_bool", .bool r.acc),
         ("value_list", .list r.valueList), ("total_list", .list r.totalList)]

/-- `isinstance(v, collections.abc.Iterable)` -/
def isIterable : PyVal → Bool
  | .list _ | .set _ | .ndarray _ _ _ | .str _ | .dict _ => true
  | _ => false

def intList : List PyVal → Option (List Int)
  | [] => some []
  | .int i :: r => (intList r).map (i :: ·)
  | _ => .none

def natSum : List Nat → Nat
  | [] => 0
  | x :: xs => x + natSum xs

def countVals (cs : List Nat) : List PyVal := cs.map (fun (c : Nat) => PyVal.int (c : Int))
def zeroF : PyVal := .float (.fin 0 1)

/-- the CHOICE branch of `Result._from_dict`: a fresh result of `len(values)`
    choices, `update(i)` repeated `values[i]` times (`range(v)` is empty for a
    negative `v`), then the recorded `value_list` put back -/
def choiceReplay (name : String) (acc : Bool) (counts : List Int) (vl : List PyVal) : Result :=
  let cs := counts.map Int.toNat
  { name := name, typeCode := 3,
    value := .ndarray "int64" [cs.length] (.list (countVals cs)),
    total := .int (natSum cs), resultSum := zeroF, resultSqSum := zeroF,
    numUpdates := .int (natSum cs), acc := acc, valueList := vl, totalList := [] }

/-- `Result._from_dict` -/
def resultFromDict : PyVal → R Result
  | .dict d =>
    match lookup "name" d, lookup "update_type_code" d, lookup "value" d, lookup "total" d,
          lookup "result_sum" d, lookup "result_squared_sum" d, lookup "num_updates" d,
          lookup "accumulate_values_bool" d, lookup "value_list" d, lookup "total_list" d with
    | some (.str name), some (.int t), some value, some total, some rs, some rq, some nu,
      some (.bool acc), some (.list vl), some (.list tl) =>
      if isIterable value && t == 3 then
        match value with
        | .ndarray _ [n] (.list cs) =>
          match intList cs with
          | some counts =>
            if n = counts.length then .ok (choiceReplay name acc counts vl) else .error .unmodelled
          | .none => .error .unmodelled
        | _ => .error .unmodelled
      else if t == 3 then raise .RuntimeError      -- `Result(...)` without `choice_num`
      else .ok { name := name, typeCode := t, value := value, total := total, resultSum := rs,
                 resultSqSum := rq, numUpdates := nu, acc := acc, valueList := vl, totalList := tl }
    | _, _, _, _, _, _, _, _, _, _ => .error .unmodelled
  | _ => .error .unmodelled

def Result.norm (r : Result) : Result :=
  { r with value := C17.norm r.value, total := C17.norm r.total, resultSum := C17.norm r.resultSum,
           resultSqSum := C17.norm r.resultSqSum, numUpdates := C17.norm r.numUpdates,
           valueList := normList r.valueList, totalList := normList r.totalList }

def wfResult (r : Result) : Bool :=
  wf r.value && wf r.total && wf r.resultSum && wf r.resultSqSum && wf r.numUpdates
    && wfList r.valueList && wfList r.totalList

def resultToJson (r : Result) : Json := enc (resultToDict r)
def resultFromJson (j : Json) : R Result := (dec j).bind resultFromDict

/-! ### the CHOICETYPE update machine -/

structure Choice where
  name : String
  acc : Bool
  counts : List Nat
  total : Nat
  numUpdates : Nat
  valueList : List PyVal
  deriving Repr, Inhabited

/-- `Result(name, CHOICETYPE, accumulate_values, choice_num=n)` -/
def choiceInit (name : String) (acc : Bool) (n : Nat) : Choice :=
  { name := name, acc := acc, counts := List.replicate n 0, total := 0, numUpdates := 0, valueList := [] }

def bump : List Nat → Nat → List Nat
  | [], _ => []
  | c :: cs, 0 => (c + 1) :: cs
  | c :: cs, i + 1 => c :: bump cs i

/-- what `Result.update` does to an argument on entry: a numpy scalar or a 0-d
    array is replaced by the Python number of the same value (`value.item()`);
    anything else is stored as given -/
def itemOf : PyVal → PyVal
  | .npint _ _ i => .int i
  | .npfloat _ f => .float f
  | .npbool b => .bool b
  | .ndarray _ [] d => C17.norm d
  | v => v

/-- the index a CHOICE update uses (after `itemOf`): `int` or `bool` -/
def choiceIndex : PyVal → Option Int
  | .int i => some i
  | .npint _ _ i => some i
  | .bool b => some (if b then 1 else 0)
  | _ => .none

/-- the CHOICE update proper, on the already converted argument -/
def choiceApply (c : Choice) (p : PyVal) : R Choice :=
  match choiceIndex p with
  | .none => raise .AssertionError
  | some i =>
    let n : Int := c.counts.length
    if -n ≤ i ∧ i < n then
      let idx := (if i < 0 then i + n else i).toNat
      .ok { c with counts := bump c.counts idx, total := c.total + 1, numUpdates := c.numUpdates + 1,
                   valueList := if c.acc then c.valueList ++ [p] else c.valueList }
    else raise .IndexError

/-- `Result.update(p)` of a CHOICETYPE result (a call that raises leaves the
    result unchanged: there is no state in the error case) -/
def choiceUpdate (c : Choice) (p : PyVal) : R Choice := choiceApply c (itemOf p)

def runChoice (c : Choice) : List PyVal → R Choice
  | [] => .ok c
  | p :: ps => (choiceUpdate c p).bind (fun c' => runChoice c' ps)

def Choice.toResult (c : Choice) : Result :=
  { name := c.name, typeCode := 3,
    value := .ndarray "int64" [c.counts.length] (.list (countVals c.counts)),
    total := .int c.total, resultSum := zeroF, resultSqSum := zeroF,
    numUpdates := .int c.numUpdates, acc := c.acc, valueList := c.valueList, totalList := [] }

/-! ## SimulationResults -/

structure SimResults where
  results : List (String × List Result)
  params : Chain
  runnedReps : PyVal
  originalFilename : PyVal
  currentRep : PyVal
  deriving Repr, Inhabited

def resultsToVals : List Result → List PyVal
  | [] => []
  | r :: rs => resultToDict r :: resultsToVals rs

def resultsToKVs : List (String × List Result) → List (String × PyVal)
  | [] => []
  | (n, rs) :: rest => (n, .list (resultsToVals rs)) :: resultsToKVs rest

/-- `SimulationResults._to_dict` -/
def simToDict (s : SimResults) : PyVal :=
  .dict [("params", paramsToDict s.params), ("runned_reps", s.runnedReps),
         ("original_filename", s.originalFilename), ("current_rep", s.currentRep),
         ("results", .dict (resultsToKVs s.results))]

def resultsFromVals : List PyVal → R (List Result)
  | [] => .ok []
  | v :: vs => (resultFromDict v).bind fun r => (resultsFromVals vs).bind fun rs => .ok (r :: rs)

def resultsFromKVs : List (String × PyVal) → R (List (String × List Result))
  | [] => .ok []
  | (n, .list vs) :: rest =>
      (resultsFromVals vs).bind fun rs => (resultsFromKVs rest).bind fun r => .ok ((n, rs) :: r)
  | _ :: _ => .error .unmodelled

/-- `SimulationResults._from_dict` (`current_rep` defaults to `-1` for files
    written before it was serialised) -/
def simFromDict (fuel : Nat) : PyVal → R SimResults
  | .dict d =>
    match lookup "results" d with
    | some (.dict rd) =>
      (resultsFromKVs rd).bind fun results =>
        match lookup "params" d with
        | .none => raise .KeyError
        | some pd =>
          (paramsFromDict fuel pd).bind fun params =>
            match lookup "runned_reps" d, lookup "original_filename" d with
            | some rr, some ofn =>
              .ok { results := results, params := params, runnedReps := rr, originalFilename := ofn,
                    currentRep := (lookup "current_rep" d).getD (.int (-1)) }
            | _, _ => raise .KeyError
    | some _ => .error .unmodelled
    | .none => raise .KeyError
  | _ => .error .unmodelled

def normResults : List Result → List Result
  | [] => []
  | r :: rs => r.norm :: normResults rs

def normResultKVs : List (String × List Result) → List (String × List Result)
  | [] => []
  | (n, rs) :: rest => (n, normResults rs) :: normResultKVs rest

def SimResults.norm (s : SimResults) : SimResults :=
  { results := normResultKVs s.results, params := normChain s.params, runnedReps := C17.norm s.runnedReps,
    originalFilename := C17.norm s.originalFilename, currentRep := C17.norm s.currentRep }

/-- a result as the round trip accepts it: any state of a non-CHOICE result with
    supported values, or a CHOICE result in a state the update machine reaches
    (`total = num_updates = Σ counts`, see `choice_invariant`) -/
def goodResult (r : Result) : Prop :=
  (r.typeCode ≠ 3 ∧ wfResult r = true) ∨
  (∃ c : Choice, r = c.toResult ∧ c.total = natSum c.counts ∧ c.numUpdates = natSum c.counts
      ∧ wfList c.valueList = true)

def simToJson (s : SimResults) : Json := enc (simToDict s)
def simFromJson (fuel : Nat) (j : Json) : R SimResults := (dec j).bind (simFromDict fuel)

/-! ## save_to_file / load_from_file -/

inductive Content where
  | pickled (s : SimResults)      -- `pickle.dump(self)`: the object itself
  | json (j : Json)               -- the JSON text, as a tree
  deriving Repr, Inhabited

/-- file name = stem + extension (`os.path.splitext` is not modelled: the name
    is kept split) -/
structure FName where
  stem : String
  ext : String
  deriving Repr, Inhabited, DecidableEq

abbrev Store := List (FName × Content)

def storeRead : Store → FName → Option Content
  | [], _ => .none
  | (g, c) :: rest, f => if g = f then some c else storeRead rest f

/-! ### file-name templates -/

inductive Seg where
  | lit (s : String)
  | field (name : String)
  deriving Repr, Inhabited

/-- `format(v, '')` for scalars.  `fr width f` is `repr` of a binary64
    (`width = 64`, also for Python floats) or numpy's shortest repr of a narrower
    float: CPython / numpy code, a parameter of the model. -/
def render (fr : Nat → PyFloat → String) : PyVal → Option String
  | .none => some "None"
  | .bool b => some (if b then "True" else "False")
  | .int i => some i.repr
  | .float f => some (fr 64 f)
  | .str s => some s
  | .npint _ _ i => some i.repr
  | .npfloat w f => some (fr w f)
  | .npbool b => some (if b then "True" else "False")
  | _ => .none                 -- containers / arrays: not modelled

/-- `template.format(**parameters)` for plain `{name}` fields -/
def expand (fr : Nat → PyFloat → String) (env : List (String × PyVal)) : List Seg → R String
  | [] => .ok ""
  | .lit s :: r => (expand fr env r).bind fun t => .ok (s ++ t)
  | .field n :: r =>
    match lookup n env with
    | .none => raise .KeyError
    | some v =>
      match render fr v with
      | .none => .error .unmodelled
      | some t => (expand fr env r).bind fun u => .ok (t ++ u)

/-- `get_filename_with_replaced_params`: a `KeyError` keeps the template text -/
def getFilename (fr : Nat → PyFloat → String) (env : List (String × PyVal))
    (tplText : String) (tpl : List Seg) : R String :=
  match expand fr env tpl with
  | .ok s => .ok s
  | .error (.py .KeyError) => .ok tplText
  | .error e => .error e

/-- `filename = '{0}.pickle'.format(filename)` when there is no extension -/
def normExt (ext : String) : String := if ext == "" then ".pickle" else ext

inductive Fmt where | pickle | json
  deriving DecidableEq, Repr

/-- the two `ext_to_*_func_mapping` dictionaries -/
def fmtOf (ext : String) : Option Fmt :=
  if ext == ".pickle" then some .pickle else if ext == ".json" then some .json else .none

/-- `save_to_file`: returns the store, the object (its `original_filename` is
    now the template) and the actual name -/
def saveToFile (fr : Nat → PyFloat → String) (st : Store) (s : SimResults)
    (tplText : String) (tpl : List Seg) (ext : String) : R (Store × SimResults × FName) :=
  let s' := { s with originalFilename := .str (tplText ++ normExt ext) }
  match s'.params with
  | [] => .error .unmodelled
  | n :: _ =>
    (getFilename fr n.parameters tplText tpl).bind fun stem =>
      let f : FName := { stem := stem, ext := normExt ext }
      match fmtOf (normExt ext) with
      | some .pickle => .ok ((f, .pickled s') :: st, s', f)
      | some .json => .ok ((f, .json (simToJson s')) :: st, s', f)
      | .none => raise .KeyError

/-- `save_to_file` as a step of the object-and-store state: a call that raises
    (unknown extension, …) leaves both the object — including its
    `original_filename` — and the store exactly as they were -/
def saveStep (fr : Nat → PyFloat → String) (st : Store) (s : SimResults)
    (tplText : String) (tpl : List Seg) (ext : String) : (Store × SimResults) × R FName :=
  match saveToFile fr st s tplText tpl ext with
  | .ok (st', s', f) => ((st', s'), .ok f)
  | .error e => ((st, s), .error e)

/-- `load_from_file` (`RuntimeError` stands for `FileNotFoundError`) -/
def loadFromFile (fuel : Nat) (st : Store) (f : FName) : R SimResults :=
  let f' : FName := { f with ext := normExt f.ext }
  match fmtOf f'.ext with
  | some .pickle =>
    match storeRead st f' with
    | some (.pickled s) => .ok s
    | some (.json _) => .error .unmodelled
    | .none => raise .RuntimeError
  | some .json =>
    match storeRead st f' with
    | some (.json j) => simFromJson fuel j
    | some (.pickled _) => .error .unmodelled
    | .none => raise .RuntimeError
  | .none => raise .KeyError

end PyPhysim.C17
