/-
C06 — model of `pyphysim/simulations/results.py : Result` (core Lean only).

`Res` is the attribute record of a `Result` object; `update`/`merge` mirror
`Result.update` / `Result.merge` statement by statement (the first component
of the returned pair is the object after the call, the second the exception,
if any; since the repairs of this property a raising call leaves the object
unchanged).  Numbers are exact rationals; the correspondence check feeds the
real code integers / dyadic rationals so that binary64 arithmetic is exact.

Representation choices (documented, tied by the correspondence):
* `_value` is `value : Rat` for SUM / RATIO / MISC and `counts : List Nat`
  (the numpy int array) for CHOICE; the unused one stays `0` / `[]`.
* MISC values are numbers in the model (the code stores anything).
* a CHOICE observation is a rational; "is an `int`" is `den = 1`.
-/
import PyPhysim.Model.Proto
namespace PyPhysim.C06M
open PyPhysim.Proto

/-- `Result.SUMTYPE, RATIOTYPE, MISCTYPE, CHOICETYPE` -/
inductive Ty | sum | ratio | misc | choice
  deriving DecidableEq, Repr, Inhabited

/-- attributes of a `Result` object -/
structure Res where
  name : String
  ty : Ty
  value : Rat          -- `_value` (SUM, RATIO, MISC)
  counts : List Nat    -- `_value` (CHOICE: numpy int array)
  total : Rat          -- `_total`
  rsum : Rat           -- `_result_sum`
  rsq : Rat            -- `_result_squared_sum`
  n : Nat              -- `num_updates`
  acc : Bool           -- `_accumulate_values_bool`
  vlist : List Rat     -- `_value_list`
  tlist : List Rat     -- `_total_list`
  deriving DecidableEq, Repr, Inhabited

/-- one `update(value, total)` call; `t = none` is "total not given" -/
structure Obs where
  v : Rat
  t : Option Rat
  deriving DecidableEq, Repr, Inhabited

/-- `Result(name, type, accumulate_values, choice_num)` -/
def mkRes (name : String) (ty : Ty) (acc : Bool) (cn : Option Nat) : Except PyErr Res :=
  match ty, cn with
  | .choice, none => .error .RuntimeError
  | .choice, some k =>
      .ok { name, ty, value := 0, counts := List.replicate k 0, total := 0, rsum := 0, rsq := 0,
            n := 0, acc, vlist := [], tlist := [] }
  | _, _ =>
      .ok { name, ty, value := 0, counts := [], total := 0, rsum := 0, rsq := 0,
            n := 0, acc, vlist := [], tlist := [] }

/-- the object `mkRes` returns when it does not raise (`k` = `choice_num`, used for CHOICE only) -/
def fresh (name : String) (ty : Ty) (acc : Bool) (k : Nat) : Res :=
  { name, ty, value := 0, counts := if ty = .choice then List.replicate k 0 else [], total := 0,
    rsum := 0, rsq := 0, n := 0, acc, vlist := [], tlist := [] }

/-- number of choices given as a count: a Python int or any numpy integer ≥ 0 (`k`); a
    non-integer is refused (`RuntimeError`), a negative one by `np.zeros` (`ValueError`) -/
def choiceNumOf (t : Rat) : Except PyErr Nat :=
  if t.den ≠ 1 then .error .RuntimeError
  else if t.num < 0 then .error .ValueError
  else .ok t.num.toNat

/-- numpy index normalisation: `-len ≤ i < len` -/
def pyIndex (len : Nat) (i : Int) : Option Nat :=
  if 0 ≤ i ∧ i < len then some i.toNat
  else if i < 0 ∧ -(len : Int) ≤ i then some (i + len).toNat
  else none

/-- `a[i] += 1` -/
def incr : List Nat → Nat → List Nat
  | [], _ => []
  | x :: xs, 0 => (x + 1) :: xs
  | x :: xs, i+1 => x :: incr xs i

/-- `Result.update(value, total)`: the object afterwards and the exception raised, if any.
    A call that raises leaves the object unchanged (`num_updates` is incremented last; the RATIO
    quotient is computed before anything is stored).  numpy scalars / 0-d arrays are converted to
    Python numbers on entry, so an observation is its exact value whatever its numpy type. -/
def update (r : Res) (o : Obs) : Res × Option PyErr :=
  match r.ty with
  | .sum =>
      ({ r with n := r.n + 1, value := r.value + o.v, rsum := r.rsum + o.v, rsq := r.rsq + o.v * o.v,
                vlist := if r.acc then r.vlist ++ [o.v] else r.vlist }, none)
  | .ratio =>
      match o.t with
      | none => (r, some .ValueError)
      | some t =>
          if t = 0 then (r, some .ZeroDivisionError)
          else
            ({ r with n := r.n + 1, value := r.value + o.v, total := r.total + t,
                      rsum := r.rsum + o.v / t, rsq := r.rsq + (o.v / t) * (o.v / t),
                      vlist := if r.acc then r.vlist ++ [o.v] else r.vlist,
                      tlist := if r.acc then r.tlist ++ [t] else r.tlist }, none)
  | .misc =>
      ({ r with n := r.n + 1, value := o.v, vlist := if r.acc then r.vlist ++ [o.v] else r.vlist }, none)
  | .choice =>
      if o.v.den ≠ 1 then (r, some .AssertionError)
      else match pyIndex r.counts.length o.v.num with
        | none => (r, some .IndexError)
        | some i =>
            ({ r with n := r.n + 1, counts := incr r.counts i, total := r.total + 1,
                      vlist := if r.acc then r.vlist ++ [o.v] else r.vlist }, none)

/-- `Result.create(name, update_type, value, total, accumulate_values)`: documented as
    "creating the object and then calling its update method" (for CHOICE `total` is the number of
    choices and must not be 0) -/
def createRes (name : String) (ty : Ty) (v t : Rat) (acc : Bool) : Except PyErr Res :=
  match ty with
  | .choice =>
    if t = 0 then .error .RuntimeError
    else match choiceNumOf t with
      | .error e => .error e
      | .ok k => match update (fresh name .choice acc k) ⟨v, none⟩ with
        | (r, none) => .ok r
        | (_, some e) => .error e
  | _ => match update (fresh name ty acc 0) ⟨v, some t⟩ with
    | (r, none) => .ok r
    | (_, some e) => .error e

/-- numpy `a += b` on 1-D int arrays (rhs broadcast when it has one element) -/
def addCounts (a b : List Nat) : Option (List Nat) :=
  if a.length = b.length then some (List.zipWith (· + ·) a b)
  else match b with
    | [x] => some (a.map (· + x))
    | _ => none

/-- the assertions of `Result._assert_can_merge` (checked by `merge` before anything changes) -/
def mergeGuard (a b : Res) : Option PyErr :=
  if a.ty ≠ b.ty then some .AssertionError
  else if a.name ≠ b.name then some .AssertionError
  else if a.acc = true ∧ b.acc = false then some .AssertionError
  else if a.ty = .choice ∧ a.counts.length ≠ b.counts.length then some .AssertionError
  else none

/-- `self` after the list extension at the top of `merge` -/
def extendLists (a b : Res) : Res :=
  if a.acc then { a with vlist := a.vlist ++ b.vlist, tlist := a.tlist ++ b.tlist } else a

/-- `Result.merge` when nothing raises and both CHOICE arrays have the same length -/
def mergeCore (a b : Res) : Res :=
  let a1 := extendLists a b
  match a.ty with
  | .misc => { a1 with n := b.n, value := b.value, counts := b.counts, total := b.total,
                       rsum := b.rsum, rsq := b.rsq }
  | _ => { a1 with n := a.n + b.n, value := a.value + b.value,
                   counts := List.zipWith (· + ·) a.counts b.counts, total := a.total + b.total,
                   rsum := a.rsum + b.rsum, rsq := a.rsq + b.rsq }

/-- `Result.merge(other)`: `self` afterwards and the exception raised, if any -/
def merge (a b : Res) : Res × Option PyErr :=
  match mergeGuard a b with
  | some e => (a, some e)
  | none =>
    let a1 := extendLists a b
    match a.ty with
    | .misc => ({ a1 with n := b.n, value := b.value, counts := b.counts, total := b.total,
                          rsum := b.rsum, rsq := b.rsq }, none)
    | _ =>
      let a2 := { a1 with n := a.n + b.n }
      match addCounts a.counts b.counts with
      | none => (a2, some .ValueError)      -- numpy broadcast error after `num_updates +=`
      | some c => ({ a2 with value := a.value + b.value, counts := c, total := a.total + b.total,
                             rsum := a.rsum + b.rsum, rsq := a.rsq + b.rsq }, none)

/-- a script `for o in xs: r.update(*o)` ignoring exceptions (state only) -/
def foldUpd (r : Res) (xs : List Obs) : Res := xs.foldl (fun r o => (update r o).1) r

/-- the same script where the first exception propagates -/
def foldUpdM (r : Res) : List Obs → Except PyErr Res
  | [] => .ok r
  | o :: xs => match update r o with
      | (r', none) => foldUpdM r' xs
      | (_, some e) => .error e

/-- the `update` call does not raise on an object with `r`'s type and array length -/
def validObs (r : Res) (o : Obs) : Prop :=
  match r.ty with
  | .sum => True
  | .misc => True
  | .ratio => ∃ t, o.t = some t ∧ t ≠ 0
  | .choice => o.v.den = 1 ∧ (pyIndex r.counts.length o.v.num).isSome

instance (r : Res) (o : Obs) : Decidable (validObs r o) := by
  unfold validObs
  cases r.ty
  · exact instDecidableTrue
  · cases h : o.t with
    | none => exact isFalse (by rintro ⟨t, ht, _⟩; cases ht)
    | some t =>
      by_cases h0 : t = 0
      · exact isFalse (by rintro ⟨t', ht, hne⟩; cases ht; exact hne h0)
      · exact isTrue ⟨t, rfl, h0⟩
  · exact instDecidableTrue
  · exact instDecidableAnd

/-! ### observers -/

/-- value returned by `get_result` -/
inductive GetOut
  | nothing                 -- the string "Nothing yet"
  | num (q : Rat)
  | arr (l : List Rat)
  deriving DecidableEq, Repr

/-- `Result.get_result()` (for CHOICE with `_total = 0` numpy yields non-finite entries and a
    warning — unless the array is empty — reported here as `ZeroDivisionError`; the harness
    canonicalises accordingly) -/
def getResult (r : Res) : Except PyErr GetOut :=
  if r.n = 0 then .ok .nothing
  else match r.ty with
    | .ratio => if r.total = 0 then .error .ZeroDivisionError else .ok (.num (r.value / r.total))
    | .choice => if r.total = 0 ∧ r.counts ≠ [] then .error .ZeroDivisionError
                 else .ok (.arr (r.counts.map (fun (c : Nat) => (c : Rat) / r.total)))
    | _ => .ok (.num r.value)

/-- `Result.get_result_mean()` -/
def getMean (r : Res) : Except PyErr Rat :=
  if r.n = 0 then .error .ZeroDivisionError else .ok (r.rsum / (r.n : Rat))

/-- `Result.get_result_var()` -/
def getVar (r : Res) : Except PyErr Rat :=
  if r.n = 0 then .error .ZeroDivisionError
  else .ok (r.rsq / (r.n : Rat) - (r.rsum / (r.n : Rat)) * (r.rsum / (r.n : Rat)))

/-- `Result.__eq__` (ignores `num_updates`).  Comparing a non-CHOICE object with a CHOICE one
    evaluates `number != array` in a boolean context: `ValueError` unless the array has one element. -/
def eqPy (a b : Res) : Except PyErr Bool :=
  if a.ty ≠ .choice ∧ b.ty = .choice ∧ b.counts.length ≠ 1 then .error .ValueError
  else .ok (a.name == b.name && decide (a.ty = b.ty) && decide (a.total = b.total) && a.acc == b.acc
    && decide (a.vlist = b.vlist) && decide (a.tlist = b.tlist) && decide (a.rsq = b.rsq)
    && decide (a.rsum = b.rsum)
    && (if a.ty = .choice then decide (a.counts = b.counts) else decide (a.value = b.value)))

/-! ### merge trees: "split the sequence over several objects, merge in any grouping" -/

inductive MTree (α : Type) where
  | leaf : α → MTree α
  | node : MTree α → MTree α → MTree α
  deriving Repr

/-- the observation sequence a tree of chunks stands for -/
def MTree.flatten : MTree (List Obs) → List Obs
  | .leaf xs => xs
  | .node l r => l.flatten ++ r.flatten

def MTree.leaves {α} : MTree α → List α
  | .leaf x => [x]
  | .node l r => l.leaves ++ r.leaves

def MTree.map {α β} (f : α → β) : MTree α → MTree β
  | .leaf x => .leaf (f x)
  | .node l r => .node (l.map f) (r.map f)

/-- `a.merge(b)` as a value; an exception propagates -/
def mergeM (a b : Res) : Except PyErr Res :=
  match merge a b with
  | (c, none) => .ok c
  | (_, some e) => .error e

/-- merge a tree of already computed results -/
def evalRes : MTree Res → Except PyErr Res
  | .leaf r => .ok r
  | .node l r => do
      let a ← evalRes l
      let b ← evalRes r
      mergeM a b

/-- every chunk is accumulated into its own new object (same constructor
    arguments `f`), then the objects are merged following the tree -/
def evalTree (f : Res) : MTree (List Obs) → Except PyErr Res
  | .leaf xs => foldUpdM f xs
  | .node l r => do
      let a ← evalTree f l
      let b ← evalTree f r
      mergeM a b

end PyPhysim.C06M
