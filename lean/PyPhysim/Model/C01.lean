/-
C01 — model of `Modulator.modulate/demodulate`, `BPSK`, and of the natural
constellations of `PSK` / `QAM` (fundamental.py).  Core Lean only; polymorphic
in the scalar so that the same text is proved over ordered fields / ℝ and run at
`Float` / `Int` in the driver.
-/
import PyPhysim.Model.Proto
import PyPhysim.Model.Gray
namespace PyPhysim.C01
open PyPhysim.Proto

section
variable {α : Type} [Add α] [Sub α] [Mul α] [LT α] [DecidableLT α]

/-- squared Euclidean distance in the complex plane (points are `(re, im)`) -/
def dist2 (a b : α × α) : α :=
  (a.1 - b.1) * (a.1 - b.1) + (a.2 - b.2) * (a.2 - b.2)

/-- scan of `np.argmin`: `b` is the best value so far, found at `bi`; `i` is the index of the head -/
def argminAux : List α → Nat → α → Nat → Nat
  | [], _, _, bi => bi
  | x :: xs, i, b, bi => if x < b then argminAux xs (i+1) x i else argminAux xs (i+1) b bi

/-- index of the first minimal element (`np.argmin`; `0` on the empty list, which the code never builds) -/
def argminIdx : List α → Nat
  | [] => 0
  | x :: xs => argminAux xs 1 x 0

/-- `Modulator.demodulate` for one sample: nearest constellation point.
    (The code minimises `np.abs(c - r)`, the square root of `dist2`; the square
    root is monotone so the minimiser is the same over the reals.) -/
def demod (c : List (α × α)) (r : α × α) : Nat := argminIdx (c.map (dist2 r))

/-- `Modulator.modulate` for one index: table lookup, `IndexError → ValueError` -/
def modulate (c : List (α × α)) (i : Nat) : Except PyErr (α × α) :=
  match c[i]? with
  | some p => .ok p
  | none => .error .ValueError

/-- arrays are a shape and the row-major data; `flatten`/`reshape` keep the data -/
def demodArray (c : List (α × α)) (shape : List Nat) (data : List (α × α)) : List Nat × List Nat :=
  (shape, data.map (demod c))

def modulateArray (c : List (α × α)) (shape : List Nat) (data : List Nat) :
    Except PyErr (List Nat × List (α × α)) :=
  (data.mapM (modulate c)).map (fun d => (shape, d))
end

/-! ### BPSK (own modulate / demodulate) -/
/-- `1 - 2*b`, rejecting anything above 1 (`np.any(inputData > 1)`) -/
def bpskModulate (bits : List Nat) : Except PyErr (List Int) :=
  if bits.any (· > 1) then .error .ValueError else .ok (bits.map (fun b => 1 - 2 * Int.ofNat b))
/-- `(receivedData < 0).astype(int)` on the real part -/
def bpskDemod {α : Type} [OfNat α 0] [LT α] [DecidableLT α] (re : α) : Nat := if re < 0 then 1 else 0

/-! ### natural (pre-Gray) constellations -/

/-- scalar with the circle functions (ℝ in proofs, `Float` in the driver) -/
class Trig (α : Type) where
  pi : α
  cos : α → α
  sin : α → α
  sqrt : α → α

instance : Trig Float := ⟨3.141592653589793, Float.cos, Float.sin, Float.sqrt⟩

/-- `PSK._createConstellation`: point `k` is `exp(j(2π/M·k + φ))` (the 1e-15 snap to 0 is a
    binary64 artefact outside the model) -/
def pskNaturalPoint {α : Type} [Trig α] [Add α] [Mul α] [Div α] [NatCast α] (M k : Nat) (φ : α) : α × α :=
  let ph := ((2 : Nat) : α) * Trig.pi / (M : α) * (k : α) + φ
  (Trig.cos ph, Trig.sin ph)

def pskNatural {α : Type} [Trig α] [Add α] [Mul α] [Div α] [NatCast α] (M : Nat) (φ : α) : List (α × α) :=
  (List.range M).map (fun k => pskNaturalPoint M k φ)

/-- integer QAM grid of `_createConstellation`: cell `ii*L+jj` is `(-(L-1)+2jj, (L-1)-2ii)` -/
def qamGridPoint (L : Nat) (idx : Nat) : Int × Int :=
  (-((L : Int) - 1) + 2 * ((idx % L : Nat) : Int), ((L : Int) - 1) - 2 * ((idx / L : Nat) : Int))

def qamGrid (L : Nat) : List (Int × Int) := (List.range (L * L)).map (qamGridPoint L)

/-- `QAM._createConstellation`: integer grid divided by `sqrt((M-1)·2/3)` -/
def qamNatural {α : Type} [Trig α] [Mul α] [Div α] [NatCast α] [IntCast α] (L : Nat) : List (α × α) :=
  let e : α := Trig.sqrt ((((L * L - 1 : Nat) : α) * ((2 : Nat) : α)) / ((3 : Nat) : α))
  (qamGrid L).map (fun g => (((g.1 : Int) : α) / e, ((g.2 : Int) : α) / e))

/-- sum of the squared moduli of the unscaled grid -/
def qamGridEnergy (L : Nat) : Int := ((qamGrid L).map (fun p => p.1 * p.1 + p.2 * p.2)).sum

/-- emitted table `natural[idx]`: label `l` is the natural point at `idx l`;
    an out-of-range index raises (numpy fancy indexing) -/
def relabel {β : Type} (natural : List β) : List Nat → Except PyErr (List β)
  | [] => .ok []
  | i :: is =>
    match natural[i]? with
    | none => .error .IndexError
    | some p =>
      match relabel natural is with
      | .error e => .error e
      | .ok ps => .ok (p :: ps)

/-- `isPow2 M` — what the PSK constructor is meant to accept -/
def isPow2 (M : Nat) : Bool := M != 0 && (M &&& (M - 1)) == 0
/-- even power of two ≥ 4 … what the QAM constructor is meant to accept (`M=1` passes the guard too) -/
def isEvenPow2 (M : Nat) : Bool := isPow2 M && (Gray.bitlen M) % 2 == 1

end PyPhysim.C01

/-! ### the modulator object as a state machine (PSK.setPhaseOffset replaces the table) -/
namespace PyPhysim.C01
section
variable {α : Type} [Add α] [Sub α] [Mul α] [LT α] [DecidableLT α]

inductive ModOp (α : Type)
  | setTable (t : List (α × α))      -- `setConstellation` (constructor, `setPhaseOffset`)
  | demodulate (r : α × α)
  | modulate (i : Nat)

inductive ModOut (α : Type)
  | none
  | index (i : Nat)
  | symbol (p : Except PyPhysim.Proto.PyErr (α × α))

/-- the object keeps nothing but the current table: no derived state can go stale -/
def modStep (table : List (α × α)) : ModOp α → List (α × α) × ModOut α
  | .setTable t => (t, .none)
  | .demodulate r => (table, .index (demod table r))
  | .modulate i => (table, .symbol (modulate table i))

/-- run a history, returning the final table and the outputs -/
def modRun (table : List (α × α)) : List (ModOp α) → List (α × α) × List (ModOut α)
  | [] => (table, [])
  | op :: ops =>
    let (t', o) := modStep table op
    let (t'', os) := modRun t' ops
    (t'', o :: os)

/-- the table in force after a history: the last one installed -/
def currentTable (table : List (α × α)) : List (ModOp α) → List (α × α)
  | [] => table
  | .setTable t :: ops => currentTable t ops
  | _ :: ops => currentTable table ops
end
end PyPhysim.C01
