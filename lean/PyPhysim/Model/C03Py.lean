/-
C03 — Python integer / slice semantics used by `TdlChannel.corrupt_data_in_freq_domain`
(core Lean only).  These are the *trusted semantics* of CPython's `//`, `%`,
`len(range(a, b, s))` and `slice.indices(n)`; they are tied to CPython / numpy
by the exhaustive small-scope correspondence of `harness/props/c03.py`
(every `(start, stop, step)` for axis lengths ≤ 16 in the thorough tier).
-/
import PyPhysim.Model.Proto
namespace PyPhysim.C03
open PyPhysim.Proto

/-- `[f 0, …, f (n-1)]` -/
def tab {β : Type} (n : Nat) (f : Nat → β) : List β := (List.range n).map f

/-- Python `a // b` on ints (floor division) -/
def pyFloorDiv (a b : Int) : Int := Int.fdiv a b
/-- Python `a % b` on ints (sign of the divisor) -/
def pyMod (a b : Int) : Int := Int.fmod a b

/-- `len(range(a, b, s))` for `s ≠ 0` — CPython's `get_len_of_range`. -/
def pyRangeLen (a b s : Int) : Int :=
  if 0 < s then (if a < b then (b - a - 1) / s + 1 else 0)
  else if s < 0 then (if b < a then (a - b - 1) / (-s) + 1 else 0)
  else 0

/-- `list(range(a, b, s))` -/
def pyRange (a b s : Int) : List Int := tab (pyRangeLen a b s).toNat (fun k => a + (k : Int) * s)

/-- a Python `slice(start, stop, step)`; `none` is Python's `None` -/
structure PySlice where
  start : Option Int
  stop : Option Int
  step : Option Int
  deriving Repr, DecidableEq

/-- `None` step means 1 -/
def sliceStep (sl : PySlice) : Int := match sl.step with | none => 1 | some s => s

/-- `PySlice_AdjustIndices` for one bound: negative values count from the end, then clamp to
    `[0, n]` (positive step) resp. `[-1, n-1]` (negative step) -/
def clampIdx (step n v : Int) : Int :=
  if v < 0 then max (v + n) (if step < 0 then -1 else 0)
  else min v (if step < 0 then n - 1 else n)

def sliceStart (sl : PySlice) (step n : Int) : Int :=
  match sl.start with
  | none => if step < 0 then n - 1 else 0
  | some v => clampIdx step n v

def sliceStop (sl : PySlice) (step n : Int) : Int :=
  match sl.stop with
  | none => if step < 0 then -1 else n
  | some v => clampIdx step n v

/-- `slice.indices(n)` (CPython `PySlice_Unpack` + `PySlice_AdjustIndices`). -/
def sliceIndices (sl : PySlice) (N : Nat) : Except PyErr (Int × Int × Int) :=
  if sliceStep sl = 0 then .error .ValueError
  else .ok (sliceStart sl (sliceStep sl) N, sliceStop sl (sliceStep sl) N, sliceStep sl)

end PyPhysim.C03
