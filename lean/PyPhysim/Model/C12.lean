import PyPhysim.Model.Proto
/-!
# C12 — model of `pyphysim.comm.waterfilling.doWF`   (core Lean only)

One text, polymorphic over the scalar through core classes: instantiated at a
linear ordered field / `ℝ` in `Proofs/C12*.lean`, at `Rat` in `Drivers/C12`.

How the model follows the code (`waterfilling.py:41-90`):

* `np.argsort(vtChannels)` is an *external kernel*: the model takes its result
  as the list `asc` of `(gain, original index)` pairs in ascending gain order
  (`SortContract` in `Proofs/C12.lean`: a permutation of `g.zipIdx`, gains
  non-decreasing).  The code works on the reversed view (`[::-1]`, best channel
  first) and removes channels from its *end*; the model removes them from the
  *head* of `asc` (worst channel first).  `argsortAsc` is one concrete sort
  satisfying the contract (used by the driver); the theorems hold for every
  `asc` satisfying it, so tie order does not matter.
* `level N Es x = float(noiseVar) / (Es * g)`.
* `excess N Es w kept` is the array `Ps = minMu - noiseVar/(Es*g)` over the
  channels still in use, `w` being the worst of them (`minMu = level w`).
* `dropLoop` is the `while (sum(Ps) > dPt) and (dRemoveChannels < dNChannels)`
  loop: the empty list is the `dRemoveChannels == dNChannels` exit.
* `scatter` is `vtOptP = zeros(n); vtOptP[idx[:k]] = vtOptPaux`.
* `mu = vtOptPaux[0] + noiseVar/(Es*g_best)` (the best channel is the *last*
  element of the kept list).
* `Op`, `runOps`, `callArgs`, `bufAfter` (R16): the *caller's* side of a history on one argument
  buffer that is refilled in place between calls; the driver line `hist` runs `runOpsRat`.
* Python exceptions: an empty gain vector (`vtChannelsSorted[-1]`) and a loop
  that removed every channel (`vtOptPaux[0]` on an empty array) are
  `IndexError`.
-/
namespace PyPhysim.C12
open PyPhysim.Proto

variable {α : Type} [Add α] [Sub α] [Mul α] [Div α] [Zero α] [NatCast α] [LT α] [DecidableLT α]

/-- a channel as the sorted arrays hold it: (power gain, original index) -/
abbrev Chan (α : Type) := α × Nat

/-- `float(noiseVar) / (Es * g)`: the water level at which channel `x` starts to get power -/
def level (N Es : α) (x : Chan α) : α := N / (Es * x.1)

/-- `Ps = minMu - noiseVar/(Es*g[kept])` with `minMu = level w` -/
def excess (N Es : α) (w : Chan α) (kept : List (Chan α)) : List α :=
  kept.map (fun x => level N Es w - level N Es x)

/-- the `while` loop, on the channels in ascending-gain order (worst first):
    remove the worst channel as long as touching its level costs more than `P` -/
def dropLoop (N Es P : α) : List (Chan α) → List (Chan α)
  | [] => []
  | w :: rest =>
    if P < (excess N Es w (w :: rest)).sum then dropLoop N Es P rest else w :: rest

/-- entry `j` of `vtOptP = np.zeros(n); vtOptP[idx] = vals` (index list without repetitions) -/
def scatterAt (asg : List (Nat × α)) (j : Nat) : α :=
  match asg.lookup j with | some v => v | none => 0

def scatter (n : Nat) (asg : List (Nat × α)) : List α := (List.range n).map (scatterAt asg)

/-- the code after the sort, for a given `argsort` result `asc` (ascending gain) -/
def doWFWith (asc : List (Chan α)) (n : Nat) (P N Es : α) : Except PyErr (List α × α) :=
  match asc with
  | [] => .error .IndexError                       -- vtChannelsSorted[-1] on an empty array
  | _ :: _ =>
    match dropLoop N Es P asc with
    | [] => .error .IndexError                     -- every channel removed: vtOptPaux[0]
    | w :: rest =>
      let kept := w :: rest
      let Ps := excess N Es w kept
      let dPdiff := P - Ps.sum
      let aux := Ps.map (fun x => dPdiff / ((kept.length : Nat) : α) + x)
      let p := scatter n (List.zip (kept.map (·.2)) aux)
      match kept.getLast?, aux.getLast? with
      | some best, some aux0 => .ok (p, aux0 + N / (Es * best.1))
      | _, _ => .error .IndexError

/-- one concrete `argsort` (stable merge sort by gain), used by the driver -/
def argsortAsc (g : List α) : List (Chan α) :=
  g.zipIdx.mergeSort (fun x y => !(decide (y.1 < x.1)))

/-- `doWF(vtChannels, dPt, noiseVar, Es)` -/
def doWF (g : List α) (P N Es : α) : Except PyErr (List α × α) :=
  doWFWith (argsortAsc g) g.length P N Es

/-- the instance the compiled driver runs: exact rational arithmetic with core Lean's `Rat`
    operations (elaborated here, in a Mathlib-free file; `Properties/C12.lean` proves it is
    the `ℚ` instance of the polymorphic text the theorems are about) -/
def doWFRat (g : List Rat) (P N Es : Rat) : Except PyErr (List Rat × Rat) := doWF g P N Es

/-- the Python call `doWF(vtChannels, dPt[, noiseVar][, Es])` (R8): an argument that is left
    out — positionally or by keyword — takes its default value `1.0`; `none` = left out -/
def doWFCall (g : List α) (P : α) (N Es : Option α) : Except PyErr (List α × α) :=
  doWF g P (match N with | some x => x | none => ((1 : Nat) : α))
           (match Es with | some x => x | none => ((1 : Nat) : α))

/-- `doWFCall` at the driver's instances -/
def doWFCallRat (g : List Rat) (P : Rat) (N Es : Option Rat) : Except PyErr (List Rat × Rat) :=
  doWFCall g P N Es

/-! ### R16: a caller that keeps ONE argument buffer and refills it in place

The caller's side of `buf[...] = new; doWF(buf, P, N, Es)` repeated on one array object.
`doWF` has no state and keeps no reference to its argument, so the model of such a history
is: every call is `doWF` of the contents the buffer has *at that moment*. -/

/-- what the caller does between / at calls -/
inductive Op (α : Type) where
  /-- `buf[...] = new` (also: a view of another length of the same base array) -/
  | refill (new : List α)
  /-- `doWF(buf, P, N, Es)` -/
  | call (P N Es : α)

/-- contents of the buffer after the operations -/
def bufAfter (buf : List α) : List (Op α) → List α
  | [] => buf
  | .refill new :: rest => bufAfter new rest
  | .call _ _ _ :: rest => bufAfter buf rest

/-- the argument values of every call, in call order: the buffer's contents at call time -/
def callArgs (buf : List α) : List (Op α) → List (List α × α × α × α)
  | [] => []
  | .refill new :: rest => callArgs new rest
  | .call P N Es :: rest => (buf, P, N, Es) :: callArgs buf rest

/-- the results of the calls of a history, in call order -/
def runOps (buf : List α) : List (Op α) → List (Except PyErr (List α × α))
  | [] => []
  | .refill new :: rest => runOps new rest
  | .call P N Es :: rest => doWF buf P N Es :: runOps buf rest

/-- `runOps` at the driver's instance -/
def runOpsRat (buf : List Rat) (ops : List (Op Rat)) : List (Except PyErr (List Rat × Rat)) :=
  runOps buf ops

/-- formula of the returned level before commit `fix: doWF water level` (kept as the
    record of finding C12:doWF:water-level-missing-Es): `vtOptPaux[0] + noiseVar/g_best` -/
def muPreFix (aux0 N : α) (best : Chan α) : α := aux0 + N / best.1

end PyPhysim.C12
