/-
C15, robustness classes R15 / R16 (core Lean only).

* `Psk` — the PSK *object*: order, the phase offset in force, and whether the table is in the Gray
  order of `__init__` or the natural order `setPhaseOffset` installs.  The offset is an opaque value of
  the scalar type: the model never compares, rounds or thresholds it (R15: a setter called with a new
  value takes effect, however close the new value is to the old one).
* `Heap` / `Op` / `run` — the caller's preallocated index buffers and the calls made on them
  (R16: a call reads the contents the buffer has *at call time*, returns a fresh value, leaves the
  buffer alone; the same buffer may be handed over in two roles).
-/
import PyPhysim.Model.Proto
import PyPhysim.Model.Gray
import PyPhysim.Model.C01
import PyPhysim.Generated.Conversion

namespace PyPhysim.C15R
open PyPhysim.Proto PyPhysim.Gray PyPhysim.C01
open PyPhysim.Generated (binary2gray gray2binary count_bits)

/-! ### the PSK object under `setPhaseOffset` histories -/

structure Psk (α : Type) where
  M : Nat
  offset : α
  /-- `true`: table as `__init__` left it (`natural[gray2binary(arange M)]`);
      `false`: as `setPhaseOffset` leaves it (natural order, known finding) -/
  grayOrder : Bool

/-- `PSK(M, φ)` -/
def Psk.init {α : Type} (M : Nat) (φ : α) : Psk α := ⟨M, φ, true⟩

/-- `p.setPhaseOffset(φ)`: unconditional — there is no "unchanged, skip" test in the code -/
def Psk.setOffset {α : Type} (s : Psk α) (φ : α) : Psk α := ⟨s.M, φ, false⟩

/-- natural position emitted for label `l` -/
def Psk.pos {α : Type} (s : Psk α) (l : Nat) : Nat :=
  if s.grayOrder then pskPosInit gray2binary l else pskPosAfterSetOffset l

/-- `p.symbols` -/
def Psk.table {α : Type} [Trig α] [Add α] [Mul α] [Div α] [NatCast α] (s : Psk α) : List (α × α) :=
  (List.range s.M).map (fun l => pskNaturalPoint s.M (s.pos l) s.offset)

/-- a history of `setPhaseOffset` calls -/
def Psk.run {α : Type} (s : Psk α) (φs : List α) : Psk α := φs.foldl Psk.setOffset s

/-! ### index buffers refilled in place between calls -/

/-- the caller's arrays: buffer id ↦ current contents -/
abbrev Heap := Nat → List Nat

inductive Op
  /-- `buf_i[...] = xs` (the caller refills its preallocated array) -/
  | refill (i : Nat) (xs : List Nat)
  | b2g (i : Nat)
  | g2b (i : Nat)
  | cbits (i : Nat)
  | xor (i j : Nat)
  /-- `count_bit_errors(buf_i, buf_j)`; `i = j` is the same array object in both roles -/
  | biterr (i j : Nat)
  deriving Repr

inductive Out
  | none
  | arr (xs : List Nat)
  | num (n : Nat)
  | err (e : PyErr)
  deriving Repr, DecidableEq

def mapE (f : Nat → Except PyErr Nat) : List Nat → Except PyErr (List Nat)
  | [] => .ok []
  | x :: xs =>
    match f x with
    | .error e => .error e
    | .ok y =>
      match mapE f xs with
      | .error e => .error e
      | .ok ys => .ok (y :: ys)

/-- what a call returns, from the contents the buffers have when it is made -/
def result (h : Heap) : Op → Out
  | .refill _ _ => .none
  | .b2g i => .arr ((h i).map binary2gray)
  | .g2b i => .arr ((h i).map gray2binary)
  | .cbits i =>
    match mapE count_bits (h i) with
    | .ok l => .arr l
    | .error e => .err e
  | .xor i j => .arr (List.zipWith Generated.xor (h i) (h j))
  | .biterr i j =>
    match mapE count_bits (List.zipWith Generated.xor (h i) (h j)) with
    | .ok l => .num l.sum
    | .error e => .err e

/-- effect of one operation on the caller's buffers: only a refill writes -/
def write (h : Heap) : Op → Heap
  | .refill i xs => fun k => if k = i then xs else h k
  | _ => h

def step (h : Heap) (op : Op) : Heap × Out := (write h op, result h op)

/-- buffers after the history, and the value every operation returned -/
def run : Heap → List Op → Heap × List Out
  | h, [] => (h, [])
  | h, op :: ops =>
    let r := run (write h op) ops
    (r.1, result h op :: r.2)

/-- the refills of a history (what the caller wrote), calls dropped -/
def refillsOnly (ops : List Op) : List Op :=
  ops.filter (fun op => match op with | .refill _ _ => true | _ => false)

def emptyHeap : Heap := fun _ => []

end PyPhysim.C15R
