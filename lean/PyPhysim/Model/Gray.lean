/-
Hand-written normal forms and label maps for C15 (core Lean only).
The conversions themselves are *generated* from the source
(`PyPhysim.Generated.Conversion`); `Proofs/Gray.lean` shows the generated
definitions equal these normal forms.
-/
namespace PyPhysim.Gray

def b2g (n : Nat) : Nat := (n >>> 1) ^^^ n
def f (s x : Nat) : Nat := x ^^^ (x >>> s)
/-- "xor with own right shift" applied for each shift of the list, in order -/
def g2bWith (shifts : List Nat) (n : Nat) : Nat := shifts.foldl (fun t s => f s t) n

/-- descending powers of two `[2^(m-1), …, 2, 1]` -/
def descPows : Nat → List Nat
  | 0 => []
  | m+1 => 2^m :: descPows m

/-- number of set bits -/
def popcount (n : Nat) : Nat :=
  if h : n = 0 then 0 else n % 2 + popcount (n / 2)
decreasing_by omega

/-- Hamming distance of two labels -/
def hamming (a b : Nat) : Nat := popcount (a ^^^ b)

/-- number of binary digits (`0 ↦ 0`) -/
def bitlen (n : Nat) : Nat :=
  if h : n = 0 then 0 else bitlen (n / 2) + 1
decreasing_by omega

/-- xor of the bits `i, i+s, …, i+(k-1)s` of `x` -/
def strideXor (x s : Nat) : Nat → Nat → Bool
  | 0, _ => false
  | k+1, i => (x.testBit i) ^^ strideXor x s k (i + s)

/-! ### Label maps of the constellations (model of `fundamental.py`)

`symbols = natural[idx]` means *label* `ℓ` is emitted at natural position `idx[ℓ]`. -/

/-- `PSK.__init__`: `symbols = natural[gray2binary(arange M)]` -/
def pskPosInit (g2b : Nat → Nat) (l : Nat) : Nat := g2b l
/-- `PSK.setPhaseOffset` as written: the natural order is installed unchanged -/
def pskPosAfterSetOffset (l : Nat) : Nat := l

/-- `QAM._calculateGrayMappingIndexQAM`: entry `r*L+c` is `(gray r <<< k) + gray c`
    where `conv` is the conversion the code applies to `arange L` and
    `k = level2bits(L^2) / 2`. Grid index `ii*L+jj` is row `ii`, column `jj`. -/
def qamPos (conv : Nat → Nat) (k L l : Nat) : Nat := ((conv (l / L)) <<< k) + conv (l % L)

/-- Manhattan-adjacent cells of an `L×L` row-major grid -/
def gridAdjacent (L p q : Nat) : Bool :=
  (p / L == q / L && (p % L + 1 == q % L || q % L + 1 == p % L)) ||
  (p % L == q % L && (p / L + 1 == q / L || q / L + 1 == p / L))

/-- cyclically adjacent positions on an `M`-point circle -/
def ringAdjacent (M p q : Nat) : Bool := (p + 1) % M == q || (q + 1) % M == p

end PyPhysim.Gray
