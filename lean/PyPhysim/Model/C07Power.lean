import PyPhysim.Model.C07

/-!
C07 — one level below `os.replace`: what a POWER LOSS leaves (core Lean only, executable).

`Model/C07.lean` stops at the process: a crash there keeps every byte the process
handed to a file object.  Here each file has three layers,

* `buf`     — written to the Python file object, still in its buffer;
* `os`      — handed to the operating system (what another process, or a restart after a
               process kill, reads; `none` = zero length);
* `durable` — what survives a power loss: the content the operating system had at the last
               `fsync` of that file,

and the same file-system steps (`SlotOp`) act on them: `tmpWrite` fills the buffer,
`tmpFlush` / `tmpClose` hand the buffer to the OS, `tmpFsync` makes the OS content durable,
`rename` moves the temp file — with all its layers — under the results name (the rename
itself persists), `syncMain` is an `fsync` of the file under the results name (it occurs
only in a re-ordered protocol).  A power loss cuts every file to its durable part.
Trusted below this: the operating system honouring `fsync` and the atomicity and
persistence of `rename`.
-/
namespace PyPhysim.C07

variable {R T C : Type}

structure PFile (C : Type) where
  buf : Option C
  os : Option C
  durable : Option C
  deriving Repr

/-- the file under the results name and the temp file next to it (`none` = no such file) -/
structure PSlot (C : Type) where
  main : Option (PFile C)
  tmp : Option (PFile C)
  deriving Repr

/-- hand the buffer to the operating system -/
def PFile.flush (f : PFile C) : PFile C :=
  match f.buf with
  | some c => ⟨none, some c, f.durable⟩
  | none => f

/-- `fsync`: what the operating system has is now durable (the buffer is NOT included) -/
def PFile.fsync (f : PFile C) : PFile C := ⟨f.buf, f.os, f.os⟩

def PFile.powerLoss (f : PFile C) : PFile C := ⟨none, f.durable, f.durable⟩

def PSlot.apply (s : PSlot C) : SlotOp C → PSlot C
  | .trunc => ⟨some ⟨none, none, none⟩, s.tmp⟩
  | .write c => ⟨some ⟨none, some c, none⟩, s.tmp⟩
  | .tmpOpen => ⟨s.main, some ⟨none, none, none⟩⟩
  | .tmpWrite c => ⟨s.main, s.tmp.map (fun f => ⟨some c, f.os, f.durable⟩)⟩
  | .tmpFlush => ⟨s.main, s.tmp.map PFile.flush⟩
  | .tmpFsync => ⟨s.main, s.tmp.map PFile.fsync⟩
  | .tmpClose => ⟨s.main, s.tmp.map PFile.flush⟩
  | .rename _ =>
    match s.tmp with
    | some f => ⟨some f, none⟩
    | none => s
  | .syncMain => ⟨s.main.map PFile.fsync, s.tmp⟩

def PSlot.applyAll (s : PSlot C) (ops : List (SlotOp C)) : PSlot C := ops.foldl PSlot.apply s

/-- the power goes: every file keeps its durable part only -/
def PSlot.powerLoss (s : PSlot C) : PSlot C := ⟨s.main.map PFile.powerLoss, s.tmp.map PFile.powerLoss⟩

/-- what a process sees: a zero-length (or cut) results file cannot be loaded -/
def PSlot.view (s : PSlot C) : Slot C :=
  ⟨match s.main with
    | none => .absent
    | some f => (match f.os with | some c => .valid c | none => .torn),
   s.tmp.isSome⟩

/-- the results file is missing or complete AND durable -/
def PSlot.Sound (s : PSlot C) : Prop :=
  match s.main with
  | none => True
  | some f => f.buf = none ∧ ∃ c, f.os = some c ∧ f.durable = some c

structure PDisk (R T : Type) where
  part : Nat → PSlot (Part R T)
  fin : PSlot (Full R)

def PDisk.empty : PDisk R T := ⟨fun _ => ⟨none, none⟩, ⟨none, none⟩⟩

def PDisk.apply (d : PDisk R T) : Ev R T → PDisk R T
  | .call _ => d
  | .part i op => ⟨fun j => if j = i then (d.part i).apply op else d.part j, d.fin⟩
  | .fin op => ⟨d.part, d.fin.apply op⟩

def PDisk.applyAll (d : PDisk R T) (t : List (Ev R T)) : PDisk R T := t.foldl PDisk.apply d

def PDisk.powerLoss (d : PDisk R T) : PDisk R T := ⟨fun j => (d.part j).powerLoss, d.fin.powerLoss⟩

/-- the disk as the process-level model sees it -/
def PDisk.view (d : PDisk R T) : Disk R T := ⟨fun j => (d.part j).view, d.fin.view⟩

def PDisk.Sound (d : PDisk R T) : Prop := (∀ i, (d.part i).Sound) ∧ d.fin.Sound

/-- the disk after a power loss at crash point `k` of a run with trace `trace` -/
def powerLossDisk (d : PDisk R T) (trace : List (Ev R T)) (k : Nat) : PDisk R T :=
  (d.applyAll (trace.take k)).powerLoss

end PyPhysim.C07
