/-
C03 — executable model of the tapped-delay-line channels (core Lean only):
`TdlChannel.{generate_impulse_response, corrupt_data, corrupt_data_in_freq_domain}`,
`TdlImpulseResponse.{tap_values, __mul__, concatenate_samples}` (fading.py),
`SuChannel` (singleuser.py) and `MuChannel`/`MuMimoChannel` (multiuser.py).

Scalars: any type with `0`, `+`, `*` (theorems: commutative semiring; driver:
Gaussian rationals, exact).  What is a *parameter* of the model, not modelled code:

* `proc link pos tap rx tx` — the value the fading generator of link `link`
  produces at absolute sample position `pos` (Jakes: a function of time; Rayleigh:
  the scripted draw).  Theorems hold for every `proc`.
* the tap amplitude `√power` (numpy `sqrt` after the dB round trip) — a scalar per tap.
* `√pathloss` (`math.sqrt`) — the scalar stored in `Su.pl`.
* `fftK v N k` — entry `k` of `np.fft.fft(v, N)` (kernel; `k < N` by type of use).

numpy arrays are lists (rows = antennas) resp. functions with explicit sizes;
a Python exception ends the modelled history (`Except PyErr`).
-/
import PyPhysim.Model.C03Py
import PyPhysim.Generated.Slice
namespace PyPhysim.C03
open PyPhysim.Proto

variable {α : Type} [Zero α] [Add α] [Mul α]

def zeros (n : Nat) : List α := List.replicate n 0

/-- numpy `out[d : d + v.length] += v` (slice inside `out`) -/
def addAt : List α → Nat → List α → List α
  | [], _, _ => []
  | o :: os, 0, [] => o :: os
  | o :: os, 0, v :: vs => (o + v) :: addAt os 0 vs
  | o :: os, d+1, v => o :: addAt os d v

/-- `h * x` for a tap `h` given as a function of the sample index -/
def mulF (h : Nat → α) (x : List α) : List α := x.mapIdx (fun k xv => h k * xv)

/-- `signal.shape[-1]` -/
def numSymbols (x : List (List α)) : Nat := match x with | [] => 0 | r :: _ => r.length

/-! ## Impulse responses -/

/-- `TdlImpulseResponse`: `n` samples of every sparse tap; `vals[i] rx tx k`.
    (SISO responses use `rx = tx = 0`.) -/
structure IR (α : Type) where
  n : Nat
  delays : List Nat
  vals : List (Nat → Nat → Nat → α)

/-- the fading process: link, absolute position, tap, rx, tx -/
abbrev Proc (α : Type) := Nat → Nat → Nat → Nat → Nat → α

/-- `value * impulse_response` (`TdlImpulseResponse.__mul__/__rmul__`) -/
def IR.scale (s : α) (ir : IR α) : IR α :=
  { ir with vals := ir.vals.map (fun h r t k => s * h r t k) }

/-- sample `k` of the concatenation of the responses (`np.concatenate(..., axis=-1)`) -/
def concatVal (i : Nat) : List (IR α) → Nat → Nat → Nat → α
  | [], _, _, _ => 0
  | ir :: rest, r, t, k =>
      if k < ir.n then (match ir.vals[i]? with | some h => h r t k | none => 0)
      else concatVal i rest r t (k - ir.n)

/-- `TdlImpulseResponse.concatenate_samples` (all operands share the profile) -/
def concatIR (irs : List (IR α)) : Except PyErr (IR α) :=
  match irs with
  | [] => .error .ValueError
  | [ir] => .ok ir
  | ir :: rest =>
      .ok { n := (ir :: rest).foldl (fun s j => s + j.n) 0, delays := ir.delays,
            vals := tab ir.vals.length (fun i => concatVal i (ir :: rest)) }

/-- `TdlImpulseResponse.tap_values` for one antenna pair and sample: zeros of
    length `last delay + 1`, then `dense[delays] = sparse`. -/
def dense (delays : List Nat) (v : List α) : List α :=
  match delays.getLast? with
  | none => []
  | some last => (delays.zip v).foldl (fun acc dv => acc.set dv.1 dv.2) (zeros (last + 1))

def IR.denseAt (ir : IR α) (r t k : Nat) : List α := dense ir.delays (ir.vals.map (fun h => h r t k))

/-! ## `TdlChannel` -/

structure Tdl (α : Type) where
  /-- discretised profile: (delay, amplitude = √power) -/
  taps : List (Nat × α)
  /-- `none` = SISO (generator shape has one dimension), `some (nr, nt)` = MIMO -/
  ant : Option (Nat × Nat)
  /-- Jakes (`skip` advances the time) or Rayleigh (`skip` does nothing) -/
  jakes : Bool
  link : Nat
  switched : Bool
  /-- samples consumed so far from the fading generator -/
  pos : Nat
  last : Option (IR α)

def Tdl.delays (c : Tdl α) : List Nat := c.taps.map (·.1)

/-- `generate_impulse_response(n)`: samples at positions `pos … pos+n-1`, times √power -/
def genIR (proc : Proc α) (c : Tdl α) (pos n : Nat) : IR α :=
  { n := n, delays := c.delays,
    vals := c.taps.zipIdx.map (fun ta => fun r t k => proc c.link (pos + k) ta.2 r t * ta.1.2) }

/-- `num_taps_with_padding - 1` -/
def Tdl.mem (c : Tdl α) : Except PyErr Nat :=
  match c.taps.getLast? with | some da => .ok da.1 | none => .error .IndexError

/-- SISO branch of `corrupt_data` -/
def corruptSiso (delays : List Nat) (vals : List (Nat → Nat → Nat → α)) (mem : Nat) (x : List α) : List α :=
  (delays.zip vals).foldl (fun out dh => addAt out dh.1 (mulF (dh.2 0 0) x)) (zeros (x.length + mem))

/-- `output[:, d:d+n] += H * xr` with `H[j, k] = h j k` -/
def accRows (out : List (List α)) (d : Nat) (h : Nat → Nat → α) (xr : List α) : List (List α) :=
  out.mapIdx (fun j row => addAt row d (mulF (h j) xr))

/-- coefficient from input antenna `a` to output antenna `j`:
    `tap[j, a]` in the original direction, `tap[a, j]` when switched -/
def orient (sw : Bool) (h : Nat → Nat → Nat → α) : Nat → Nat → Nat → α :=
  fun j a k => if sw then h a j k else h j a k

/-- MIMO branches of `corrupt_data` (`nOut × nIn` = `nr × nt`, or `nt × nr` when switched) -/
def corruptMimo (sw : Bool) (delays : List Nat) (vals : List (Nat → Nat → Nat → α))
    (nOut nIn mem n : Nat) (x : List (List α)) : List (List α) :=
  (delays.zip vals).foldl (fun out dh =>
      (x.take nIn).zipIdx.foldl (fun out xa => accRows out dh.1 (fun j k => orient sw dh.2 j xa.2 k) xa.1) out)
    (List.replicate nOut (zeros (n + mem)))

/-- output / input antenna counts of the MIMO paths -/
def Tdl.dims (c : Tdl α) (nr nt : Nat) : Nat × Nat := if c.switched then (nt, nr) else (nr, nt)

/-- the signal has one row per transmitting antenna (SISO: the single 1-D row); checked
    before anything is generated, so a rejected signal leaves the object untouched -/
def Tdl.signalOk (c : Tdl α) (x : List (List α)) : Bool :=
  match c.ant with
  | none => x.length == 1
  | some (nr, nt) => x.length == (c.dims nr nt).2

/-- `TdlChannel.corrupt_data`. SISO signals are the single row `[v]`. -/
def Tdl.corrupt (proc : Proc α) (c : Tdl α) (x : List (List α)) : Except PyErr (Tdl α × List (List α)) := do
  let n := numSymbols x
  if !(c.signalOk x) then throw .ValueError
  let ir := genIR proc c c.pos n
  let c' := { c with pos := c.pos + n, last := some ir }
  let mem ← c.mem
  match c.ant with
  | none =>
    match x with
    | [v] => pure (c', [corruptSiso ir.delays ir.vals mem v])
    | _ => throw .ValueError
  | some (nr, nt) =>
    let (nOut, nIn) := c.dims nr nt
    if x.length ≠ nIn then throw .ValueError
    else pure (c', corruptMimo c.switched ir.delays ir.vals nOut nIn mem n x)

/-! ## Frequency domain -/

/-- the three kinds of `carrier_indexes` -/
inductive Sel
  | all
  | idx (l : List Int)
  | slice (s : PySlice)
  deriving Repr

/-- `block_size` as the source computes it (expressions regenerated from the source) -/
def blockSize (sel : Sel) (fft : Nat) : Except PyErr Int :=
  match sel with
  | .all => .ok (Generated.blockSizeAll fft)
  | .idx l => .ok (Generated.blockSizeIdx fft l.length)
  | .slice s => do
      let (a, b, c) ← sliceIndices s fft
      pure (Generated.blockSizeSlice fft a b c)

/-- positions selected by numpy on an axis of length `N`:
    `H[:]`, `H[index array]` (negative indexes wrap, out of range = IndexError), `H[slice]` -/
def selPos (sel : Sel) (N : Nat) : Except PyErr (List Nat) :=
  match sel with
  | .all => .ok (List.range N)
  | .idx l => l.mapM (fun (i : Int) =>
      let j : Int := if i < 0 then i + (N : Int) else i
      if 0 ≤ j ∧ j < (N : Int) then .ok j.toNat else .error .IndexError)
  | .slice s => do
      let (a, b, c) ← sliceIndices s N
      (pyRange a b c).mapM (fun (j : Int) => if 0 ≤ j ∧ j < (N : Int) then .ok j.toNat else .error .IndexError)

/-- everything `corrupt_data_in_freq_domain` decides before touching the signal:
    selected positions, block size, number of blocks.  The errors are the ones
    the source raises, in its order (zero slice step, bad index — validated before any fading
    sample is consumed —, `% 0`, length check, empty `concatenate_samples`, shape mismatch of
    `freq_response * signal[block]`). -/
def freqPlan (sel : Sel) (fft n : Nat) : Except PyErr (List Nat × Nat × Nat) := do
  if fft = 0 then throw .ValueError
  let B ← blockSize sel fft
  let ps ← selPos sel fft
  if B = 0 then throw .ZeroDivisionError
  if pyMod n B ≠ 0 then throw .ValueError
  let nb := pyFloorDiv n B
  if nb ≤ 0 then throw .ValueError
  if (ps.length : Int) ≠ B then throw .ValueError
  pure (ps, B.toNat, nb.toNat)

/-- position of the fading generator after one block -/
def nextBlockPos (jakes : Bool) (fft pos : Nat) : Nat :=
  let p := pos + (Generated.samplesPerBlock fft).toNat
  if jakes then ((p : Int) + Generated.skipPerBlock fft).toNat else p

/-- the impulse responses generated for `nb` consecutive blocks, starting at `pos` -/
def blockIRs (proc : Proc α) (c : Tdl α) (fft : Nat) : Nat → Nat → List (IR α)
  | 0, _ => []
  | nb+1, pos => genIR proc c pos (Generated.samplesPerBlock fft).toNat
                  :: blockIRs proc c fft nb (nextBlockPos c.jakes fft pos)

def blockEndPos (jakes : Bool) (fft : Nat) : Nat → Nat → Nat
  | 0, pos => pos
  | nb+1, pos => blockEndPos jakes fft nb (nextBlockPos jakes fft pos)

/-- FFT kernel: input vector, size, frequency index -/
abbrev Fft (α : Type) := List α → Nat → Nat → α

/-- selected frequency response of antenna pair `(r,t)`, sample 0 of `ir` -/
def hSel (fftK : Fft α) (ir : IR α) (fft : Nat) (ps : List Nat) (r t : Nat) : List α :=
  ps.map (fftK (ir.denseAt r t 0) fft)

/-- `x[b*B : (b+1)*B]` -/
def blk (x : List α) (B b : Nat) : List α := (x.drop (b * B)).take B

/-- SISO: `output[block] = freq_response * signal[block]` for all blocks -/
def freqSiso (fftK : Fft α) (irs : List (IR α)) (fft : Nat) (ps : List Nat) (B : Nat) (x : List α) : List α :=
  irs.zipIdx.flatMap (fun ib => List.zipWith (· * ·) (hSel fftK ib.1 fft ps 0 0) (blk x B ib.2))

/-- one output row of one block: zeros, then `+= H[:, j, a] * signal[a, block]` for every input antenna -/
def freqRowBlock (fftK : Fft α) (sw : Bool) (ir : IR α) (fft : Nat) (ps : List Nat) (B b nIn j : Nat)
    (x : List (List α)) : List α :=
  (x.take nIn).zipIdx.foldl
    (fun acc xa => List.zipWith (· + ·) acc
        (List.zipWith (· * ·) (if sw then hSel fftK ir fft ps xa.2 j else hSel fftK ir fft ps j xa.2) (blk xa.1 B b)))
    (zeros B)

/-- MIMO: the returned `output.T` (rows = output antennas) -/
def freqMimo (fftK : Fft α) (sw : Bool) (irs : List (IR α)) (fft : Nat) (ps : List Nat) (B nOut nIn : Nat)
    (x : List (List α)) : List (List α) :=
  tab nOut (fun j => irs.zipIdx.flatMap (fun ib => freqRowBlock fftK sw ib.1 fft ps B ib.2 nIn j x))

/-- `TdlChannel.corrupt_data_in_freq_domain` -/
def Tdl.corruptFreq (proc : Proc α) (fftK : Fft α) (c : Tdl α) (x : List (List α)) (fft : Nat) (sel : Sel) :
    Except PyErr (Tdl α × List (List α)) := do
  let n := numSymbols x
  if !(c.signalOk x) then throw .ValueError
  let (ps, B, nb) ← freqPlan sel fft n
  let irs := blockIRs proc c fft nb c.pos
  let last ← concatIR irs
  let c' := { c with pos := blockEndPos c.jakes fft nb c.pos, last := some last }
  match c.ant with
  | none =>
    match x with
    | [v] => pure (c', [freqSiso fftK irs fft ps B v])
    | _ => throw .ValueError
  | some (nr, nt) =>
    let (nOut, nIn) := c.dims nr nt
    if x.length ≠ nIn then throw .ValueError
    else pure (c', freqMimo fftK c.switched irs fft ps B nOut nIn x)

/-- `get_last_impulse_response` -/
def Tdl.lastIR (c : Tdl α) : Except PyErr (IR α) :=
  match c.last with | some ir => .ok ir | none => .error .RuntimeError

/-! ## `SuChannel`: path loss on the output *and* on the reported response -/

structure Su (α : Type) where
  tdl : Tdl α
  /-- `math.sqrt(pathloss)`, `none` when no path loss is set -/
  pl : Option α

def scaleRows (s : α) (y : List (List α)) : List (List α) := y.map (fun row => row.map (· * s))

def Su.applyPl (c : Su α) (y : List (List α)) : List (List α) :=
  match c.pl with | none => y | some s => scaleRows s y

def Su.corrupt (proc : Proc α) (c : Su α) (x : List (List α)) : Except PyErr (Su α × List (List α)) := do
  let (t', y) ← c.tdl.corrupt proc x
  pure ({ c with tdl := t' }, c.applyPl y)

def Su.corruptFreq (proc : Proc α) (fftK : Fft α) (c : Su α) (x : List (List α)) (fft : Nat) (sel : Sel) :
    Except PyErr (Su α × List (List α)) := do
  let (t', y) ← c.tdl.corruptFreq proc fftK x fft sel
  pure ({ c with tdl := t' }, c.applyPl y)

def Su.lastIR (c : Su α) : Except PyErr (IR α) := do
  let ir ← c.tdl.lastIR
  match c.pl with | none => pure ir | some s => pure (ir.scale s)

/-! ## `MuChannel` / `MuMimoChannel`: one `SuChannel` per (receiver, transmitter) -/

/-- links in row-major order: link `(rx, tx)` is `links[rx * nTx + tx]` -/
structure Mu (α : Type) where
  nRx : Nat
  nTx : Nat
  links : List (Su α)

def addRows (a b : List (List α)) : List (List α) := List.zipWith (List.zipWith (· + ·)) a b

/-- `outputs[rx] = first; outputs[rx] += next …` -/
def sumOutputs (ys : List (List (List α))) : Except PyErr (List (List α)) :=
  match ys with | [] => .error .IndexError | y :: rest => .ok (rest.foldl addRows y)

def Mu.switched (c : Mu α) : Except PyErr Bool :=
  match c.links with | [] => .error .IndexError | l :: _ => .ok l.tdl.switched

/-- transmit every link once with the signal of its transmitter
    (`x[tx]`, or `x[rx]` in the switched direction), then superpose per receiver -/
def Mu.transmit (c : Mu α) (x : List (List (List α)))
    (send : Su α → List (List α) → Except PyErr (Su α × List (List α))) :
    Except PyErr (Mu α × List (List (List α))) := do
  let sw ← c.switched
  if c.nTx = 0 then throw .IndexError
  -- one signal per source, checked before any link transmits
  if x.length ≠ (if sw then c.nRx else c.nTx) then throw .ValueError
  let res ← c.links.zipIdx.mapM (fun li =>
      let src := if sw then li.2 / c.nTx else li.2 % c.nTx
      match x[src]? with
      | none => throw .IndexError
      | some s => send li.1 s)
  let ys := res.map (·.2)
  let outs ← if sw
    then (List.range c.nTx).mapM (fun j => sumOutputs ((List.range c.nRx).filterMap (fun r => ys[r * c.nTx + j]?)))
    else (List.range c.nRx).mapM (fun j => sumOutputs ((List.range c.nTx).filterMap (fun t => ys[j * c.nTx + t]?)))
  pure ({ c with links := res.map (·.1) }, outs)

def Mu.corrupt (proc : Proc α) (c : Mu α) (x : List (List (List α))) :=
  c.transmit x (fun su s => su.corrupt proc s)

def Mu.corruptFreq (proc : Proc α) (fftK : Fft α) (c : Mu α) (x : List (List (List α))) (fft : Nat) (sel : Sel) :=
  c.transmit x (fun su s => su.corruptFreq proc fftK s fft sel)

def Mu.lastIR (c : Mu α) (rx tx : Nat) : Except PyErr (IR α) :=
  match c.links[rx * c.nTx + tx]? with | none => .error .IndexError | some l => l.lastIR

def Mu.setSwitched (c : Mu α) (b : Bool) : Mu α :=
  { c with links := c.links.map (fun l => { l with tdl := { l.tdl with switched := b } }) }

/-- `set_pathloss(matrix)`: entry `(rx, tx)` (given as its square root) for link `(rx, tx)` -/
def Mu.setPathloss (c : Mu α) (s : List (List α)) : Except PyErr (Mu α) := do
  let ls ← c.links.zipIdx.mapM (fun li =>
      match s[li.2 / c.nTx]? with
      | none => throw .IndexError
      | some row => match row[li.2 % c.nTx]? with
        | none => throw .IndexError
        | some v => pure { li.1 with pl := some v })
  pure { c with links := ls }

/-- a fresh `TdlChannel` (the generator constructors draw one sample: `pos = 1`) -/
def Tdl.init (taps : List (Nat × α)) (ant : Option (Nat × Nat)) (jakes : Bool) (link : Nat) : Tdl α :=
  { taps := taps, ant := ant, jakes := jakes, link := link, switched := false, pos := 1, last := none }

def Mu.init (nRx nTx : Nat) (taps : List (Nat × α)) (ant : Option (Nat × Nat)) (jakes : Bool) : Mu α :=
  { nRx := nRx, nTx := nTx,
    links := tab (nRx * nTx) (fun l => { tdl := Tdl.init taps ant jakes l, pl := none }) }

/-! ## operation histories on one object -/

/-- operations on a `SuChannel` (a `TdlChannel` is the same object without `setPathloss`) -/
inductive SuOp (α : Type)
  | tx (x : List (List α))
  | fx (x : List (List α)) (fft : Nat) (sel : Sel)
  | setSwitched (b : Bool)
  | setPathloss (s : Option α)
  | getIR
  /-- `set_num_antennas(nr, nt)`; `none` = `(None, None)` = back to SISO -/
  | setAnt (a : Option (Nat × Nat))
  /-- `TdlChannel.generate_impulse_response(n)` called by the user -/
  | gen (n : Nat)
  /-- a setter call its guard rejects (`set_pathloss` outside `[0, 1]`, a non-bool
      `switched_direction`): the guards compare values the semiring cannot, so the harness
      says which exception the guard raises -/
  | rejected (e : PyErr)
  /-- any non-mutating public call: property reads (`num_taps`, `channel_profile`, `num_tx_antennas`,
      `switched_direction`, …), `__repr__`, and everything done with a response that was handed out
      (`get_freq_response`, `tap_values`, `2 * ir`, `concatenate_samples`, copies, pickles) -/
  | query

inductive SuOut (α : Type)
  | y (rows : List (List α))
  | ir (r : IR α)
  | unit

def Su.step (proc : Proc α) (fftK : Fft α) (c : Su α) : SuOp α → Except PyErr (Su α × SuOut α)
  | .tx x => do let (c', y) ← c.corrupt proc x; pure (c', .y y)
  | .fx x fft sel => do let (c', y) ← c.corruptFreq proc fftK x fft sel; pure (c', .y y)
  | .setSwitched b => pure ({ c with tdl := { c.tdl with switched := b } }, .unit)
  | .setPathloss s => pure ({ c with pl := s }, .unit)
  | .getIR => do let r ← c.lastIR; pure (c, .ir r)
  | .setAnt a => pure ({ c with tdl := { c.tdl with ant := a } }, .unit)
  | .gen n => pure ({ c with tdl := { c.tdl with pos := c.tdl.pos + n, last := some (genIR proc c.tdl c.tdl.pos n) } },
                    .unit)
  | .rejected e => throw e
  | .query => pure (c, .unit)

/-- a call that raises leaves the object exactly as it was (every guard of the modelled
    methods runs before the first state change); the history goes on -/
def Su.stepR (proc : Proc α) (fftK : Fft α) (c : Su α) (op : SuOp α) : Su α × Except PyErr (SuOut α) :=
  match c.step proc fftK op with
  | .ok (c', o) => (c', .ok o)
  | .error e => (c, .error e)

def Su.runR (proc : Proc α) (fftK : Fft α) : Su α → List (SuOp α) → Su α × List (Except PyErr (SuOut α))
  | c, [] => (c, [])
  | c, op :: ops =>
      let r := c.stepR proc fftK op
      let rest := Su.runR proc fftK r.1 ops
      (rest.1, r.2 :: rest.2)

/-- run a history; a Python exception ends it -/
def Su.run (proc : Proc α) (fftK : Fft α) : Su α → List (SuOp α) → Except PyErr (Su α × List (SuOut α))
  | c, [] => pure (c, [])
  | c, op :: ops => do
      let (c', o) ← c.step proc fftK op
      let (cf, os) ← Su.run proc fftK c' ops
      pure (cf, o :: os)

/-- fading-generator positions an operation consumes -/
def SuOp.advance (jakes : Bool) : SuOp α → Nat
  | .tx x => numSymbols x
  | .fx x fft sel =>
      match freqPlan sel fft (numSymbols x) with
      | .ok (_, _, nb) => blockEndPos jakes fft nb 0
      | .error _ => 0
  | .gen n => n
  | _ => 0

inductive MuOp (α : Type)
  | tx (x : List (List (List α)))
  | fx (x : List (List (List α))) (fft : Nat) (sel : Sel)
  | setSwitched (b : Bool)
  | setPathloss (s : List (List α))
  | getIR (rx tx : Nat)
  /-- a setter call its guard rejects (an entry of the path-loss matrix outside `[0, 1]`) -/
  | rejected (e : PyErr)
  /-- `set_pathloss(None)`: no path loss on any link -/
  | clearPathloss
  /-- any non-mutating public call (`pathloss_matrix`, `num_taps`, `__repr__`, …) -/
  | query

inductive MuOut (α : Type)
  | y (outs : List (List (List α)))
  | ir (r : IR α)
  | unit

def Mu.step (proc : Proc α) (fftK : Fft α) (c : Mu α) : MuOp α → Except PyErr (Mu α × MuOut α)
  | .tx x => do let (c', y) ← c.corrupt proc x; pure (c', .y y)
  | .fx x fft sel => do let (c', y) ← c.corruptFreq proc fftK x fft sel; pure (c', .y y)
  | .setSwitched b => pure (c.setSwitched b, .unit)
  | .setPathloss s => do let c' ← c.setPathloss s; pure (c', .unit)
  | .getIR rx tx => do let r ← c.lastIR rx tx; pure (c, .ir r)
  | .rejected e => throw e
  | .clearPathloss => pure ({ c with links := c.links.map (fun l => { l with pl := none }) }, .unit)
  | .query => pure (c, .unit)

def Mu.stepR (proc : Proc α) (fftK : Fft α) (c : Mu α) (op : MuOp α) : Mu α × Except PyErr (MuOut α) :=
  match c.step proc fftK op with
  | .ok (c', o) => (c', .ok o)
  | .error e => (c, .error e)

end PyPhysim.C03
