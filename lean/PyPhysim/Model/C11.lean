import PyPhysim.Model.Proto
/-!
# C11 — model of the SINR / interference-covariance code (core Lean only)

Mirrors

* `pyphysim/channels/multiuser.py`: `MultiUserChannelMatrix` and
  `MultiUserChannelMatrixExtInt`: `_calc_Bkl_cov_matrix_first_part / second_part /
  all_l`, `_calc_SINR_k`, `calc_SINR`, the `_calc_JP_*` twins, `_calc_Q_impl`,
  `calc_Q`, `calc_JP_Q`, `calc_cov_matrix_extint_without_noise / plus_noise`,
  and the channel views they read (`get_Hkl`, `get_Hk`, `get_Hk_without_ext_int`,
  the external columns of `big_H`, with path loss);
* `pyphysim/ia/iabase.py`: `IASolverBaseClass.full_F`, `_calc_Bkl_cov_matrix_*`,
  `_calc_SINR_k`, `calc_SINR`, `calc_SINR_in_dB`, `calc_sum_capacity`, `calc_Q`;
* `pyphysim/util/misc.py`: `calc_shannon_sum_capacity`.

Two scalar types: `α` (the complex entries) and `ρ` (the real numbers: noise
variance, powers, path loss, the reported SINR).  Everything is written through
core notation classes only, so the same text is instantiated at `ℂ`/`ℝ`
(Mathlib) in `Proofs/` and at binary64 in the compiled driver.

`np.linalg.solve` (inside `IASolverBaseClass.full_W_H`) is an external kernel:
its *result* (the matrix `full_W_H[k]`) is an input of the solver-side model.
-/
namespace PyPhysim.Sinr
open PyPhysim.Proto

/-- complex conjugation (`.conjugate()` / `.conj()`) -/
class Conj (α : Type) where
  conj : α → α

/-- the real scalars `ρ` inside the complex scalars `α` -/
class RC (ρ α : Type) where
  /-- promotion `float * complex` -/
  ofReal : ρ → α
  /-- `np.abs` of a complex number -/
  abs : α → ρ

/-- functions on real scalars: `np.sqrt`, `np.log2`, `np.log10` -/
class RFun (ρ : Type) where
  sqrt : ρ → ρ
  log2 : ρ → ρ
  log10 : ρ → ρ

abbrev Mat (α : Type) (m n : Nat) := Fin m → Fin n → α

/-! ## plain matrix operations -/
section matrix
variable {α : Type}

/-- left-to-right sum `0 + f 0 + … + f (n-1)` -/
def sumFin [Zero α] [Add α] : (n : Nat) → (Fin n → α) → α
  | 0, _ => 0
  | n+1, f => sumFin n (fun i => f i.castSucc) + f (Fin.last n)

variable [Zero α] [One α] [Add α] [Sub α] [Mul α]

/-- `np.dot(A, B)` -/
def matMul {m k n : Nat} (A : Mat α m k) (B : Mat α k n) : Mat α m n :=
  fun i j => sumFin k (fun l => A i l * B l j)

/-- `A.conjugate().transpose()` -/
def cT [Conj α] {m n : Nat} (A : Mat α m n) : Mat α n m :=
  fun i j => Conj.conj (A j i)

/-- `np.eye(n)` -/
def eye {n : Nat} : Mat α n n := fun i j => if i = j then 1 else 0

/-- `np.zeros([n, n])` -/
def zeroM {m n : Nat} : Mat α m n := fun _ _ => 0

def madd {m n : Nat} (A B : Mat α m n) : Mat α m n := fun i j => A i j + B i j
def msub {m n : Nat} (A B : Mat α m n) : Mat α m n := fun i j => A i j - B i j
/-- scalar times matrix -/
def smul {m n : Nat} (c : α) (A : Mat α m n) : Mat α m n := fun i j => c * A i j

/-- `A[:, l:l+1]` -/
def colOf {m n : Nat} (A : Mat α m n) (l : Fin n) : Mat α m 1 := fun i _ => A i l
/-- `A[l:l+1, :]` -/
def rowOf {m n : Nat} (A : Mat α m n) (l : Fin m) : Mat α 1 n := fun _ j => A l j
/-- `.item()` of a 1×1 array -/
def item (A : Mat α 1 1) : α := A 0 0

/-- `acc = 0.0; for j in range(K): acc = acc + f j` (entrywise) -/
def sumMat {n : Nat} (K : Nat) (f : Fin K → Mat α n n) : Mat α n n :=
  fun a b => sumFin K (fun j => f j a b)

/-- `np.dot(Hkj, np.dot(np.dot(Vj, Vj_H), Hkj_H))` — the association used by the
    channel object -/
def covTerm [Conj α] {n t s : Nat} (G : Mat α n t) (V : Mat α t s) : Mat α n n :=
  matMul G (matMul (matMul V (cT V)) (cT G))

/-- `aux = np.dot(Hkj, Vj); np.dot(aux, aux.conjugate().T)` — the association used
    by the solver and by `_calc_Q_impl` -/
def covTermS [Conj α] {n t s : Nat} (G : Mat α n t) (V : Mat α t s) : Mat α n n :=
  matMul (matMul G V) (cT (matMul G V))

end matrix

/-! ## the quotient of `_calc_SINR_k` -/
section core
variable {α ρ : Type} [Zero α] [One α] [Add α] [Sub α] [Mul α] [Div α] [Conj α] [BEq α] [RC ρ α]

/-- numerator of `_calc_SINR_k`: `aux = Ukl_H (H Fkl)`, `(aux aux^H).item()` -/
def sinrNum {n t : Nat} (uH : Mat α 1 n) (G : Mat α n t) (v : Mat α t 1) : α :=
  item (matMul (matMul uH (matMul G v)) (cT (matMul uH (matMul G v))))

/-- denominator of `_calc_SINR_k`: `(Ukl_H (Bkl Ukl)).item()` -/
def sinrDen {n : Nat} (uH : Mat α 1 n) (u : Mat α n 1) (B : Mat α n n) : α :=
  item (matMul uH (matMul B u))

/-- one pass of the loop body of `_calc_SINR_k` (all three copies of it): the quotient
    `numerator / denominator`, then `np.abs`.  The outcome `.error .ZeroDivisionError` is
    the tag "the denominator is exactly zero — no SINR value": the channel object divides
    Python scalars (`numerator.item() / denominator.item()`) and raises
    `ZeroDivisionError`; the IA solver divides with `np.divide` and puts a non-finite
    number (`inf` for `x/0`, `nan` for `0/0`) into that entry. -/
def sinrCore {n t : Nat} (uH : Mat α 1 n) (u : Mat α n 1) (G : Mat α n t) (v : Mat α t 1)
    (B : Mat α n n) : Except PyErr ρ :=
  if sinrDen uH u B == 0 then .error .ZeroDivisionError
  else .ok (RC.abs (sinrNum uH G v / sinrDen uH u B))

/-- `noise_power * np.eye(Nr[k])` -/
def noiseCov (n : Nat) (c : ρ) : Mat α n n := smul (RC.ofReal c) eye

/-- `pe * np.dot(extH, extH.transpose().conjugate())`
    (`calc_cov_matrix_extint_without_noise`, one receiver) -/
def extCov {n e : Nat} (He : Mat α n e) (pe : ρ) : Mat α n n :=
  smul (RC.ofReal pe) (matMul He (cT He))

/-- `calc_cov_matrix_extint_plus_noise` (one receiver): the noise covariance is
    added only `if self.noise_var is not None` -/
def extRek {n e : Nat} (He : Mat α n e) (pe : ρ) : Option ρ → Mat α n n
  | none => extCov He pe
  | some v => madd (extCov He pe) (noiseCov n v)

/-- `if N0_or_Rek is None: N0_or_Rek = 0.0` then `noise_power * np.eye(Nr[k])`
    (`_calc_Bkl_cov_matrix_first_part` of the plain channel object; the JP twin
    does the same through `noise_var if noise_var is not None else 0.0`) -/
def baseRek [Zero ρ] (n : Nat) : Option ρ → Mat α n n
  | none => noiseCov n (0 : ρ)
  | some v => noiseCov n v

end core

/-! ## one receiver of the channel object

`G j` is the channel from transmitter `j` to this receiver (`get_Hkl(k, j)`; for
the joint-processing variants `get_Hk(k)` for every `j`), `V j` the precoder of
user `j` (already scaled by the power), `n` the number of receive antennas. -/
section channelObject
variable {α ρ : Type} [Zero α] [One α] [Add α] [Sub α] [Mul α] [Div α] [Conj α] [BEq α] [RC ρ α]
variable {K n : Nat} {T S : Fin K → Nat}

/-- `_calc_Bkl_cov_matrix_first_part` / `_calc_JP_Bkl_cov_matrix_first_part_impl` -/
def chFirst (G : (j : Fin K) → Mat α n (T j)) (V : (j : Fin K) → Mat α (T j) (S j))
    (Rek : Mat α n n) : Mat α n n :=
  madd (sumMat K (fun j => covTerm (G j) (V j))) Rek

/-- `_calc_Bkl_cov_matrix_second_part` / `_calc_JP_Bkl_cov_matrix_second_part_impl` -/
def chSecond {t s : Nat} (Gk : Mat α n t) (Vk : Mat α t s) (l : Fin s) : Mat α n n :=
  covTerm Gk (colOf Vk l)

/-- element `l` of `_calc_Bkl_cov_matrix_all_l` / `_calc_JP_Bkl_cov_matrix_all_l` -/
def chBkl (G : (j : Fin K) → Mat α n (T j)) (V : (j : Fin K) → Mat α (T j) (S j))
    (Rek : Mat α n n) (k : Fin K) (l : Fin (S k)) : Mat α n n :=
  msub (chFirst G V Rek) (chSecond (G k) (V k) l)

/-- entry `l` of `_calc_SINR_k` / `_calc_JP_SINR_k_impl` for receiver `k` with receive
    filter `Uk` (columns are the per-stream filters, before the conjugate transpose) -/
def chSinr (G : (j : Fin K) → Mat α n (T j)) (V : (j : Fin K) → Mat α (T j) (S j))
    (k : Fin K) (Uk : Mat α n (S k)) (Rek : Mat α n n) (l : Fin (S k)) : Except PyErr ρ :=
  sinrCore (cT (colOf Uk l)) (colOf Uk l) (G k) (colOf (V k) l) (chBkl G V Rek k l)

/-- `_calc_Q_impl` / `_calc_JP_Q_impl` / `MultiUserChannelMatrixExtInt._calc_JP_Q`:
    `Qk = zeros; for l in set(range(K)) - {k}: Qk = Qk + (H F_l)(H F_l)^H`
    (the skipped user contributes the zero matrix) -/
def qImpl (G : (j : Fin K) → Mat α n (T j)) (V : (j : Fin K) → Mat α (T j) (S j))
    (k : Fin K) : Mat α n n :=
  sumMat K (fun j => if j = k then zeroM else covTermS (G j) (V j))

/-- `MultiUserChannelMatrix.calc_Q` / `calc_JP_Q`: noise covariance added only
    `if self.noise_var is not None` -/
def chQ (G : (j : Fin K) → Mat α n (T j)) (V : (j : Fin K) → Mat α (T j) (S j))
    (k : Fin K) : Option ρ → Mat α n n
  | none => qImpl G V k
  | some v => madd (qImpl G V k) (noiseCov n v)

/-- `MultiUserChannelMatrixExtInt.calc_Q` / `calc_JP_Q` -/
def extQ {e : Nat} (G : (j : Fin K) → Mat α n (T j)) (V : (j : Fin K) → Mat α (T j) (S j))
    (k : Fin K) (He : Mat α n e) (pe : ρ) (noise : Option ρ) : Mat α n n :=
  madd (qImpl G V k) (extRek He pe noise)

end channelObject

/-! ## one receiver of the IA solver (`IASolverBaseClass`) -/
section solver
variable {α ρ : Type} [Zero α] [One α] [Add α] [Sub α] [Mul α] [Div α] [Conj α] [BEq α] [RC ρ α]
variable {K n : Nat} {T S : Fin K → Nat}

/-- `full_F`: `self._F * np.sqrt(self.P)` -/
def fullF [RFun ρ] (F : (j : Fin K) → Mat α (T j) (S j)) (P : Fin K → ρ) :
    (j : Fin K) → Mat α (T j) (S j) :=
  fun j a b => F j a b * RC.ofReal (RFun.sqrt (P j))

/-- `IASolverBaseClass.noise_var`: the channel object's `noise_var`, `None` read as `0.0` -/
def solNoiseVar [Zero ρ] : Option ρ → ρ
  | none => 0
  | some v => v

/-- `IASolverBaseClass._calc_Bkl_cov_matrix_first_part` -/
def solFirst (G : (j : Fin K) → Mat α n (T j)) (V : (j : Fin K) → Mat α (T j) (S j)) : Mat α n n :=
  sumMat K (fun j => covTermS (G j) (V j))

/-- `IASolverBaseClass._calc_Bkl_cov_matrix_second_part` -/
def solSecond {t s : Nat} (Gk : Mat α n t) (Vk : Mat α t s) (l : Fin s) : Mat α n n :=
  covTermS Gk (colOf Vk l)

/-- the covariance of everything that is not a stream of a user, as the solver sees
    it: `noise_power * np.eye(Nr[k])`, plus — when the channel object has external
    interference sources — their covariance at unit power
    (`calc_cov_matrix_extint_without_noise()[k]`, the same convention as `calc_Q`) -/
def solRek [One ρ] {e : Nat} (n : Nat) (noise : ρ) : Option (Mat α n e) → Mat α n n
  | none => noiseCov n noise
  | some He => madd (noiseCov n noise) (extCov He (1 : ρ))

/-- element `l` of `IASolverBaseClass._calc_Bkl_cov_matrix_all_l`:
    `first_part - second_part + Rek` -/
def solBkl (G : (j : Fin K) → Mat α n (T j)) (V : (j : Fin K) → Mat α (T j) (S j))
    (Rn : Mat α n n) (k : Fin K) (l : Fin (S k)) : Mat α n n :=
  madd (msub (solFirst G V) (solSecond (G k) (V k) l)) Rn

/-- entry `l` of `IASolverBaseClass._calc_SINR_k`; `WHk` is `full_W_H[k]` (rows are
    the conjugated per-stream filters) -/
def solSinr (G : (j : Fin K) → Mat α n (T j)) (V : (j : Fin K) → Mat α (T j) (S j))
    (k : Fin K) (WHk : Mat α (S k) n) (Rn : Mat α n n) (l : Fin (S k)) : Except PyErr ρ :=
  sinrCore (rowOf WHk l) (cT (rowOf WHk l)) (G k) (colOf (V k) l) (solBkl G V Rn k l)

end solver

/-! ## aggregation: `calc_SINR`, `calc_SINR_in_dB`, `calc_sum_capacity` -/
section aggregate
variable {ρ : Type}

/-- the double loop `for k in range(K): … for l in range(Ns_k): …` read as ONE outcome:
    all the values if every entry has one, else the tag of the first entry without a value.
    Channel object: `calc_SINR` raises at that entry.  IA solver: no entry raises (see
    `eachStream`), the tag says "the result holds a non-finite entry" — which is also what
    makes `calc_sum_capacity` non-finite. -/
def allStreams {K : Nat} (S : Fin K → Nat) (f : (k : Fin K) → Fin (S k) → Except PyErr ρ) :
    Except PyErr (List (List ρ)) :=
  (List.finRange K).mapM (fun k => (List.finRange (S k)).mapM (fun l => f k l))

/-- `IASolverBaseClass.calc_SINR`: every entry is computed, none raises; an entry whose
    denominator vanishes carries the tag (a non-finite number in the code) -/
def eachStream {K : Nat} (S : Fin K → Nat) (f : (k : Fin K) → Fin (S k) → Except PyErr ρ) :
    List (List (Except PyErr ρ)) :=
  (List.finRange K).map (fun k => (List.finRange (S k)).map (fun l => f k l))

variable [Zero ρ] [One ρ] [Add ρ] [Mul ρ] [OfNat ρ 10] [RFun ρ]

/-- `linear2dB`: `10.0 * np.log10(x)` -/
def linear2dB (x : ρ) : ρ := 10 * RFun.log10 x

/-- `calc_SINR_in_dB` from the linear values -/
def sinrIndB (s : List (List ρ)) : List (List ρ) := s.map (fun r => r.map linear2dB)

def sumL (xs : List ρ) : ρ := xs.foldl (· + ·) 0

/-- `calc_shannon_sum_capacity` / the body of `calc_sum_capacity`:
    `np.sum(np.log2(1 + sinrs))` -/
def shannonSum (sinrs : List ρ) : ρ := sumL (sinrs.map (fun x => RFun.log2 (1 + x)))

/-- `calc_shannon_sum_capacity` of an argument of ANY shape (scalar, 0-d, 1-D, `K × Ns`, column / row
    vector, 3-D, nested lists, the per-user arrays `calc_SINR` returns): `np.sum` without an axis
    reduces over EVERY entry, so the result is the sum over the flattened argument — one number -/
def shannonSumNested (rows : List (List ρ)) : ρ := shannonSum rows.flatten

/-- `calc_sum_capacity`: `np.sum(np.log2(1 + np.hstack(self.calc_SINR())))` -/
def sumCapacity (s : Except PyErr (List (List ρ))) : Except PyErr ρ :=
  s.map (fun ss => shannonSum ss.flatten)

end aggregate

/-! ## index arguments -/

/-- a receiver / transmitter / stream index handed to a public method (`calc_Q(k, …)`,
    `calc_JP_Q(k, …)`, `get_Hkl(k, l)`, `get_Hk(k)`, the solver's `calc_Q(k)`): it is read through its
    integer VALUE — Python `int`, numpy integer of any width or signedness, 0-d integer array are the same
    index — and a value beyond the last user raises `IndexError` (`self.Nr[k]`) -/
def indexArg (K : Nat) (k : Nat) : Except PyErr (Fin K) :=
  if h : k < K then .ok ⟨k, h⟩ else .error .IndexError

/-! ## the channel views the SINR code reads

`big` is the matrix given to `init_from_channel_matrix` (external interference
columns last), `Nr` the receive antennas of the users, `NtAll` the transmit
antennas of the users followed by those of the external sources, `pl` the path
loss matrix (`K × (K + Ke)`, linear scale). -/
section views
variable {α ρ : Type} [Mul α] [RC ρ α] [RFun ρ]

/-- `np.cumsum`: number of antennas before user `k` -/
def offs : List Nat → Nat → Nat
  | [], _ => 0
  | _ :: _, 0 => 0
  | x :: xs, k+1 => x + offs xs k

/-- the user owning antenna index `r` (block index of `_from_small_matrix_to_big_matrix`) -/
def owner : List Nat → Nat → Nat
  | [], _ => 0
  | x :: xs, r => if r < x then 0 else owner xs (r - x) + 1

/-- `big_H`: `_big_H_no_pathloss * np.sqrt(_pathloss_big_matrix)` (no multiplication when
    no path loss is set) -/
def bigPL (big : Nat → Nat → α) (Nr NtAll : List Nat) (pl : Option (Nat → Nat → ρ)) : Nat → Nat → α :=
  match pl with
  | none => big
  | some p => fun r c => big r c * RC.ofReal (RFun.sqrt (p (owner Nr r) (owner NtAll c)))

/-- a block `big[r0:r0+m, c0:c0+n]` -/
def blockOf (big : Nat → Nat → α) (r0 c0 m n : Nat) : Mat α m n :=
  fun a b => big (r0 + a.val) (c0 + b.val)

end views

/-! ## long-lived objects

The channel object and the solver keep caches (`_H_with_pathloss`,
`_big_H_with_pathloss`, `_pathloss_big_matrix`, `_full_F`, `_full_W_H`, …) that the
public setters (`init_from_channel_matrix`, `randomize`, `set_pathloss`, `noise_var`,
`set_post_filter`, `set_precoders`, `set_receive_filters`) must invalidate.  The model
has no caches: an object IS its current inputs, a setter replaces part of them, and
every report is a function of the current inputs. -/
section session
variable {ι β : Type}

/-- the inputs an object holds after a history of setter calls -/
def afterHistory (i0 : ι) (setters : List (ι → ι)) : ι := setters.foldl (fun i f => f i) i0

/-- what the object reports after the history -/
def reportAfter (report : ι → β) (i0 : ι) (setters : List (ι → ι)) : β :=
  report (afterHistory i0 setters)

/-- a call on a long-lived object either is accepted (new inputs) or REFUSED (exception): a refused
    call leaves the inputs where they were -/
def stepOrKeep (i : ι) (call : ι → Except PyErr ι) : ι :=
  match call i with
  | .ok i' => i'
  | .error _ => i

/-- the inputs after a history of calls, some of which may be refused -/
def afterCalls (i0 : ι) (calls : List (ι → Except PyErr ι)) : ι := calls.foldl stepOrKeep i0

/-- everything the object reported along a history: one report before the first call and one after
    every call.  Reports are VALUES: a later call cannot reach back into them. -/
def reportsAlong (report : ι → β) : ι → List (ι → Except PyErr ι) → List β
  | i, [] => [report i]
  | i, call :: calls => report i :: reportsAlong report (stepOrKeep i call) calls

end session

/-! ## the caller's array objects (argument identity, buffers refilled in place)

Python hands OBJECTS to the code: the same array object may arrive again with other
contents (`buf[...] = new` before every call), one object may be handed over in two
roles (`calc_SINR(X, X)`), the caller may overwrite it right after the call.  In the
model a call reads what the object holds AT CALL TIME and nothing else: there is no
memo keyed on the object, no reference kept, no work done in place on an argument. -/
section heap
variable {ι β : Type}

/-- the caller's memory: array objects are addresses, `h a` is what the object at `a` holds now -/
abbrev Heap (ι : Type) := Nat → ι

/-- `buf[...] = v`: the same object, other contents -/
def refill (h : Heap ι) (a : Nat) (v : ι) : Heap ι := fun b => if b = a then v else h b

/-- a call that is handed the object at address `a` -/
def callOn (report : ι → β) (h : Heap ι) (a : Nat) : β := report (h a)

/-- a call that is handed two objects (precoders and filters, `Nr` and `Nt`, path loss and
    external path loss); they may be one and the same object -/
def callOn2 (report : ι → ι → β) (h : Heap ι) (a b : Nat) : β := report (h a) (h b)

/-- the loop of a caller that keeps ONE buffer at `a`: refill it with `vs[0]`, call, refill it
    with `vs[1]`, call, … — the list of everything that was returned -/
def refillLoop (report : ι → β) (a : Nat) : Heap ι → List ι → List β
  | _, [] => []
  | h, v :: vs => callOn report (refill h a v) a :: refillLoop report a (refill h a v) vs

end heap

end PyPhysim.Sinr
