/-
C03 — two small models for the robustness classes R15 / R16 (core Lean only).

R15 (distinct values that are merely close): the places of the C03 code that *compare*
sampling intervals — `TdlChannel.__init__` (fading.py):

    if isinstance(fading_generator, JakesSampleGenerator):
        if Ts is None:                Ts = fading_generator.Ts
        elif Ts != fading_generator.Ts:                 raise RuntimeError
    if not channel_profile.is_discretized:
        if isinstance(fading_generator, RayleighSampleGenerator) and Ts is None:   Ts = 1.0
        channel_profile = channel_profile.get_discretize_profile(Ts)
    elif channel_profile.Ts != Ts and Ts is not None:   raise RuntimeError

The comparisons are exact (`!=` on the values); `ctorTs` returns the sampling interval the
channel ends up with.  (The other value-dependent places — the path-loss setters, the
`np.unique(np.round(delay / Ts))` of the discretisation — are already functions of the exact
value in `Model/C03.lean` / `Model/C03Disc.lean`.)

R16 (argument identity, buffer reuse): a caller that keeps ONE array and refills it in place
before every call.  In the model an argument is its contents at call time; `Su.runBuf` spells
the caller's program out with an explicit buffer cell so that this is a statement and not
only a convention.
-/
import PyPhysim.Model.C03
namespace PyPhysim.C03
open PyPhysim.Proto

/-- sampling interval a `TdlChannel` is built with.  `jakesTs = some g`: a Jakes generator with
    interval `g`; `none`: a Rayleigh generator (for which a missing interval is `one` = 1.0).
    `profTs = some p`: the profile handed over is already discretised with interval `p`.
    `arg`: the `Ts` argument. -/
def ctorTs {τ : Type} [DecidableEq τ] (one : τ) (jakesTs profTs arg : Option τ) : Except PyErr τ := do
  let ts ← match jakesTs, arg with
    | some g, none => pure (some g)
    | some g, some a => if a ≠ g then throw PyErr.RuntimeError else pure (some a)
    | none, a => pure a
  match profTs, ts with
  | none, some t => pure t
  | none, none => pure one
  | some p, some t => if p ≠ t then throw PyErr.RuntimeError else pure p
  | some p, none => pure p

variable {α : Type} [Zero α] [Add α] [Mul α]

/-- one step of a caller's loop `buf[...] = fill; obj.call(buf)`: the new contents written into
    the caller's buffer, and the call made with that buffer as (one of) its argument(s) -/
structure BufCall (α : Type) where
  fill : List (List α)
  call : List (List α) → SuOp α

/-- the history as the caller's program runs it, with ONE buffer cell threaded through all calls
    (`buf` = what the cell holds when the next step starts, i.e. the previous call's contents) -/
def Su.runBuf (proc : Proc α) (fftK : Fft α) :
    Su α → List (List α) → List (BufCall α) → Su α × List (Except PyErr (SuOut α))
  | c, _, [] => (c, [])
  | c, _buf, k :: ks =>
      let buf' := k.fill                       -- in-place refill: the old contents are gone
      let r := c.stepR proc fftK (k.call buf')
      let rest := Su.runBuf proc fftK r.1 buf' ks
      (rest.1, r.2 :: rest.2)

end PyPhysim.C03
