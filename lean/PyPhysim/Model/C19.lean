/-
C19 — model of the cell geometry of `pyphysim/cell/shapes.py`, `cell.py` and
`pointprocess/pointprocess.py`.  Core Lean only; polymorphic in the scalar so
that the same text is proved over ordered fields / ℝ (Mathlib) and run at
`Float` / `Rat` in the driver.

Points of the complex grid are pairs `(re, im)`.  A rotation enters every
function as the unit vector `u = exp(j·π·rotation/180)` (`cisDeg rotation`);
theorems are stated for every `u` with `u.1² + u.2² = 1`.

External kernels that are parameters, not modelled code:
`matplotlib.path.Path.contains_point` (the `inside` argument of the polygon
shapes; `pnpoly` below is the reference the harness checks its contract
against) and `np.random` (the explicit stream of draws).
-/
import PyPhysim.Model.Proto
namespace PyPhysim.C19
open PyPhysim.Proto

/-- a point of the complex grid, `(re, im)` -/
abbrev Pt (α : Type) := α × α

/-- transcendental part of the scalar: `exp(1j·π·a/180)`, `exp(1j·a)` and `sqrt` -/
class Circ (α : Type) where
  /-- `np.exp(1j * np.pi * a / 180.)` -/
  cisDeg : α → α × α
  /-- `np.exp(1j * a)` (radians) -/
  cisRad : α → α × α
  sqrt : α → α
  pi : α

instance : Circ Float where
  cisDeg a := let r := 3.141592653589793 * a / 180.0; (Float.cos r, Float.sin r)
  cisRad a := (Float.cos a, Float.sin a)
  sqrt := Float.sqrt
  pi := 3.141592653589793

/-! ### plane geometry -/
section geom
variable {α : Type} [Add α] [Sub α] [Mul α]

def padd (p q : Pt α) : Pt α := (p.1 + q.1, p.2 + q.2)
def psub (p q : Pt α) : Pt α := (p.1 - q.1, p.2 - q.2)
/-- real scalar times point -/
def smul (k : α) (p : Pt α) : Pt α := (k * p.1, k * p.2)
/-- complex product -/
def cmul (p q : Pt α) : Pt α := (p.1 * q.1 - p.2 * q.2, p.1 * q.2 + p.2 * q.1)
/-- `Im(conj p · q)` — twice the signed area of the triangle `0, p, q` -/
def cross (p q : Pt α) : α := p.1 * q.2 - p.2 * q.1
def dot (p q : Pt α) : α := p.1 * q.1 + p.2 * q.2
def norm2 (p : Pt α) : α := p.1 * p.1 + p.2 * p.2
/-- squared Euclidean distance -/
def dist2 (p q : Pt α) : α := norm2 (psub p q)
/-- `Shape.calc_rotated_pos(p, angle)` with `u = exp(j·angle)` -/
def rot (u p : Pt α) : Pt α := cmul p u
/-- `Shape.vertices`: `pos + calc_rotated_pos(base, rotation)` -/
def place (pos u : Pt α) (base : List (Pt α)) : List (Pt α) := base.map (fun v => padd pos (rot u v))
end geom

section geomNeg
variable {α : Type} [Neg α]
/-- complex conjugate; `exp(-jθ)` for `u = exp(jθ)` -/
def conj (u : Pt α) : Pt α := (u.1, -u.2)
end geomNeg

section dist
variable {α : Type} [Add α] [Sub α] [Mul α] [Circ α]
/-- `np.abs(p - q)` -/
def dist (p q : Pt α) : α := Circ.sqrt (dist2 p q)
end dist

/-! ### vertices of the shapes (`_get_vertex_positions`) -/
section shapes
variable {α : Type} [Add α] [Sub α] [Mul α] [Div α] [Neg α] [NatCast α] [Circ α]

/-- `Hexagon.height = radius·sqrt(3)/2` (also `Cluster._calc_cell_height`) -/
def hexHeight (R : α) : α := R * Circ.sqrt ((3 : Nat) : α) / ((2 : Nat) : α)

/-- `k`-th step of the walk around the hexagon: `radius · exp(1j·60k°)` -/
def hexStep (R : α) (k : Nat) : Pt α := smul R (Circ.cisDeg (((60 * k : Nat)) : α))

/-- `Hexagon._get_vertex_positions`: start at `(-R/2, -height)`, add `R·exp(j·60k°)` five times -/
def hexVerts (R : α) : List (Pt α) :=
  let v0 : Pt α := (-(R / ((2 : Nat) : α)), -(hexHeight R))
  let v1 := padd v0 (hexStep R 0)
  let v2 := padd v1 (hexStep R 1)
  let v3 := padd v2 (hexStep R 2)
  let v4 := padd v3 (hexStep R 3)
  let v5 := padd v4 (hexStep R 4)
  [v0, v1, v2, v3, v4, v5]

/-- `Circle._get_vertex_positions`: twelve points `radius·exp(1j·30k°)` -/
def circleVerts (r : α) : List (Pt α) :=
  (List.range 12).map (fun k => smul r (Circ.cisDeg (((30 * k : Nat)) : α)))

/-- `Cell3Sec.secradius = sqrt(3)·radius/3` -/
def secRadius (R : α) : α := Circ.sqrt ((3 : Nat) : α) * R / ((3 : Nat) : α)

/-- the three sector centres of `Cell3Sec._get_vertex_positions` (cell at the origin, no rotation) -/
def secCentres (R : α) : List (Pt α) :=
  let r := secRadius R
  let h := r * (Circ.sqrt ((3 : Nat) : α) / ((2 : Nat) : α))
  let z : α := ((0 : Nat) : α)
  [(z - h, -(r / ((2 : Nat) : α))), (z + h, -(r / ((2 : Nat) : α))), (z, r)]

/-- vertices of one sector hexagon: `Hexagon(centre, secradius, rotation=30).vertices` -/
def secHex (R : α) (c : Pt α) : List (Pt α) :=
  place c (Circ.cisDeg ((30 : Nat) : α)) (hexVerts (secRadius R))

/-- pick the listed positions of a list (numpy fancy indexing; positions are in range by construction) -/
def pick {β : Type} (l : List β) (idx : List Nat) : List β := idx.filterMap (fun i => l[i]?)

/-- `Cell3Sec._get_vertex_positions`: twelve outer vertices of the union of the three sector hexagons -/
def sec3Verts (R : α) : List (Pt α) :=
  match secCentres R with
  | [c1, c2, c3] =>
    pick (secHex R c1) [0, 1] ++ pick (secHex R c2) [0, 1, 2, 3] ++
      pick (secHex R c3) [2, 3, 4, 5] ++ pick (secHex R c1) [4, 5]
  | _ => []
end shapes

section rect
variable {α : Type} [Add α] [Sub α] [Mul α] [Div α] [Neg α] [NatCast α] [LT α] [DecidableLT α]

/-- Python `min(a, b)` / `max(a, b)` (first argument on ties) -/
def pmin (a b : α) : α := if b < a then b else a
def pmax (a b : α) : α := if a < b then b else a

/-- a `Rectangle` object: centre, lower and upper corner (absolute), as `Rectangle.__init__` stores them -/
structure Rect (α : Type) where
  pos : Pt α
  lower : Pt α
  upper : Pt α

/-- `Rectangle.__init__(first, second)` -/
def mkRect (first second : Pt α) : Rect α :=
  { pos := ((first.1 + second.1) / ((2 : Nat) : α), (first.2 + second.2) / ((2 : Nat) : α)),
    lower := (pmin first.1 second.1, pmin first.2 second.2),
    upper := (pmax first.1 second.1, pmax first.2 second.2) }

/-- `Rectangle._get_vertex_positions` -/
def rectVerts (r : Rect α) : List (Pt α) :=
  let A := psub r.lower r.pos
  let B := psub r.upper r.pos
  [A, (B.1, A.2), B, (A.1, B.2)]

/-- `CellSquare.__init__`: the rectangle `pos ∓ side/2·(1+j)` -/
def mkSquare (pos : Pt α) (side : α) : Rect α :=
  let h := side / ((2 : Nat) : α)
  mkRect (pos.1 - h, pos.2 - h) (pos.1 + h, pos.2 + h)
end rect

/-! ### containment tests -/
section contain
variable {α : Type} [Add α] [Sub α] [Mul α] [Neg α] [LT α] [DecidableLT α]

/-- `Rectangle.is_point_inside_shape` (repaired): the query point is taken relative to the centre, the
    rotation is undone, and the result is compared with the unrotated corners. -/
def rectInside (r : Rect α) (u : Pt α) (p : Pt α) : Bool :=
  let q := rot (conj u) (psub p r.pos)
  let A := psub r.lower r.pos
  let B := psub r.upper r.pos
  if q.1 < A.1 then false
  else if B.1 < q.1 then false
  else if q.2 < A.2 then false
  else if B.2 < q.2 then false
  else true

/-- the test as it was before the repair: rotation ignored (kept for the negative witness) -/
def rectInsideUnrotated (r : Rect α) (p : Pt α) : Bool :=
  if p.1 < pmin r.lower.1 r.upper.1 then false
  else if pmax r.lower.1 r.upper.1 < p.1 then false
  else if p.2 < pmin r.lower.2 r.upper.2 then false
  else if pmax r.lower.2 r.upper.2 < p.2 then false
  else true

/-- `Circle.is_point_inside_shape`: `np.abs(pos - point) < radius` -/
def circleInside [Circ α] (pos : Pt α) (r : α) (p : Pt α) : Bool := dist pos p < r
end contain

section pnpoly
variable {α : Type} [Add α] [Sub α] [Mul α] [Div α] [LT α] [DecidableLT α] [LE α] [DecidableLE α]

/-- adjacent pairs of a list: `(l₀,l₁), (l₁,l₂), …` -/
def adjPairs {β : Type} : List β → List (β × β)
  | x :: y :: r => (x, y) :: adjPairs (y :: r)
  | _ => []

/-- consecutive pairs of a cyclic vertex list: `(v_k, v_{k+1 mod n})` (`np.roll(v, -1)`) -/
def cyc {β : Type} : List β → List (β × β)
  | [] => []
  | a :: t => adjPairs (a :: t ++ [a])

/-- does the horizontal ray from `p` to the right cross the edge `(a, b)`? (crossing-number rule) -/
def crossesRay (p : Pt α) (e : Pt α × Pt α) : Bool :=
  let a := e.1
  let b := e.2
  if decide (p.2 < a.2) == decide (p.2 < b.2) then false
  else p.1 < a.1 + (p.2 - a.2) * (b.1 - a.1) / (b.2 - a.2)

/-- even–odd (crossing number) point-in-polygon test: the reference that
    `matplotlib.path.Path.contains_point` is contract-checked against, away from the edges -/
def pnpoly (verts : List (Pt α)) (p : Pt α) : Bool :=
  ((cyc verts).filter (crossesRay p)).length % 2 == 1
end pnpoly

/-! ### border points (`Shape.get_border_point`, repaired: every edge is examined) -/
section border
variable {α : Type} [Add α] [Sub α] [Mul α] [Div α] [NatCast α] [LT α] [DecidableLT α] [LE α] [DecidableLE α]

/-- the step `t` at which the ray `t·d` (from the centre, `t > 0`) crosses the edge `(a, b)`
    (both relative to the centre), if it does: the two end points are on different sides of the
    line through the centre with direction `d`, and the crossing is in the direction of `d`. -/
def edgeStep (d : Pt α) (e : Pt α × Pt α) : Option α :=
  let s := cross e.1 d
  let s' := cross e.2 d
  let z : α := ((0 : Nat) : α)
  if ((z ≤ s ∧ s' ≤ z) ∨ (s ≤ z ∧ z ≤ s')) ∧ (s < s' ∨ s' < s) then
    let t := cross e.1 e.2 / (s - s')
    if z < t then some t else none
  else none

/-- `np.min` over the candidates (`none` on the empty list) -/
def minOpt : List α → Option α
  | [] => none
  | x :: xs => match minOpt xs with
    | none => some x
    | some m => some (if m < x then m else x)

/-- step to the first border crossing in direction `d`; `rel` = vertices relative to the centre -/
def borderStep (rel : List (Pt α)) (d : Pt α) : Option α :=
  minOpt ((cyc rel).filterMap (edgeStep d))

/-- `Shape.get_border_point(angle, ratio)` with `d = exp(j·π·angle/180)`:
    `(1-ratio)·pos + ratio·(pos + t·d)`; `ValueError` when no edge is crossed -/
def borderPoint (pos : Pt α) (verts : List (Pt α)) (d : Pt α) (ratio : α) : Except PyErr (Pt α) :=
  match borderStep (verts.map (fun v => psub v pos)) d with
  | none => .error .ValueError
  | some t =>
    .ok (padd (smul (((1 : Nat) : α) - ratio) pos) (smul ratio (padd pos (smul t d))))

/-- `CellBase._validate_ratio` (used by `add_border_user`): exactly `1.0` is nudged inside by
    `eps = 1e-15`, anything outside `[0, 1]` raises `ValueError` -/
def validateRatio (ratio eps : α) : Except PyErr α :=
  let one : α := ((1 : Nat) : α)
  if ratio ≤ one ∧ one ≤ ratio then .ok (one - eps)
  else if ratio < ((0 : Nat) : α) ∨ one < ratio then .error .ValueError
  else .ok ratio

/-- one user of `CellBase.add_border_user(angle, ratio)` -/
def borderUser (pos : Pt α) (verts : List (Pt α)) (d : Pt α) (ratio eps : α) : Except PyErr (Pt α) :=
  match validateRatio ratio eps with
  | .error e => .error e
  | .ok r => borderPoint pos verts d r

/-- `Circle.get_border_point`: `pos + exp(jθ)·radius·ratio` -/
def circleBorderPoint (pos : Pt α) (r : α) (d : Pt α) (ratio : α) : Pt α :=
  padd pos (smul (r * ratio) d)
end border

/-! ### random placement (`CellBase.add_random_user`) -/
section random
variable {α : Type} [Add α] [Sub α] [Mul α] [Div α] [NatCast α] [LT α] [DecidableLT α]

/-- candidate built from two draws `u₁ u₂ ∈ [0,1)`:
    `pos + complex(2(u₁-0.5)·radius, 2(u₂-0.5)·radius)` -/
def candidate (pos : Pt α) (R : α) (u : α × α) : Pt α :=
  let half : α := ((1 : Nat) : α) / ((2 : Nat) : α)
  (pos.1 + ((2 : Nat) : α) * (u.1 - half) * R, pos.2 + ((2 : Nat) : α) * (u.2 - half) * R)

/-- the `while` condition negated: the candidate is kept when it is inside the shape and not
    closer to the centre than `min_dist_ratio·radius` -/
def acceptable [Circ α] (inside : Pt α → Bool) (pos : Pt α) (R ratio : α) (p : Pt α) : Bool :=
  inside p && !(dist pos p < ratio * R)

/-- rejection loop over an explicit stream of draw pairs: the first acceptable candidate and the
    number of pairs consumed; `none` when the stream ends first (non-termination is not modelled) -/
def firstAccepted (acc : Pt α → Bool) (mk : α × α → Pt α) : List (α × α) → Nat → Option (Pt α × Nat)
  | [], _ => none
  | u :: us, n => if acc (mk u) then some (mk u, n + 1) else firstAccepted acc mk us (n + 1)

/-- `CellBase.add_random_user(min_dist_ratio)` on a stream of draws (followed by
    `add_user(.., relative_pos_bool=False)`, which re-checks containment and cannot fail) -/
def addRandomUser [Circ α] (inside : Pt α → Bool) (pos : Pt α) (R ratio : α) (us : List (α × α)) :
    Option (Pt α × Nat) :=
  firstAccepted (acceptable inside pos R ratio) (candidate pos R) us 0

/-- `CellBase.add_user(pos, relative_pos_bool=False)`: `ValueError` outside the shape -/
def addUser (inside : Pt α → Bool) (p : Pt α) : Except PyErr (Pt α) :=
  if inside p then .ok p else .error .ValueError
end random

/-! ### point processes (`pointprocess.py`) and distance matrices -/
section pp
variable {α : Type} [Add α] [Sub α] [Mul α] [Div α] [Neg α] [NatCast α] [Circ α]

/-- radius drawn by `generate_random_points_in_circle`: `sqrt(u)·(max-min)+min` -/
def ppRadius (rmax rmin u : α) : α := Circ.sqrt u * (rmax - rmin) + rmin

/-- one point of `generate_random_points_in_circle`: `radius·exp(-1j·(v·2π))` -/
def ppCirclePoint (rmax rmin u v : α) : Pt α :=
  smul (ppRadius rmax rmin u) (conj (Circ.cisRad (v * ((2 : Nat) : α) * Circ.pi)))

/-- one point of `generate_random_points_in_rectangle`: `width·(0.5-u) + 1j·height·(0.5-v)` -/
def ppRectPoint (w h u v : α) : Pt α :=
  let half : α := ((1 : Nat) : α) / ((2 : Nat) : α)
  (w * (half - u), h * (half - v))

/-- `Cluster.calc_dist_all_users_to_each_cell`: row = user (cell by cell, in insertion order),
    column = cell -/
def distMatrix (users cells : List (Pt α)) : List (List α) :=
  users.map (fun us => cells.map (fun c => dist us c))
end pp

end PyPhysim.C19
