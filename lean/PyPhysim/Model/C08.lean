/-
C08 — executable model of `MultiUserChannelMatrix` / `MultiUserChannelMatrixExtInt`
(pyphysim/channels/multiuser.py) and of `single_matrix_to_matrix_of_matrices`
(pyphysim/util/conversion.py).  Core Lean only.

Matrices are lists of rows; a numpy slice `M[a:b]` is `(M.drop a).take (b-a)`;
the block partition uses the cumulative sums `np.hstack([0, np.cumsum(ns)])`
exactly as the source does.  The lazily computed attributes of the Python
objects (`_big_H_with_pathloss`, `_H_with_pathloss`, `_pathloss_big_matrix`,
`_big_W`) are explicit `Option` fields, so that a stale cache is expressible.

The scalar type `α` is arbitrary (`Add`, `Mul`, `Zero` only); the square root,
the complex conjugate and the sign test of the noise variance are parameters
(`Fns`).  The driver instantiates `α` with Gaussian rationals.

`Cfg` selects between the code as it was at the design round (`Cfg.orig`, kept
for the negative witnesses) and the repaired code (`Cfg.fixed`, what the
correspondence check compares the current source with).

What is NOT modelled (and therefore excluded from the model = code claim by
the `OpOK` guards of `Proofs/C08.lean`): numpy broadcasting / shape errors for
arguments of the wrong shape, negative indexes, ragged inputs.
-/
import PyPhysim.Model.Proto

namespace PyPhysim.C08
open PyPhysim.Proto

abbrev Mat (α : Type) := List (List α)
/-- numpy object array of 2-D arrays ("matrix of matrices") -/
abbrev MoM (α : Type) := List (List (Mat α))

section Slicing
variable {β : Type}

/-- `np.hstack([0, np.cumsum(ns)])[k]` -/
def cum (ns : List Nat) (k : Nat) : Nat := (ns.take k).sum

/-- python / numpy `l[a:b]` (for `a ≤ b`) -/
def slice (l : List β) (a b : Nat) : List β := (l.drop a).take (b - a)

/-- `l[cum[k]:cum[k+1]]` -/
def seg (ns : List Nat) (l : List β) (k : Nat) : List β := slice l (cum ns k) (cum ns (k + 1))

/-- python `l[:-n]` (empty for `n = 0`, as in the `Nr`/`Nt` properties of the
    external-interference class) -/
def pyDropLast (l : List β) (n : Nat) : List β := if n = 0 then [] else l.take (l.length - n)

/-- repeat the `i`-th element `ns[i]` times (one axis of
    `_from_small_matrix_to_big_matrix`) -/
def expand1 (ps : List β) (ns : List Nat) : List β :=
  (ps.zip ns).flatMap fun pn => List.replicate pn.2 pn.1

end Slicing

section Matrices
variable {α : Type}

def cols (M : Mat α) : Nat := match M with | [] => 0 | r :: _ => r.length

/-- `M[cumNr[k]:cumNr[k+1]]` -/
def rowBlock (M : Mat α) (nr : List Nat) (k : Nat) : Mat α := seg nr M k
/-- `M[:, cumNt[l]:cumNt[l+1]]` -/
def colBlock (M : Mat α) (nt : List Nat) (l : Nat) : Mat α := M.map fun r => seg nt r l
/-- `M[cumNr[k]:cumNr[k+1], cumNt[l]:cumNt[l+1]]` -/
def block (M : Mat α) (nr nt : List Nat) (k l : Nat) : Mat α := colBlock (rowBlock M nr k) nt l

/-- `single_matrix_to_matrix_of_matrices(M, nrows, ncols)`, 2-D of 2-D case
    (`K = nrows.size` is used for both loops, as in the source) -/
def mom (M : Mat α) (nr nt : List Nat) : MoM α :=
  (List.range nr.length).map fun rx => (List.range nr.length).map fun tx => block M nr nt rx tx

/-- `single_matrix_to_matrix_of_matrices(M, nrows)`: packs of rows -/
def rowSplit (M : Mat α) (nr : List Nat) : List (Mat α) :=
  (List.range nr.length).map fun rx => rowBlock M nr rx

/-- `M[:, :c]` -/
def takeCols (M : Mat α) (c : Nat) : Mat α := M.map fun r => r.take c

/-- `_from_small_matrix_to_big_matrix`: every entry of the small matrix is
    repeated over its (receiver, transmitter) block.  (`ones * p` of the source
    is `p`.) -/
def expand (p : Mat α) (nr nt : List Nat) : Mat α :=
  expand1 (p.map fun row => expand1 row nt) nr

variable [Add α] [Mul α] [Zero α]

/-- `B * sqrt(q)` for one block and one path-loss entry -/
def scaleBy (s : α → α) (B : Mat α) (q : α) : Mat α := B.map fun r => r.map fun x => x * s q

/-- `A * np.sqrt(P)`, elementwise, equal shapes -/
def scaleEl (s : α → α) (A P : Mat α) : Mat α :=
  List.zipWith (fun ra rp => List.zipWith (fun x q => x * s q) ra rp) A P

/-- object array of blocks times `np.sqrt(p)`, elementwise, equal shapes -/
def scaleMom (s : α → α) (H : MoM α) (p : Mat α) : MoM α :=
  List.zipWith (fun hrow prow => List.zipWith (scaleBy s) hrow prow) H p

def vecAdd (a b : List α) : List α := List.zipWith (· + ·) a b
def matAdd (A B : Mat α) : Mat α := List.zipWith vecAdd A B

/-- row vector times matrix: `Σ_i r[i] * B[i, :]` -/
def rowMul (r : List α) (B : Mat α) : List α :=
  (r.zip B).foldl (fun acc xb => vecAdd acc (xb.2.map fun y => xb.1 * y)) (List.replicate (cols B) 0)

/-- `np.dot(A, B)` -/
def matMul (A B : Mat α) : Mat α := A.map fun r => rowMul r B

/-- `np.dot(W.conjugate().T, Y)` : `Σ_i conj(W[i, :])ᵀ Y[i, :]` -/
def conjTMul (conj : α → α) (W Y : Mat α) : Mat α :=
  (W.zip Y).foldl
    (fun acc wy => matAdd acc (wy.1.map fun w => wy.2.map fun y => conj w * y))
    (List.replicate (cols W) (List.replicate (cols Y) 0))

/-- `scipy.linalg.block_diag(*ws)` for 2-D blocks -/
def blockDiag (ws : List (Mat α)) : Mat α :=
  let cs := ws.map cols
  (ws.zipIdx).flatMap fun wk =>
    wk.1.map fun r => List.replicate (cum cs wk.2) 0 ++ r ++ List.replicate (cs.sum - cum cs (wk.2 + 1)) 0

end Matrices

/-- external scalar functions (parameters of the model) -/
structure Fns (α : Type) where
  sqrt : α → α
  conj : α → α
  nonneg : α → Bool

/-- which source revision is modelled -/
structure Cfg where
  /-- `MultiUserChannelMatrixExtInt.set_pathloss` resets `_big_H_with_pathloss` / `_H_with_pathloss` -/
  extResets : Bool
  /-- `randomize` / `init_from_channel_matrix` re-expand (or drop) the stored path loss -/
  relayout : Bool
  /-- `H_no_ext_int` is `self.H[:, :K]` (instead of the base-class getter) -/
  hNoExtViaH : Bool
  /-- mutators validate / compute before they store anything: a call that raises leaves the
      object as it was (`init_from_channel_matrix` of the ExtInt class, `randomize`,
      `set_pathloss`); the design-round code stored `_extIntK` before validating and had no
      size check in `randomize` / no defined behaviour for a too small path loss -/
  atomic : Bool
  deriving DecidableEq, Repr

/-- the code at the design round (commit 6fe5d71) -/
def Cfg.orig : Cfg := ⟨false, false, false, false⟩
/-- the repaired code -/
def Cfg.fixed : Cfg := ⟨true, true, true, true⟩

structure State (α : Type) where
  /-- `MultiUserChannelMatrixExtInt` (else `MultiUserChannelMatrix`) -/
  isExt : Bool
  /-- `_big_H_no_pathloss` (`_H_no_pathloss` is a view of the same memory) -/
  raw : Mat α
  /-- `_Nr`, `_Nt`, `_K` (for the ExtInt class: including the interference "users") -/
  nr : List Nat
  nt : List Nat
  k : Nat
  /-- `_extIntK` -/
  extK : Nat
  /-- `_pathloss_matrix` -/
  pl : Option (Mat α)
  /-- `_pathloss_big_matrix` -/
  plBig : Option (Mat α)
  /-- `_big_H_with_pathloss` -/
  bigHc : Option (Mat α)
  /-- `_H_with_pathloss` -/
  hc : Option (MoM α)
  /-- `_W` -/
  w : Option (List (Mat α))
  /-- `_big_W` -/
  bigWc : Option (Mat α)
  /-- `_noise_var` -/
  noiseVar : Option α
  /-- `_last_noise` -/
  lastNoise : Option (Mat α)
  deriving DecidableEq, Repr

/-- state after `__init__` -/
def State.init (α : Type) (isExt : Bool) : State α :=
  { isExt := isExt, raw := [], nr := [], nt := [], k := 0, extK := 0, pl := none, plBig := none,
    bigHc := none, hc := none, w := none, bigWc := none, noiseVar := none, lastNoise := none }

inductive Op (α : Type) where
  /-- `init_from_channel_matrix(M, Nr, Nt, K[, NtE])` -/
  | init (M : Mat α) (nr nt : List Nat) (K : Nat) (ntE : List Nat)
  /-- `randomize(Nr, Nt, K[, NtE])`; `drawn` is what the random generator returned -/
  | randomize (drawn : Mat α) (nr nt : List Nat) (K : Nat) (ntE : List Nat)
  /-- `set_pathloss(p[, pe])`, `set_pathloss(None)` -/
  | setPL (p : Option (Mat α)) (pe : Mat α)
  /-- `noise_var = v` -/
  | setNoise (v : Option α)
  /-- `set_post_filter(w)` -/
  | setW (w : Option (List (Mat α)))
  | readH
  | readBigH
  | readHkl (k l : Nat)
  | readHk (k : Nat)
  /-- `big_H_no_ext_int` -/
  | readBigHNoExt
  /-- `get_Hk_without_ext_int(k)` -/
  | readHkNoExt (k : Nat)
  /-- `H_no_ext_int` -/
  | readHNoExt
  /-- `corrupt_data(x[, xe])`; `noise` is the array the noise generator returned
      (already scaled), `none` if the implementation drew none -/
  | corrupt (x xe : List (Mat α)) (noise : Option (Mat α))
  /-- the `K`, `Nr`, `Nt` properties (and `extIntK`, `extIntNt` on the ExtInt class) -/
  | readLayout
  /-- the `pathloss` property -/
  | readPL
  /-- the `big_W` property -/
  | readBigWView
  /-- the `noise_var` property -/
  | readNoiseVar
  /-- the `last_noise` property -/
  | readLastNoise
  /-- `corrupt_concatenated_data(X)`: the data already stacked, the output not split -/
  | corruptCat (X : Mat α) (noise : Option (Mat α))
  /-- what `corrupt_data(x[, xe])` hands to `corrupt_concatenated_data`: `np.vstack` of the per-transmitter
      blocks (the interference blocks appended on the ExtInt class) -/
  | stackData (x xe : List (Mat α))
  /-- any public method that is not a setter and whose value is outside this property (`calc_Q`,
      `calc_JP_Q`, `calc_SINR`, `calc_JP_SINR`, `calc_cov_matrix_extint_*`, copying / pickling the
      object): it returns something, and must change nothing -/
  | query
  deriving Repr

inductive Out (α : Type) where
  | unit
  | err (e : PyErr)
  | mat (M : Mat α)
  | mom (H : MoM α)
  /-- per-receiver outputs and `last_noise` -/
  | rx (ys : List (Mat α)) (lastNoise : Option (Mat α))
  /-- `K`, `Nr`, `Nt`, `extIntNt` -/
  | layout (k : Nat) (nr nt ntE : List Nat)
  /-- an array or `None` -/
  | optMat (M : Option (Mat α))
  /-- a scalar or `None` -/
  | optScalar (v : Option α)
  deriving DecidableEq, Repr

section Step
variable {α : Type} [Add α] [Mul α] [Zero α]

/-- the `K` property -/
def State.userK (st : State α) : Nat := if st.isExt then st.k - st.extK else st.k
/-- the `Nr` property -/
def State.nrU (st : State α) : List Nat := if st.isExt then pyDropLast st.nr st.extK else st.nr
/-- the `Nt` property -/
def State.ntU (st : State α) : List Nat := if st.isExt then pyDropLast st.nt st.extK else st.nt

/-- `_H_no_pathloss` -/
def State.hNoPL (st : State α) : MoM α := mom st.raw st.nr st.nt

/-- `pl.shape == (self.K, self._K)` -/
def plFits (p : Mat α) (userK k : Nat) : Bool := p.length == userK && p.all fun r => r.length == k

/-- common tail of `randomize` / `init_from_channel_matrix` (base class) -/
def install (cfg : Cfg) (st : State α) (M : Mat α) (nr nt : List Nat) (K : Nat) : State α :=
  let st1 := { st with bigHc := none, hc := none, k := K, nr := nr, nt := nt, raw := M }
  if cfg.relayout then
    match st1.pl with
    | none => { st1 with plBig := none }
    | some p =>
      if plFits p st1.userK st1.k then { st1 with plBig := some (expand p nr nt) }
      else { st1 with pl := none, plBig := none }
  else st1

/-- `_prepare_input_parans` : (full Nr, full Nt, full K, extIntK) -/
def fullLayout (isExt : Bool) (nr nt : List Nat) (K : Nat) (ntE : List Nat) :
    List Nat × List Nat × Nat × Nat :=
  if isExt then (nr ++ List.replicate ntE.length 0, nt ++ ntE, K + ntE.length, ntE.length)
  else (nr, nt, K, 0)

/-- the two `ValueError` checks of `init_from_channel_matrix` (on the full layout) -/
def initCheck (M : Mat α) (fnr fnt : List Nat) (fK : Nat) : Bool :=
  M.length == fnr.sum && cols M == fnt.sum && fnt.length == fK && fnr.length == fK

def doInit (cfg : Cfg) (st : State α) (M : Mat α) (nr nt : List Nat) (K : Nat) (ntE : List Nat) :
    State α × Out α :=
  let L := fullLayout st.isExt nr nt K ntE
  -- the ExtInt override stores `_extIntK` before the base class validates
  let st0 := { st with extK := L.2.2.2 }
  if initCheck M L.1 L.2.1 L.2.2.1 then (install cfg st0 M L.1 L.2.1 L.2.2.1, .unit)
  else (if cfg.atomic then st else st0, .err .ValueError)

/-- `randomize`: "K must be equal to the number of elements in Nr and Nt" (repaired code only) -/
def randCheck (cfg : Cfg) (isExt : Bool) (nr nt : List Nat) (K : Nat) (ntE : List Nat) : Option PyErr :=
  let L := fullLayout isExt nr nt K ntE
  if cfg.atomic && (L.1.length != L.2.2.1 || L.2.1.length != L.2.2.1) then some .ValueError else none

def doRandomize (cfg : Cfg) (st : State α) (drawn : Mat α) (nr nt : List Nat) (K : Nat)
    (ntE : List Nat) : State α × Out α :=
  let L := fullLayout st.isExt nr nt K ntE
  (install cfg { st with extK := L.2.2.2 } drawn L.1 L.2.1 L.2.2.1, .unit)

def doSetPL (cfg : Cfg) (st : State α) (p : Option (Mat α)) (pe : Mat α) : State α :=
  if st.isExt then
    let st1 := if cfg.extResets then { st with bigHc := none, hc := none } else st
    match p with
    | none => { st1 with pl := none, plBig := none }
    | some p =>
      let full := List.zipWith (· ++ ·) p pe       -- np.hstack([p, pe])
      { st1 with pl := some full, plBig := some (expand full st.nr st.nt) }
  else
    let st1 := { st with bigHc := none, hc := none }
    match p with
    | none => { st1 with pl := none, plBig := none }
    | some p => { st1 with pl := some p, plBig := some (expand p st.nr st.nt) }

/-- `_from_small_matrix_to_big_matrix` reads `small[rx, tx]` for `rx < r`, `tx < c` -/
def plTooSmall (p : Mat α) (r c : Nat) : Bool :=
  r != 0 && c != 0 && (p.length < r || (p.take r).any fun row => row.length < c)

/-- what `set_pathloss` raises before it stores anything (repaired code): `np.hstack` of a path
    loss and an interference path loss with different numbers of rows is a `ValueError`, a matrix
    smaller than `K x _K` an `IndexError` -/
def setPLCheck (cfg : Cfg) (st : State α) (p : Option (Mat α)) (pe : Mat α) : Option PyErr :=
  if !cfg.atomic then none else
  match p with
  | none => none
  | some p =>
    if st.isExt then
      if p.length != pe.length then some .ValueError
      else if plTooSmall (List.zipWith (· ++ ·) p pe) st.userK st.k then some .IndexError else none
    else if plTooSmall p st.k st.k then some .IndexError else none

def doSetNoise (F : Fns α) (st : State α) (v : Option α) : State α × Out α :=
  match v with
  | none => ({ st with noiseVar := none }, .unit)
  | some x => if F.nonneg x then ({ st with noiseVar := some x }, .unit) else (st, .err .AssertionError)

/-- the `H` property -/
def readH (F : Fns α) (st : State α) : State α × MoM α :=
  if st.isExt then
    let H := st.hNoPL.take st.userK
    match st.pl with
    | none => (st, H)
    | some p => (st, scaleMom F.sqrt H p)
  else
    match st.pl with
    | none => (st, st.hNoPL)
    | some p =>
      match st.hc with
      | some H => (st, H)
      | none => let H := scaleMom F.sqrt st.hNoPL p; ({ st with hc := some H }, H)

/-- the `big_H` property (`np.sqrt(None)` is a `TypeError`) -/
def readBigH (F : Fns α) (st : State α) : State α × Except PyErr (Mat α) :=
  match st.pl with
  | none => (st, .ok st.raw)
  | some _ =>
    match st.bigHc with
    | some M => (st, .ok M)
    | none =>
      match st.plBig with
      | none => (st, .error .TypeError)
      | some P => let M := scaleEl F.sqrt st.raw P; ({ st with bigHc := some M }, .ok M)

/-- the `big_W` property -/
def readBigW (st : State α) : State α × Option (Mat α) :=
  match st.bigWc, st.w with
  | some B, _ => (st, some B)
  | none, some ws => let B := blockDiag ws; ({ st with bigWc := some B }, some B)
  | none, none => (st, none)

/-- `H_no_ext_int` of the design-round code: the base-class getter on the
    ExtInt object, then `[:K, :K]`.  With a path loss the product
    `(K+e, K+e) * (K, K+e)` only broadcasts for `K = 1`. -/
def readHNoExtOrig (F : Fns α) (st : State α) : State α × Except PyErr (MoM α) :=
  let cut (H : MoM α) : MoM α := (H.take st.userK).map fun r => r.take st.userK
  match st.pl with
  | none => (st, .ok (cut st.hNoPL))
  | some p =>
    match st.hc with
    | some H => (st, .ok (cut H))
    | none =>
      if st.userK = 1 then
        let H := st.hNoPL.map fun hrow => List.zipWith (scaleBy F.sqrt) hrow (p.headD [])
        ({ st with hc := some H }, .ok (cut H))
      else (st, .error .ValueError)

/-- tail of `corrupt_concatenated_data` / `corrupt_data`: post filter, split by `_Nr` -/
def finishCorrupt (F : Fns α) (st2 : State α) (out1 : Mat α) (ln : Option (Mat α)) : State α × Out α :=
  match readBigW st2 with
  | (st3, bw) =>
    let out2 := match bw with
      | some B => conjTMul F.conj B out1
      | none => out1
    (st3, .rx ((List.range st3.userK).map fun k => seg st3.nr out2 k) ln)

/-- tail of `corrupt_concatenated_data`: post filter, no split -/
def finishCat (F : Fns α) (st2 : State α) (out1 : Mat α) (ln : Option (Mat α)) : State α × Out α :=
  match readBigW st2 with
  | (st3, bw) =>
    (st3, .rx [match bw with
      | some B => conjTMul F.conj B out1
      | none => out1] ln)

/-- `corrupt_concatenated_data` : as `corrupt_data` without stacking and splitting -/
def doCorruptCat (F : Fns α) (st : State α) (X : Mat α) (noise : Option (Mat α)) : State α × Out α :=
  match readBigH F st with
  | (st1, .error e) => (st1, .err e)
  | (st1, .ok bigH) =>
    let out0 := matMul bigH X
    match st1.noiseVar, noise with
    | none, _ => finishCat F { st1 with lastNoise := none } out0 none
    | some _, some n => finishCat F { st1 with lastNoise := some n } (matAdd out0 n) (some n)
    | some _, none => (st1, .err .RuntimeError)

def doCorrupt (F : Fns α) (st : State α) (x xe : List (Mat α)) (noise : Option (Mat α)) :
    State α × Out α :=
  let data := if st.isExt then x ++ xe else x            -- np.hstack([data, ext_int_data])
  let X : Mat α := data.flatten                          -- np.vstack
  match readBigH F st with
  | (st1, .error e) => (st1, .err e)
  | (st1, .ok bigH) =>
    let out0 := matMul bigH X
    match st1.noiseVar, noise with
    | none, _ => finishCorrupt F { st1 with lastNoise := none } out0 none
    | some _, some n => finishCorrupt F { st1 with lastNoise := some n } (matAdd out0 n) (some n)
    | some _, none => (st1, .err .RuntimeError)     -- contract of the noise parameter broken

def getD2 (H : MoM α) (k l : Nat) : Out α :=
  match H[k]? with
  | none => .err .IndexError
  | some row => match row[l]? with
    | none => .err .IndexError
    | some B => .mat B

def getD1 (L : List (Mat α)) (k : Nat) : Out α :=
  match L[k]? with
  | none => .err .IndexError
  | some B => .mat B

def step (cfg : Cfg) (F : Fns α) (st : State α) : Op α → State α × Out α
  | .init M nr nt K ntE => doInit cfg st M nr nt K ntE
  | .randomize M nr nt K ntE =>
    match randCheck cfg st.isExt nr nt K ntE with
    | some e => (st, .err e)
    | none => doRandomize cfg st M nr nt K ntE
  | .setPL p pe =>
    match setPLCheck cfg st p pe with
    | some e => (st, .err e)
    | none => (doSetPL cfg st p pe, .unit)
  | .setNoise v => doSetNoise F st v
  | .setW w => ({ st with w := w, bigWc := none }, .unit)
  | .readH => let (st1, H) := readH F st; (st1, .mom H)
  | .readBigH =>
    match readBigH F st with
    | (st1, .ok M) => (st1, .mat M)
    | (st1, .error e) => (st1, .err e)
  | .readHkl k l => let (st1, H) := readH F st; (st1, getD2 H k l)
  | .readHk k =>
    match readBigH F st with
    | (st1, .ok M) => (st1, getD1 (rowSplit M st1.nrU) k)
    | (st1, .error e) => (st1, .err e)
  | .readBigHNoExt =>
    if st.isExt then
      match readBigH F st with
      | (st1, .ok M) => (st1, .mat (takeCols M st1.ntU.sum))
      | (st1, .error e) => (st1, .err e)
    else (st, .err .AttributeError)
  | .readHkNoExt k =>
    if st.isExt then
      match readBigH F st with
      | (st1, .ok M) => (st1, getD1 (rowSplit (takeCols M st1.ntU.sum) st1.nrU) k)
      | (st1, .error e) => (st1, .err e)
    else (st, .err .AttributeError)
  | .readHNoExt =>
    if st.isExt then
      if cfg.hNoExtViaH then
        let (st1, H) := readH F st
        (st1, .mom (H.map fun r => r.take st1.userK))
      else
        match readHNoExtOrig F st with
        | (st1, .ok H) => (st1, .mom H)
        | (st1, .error e) => (st1, .err e)
    else (st, .err .AttributeError)
  | .corrupt x xe noise => doCorrupt F st x xe noise
  | .readLayout =>
    (st, .layout st.userK st.nrU st.ntU (if st.isExt then st.nt.drop (st.nt.length - st.extK) else []))
  | .readPL => (st, .optMat st.pl)
  | .readBigWView => let (st1, bw) := readBigW st; (st1, .optMat bw)
  | .readNoiseVar => (st, .optScalar st.noiseVar)
  | .readLastNoise => (st, .optMat st.lastNoise)
  | .corruptCat X noise => doCorruptCat F st X noise
  | .stackData x xe => (st, .mat (if st.isExt then x ++ xe else x).flatten)
  | .query => (st, .unit)

/-- run a history; outputs in order -/
def run (cfg : Cfg) (F : Fns α) : State α → List (Op α) → State α × List (Out α)
  | st, [] => (st, [])
  | st, op :: ops =>
    let (st1, o) := step cfg F st op
    let (st2, os) := run cfg F st1 ops
    (st2, o :: os)

end Step

end PyPhysim.C08
