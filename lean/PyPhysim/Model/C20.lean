import PyPhysim.Model.Proto
/-!
# C20 — model of the subspace / linear-algebra kernels (core Lean only)

Mirrors `pyphysim/subspace/projections.py`, `pyphysim/subspace/metrics.py` and the
kernels `peig`, `leig`, `least_right_singular_vectors`,
`get_principal_component_matrix`, `calc_whitening_matrix`,
`update_inv_sum_diag` of `pyphysim/util/misc.py`, plus the dB / dBm / Eb-N0
conversions of `pyphysim/util/conversion.py`.

Everything is polymorphic in the scalar through core notation classes, so the
same text is instantiated at `ℂ` / `ℝ` (Mathlib) in `Proofs/` and at a
binary64 complex type in the compiled driver.

External numeric kernels (`np.linalg.inv / qr / svd / eig(h)`, `np.argsort`)
are NOT modelled: their *results* are parameters (`G`, `Q1`, `S`, `V`, `perm`
…) of the model functions, the theorems quantify over every value satisfying
the stated contract, and the harness checks the contract on each case.
-/
namespace PyPhysim.LinAlg
open PyPhysim.Proto

/-- complex conjugation (`.conjugate()`); identity on real scalars -/
class Conj (α : Type) where
  conj : α → α

/-- real square root applied to a (real, non-negative) scalar: `math.sqrt`,
    `x**0.5`, the root inside `np.linalg.norm(.., 'fro')` -/
class RSqrt (α : Type) where
  sqrt : α → α

/-- transcendental functions on real scalars -/
class Transc (ρ : Type) where
  log10 : ρ → ρ
  pow10 : ρ → ρ        -- `pow(10, x)`
  acos : ρ → ρ
  sin : ρ → ρ

abbrev Mat (α : Type) (m n : Nat) := Fin m → Fin n → α

section matrix
variable {α : Type}

/-- left-to-right sum of `f 0 … f (n-1)` -/
def sumFin [Zero α] [Add α] : (n : Nat) → (Fin n → α) → α
  | 0, _ => 0
  | n+1, f => sumFin n (fun i => f i.castSucc) + f (Fin.last n)

variable [Zero α] [One α] [Add α] [Sub α] [Mul α]

/-- `A.dot(B)` -/
def matMul {m k n : Nat} (A : Mat α m k) (B : Mat α k n) : Mat α m n :=
  fun i j => sumFin k (fun l => A i l * B l j)

/-- `A.conjugate().transpose()` -/
def cT [Conj α] {m n : Nat} (A : Mat α m n) : Mat α n m :=
  fun i j => Conj.conj (A j i)

/-- `np.eye(n)` -/
def eye {n : Nat} : Mat α n n := fun i j => if i = j then 1 else 0

def msub {m n : Nat} (A B : Mat α m n) : Mat α m n := fun i j => A i j - B i j
def madd {m n : Nat} (A B : Mat α m n) : Mat α m n := fun i j => A i j + B i j
def smul {m n : Nat} (c : α) (A : Mat α m n) : Mat α m n := fun i j => c * A i j

/-- `A.dot(v)` for a vector `v` -/
def mulVec {m n : Nat} (A : Mat α m n) (v : Fin n → α) : Fin m → α :=
  fun i => sumFin n (fun l => A i l * v l)

/-- `np.diag(d)` -/
def diagM {n : Nat} (d : Fin n → α) : Mat α n n := fun i j => if i = j then d i else 0

/-- the argument handed to `np.linalg.inv` by `calcProjectionMatrix`: `A_H.dot(A)` -/
def gram [Conj α] {m k : Nat} (A : Mat α m k) : Mat α k k := matMul (cT A) A

/-- `Projection.calcProjectionMatrix(A)` where `G` is the value returned by
    `np.linalg.inv(A_H.dot(A))`:  `(A.dot(G)).dot(A_H)` -/
def projWith [Conj α] {m k : Nat} (G : Mat α k k) (A : Mat α m k) : Mat α m m :=
  matMul (matMul A G) (cT A)

/-- `Projection.calcOrthogonalProjectionMatrix(A)`: `np.eye(m) - Q` -/
def oprojWith [Conj α] {m k : Nat} (G : Mat α k k) (A : Mat α m k) : Mat α m m :=
  msub eye (projWith G A)

/-- `Projection.project` / `Projection.oProject`: `Q.dot(M)` -/
def project {m c : Nat} (Q : Mat α m m) (M : Mat α m c) : Mat α m c := matMul Q M

/-- `Projection.reflect`: `(np.eye(m) - 2 * Q).dot(M)` -/
def reflect {m c : Nat} (Q : Mat α m m) (M : Mat α m c) : Mat α m c :=
  matMul (msub eye (smul (1 + 1) Q)) M

/-- squared Frobenius norm `Σ_ij D_ij · conj D_ij` -/
def frobSq [Conj α] {m n : Nat} (D : Mat α m n) : α :=
  sumFin m (fun i => sumFin n (fun j => D i j * Conj.conj (D i j)))

/-- `np.linalg.norm(P1 - P2, 'fro') / math.sqrt(2)` -/
def chordOfProj [Conj α] [RSqrt α] [Div α] {m : Nat} (P1 P2 : Mat α m m) : α :=
  RSqrt.sqrt (frobSq (msub P1 P2)) / RSqrt.sqrt (1 + 1)

/-- `calc_chordal_distance_2(A, B)`; `GA`, `GB` = results of the two `inv` calls -/
def chordal2 [Conj α] [RSqrt α] [Div α] {m p q : Nat}
    (GA : Mat α p p) (GB : Mat α q q) (A : Mat α m p) (B : Mat α m q) : α :=
  chordOfProj (projWith GA A) (projWith GB B)

/-- `calc_chordal_distance(A, B)`; `Q1`, `Q2` = the `Q` factors returned by
    `np.linalg.qr(A)[0]`, `np.linalg.qr(B)[0]` -/
def chordal [Conj α] [RSqrt α] [Div α] {m p q : Nat} (Q1 : Mat α m p) (Q2 : Mat α m q) : α :=
  chordOfProj (matMul Q1 (cT Q1)) (matMul Q2 (cT Q2))

/-- the argument handed to `np.linalg.svd` by `calc_principal_angles`:
    `Q1.conjugate().transpose().dot(Q2)` -/
def pangleArg [Conj α] {m p q : Nat} (Q1 : Mat α m p) (Q2 : Mat α m q) : Mat α p q :=
  matMul (cT Q1) Q2

/-- `calc_whitening_matrix`: `np.dot(V, np.diag(1. / (L**0.5)))` where `L` are the
    eigenvalues returned by `np.linalg.eig(cov)` and `V` is the `Q` factor returned
    by `np.linalg.qr` for the eigenvector matrix -/
def whiten [RSqrt α] [Div α] {n : Nat} (L : Fin n → α) (V : Mat α n n) : Mat α n n :=
  matMul V (diagM (fun i => 1 / RSqrt.sqrt (L i)))

/-- one Sherman–Morrison update of `update_inv_sum_diag`:
    `inv -= d * outer(inv[:, i], inv[i, :]) / (1 + d * inv[i, i])` -/
def smStep [Div α] {n : Nat} (inv : Mat α n n) (i : Fin n) (d : α) : Mat α n n :=
  fun r c => inv r c - (d * (inv r i * inv i c)) / (1 + d * inv i i)

/-- loop of `update_inv_sum_diag` from position `i` on
    (`for index, d in zip(range(diagonal.size), diagonal)`); an index beyond the
    matrix is numpy's `IndexError` -/
def uisdGo [Div α] {n : Nat} : Nat → List α → Mat α n n → Except PyErr (Mat α n n)
  | _, [], inv => .ok inv
  | i, d :: ds, inv =>
    if h : i < n then uisdGo (i + 1) ds (smStep inv ⟨i, h⟩ d) else .error .IndexError

/-- `update_inv_sum_diag(invA, diagonal)` -/
def updateInvSumDiag [Div α] {n : Nat} (invA : Mat α n n) (diagonal : List α) :
    Except PyErr (Mat α n n) := uisdGo 0 diagonal invA

/-- the pivots `1 + d * inv[i, i]` the loop divides by -/
def uisdPivots [Div α] {n : Nat} : Nat → List α → Mat α n n → List α
  | _, [], _ => []
  | i, d :: ds, inv =>
    if h : i < n then (1 + d * inv ⟨i, h⟩ ⟨i, h⟩) :: uisdPivots (i + 1) ds (smStep inv ⟨i, h⟩ d)
    else []

/-- the diagonal matrix `D` that has been added after the whole loop: entry
    `r` is `ds[r - i]` for `i ≤ r < i + len ds`, zero elsewhere -/
def diagFrom {n : Nat} (i : Nat) (ds : List α) : Mat α n n :=
  fun r c => if r = c then (if i ≤ r.val then (ds[r.val - i]?).getD 0 else 0) else 0

end matrix

/-! ## eigen / singular vector selectors (index level) -/
section select
variable {α : Type}

/-- column `j` of `V` (`V[:, j]`) -/
def getCol {r c : Nat} (V : Mat α r c) (j : Nat) : Except PyErr (Fin r → α) :=
  if h : j < c then .ok (fun i => V i ⟨j, h⟩) else .error .IndexError

def getEntry {c : Nat} (D : Fin c → α) (j : Nat) : Except PyErr α :=
  if h : j < c then .ok (D ⟨j, h⟩) else .error .IndexError

/-- indexes kept by `peig`: `np.argsort(D.real)[::-1][0:n]`; `perm` is the value
    returned by `np.argsort` -/
def peigIdx (ncols n : Nat) (perm : List Nat) : Except PyErr (List Nat) :=
  if n > ncols then .error .ValueError else .ok (perm.reverse.take n)

/-- indexes kept by `leig`: `np.argsort(D.real)[0:n]` -/
def leigIdx (ncols n : Nat) (perm : List Nat) : Except PyErr (List Nat) :=
  if n > ncols then .error .ValueError else .ok (perm.take n)

/-- `V[:, idx], D[idx]` as a list of (eigenvector, eigenvalue) pairs -/
def selectPairs {r c : Nat} (V : Mat α r c) (D : Fin c → α) :
    List Nat → Except PyErr (List ((Fin r → α) × α))
  | [] => .ok []
  | j :: js =>
    match getCol V j, getEntry D j, selectPairs V D js with
    | .ok v, .ok d, .ok rest => .ok ((v, d) :: rest)
    | .error e, _, _ => .error e
    | _, .error e, _ => .error e
    | _, _, .error e => .error e

/-- `peig(A, n)`; `(D, V)` = value returned by `np.linalg.eig(A)`, `perm` = value
    of `np.argsort(D.real)`; `A` is `r × c` (the code reads `ncols` from `A`) -/
def peig {r c : Nat} (D : Fin c → α) (V : Mat α r c) (perm : List Nat) (n : Nat) :
    Except PyErr (List ((Fin r → α) × α)) := do
  let idx ← peigIdx c n perm
  selectPairs V D idx

/-- `leig(A, n)` -/
def leig {r c : Nat} (D : Fin c → α) (V : Mat α r c) (perm : List Nat) (n : Nat) :
    Except PyErr (List ((Fin r → α) × α)) := do
  let idx ← leigIdx c n perm
  selectPairs V D idx

/-- `sort_indexes = list(reversed(range(0, V.shape[0])))` -/
def lrsvOrder (c : Nat) : List Nat := (List.range c).reverse

/-- column indexes of `V0` and `V1` in `least_right_singular_vectors(A, n)`
    (`A` has `c` columns) -/
def lrsvIdx (c n : Nat) : List Nat × List Nat :=
  ((lrsvOrder c).take n, (lrsvOrder c).drop n)

/-- `S = np.concatenate([S, np.zeros(V.shape[0] - S.size)])`: the singular values
    padded with zeros to one entry per column -/
def padS [Zero α] (S : List α) (c : Nat) : List α := S ++ List.replicate (c - S.length) 0

/-- fancy indexing `S[idx]` (numpy raises `IndexError` for an index beyond the array) -/
def pick (S : List α) : List Nat → Except PyErr (List α)
  | [] => .ok []
  | j :: js =>
    match S[j]?, pick S js with
    | some s, .ok rest => .ok (s :: rest)
    | none, _ => .error .IndexError
    | _, .error e => .error e

/-- the singular values returned with `V1`: `S[sort_indexes[n:]]` on the padded `S` -/
def lrsvS [Zero α] (S : List α) (c n : Nat) : Except PyErr (List α) :=
  pick (padS S c) (lrsvIdx c n).2

/-- `get_principal_component_matrix(A, k)` for `k ≤ c`; `(U, S, VH)` = value of
    `np.linalg.svd(A)` (`U : m×m`, `S : min(m,c)`, `VH : c×c`):
    `U.dot(newS.dot(V_H[:newS.shape[1], :k]))` with `newS = diag(S[:k], 0 …)[:, :c]`
    (`m × min(m,c)`) -/
def gpcm [Zero α] [Add α] [Mul α] {m c : Nat} (U : Mat α m m) (S : Fin (min m c) → α)
    (VH : Mat α c c) (k : Nat) (hk : k ≤ c) : Mat α m k :=
  matMul U (matMul
    (fun (a : Fin m) (b : Fin (min m c)) => if a.val = b.val ∧ a.val < k then S b else 0)
    (fun (b : Fin (min m c)) (j : Fin k) =>
      VH ⟨b.val, Nat.lt_of_lt_of_le b.isLt (Nat.min_le_right m c)⟩
         ⟨j.val, Nat.lt_of_lt_of_le j.isLt hk⟩))

/-- the `m × c` rectangular diagonal matrix `Σ` of a full SVD `A = U Σ Vᴴ`
    (`S` has `min m c` entries) -/
def sigmaMat [Zero α] {m c : Nat} (S : Fin (min m c) → α) : Mat α m c :=
  fun a b => if h : a.val = b.val then S ⟨b.val, Nat.lt_min.mpr ⟨h ▸ a.isLt, b.isLt⟩⟩ else 0

end select

/-! ## conversions (`util/conversion.py`) -/
section conv
variable {ρ : Type} [Add ρ] [Sub ρ] [Mul ρ] [Div ρ] [OfNat ρ 10] [OfNat ρ 1000] [Transc ρ]

/-- `pow(10, valueIndB / 10.0)` -/
def dB2Linear (valueIndB : ρ) : ρ := Transc.pow10 (valueIndB / 10)
/-- `10.0 * np.log10(valueInLinear)` -/
def linear2dB (valueInLinear : ρ) : ρ := 10 * Transc.log10 valueInLinear
/-- `dB2Linear(valueIndBm) / 1000.` -/
def dBm2Linear (valueIndBm : ρ) : ρ := dB2Linear valueIndBm / 1000
/-- `linear2dB(valueInLinear * 1000.)` -/
def linear2dBm (valueInLinear : ρ) : ρ := linear2dB (valueInLinear * 1000)
/-- `SNR - 10 * np.log10(bits_per_symb)` -/
def snrToEbN0 (snr bits : ρ) : ρ := snr - 10 * Transc.log10 bits
/-- `EbN0 + 10 * np.log10(bits_per_symb)` -/
def ebN0ToSnr (ebn0 bits : ρ) : ρ := ebn0 + 10 * Transc.log10 bits

end conv

/-! ## principal angles (`calc_principal_angles`, `…_from_principal_angles`) -/
section angles
variable {ρ : Type} [Zero ρ] [One ρ] [Add ρ] [Mul ρ] [LT ρ] [DecidableLT ρ] [Transc ρ] [RSqrt ρ]

/-- `S[S > 1] = 1; return np.arccos(S)`; `S` = singular values returned by the
    `svd` kernel for `pangleArg Q1 Q2` -/
def principalAngles (S : List ρ) : List ρ :=
  S.map (fun s => Transc.acos (if 1 < s then 1 else s))

/-- `np.sum(np.sin(angles)**2)` -/
def sumSinSq : List ρ → ρ
  | [] => 0
  | t :: ts => Transc.sin t * Transc.sin t + sumSinSq ts

/-- `calc_chordal_distance_from_principal_angles` -/
def chordalFromAngles (angles : List ρ) : ρ := RSqrt.sqrt (sumSinSq angles)

end angles

end PyPhysim.LinAlg
