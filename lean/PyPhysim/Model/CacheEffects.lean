/-!
# Effect tables of the methods of a class with lazily computed attributes (core Lean only)

Vocabulary shared by the generated modules `Generated/C08Effects.lean`,
`Generated/C10Effects.lean` (re-emitted from the Python source by
`harness/gen/_effects.py` on every check run) and by the bridge theorems of
`Properties/C08.lean`, `Properties/C10.lean`.

A `Row` says what one entry point (public method, property getter, property
setter; private helpers and base-class calls inlined) does to the data attributes
`self._x` of the object on the paths that leave it normally:

* `clears`   — reset to `None` on EVERY normal path (last write is the literal `None`);
* `assigns`  — written on every normal path, not always with `None`;
* `mayWrite` — written on some normal paths only (a write behind a condition / an early `return`);
* `fills`    — possibly filled lazily (`if self._x is None: self._x = …`);
* `reads`    — loaded on some path.

A dependency table `Deps` lists, for every *derived* attribute (a lazily filled
cache, or an attribute that is recomputed eagerly from others), the attributes
its value is computed from.  `sufficient` is the decidable condition

    every entry point that writes an attribute `a` resets or rewrites, on every
    normal path, every derived attribute whose dependency closure contains `a`

i.e. a mutator may not forget a cache, and no cache may be unknown to a mutator
that changes something it (transitively) reads.
-/
namespace PyPhysim.CacheEffects

structure Row where
  /-- the class the entry point is resolved for (overrides first) -/
  cls : String
  /-- Python name; the setter of property `p` is `"p.setter"` -/
  name : String
  clears : List String
  assigns : List String
  mayWrite : List String
  fills : List String
  reads : List String
  deriving DecidableEq, Repr

/-- attributes the entry point may change (lazy fills apart) -/
def Row.written (r : Row) : List String := r.clears ++ r.assigns ++ r.mayWrite

/-- attributes the entry point resets or rewrites on every normal path -/
def Row.mustWritten (r : Row) : List String := r.clears ++ r.assigns

/-- derived attribute ↦ attributes its value is computed from -/
abbrev Deps := List (String × List String)

/-- direct dependencies of `c` (all entries for `c` together) -/
def Deps.direct (d : Deps) (c : String) : List String :=
  (d.filter fun e => e.1 == c).flatMap fun e => e.2

/-- add what the members of `xs` depend on -/
def Deps.grow (d : Deps) (xs : List String) : List String :=
  (xs.flatMap d.direct).foldl (fun acc a => if acc.contains a then acc else acc ++ [a]) xs

/-- `n` rounds of `grow` -/
def Deps.growN (d : Deps) : Nat → List String → List String
  | 0, xs => xs
  | n + 1, xs => d.growN n (d.grow xs)

/-- everything `c` transitively depends on (a chain of dependencies through derived attributes
    is at most as long as the table) -/
def Deps.closure (d : Deps) (c : String) : List String :=
  d.growN d.length (d.direct c).eraseDups

/-- the derived attributes of a table -/
def Deps.derived (d : Deps) : List String := (d.map fun e => e.1).eraseDups

/-- one entry point respects the table: whatever it writes, every derived attribute that
    transitively reads it (other than the written attribute itself) is reset or rewritten on
    every normal path -/
def sufficientRow (d : Deps) (r : Row) : Bool :=
  d.derived.all fun c =>
    r.mustWritten.contains c ||
      r.written.all fun a => a == c || !(d.closure c).contains a

/-- as `sufficientRow`, but the derived attributes selected by `skip` are not examined -/
def sufficientRowBut (skip : String → Bool) (d : Deps) (r : Row) : Bool :=
  d.derived.all fun c =>
    skip c || r.mustWritten.contains c ||
      r.written.all fun a => a == c || !(d.closure c).contains a

/-- the rows of class `cls` -/
def rowsOf (rows : List Row) (cls : String) : List Row := rows.filter fun r => r.cls == cls

/-- every entry point of every class respects the dependency table of its class -/
def sufficient (deps : String → Deps) (rows : List Row) : Bool :=
  rows.all fun r => sufficientRow (deps r.cls) r

/-- `sufficient` with exemptions: `skip r c` = derived attribute `c` is not examined for row `r` -/
def sufficientBut (skip : Row → String → Bool) (deps : String → Deps) (rows : List Row) : Bool :=
  rows.all fun r => sufficientRowBut (skip r) (deps r.cls) r

/-- the rows that break `sufficient`, as `(class, entry point, derived attribute, written attribute)`
    (diagnostic output for the harness; empty iff `sufficient`) -/
def violations (deps : String → Deps) (rows : List Row) : List (String × String × String × String) :=
  rows.flatMap fun r =>
    let d := deps r.cls
    d.derived.flatMap fun c =>
      if r.mustWritten.contains c then []
      else (r.written.filter fun a => a != c && (d.closure c).contains a).map fun a => (r.cls, r.name, c, a)

/-- sorted copy without duplicates (tables are compared as sets) -/
def norm (xs : List String) : List String :=
  (xs.foldl (fun acc a => if acc.contains a then acc else
    (acc.takeWhile fun b => b < a) ++ [a] ++ (acc.dropWhile fun b => b < a)) [])

/-- image of an attribute list under a partial renaming (unmapped attributes are dropped) -/
def mapAttrs (f : String → Option String) (xs : List String) : List String := norm (xs.filterMap f)

end PyPhysim.CacheEffects
