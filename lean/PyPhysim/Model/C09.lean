import PyPhysim.Model.Proto
/-!
# C09 — model of the block-diagonalisation precoders (core Lean only)

Mirrors `pyphysim/comm/blockdiagonalization.py`:
`BlockDiagonalizer._get_sub_channel / _get_tilde_channel /
_calc_BD_matrix_no_power_scaling / _perform_global_waterfilling_power_scaling /
_perform_normalized_waterfilling_power_scaling / block_diagonalize /
block_diagonalize_no_waterfilling / calc_receive_filter`,
`WhiteningBD.block_diagonalize_no_waterfilling /
_calc_receive_filter_with_whitening`, and `EnhancedBD`
(`calc_receive_filter_user_k`, `_calc_linear_SINRs`, the three
`_perform_BD_no_waterfilling_*` paths), together with the column selection of
`util.misc.least_right_singular_vectors`, `subspace.projections.calcProjectionMatrix`,
`util.misc.calc_shannon_sum_capacity` and the covariance
`MultiUserChannelMatrixExtInt.calc_cov_matrix_extint_plus_noise`.

Domain of the model = domain of the property: `K` users with the same number
`N` of receive and of transmit antennas (`T = K·N` transmit antennas in
total) and a channel of full rank, so that `nStreams = iNr − rank(H̃_k) = N`
for every user (the driver answers `out-of-model` when the rank the code
obtained from `np.linalg.matrix_rank` is different).

Two scalar types: `ρ` (real: powers, norms, singular values, SINRs) and `α`
(complex: channel / precoder / filter entries) linked by the class `Cx`.  In
`Proofs/` they are `ℝ` and `ℂ`, in the compiled driver binary64 and a pair of
binary64.

External numeric kernels are NOT modelled.  Their *results* are parameters:
`VH` (third output of `np.linalg.svd`), `S` (second output), the rank returned
by `np.linalg.matrix_rank`, `p` (first output of `waterfilling.doWF`), `W`
(`np.linalg.pinv`), `G` (`np.linalg.inv`), the whitening matrices returned by
`calc_whitening_matrix`, the values returned by the metric function.  Theorems
quantify over every value satisfying the stated contract; the harness checks
the contract numerically on every case.
-/
namespace PyPhysim.BD
open PyPhysim.Proto

/-- complex scalars `α` over real scalars `ρ` -/
class Cx (ρ : outParam Type) (α : Type) where
  /-- a real number used as a complex factor (`M * np.sqrt(iPu)`) -/
  ofReal : ρ → α
  /-- `np.abs(z)**2`, the squares summed by `np.linalg.norm(., 'fro')` -/
  normSq : α → ρ
  /-- `z.real` -/
  re : α → ρ
  /-- `z.conjugate()` -/
  conj : α → α

/-- real functions: `np.sqrt`, `np.log2` -/
class RFun (ρ : Type) where
  sqrt : ρ → ρ
  log2 : ρ → ρ

abbrev Mat (α : Type) (m n : Nat) := Fin m → Fin n → α

/-! ## index bookkeeping of the user blocks -/
section index
variable {K N : Nat}

theorem join_lt (k : Fin K) (i : Fin N) : k.val * N + i.val < K * N := by
  have h1 : (k.val + 1) * N ≤ K * N := Nat.mul_le_mul_right N k.isLt
  have h2 : (k.val + 1) * N = k.val * N + N := Nat.succ_mul _ _
  have := i.isLt
  omega

/-- row / column `i` of user `k`: index `k·N + i` (`range(N*k, (k+1)*N)`) -/
def join (k : Fin K) (i : Fin N) : Fin (K * N) := ⟨k.val * N + i.val, join_lt k i⟩

theorem width_pos (x : Fin (K * N)) : 0 < N := by
  cases N with
  | zero => exact absurd x.isLt (by simp)
  | succ n => exact Nat.succ_pos n

/-- the user an index belongs to -/
def userOf (x : Fin (K * N)) : Fin K :=
  ⟨x.val / N, Nat.div_lt_of_lt_mul (Nat.mul_comm K N ▸ x.isLt)⟩

/-- position of an index inside its user block -/
def within (x : Fin (K * N)) : Fin N := ⟨x.val % N, Nat.mod_lt _ (width_pos x)⟩

end index

section matrix
variable {ρ α : Type}

/-- left-to-right sum of `f 0 … f (n-1)` -/
def sumFin {β : Type} [Zero β] [Add β] : (n : Nat) → (Fin n → β) → β
  | 0, _ => 0
  | n+1, f => sumFin n (fun i => f i.castSucc) + f (Fin.last n)

variable [Zero α] [One α] [Add α] [Sub α] [Mul α] [Div α]
variable [Zero ρ] [One ρ] [Add ρ] [Mul ρ] [Div ρ] [Neg ρ] [LT ρ] [DecidableLT ρ]
variable [Cx ρ α] [RFun ρ]

/-- `np.dot(A, B)` -/
def matMul {m k n : Nat} (A : Mat α m k) (B : Mat α k n) : Mat α m n :=
  fun i j => sumFin k (fun l => A i l * B l j)

/-- `A.conjugate().T` -/
def cT {m n : Nat} (A : Mat α m n) : Mat α n m := fun i j => Cx.conj (A j i)

/-- `np.eye(n)` -/
def eye {n : Nat} : Mat α n n := fun i j => if i = j then 1 else 0

/-- `np.diag(d)` -/
def diagM {n : Nat} (d : Fin n → α) : Mat α n n := fun i j => if i = j then d i else 0

/-- squared Frobenius norm `Σ |a_ij|²` -/
def frobSq {m n : Nat} (A : Mat α m n) : ρ :=
  sumFin m (fun i => sumFin n (fun j => Cx.normSq (A i j)))

/-- `np.linalg.norm(A, 'fro')` -/
def frobNorm {m n : Nat} (A : Mat α m n) : ρ := RFun.sqrt (frobSq A)

/-- `A * s / c` with real `s`, `c` (entrywise) -/
def scaleBy {m n : Nat} (A : Mat α m n) (s c : ρ) : Mat α m n :=
  fun i j => A i j * Cx.ofReal s / Cx.ofReal c

/-- `c * H`: a common complex gain / path loss applied to the whole channel -/
def scaleMat {m n : Nat} (c : α) (A : Mat α m n) : Mat α m n := fun i j => c * A i j

/-! ### channel slices -/

/-- `_get_sub_channel(H, k)` (also `single_matrix_to_matrix_of_matrices(H, Nr)[k]`):
    the rows of user `k` -/
def rowBlock {K N T : Nat} (H : Mat α (K * N) T) (k : Fin K) : Mat α N T :=
  fun r c => H (join k r) c

/-- `vtIndexes` of `_get_tilde_channel(H, k)`: for every user other than `k`, in
    order, the rows `range(N*u, (u+1)*N)` -/
def tildeIdx {K N : Nat} (k : Fin K) : List (Fin (K * N)) :=
  ((List.finRange K).filter (fun u => u ≠ k)).flatMap (fun u => (List.finRange N).map (join u))

/-- `vtIndexes` of `_get_sub_channel(H, desired_users)` for an iterable of users: for every
    listed user, in the order given, the rows `range(N*u, (u+1)*N)` (a single integer user `u` is
    the list `[u]`) -/
def subIdx {K N : Nat} (users : List (Fin K)) : List (Fin (K * N)) :=
  users.flatMap (fun u => (List.finRange N).map (join u))

/-- `desiredUsers` of `_get_tilde_channel(H, k)`: `[i for i in range(K) if i != k]` — the users
    are compared by VALUE -/
def otherUsers {K : Nat} (k : Fin K) : List (Fin K) := (List.finRange K).filter (fun u => u ≠ k)

/-- fancy row indexing `H[idx, :]` -/
def rowsOf {R T : Nat} (H : Mat α R T) (idx : List (Fin R)) : Mat α idx.length T :=
  fun r c => H (idx.get r) c

/-- `_get_tilde_channel(H, k)`: the stacked channel of all users except `k` -/
def tildeChannel {K N T : Nat} (H : Mat α (K * N) T) (k : Fin K) : Mat α (tildeIdx (N := N) k).length T :=
  rowsOf H (tildeIdx k)

/-- `Ms[:, k*N : k*N + N]` (also `single_matrix_to_matrix_of_matrices(Ms, None, Nt)[k]`) -/
def colBlock {K N T : Nat} (M : Mat α T (K * N)) (k : Fin K) : Mat α T N :=
  fun i c => M i (join k c)

/-- `single_matrix_to_matrix_of_matrices(A, Nr, Nt)[k, k]` -/
def diagBlock {K N : Nat} (A : Mat α (K * N) (K * N)) (k : Fin K) : Mat α N N :=
  fun r c => A (join k r) (join k c)

/-- `np.hstack([M_0, …, M_{K-1}])` of blocks of equal width -/
def stackCols {K N T : Nat} (M : Fin K → Mat α T N) : Mat α T (K * N) :=
  fun i c => M (userOf c) i (within c)

/-- `Sigma.extend(S)` for every user, in order -/
def stackVec {K N : Nat} {β : Type} (s : Fin K → Fin N → β) : Fin (K * N) → β :=
  fun c => s (userOf c) (within c)

/-- `scipy.linalg.block_diag(*F)` for square blocks of equal size -/
def blockDiag {K N : Nat} (F : Fin K → Mat α N N) : Mat α (K * N) (K * N) :=
  fun r c => if userOf r = userOf c then F (userOf r) (within r) (within c) else 0

/-! ### `least_right_singular_vectors` -/

/-- `sort_indexes[j]` for `sort_indexes = list(reversed(range(0, T)))`: `T − 1 − j` -/
def revIdx {T n : Nat} (h : n ≤ T) (j : Fin n) : Fin T := ⟨T - 1 - j.val, by have := j.isLt; omega⟩

/-- `V[:, sort_indexes[0:n]]` with `V = V_H.conjugate().transpose()`: the `n` right
    singular vectors of the smallest singular values, least first -/
def leastCols {T : Nat} (VH : Mat α T T) (n : Nat) (h : n ≤ T) : Mat α T n :=
  fun i j => Cx.conj (VH (revIdx h j) i)

/-- `S[sort_indexes[0:]]`: the singular values in increasing order -/
def revVec {n : Nat} {β : Type} (S : Fin n → β) : Fin n → β := fun j => S (revIdx (Nat.le_refl n) j)

/-- `nStreams = iNr - np.linalg.matrix_rank(tilde_H_cur_user)` -/
def nStreams (iNr rank : Nat) : Nat := iNr - rank

/-! ### `_calc_BD_matrix_no_power_scaling`, one user -/

/-- what the loop body computes for one user -/
structure UserBD (ρ α : Type) (T N : Nat) where
  /-- `tilde_V0` -/
  V0 : Mat α T N
  /-- `np.dot(H_cur_user, tilde_V0)`: the argument of the second `svd` -/
  heq : Mat α N N
  /-- `V1` of the second call -/
  V1 : Mat α N N
  /-- `np.dot(tilde_V0, V1)` -/
  Ms : Mat α T N
  /-- `S` of the second call -/
  sigma : Fin N → ρ

/-- loop body of `_calc_BD_matrix_no_power_scaling` for a user whose channel is
    `Hk`; `VH1` = `V_H` returned by `svd(tilde_H)`, `(S2, VH2)` = values returned
    by `svd(np.dot(H_cur_user, tilde_V0))`; `nStreams = N` -/
def userBD {T N : Nat} (hN : N ≤ T) (Hk : Mat α N T) (VH1 : Mat α T T) (VH2 : Mat α N N)
    (S2 : Fin N → ρ) : UserBD ρ α T N :=
  let V0 := leastCols VH1 N hN
  let V1 := leastCols VH2 N (Nat.le_refl N)
  { V0 := V0, heq := matMul Hk V0, V1 := V1, Ms := matMul V0 V1, sigma := revVec S2 }

/-! ### power scaling -/

/-- `_perform_global_waterfilling_power_scaling`:
    `np.dot(Ms_bad, np.diag(np.sqrt(vtOptP)))`; `p` = `doWF(Sigma**2, K*iPu, noise_var)[0]` -/
def globalWF {T n : Nat} (MsBad : Mat α T n) (p : Fin n → ρ) : Mat α T n :=
  matMul MsBad (diagM (fun j => Cx.ofReal (RFun.sqrt (p j))))

/-- the argument handed to `doWF`: `Sigma**2` -/
def wfGains {n : Nat} (sigma : Fin n → ρ) : Fin n → ρ := fun j => sigma j * sigma j

/-- `max_sqrt_P = 0; for c in xs: if c > max_sqrt_P: max_sqrt_P = c` -/
def maxLoop (xs : List ρ) : ρ := xs.foldl (fun mx c => if mx < c then c else mx) 0

/-- Frobenius norms of the transmitters' column blocks -/
def blockNorms {K N T : Nat} (M : Mat α T (K * N)) : List ρ :=
  (List.finRange K).map (fun k => frobNorm (colBlock M k))

/-- `_perform_normalized_waterfilling_power_scaling` -/
def normalizedWF {K N T : Nat} (iPu : ρ) (MsBad : Mat α T (K * N)) (p : Fin (K * N) → ρ) :
    Mat α T (K * N) :=
  let G := globalWF MsBad p
  let s := RFun.sqrt iPu
  let mx := maxLoop (blockNorms G)
  fun i j => G i j * Cx.ofReal s / Cx.ofReal mx

/-- power scaling of `block_diagonalize_no_waterfilling`: every transmitter's block is
    `user_matrix * np.sqrt(iPu) / np.linalg.norm(user_matrix, 'fro')` -/
def noWF {K N T : Nat} (iPu : ρ) (MsBad : Mat α T (K * N)) : Mat α T (K * N) :=
  fun i c => MsBad i c * Cx.ofReal (RFun.sqrt iPu) / Cx.ofReal (frobNorm (colBlock MsBad (userOf c)))

/-- `newH = np.dot(mtChannel, Ms_good)` -/
def newH {K N T : Nat} (H : Mat α (K * N) T) (Ms : Mat α T (K * N)) : Mat α (K * N) (K * N) := matMul H Ms

/-! ### `WhiteningBD` -/

/-- `calc_whitening_matrices`: `calc_whitening_matrix(R_k).conjugate().T` -/
def whiteningFilters {K N : Nat} (Ww : Fin K → Mat α N N) : Fin K → Mat α N N := fun k => cT (Ww k)

/-- `H_matrix_equiv = np.dot(block_diag(*filters), H_matrix)` -/
def whitenedChannel {K N T : Nat} (F : Fin K → Mat α N N) (H : Mat α (K * N) T) : Mat α (K * N) T :=
  matMul (blockDiag F) H

/-- `_calc_receive_filter_with_whitening`: block `[k, k]` of
    `np.dot(np.linalg.pinv(newH), whitening_filter)`; `W` = value returned by `pinv` -/
def whiteningRxFilter {K N : Nat} (W : Mat α (K * N) (K * N)) (F : Fin K → Mat α N N) (k : Fin K) :
    Mat α N N :=
  diagBlock (matMul W (blockDiag F)) k

/-! ### `EnhancedBD` -/

/-- `calc_cov_matrix_extint_plus_noise`: `pe * np.dot(extH, extH^H) + np.eye(N) * noise_var` -/
def covExtInt {N r : Nat} (pe nv : ρ) (E : Mat α N r) : Mat α N N :=
  fun i j => Cx.ofReal pe * matMul E (cT E) i j + eye i j * Cx.ofReal nv

/-- `np.eye(Ntk)[:, 0:num_streams]` -/
def eyeCols {N n : Nat} : Mat α N n := fun i j => if i.val = j.val then 1 else 0

/-- the argument handed to `np.linalg.inv` by `calcProjectionMatrix`: `A_H.dot(A)` -/
def gram {m k : Nat} (A : Mat α m k) : Mat α k k := matMul (cT A) A

/-- `calcProjectionMatrix(P)`: `(A.dot(G)).dot(A_H)`, `G` = value returned by `inv` -/
def projWith {m k : Nat} (G : Mat α k k) (A : Mat α m k) : Mat α m m := matMul (matMul A G) (cT A)

/-- what one `(user, Pk)` step of the stream-reduction loops computes -/
structure Reduced (ρ α : Type) (T N n : Nat) where
  /-- `np.linalg.norm(np.dot(Msk, Pk), 'fro') / np.sqrt(iPu)` -/
  normTerm : ρ
  /-- `np.dot(Msk, Pk) / norm_term` -/
  MsPk : Mat α T n
  /-- `Heq_k_red = np.dot(np.dot(Hk, Msk), Pk / norm_term)` -/
  heqRed : Mat α N n
  /-- `overbar_P = calcProjectionMatrix(Pk)` -/
  pbar : Mat α N N
  /-- `np.dot(overbar_P, Heq_k_red)`: the argument of `pinv` -/
  pinvArg : Mat α N n

/-- one step of `_perform_BD_no_waterfilling_fixed_or_naive_reduction` /
    `…_decide_number_streams` for a given reduction matrix `Pk`;
    `G` = value returned by `np.linalg.inv(Pk^H Pk)` -/
def reduce {T N n : Nat} (iPu : ρ) (Hk : Mat α N T) (Msk : Mat α T N) (Pk : Mat α N n) (G : Mat α n n) :
    Reduced ρ α T N n :=
  let MsP := matMul Msk Pk
  let nt := frobNorm MsP / RFun.sqrt iPu
  let heqRed := matMul (matMul Hk Msk) (fun i j => Pk i j / Cx.ofReal nt)
  let pbar := projWith G Pk
  { normTerm := nt, MsPk := fun i j => MsP i j / Cx.ofReal nt, heqRed := heqRed, pbar := pbar,
    pinvArg := matMul pbar heqRed }

/-- `calc_receive_filter_user_k(Heq_k_red, Pk)` for `Pk` not `None`:
    `np.dot(np.linalg.pinv(np.dot(overbar_P, Heq_k_P)), overbar_P)`; `Wp` = value of `pinv` -/
def rxFilterRed {N n : Nat} (Wp : Mat α n N) (pbar : Mat α N N) : Mat α n N := matMul Wp pbar

/-- `abs` of a real number -/
def rabs (x : ρ) : ρ := if x < 0 then -x else x

/-- `_calc_linear_SINRs(Heq_k_red, Wk, Re_k)` -/
def linearSINRs {N n : Nat} (heqRed : Mat α N n) (Wk : Mat α n N) (Re : Mat α N N) : Fin n → ρ :=
  let mtP := matMul Wk heqRed
  let ext := matMul Wk (matMul Re (cT Wk))
  fun i =>
    let desired := Cx.normSq (mtP i i)
    let internal := sumFin n (fun j => Cx.normSq (if i = j then mtP i j - mtP i j else mtP i j))
    desired / (internal + rabs (Cx.re (ext i i)))

/-- `calc_shannon_sum_capacity(sinrs)`: `np.sum(np.log2(1 + sinrs))` -/
def shannon {n : Nat} (sinrs : Fin n → ρ) : ρ := sumFin n (fun i => RFun.log2 (1 + sinrs i))

/-- `np.argmax(values)`: position of the first maximum -/
def argmaxFirst : List ρ → Nat
  | [] => 0
  | x :: xs => (xs.foldl (fun (acc : Nat × ρ × Nat) c =>
      if acc.2.1 < c then (acc.2.2, c, acc.2.2 + 1) else (acc.1, acc.2.1, acc.2.2 + 1)) (0, x, 1)).1

/-- number of streams kept when `best_index` was chosen: `Pk_all[best_index].shape[1]` -/
def streamsOfIndex (bestIndex : Nat) : Nat := bestIndex + 1


/-! ## the methods, end to end -/

/-- `_calc_BD_matrix_no_power_scaling(H)`, all users; `VH1 k` = `V_H` of `svd(H̃_k)`,
    `(S2 k, VH2 k)` = results of `svd(H_k · Ṽ0_k)` -/
def calcBD {K N : Nat} (hK : 0 < K) (H : Mat α (K * N) (K * N)) (VH1 : Fin K → Mat α (K * N) (K * N))
    (VH2 : Fin K → Mat α N N) (S2 : Fin K → Fin N → ρ) : Fin K → UserBD ρ α (K * N) N :=
  fun k => userBD (Nat.le_mul_of_pos_left N hK) (rowBlock H k) (VH1 k) (VH2 k) (S2 k)

/-- `Ms_bad = np.hstack(Ms_bad)` -/
def msBad {K N T : Nat} (u : Fin K → UserBD ρ α T N) : Mat α T (K * N) := stackCols (fun k => (u k).Ms)

/-- `Sigma = np.array(Sigma)` -/
def sigmaAll {K N T : Nat} (u : Fin K → UserBD ρ α T N) : Fin (K * N) → ρ := stackVec (fun k => (u k).sigma)

/-- `BlockDiagonalizer.block_diagonalize(H)`: `(newH, Ms_good)`;
    `p` = powers returned by `doWF(Sigma**2, K*iPu, noise_var)` -/
def blockDiagonalize {K N : Nat} (hK : 0 < K) (iPu : ρ) (H : Mat α (K * N) (K * N))
    (VH1 : Fin K → Mat α (K * N) (K * N)) (VH2 : Fin K → Mat α N N) (S2 : Fin K → Fin N → ρ)
    (p : Fin (K * N) → ρ) : Mat α (K * N) (K * N) × Mat α (K * N) (K * N) :=
  let Ms := normalizedWF iPu (msBad (calcBD hK H VH1 VH2 S2)) p
  (newH H Ms, Ms)

/-- `BlockDiagonalizer.block_diagonalize_no_waterfilling(H)`: `(newH, Ms_good)` -/
def blockDiagonalizeNoWF {K N : Nat} (hK : 0 < K) (iPu : ρ) (H : Mat α (K * N) (K * N))
    (VH1 : Fin K → Mat α (K * N) (K * N)) (VH2 : Fin K → Mat α N N) (S2 : Fin K → Fin N → ρ) :
    Mat α (K * N) (K * N) × Mat α (K * N) (K * N) :=
  let Ms := noWF iPu (msBad (calcBD hK H VH1 VH2 S2))
  (newH H Ms, Ms)

/-- what the external-interference variants return for one user -/
structure ExtOut (α : Type) (T N : Nat) where
  /-- `Ns_all_users[k]` -/
  ns : Nat
  /-- number of columns of the precoder = number of rows of the receive filter -/
  cols : Nat
  /-- `Ms_all_users[k]` / `MsPk_all_users[k]` -/
  Ms : Mat α T cols
  /-- `Wk_all_users[k]` -/
  W : Mat α cols N

/-- `WhiteningBD.block_diagonalize_no_waterfilling`: the channel handed to the plain
    algorithm, `np.dot(block_diag(filters), H)`; `Ww k` = `calc_whitening_matrix(R_k)` -/
def whiteningChannel {K N : Nat} (Ww : Fin K → Mat α N N) (H : Mat α (K * N) (K * N)) :
    Mat α (K * N) (K * N) := whitenedChannel (whiteningFilters Ww) H

/-- `WhiteningBD.block_diagonalize_no_waterfilling`, output for user `k`; `VH1, VH2, S2` =
    svd results obtained on the whitened channel, `W` = `np.linalg.pinv(newH)` -/
def whiteningBD {K N : Nat} (hK : 0 < K) (iPu : ρ) (H : Mat α (K * N) (K * N)) (Ww : Fin K → Mat α N N)
    (VH1 : Fin K → Mat α (K * N) (K * N)) (VH2 : Fin K → Mat α N N) (S2 : Fin K → Fin N → ρ)
    (W : Mat α (K * N) (K * N)) (k : Fin K) : ExtOut α (K * N) N :=
  let Ms := (blockDiagonalizeNoWF hK iPu (whiteningChannel Ww H) VH1 VH2 S2).2
  { ns := N, cols := N, Ms := colBlock Ms k, W := whiteningRxFilter W (whiteningFilters Ww) k }

/-- `EnhancedBD._perform_BD_no_waterfilling_no_stream_reduction`, output for user `k`;
    `Wp` = `np.linalg.pinv(newH[k, k])` -/
def enhancedNone {K N : Nat} (hK : 0 < K) (iPu : ρ) (H : Mat α (K * N) (K * N))
    (VH1 : Fin K → Mat α (K * N) (K * N)) (VH2 : Fin K → Mat α N N) (S2 : Fin K → Fin N → ρ)
    (Wp : Mat α N N) (k : Fin K) : ExtOut α (K * N) N :=
  let Ms := (blockDiagonalizeNoWF hK iPu H VH1 VH2 S2).2
  { ns := N, cols := N, Ms := colBlock Ms k, W := Wp }

/-- the reduction matrix of the `fixed` metric and of the metric-driven search:
    `_calc_stream_reduction_matrix(Re_k, n)`; `VHre` = `V_H` of `svd(Re_k)` -/
def reductionMatrix {N : Nat} (VHre : Mat α N N) (n : Nat) (hn : n ≤ N) : Mat α N n := leastCols VHre n hn

/-- one user of `_perform_BD_no_waterfilling_fixed_or_naive_reduction` for a given
    reduction matrix (`eyeCols` for `naive`, `reductionMatrix` for `fixed`) -/
def enhancedReduced {T N : Nat} (iPu : ρ) (Hk : Mat α N T) (Msk : Mat α T N) (n : Nat) (Pk : Mat α N n)
    (G : Mat α n n) (Wp : Mat α n N) : ExtOut α T N :=
  let r := reduce iPu Hk Msk Pk G
  { ns := n, cols := n, Ms := r.MsPk, W := rxFilterRed Wp r.pbar }

/-- `Pk` tried for `index = i` by `_perform_BD_no_waterfilling_decide_number_streams`:
    `np.eye(Ntk)` for the last index, the stream-reduction matrix otherwise -/
def decidePk {N : Nat} (VHre : Mat α N N) (i : Fin N) : Mat α N (i.val + 1) :=
  if i.val = N - 1 then eyeCols else reductionMatrix VHre (i.val + 1) (Nat.succ_le_of_lt i.isLt)

/-- one user of `_perform_BD_no_waterfilling_decide_number_streams`; `vals` = the metric
    values returned for `Ns_k = 1 … N`, `G i`, `Wp i` = `inv` / `pinv` results of step `i` -/
def enhancedDecide {T N : Nat} (iPu : ρ) (Hk : Mat α N T) (Msk : Mat α T N) (VHre : Mat α N N)
    (G : (i : Fin N) → Mat α (i.val + 1) (i.val + 1)) (Wp : (i : Fin N) → Mat α (i.val + 1) N)
    (vals : Fin N → ρ) : Except PyErr (ExtOut α T N) :=
  let best := argmaxFirst (List.ofFn vals)
  if h : best < N then
    let i : Fin N := ⟨best, h⟩
    let o := enhancedReduced iPu Hk Msk (i.val + 1) (decidePk VHre i) (G i) (Wp i)
    .ok { o with ns := streamsOfIndex best }
  else .error .ValueError

end matrix
/-! ## `EnhancedBD.set_ext_int_handling_metric`: the configuration state of a long-lived object -/
section metric

/-- `metric_name` -/
inductive MetricName | none | capacity | naive | fixed | effectiveThroughput
  deriving DecidableEq, Repr, Inhabited

/-- `_metric_func` -/
inductive MetricFunc | noFunc | shannonSumCapacity | effectiveThroughput
  deriving DecidableEq, Repr, Inhabited

/-- `_metric_func_extra_args` (also: the dictionary a caller hands in); the modulator is an
    opaque object, represented by a tag -/
structure ExtraArgs where
  numStreams : Option Nat := .none
  modulator : Option Nat := .none
  packetLength : Option Nat := .none
  deriving DecidableEq, Repr, Inhabited

structure MetricState where
  name : MetricName := .none
  func : MetricFunc := .noFunc
  args : ExtraArgs := {}
  deriving DecidableEq, Repr, Inhabited

/-- the `metric` argument: `None` / `'None'`, one of the four names, or any other string -/
inductive MetricReq | none | capacity | naive | fixed | effectiveThroughput | unknown
  deriving DecidableEq, Repr, Inhabited

/-- `set_ext_int_handling_metric(metric, metric_func_extra_args_dict)`: new state and the
    exception raised (if any).  The arguments are checked before anything is assigned; only
    the keys the metric needs are copied out of the caller's dictionary. -/
def setMetric (s : MetricState) (req : MetricReq) (given : ExtraArgs) : MetricState × Option PyErr :=
  match req with
  | .none => ({ name := .none, func := .noFunc, args := {} }, .none)
  | .capacity => ({ name := .capacity, func := .shannonSumCapacity, args := {} }, .none)
  | .naive =>
    match given.numStreams with
    | .none => (s, some .AttributeError)
    | some n => ({ name := .naive, func := .noFunc, args := { numStreams := some n } }, .none)
  | .fixed =>
    match given.numStreams with
    | .none => (s, some .AttributeError)
    | some n => ({ name := .fixed, func := .noFunc, args := { numStreams := some n } }, .none)
  | .effectiveThroughput =>
    match given.modulator, given.packetLength with
    | some m, some l =>
      ({ name := .effectiveThroughput, func := .effectiveThroughput,
         args := { modulator := some m, packetLength := some l } }, .none)
    | _, _ => (s, some .AttributeError)
  | .unknown => (s, some .AttributeError)

/-- a history of setter calls on one object -/
def runMetricHistory (s : MetricState) : List (MetricReq × ExtraArgs) → MetricState
  | [] => s
  | (r, a) :: rest => runMetricHistory (setMetric s r a).1 rest

/-- which of the three `_perform_BD_no_waterfilling_*` paths `block_diagonalize_no_waterfilling`
    takes: decided by the CURRENT metric name only -/
inductive BDPath | noReduction | fixedOrNaive | decide
  deriving DecidableEq, Repr

def bdPath (s : MetricState) : BDPath :=
  match s.name with
  | .none => .noReduction
  | .naive | .fixed => .fixedOrNaive
  | .capacity | .effectiveThroughput => .decide

end metric

end PyPhysim.BD
