/-
C03 — first-principles *specification* functions (core Lean only).  These are what
the property theorems compare the model of the code with; they are written
directly from the property statement and never mention the code's loops.
Inputs are tables `xf a k` (input antenna `a`, time `k`).
-/
import PyPhysim.Model.C03
namespace PyPhysim.C03

variable {α : Type} [Zero α] [Add α] [Mul α]

/-- SISO entry `m`: `y[m] = Σ_i h_i[m − d_i] · x[m − d_i]`; terms with `m − d_i ∉ [0, n)` vanish. -/
def convAtSiso (ir : IR α) (n : Nat) (xf : Nat → α) (m : Nat) : α :=
  ((ir.delays.zip ir.vals).map (fun dh =>
    if dh.1 ≤ m ∧ m - dh.1 < n then dh.2 0 0 (m - dh.1) * xf (m - dh.1) else 0)).sum

/-- the SISO output: `n + mem` entries -/
def convSpecSiso (ir : IR α) (n mem : Nat) (xf : Nat → α) : List α := tab (n + mem) (convAtSiso ir n xf)

/-- MIMO entry `(j, m)`: `y[j][m] = Σ_i Σ_a h_i[j,a][m − d_i] · x[a][m − d_i]`
    (`h_i[a,j]` in the switched direction: `orient`). -/
def convAt (ir : IR α) (sw : Bool) (nIn n : Nat) (xf : Nat → Nat → α) (j m : Nat) : α :=
  ((ir.delays.zip ir.vals).map (fun dh =>
    ((List.range nIn).map (fun a =>
      if dh.1 ≤ m ∧ m - dh.1 < n then orient sw dh.2 j a (m - dh.1) * xf a (m - dh.1) else 0)).sum)).sum

def convSpec (ir : IR α) (sw : Bool) (nOut nIn n mem : Nat) (xf : Nat → Nat → α) : List (List α) :=
  tab nOut (fun j => tab (n + mem) (convAt ir sw nIn n xf j))

/-- SISO frequency domain, block `b`, selected carrier `p`, position `q` in the block:
    `FFT(dense taps of sample b of the reported response)[p] · x[b·B + q]` -/
def freqAtSiso (fftK : Fft α) (ir : IR α) (fft B : Nat) (xf : Nat → α) (b p q : Nat) : α :=
  fftK (ir.denseAt 0 0 b) fft p * xf (b * B + q)

/-- blocks in order; inside a block the selected carriers `ps` in order -/
def freqSpecSiso (fftK : Fft α) (ir : IR α) (fft : Nat) (ps : List Nat) (B nb : Nat) (xf : Nat → α) : List α :=
  (List.range nb).flatMap (fun b => ps.zipIdx.map (fun pq => freqAtSiso fftK ir fft B xf b pq.1 pq.2))

/-- the same SISO output addressed by the flat position `m = b·B + q` -/
def freqAtSisoFlat (fftK : Fft α) (ir : IR α) (fft : Nat) (ps : List Nat) (xf : Nat → α) (m : Nat) : α :=
  fftK (ir.denseAt 0 0 (m / ps.length)) fft (match ps[m % ps.length]? with | some p => p | none => 0) * xf m

/-- MIMO frequency domain: `Σ_a FFT(dense taps (j,a) of sample b)[p] · x[a][b·B + q]` -/
def freqAt (fftK : Fft α) (ir : IR α) (sw : Bool) (fft B nIn : Nat) (xf : Nat → Nat → α) (j b p q : Nat) : α :=
  ((List.range nIn).map (fun a =>
    fftK (if sw then ir.denseAt a j b else ir.denseAt j a b) fft p * xf a (b * B + q))).sum

def freqSpec (fftK : Fft α) (ir : IR α) (sw : Bool) (fft : Nat) (ps : List Nat) (B nb nOut nIn : Nat)
    (xf : Nat → Nat → α) : List (List α) :=
  tab nOut (fun j => (List.range nb).flatMap (fun b => ps.zipIdx.map (fun pq =>
    freqAt fftK ir sw fft B nIn xf j b pq.1 pq.2)))

/-- the same MIMO output row `j` addressed by the flat position `m = b·B + q` (`B = ps.length`):
    `Σ_a FFT(dense taps (j,a) of sample m / B)[ps[m % B]] · x[a][m]` (`(a,j)` in the switched direction) -/
def freqAtFlat (fftK : Fft α) (ir : IR α) (sw : Bool) (fft : Nat) (ps : List Nat) (nIn : Nat)
    (xf : Nat → Nat → α) (j m : Nat) : α :=
  ((List.range nIn).map (fun a =>
    fftK (if sw then ir.denseAt a j (m / ps.length) else ir.denseAt j a (m / ps.length)) fft
      (match ps[m % ps.length]? with | some p => p | none => 0) * xf a m)).sum

/-- `√pathloss · v` when a path loss is set, `v` otherwise (what `SuChannel` reports for a tap value `v`) -/
def plMul (pl : Option α) (v : α) : α := match pl with | none => v | some s => s * v

/-- the dense tap vector in closed form: entry `l` is the value of the (last) tap whose
    delay is `l`, zero when there is none -/
def denseSpec (delays : List Nat) (v : List α) (len : Nat) : List α :=
  tab len (fun l => match (delays.zip v).reverse.find? (fun dv => dv.1 == l) with
    | some dv => dv.2 | none => 0)

/-- elementwise sum of the rows of several outputs -/
def sumSpec (ys : List (List (List α))) (nRows len : Nat) : List (List α) :=
  tab nRows (fun j => tab len (fun m => (ys.map (fun y =>
    match y[j]? with | some row => (match row[m]? with | some v => v | none => 0) | none => 0)).sum))

end PyPhysim.C03
