/-
Line protocol shared by all model drivers (core Lean only, no Mathlib).
One request line in, one reply line out.  Numbers: decimal `Nat`/`Int`,
rationals `p/q`, binary64 as `f<bits>` (decimal of the IEEE bit pattern).
-/
namespace PyPhysim.Proto

/-- Python exception kinds the models can report. -/
inductive PyErr
  | ValueError | TypeError | IndexError | AssertionError | ZeroDivisionError
  | AttributeError | KeyError | RuntimeError | Fuel
  deriving DecidableEq, Repr, Inhabited

def PyErr.toString : PyErr → String
  | .ValueError => "ValueError" | .TypeError => "TypeError" | .IndexError => "IndexError"
  | .AssertionError => "AssertionError" | .ZeroDivisionError => "ZeroDivisionError"
  | .AttributeError => "AttributeError" | .KeyError => "KeyError"
  | .RuntimeError => "RuntimeError" | .Fuel => "Fuel"
instance : ToString PyErr := ⟨PyErr.toString⟩

def parseFloat? (s : String) : Option Float :=
  if s.startsWith "f" then (s.drop 1).toNat?.map (fun n => Float.ofBits n.toUInt64) else none

def showFloat (x : Float) : String := "f" ++ toString x.toBits.toNat

def parseRat? (s : String) : Option Rat :=
  match s.splitOn "/" with
  | [p] => p.toInt?.map (fun i => (i : Rat))
  | [p, q] => do
      let i ← p.toInt?
      let n ← q.toNat?
      if n = 0 then none else some (mkRat i n)
  | _ => none

def showRat (r : Rat) : String := toString r.num ++ "/" ++ toString r.den

/-- split on a separator, dropping empty pieces -/
def fields (s : String) (sep : String) : List String :=
  (s.splitOn sep).filter (· ≠ "")

def parseNatList? (s : String) (sep : String := ",") : Option (List Nat) :=
  (fields s sep).mapM String.toNat?

def parseIntList? (s : String) (sep : String := ",") : Option (List Int) :=
  (fields s sep).mapM String.toInt?

def parseRatList? (s : String) (sep : String := ",") : Option (List Rat) :=
  (fields s sep).mapM parseRat?

def parseFloatList? (s : String) (sep : String := ",") : Option (List Float) :=
  (fields s sep).mapM parseFloat?

def showList {α} (f : α → String) (l : List α) (sep : String := ",") : String :=
  sep.intercalate (l.map f)

/-- `key=value` lookup in a token list -/
def kv (toks : List String) (key : String) : Option String :=
  toks.findSome? (fun t => if t.startsWith (key ++ "=") then some (t.drop (key.length + 1)).toString else none)

partial def loop (h : IO.FS.Stream) (out : IO.FS.Stream) (handle : List String → String) : IO Unit := do
  let line ← h.getLine
  if line.isEmpty then
    out.flush
    return ()
  let toks := (line.trimAscii.toString.splitOn " ").filter (· ≠ "")
  out.putStrLn (handle toks)
  loop h out handle

def runDriver (handle : List String → String) : IO Unit := do
  loop (← IO.getStdin) (← IO.getStdout) handle

end PyPhysim.Proto
