/-!
# C04 — the caller's preallocated channel array (R16), core Lean only

`MimoBase.set_channel_matrix(channel)` does `self._channel = channel`: the object keeps the
caller's array *object* (MRC / MRT / Alamouti keep a view of it), not its contents.  A caller
that owns ONE preallocated array, refills it in place (`buf[...] = new`) and hands it over
again is modelled here one level below `Model/C04Obj.lean` (whose `Op.setChannel` takes a
*value*):

* `CodeSt` / `codeStep` — the code as it is: after `set_channel_matrix(buf)` the object is
  *aliased* to the buffer and every later observation reads the buffer's current contents;
* `ValSt` / `valStep`  — the value semantics the property (and `Model/C04Obj.lean`) speaks
  about: the object works with the contents it was handed at call time.

`β` is whatever a channel value is (`Chan α`, or `Nat` for the decidable witness).  An
observation returns the channel value the object computes with (every `encode` / `decode` /
filter / SINR of `Model/C04Obj.lean` is a function of that value and of the noise variance).
-/
namespace PyPhysim.C04.Buf

/-- what the caller does with its one array and the object -/
inductive BOp (β : Type)
  /-- `buf[...] = c` : new contents, same array object, no call on the scheme object -/
  | refill (c : β)
  /-- `obj.set_channel_matrix(buf)` -/
  | setBuffer
  /-- `obj.set_channel_matrix(np.array(c))` : an array the caller never touches again -/
  | setFresh (c : β)
  /-- any `encode` / `decode` / `calc_*` call: reads the channel the object works with -/
  | observe

/-- the code as it is: the buffer's contents, the object's own value (from `setFresh`) and
    whether `_channel` *is* the caller's buffer -/
structure CodeSt (β : Type) where
  buf : β
  own : Option β
  aliased : Bool

/-- the channel value the object computes with -/
def CodeSt.seen {β : Type} (s : CodeSt β) : Option β := if s.aliased then some s.buf else s.own

def codeStep {β : Type} (s : CodeSt β) : BOp β → CodeSt β × Option (Option β)
  | .refill c => ({ s with buf := c }, none)
  | .setBuffer => ({ s with aliased := true }, none)
  | .setFresh c => ({ s with own := some c, aliased := false }, none)
  | .observe => (s, some s.seen)

/-- value semantics: the object holds the contents handed over at call time -/
structure ValSt (β : Type) where
  buf : β
  held : Option β

def valStep {β : Type} (s : ValSt β) : BOp β → ValSt β × Option (Option β)
  | .refill c => ({ s with buf := c }, none)
  | .setBuffer => ({ s with held := some s.buf }, none)
  | .setFresh c => ({ s with held := some c }, none)
  | .observe => (s, some s.held)

/-- the observations of a caller program, in order -/
def codeRun {β : Type} : CodeSt β → List (BOp β) → List (Option β)
  | _, [] => []
  | s, op :: ops =>
      match (codeStep s op).2 with
      | some o => o :: codeRun (codeStep s op).1 ops
      | none => codeRun (codeStep s op).1 ops

def valRun {β : Type} : ValSt β → List (BOp β) → List (Option β)
  | _, [] => []
  | s, op :: ops =>
      match (valStep s op).2 with
      | some o => o :: valRun (valStep s op).1 ops
      | none => valRun (valStep s op).1 ops

/-- the discipline of a Monte Carlo loop: after every refill the array is handed over again
    (or replaced by a fresh one) before the object is used.  `dirty` = "the buffer was
    refilled since the object last received a channel" -/
def disciplined {β : Type} : Bool → List (BOp β) → Bool
  | _, [] => true
  | _, .refill _ :: ops => disciplined true ops
  | _, .setBuffer :: ops => disciplined false ops
  | _, .setFresh _ :: ops => disciplined false ops
  | dirty, .observe :: ops => !dirty && disciplined dirty ops

/-- the two machines describe the same situation: same buffer, and the object works with the
    same value (`dirty = true` excuses a stale aliased buffer that will be handed over again) -/
def agree {β : Type} (c : CodeSt β) (v : ValSt β) (dirty : Bool) : Prop :=
  c.buf = v.buf ∧ (dirty = false → c.seen = v.held) ∧ (c.aliased = false → c.own = v.held)

end PyPhysim.C04.Buf
