import PyPhysim.Model.C05

/-!
C05 — one `Result` object (results.py) as a value, and the merge the runner applies
to the results of successive repetitions (core Lean only, executable).

Mirrors `Result.__init__`, `Result.update` (per type, with the accumulation of the
values when `accumulate_values=True` — for EVERY type, MISCTYPE included: that is
what the code does) and `Result.merge` (after `_assert_can_merge` passed).
A `SimulationResults` returned by `_run_simulation` is a list of such values and
`merge_all_results` merges them name by name (`mergeAll`).
-/
namespace PyPhysim.C05

inductive RType
  | sum | ratio | misc | choice
  deriving DecidableEq, Repr

/-- every observable of a `Result` -/
structure RVal where
  ty : RType
  /-- `accumulate_values` -/
  acc : Bool
  /-- `_value` (SUM / RATIO / MISC) -/
  value : Int
  /-- `_value` of a CHOICETYPE result: one counter per choice -/
  choice : List Nat
  /-- `_total` -/
  total : Int
  /-- `num_updates` -/
  n : Nat
  /-- `_result_sum`, `_result_squared_sum` -/
  rsum : Rat
  rsq : Rat
  /-- `_value_list`, `_total_list` -/
  vlist : List Int
  tlist : List Int
  deriving Repr

/-- `Result(name, type, accumulate_values, choice_num)` -/
def RVal.new (ty : RType) (acc : Bool) (choiceNum : Nat := 0) : RVal :=
  ⟨ty, acc, 0, if ty = .choice then List.replicate choiceNum 0 else [], 0, 0, 0, 0, [], []⟩

def bump : List Nat → Nat → List Nat
  | [], _ => []
  | x :: xs, 0 => (x + 1) :: xs
  | x :: xs, i + 1 => x :: bump xs i

/-- `Result.update(value, total)` -/
def RVal.update (r : RVal) (v t : Int) : RVal :=
  let vl := if r.acc then r.vlist ++ [v] else r.vlist
  match r.ty with
  | .sum => { r with value := r.value + v, rsum := r.rsum + v, rsq := r.rsq + (v : Rat) * v,
                     vlist := vl, n := r.n + 1 }
  | .ratio =>
    let q : Rat := (v : Rat) / (t : Rat)
    { r with value := r.value + v, total := r.total + t, rsum := r.rsum + q, rsq := r.rsq + q * q,
             vlist := vl, tlist := if r.acc then r.tlist ++ [t] else r.tlist, n := r.n + 1 }
  | .misc => { r with value := v, vlist := vl, n := r.n + 1 }
  | .choice => { r with choice := bump r.choice v.toNat, total := r.total + 1, vlist := vl, n := r.n + 1 }

/-- `Result.merge(other)`: the accumulated lists are joined whenever `self` accumulates
    (whatever the type); MISCTYPE takes the other's scalars, the other types add them -/
def RVal.merge (a b : RVal) : RVal :=
  let vl := if a.acc then a.vlist ++ b.vlist else a.vlist
  let tl := if a.acc then a.tlist ++ b.tlist else a.tlist
  match a.ty with
  | .misc => { a with n := b.n, value := b.value, total := b.total, rsum := b.rsum, rsq := b.rsq,
                      vlist := vl, tlist := tl }
  | _ => { a with n := a.n + b.n, value := a.value + b.value,
                  choice := List.zipWith (· + ·) a.choice b.choice, total := a.total + b.total,
                  rsum := a.rsum + b.rsum, rsq := a.rsq + b.rsq, vlist := vl, tlist := tl }

/-- `SimulationResults.merge_all_results`: name by name -/
def mergeAll (a b : List RVal) : List RVal := List.zipWith RVal.merge a b

end PyPhysim.C05
