/-
C06 — object-level model of `SimulationResults` (core Lean only).

Python objects are mutable and shared, and one clause of the property is about
exactly that ("merging never mutates the merged-in operand"), so this layer has
an explicit heap:

* `Mach.res`   — every `Result` object ever created; address = position
* `Mach.lists` — every Python `list` object holding `Result`s (`_results[name]`);
                 a list object can be shared between two dictionaries
* `Mach.sims`  — the `SimulationResults` objects: their ordered `_results`
                 dictionary `name ↦ list address` and their parameters

Every method is a function `Mach → … → Mach × Option PyErr` (state after the
call, exception raised if any; a raising call can leave partial mutations, as
in Python).  A dangling address cannot occur in Python; the model reports
`AttributeError` for it (no other use of that constructor here) and the
theorems assume well-formed machines.
-/
import PyPhysim.Model.C06
namespace PyPhysim.C06M
open PyPhysim.Proto

/-- simulation parameters as far as `combine_simulation_parameters` looks at
    them: scalar fixed parameters and numeric arrays marked to be unpacked.  An
    unpacked value is the *exact rational value* of the Python number (int or
    binary64), so two values are equal here iff Python's `==` says so (`2 == 2.0`,
    neighbouring doubles differ) and the order is numpy's sort order.
    The lists may be in any order (a Python dict); every function that depends on
    the order of the parameters works on `Params.norm`, the name-sorted lists. -/
structure Params where
  fixed : List (String × Int)
  unp : List (String × List Rat)
  deriving DecidableEq, Repr, Inhabited

abbrev Dict := List (String × Nat)

structure Sim where
  dict : Dict
  params : Params
  deriving DecidableEq, Repr, Inhabited

structure Mach where
  res : List Res
  lists : List (List Nat)
  sims : List Sim
  deriving DecidableEq, Repr, Inhabited

def nsr : String := "num_skipped_reps"

/-! ### heap primitives -/

def allocRes (m : Mach) (r : Res) : Mach × Nat := ({ m with res := m.res ++ [r] }, m.res.length)
def allocList (m : Mach) (l : List Nat) : Mach × Nat :=
  ({ m with lists := m.lists ++ [l] }, m.lists.length)
def setRes (m : Mach) (a : Nat) (r : Res) : Mach := { m with res := m.res.set a r }
def setList (m : Mach) (l : Nat) (xs : List Nat) : Mach := { m with lists := m.lists.set l xs }
/-- the elements of list object `l` (addresses are always valid on well-formed machines) -/
def listAt (m : Mach) (l : Nat) : List Nat := match m.lists[l]? with | some xs => xs | none => []
def dictOf (m : Mach) (s : Nat) : Dict := match m.sims[s]? with | some x => x.dict | none => []
def setDict (m : Mach) (s : Nat) (d : Dict) : Mach :=
  { m with sims := m.sims.modify s (fun x => { x with dict := d }) }

/-- `d[k] = l` on an ordered dictionary: an existing key keeps its position -/
def dictSet : Dict → String → Nat → Dict
  | [], k, l => [(k, l)]
  | (k', l') :: rest, k, l => if k' = k then (k, l) :: rest else (k', l') :: dictSet rest k l

def dictGet? : Dict → String → Option Nat
  | [], _ => none
  | (k', l') :: rest, k => if k' = k then some l' else dictGet? rest k

/-- the same dictionary with its entries in the order `names` (names that are absent are skipped):
    what a SimulationResults object looks like when its results were added in another order.  The
    insertion order is not part of the logical value of a result set. -/
def reorderDict (d : Dict) : List String → Dict
  | [] => []
  | nm :: rest => match dictGet? d nm with
    | some l => (nm, l) :: reorderDict d rest
    | none => reorderDict d rest

/-- script op `ro`: re-create the `_results` dictionary of `s` in another key order -/
def reorderSim (m : Mach) (s : Nat) (names : List String) : Mach :=
  setDict m s (reorderDict (dictOf m s) names)

/-! ### Result methods on the heap -/

def updR (m : Mach) (a : Nat) (o : Obs) : Mach × Option PyErr :=
  match m.res[a]? with
  | none => (m, some .AttributeError)
  | some r => let p := update r o; (setRes m a p.1, p.2)

/-- `res[a].merge(res[b])` -/
def mergeR (m : Mach) (a b : Nat) : Mach × Option PyErr :=
  match m.res[a]?, m.res[b]? with
  | some ra, some rb => let p := merge ra rb; (setRes m a p.1, p.2)
  | _, _ => (m, some .AttributeError)

/-! ### SimulationResults methods -/

/-- `add_result`: `self._results[result.name] = [result]` (a new list object) -/
def addResult (m : Mach) (s a : Nat) : Mach × Option PyErr :=
  match m.res[a]? with
  | none => (m, some .AttributeError)
  | some r =>
    let (m1, l) := allocList m [a]
    (setDict m1 s (dictSet (dictOf m1 s) r.name l), none)

/-- `append_result` -/
def appendResult (m : Mach) (s a : Nat) : Mach × Option PyErr :=
  match m.res[a]? with
  | none => (m, some .AttributeError)
  | some r =>
    match dictGet? (dictOf m s) r.name with
    | none => addResult m s a
    | some l =>
      match listAt m l with
      | [] => (m, some .IndexError)
      | a0 :: _ =>
        match m.res[a0]? with
        | none => (m, some .AttributeError)
        | some r0 =>
          if r0.ty = r.ty then (setList m l (listAt m l ++ [a]), none)
          else (m, some .ValueError)

def appendElems (s : Nat) : Mach → List Nat → Mach × Option PyErr
  | m, [] => (m, none)
  | m, a :: rest =>
    match appendResult m s a with
    | (m', none) => appendElems s m' rest
    | (m', some e) => (m', some e)

/-- does appending the elements of list object `l` to `s` append to `l` itself?
    (then Python's `for result in results` never ends) -/
def selfFeeding (m : Mach) (s l : Nat) : Bool :=
  (listAt m l).any (fun a => match m.res[a]? with
    | some r => dictGet? (dictOf m s) r.name == some l
    | none => false)

/-- `append_all_results`: for every list of `other`, for every result in it,
    `self.append_result(result)`; the Result objects become shared.
    `Fuel` = the Python loop does not terminate (a list would be extended
    while it is being iterated) -/
def appendLists (s : Nat) : Mach → List (String × Nat) → Mach × Option PyErr
  | m, [] => (m, none)
  | m, (_, l) :: rest =>
    if selfFeeding m s l then (m, some .Fuel)
    else match appendElems s m (listAt m l) with
      | (m', none) => appendLists s m' rest
      | (m', some e) => (m', some e)

def appendAll (m : Mach) (s o : Nat) : Mach × Option PyErr :=
  if s < m.sims.length ∧ o < m.sims.length then appendLists s m (dictOf m o)
  else (m, some .AttributeError)

/-- `d[nm][-1]` (`missing` = the exception of a missing key) -/
def lastOf (m : Mach) (d : Dict) (nm : String) : Except PyErr Nat :=
  match dictGet? d nm with
  | none => .error .KeyError
  | some l => match (listAt m l).getLast? with
    | none => .error .IndexError
    | some a => .ok a

/-- the loop `for item in self.get_result_names(): if item != 'num_skipped_reps':
    self._results[item][-1].merge(other[item][-1])` -/
def mergeNames (ds od : Dict) : Mach → List String → Mach × Option PyErr
  | m, [] => (m, none)
  | m, nm :: rest =>
    if nm = nsr then mergeNames ds od m rest
    else match lastOf m ds nm with
      | .error e => (m, some e)
      | .ok a => match lastOf m od nm with
        | .error e => (m, some e)
        | .ok b => match mergeR m a b with
          | (m', none) => mergeNames ds od m' rest
          | (m', some e) => (m', some e)

/-- the validation pass of `merge_all_results`: `_assert_can_merge` for the last results of every
    name of `self` (nothing is changed) -/
def checkNames (ds od : Dict) (m : Mach) : List String → Option PyErr
  | [] => none
  | nm :: rest =>
    if nm = nsr then checkNames ds od m rest
    else match lastOf m ds nm with
      | .error e => some e
      | .ok a => match lastOf m od nm with
        | .error e => some e
        | .ok b => match m.res[a]?, m.res[b]? with
          | some ra, some rb => match mergeGuard ra rb with
            | some e => some e
            | none => checkNames ds od m rest
          | _, _ => some .AttributeError

/-- … and for `'num_skipped_reps'` (against a new SUM result when `self` has none yet); as in
    `checkNames` the two objects are looked up first and read when `_assert_can_merge` is called -/
def checkNsr (m : Mach) (s o : Nat) : Option PyErr :=
  if (dictGet? (dictOf m o) nsr).isNone then none
  else
    let target : Except PyErr (Option Nat) :=          -- `none` = the new SUM result
      if (dictGet? (dictOf m s) nsr).isNone then .ok none
      else match lastOf m (dictOf m s) nsr with
        | .error e => .error e
        | .ok a => .ok (some a)
    match target with
    | .error e => some e
    | .ok ta => match lastOf m (dictOf m o) nsr with
      | .error e => some e
      | .ok b =>
        let ra : Except PyErr Res := match ta with
          | none => .ok (fresh nsr .sum false 0)
          | some a => match m.res[a]? with
            | some r => .ok r
            | none => .error .AttributeError
        match ra with
        | .error e => some e
        | .ok ra => match m.res[b]? with
          | none => some .AttributeError
          | some rb => mergeGuard ra rb

/-- `add_new_result(name, SUMTYPE, 0)` = `add_result(Result.create(name, SUMTYPE, 0, 0))`:
    the new object has already received one `update(0)` -/
def addNewSumZero (m : Mach) (s : Nat) (name : String) : Mach × Option PyErr :=
  let r := (update (fresh name .sum false 0) ⟨0, some 0⟩).1
  let (m1, a) := allocRes m r
  addResult m1 s a

/-- `add_new_result(name, update_type, value, total)` = `add_result(Result.create(name, update_type,
    value, total))` (no accumulation flag can be passed) -/
def addNewResult (m : Mach) (s : Nat) (name : String) (ty : Ty) (v t : Rat) : Mach × Option PyErr :=
  match createRes name ty v t false with
  | .error e => (m, some e)
  | .ok r =>
    let (m1, a) := allocRes m r
    addResult m1 s a

/-- `copy.deepcopy(result)` / a pickle round trip: a new object with the same attributes -/
def copyRes (m : Mach) (a : Nat) : Mach × Option Nat :=
  match m.res[a]? with
  | none => (m, none)
  | some r => let (m1, a') := allocRes m r; (m1, some a')

/-- the `'num_skipped_reps'` tail of `merge_all_results` -/
def mergeNsr (m : Mach) (s o : Nat) : Mach × Option PyErr :=
  if (dictGet? (dictOf m o) nsr).isNone then (m, none)
  else
    let m1 := if (dictGet? (dictOf m s) nsr).isNone then (addNewSumZero m s nsr).1 else m
    match lastOf m1 (dictOf m1 s) nsr with
    | .error e => (m1, some e)
    | .ok a => match lastOf m1 (dictOf m1 o) nsr with
      | .error e => (m1, some e)
      | .ok b => mergeR m1 a b

/-- deep copies of the Result objects of a list (new addresses) -/
def copyElems : Mach → List Nat → Mach × List Nat
  | m, [] => (m, [])
  | m, a :: rest =>
    match m.res[a]? with
    | none => copyElems m rest
    | some r =>
      let (m1, a') := allocRes m r
      let (m2, rest') := copyElems m1 rest
      (m2, a' :: rest')

/-- empty-`self` branch of the repaired code:
    `self._results[name] = [copy.deepcopy(r) for r in other[name]]` -/
def copyDict (s : Nat) : Mach → List (String × Nat) → Mach
  | m, [] => m
  | m, (nm, l) :: rest =>
    let (m1, cs) := copyElems m (listAt m l)
    let (m2, l') := allocList m1 cs
    copyDict s (setDict m2 s (dictSet (dictOf m2 s) nm l')) rest

/-- the distinct elements of a list (the last occurrence of each is kept) -/
def dedupNat : List Nat → List Nat
  | [] => []
  | a :: as => if a ∈ dedupNat as then dedupNat as else a :: dedupNat as

/-- position of the first occurrence (`length` if absent) -/
def posOf (a : Nat) : List Nat → Nat
  | [] => 0
  | x :: xs => if x = a then 0 else posOf a xs + 1

/-- `copy.deepcopy(simresults)` / a pickle round trip: a new SimulationResults object (the last
    one) with the same parameters, new list objects and one new Result object per *distinct* Result
    object of the original — an object that occurs twice in the original occurs twice in the copy
    (Python's deep copy keeps the sharing inside the copied graph) -/
def copySim (m : Mach) (s : Nat) : Mach :=
  match m.sims[s]? with
  | none => m
  | some x =>
    let olds := dedupNat ((x.dict.flatMap (fun e => listAt m e.2)).filter (· < m.res.length))
    let vals := olds.filterMap (fun a => m.res[a]?)
    let f := fun a => m.res.length + posOf a olds
    { res := m.res ++ vals,
      lists := m.lists ++ x.dict.map (fun e => (listAt m e.2).map f),
      sims := m.sims ++ [{ dict := (List.range x.dict.length).zipWith (fun i e => (e.1, m.lists.length + i)) x.dict,
                           params := x.params }] }

/-- `SimulationResults.merge_all_results` (current, repaired source): copy into an empty `self`;
    otherwise validate everything first, then merge -/
def mergeAll (m : Mach) (s o : Nat) : Mach × Option PyErr :=
  if s < m.sims.length ∧ o < m.sims.length then
    if dictOf m s = [] then (copyDict s m (dictOf m o), none)
    else match checkNames (dictOf m s) (dictOf m o) m ((dictOf m s).map (·.1)) with
      | some e => (m, some e)
      | none => match checkNsr m s o with
        | some e => (m, some e)
        | none => match mergeNames (dictOf m s) (dictOf m o) m ((dictOf m s).map (·.1)) with
          | (m1, some e) => (m1, some e)
          | (m1, none) => mergeNsr m1 s o
  else (m, some .AttributeError)

/-- the code before the repairs: the empty-`self` branch stores the operand's
    own list objects, `self._results[name] = other[name]`, and nothing is validated first -/
def mergeAllOld (m : Mach) (s o : Nat) : Mach × Option PyErr :=
  if s < m.sims.length ∧ o < m.sims.length then
    if dictOf m s = [] then
      (setDict m s ((dictOf m o).foldl (fun d e => dictSet d e.1 e.2) []), none)
    else match mergeNames (dictOf m s) (dictOf m o) m ((dictOf m s).map (·.1)) with
      | (m1, some e) => (m1, some e)
      | (m1, none) => mergeNsr m1 s o
  else (m, some .AttributeError)

/-! ### parameter grids and `combine_simulation_results` -/

/-- insert into a strictly increasing list, keeping it strictly increasing -/
def insertUniq (x : Rat) : List Rat → List Rat
  | [] => [x]
  | y :: ys => if x < y then x :: y :: ys else if x = y then y :: ys else y :: insertUniq x ys

/-- `np.union1d` on numeric arrays: sorted, duplicates (exactly equal values only) removed -/
def union1d (a b : List Rat) : List Rat := (a ++ b).foldr insertUniq []

/-- insert by name into a list sorted by name (`<` on `String` is the lexicographic order of the
    Unicode code points, i.e. the order of Python's `sorted()` on `str`) -/
def insertByName {α : Type} (e : String × α) : List (String × α) → List (String × α)
  | [] => [e]
  | x :: xs => if e.1 < x.1 then e :: x :: xs else x :: insertByName e xs

/-- `sorted(names)`: how `unpacked_parameters`, `get_unpacked_params_list` and `get_pack_indexes`
    all enumerate the unpacked parameters, whatever the insertion order of the dictionary -/
def sortByName {α : Type} (l : List (String × α)) : List (String × α) := l.foldr insertByName []

/-- the parameters with both lists in `sorted()` order of the names -/
def Params.norm (p : Params) : Params := ⟨sortByName p.fixed, sortByName p.unp⟩

/-- `combine_simulation_parameters` on name-sorted parameters -/
def combineParamsSorted (p1 p2 : Params) : Except PyErr Params :=
  if p1.fixed.map (·.1) ≠ p2.fixed.map (·.1) ∨ p1.unp.map (·.1) ≠ p2.unp.map (·.1) then
    .error .RuntimeError
  else if p1.fixed ≠ p2.fixed then .error .RuntimeError
  else .ok { fixed := p1.fixed,
             unp := List.zipWith (fun a b => (a.1, union1d a.2 b.2)) p1.unp p2.unp }

/-- `combine_simulation_parameters` (the parameter dictionaries may be in any order) -/
def combineParams (p1 p2 : Params) : Except PyErr Params := combineParamsSorted p1.norm p2.norm

/-- all combinations in the order of `get_unpacked_params_list`
    (`itertools.product`: the first parameter varies slowest) -/
def product : List (List Rat) → List (List Rat)
  | [] => [[]]
  | vs :: rest => vs.flatMap (fun v => (product rest).map (v :: ·))

/-- `list(values).index(x)`: first match -/
def indexOf? (x : Rat) : List Rat → Option Nat
  | [] => none
  | y :: ys => if y = x then some 0 else (indexOf? x ys).map (· + 1)

def dimsProd : List (List Rat) → Nat
  | [] => 1
  | vs :: rest => vs.length * dimsProd rest

/-- `get_pack_indexes(combination)[0]`: row-major position of a full
    combination of unpacked values; `ValueError` when a value is absent -/
def packIndex : List (List Rat) → List Rat → Except PyErr Nat
  | [], _ => .ok 0
  | _ :: _, [] => .error .KeyError
  | vs :: rest, c :: cs =>
    match indexOf? c vs with
    | none => .error .ValueError
    | some i => match packIndex rest cs with
      | .error e => .error e
      | .ok j => .ok (i * dimsProd rest + j)

/-- the two `try: … merge … except ValueError: pass` blocks for one operand -/
def mergeIfPresent (m : Mach) (f : Res) (l : List Nat) (vals : List (List Rat)) (combo : List Rat) :
    Except PyErr Res :=
  match packIndex vals combo with
  | .error .ValueError => .ok f
  | .error e => .error e
  | .ok i =>
    match l[i]? with
    | none => .error .IndexError
    | some a =>
      match m.res[a]? with
      | none => .error .AttributeError
      | some r =>
        match merge f r with
        | (c, none) => .ok c
        | (c, some .ValueError) => .ok c        -- swallowed by `except ValueError`
        | (_, some e) => .error e

/-- the new Result object of one parameter combination: an empty object, merged with the
    first operand's result of that combination if it has one, then with the second's -/
def cellOf (m : Mach) (f : Res) (l1 l2 : List Nat) (v1 v2 : List (List Rat)) (combo : List Rat) :
    Except PyErr Res :=
  match mergeIfPresent m f l1 v1 combo with
  | .error e => .error e
  | .ok r1 => mergeIfPresent m r1 l2 v2 combo

/-- the Result objects created for one result name, one per combination -/
def combineName (m : Mach) (f : Res) (l1 l2 : List Nat) (v1 v2 : List (List Rat)) :
    List (List Rat) → Except PyErr (List Res)
  | [] => .ok []
  | combo :: rest =>
    match mergeIfPresent m f l1 v1 combo with
    | .error e => .error e
    | .ok r1 => match mergeIfPresent m r1 l2 v2 combo with
      | .error e => .error e
      | .ok r2 => match combineName m f l1 l2 v1 v2 rest with
        | .error e => .error e
        | .ok rs => .ok (r2 :: rs)

/-- value level of `combine_simulation_results`: per name, the list of new results -/
def combineRows (m : Mach) (d1 d2 : Dict) (v1 v2 : List (List Rat)) (combos : List (List Rat)) :
    List String → Except PyErr (List (String × List Res))
  | [] => .ok []
  | nm :: rest =>
    match dictGet? d1 nm, dictGet? d2 nm with
    | some l1, some l2 =>
      match listAt m l1 with
      | [] => .error .IndexError
      | a0 :: _ =>
        match m.res[a0]? with
        | none => .error .AttributeError
        | some r0 =>
          -- repaired source: a CHOICE result is created with the operand's number of choices
          match combineName m (fresh nm r0.ty false r0.counts.length) (listAt m l1) (listAt m l2)
                  v1 v2 combos with
          | .error e => .error e
          | .ok rs => match combineRows m d1 d2 v1 v2 combos rest with
            | .error e => .error e
            | .ok rows => .ok ((nm, rs) :: rows)
    | _, _ => .error .KeyError

def allocAll : Mach → List Res → Mach × List Nat
  | m, [] => (m, [])
  | m, r :: rest =>
    let (m1, a) := allocRes m r
    let (m2, as) := allocAll m1 rest
    (m2, a :: as)

def allocRows : Mach → List (String × List Res) → Mach × Dict
  | m, [] => (m, [])
  | m, (nm, rs) :: rest =>
    let (m1, as) := allocAll m rs
    let (m2, l) := allocList m1 as
    let (m3, d) := allocRows m2 rest
    (m3, (nm, l) :: d)

/-- `combine_simulation_results(s1, s2)`: on success the new object is the
    last element of `sims` -/
def combine (m : Mach) (s1 s2 : Nat) : Mach × Option PyErr :=
  match m.sims[s1]?, m.sims[s2]? with
  | some x1, some x2 =>
    match combineParams x1.params x2.params with
    | .error e => (m, some e)
    | .ok p =>
      let n1 := x1.dict.map (·.1)
      let n2 := x2.dict.map (·.1)
      if !(n1.all (n2.contains ·) && n2.all (n1.contains ·)) then (m, some .RuntimeError)
      else
        match combineRows m x1.dict x2.dict (x1.params.norm.unp.map (·.2)) (x2.params.norm.unp.map (·.2))
                (product (p.unp.map (·.2))) n1 with
        | .error e => (m, some e)
        | .ok rows =>
          let (m1, d) := allocRows m rows
          ({ m1 with sims := m1.sims ++ [{ dict := d, params := p }] }, none)
  | _, _ => (m, some .AttributeError)

/-! ### abstraction: the values a SimulationResults object denotes -/

def viewList (m : Mach) (l : Nat) : List Res := (listAt m l).filterMap (fun a => m.res[a]?)
def view (m : Mach) (s : Nat) : List (String × List Res) :=
  (dictOf m s).map (fun e => (e.1, viewList m e.2))

/-- Result addresses reachable from a SimulationResults object -/
def reach (m : Mach) (s : Nat) : List Nat := (dictOf m s).flatMap (fun e => listAt m e.2)
/-- its list objects -/
def reachLists (m : Mach) (s : Nat) : List Nat := (dictOf m s).map (·.2)

/-! ### histories on one object (used to state "for every later history") -/

/-- what can happen to a SimulationResults object `s` while a simulation runs:
    another result set is merged in, or its last result of some name is updated
    (the runner's `results['num_skipped_reps'][-1].update(1)`) -/
inductive SOp where
  | mergeAll (o : Nat)
  | updLast (nm : String) (ob : Obs)
  deriving Repr

/-- state after one step (exceptions leave their partial mutations and the history goes on) -/
def stepS (s : Nat) (m : Mach) : SOp → Mach
  | .mergeAll o => (mergeAll m s o).1
  | .updLast nm ob =>
    match lastOf m (dictOf m s) nm with
    | .ok a => (updR m a ob).1
    | .error _ => m

def runS (s : Nat) (m : Mach) (ops : List SOp) : Mach := ops.foldl (stepS s) m

/-- the same history on the source before the repair -/
def stepSOld (s : Nat) (m : Mach) : SOp → Mach
  | .mergeAll o => (mergeAllOld m s o).1
  | op => stepS s m op

def runSOld (s : Nat) (m : Mach) (ops : List SOp) : Mach := ops.foldl (stepSOld s) m

end PyPhysim.C06M
