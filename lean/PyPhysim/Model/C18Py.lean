/-
C18 — the few Python list / slice operations the regenerated module
`Generated/C18Formulas.lean` is written with (core Lean only), and the type of
the branches of `RootSequence.__init__`.
-/
import PyPhysim.Model.Proto
namespace PyPhysim.C18Py

/-- `a[0:e]` / `a[:e]` for a Python int `e` (a negative stop counts from the
    end and is clipped at 0; a stop beyond the end is clipped to the length) -/
def sliceTo {β : Type} (a : List β) (e : Int) : List β :=
  if e ≥ 0 then a.take e.toNat else a.take ((a.length : Int) + e).toNat

/-- `L * k` for a Python list (`k ≤ 0` gives the empty list) -/
def listRepeat {β : Type} (l : List β) (k : Int) : List β :=
  (List.replicate k.toNat l).flatten

/-- which sequence `RootSequence.__init__` builds -/
inductive SizeBranch where
  /-- `calcBaseZC(Nzc, root_index)`, cyclically extended iff `extended` -/
  | zc (extended : Bool)
  /-- `exp(i·π/4·ROOT_TABLE1[root_index])` -/
  | table1
  /-- `exp(i·π/4·ROOT_TABLE2[root_index])` -/
  | table2
  deriving DecidableEq, Repr

end PyPhysim.C18Py
