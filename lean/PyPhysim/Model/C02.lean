/-
C02 — model of `pyphysim/modulators/ofdm.py` (`OFDM`, `OfdmOneTapEqualizer`) and of
the parts of `pyphysim/channels/fading.py` the one-tap equaliser depends on
(`TdlChannel.corrupt_data` for a SISO channel, `TdlImpulseResponse.
_get_samples_including_the_extra_zeros`, `get_freq_response`).

Core Lean only, executable.  Everything numeric is polymorphic in the scalar `α`
through core classes: instantiated at a field with a primitive root of unity in
`Proofs/`, at `Int` (token runs of the index layer) and at a pair of `Float`s
(numeric runs) in the driver.

* numpy arrays are lists (1-D) or lists of equal-length rows (2-D, row major);
* `np.fft.fft(a, n)` / `np.fft.ifft(a, n)` are *external kernels*: every model
  function takes them as parameters `fftK ifftK : Nat → List α → List α`; the
  textbook transforms `dft` / `idft` (the documented definition, incl. the
  crop / zero-pad meaning of `n`) are one instance, the one the equaliser
  theorems are about; the harness checks numerically that numpy's kernels agree
  with them on every case it runs;
* `math.sqrt(power_scale)` is the parameter `s` (the property does not depend on its value; the
  formula of `_calculate_power_scale` is regenerated from the source and proved positive).
-/
import PyPhysim.Model.Proto
namespace PyPhysim.C02
open PyPhysim.Proto

deriving instance DecidableEq for Except

/-! ## Parameters (`OFDM.set_parameters`) -/

/-- the three attributes of an `OFDM` object -/
structure Params where
  fft : Nat
  cp : Nat
  used : Nat
  deriving DecidableEq, Repr, Inhabited

/-- what `set_parameters` is meant to let through -/
def Params.Valid (p : Params) : Prop :=
  p.cp ≤ p.fft ∧ p.used ≤ p.fft ∧ p.used % 2 = 0 ∧ 2 ≤ p.used

instance (p : Params) : Decidable p.Valid := by unfold Params.Valid; exact inferInstance

/-- `OFDM.set_parameters(fft_size, cp_size, num_used_subcarriers=None)`: the guard
    ladder of the code, on Python ints -/
def setParameters (fft cp : Int) (used : Option Int) : Except PyErr Params :=
  if cp < 0 ∨ cp > fft then .error .ValueError
  else
    let u : Int := match used with | none => fft | some u => u
    if u > fft then .error .ValueError
    else if u % 2 ≠ 0 ∨ u < 2 then .error .ValueError
    else .ok ⟨fft.toNat, cp.toNat, u.toNat⟩

/-- one `set_parameters` call on an existing object: the attributes are assigned
    only after all guards passed, so a rejected call leaves the object unchanged -/
def step (s : Params) (op : Int × Int × Option Int) : Params × Option PyErr :=
  match setParameters op.1 op.2.1 op.2.2 with
  | .ok p => (p, none)
  | .error e => (s, some e)

/-- a history of `set_parameters` calls -/
def run (s : Params) : List (Int × Int × Option Int) → Params
  | [] => s
  | op :: ops => run (step s op).1 ops

/-! ## numpy idioms used by the (re)generated index functions -/

/-- `np.arange(n)` -/
def npArange (n : Int) : List Int := (List.range n.toNat).map Int.ofNat
/-- `np.r_[a:b]` -/
def npR (a b : Int) : List Int := (List.range (b - a).toNat).map (fun i => a + Int.ofNat i)
/-- `np.fft.fftshift(x)` (1-D): roll by `n // 2` -/
def fftshift {β : Type} (l : List β) : List β :=
  l.drop (l.length - l.length / 2) ++ l.take (l.length - l.length / 2)
/-- normalisation of one slice bound -/
def pyBound (len : Nat) (i : Int) : Nat := if i < 0 then (i + len).toNat else min i.toNat len
/-- `x[a:b]` with optional bounds -/
def pySlice {β : Type} (l : List β) (a b : Option Int) : List β :=
  let lo := match a with | none => 0 | some a => pyBound l.length a
  let hi := match b with | none => l.length | some b => pyBound l.length b
  (l.take hi).drop lo
/-- `int(np.ceil(float(a) / b))` for non-negative `a`, positive `b` (binary64 division is outside the model) -/
def ceilDivInt (a b : Int) : Int := (a + b - 1) / b

/-! ## Index layer -/

def ceilDiv (n d : Nat) : Nat := (n + d - 1) / d

/-- `_calc_zeropad(n)[1]` -/
def numSymbols (p : Params) (n : Nat) : Nat := ceilDiv n p.used
/-- `_calc_zeropad(n)[0]` -/
def zeropad (p : Params) (n : Nat) : Nat := p.used * numSymbols p n - n

/-- normal form of `get_used_subcarrier_indexes()`:
    `[fft-h, …, fft-1]` then `[1, …, h]` (`[0, …, h-1]` when every subcarrier is used), `h = used/2` -/
def usedIdx (fft used : Nat) : List Nat :=
  List.range' (fft - used / 2) (used / 2) ++ List.range' (if used = fft then 0 else 1) (used / 2)

section scalar
variable {α : Type}

/-- `x.reshape(R, w)`: row `r` is `x[r*w : (r+1)*w]` -/
def rows (w : Nat) : Nat → List α → List (List α)
  | 0, _ => []
  | R + 1, l => l.take w :: rows w R (l.drop w)

/-- `acc[idx] = vals` (fancy-index assignment, later entries win); the indexes the
    callers pass are proved to be in range (`usedIdx_lt`) -/
def scatterInto (acc : List α) : List Nat → List α → List α
  | i :: is, v :: vs => scatterInto (acc.set i v) is vs
  | _, _ => acc

/-- `row[i]`; an out-of-range index raises `IndexError` -/
def lookup (row : List α) (i : Nat) : Except PyErr α :=
  match row[i]? with
  | some v => .ok v
  | none => .error .IndexError

/-- `row[idx]` (fancy indexing) -/
def gather (idx : List Nat) (row : List α) : Except PyErr (List α) := idx.mapM (lookup row)

/-- `OFDM._add_CP` on one row -/
def addCP (cp : Nat) (row : List α) : List α :=
  if cp ≠ 0 then row.drop (row.length - cp) ++ row else row

/-- `OFDM._remove_CP`: `received_data.shape = (size // (fft+cp), fft+cp)` raises
    `ValueError` unless the size is a multiple; then the first `cp` columns are dropped -/
def removeCP (p : Params) (y : List α) : Except PyErr (List (List α)) :=
  let w := p.fft + p.cp
  if w = 0 then .error .ZeroDivisionError
  else
    let R := y.length / w
    if R * w ≠ y.length then .error .ValueError
    else .ok ((rows w R y).map (fun r => r.drop p.cp))

variable [Zero α]

/-- `out = zeros(n); out[idx] = vals` -/
def scatter (n : Nat) (idx : List Nat) (vals : List α) : List α :=
  scatterInto (List.replicate n 0) idx vals

/-- `OFDM._prepare_input_signal`: zero padding to a multiple of `used`, reshape,
    allocation of each row to the used subcarriers of a zero row of length `fft` -/
def prepare (p : Params) (x : List α) : List (List α) :=
  let R := numSymbols p x.length
  ((rows p.used R (x ++ List.replicate (p.used * R - x.length) 0))).map
    (scatter p.fft (usedIdx p.fft p.used))

/-- `OFDM._prepare_decoded_signal` -/
def unprepare (p : Params) (dec : List (List α)) : Except PyErr (List α) :=
  (dec.mapM (gather (usedIdx p.fft p.used))).map List.flatten

variable [Add α] [Mul α] [Div α]

/-- `OFDM.modulate`: `sqrt(scale) * ifft(prepared, fft, axis=1)`, CP, flatten -/
def modulate (ifftK : Nat → List α → List α) (s : α) (p : Params) (x : List α) : List α :=
  ((prepare p x).map (fun X => addCP p.cp ((ifftK p.fft X).map (fun v => s * v)))).flatten

/-- `OFDM.demodulate`: remove CP, `fft(·, fft, axis=1) / sqrt(scale)`, used subcarriers, flatten -/
def demodulate (fftK : Nat → List α → List α) (s : α) (p : Params) (y : List α) :
    Except PyErr (List α) :=
  match removeCP p y with
  | .error e => .error e
  | .ok rws => unprepare p (rws.map (fun r => (fftK p.fft r).map (fun v => v / s)))

variable [NatCast α]

/-! ## The transforms (documented definition of `np.fft.fft(a, n)` / `np.fft.ifft(a, n)`) -/

/-- `np.fft.fft(a, n)[k] = Σ_{m<n} a[m]·w(m·k)`, `w(j) = exp(-2πi·j/n)`; entries of `a`
    beyond `n` are cropped, missing ones are zero (numpy's meaning of the argument `n`) -/
def dft (w : Nat → α) (n : Nat) (a : List α) : List α :=
  (List.range n).map (fun k => ((List.range n).map (fun m => a.getD m 0 * w (m * k))).sum)

/-- `np.fft.ifft(a, n)[m] = (1/n)·Σ_{k<n} a[k]·w'(m·k)`, `w'(j) = exp(+2πi·j/n)` -/
def idft (w' : Nat → α) (n : Nat) (a : List α) : List α :=
  (List.range n).map (fun m => ((List.range n).map (fun k => a.getD k 0 * w' (m * k))).sum / (n : α))

/-! ## The SISO tapped-delay-line channel and its reported impulse response -/

/-- `TdlImpulseResponse` of a SISO channel: `tap_indexes_sparse` (the discretised,
    increasing, distinct delays) and `tap_values_sparse` (`taps × samples`) -/
structure ImpulseResponse (α : Type) where
  delays : List Nat
  vals : List (List α)
  ns : Nat

/-- `tap_indexes_sparse[-1]` (the channel memory); an empty profile cannot be built -/
def ImpulseResponse.memory (ir : ImpulseResponse α) : Except PyErr Nat :=
  match ir.delays.getLast? with
  | some d => .ok d
  | none => .error .IndexError

/-- `out[d : d+len(xs)] += xs` -/
def addAt : List α → Nat → List α → List α
  | out, 0, xs => List.zipWith (· + ·) out (xs ++ List.replicate (out.length - xs.length) 0)
  | [], _ + 1, _ => []
  | o :: out, d + 1, xs => o :: addAt out d xs

/-- the SISO branch of `TdlChannel.corrupt_data`, given the impulse response it generated:
    `output = zeros(n + memory); for i, d: output[d:d+n] += tap_values_sparse[i] * signal` -/
def corrupt (ir : ImpulseResponse α) (x : List α) : Except PyErr (List α) :=
  match ir.memory with
  | .error e => .error e
  | .ok M =>
    .ok ((ir.delays.zip ir.vals).foldl
      (fun out dv => addAt out dv.1 (List.zipWith (· * ·) dv.2 x))
      (List.replicate (x.length + M) 0))

/-- column `j` of `_get_samples_including_the_extra_zeros()`: the dense impulse response
    (`memory + 1` taps) at sample `j` -/
def dense (ir : ImpulseResponse α) (j : Nat) : Except PyErr (List α) :=
  match ir.memory with
  | .error e => .error e
  | .ok M => .ok (scatter (M + 1) ir.delays (ir.vals.map (fun v => v.getD j 0)))

/-- column `j` of `get_freq_response(fft_size)` = `np.fft.fft(dense, fft_size, axis=0)` -/
def freqResponse (fftK : Nat → List α → List α) (n : Nat) (ir : ImpulseResponse α) (j : Nat) :
    Except PyErr (List α) :=
  match dense ir j with
  | .error e => .error e
  | .ok h => .ok (fftK n h)

/-- `np.mean` of `m` values -/
def mean (l : List α) : α := l.sum / (l.length : α)

/-- `OfdmOneTapEqualizer.equalize_data(data, impulse_response)`:
    `data.reshape(-1, used)`; empty data is returned as is; `freq_response.reshape(fft, nsym, -1)`, mean over the samples
    of each OFDM symbol, transpose; divide by the response on the used subcarriers; flatten -/
def equalize (fftK : Nat → List α → List α) (p : Params) (data : List α) (ir : ImpulseResponse α) :
    Except PyErr (List α) :=
  let nsym := data.length / p.used
  if p.used = 0 then .error .ZeroDivisionError
  else if data.length % p.used ≠ 0 then .error .ValueError
  else if nsym = 0 then .ok data        -- no OFDM symbol: the (empty) data is returned
  else if ir.ns % nsym ≠ 0 then .error .ValueError
  else
    let m := ir.ns / nsym
    match (List.range ir.ns).mapM (freqResponse fftK p.fft ir) with
    | .error e => .error e
    | .ok H =>       -- H[j] = frequency response (length fft) at sample j; `reshape(fft, nsym, m)`
      let meanH : List (List α) := (rows m nsym H).map (fun grp =>
        (List.range p.fft).map (fun k => mean (grp.map (fun col => col.getD k 0))))
      match meanH.mapM (gather (usedIdx p.fft p.used)) with
      | .error e => .error e
      | .ok G => .ok (List.zipWith (List.zipWith (· / ·)) (rows p.used nsym data) G).flatten

/-- `received[:n]`: what the receiver keeps of the channel output before demodulating -/
def oneTapReceive (fftK : Nat → List α → List α) (s : α) (p : Params) (ir : ImpulseResponse α)
    (tx : List α) : Except PyErr (List α) :=
  match corrupt ir tx with
  | .error e => .error e
  | .ok rx =>
    match demodulate fftK s p (rx.take tx.length) with
    | .error e => .error e
    | .ok d => equalize fftK p d ir

/-! ## The (OFDM object, long-lived equaliser) pair as a state machine

`OfdmOneTapEqualizer.__init__` stores a *reference* to the OFDM object
(`self._ofdm_obj = ofdm_obj`) and nothing derived from it; `equalize_data` reads
`fft_size`, `num_used_subcarriers` and `get_used_subcarrier_indexes()` from that
object at every call.  The state of the pair is therefore the attribute triple
of the one shared OFDM object; the equaliser has no state of its own. -/

/-- state of one OFDM object together with an equaliser built on it -/
structure Pair where
  /-- attributes of the shared OFDM object (the equaliser's `_ofdm_obj` points here) -/
  ofdm : Params
  deriving DecidableEq, Repr

/-- a freshly built `(OFDM(fft, cp, used), OfdmOneTapEqualizer(ofdm))` -/
def freshPair (p : Params) : Pair := ⟨p⟩

/-- the operations a user can interleave on the pair -/
inductive PairOp (α : Type)
  | setParams (fft cp : Int) (used : Option Int)      -- `ofdm.set_parameters(...)`
  | modulate (x : List α)                             -- `ofdm.modulate(x)`
  | demodulate (y : List α)                           -- `ofdm.demodulate(y)`
  | equalize (data : List α) (ir : ImpulseResponse α) -- `equalizer.equalize_data(data, ir)`
  | usedIndexes                                       -- query `ofdm.get_used_subcarrier_indexes()`
  | zeropadOf (n : Nat)                               -- query `ofdm._calc_zeropad(n)` -> [zeropad, num symbols]

/-- one operation; `sc p` is `math.sqrt(_calculate_power_scale())` for the attributes `p`.
    `set_parameters` returns nothing (modelled as `.ok []`) or raises leaving the object unchanged. -/
def stepPair (fftK ifftK : Nat → List α → List α) (sc : Params → α) (s : Pair) :
    PairOp α → Pair × Except PyErr (List α)
  | .setParams f c u =>
    match setParameters f c u with
    | .ok p => (⟨p⟩, .ok [])
    | .error e => (s, .error e)
  | .modulate x => (s, .ok (modulate ifftK (sc s.ofdm) s.ofdm x))
  | .demodulate y => (s, demodulate fftK (sc s.ofdm) s.ofdm y)
  | .equalize data ir => (s, equalize fftK s.ofdm data ir)
  | .usedIndexes => (s, .ok ((usedIdx s.ofdm.fft s.ofdm.used).map (fun (i : Nat) => (i : α))))
  | .zeropadOf n => (s, .ok [((zeropad s.ofdm n : Nat) : α), ((numSymbols s.ofdm n : Nat) : α)])

/-- a history of operations: final state and the outputs in order -/
def runPair (fftK ifftK : Nat → List α → List α) (sc : Params → α) (s : Pair) :
    List (PairOp α) → Pair × List (Except PyErr (List α))
  | [] => (s, [])
  | op :: ops =>
    let r := stepPair fftK ifftK sc s op
    let rest := runPair fftK ifftK sc r.1 ops
    (rest.1, r.2 :: rest.2)

/-- the `set_parameters` calls of a history, in order -/
def setOps : List (PairOp α) → List (Int × Int × Option Int)
  | [] => []
  | .setParams f c u :: ops => (f, c, u) :: setOps ops
  | _ :: ops => setOps ops

end scalar
end PyPhysim.C02
