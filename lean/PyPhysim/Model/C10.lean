import PyPhysim.Model.C10Base
/-!
# C10 — numeric formulas of the interference-alignment solvers (core Lean only)

Mirrors, expression by expression, the matrix formulas of
`pyphysim/ia/iabase.py` (`full_F`, `_calc_equivalent_channel`, `full_W_H`,
`calc_Q` via `MultiUserChannelMatrix._calc_Q_impl`, `calc_Q_rev`) and
`pyphysim/ia/algorithms.py` (`ClosedFormIASolver._calc_E/_updateF/_updateW`,
`AlternatingMinIASolver.get_cost/_updateC/_updateF/_updateW`,
`MinLeakageIASolver.get_cost/_calc_Uk_all_k(_rev)`,
`MMSEIASolver._calc_Uk/_calc_Vi`).

A `K`-user system has per-user antenna / stream counts `Dims K`; the channel
from transmitter `l` to receiver `k` is `H k l : nr k × nt l`; precoders are
`F l : nt l × ns l`, receive filters `W k : nr k × ns k`.

External numeric kernels (`np.linalg.solve / inv / pinv / eig`, `leig`, `peig`,
`scipy.optimize.newton`) are NOT modelled: their *results* are parameters of
the model functions, the theorems quantify over every value that satisfies the
stated contract and the harness checks that contract on each case it runs.
-/
namespace PyPhysim.C10
open PyPhysim.Proto

/-- antenna and stream counts of the `K` users -/
structure Dims (K : Nat) where
  nr : Fin K → Nat
  nt : Fin K → Nat
  ns : Fin K → Nat

abbrev Chan (α : Type) {K : Nat} (d : Dims K) := (k l : Fin K) → Mat α (d.nr k) (d.nt l)
abbrev Prec (α : Type) {K : Nat} (d : Dims K) := (l : Fin K) → Mat α (d.nt l) (d.ns l)
abbrev Filt (α : Type) {K : Nat} (d : Dims K) := (k : Fin K) → Mat α (d.nr k) (d.ns k)
/-- basis of the interference subspace of every receiver (`AlternatingMinIASolver._C`) -/
abbrev Basis (α : Type) {K : Nat} (d : Dims K) := (k : Fin K) → Mat α (d.nr k) (d.nr k - d.ns k)

section formulas
variable {α : Type} [Zero α] [One α] [Add α] [Sub α] [Mul α] [Div α] [Conj α] [RSqrt α]
variable {K : Nat} {d : Dims K}

/-! ## base class -/

/-- `full_F` : `self._F * np.sqrt(self.P)` (user `l`: `F[l] * sqrt(P[l])`) -/
def fullF (F : Prec α d) (P : Fin K → α) : Prec α d :=
  fun l => mscale (F l) (RSqrt.sqrt (P l))

/-- `_calc_equivalent_channel(k)` : `Wk_H.dot(Hkk.dot(full_Fk))` -/
def eqChan {s r t : Nat} (WH : Mat α s r) (Hkk : Mat α r t) (fF : Mat α t s) : Mat α s s :=
  matMul WH (matMul Hkk fF)

/-- `set_precoders(full_F=…)` without `F` : `full_F[k] / np.linalg.norm(full_F[k], 'fro')` -/
def fFromFull (fF : Prec α d) : Prec α d := fun l => normalize (fF l)

/-- `MultiUserChannelMatrix._calc_Q_impl(k, full_F)` :
    `Σ_{l ≠ k} (H_kl full_F_l)(H_kl full_F_l)^H` -/
def calcQ (H : Chan α d) (fF : Prec α d) (k : Fin K) : Mat α (d.nr k) (d.nr k) :=
  msum K (fun l => if l = k then mzero else outerG (matMul (H k l) (fF l)))

/-- `calc_Q(k)` with the channel's noise variance:
    `Qk += np.eye(Nr[k]) * noise_var` when `noise_var is not None` -/
def calcQn (H : Chan α d) (fF : Prec α d) (noise : Option α) (k : Fin K) : Mat α (d.nr k) (d.nr k) :=
  match noise with
  | none => calcQ H fF k
  | some s => madd (calcQ H fF k) (mscale eye s)

/-- `calc_Q_rev(k)` :
    `Σ_{l ≠ k} (P[l] * H_lk^H W_l)(H_lk^H W_l)^H` -/
def calcQrev (H : Chan α d) (W : Filt α d) (P : Fin K → α) (k : Fin K) : Mat α (d.nt k) (d.nt k) :=
  msum K (fun l => if l = k then mzero else
    matMul (smul (P l) (matMul (cT (H l k)) (W l))) (cT (matMul (cT (H l k)) (W l))))

/-- the literal `1e-6` of the assertion in `calc_Q_rev` -/
def assertTol [OfNat α 1000000] : α := 1 / 1000000

/-- the assertion of `calc_Q_rev` on one interfering filter:
    `np.linalg.norm(self._W[l], 'fro') - 1.0 < 1e-6` -/
def normAssert [OfNat α 1000000] (lt : α → α → Prop) {m n : Nat} (Wl : Mat α m n) : Prop :=
  lt (frobNorm Wl - 1) assertTol

/-! ## minimum leakage -/

/-- what `MinLeakageIASolver._calc_Uk_all_k(_rev)` stores for the matrix `V`
    returned by `leig`: the design-round code stored `V` itself
    (`normalizeV = false`), the repaired code stores `V / ‖V‖_F` -/
def minLeakStore (normalizeV : Bool) {m n : Nat} (V : Mat α m n) : Mat α m n :=
  if normalizeV then normalize V else V

/-- `MinLeakageIASolver.get_cost()` :
    `Σ_k np.trace(np.abs(W_k^H Q_k W_k))` -/
def minLeakCost [AbsR α] (H : Chan α d) (fF : Prec α d) (noise : Option α) (W : Filt α d) : α :=
  sumFin K (fun k =>
    sumFin (d.ns k) (fun i =>
      AbsR.abs ((matMul (matMul (cT (W k)) (calcQn H fF noise k)) (W k)) i i)))

/-! ## alternating minimisation -/

/-- `Y[k] = np.eye(Nr) - C_k C_k^H` -/
def altMinY (C : Basis α d) (k : Fin K) : Mat α (d.nr k) (d.nr k) :=
  msub eye (matMul (C k) (cT (C k)))

/-- `AlternatingMinIASolver.get_cost()` :
    `Σ_{k ≠ l} ‖H_kl full_F_l − C_k C_k^H H_kl full_F_l‖_F²` -/
def altMinCost (H : Chan α d) (fF : Prec α d) (C : Basis α d) : α :=
  sumFin K (fun k => sumFin K (fun l =>
    if k = l then 0 else
      frobSq (msub (matMul (H k l) (fF l))
                   (matMul (matMul (C k) (cT (C k))) (matMul (H k l) (fF l))))))

/-- the matrix whose least eigenvectors `_updateF` takes for user `l` :
    `Σ_{k ≠ l} H_kl^H (I − C_k C_k^H) H_kl` -/
def altMinFMat (H : Chan α d) (C : Basis α d) (l : Fin K) : Mat α (d.nt l) (d.nt l) :=
  msum K (fun k => if k = l then mzero else
    matMul (matMul (cT (H k l)) (altMinY C k)) (H k l))

/-- `tildeHi = np.hstack([H_kk F_k, C_k])` -/
def hstack {n a b : Nat} (A : Mat α n a) (B : Mat α n b) : Mat α n (a + b) :=
  fun i j => Fin.addCases (fun ja => A i ja) (fun jb => B i jb) j

/-- `newW_H[k] = np.linalg.inv(tildeHi)[0:Ns[k]]` ; `G` is what `inv` returned -/
def altMinWH {n a b : Nat} (G : Mat α (a + b) n) : Mat α a n :=
  fun i j => G (Fin.castAdd b i) j

/-! ## closed form (3 users, all antenna counts equal to `N`) -/

/-- `_calc_E` : `solve(H31,H32).dot(solve(H12,H13).dot(solve(H23,H21)))`;
    `A`, `B`, `Cc` are the three values returned by `np.linalg.solve` -/
def cfE {N : Nat} (A B Cc : Mat α N N) : Mat α N N := matMul A (matMul B Cc)

/-- un-normalised second / third precoder of `_updateF` :
    `np.dot(pinv(H32), np.dot(H31, F0))`; `G` is what `np.linalg.pinv` returned -/
def cfChain {N s : Nat} (G Hx1 : Mat α N N) (F0 : Mat α N s) : Mat α N s :=
  matMul G (matMul Hx1 F0)

/-- the matrix handed to `leig` by `_updateW` : `A A^H` with `A = H_kl F_l` -/
def cfWMat {N s : Nat} (Hkl : Mat α N N) (Fl : Mat α N s) : Mat α N N :=
  outerG (matMul Hkl Fl)

/-! ## MMSE -/

/-- `sum_term` of `_calc_Vi(i)` : `Σ_k (H_ki^H W_k)(H_ki^H W_k)^H` (all `k`) -/
def mmseSum (H : Chan α d) (W : Filt α d) (i : Fin K) : Mat α (d.nt i) (d.nt i) :=
  msum K (fun k => outerG (matMul (cT (H k i)) (W k)))

/-- `Hii_herm_U = H_ii^H W_i` -/
def mmseHU (H : Chan α d) (W : Filt α d) (i : Fin K) : Mat α (d.nt i) (d.ns i) :=
  matMul (cT (H i i)) (W i)

/-- the matrix handed to `np.linalg.solve` by `_calc_Vi_for_a_given_mu` :
    `sum_term + mu_i * np.eye(N)` -/
def mmseLhs {n : Nat} (S : Mat α n n) (mu : α) : Mat α n n := madd S (smul mu eye)

/-- `func(mu)` of `_calc_Vi` for the precoder `V` computed for that `mu` :
    `norm(V, 'fro')**2 - P` -/
def mmseCost {n s : Nat} (V : Mat α n s) (P : α) : α := frobSq V - P

/-- `_calc_Vi(i)` (search for the Lagrange multiplier).  `solve A B` is the value
    returned by `np.linalg.solve(A, B)`, `newton S HU P` the value returned by
    `scipy.optimize.newton(func, 0.0, args=(S, HU, P))`, `nonpos c` is `c <= 0`.
    `S`, `HU` are first divided by `scale_factor = norm(HU)` as in the source. -/
def mmseVi {n s : Nat} (nonpos : α → Prop) [DecidablePred nonpos]
    (solve : Mat α n n → Mat α n s → Mat α n s)
    (newton : Mat α n n → Mat α n s → α → α)
    (S : Mat α n n) (HU : Mat α n s) (P : α) : Mat α n s :=
  let HU' := mdiv HU (frobNorm HU)
  let S' := mdiv S (frobNorm HU)
  let V0 := solve (mmseLhs S' 0) HU'
  if nonpos (mmseCost V0 P) then V0
  else solve (mmseLhs S' (newton S' HU' P)) HU'

/-- the matrix handed to `np.linalg.solve` by `_calc_Uk(k)` :
    `Σ_i (H_ki full_F_i)(H_ki full_F_i)^H + noise_var * np.eye(Nr[k])` -/
def mmseUkLhs (H : Chan α d) (fF : Prec α d) (noiseVar : α) (k : Fin K) : Mat α (d.nr k) (d.nr k) :=
  madd (msum K (fun i => outerG (matMul (H k i) (fF i)))) (smul noiseVar eye)

/-- right-hand side of the same call : `H_kk full_F_k` -/
def mmseUkRhs (H : Chan α d) (fF : Prec α d) (k : Fin K) : Mat α (d.nr k) (d.ns k) :=
  matMul (H k k) (fF k)

end formulas

/-! ## svd initialisation (index arithmetic) -/

/-- the number `n` handed to `least_right_singular_vectors(H_kk, n)` by
    `_initialize_F_with_svd_and_find_W`: the design-round code passed `Nr − Ns`,
    the repaired code passes `Nt − Ns` (`H_kk` has `Nt` right singular vectors) -/
def svdInitDiscard (repaired : Bool) (nr nt ns : Nat) : Nat :=
  if repaired then nt - ns else nr - ns

/-- number of columns of the initial precoder `V1 = V[:, sort_indexes[n:]]`
    (`V` is `Nt × Nt`) -/
def svdInitKept (repaired : Bool) (nr nt ns : Nat) : Nat :=
  nt - svdInitDiscard repaired nr nt ns

end PyPhysim.C10
