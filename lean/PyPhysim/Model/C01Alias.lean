/-
C01 — robustness class R16: the modulator object *together with the caller's arrays*.

`Model/C01.lean` passes every argument by value, so "the same array object with new
contents" cannot even be said there.  Here the caller owns numbered arrays (`cbuf` complex
samples / tables, `ibuf` index arrays) which it may refill in place between calls
(`buf[...] = new`), and the calls name the array they are handed.  What the code does with
an argument is then explicit:

* `modulate(buf)` / `demodulate(buf)` read the contents at call time and return fresh values;
* the constructors and `PSK.setPhaseOffset` install a table the object created itself (`own`);
* `Modulator.setConstellation(buf)` executes `self.symbols = symbols`: the object KEEPS THE
  CALLER'S ARRAY (`arg b`), so a later refill of that array reaches the object.  This is the
  code that exists (finding `C01:setConstellation-keeps-argument`); the classes the property
  lists (BPSK, QPSK, PSK, QAM) only ever install tables they created.  `setConstellationCopy`
  is the proposed repair (`self.symbols = np.array(symbols)`); the harness uses it in place of
  `setConstellation` when — and only when — the real method is observed not to keep the array,
  so that repairing the library does not break the tie.

Core Lean only; polymorphic in the scalar like `Model/C01.lean`.
-/
import PyPhysim.Model.C01
namespace PyPhysim.C01
open PyPhysim.Proto

/-- where the constellation table of the object lives -/
inductive TableRef (α : Type)
  | own (t : List (α × α))     -- an array created by the object (constructor, `setPhaseOffset`)
  | arg (b : Nat)              -- the caller's array number `b`, kept by `setConstellation`

/-- the caller's arrays and the object -/
structure AState (α : Type) where
  cbuf : Nat → List (α × α)    -- complex arrays of the caller (received samples, tables)
  ibuf : Nat → List Nat        -- index arrays of the caller
  table : TableRef α

/-- `buf[...] = v` (or the first allocation of array `b`) -/
def upd {β : Type} (h : Nat → β) (b : Nat) (v : β) : Nat → β := fun x => if x = b then v else h x

inductive AOp (α : Type)
  | fillC (b : Nat) (v : List (α × α))   -- caller: refill complex array `b` in place
  | fillI (b : Nat) (v : List Nat)       -- caller: refill index array `b` in place
  | install (t : List (α × α))           -- constructor / `setPhaseOffset`: a table made by the object
  | setConstellation (b : Nat)           -- `self.symbols = symbols` with the caller's array `b`
  | setConstellationCopy (b : Nat)       -- the repair `self.symbols = np.array(symbols)` (not the code that exists)
  | demodulate (b : Nat)                 -- `demodulate(array b)`
  | modulate (b : Nat)                   -- `modulate(index array b)`

inductive AOut (α : Type)
  | none
  | indexes (l : List Nat)
  | symbols (r : Except PyErr (List (α × α)))

/-- the table a call sees: the object's own array, or the *current* contents of the kept array -/
def AState.resolve {α : Type} (s : AState α) : List (α × α) :=
  match s.table with
  | .own t => t
  | .arg b => s.cbuf b

section
variable {α : Type} [Add α] [Sub α] [Mul α] [LT α] [DecidableLT α]

def aStep (s : AState α) : AOp α → AState α × AOut α
  | .fillC b v => ({ s with cbuf := upd s.cbuf b v }, .none)
  | .fillI b v => ({ s with ibuf := upd s.ibuf b v }, .none)
  | .install t => ({ s with table := .own t }, .none)
  | .setConstellation b => ({ s with table := .arg b }, .none)
  | .setConstellationCopy b => ({ s with table := .own (s.cbuf b) }, .none)
  | .demodulate b => (s, .indexes ((s.cbuf b).map (demod s.resolve)))
  | .modulate b => (s, .symbols ((s.ibuf b).mapM (modulate s.resolve)))

/-- state after a history -/
def aState (s : AState α) : List (AOp α) → AState α
  | [] => s
  | op :: ops => aState (aStep s op).1 ops

/-- outputs of a history, one per operation -/
def aOutputs (s : AState α) : List (AOp α) → List (AOut α)
  | [] => []
  | op :: ops => (aStep s op).2 :: aOutputs (aStep s op).1 ops

/-- an operation of the caller or a call that does not replace the table -/
def AOp.keepsTable : AOp α → Bool
  | .install _ => false
  | .setConstellation _ => false
  | .setConstellationCopy _ => false
  | _ => true
end

/-- nothing allocated, table `t` made by the object: a freshly constructed modulator -/
def freshObj {α : Type} (t : List (α × α)) : AState α := ⟨fun _ => [], fun _ => [], .own t⟩

end PyPhysim.C01
