import PyPhysim.Generated.C13Constants
/-!
# C13 — hand model of the path-loss / antenna-gain objects

Core Lean only.  The numeric formulas, constants, setter guards and decision
ladders are the **generated** definitions of `PyPhysim.C13.Gen` (re-emitted
from the source on every run); this file adds what the translator does not
cover: the object state + setter machines, the negative-loss policy of
`PathLossBase.calc_path_loss_dB`, scalar / array dispatch and the Python
exceptions.  Tied to the code by the correspondence of `harness/props/c13.py`.
Shadowing (`use_shadow_bool`) is off (DESIGN §5 C13 "Limits").
-/
namespace PyPhysim.C13
open PyPhysim.Proto

variable {α : Type} [Add α] [Sub α] [Mul α] [Div α] [Neg α] [NatCast α] [OfScientific α]
  [LT α] [LE α] [DecidableLT α] [DecidableLE α] [Transc α]

def zero : α := ((0 : Nat) : α)

/-- neither `< 0` nor `> 0` (a Python float that makes `/` raise ZeroDivisionError) -/
def isZero (x : α) : Bool := !(decide (x < zero)) && !(decide (zero < x))

/-! ## the negative-loss policy (`PathLossBase.calc_path_loss_dB`, shadowing off) -/

/-- scalar `PL`: `np.any(np.array(PL) < 0)` ⇒ `0.0` or RuntimeError per flag -/
def policyScalar (small : Bool) (pl : α) : Except PyErr α :=
  if pl < zero then (if small then .ok zero else .error .RuntimeError) else .ok pl

/-- array `PL`: any negative entry ⇒ clamp all negative entries, or RuntimeError -/
def policyArray (small : Bool) (pl : List α) : Except PyErr (List α) :=
  if pl.any (fun x => decide (x < zero)) then
    (if small then .ok (pl.map (fun x => if x < zero then zero else x)) else .error .RuntimeError)
  else .ok pl

/-- `math.log10(d)` raises ValueError for `d ≤ 0`; the deterministic loss `f d`
    of a scalar distance then goes through the policy -/
def scalarDb (small : Bool) (f : α → α) (d : α) : Except PyErr α :=
  if zero < d then policyScalar small (f d) else .error .ValueError

/-- array distances (admissible: every entry positive) use `np.log10`, no exception -/
def arrayDb (small : Bool) (f : α → α) (ds : List α) : Except PyErr (List α) :=
  policyArray small (ds.map f)

/-- `calc_path_loss = dB2Linear(-calc_path_loss_dB)` -/
def toLin (r : Except PyErr α) : Except PyErr α := r.map (fun x => Gen.dB2Linear (-x))
def toLinArray (r : Except PyErr (List α)) : Except PyErr (List α) :=
  r.map (fun l => l.map (fun x => Gen.dB2Linear (-x)))

/-! ## PathLossGeneral / PathLoss3GPP1 / PathLossFreeSpace -/

/-- `_n`, `_C`, `handle_small_distances_bool`; `fc` is only meaningful for free space -/
structure GenState (α : Type) where
  n : α
  C : α
  fc : α
  small : Bool
  /-- `use_shadow_bool` (plain attribute). Numeric queries of the model are the deterministic part:
      they are tied to the code only while this flag is off. -/
  shadow : Bool

def generalInit (n C : α) : GenState α := ⟨n, C, zero, false, false⟩
def gpp1Init : GenState α := generalInit Gen.gpp1N Gen.gpp1C
/-- `PathLossFreeSpace(n, fc)`: `_C = _calculate_C_from_fc_and_n(_fc, n)` -/
def fsInit (n fc : α) : GenState α := ⟨n, Gen.fsCalcC fc n, fc, false, false⟩

inductive FsOp (α : Type)
  | setN (v : α)        -- `pl.n = v`
  | setFc (v : α)       -- `pl.fc = v`
  | setSmall (b : Bool) -- `pl.handle_small_distances_bool = b`
  | setShadow (b : Bool) -- `pl.use_shadow_bool = b`

/-- the PathLossFreeSpace setters (both recompute `_C`) -/
def fsStep (s : GenState α) : FsOp α → GenState α
  | .setN v => { s with n := v, C := Gen.fsCalcC s.fc v }
  | .setFc v => { s with fc := v, C := Gen.fsCalcC v s.n }
  | .setSmall b => { s with small := b }
  | .setShadow b => { s with shadow := b }

def fsRun (s : GenState α) (ops : List (FsOp α)) : GenState α := ops.foldl fsStep s

def GenState.detDb (s : GenState α) (d : α) : α := Gen.generalDb s.n s.C d
def GenState.dbScalar (s : GenState α) (d : α) : Except PyErr α := scalarDb s.small s.detDb d
def GenState.dbArray (s : GenState α) (ds : List α) : Except PyErr (List α) := arrayDb s.small s.detDb ds
def GenState.linScalar (s : GenState α) (d : α) : Except PyErr α := toLin (s.dbScalar d)
def GenState.linArray (s : GenState α) (ds : List α) : Except PyErr (List α) := toLinArray (s.dbArray ds)

/-- `which_distance_dB` on a Python float: `(PL - C) / (10. * n)` raises ZeroDivisionError for `n = 0` -/
def GenState.whichDbScalar (s : GenState α) (pl : α) : Except PyErr α :=
  if isZero ((10.0 : α) * s.n) then .error .ZeroDivisionError else .ok (Gen.generalWhichDb s.n s.C pl)
/-- on an array numpy divides without raising -/
def GenState.whichDbArray (s : GenState α) (pls : List α) : List α := pls.map (Gen.generalWhichDb s.n s.C)
/-- `which_distance(pl) = which_distance_dB(-linear2dB(pl))`; `linear2dB` uses `np.log10`, so the
    argument of `which_distance_dB` is a numpy scalar and nothing raises -/
def GenState.whichLin (s : GenState α) (pl : α) : α := Gen.generalWhichDb s.n s.C (-(Gen.linear2dB pl))
def GenState.whichLinArray (s : GenState α) (pls : List α) : List α := pls.map s.whichLin

/-! ## PathLossMetisPS7 -/

structure Ps7State (α : Type) where
  fc : α
  small : Bool
  shadow : Bool

def ps7Init (fc : α) : Ps7State α := ⟨fc, false, false⟩

inductive Ps7Op (α : Type)
  | setFc (v : α)
  | setSmall (b : Bool)
  | setShadow (b : Bool)

def ps7Step (s : Ps7State α) : Ps7Op α → Ps7State α
  | .setFc v => { s with fc := v }
  | .setSmall b => { s with small := b }
  | .setShadow b => { s with shadow := b }

def ps7Run (s : Ps7State α) (ops : List (Ps7Op α)) : Ps7State α := ops.foldl ps7Step s

/-- deterministic loss for a non-negative wall count (0 = LOS) -/
def Ps7State.detDb (s : Ps7State α) (nw : Nat) (d : α) : α :=
  if nw = 0 then Gen.ps7LosDb s.fc d else Gen.ps7NlosDb s.fc d ((nw : Nat) : α)

/-- scalar `d`, int `num_walls`: negative wall count ⇒ ValueError -/
def Ps7State.dbScalar (s : Ps7State α) (nw : Int) (d : α) : Except PyErr α :=
  if nw < 0 then .error .ValueError else scalarDb s.small (s.detDb nw.toNat) d

/-- array `d`, int `num_walls` -/
def Ps7State.dbArray (s : Ps7State α) (nw : Int) (ds : List α) : Except PyErr (List α) :=
  if nw < 0 then .error .ValueError else arrayDb s.small (s.detDb nw.toNat) ds

/-- array `d`, array `num_walls` (entry-wise LOS / NLOS selection) -/
def Ps7State.dbArrayWalls (s : Ps7State α) (nws : List Nat) (ds : List α) : Except PyErr (List α) :=
  policyArray s.small (List.zipWith (fun nw d => s.detDb nw d) nws ds)

def Ps7State.linScalar (s : Ps7State α) (nw : Int) (d : α) : Except PyErr α := toLin (s.dbScalar nw d)

/-- distance for a loss, non-negative wall count -/
def Ps7State.detWhich (s : Ps7State α) (nw : Nat) (pl : α) : α :=
  if nw = 0 then Gen.ps7LosWhichDb s.fc pl else Gen.ps7NlosWhichDb s.fc pl ((nw : Nat) : α)

/-- `which_distance_dB(PL, num_walls)`: negative wall count ⇒ ValueError -/
def Ps7State.whichDb (s : Ps7State α) (nw : Int) (pl : α) : Except PyErr α :=
  if nw < 0 then .error .ValueError else .ok (s.detWhich nw.toNat pl)

def Ps7State.whichDbArray (s : Ps7State α) (nw : Int) (pls : List α) : Except PyErr (List α) :=
  if nw < 0 then .error .ValueError else .ok (pls.map (s.detWhich nw.toNat))

/-- `which_distance(pl, num_walls) = which_distance_dB(-linear2dB(pl), num_walls)` -/
def Ps7State.whichLin (s : Ps7State α) (nw : Int) (pl : α) : Except PyErr α :=
  s.whichDb nw (-(Gen.linear2dB pl))

/-! ## PathLossOkomuraHata -/

structure OhState (α : Type) where
  fc : α
  hbs : α
  hms : α
  area : String
  small : Bool
  shadow : Bool

def ohInit : OhState α := ⟨Gen.ohDefaultFc, Gen.ohDefaultHbs, Gen.ohDefaultHms, Gen.ohDefaultArea, false, false⟩

inductive OhOp (α : Type)
  | setFc (v : α)
  | setHbs (v : α)
  | setHms (v : α)
  | setArea (v : String)
  | setSmall (b : Bool)
  | setShadow (b : Bool)

/-- guarded setters: a rejected value raises RuntimeError and leaves the state unchanged -/
def ohStep (s : OhState α) : OhOp α → OhState α × Option PyErr
  | .setFc v => if Gen.ohFcAccepted v then ({ s with fc := v }, none) else (s, some .RuntimeError)
  | .setHbs v => if Gen.ohHbsAccepted v then ({ s with hbs := v }, none) else (s, some .RuntimeError)
  | .setHms v => if Gen.ohHmsAccepted v then ({ s with hms := v }, none) else (s, some .RuntimeError)
  | .setArea v => if Gen.ohAreaAccepted v then ({ s with area := v }, none) else (s, some .RuntimeError)
  | .setSmall b => ({ s with small := b }, none)
  | .setShadow b => ({ s with shadow := b }, none)

def ohRun (s : OhState α) (ops : List (OhOp α)) : OhState α := ops.foldl (fun s o => (ohStep s o).1) s

/-- the deterministic loss as a function of distance, once `a` and `K` are known -/
def OhState.detDb (s : OhState α) (a K : α) (d : α) : α := Gen.ohDb s.fc s.hbs a K d

def OhState.dbScalar (s : OhState α) (d : α) : Except PyErr α :=
  match Gen.ohA s.area s.fc s.hms, Gen.ohK s.area s.fc with
  | .ok a, .ok K => scalarDb s.small (s.detDb a K) d
  | .error e, _ => .error e
  | _, .error e => .error e

def OhState.dbArray (s : OhState α) (ds : List α) : Except PyErr (List α) :=
  match Gen.ohA s.area s.fc s.hms, Gen.ohK s.area s.fc with
  | .ok a, .ok K => arrayDb s.small (s.detDb a K) ds
  | .error e, _ => .error e
  | _, .error e => .error e

def OhState.linScalar (s : OhState α) (d : α) : Except PyErr α := toLin (s.dbScalar d)

/-- `which_distance_dB` is not offered: NotImplementedError (a RuntimeError subclass) -/
def OhState.whichDb (_s : OhState α) (_pl : α) : Except PyErr α := .error .RuntimeError

/-! ## the plot helper (`_plot_deterministic_path_loss_in_dB_impl`) — a public call that is NOT a setter

The helper saves flags, forces some of them while the curve is computed
(`Gen.plotForcedShadow`, `Gen.plotForcedSmall`: regenerated from the source),
calls `calc_path_loss_dB(d)` and `ax.plot`, and writes the saved flags back in a
`finally` block.  `axRaises` = the axes object's `plot` raises (ValueError in
the harness stub). -/

/-- the two policy flags in force while the curve is computed -/
def plotFlags (small shadow : Bool) : Bool × Bool :=
  (match Gen.plotForcedSmall with | some b => b | none => small,
   match Gen.plotForcedShadow with | some b => b | none => shadow)

/-- outcome of the body: the policy's exception, else the axes' exception, else none -/
def plotOutcome (r : Except PyErr (List α)) (axRaises : Bool) : Option PyErr :=
  match r with
  | .error e => some e
  | .ok _ => if axRaises then some .ValueError else none

def GenState.plot (s : GenState α) (ds : List α) (axRaises : Bool) : GenState α × Option PyErr :=
  let during : GenState α := { s with small := (plotFlags s.small s.shadow).1, shadow := (plotFlags s.small s.shadow).2 }
  ({ during with small := s.small, shadow := s.shadow }, plotOutcome (during.dbArray ds) axRaises)

/-- the indoor helper calls `calc_path_loss_dB(d)` without `num_walls` (LOS) -/
def Ps7State.plot (s : Ps7State α) (ds : List α) (axRaises : Bool) : Ps7State α × Option PyErr :=
  let during : Ps7State α := { s with small := (plotFlags s.small s.shadow).1, shadow := (plotFlags s.small s.shadow).2 }
  ({ during with small := s.small, shadow := s.shadow }, plotOutcome (during.dbArray 0 ds) axRaises)

def OhState.plot (s : OhState α) (ds : List α) (axRaises : Bool) : OhState α × Option PyErr :=
  let during : OhState α := { s with small := (plotFlags s.small s.shadow).1, shadow := (plotFlags s.small s.shadow).2 }
  ({ during with small := s.small, shadow := s.shadow }, plotOutcome (during.dbArray ds) axRaises)

/-! ## R16 — the caller's side: ONE argument array, refilled in place between calls

`buf` is the array object the caller owns.  The model's queries are functions of the
*contents* handed over at call time; nothing of the argument is kept by the object
(`GenState` has no field that could hold it) and answers are values appended to `outs`. -/

inductive CallerOp (α : Type)
  | refill (vs : List α)   -- `buf[...] = vs`
  | set (o : FsOp α)       -- a setter call on the object in between
  | callDb                 -- `obj.calc_path_loss_dB(buf)`
  | callLin                -- `obj.calc_path_loss(buf)`
  | callWhich              -- `obj.which_distance_dB(buf)`

structure CallerState (α : Type) where
  obj : GenState α
  buf : List α
  outs : List (Except PyErr (List α))

def callerStep (c : CallerState α) : CallerOp α → CallerState α
  | .refill vs => { c with buf := vs }
  | .set o => { c with obj := fsStep c.obj o }
  | .callDb => { c with outs := c.outs ++ [c.obj.dbArray c.buf] }
  | .callLin => { c with outs := c.outs ++ [c.obj.linArray c.buf] }
  | .callWhich => { c with outs := c.outs ++ [.ok (c.obj.whichDbArray c.buf)] }

def callerRun (c : CallerState α) (ops : List (CallerOp α)) : CallerState α := ops.foldl callerStep c

/-- the setter calls contained in a caller history -/
def CallerOp.setter? : CallerOp α → Option (FsOp α)
  | .set o => some o
  | _ => none

/-! ## AntGainBS3GPP25996 -/

structure Ant (α : Type) where
  theta : α
  am : α
  gain0 : α

def antNew (sectors : Nat) : Except PyErr (Ant α) :=
  match (Gen.antParams sectors : Option (α × α × α)) with
  | some (t, a, g) => .ok ⟨t, a, g⟩
  | none => .error .ValueError

def Ant.gain (a : Ant α) (angle : α) : α := Gen.antGain a.gain0 a.theta a.am angle

end PyPhysim.C13
