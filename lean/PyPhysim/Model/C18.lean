/-
C18 — model of `pyphysim/reference_signals/{zadoffchu,root_sequence,srs,dmrs,
channel_estimation}.py` and `pyphysim/channel_estimation/estimators.py`
(core Lean only, executable).

* Sequences are kept **exactly**: every element of a root / user sequence is a
  root of unity `exp(2πi·q)` and the model carries the phase `q : Rat` (in
  turns).  `CisOps.cis q` maps a phase to a scalar.
* Numeric code is polymorphic in the scalar `α` through core classes plus
  `CisOps` (`cis`, `conj`): instantiated at `ℂ` in `Proofs/`, at a pair of
  `Float`s in the driver.
* External kernels are *not* modelled but replaced by their contract:
  `np.fft.ifft(x, N)` / `np.fft.fft(x, M)` are the defining DFT sums
  (`ifftN`, `fftPad`), `np.linalg.norm` and `np.linalg.inv` are parameters
  (`nu`, `inv`).  The harness checks those contracts numerically on every case.
-/
import PyPhysim.Model.Proto
namespace PyPhysim.Cazac
open PyPhysim.Proto

/-- scalar operations beyond the core arithmetic classes -/
class CisOps (α : Type) where
  /-- `cis q = exp(2πi·q)` -/
  cis : Rat → α
  /-- complex conjugate -/
  conj : α → α

/-! ## Discrete part -/

/-- `_SMALL_PRIME_LIST[_SMALL_PRIME_LIST <= seq_size][-1]` -/
def primeLookup (table : List Nat) (s : Nat) : Except PyErr Nat :=
  match (table.filter (fun p => decide (p ≤ s))).getLast? with
  | some p => .ok p
  | none => .error .IndexError

/-- `get_extended_ZF(root_seq, size)` (both branches, and what Python slicing
    does for `size < len`). -/
def extendedZF {β : Type} (root : List β) (size : Nat) : Except PyErr (List β) :=
  let n := root.length
  if size > 2 * n then                      -- `size - n > n`
    if n = 0 then .error .ZeroDivisionError  -- `size // 0`
    else
      let reps := size / n
      .ok ((List.replicate reps root).flatten ++ root.take (size - n * reps))
  else if n ≤ size then .ok (root ++ root.take (size - n))
  else .ok (root ++ root.take size)          -- `root[0:size-n]`, negative stop

/-- phase (in turns) of `exp(-1j*pi*u*n*(n+1)/Nzc)` -/
def zcPhase (N u n : Nat) : Rat := -(((u * n * (n + 1) : Nat) : Rat) / ((2 * N : Nat) : Rat))

/-- `calcBaseZC(Nzc, u)` (q = 0), as phases -/
def zcPhases (N u : Nat) : List Rat := (List.range N).map (zcPhase N u)

/-- `exp(1j*(pi/4)*row)` as phases -/
def tablePhases (row : List Int) : List Rat := row.map (fun (φ : Int) => ((φ : Int) : Rat) / ((8 : Nat) : Rat))

/-- state of a `RootSequence` object -/
structure RootSeq where
  index : Nat
  base : List Rat                 -- `_seq_array`
  ext : Option (List Rat)         -- `_extended_seq_array`
  deriving Repr

/-- `RootSequence.Nzc` -/
def RootSeq.nzc (r : RootSeq) : Nat := r.base.length
/-- `RootSequence.seq_array()` -/
def RootSeq.seqArray (r : RootSeq) : List Rat :=
  match r.ext with
  | none => r.base
  | some e => e
/-- `RootSequence.size` -/
def RootSeq.size (r : RootSeq) : Nat := r.seqArray.length

/-- `RootSequence.__init__` once `size` and `Nzc` are known integers -/
def rootSequenceCore (t1 t2 : List (List Int)) (u size nzc : Nat) : Except PyErr RootSeq :=
  if size < nzc then .error .AttributeError
  else if size > 24 then
    if u < nzc then                              -- `assert u < Nzc` in calcBaseZC
      let base := zcPhases nzc u
      if size > nzc then
        match extendedZF base size with
        | .ok e => .ok ⟨u, base, some e⟩
        | .error e => .error e
      else .ok ⟨u, base, none⟩
    else .error .AssertionError
  else if size = 12 then
    match t1[u]? with
    | some row => .ok ⟨u, tablePhases row, none⟩
    | none => .error .KeyError
  else if size = 24 then
    match t2[u]? with
    | some row => .ok ⟨u, tablePhases row, none⟩
    | none => .error .KeyError
  else .error .AttributeError

/-- `RootSequence(root_index, size, Nzc)` -/
def rootSequence (table : List Nat) (t1 t2 : List (List Int)) (u : Nat) :
    Option Nat → Option Nat → Except PyErr RootSeq
  | none, none => .error .AttributeError
  | none, some z => rootSequenceCore t1 t2 u z z
  | some s, none =>
      match primeLookup table s with
      | .ok z => rootSequenceCore t1 t2 u s z
      | .error e => .error e
  | some s, some z => rootSequenceCore t1 t2 u s z

/-- `get_shifted_root_seq(root_seq, n_cs, denominator)` for `n_cs ≥ 0`, as phases -/
def shiftedPhases (root : List Rat) (ncs D : Nat) : Except PyErr (List Rat) :=
  if ncs < D then
    .ok (root.zipIdx.map (fun p => ((ncs * p.2 : Nat) : Rat) / ((D : Nat) : Rat) + p.1))
  else .error .AssertionError

/-! ## Scalar part -/
section scalar
variable {α : Type} [Add α] [Sub α] [Mul α] [Div α] [Neg α] [Zero α] [NatCast α] [CisOps α]

/-- phases to values -/
def seqValues (ph : List Rat) : List α := ph.map CisOps.cis

/-- state of a `UeSequence` object (`rows` = `_user_seq_array`; one row when it
    is a 1-D array i.e. no cover code) -/
structure UeSeq (α : Type) where
  normalized : Bool
  rows : List (List α)
  cover : Option (List α)

/-- `SrsUeSequence` / `DmrsUeSequence.__init__` after the cyclic shift:
    cover-code rows, then division by the norm `nu` (value returned by
    `np.linalg.norm` for the first row: external kernel). -/
def ueSequence (x : List α) (cover : Option (List α)) (normalize : Bool) (nu : α) :
    Except PyErr (UeSeq α) :=
  let rows := match cover with
    | none => [x]
    | some cc => cc.map (fun c => x.map (fun v => v * c))
  if normalize then
    if rows.isEmpty then .error .IndexError          -- `user_seq_array[0]`
    else .ok ⟨true, rows.map (fun row => row.map (fun v => v / nu)), cover⟩
  else .ok ⟨false, rows, cover⟩

/-! ## One cell: a root sequence object shared by the users built from it

`SrsUeSequence(root, n_cs, normalize)` / `DmrsUeSequence(root, n_cs, cover_code, normalize)`
read `root.seq_array()` and build **new** arrays: the root object and the users
built earlier are not touched, whatever the order of the constructions; a
rejected construction (`assert abs(n_cs) < denominator`) leaves everything as
it was. -/

/-- arguments of one user construction (`norm` = `np.linalg.norm`, external kernel) -/
structure UeSpec (α : Type) where
  D : Nat
  ncs : Nat
  normalize : Bool
  cover : Option (List α)

/-- the user built from a root (what a construction returns) -/
def buildUe (norm : List α → α) (root : RootSeq) (sp : UeSpec α) : Except PyErr (UeSeq α) :=
  match shiftedPhases root.seqArray sp.ncs sp.D with
  | .error e => .error e
  | .ok ph =>
    let x : List α := seqValues ph
    let row0 : List α := match sp.cover with
      | none => x
      | some [] => []
      | some (c :: _) => x.map (fun v => v * c)
    ueSequence x sp.cover sp.normalize (norm row0)

/-- observable state of a cell: the shared root object and every user built so far -/
structure Cell (α : Type) where
  root : RootSeq
  users : List (UeSeq α)

/-- one construction on the shared root -/
def Cell.addUser (norm : List α → α) (c : Cell α) (sp : UeSpec α) : Cell α × Option PyErr :=
  match buildUe norm c.root sp with
  | .ok ue => (⟨c.root, c.users ++ [ue]⟩, none)
  | .error e => (c, some e)

/-- a history of constructions -/
def Cell.run (norm : List α → α) : Cell α → List (UeSpec α) → Cell α × List (Option PyErr)
  | c, [] => (c, [])
  | c, sp :: rest =>
    let (c1, st) := c.addUser norm sp
    let (c2, sts) := Cell.run norm c1 rest
    (c2, st :: sts)

/-- what the read-only accessors of a cell show: `(Nzc, size, index)` of the root and
    `(normalized, number of rows, row length)` of every user built so far -/
def Cell.observe (c : Cell α) : (Nat × Nat × Nat) × List (Bool × Nat × Nat) :=
  ((c.root.nzc, c.root.size, c.root.index),
   c.users.map (fun ue => (ue.normalized, ue.rows.length, (ue.rows.headD []).length)))

/-- operations of a cell history: constructions, read-only calls (`Nzc`, `size`,
    `index`, `seq_array()`, `[...]`, `conj()`, `+`, `*`, `repr`, `normalized`,
    `shape`, `cover_code`, …) and copies (`copy.copy`, `copy.deepcopy`, pickle
    round trip) of a user built earlier, kept as one more user -/
inductive CellOp (α : Type) where
  | build (sp : UeSpec α)
  | query
  | copy (j : Nat)

/-- one operation; a query returns the observables and leaves the cell alone -/
def Cell.step (norm : List α → α) (c : Cell α) : CellOp α → Cell α × Option PyErr
  | .build sp => c.addUser norm sp
  | .query => (c, none)
  | .copy j =>
    match c.users[j]? with
    | some ue => (⟨c.root, c.users ++ [ue]⟩, none)
    | none => (c, some .IndexError)

def Cell.runOps (norm : List α → α) : Cell α → List (CellOp α) → Cell α × List (Option PyErr)
  | c, [] => (c, [])
  | c, op :: rest =>
    let (c1, st) := c.step norm op
    let (c2, sts) := Cell.runOps norm c1 rest
    (c2, st :: sts)

/-- `Σ_n x[n]·w(n)` -/
def dot (x : List α) (w : Nat → α) : α := (x.zipIdx.map (fun p => p.1 * w p.2)).sum

/-- contract of `np.fft.ifft(x, N)` for `len x = N` -/
def ifftN (x : List α) (N : Nat) : List α :=
  (List.range N).map (fun k =>
    dot x (fun n => CisOps.cis (((n * k : Nat) : Rat) / ((N : Nat) : Rat))) / ((N : Nat) : α))

/-- contract of `np.fft.fft(x, M)` (crop or zero-pad to `M` points) -/
def fftPad (x : List α) (M : Nat) : List α :=
  (List.range M).map (fun f =>
    dot (x.take M) (fun k => CisOps.cis (-(((f * k : Nat) : Rat) / ((M : Nat) : Rat)))))

/-- `CazacBasedChannelEstimator.estimate_channel_freq_domain`, one antenna
    (`r` reference sequence, `m` size multiplier, `K` = `num_taps_to_keep`) -/
def estimate1 (r : List α) (normalized : Bool) (m : Nat) (Y : List α) (K : Nat) :
    Except PyErr (List α) :=
  let N := r.length
  if Y.length ≠ N then .error .ValueError             -- broadcasting `conj(r) * Y`
  else if m * N = 0 then .error .ValueError           -- FFT with 0 points
  else
    let z := List.zipWith (fun a b => CisOps.conj a * b) r Y
    let y := ifftN z N
    let th := y.take (K + 1)
    let H := fftPad th (m * N)
    .ok (if normalized then H.map (fun v => v * ((N : Nat) : α)) else H)

/-- same, `received_signal.ndim == 2` (rows = receive antennas) -/
def estimateRows (r : List α) (normalized : Bool) (m : Nat) (Y : List (List α)) (K : Nat) :
    Except PyErr (List (List α)) :=
  Y.mapM (fun row => estimate1 r normalized m row K)

/-- elementwise sum of rows of length `n` -/
def sumRows (n : Nat) (rows : List (List α)) : List α :=
  rows.foldl (fun acc row => List.zipWith (· + ·) acc row) (List.replicate n 0)

/-- `np.mean(r * cover_code[:, newaxis], axis=0)` for an `Nc × Ne` block -/
def occMean (cc : List α) (Y : List (List α)) : Except PyErr (List α) :=
  match Y with
  | [] => .error .ValueError
  | row0 :: _ =>
    if Y.length ≠ cc.length then .error .ValueError
    else if Y.any (fun row => row.length != row0.length) then .error .ValueError
    else
      let scaled := List.zipWith (fun c row => row.map (fun v => v * c)) cc Y
      .ok ((sumRows row0.length scaled).map (fun v => v / ((cc.length : Nat) : α)))

/-- reference sequence and cover code taken by `CazacBasedWithOCCChannelEstimator.__init__` -/
def occReference (ue : UeSeq α) : Except PyErr (List α × List α) :=
  match ue.cover with
  | none => .error .TypeError                            -- `None[0]`
  | some [] => .error .IndexError
  | some (c0 :: cs) =>
    match ue.rows with
    | [] => .error .IndexError
    | row0 :: _ => .ok (row0.map (fun v => v * c0), c0 :: cs)

/-- `CazacBasedWithOCCChannelEstimator.estimate_channel_freq_domain`
    (`extra_dimension=True`, one antenna: `Y` is `Nc × Ne`) -/
def estimateOcc1 (ue : UeSeq α) (Y : List (List α)) (K : Nat) : Except PyErr (List α) :=
  match occReference ue with
  | .error e => .error e
  | .ok (ref, cc) =>
    match occMean cc Y with
    | .error e => .error e
    | .ok ym => estimate1 ref ue.normalized 1 ym K

/-- same with several antennas (`Nr × Nc × Ne`) -/
def estimateOccRows (ue : UeSeq α) (Y : List (List (List α))) (K : Nat) :
    Except PyErr (List (List α)) :=
  Y.mapM (fun blk => estimateOcc1 ue blk K)

/-- `r.shape = (Nc, -1)` -/
def reshapeRows {β : Type} (nc : Nat) (y : List β) : Except PyErr (List (List β)) :=
  if nc = 0 then .error .ValueError
  else if y.length % nc ≠ 0 then .error .ValueError
  else
    let ne := y.length / nc
    .ok ((List.range nc).map (fun c => (y.drop (c * ne)).take ne))

/-! ### Least squares (`compute_ls_estimation`), `Fin`-indexed matrices -/

def Mat (α : Type) (m n : Nat) := Fin m → Fin n → α

def sumFin : (n : Nat) → (Fin n → α) → α
  | 0, _ => 0
  | n+1, f => sumFin n (fun i => f i.castSucc) + f (Fin.last n)

def matMul {m k n : Nat} (A : Mat α m k) (B : Mat α k n) : Mat α m n :=
  fun i j => sumFin k (fun l => A i l * B l j)

def conjT {m n : Nat} (A : Mat α m n) : Mat α n m := fun i j => CisOps.conj (A j i)

/-- `Y_p @ s.T.conj() @ np.linalg.inv(s @ s.conj().T)`; `inv` is the external
    kernel (contract: `A · inv A = 1` whenever `A` is invertible). -/
def lsEstimate {nr nt np : Nat} (inv : Mat α nt nt → Mat α nt nt)
    (Y : Mat α nr np) (S : Mat α nt np) : Mat α nr nt :=
  matMul (matMul Y (conjT S)) (inv (matMul S (conjT S)))

end scalar

end PyPhysim.Cazac
