import PyPhysim.Model.C05Spec

/-!
C07 — model of "stop anywhere, resume without loss or double counting"
(core Lean only, executable).

It is the C05 runner machine (`VarState`, `guard`, `stepOk`, `stepSkip`, the
outcome stream) plus

* a **durable store**: one slot per variation (`partial_results/<name>_unpack_<i>.pickle`)
  and one slot for the final results file; a slot is the file itself
  (`absent | torn | valid content`) and the flag "a temp file `<name>.tmp` lies
  next to it";
* the **save schedule** of `SimulationResultsSaver.save_partial_results_maybe`
  (`toc - last_tic > secs or current_rep % period == 0`, checked after every
  loop iteration) driven by an arbitrary stream of call durations, and the
  unconditional save at the end of each variation;
* the **trace**: the list of everything a run does that a crash can separate —
  `call i` (a `_run_simulation` call of variation `i` was started) and the
  individual file-system steps of every save.  A *crash point* is any prefix of
  the trace; the disk after the crash is the fold of that prefix
  (`Disk.applyAll`).  A restart is a new run on that disk.

Two write disciplines (`Mode`):

* `inPlace` — `open(name,'wb')` (the file is truncated: `torn`), then the content;
  this is `SimulationResults._save_to_pickle/_save_to_json` before the `fix:` commit;
* `atomic`  — open `<name>.tmp`, write it, flush, fsync, close, `os.replace(tmp, name)`; the
  code after the fix.  (What these steps mean below the level of a process kill — buffered,
  handed to the OS, durable — is `Model/C07Power.lean`.)

Mirrors `runner.py`: `_simulate_for_current_params_common` (`loadPart`,
`firstRunC`, `loopC`, `finishVar`), `_simulate_serially_all_param_variation`
(`simVarsC`, `simC`), `SimulationResultsSaver.load_partial_results`
(`loadPart`: missing file → fresh start, unreadable file → the unpickling error
propagates, other parameters → `ValueError`), `save_partial_results(_maybe)`
(`Cfg.due`, `saveEvs`), `results.py`: `save_to_file` (`saveOps`).
-/
namespace PyPhysim.C07

open PyPhysim.C05 (Outcome VarState Keep Stored Saved guard stepOk stepSkip)

/-- how a run can end other than normally (`Exhausted`: the scripted outcome stream
    ran out while the runner still asked for a repetition — a real program would
    still be running) -/
inductive Err
  | ValueError | LoadError | Exhausted
  deriving DecidableEq, Repr, Inhabited

def Err.toString : Err → String
  | .ValueError => "ValueError" | .LoadError => "LoadError" | .Exhausted => "Exhausted"
instance : ToString Err := ⟨Err.toString⟩

/-- write discipline of `SimulationResults.save_to_file` -/
inductive Mode
  | inPlace | atomic
  deriving DecidableEq, Repr

/-- a file on disk: missing, present but cut short (not loadable), or complete -/
inductive File (C : Type)
  | absent
  | torn
  | valid (c : C)
  deriving Repr

/-- a results file and the temp file next to it (its content is never read) -/
structure Slot (C : Type) where
  main : File C
  tmp : Bool
  deriving Repr

/-- the file-system steps of saving -/
inductive SlotOp (C : Type)
  /-- `open(name, 'wb')`: the file exists and is empty -/
  | trunc
  /-- the content was written to `name` and the file closed -/
  | write (c : C)
  /-- `open(name + '.tmp', 'wb')` -/
  | tmpOpen
  /-- the content was written to the temp file object (it sits in Python's buffer) -/
  | tmpWrite (c : C)
  /-- `output.flush()`: the buffer is handed to the operating system -/
  | tmpFlush
  /-- `os.fsync(output.fileno())`: what the operating system has becomes durable -/
  | tmpFsync
  /-- the `with` block closes the temp file (this flushes, it does not sync) -/
  | tmpClose
  /-- `os.replace(name + '.tmp', name)` -/
  | rename (c : C)
  /-- an `fsync` of the file under the results name (only a re-ordered protocol has it) -/
  | syncMain
  deriving Repr

variable {R T C : Type}

def Slot.apply (s : Slot C) : SlotOp C → Slot C
  | .trunc => ⟨.torn, s.tmp⟩
  | .write c => ⟨.valid c, s.tmp⟩
  | .tmpOpen => ⟨s.main, true⟩
  | .tmpWrite _ => s
  | .tmpFlush => s
  | .tmpFsync => s
  | .tmpClose => s
  | .rename c => ⟨.valid c, false⟩
  | .syncMain => s

def Slot.applyAll (s : Slot C) (ops : List (SlotOp C)) : Slot C := ops.foldl Slot.apply s

/-- `save_to_file(name)` as file-system steps -/
def saveOps : Mode → C → List (SlotOp C)
  | .inPlace, c => [.trunc, .write c]
  | .atomic, c => [.tmpOpen, .tmpWrite c, .tmpFlush, .tmpFsync, .tmpClose, .rename c]

/-- content of a partial-results file: merged results, `num_skipped_reps`,
    `current_rep`, and the parameters of the variation it was saved for -/
structure Part (R T : Type) where
  saved : Saved R
  tag : T

/-- content of the final results file -/
structure Full (R : Type) where
  results : List (Stored R)
  reps : List Nat

structure Disk (R T : Type) where
  part : Nat → Slot (Part R T)
  fin : Slot (Full R)

def Disk.empty : Disk R T := ⟨fun _ => ⟨.absent, false⟩, ⟨.absent, false⟩⟩

/-- what a crash can separate -/
inductive Ev (R T : Type)
  /-- a `_run_simulation` call for variation `i` was started (it consumes the next outcome) -/
  | call (i : Nat)
  /-- a step of saving the partial results of variation `i` -/
  | part (i : Nat) (op : SlotOp (Part R T))
  /-- a step of saving the final results file -/
  | fin (op : SlotOp (Full R))

def Disk.apply (d : Disk R T) : Ev R T → Disk R T
  | .call _ => d
  | .part i op => ⟨fun j => if j = i then (d.part i).apply op else d.part j, d.fin⟩
  | .fin op => ⟨d.part, d.fin.apply op⟩

/-- the variation of every `_run_simulation` call of a trace, in order -/
def callLog : List (Ev R T) → List Nat
  | [] => []
  | .call i :: t => i :: callLog t
  | _ :: t => callLog t

/-- the disk after the events `t` happened -/
def Disk.applyAll (d : Disk R T) (t : List (Ev R T)) : Disk R T := t.foldl Disk.apply d

/-- exception unwinding removes the temp file it was writing (the `except
    BaseException` clean-up of the repaired `save_to_file`); a hard kill does not -/
def Disk.sweep (d : Disk R T) : Disk R T :=
  ⟨fun j => ⟨(d.part j).main, false⟩, ⟨d.fin.main, false⟩⟩

/-- time since `__last_tic` and the durations of the calls still to come -/
structure Clock where
  since : Nat
  ticks : List Nat
  deriving Repr

/-- one `_run_simulation` call went by -/
def Clock.tick (c : Clock) : Clock := ⟨c.since + c.ticks.headD 0, c.ticks.tail⟩

/-- `self.__last_tic = toc` -/
def Clock.reset (c : Clock) : Clock := ⟨0, c.ticks⟩

/-- everything that is fixed during one `simulate()` call -/
structure Cfg (R T : Type) where
  merge : R → R → R
  repMax : Nat
  /-- `get_num_unpacked_variations()` -/
  nvar : Nat
  /-- `_keep_going` may look at the current parameters, i.e. at the variation -/
  keep : Nat → Keep R
  /-- the parameters of variation `i` as compared by `load_partial_results`
      (`SimulationParameters.__eq__`: everything except `rep_max`) -/
  tag : Nat → T
  /-- `current_rep % 500 == 0` -/
  period : Nat
  /-- `toc - self.__last_tic > 300` -/
  secs : Nat
  mode : Mode

/-- the condition of `save_partial_results_maybe` -/
def Cfg.due (cfg : Cfg R T) (c : Clock) (rep : Nat) : Bool :=
  decide (cfg.secs < c.since) || rep % cfg.period == 0

/-- what `save_partial_results(current_rep, current_params, current_sim_results)` writes -/
def partOf (cfg : Cfg R T) (i : Nat) (s : VarState R) : Part R T :=
  ⟨⟨s.acc, s.skipped, s.rep⟩, cfg.tag i⟩

def saveEvs (cfg : Cfg R T) (i : Nat) (s : VarState R) : List (Ev R T) :=
  (saveOps cfg.mode (partOf cfg i s)).map (Ev.part i)

/-- one loop iteration, by outcome -/
def stepO (merge : R → R → R) (s : VarState R) : Outcome R → VarState R
  | .ok r => stepOk merge s r
  | .skip => stepSkip s

/-- how the `while` loop of one variation ended -/
structure LoopEnd (R T : Type) where
  st : VarState R
  rest : List (Outcome R)
  clock : Clock
  /-- the stream ran out while the guard still asked for another repetition -/
  exhausted : Bool
  trace : List (Ev R T)

/-- the `while` loop (C05 `loop`) with `save_partial_results_maybe` after every iteration -/
def loopC (cfg : Cfg R T) (i : Nat) : VarState R → Clock → List (Outcome R) → LoopEnd R T
  | s, c, [] => ⟨s, [], c, guard cfg.repMax (cfg.keep i) s, []⟩
  | s, c, o :: os =>
    if guard cfg.repMax (cfg.keep i) s then
      let s' := stepO cfg.merge s o
      let c1 := c.tick
      let due := cfg.due c1 s'.rep
      let e := loopC cfg i s' (if due then c1.reset else c1) os
      ⟨e.st, e.rest, e.clock, e.exhausted,
        Ev.call i :: ((if due then saveEvs cfg i s' else []) ++ e.trace)⟩
    else ⟨s, o :: os, c, false, []⟩

/-- what `load_partial_results` returns -/
inductive Loaded (R : Type)
  /-- no file (`IOError`): start from scratch -/
  | fresh
  /-- `current_sim_results`, `current_rep` of a file saved for the same parameters -/
  | resume (acc : R) (rep : Nat)
  | error (e : Err)

/-- `SimulationResultsSaver.load_partial_results`: only a missing file is a fresh
    start; a file that cannot be unpickled raises (not an `IOError`), a file saved
    for other parameters raises `ValueError` -/
def loadPart [DecidableEq T] (cfg : Cfg R T) (d : Disk R T) (i : Nat) : Loaded R :=
  match (d.part i).main with
  | .absent => .fresh
  | .torn => .error .LoadError
  | .valid c => if c.tag = cfg.tag i then .resume c.saved.acc c.saved.rep else .error .ValueError

/-- the result of one variation -/
structure VarRun (R T : Type) where
  trace : List (Ev R T)
  rest : List (Outcome R)
  clock : Clock
  /-- `.ok st`: the variation ran to its end in state `st` and was saved -/
  res : Except Err (VarState R)

/-- after the loop: the unconditional `save_partial_results` -/
def finishVar (cfg : Cfg R T) (i : Nat) (pre : List (Ev R T)) (e : LoopEnd R T) : VarRun R T :=
  if e.exhausted then ⟨pre ++ e.trace, [], e.clock, .error .Exhausted⟩
  else ⟨pre ++ (e.trace ++ saveEvs cfg i e.st), e.rest, e.clock, .ok e.st⟩

/-- the FIRST repetition of a fresh variation, repeated until it returns results
    (C05 `firstRun`); nothing is saved here.  `k` = skips so far. -/
def firstRunC (cfg : Cfg R T) (i : Nat) : Nat → Clock → List (Outcome R) → VarRun R T
  | k, c, [] => ⟨List.replicate k (.call i), [], c, .error .Exhausted⟩
  | k, c, .skip :: os => firstRunC cfg i (k + 1) c.tick os
  | k, c, .ok r :: os =>
    finishVar cfg i (List.replicate (k + 1) (.call i)) (loopC cfg i ⟨r, 1, k, k + 1⟩ c.tick os)

/-- `_simulate_for_current_params_common` -/
def runVarC [DecidableEq T] (cfg : Cfg R T) (i : Nat) (d : Disk R T) (c : Clock)
    (outs : List (Outcome R)) : VarRun R T :=
  match loadPart cfg d i with
  | .error e => ⟨[], outs, c, .error e⟩
  | .resume a n => finishVar cfg i [] (loopC cfg i ⟨a, n, 0, 0⟩ c outs)
  | .fresh => firstRunC cfg i 0 c outs

/-- how a `simulate()` call ended -/
structure RunEnd (R T : Type) where
  trace : List (Ev R T)
  /-- `runner.results`: one entry per completed variation -/
  results : List (Stored R)
  /-- `runner.runned_reps` -/
  reps : List Nat
  rest : List (Outcome R)
  clock : Clock
  /-- `none`: returned normally -/
  status : Option Err

/-- the `for current_params in get_unpacked_params_list()` loop -/
def simVarsC [DecidableEq T] (cfg : Cfg R T) :
    List Nat → Disk R T → Clock → List (Outcome R) → RunEnd R T
  | [], _, c, outs => ⟨[], [], [], outs, c, none⟩
  | i :: is, d, c, outs =>
    let v := runVarC cfg i d c outs
    match v.res with
    | .error e => ⟨v.trace, [], [], v.rest, v.clock, some e⟩
    | .ok st =>
      let t := simVarsC cfg is (d.applyAll v.trace) v.clock v.rest
      ⟨v.trace ++ t.trace, ⟨st.acc, st.skipped⟩ :: t.results, st.rep :: t.reps,
        t.rest, t.clock, t.status⟩

/-- `simulate()` with a results file name: all variations, then the final results file -/
def simC [DecidableEq T] (cfg : Cfg R T) (d : Disk R T) (c : Clock) (outs : List (Outcome R)) :
    RunEnd R T :=
  let t := simVarsC cfg (List.range cfg.nvar) d c outs
  match t.status with
  | none => ⟨t.trace ++ (saveOps cfg.mode (⟨t.results, t.reps⟩ : Full R)).map Ev.fin,
      t.results, t.reps, t.rest, t.clock, none⟩
  | some e => ⟨t.trace, t.results, t.reps, t.rest, t.clock, some e⟩

/-- `simulate(param_variation_index)`: only variation `i` is run and only its partial-results
    file is written (no final results file); an index outside `0 … n-1` runs nothing -/
def simSingleC [DecidableEq T] (cfg : Cfg R T) (i : Nat) (d : Disk R T) (c : Clock)
    (outs : List (Outcome R)) : RunEnd R T :=
  if i < cfg.nvar then simVarsC cfg [i] d c outs else ⟨[], [], [], outs, c, none⟩

/-- `simulate(0)`, `simulate(1)`, …, `simulate(k-1)` one after the other (the "one job per
    variation" use): stops at the first call that does not return normally -/
def simSinglesC [DecidableEq T] (cfg : Cfg R T) :
    List Nat → Disk R T → Clock → List (Outcome R) → RunEnd R T
  | [], _, c, outs => ⟨[], [], [], outs, c, none⟩
  | i :: is, d, c, outs =>
    let t := simSingleC cfg i d c outs
    match t.status with
    | some e => ⟨t.trace, t.results, t.reps, t.rest, t.clock, some e⟩
    | none =>
      let u := simSinglesC cfg is (d.applyAll t.trace) t.clock t.rest
      ⟨t.trace ++ u.trace, t.results ++ u.results, t.reps ++ u.reps, u.rest, u.clock, u.status⟩

/-- the disk left behind by a run that is killed after `k` events -/
def crashDisk (d : Disk R T) (trace : List (Ev R T)) (k : Nat) : Disk R T :=
  d.applyAll (trace.take k)

/-- the start that `load_partial_results` gives variation `i` (C05 `runVariation`'s
    `start`); meaningful when the load does not raise -/
def startOf [DecidableEq T] (cfg : Cfg R T) (d : Disk R T) (i : Nat) : Option (R × Nat) :=
  match loadPart cfg d i with
  | .resume a n => some (a, n)
  | _ => none

/-- the C05 view of the configuration (only `merge`, `repMax`, `keep` and the number
    of variations matter there) -/
def Cfg.base (cfg : Cfg R T) : C05.Cfg R := ⟨cfg.merge, cfg.repMax, [cfg.nvar], cfg.keep⟩

end PyPhysim.C07
