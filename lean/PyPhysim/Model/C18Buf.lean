/-
C18 — robustness class R16: ONE preallocated argument array that the caller
refills in place between calls (core Lean only, executable).

A caller of `estimate_channel_freq_domain`, `compute_ls_estimation`,
`get_extended_ZF`, `get_shifted_root_seq`, … may keep one array object `buf`,
write new contents into it (`buf[...] = v`) and call the same object /
function again.  The callee of the model (`f`) sees the **contents at call
time** and nothing else: there is no identity of the array in the model, so a
result cannot be memoised on it, and a result that was returned is a value the
caller keeps — it cannot change when the buffer is refilled later.

`BufState.run` is that history; the driver runs it with `f` = the handler of
the `est` / `occ` / `ls` / `ext` / `shiftarr` lines (the same functions the
single-call correspondences use), and the harness compares every output with
the real object that is called with one refilled numpy array.
-/
import PyPhysim.Model.Proto
namespace PyPhysim.Cazac

/-- what the caller does with its one buffer (`β` = contents, `κ` = the other
    arguments of a call, e.g. `num_taps_to_keep`) -/
inductive BufOp (β κ : Type) where
  /-- `buf[...] = v`: same array object, new contents -/
  | refill (v : β)
  /-- `out = f(buf, k)` -/
  | call (k : κ)

/-- the caller's view: current contents of the buffer and every result returned so far
    (earliest first) -/
structure BufState (β ρ : Type) where
  buf : β
  outs : List ρ

variable {β κ ρ : Type}

/-- one step of the history -/
def BufState.step (f : β → κ → ρ) (s : BufState β ρ) : BufOp β κ → BufState β ρ
  | .refill v => ⟨v, s.outs⟩
  | .call k => ⟨s.buf, s.outs ++ [f s.buf k]⟩

/-- a whole history -/
def BufState.run (f : β → κ → ρ) (s : BufState β ρ) (ops : List (BufOp β κ)) : BufState β ρ :=
  ops.foldl (BufState.step f) s

/-- the `(contents, arguments)` of the calls of a history: what a caller who hands a
    **fresh copy** to a **fresh object** at every call would pass -/
def callSnapshots (b : β) : List (BufOp β κ) → List (β × κ)
  | [] => []
  | .refill v :: rest => callSnapshots v rest
  | .call k :: rest => (b, k) :: callSnapshots b rest

end PyPhysim.Cazac
