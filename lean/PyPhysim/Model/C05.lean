/-
C05 — model of the Monte-Carlo runner (core Lean only, executable).

Mirrors, function by function,

* `SimulationRunner._simulate_for_current_params_common`      → `firstRun`, `loop`, `runVariation`
* `SimulationRunner._simulate_serially_all_param_variation`   → `simVars`, `simulateAll`
* `SimulationRunner._simulate_serially_single_param_variation`→ `simulateSingle`
* `SimulationRunner.clear` / `_simulate_common_setup`         → `Runner.clear`
* `SimulationParameters.get_unpacked_params_list`             → `sortParams`, `product`
* `SimulationParameters.get_num_unpacked_variations`          → `prod`
* `SimulationParameters.get_pack_indexes`                     → `selectors`, `slice`, `packIndexes`
* `SimulationResults.get_result_values_list`                  → `lookupValues`, `resultValues`

The user's `_run_simulation` is an arbitrary stateful program: it is modelled
by the *stream of outcomes* it produces (`Outcome.ok r` = returned results `r`,
`Outcome.skip` = raised `SkipThisOne`).  The results type `R` and the merge
operation are parameters (no algebraic law is assumed: the stored result is a
left fold).  `_keep_going` is an arbitrary function of the merged results, the
`num_skipped_reps` counter stored in them, and the repetition index.

The C07 model (crash / resume) reuses `VarState`, `loop`, `runVariation`
(`start = some …` is the resume branch) and the `store` of partial results.
-/
namespace PyPhysim.C05

/-- exceptions the modelled code raises (`Exhausted` = the scripted outcome stream
    ran out while the runner still asked for a repetition; with a real program
    this is non-termination) -/
inductive Err
  | SkipThisOne | RuntimeError | ValueError | SyntaxError | KeyError | TypeError | Exhausted
  deriving DecidableEq, Repr, Inhabited

def Err.toString : Err → String
  | .SkipThisOne => "SkipThisOne" | .RuntimeError => "RuntimeError"
  | .ValueError => "ValueError" | .SyntaxError => "SyntaxError" | .KeyError => "KeyError"
  | .TypeError => "TypeError"
  | .Exhausted => "Exhausted"
instance : ToString Err := ⟨Err.toString⟩

/-- what one call of the user's `_run_simulation` does -/
inductive Outcome (R : Type)
  | ok (r : R)
  | skip
  deriving Repr

/-- local variables of `_simulate_for_current_params_common` -/
structure VarState (R : Type) where
  /-- `current_sim_results` (without the runner's own `num_skipped_reps` entry) -/
  acc : R
  /-- `current_rep` -/
  rep : Nat
  /-- value of the `num_skipped_reps` result inside `current_sim_results` -/
  skipped : Nat
  /-- `_run_simulation` calls made for this variation during this `simulate()` -/
  calls : Nat
  deriving Repr

/-- `_keep_going(params, results, rep)`: merged results, skip counter, repetition index -/
abbrev Keep (R : Type) := R → Nat → Nat → Bool

variable {R : Type}

/-- the `while` condition `self._keep_going(...) and current_rep < self.rep_max` -/
def guard (repMax : Nat) (keep : Keep R) (s : VarState R) : Bool :=
  keep s.acc s.skipped s.rep && decide (s.rep < repMax)

/-- `try` branch: merge, `current_rep += 1` -/
def stepOk (merge : R → R → R) (s : VarState R) (r : R) : VarState R :=
  { s with acc := merge s.acc r, rep := s.rep + 1, calls := s.calls + 1 }

/-- `except SkipThisOne`: `num_skipped_reps.update(1)`, `current_rep` unchanged -/
def stepSkip (s : VarState R) : VarState R :=
  { s with skipped := s.skipped + 1, calls := s.calls + 1 }

/-- how the `while` loop of one variation ended -/
structure VarEnd (R : Type) where
  st : VarState R
  /-- outcomes not consumed -/
  rest : List (Outcome R)
  /-- the stream ran out while the guard still asked for another repetition -/
  exhausted : Bool

/-- the `while` loop (runner.py:1491-1517) -/
def loop (merge : R → R → R) (repMax : Nat) (keep : Keep R) :
    VarState R → List (Outcome R) → VarEnd R
  | s, [] => ⟨s, [], guard repMax keep s⟩
  | s, o :: os =>
    if guard repMax keep s then
      match o with
      | .ok r => loop merge repMax keep (stepOk merge s r) os
      | .skip => loop merge repMax keep (stepSkip s) os
    else ⟨s, o :: os, false⟩

/-- result of one variation -/
inductive VarResult (R : Type)
  /-- the loop was entered (normal end, or `exhausted`) -/
  | done (e : VarEnd R)
  /-- the stream ran out before the first repetition returned results: all
      `calls` outcomes consumed were skips (no results object exists yet) -/
  | starved (calls : Nat)

/-- the FIRST repetition of a fresh variation (runner.py, before the `while`): it is
    repeated until it returns results; every `SkipThisOne` is counted in
    `num_skipped_reps`, none in `current_rep`.  No `_keep_going` is consulted here
    (there are no results to show it yet).  `k` = skips so far. -/
def firstRun (merge : R → R → R) (repMax : Nat) (keep : Keep R) :
    Nat → List (Outcome R) → VarResult R
  | k, [] => .starved k
  | k, .skip :: os => firstRun merge repMax keep (k + 1) os
  | k, .ok r :: os => .done (loop merge repMax keep ⟨r, 1, k, k + 1⟩ os)

/-- `_simulate_for_current_params_common`.  `start = some (acc, rep)` when partial
    results were loaded (`current_rep = loaded.current_rep`; the skip counter is
    re-created at 0), `none` otherwise. -/
def runVariation (merge : R → R → R) (repMax : Nat) (keep : Keep R)
    (start : Option (R × Nat)) (outs : List (Outcome R)) : VarResult R :=
  match start with
  | some (a, r) => .done (loop merge repMax keep ⟨a, r, 0, 0⟩ outs)
  | none => firstRun merge repMax keep 0 outs

/-! ### Specification-side folds (no guard, no control flow) -/

/-- results returned by the successful repetitions, in order -/
def oks : List (Outcome R) → List R
  | [] => []
  | .ok r :: os => r :: oks os
  | .skip :: os => oks os

/-- number of skipped repetitions -/
def skips : List (Outcome R) → Nat
  | [] => 0
  | .ok _ :: os => skips os
  | .skip :: os => skips os + 1

/-- the state reached from `s` after the outcomes `p`, by definition of merging -/
def after (merge : R → R → R) (s : VarState R) (p : List (Outcome R)) : VarState R :=
  ⟨(oks p).foldl merge s.acc, s.rep + (oks p).length, s.skipped + skips p, s.calls + p.length⟩

/-! ### The runner object -/

/-- `runned_reps`: a list in all-variations mode, an int in single-variation mode -/
inductive Reps
  | list (l : List Nat)
  | single (n : Nat)
  deriving DecidableEq, Repr

/-- what is kept for one variation: merged results and the `num_skipped_reps` value -/
structure Stored (R : Type) where
  acc : R
  skipped : Nat
  deriving Repr

/-- a partial-results file: the stored results and `current_rep` -/
structure Saved (R : Type) where
  acc : R
  skipped : Nat
  rep : Nat
  deriving Repr

structure Runner (R : Type) where
  /-- `runner.results[name]`: one entry per appended variation -/
  results : List (Stored R)
  /-- `runner.runned_reps` -/
  reps : Reps
  /-- `runner.results.runned_reps` (set by the clean-up of a completed `simulate()`) -/
  resultsReps : Option Reps
  /-- a results file name was set (`set_results_filename`) -/
  file : Bool
  /-- the partial-result files on disk, by variation position -/
  store : List (Nat × Saved R)

def Runner.new (file : Bool) : Runner R := ⟨[], .list [], none, file, []⟩

/-- `clear()` + fresh `SimulationResults`; files on disk stay -/
def Runner.clear (r : Runner R) : Runner R :=
  { r with results := [], reps := .list [], resultsReps := none }

def Runner.load (r : Runner R) (i : Nat) : Option (R × Nat) :=
  if r.file then (r.store.lookup i).map (fun s => (s.acc, s.rep)) else none

def Runner.save (r : Runner R) (i : Nat) (s : VarState R) : Runner R :=
  if r.file then
    { r with store := (i, ⟨s.acc, s.skipped, s.rep⟩) :: r.store.filter (fun p => p.1 != i) }
  else r

def Reps.push : Reps → Nat → Reps
  | .list l, n => .list (l ++ [n])
  | .single _, n => .list [n]      -- unreachable: `clear()` installs a list

/-- everything that is fixed during a `simulate()` call -/
structure Cfg (R : Type) where
  merge : R → R → R
  repMax : Nat
  /-- lengths of the unpacked parameters, in sorted-name order -/
  dims : List Nat
  /-- `_keep_going` may look at the current parameters, i.e. at the variation -/
  keep : Nat → Keep R

def prod : List Nat → Nat
  | [] => 1
  | d :: ds => d * prod ds

/-- `get_num_unpacked_variations` -/
def Cfg.nvar (c : Cfg R) : Nat := prod c.dims

/-- how a `simulate()` call ended -/
structure SimEnd (R : Type) where
  runner : Runner R
  /-- position of the variation that received each `_run_simulation` call, in call order -/
  log : List Nat
  rest : List (Outcome R)
  /-- `none`: returned normally -/
  status : Option Err

/-- the `for current_params in get_unpacked_params_list()` loop -/
def simVars (cfg : Cfg R) : List Nat → Runner R → List (Outcome R) → SimEnd R
  | [], r, outs => ⟨r, [], outs, none⟩
  | i :: is, r, outs =>
    match runVariation cfg.merge cfg.repMax (cfg.keep i) (r.load i) outs with
    | .starved c => ⟨r, List.replicate c i, [], some .Exhausted⟩
    | .done e =>
      if e.exhausted then ⟨r, List.replicate e.st.calls i, [], some .Exhausted⟩
      else
        let r' := { (r.save i e.st) with
                    reps := r.reps.push e.st.rep,
                    results := r.results ++ [⟨e.st.acc, e.st.skipped⟩] }
        let t := simVars cfg is r' e.rest
        { t with log := List.replicate e.st.calls i ++ t.log }

/-- `simulate()` -/
def simulateAll (cfg : Cfg R) (r : Runner R) (outs : List (Outcome R)) : SimEnd R :=
  let t := simVars cfg (List.range cfg.nvar) r.clear outs
  match t.status with
  | none => { t with runner := { t.runner with resultsReps := some t.runner.reps } }
  | some _ => t

/-- `simulate(param_variation_index)` -/
def simulateSingle (cfg : Cfg R) (r : Runner R) (idx : Int) (outs : List (Outcome R)) : SimEnd R :=
  let r0 := r.clear
  if !r.file then ⟨r, [], outs, some .RuntimeError⟩   -- refused before anything is cleared
  else if 0 ≤ idx ∧ idx.toNat < cfg.nvar then
    let i := idx.toNat
    match runVariation cfg.merge cfg.repMax (cfg.keep i) (r0.load i) outs with
    | .starved c => ⟨r0, List.replicate c i, [], some .Exhausted⟩
    | .done e =>
      if e.exhausted then ⟨r0, List.replicate e.st.calls i, [], some .Exhausted⟩
      else ⟨{ (r0.save i e.st) with reps := .single e.st.rep }, List.replicate e.st.calls i, e.rest, none⟩
  else ⟨r0, [], outs, none⟩

/-- `delete_partial_results_bool`: the clean-up of a completed `simulate()` that has a
    results file removes every partial file this runner has written -/
def SimEnd.afterCleanup (del : Bool) (e : SimEnd R) : SimEnd R :=
  if e.status.isNone && e.runner.file && del then
    { e with runner := { e.runner with store := [] } }
  else e

/-! ### Parameter grid -/

/-- `itertools.product`: first list outermost, last list fastest -/
def product {V : Type} : List (List V) → List (List V)
  | [] => [[]]
  | vs :: rest => vs.flatMap (fun v => (product rest).map (fun t => v :: t))

/-- mixed-radix digits of `i`, most significant first -/
def digits : List Nat → Nat → List Nat
  | [], _ => []
  | _ :: ds, i => (i / prod ds) :: digits ds (i % prod ds)

/-- value of a digit string -/
def fromDigits : List Nat → List Nat → Nat
  | _ :: ds, x :: xs => x * prod ds + fromDigits ds xs
  | _, _ => 0

/-- the combination selected by a digit string -/
def pick {V : Type} : List (List V) → List Nat → Option (List V)
  | [], [] => some []
  | vs :: rest, d :: ds =>
    match vs[d]?, pick rest ds with
    | some v, some t => some (v :: t)
    | _, _ => none
  | _, _ => none

/-- an unpacked parameter: its name and its list of values -/
abbrev Param (V : Type) := String × List V

/-- `sorted(self._unpacked_parameters_set)` -/
def sortParams {V : Type} (ps : List (Param V)) : List (Param V) :=
  ps.mergeSort (fun a b => decide (a.1 ≤ b.1))

/-- the values of the unpacked parameters of every variation, in the order of
    `get_unpacked_params_list()` -/
def combos {V : Type} (ps : List (Param V)) : List (List V) :=
  product ((sortParams ps).map (·.2))

def dimsOf {V : Type} (ps : List (Param V)) : List Nat := (sortParams ps).map (·.2.length)

/-- `list(values).index(v)`: FIRST position holding `v` -/
def indexOf {V : Type} [BEq V] (v : V) : List V → Option Nat
  | [] => none
  | x :: xs => if x == v then some 0 else (indexOf v xs).map (· + 1)

/-- the `param_indexes` list: `none` = `':'` (varying), `some k` = fixed position -/
def selectors {V : Type} [BEq V] (fixed : List (String × V)) :
    List (Param V) → Except Err (List (Option Nat))
  | [] => .ok []
  | (name, vals) :: rest =>
    match fixed.lookup name with
    | none => (selectors fixed rest).map (fun t => none :: t)
    | some v =>
      match indexOf v vals with
      | none => .error .ValueError
      | some k => (selectors fixed rest).map (fun t => some k :: t)

/-- `np.arange(n).reshape(dims)[sel].flatten()` as row-major index arithmetic;
    `off` is the linear index of the sub-array's first element -/
def slice : List Nat → List (Option Nat) → Nat → List Nat
  | d :: ds, s :: ss, off =>
    match s with
    | some k => slice ds ss (off + k * prod ds)
    | none => (List.range d).flatMap (fun k => slice ds ss (off + k * prod ds))
  | _, _, off => [off]

/-- `SimulationParameters.get_pack_indexes` (parameters whose names are not
    unpacked are ignored by the code; with no unpacked parameter the single
    variation `0` is returned) -/
def packIndexes {V : Type} [BEq V] (ps : List (Param V)) (fixed : List (String × V)) :
    Except Err (List Nat) :=
  let sp := sortParams ps
  if sp.isEmpty then .ok [0]
  else (selectors fixed sp).map (fun sel => slice (sp.map (·.2.length)) sel 0)

/-- `[v for i, v in enumerate(results) if i in indexes]` -/
def lookupValues {X : Type} (results : List X) (idx : List Nat) : List X :=
  results.zipIdx.filterMap (fun p => if p.2 ∈ idx then some p.1 else none)

/-- `SimulationResults.get_result_values_list(name, fixed)`; a results object to which
    nothing was appended has no entry `name` at all (`KeyError`, raised after
    `get_pack_indexes` ran) -/
def resultValues {V X : Type} [BEq V] (ps : List (Param V)) (results : List X)
    (fixed : List (String × V)) : Except Err (List X) :=
  if fixed.isEmpty then (if results.isEmpty then .error .KeyError else .ok results)
  else
    match packIndexes ps fixed with
    | .error e => .error e
    | .ok idx => if results.isEmpty then .error .KeyError else .ok (lookupValues results idx)

/-- does the combination `c` carry every fixed value (names that are not unpacked
    parameters do not constrain anything)? -/
def comboMatches {V : Type} [BEq V] (fixed : List (String × V)) : List (Param V) → List V → Bool
  | (name, _) :: rest, v :: c =>
    (match fixed.lookup name with
     | none => true
     | some w => v == w) && comboMatches fixed rest c
  | _, _ => true

end PyPhysim.C05
