import PyPhysim.Model.Proto
/-!
# C13 — vocabulary shared by the generated formulas and the hand model

Core Lean only.  The numeric code is polymorphic over the scalar `α`
(instantiated at `ℝ` in `Proofs/`, at `Float` in the driver); the two
transcendental functions the path-loss code uses come through `Transc`.
-/
namespace PyPhysim.C13

/-- `math.log10` / `np.log10` and `10 ** x` / `pow(10, x)`. -/
class Transc (α : Type) where
  log10 : α → α
  pow10 : α → α

variable {α : Type}

/-- Python `x ** 2` -/
def sq [Mul α] (x : α) : α := x * x

/-- `np.minimum(a, b)` on finite values -/
def minimum [LT α] [DecidableLT α] (a b : α) : α := if b < a then b else a

end PyPhysim.C13
