import PyPhysim.Model.C09

/-!
The configuration state machine of `EnhancedBD.set_ext_int_handling_metric`
(robustness classes R4 / R7): rejected calls change nothing, an accepted call
determines the state completely, rejected calls can be dropped from a history.
-/
namespace PyPhysim.BD
namespace Pf

theorem setMetric_rejected (s : MetricState) (r : MetricReq) (a : ExtraArgs)
    (h : (setMetric s r a).2 ≠ none) : (setMetric s r a).1 = s := by
  cases r <;> simp only [setMetric] at h ⊢ <;> try exact absurd rfl h
  all_goals (split at h <;> first | exact absurd rfl h | rfl)

theorem setMetric_error_indep (s s' : MetricState) (r : MetricReq) (a : ExtraArgs) :
    (setMetric s r a).2 = (setMetric s' r a).2 := by
  cases r <;> simp only [setMetric] <;> split <;> rfl

theorem setMetric_accepted_indep (s s' : MetricState) (r : MetricReq) (a : ExtraArgs)
    (h : (setMetric s r a).2 = none) : (setMetric s r a).1 = (setMetric s' r a).1 := by
  cases r <;> simp only [setMetric] at h ⊢ <;> first | rfl | exact absurd h (by simp) | (split at h <;> simp_all)

/-- the request is accepted (a property of the request alone) -/
def accepted (ra : MetricReq × ExtraArgs) : Bool := (setMetric default ra.1 ra.2).2.isNone

theorem accepted_iff (s : MetricState) (ra : MetricReq × ExtraArgs) :
    accepted ra = true ↔ (setMetric s ra.1 ra.2).2 = none := by
  unfold accepted
  rw [setMetric_error_indep default s, Option.isNone_iff_eq_none]

theorem runMetricHistory_filter (s : MetricState) (ops : List (MetricReq × ExtraArgs)) :
    runMetricHistory s ops = runMetricHistory s (ops.filter accepted) := by
  induction ops generalizing s with
  | nil => rfl
  | cons ra rest ih =>
    obtain ⟨r, a⟩ := ra
    by_cases hacc : accepted (r, a) = true
    · rw [List.filter_cons_of_pos hacc]
      simp only [runMetricHistory]
      exact ih _
    · rw [List.filter_cons_of_neg hacc]
      simp only [runMetricHistory]
      have hne : (setMetric s r a).2 ≠ none := fun h => hacc ((accepted_iff s (r, a)).mpr h)
      rw [setMetric_rejected s r a hne]
      exact ih s

/-- after a history whose last accepted request is `(r, a)` the object is in the state a
    fresh object gets from that request alone -/
theorem runMetricHistory_last (s : MetricState) (ops : List (MetricReq × ExtraArgs)) (r : MetricReq) (a : ExtraArgs)
    (tail : List (MetricReq × ExtraArgs)) (hacc : accepted (r, a) = true)
    (htail : ∀ x ∈ tail, accepted x = false) :
    runMetricHistory s (ops ++ (r, a) :: tail) = (setMetric default r a).1 := by
  induction ops generalizing s with
  | nil =>
    simp only [List.nil_append, runMetricHistory]
    rw [runMetricHistory_filter]
    have : tail.filter accepted = [] := List.filter_eq_nil_iff.mpr (fun x hx => by simp [htail x hx])
    rw [this]
    simp only [runMetricHistory]
    exact setMetric_accepted_indep s default r a ((accepted_iff s (r, a)).mp hacc)
  | cons x rest ih =>
    simp only [List.cons_append, runMetricHistory]
    exact ih _

end Pf
end PyPhysim.BD
