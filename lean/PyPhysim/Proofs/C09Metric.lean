import PyPhysim.Model.C09

/-!
The configuration state machine of `EnhancedBD.set_ext_int_handling_metric`
(robustness classes R4 / R7): rejected calls change nothing, an accepted call
determines the state completely, rejected calls can be dropped from a history.
-/
namespace PyPhysim.BD
namespace Pf

theorem setMetric_rejected (s : MetricState) (r : MetricReq) (a : ExtraArgs)
    (h : (setMetric s r a).2 ≠ none) : (setMetric s r a).1 = s := by
  cases r <;> simp only [setMetric] at h ⊢ <;> try exact absurd rfl h
  all_goals (split at h <;> first | exact absurd rfl h | rfl)

theorem setMetric_error_indep (s s' : MetricState) (r : MetricReq) (a : ExtraArgs) :
    (setMetric s r a).2 = (setMetric s' r a).2 := by
  cases r <;> simp only [setMetric] <;> split <;> rfl

theorem setMetric_accepted_indep (s s' : MetricState) (r : MetricReq) (a : ExtraArgs)
    (h : (setMetric s r a).2 = none) : (setMetric s r a).1 = (setMetric s' r a).1 := by
  cases r <;> simp only [setMetric] at h ⊢ <;> first | rfl | exact absurd h (by simp) | (split at h <;> simp_all)

/-- the request is accepted (a property of the request alone) -/
def accepted (ra : MetricReq × ExtraArgs) : Bool := (setMetric default ra.1 ra.2).2.isNone

theorem accepted_iff (s : MetricState) (ra : MetricReq × ExtraArgs) :
    accepted ra = true ↔ (setMetric s ra.1 ra.2).2 = none := by
  unfold accepted
  rw [setMetric_error_indep default s, Option.isNone_iff_eq_none]

theorem runMetricHistory_filter (s : MetricState) (ops : List (MetricReq × ExtraArgs)) :
    runMetricHistory s ops = runMetricHistory s (ops.filter accepted) := by
  induction ops generalizing s with
  | nil => rfl
  | cons ra rest ih =>
    obtain ⟨r, a⟩ := ra
    by_cases hacc : accepted (r, a) = true
    · rw [List.filter_cons_of_pos hacc]
      simp only [runMetricHistory]
      exact ih _
    · rw [List.filter_cons_of_neg hacc]
      simp only [runMetricHistory]
      have hne : (setMetric s r a).2 ≠ none := fun h => hacc ((accepted_iff s (r, a)).mpr h)
      rw [setMetric_rejected s r a hne]
      exact ih s

/-- after a history whose last accepted request is `(r, a)` the object is in the state a
    fresh object gets from that request alone -/
theorem runMetricHistory_last (s : MetricState) (ops : List (MetricReq × ExtraArgs)) (r : MetricReq) (a : ExtraArgs)
    (tail : List (MetricReq × ExtraArgs)) (hacc : accepted (r, a) = true)
    (htail : ∀ x ∈ tail, accepted x = false) :
    runMetricHistory s (ops ++ (r, a) :: tail) = (setMetric default r a).1 := by
  induction ops generalizing s with
  | nil =>
    simp only [List.nil_append, runMetricHistory]
    rw [runMetricHistory_filter]
    have : tail.filter accepted = [] := List.filter_eq_nil_iff.mpr (fun x hx => by simp [htail x hx])
    rw [this]
    simp only [runMetricHistory]
    exact setMetric_accepted_indep s default r a ((accepted_iff s (r, a)).mp hacc)
  | cons x rest ih =>
    simp only [List.cons_append, runMetricHistory]
    exact ih _

/-! ### row bookkeeping for any number of users (R9 / R14) -/
section rows
variable {K N : Nat}

theorem tildeIdx_eq_subIdx (k : Fin K) : tildeIdx (N := N) k = subIdx (otherUsers k) := rfl

theorem userOf_join' (k : Fin K) (i : Fin N) : userOf (join k i) = k := by
  apply Fin.ext
  have hN : 0 < N := Nat.lt_of_le_of_lt (Nat.zero_le _) i.isLt
  show (k.val * N + i.val) / N = k.val
  rw [Nat.mul_comm, Nat.mul_add_div hN, Nat.div_eq_of_lt i.isLt, Nat.add_zero]

theorem join_userOf_within' (x : Fin (K * N)) : join (userOf x) (within x) = x := by
  apply Fin.ext
  show x.val / N * N + x.val % N = x.val
  exact Nat.div_add_mod' _ _

/-- a row is selected iff its user is in the list — whatever the number of users -/
theorem mem_subIdx (users : List (Fin K)) (x : Fin (K * N)) : x ∈ subIdx users ↔ userOf x ∈ users := by
  unfold subIdx
  rw [List.mem_flatMap]
  constructor
  · rintro ⟨u, hu, hx⟩
    rw [List.mem_map] at hx
    obtain ⟨i, _, rfl⟩ := hx
    rw [userOf_join']; exact hu
  · intro h
    refine ⟨userOf x, h, ?_⟩
    rw [List.mem_map]
    exact ⟨within x, List.mem_finRange _, join_userOf_within' x⟩

theorem mem_otherUsers (k u : Fin K) : u ∈ otherUsers k ↔ u ≠ k := by
  unfold otherUsers
  rw [List.mem_filter]
  simp [List.mem_finRange]

theorem mem_tildeIdx (k : Fin K) (x : Fin (K * N)) : x ∈ tildeIdx (N := N) k ↔ userOf x ≠ k := by
  rw [tildeIdx_eq_subIdx, mem_subIdx, mem_otherUsers]

theorem length_subIdx (users : List (Fin K)) : (subIdx (N := N) users).length = users.length * N := by
  induction users with
  | nil => simp [subIdx]
  | cons u us ih =>
    have : subIdx (N := N) (u :: us) = (List.finRange N).map (join u) ++ subIdx us := by simp [subIdx]
    rw [this, List.length_append, ih, List.length_map, List.length_finRange, List.length_cons, Nat.succ_mul]
    omega

theorem subIdx_single (k : Fin K) : subIdx (N := N) [k] = (List.finRange N).map (join k) := by
  simp [subIdx]

end rows

end Pf
end PyPhysim.BD
