import Mathlib.Data.Nat.Prime.Defs
import Mathlib.Data.List.Pairwise
import PyPhysim.Model.C18

/-!
C18 — prime selection.  A kernel-evaluable primality test (`isPrimeB`, trial
division below a bound `B`), its equivalence with `Nat.Prime` below `B*B`, and
the specification of `primeLookup` on any table whose entries `≤ N` are
exactly the primes `≤ N`.
-/
namespace PyPhysim.C18P
open PyPhysim.Cazac PyPhysim.Proto

/-- trial division by every `d < B`; decides primality of every `n < B*B` -/
def isPrimeB (B n : Nat) : Bool :=
  decide (2 ≤ n) && (List.range B).all (fun d => decide (d < 2) || decide (n < d * d) || n % d != 0)

/-- the primes `≤ N`, ascending -/
def primesUpTo (B N : Nat) : List Nat := (List.range (N + 1)).filter (isPrimeB B)

theorem isPrimeB_iff (B n : Nat) (h : n < B * B) : isPrimeB B n = true ↔ Nat.Prime n := by
  unfold isPrimeB
  simp only [Bool.and_eq_true, decide_eq_true_eq, List.all_eq_true, List.mem_range, Bool.or_eq_true,
    bne_iff_ne, ne_eq]
  constructor
  · rintro ⟨h2, hall⟩
    rw [Nat.prime_def_le_sqrt]
    refine ⟨h2, fun m hm hms hdvd => ?_⟩
    have hmm : m * m ≤ n := Nat.le_sqrt.mp hms
    have hmB : m < B := by
      by_contra hc
      have : B ≤ m := Nat.le_of_not_lt hc
      have : B * B ≤ m * m := Nat.mul_le_mul this this
      omega
    rcases hall m hmB with (h1 | h1) | h1
    · omega
    · omega
    · exact h1 (Nat.mod_eq_zero_of_dvd hdvd)
  · intro hp
    refine ⟨hp.two_le, fun d _ => ?_⟩
    by_cases h1 : d < 2
    · exact Or.inl (Or.inl h1)
    by_cases h2 : n < d * d
    · exact Or.inl (Or.inr h2)
    refine Or.inr (fun hmod => ?_)
    have hdvd : d ∣ n := Nat.dvd_of_mod_eq_zero hmod
    rcases (Nat.dvd_prime hp).mp hdvd with h3 | h3
    · omega
    · subst h3
      have : 2 * d ≤ d * d := Nat.mul_le_mul_right d (by omega)
      omega

theorem mem_primesUpTo (B N x : Nat) (hN : N < B * B) :
    x ∈ primesUpTo B N ↔ x ≤ N ∧ Nat.Prime x := by
  unfold primesUpTo
  rw [List.mem_filter, List.mem_range]
  constructor
  · rintro ⟨h1, h2⟩
    exact ⟨by omega, (isPrimeB_iff B x (by omega)).mp h2⟩
  · rintro ⟨h1, h2⟩
    exact ⟨by omega, (isPrimeB_iff B x (by omega)).mpr h2⟩

theorem pairwise_primesUpTo (B N : Nat) : (primesUpTo B N).Pairwise (· ≤ ·) :=
  ((List.pairwise_lt_range (n := N + 1)).imp Nat.le_of_lt).filter _

/-- Specification of the lookup on a table whose entries `≤ N` are exactly the
    primes `≤ N` (in ascending order). -/
theorem lookup_spec (table : List Nat) (B N : Nat) (hN : N < B * B)
    (htab : table.filter (fun p => decide (p ≤ N)) = primesUpTo B N)
    (s : Nat) (h2 : 2 ≤ s) (hs : s ≤ N) :
    ∃ p, primeLookup table s = .ok p ∧ Nat.Prime p ∧ p ≤ s ∧ ∀ q, Nat.Prime q → q ≤ s → q ≤ p := by
  have hff : table.filter (fun p => decide (p ≤ s))
      = (primesUpTo B N).filter (fun p => decide (p ≤ s)) := by
    rw [← htab, List.filter_filter]
    congr 1
    funext p
    by_cases hp : p ≤ s
    · have : p ≤ N := Nat.le_trans hp hs
      simp [hp, this]
    · simp [hp]
  have hmem : ∀ x, x ∈ (primesUpTo B N).filter (fun p => decide (p ≤ s)) ↔ x ≤ s ∧ Nat.Prime x := by
    intro x
    rw [List.mem_filter, mem_primesUpTo B N x hN]
    simp only [decide_eq_true_eq]
    constructor
    · rintro ⟨⟨_, hp⟩, hx⟩; exact ⟨hx, hp⟩
    · rintro ⟨hx, hp⟩; exact ⟨⟨Nat.le_trans hx hs, hp⟩, hx⟩
  have hpw : ((primesUpTo B N).filter (fun p => decide (p ≤ s))).Pairwise (· ≤ ·) :=
    (pairwise_primesUpTo B N).filter _
  have h2mem : 2 ∈ (primesUpTo B N).filter (fun p => decide (p ≤ s)) :=
    (hmem 2).mpr ⟨h2, Nat.prime_two⟩
  have hne : (primesUpTo B N).filter (fun p => decide (p ≤ s)) ≠ [] := List.ne_nil_of_mem h2mem
  refine ⟨((primesUpTo B N).filter (fun p => decide (p ≤ s))).getLast hne, ?_, ?_, ?_, ?_⟩
  · unfold primeLookup
    rw [hff, List.getLast?_eq_some_getLast hne]
  · exact ((hmem _).mp (List.getLast_mem hne)).2
  · exact ((hmem _).mp (List.getLast_mem hne)).1
  · intro q hq hqs
    exact hpw.rel_getLast ((hmem q).mpr ⟨hqs, hq⟩)

end PyPhysim.C18P
