import PyPhysim.Proofs.C09Ext
import Mathlib.Tactic.FinCases
import Mathlib.Tactic.NormNum

/-!
A concrete instance of the kernel contracts (non-vacuity of the hypotheses of
the C09 theorems): 2 users with one antenna each, `H = [[3, 4i], [4i, 3]]`.
-/
namespace PyPhysim.BD.Pf.Ex
open PyPhysim.BD PyPhysim.BD.Pf
/-- 2 users, 1 antenna each: `H = [[3, 4i], [4i, 3]]` -/
noncomputable def H : Mat ℂ (2 * 1) (2 * 1) := fun i j => if i.val = j.val then ⟨3, 0⟩ else ⟨0, 4⟩
/-- `V_H` of `svd(H̃_k)` (`H̃_0 = [4i, 3]`, `H̃_1 = [3, 4i]`) -/
noncomputable def VH1 : Fin 2 → Mat ℂ (2 * 1) (2 * 1) := fun k i j =>
  if (k.val + i.val + j.val) % 2 = 0 then ⟨0, 4 / 5⟩ else ⟨3 / 5, 0⟩
noncomputable def VH2 : Fin 2 → Mat ℂ 1 1 := fun _ _ _ => 1
def S2 : Fin 2 → Fin 1 → ℝ := fun _ _ => 5

theorem unitary1 (k : Fin 2) : matMul (VH1 k) (cT (VH1 k)) = eye := by
  funext i j
  rw [matMul_apply]
  fin_cases k <;> fin_cases i <;> fin_cases j <;>
    simp [VH1, cT, Cx.conj, eye, Fin.sum_univ_succ, Complex.ext_iff] <;> norm_num

theorem unitary2 (k : Fin 2) : matMul (VH2 k) (cT (VH2 k)) = eye := by
  funext i j
  rw [matMul_apply]
  fin_cases i; fin_cases j
  simp [VH2, cT, Cx.conj, eye]

theorem null (k : Fin 2) : matMul (tildeChannel H k) (calcBD (by norm_num) H VH1 VH2 S2 k).V0 = fun _ _ => 0 := by
  apply tilde_null_of_rowBlocks
  intro j hjk
  funext r c
  rw [matMul_apply]
  fin_cases k <;> fin_cases j <;> first | exact absurd rfl hjk | skip
  all_goals
    fin_cases r; fin_cases c
    simp [rowBlock, join, calcBD, userBD, leastCols, revIdx, H, VH1, Cx.conj, Fin.sum_univ_succ, Complex.ext_iff]
  all_goals norm_num

theorem contract : BDContract (by norm_num) H VH1 VH2 S2 := ⟨unitary1, unitary2, null⟩

theorem fullRank : ∃ Hinv : Mat ℂ (2 * 1) (2 * 1), matMul Hinv H = eye := by
  refine ⟨fun i j => if i.val = j.val then ⟨3 / 25, 0⟩ else ⟨0, -4 / 25⟩, ?_⟩
  funext i j
  rw [matMul_apply]
  fin_cases i <;> fin_cases j <;>
    simp [H, eye, Fin.sum_univ_succ, Complex.ext_iff] <;> norm_num

/-- a reduction matrix orthogonal to a rank-one external interference (`N = 2`) -/
noncomputable def E : Mat ℂ 2 1 := fun i _ => if i.val = 0 then ⟨0, 2⟩ else 0
noncomputable def P : Mat ℂ 2 1 := fun i _ => if i.val = 0 then 0 else 1

theorem P_orthogonal_to_E : matMul (cT E) P = fun _ _ => 0 := by
  funext i j
  rw [matMul_apply]
  fin_cases i; fin_cases j
  simp [E, P, cT, Cx.conj, Fin.sum_univ_succ]

end PyPhysim.BD.Pf.Ex
