import PyPhysim.Proofs.C11Sinr
import PyPhysim.Proofs.C11Q

/-!
R15 / R16 on the model side.

* R15: the model compares nothing with a tolerance.  Its SINR is an INJECTIVE function of the
  noise variance and of the external power (where the stream is received at all), and so is the
  interference-plus-noise covariance: two values that are merely close are two values.
* R16: a call reads the contents of the objects it is handed at call time (`Model/C11.lean`,
  section `heap`).
-/
set_option linter.unusedSectionVars false
namespace PyPhysim.Sinr.Pf
open Matrix PyPhysim.Proto PyPhysim.Sinr PyPhysim.Sinr.Spec

variable {K n t s e : Nat} {T S : Fin K → Nat}

/-! ### the caller's buffers -/

theorem refill_self {ι : Type} (h : Heap ι) (a : Nat) (v : ι) : refill h a v a = v := by simp [refill]

theorem refill_other {ι : Type} (h : Heap ι) (a b : Nat) (v : ι) (hb : b ≠ a) : refill h a v b = h b := by
  simp [refill, hb]

theorem refillLoop_eq_map {ι β : Type} (report : ι → β) (a : Nat) :
    ∀ (h : Heap ι) (vs : List ι), refillLoop report a h vs = vs.map report
  | _, [] => rfl
  | h, v :: vs => by
    simp only [refillLoop, callOn, refill_self, List.map_cons, refillLoop_eq_map report a _ vs]

/-! ### no tolerance anywhere -/

/-- two different denominators (both `≥ 0`) under a numerator `> 0` never give the same outcome -/
theorem ite_quot_ne {N D D' : ℝ} (hN : 0 < N) (hD : 0 ≤ D) (hD' : 0 ≤ D') (h : D ≠ D') :
    (if D = 0 then (.error .ZeroDivisionError : Except PyErr ℝ) else .ok |N / D|) ≠
      (if D' = 0 then .error .ZeroDivisionError else .ok |N / D'|) := by
  by_cases h0 : D = 0
  · have h0' : D' ≠ 0 := fun h' => h (h0.trans h'.symm)
    rw [if_pos h0, if_neg h0']
    intro hc; cases hc
  · by_cases h0' : D' = 0
    · rw [if_neg h0, if_pos h0']
      intro hc; cases hc
    · rw [if_neg h0, if_neg h0']
      intro hc
      have hpos : 0 < D := lt_of_le_of_ne hD (Ne.symm h0)
      have hpos' : 0 < D' := lt_of_le_of_ne hD' (Ne.symm h0')
      have hq : |N / D| = |N / D'| := by injection hc
      rw [abs_of_pos (div_pos hN hpos), abs_of_pos (div_pos hN hpos')] at hq
      rw [div_eq_div_iff h0 h0'] at hq
      exact h (mul_left_cancel₀ hN.ne' hq).symm

theorem normSq_sum_pos {w : Fin n → ℂ} (h : ∃ a, w a ≠ 0) : 0 < ∑ a, Complex.normSq (w a) := by
  obtain ⟨a, ha⟩ := h
  exact lt_of_lt_of_le (Complex.normSq_pos.mpr ha)
    (Finset.single_le_sum (f := fun a => Complex.normSq (w a)) (fun i _ => Complex.normSq_nonneg _) (Finset.mem_univ a))

/-- the SINR of the plain channel object as a function of the noise variance alone is injective (where the
    stream is received at all and the filter is not zero) -/
theorem chSinr_noise_injective (G : (j : Fin K) → Mat ℂ n (T j)) (V : (j : Fin K) → Mat ℂ (T j) (S j))
    (k : Fin K) (Uk : Mat ℂ n (S k)) (σ σ' : ℝ) (l : Fin (S k)) (hσ : 0 ≤ σ) (hσ' : 0 ≤ σ') (hne : σ ≠ σ')
    (hsig : sigPow G V (filt Uk l) k l ≠ 0) (hu : ∃ a, Uk a l ≠ 0) :
    (chSinr G V k Uk (baseRek n (some σ)) l : Except PyErr ℝ) ≠ chSinr G V k Uk (baseRek n (some σ')) l := by
  rw [chSinr_eq G V k Uk _ l _ (qf_baseRek (isFilt_channel Uk l) (some σ)),
    chSinr_eq G V k Uk _ l _ (qf_baseRek (isFilt_channel Uk l) (some σ'))]
  have hw : 0 < ∑ a, Complex.normSq (filt Uk l a) := normSq_sum_pos hu
  refine ite_quot_ne (lt_of_le_of_ne (streamPow_nonneg _ _ _ _ _) (Ne.symm hsig))
    (add_nonneg (intfPow_nonneg _ _ _ _ _) (noisePow_nonneg hσ _))
    (add_nonneg (intfPow_nonneg _ _ _ _ _) (noisePow_nonneg hσ' _)) ?_
  intro h
  have h2 : σ * ∑ a, Complex.normSq (filt Uk l a) = σ' * ∑ a, Complex.normSq (filt Uk l a) := by
    simpa [noisePow, noiseVar] using h
  exact hne (mul_right_cancel₀ hw.ne' h2)

/-- … and so is the SINR of the external-interference channel object as a function of `pe` -/
theorem chSinr_pe_injective (G : (j : Fin K) → Mat ℂ n (T j)) (V : (j : Fin K) → Mat ℂ (T j) (S j))
    (k : Fin K) (Uk : Mat ℂ n (S k)) (He : Mat ℂ n e) (noise : Option ℝ) (pe pe' : ℝ) (l : Fin (S k))
    (hpe : 0 ≤ pe) (hpe' : 0 ≤ pe') (hσ : ∀ v, noise = some v → 0 ≤ v) (hne : pe ≠ pe')
    (hsig : sigPow G V (filt Uk l) k l ≠ 0) (hext : extPow He 1 (filt Uk l) ≠ 0) :
    (chSinr G V k Uk (extRek He pe noise) l : Except PyErr ℝ) ≠ chSinr G V k Uk (extRek He pe' noise) l := by
  rw [chSinr_eq G V k Uk _ l _ (qf_extRek (isFilt_channel Uk l) He pe noise),
    chSinr_eq G V k Uk _ l _ (qf_extRek (isFilt_channel Uk l) He pe' noise)]
  refine ite_quot_ne (lt_of_le_of_ne (streamPow_nonneg _ _ _ _ _) (Ne.symm hsig))
    (add_nonneg (intfPow_nonneg _ _ _ _ _) (add_nonneg (extPow_nonneg He hpe _) (noisePow_nonneg (noiseVar_nonneg hσ) _)))
    (add_nonneg (intfPow_nonneg _ _ _ _ _) (add_nonneg (extPow_nonneg He hpe' _) (noisePow_nonneg (noiseVar_nonneg hσ) _))) ?_
  intro h
  have h2 : pe * ∑ i, Complex.normSq (∑ a, star (filt Uk l a) * He a i) =
      pe' * ∑ i, Complex.normSq (∑ a, star (filt Uk l a) * He a i) := by
    simpa [extPow] using h
  have h1 : (∑ i, Complex.normSq (∑ a, star (filt Uk l a) * He a i)) ≠ 0 := by
    simpa [extPow] using hext
  exact hne (mul_right_cancel₀ h1 h2)

/-- two noise variances that differ give interference-plus-noise covariance matrices that differ -/
theorem chQ_noise_injective (G : (j : Fin K) → Mat ℂ n (T j)) (V : (j : Fin K) → Mat ℂ (T j) (S j))
    (k : Fin K) (σ σ' : ℝ) (hn : 0 < n) (hne : σ ≠ σ') :
    (chQ G V k (some σ) : Mat ℂ n n) ≠ chQ G V k (some σ') := by
  intro h
  have h1 := congrFun (congrFun h ⟨0, hn⟩) ⟨0, hn⟩
  simp only [chQ, madd, noiseCov, smul, eye, RC.ofReal, if_true, mul_one, add_right_inj] at h1
  exact hne (Complex.ofReal_injective h1)

end PyPhysim.Sinr.Pf
