import PyPhysim.Proofs.C11Bridge

/-!
# C11 — first-principles definitions the theorems compare the code with

Nothing here mentions the model's covariance matrices: the powers are sums of
squared moduli of scalar amplitudes `uᴴ H f`.

One receiver: `n` receive antennas, receive filter `u : Fin n → ℂ` of the stream
under consideration, `G j : n × T j` the channel from the transmitter of
precoder `j`, `V j : T j × S j` the precoder of user `j` (column `d` = stream `d`,
transmit power included).
-/
namespace PyPhysim.Sinr.Spec
open PyPhysim.Sinr Matrix

variable {K n : Nat} {T S : Fin K → Nat}

/-- `uᴴ H f`: the complex amplitude with which the stream vector `f`, sent through
    the channel `H`, appears at the output of the receive filter `u` -/
def amp {t : Nat} (u : Fin n → ℂ) (H : Mat ℂ n t) (f : Fin t → ℂ) : ℂ :=
  ∑ a, star (u a) * ∑ b, H a b * f b

/-- power of stream `d` of user `j` after the receive filter `u` -/
def streamPow (G : (j : Fin K) → Mat ℂ n (T j)) (V : (j : Fin K) → Mat ℂ (T j) (S j))
    (u : Fin n → ℂ) (j : Fin K) (d : Fin (S j)) : ℝ :=
  Complex.normSq (amp u (G j) (fun b => V j b d))

/-- power of the desired stream `l` of user `k` -/
def sigPow (G : (j : Fin K) → Mat ℂ n (T j)) (V : (j : Fin K) → Mat ℂ (T j) (S j))
    (u : Fin n → ℂ) (k : Fin K) (l : Fin (S k)) : ℝ := streamPow G V u k l

/-- summed power of ALL other streams of ALL users (every `(j, d) ≠ (k, l)`) -/
def intfPow (G : (j : Fin K) → Mat ℂ n (T j)) (V : (j : Fin K) → Mat ℂ (T j) (S j))
    (u : Fin n → ℂ) (k : Fin K) (l : Fin (S k)) : ℝ :=
  ∑ x ∈ (Finset.univ.erase (⟨k, l⟩ : (j : Fin K) × Fin (S j))), streamPow G V u x.1 x.2

/-- external interference: every column `i` of `He` is one unit-variance external
    stream, all of them sent with power `pe` -/
def extPow {e : Nat} (He : Mat ℂ n e) (pe : ℝ) (u : Fin n → ℂ) : ℝ :=
  pe * ∑ i, Complex.normSq (∑ a, star (u a) * He a i)

/-- white noise of variance `σ2` after the filter: `σ² ‖u‖²` -/
def noisePow (σ2 : ℝ) (u : Fin n → ℂ) : ℝ := σ2 * ∑ a, Complex.normSq (u a)

/-- `noise_var` of the channel object: `None` means no noise -/
def noiseVar : Option ℝ → ℝ
  | none => 0
  | some v => v

/-- the receive filter of stream `l`: column `l` of `U` -/
def filt {s : Nat} (U : Mat ℂ n s) (l : Fin s) : Fin n → ℂ := fun a => U a l

/-- the receive filter of stream `l` read off `full_W_H` (row `l`, conjugated) -/
def filtH {s : Nat} (WH : Mat ℂ s n) (l : Fin s) : Fin n → ℂ := fun a => star (WH l a)

/-- column `l` of the receive filter rescaled by `c` -/
def scaleCol {s : Nat} (U : Mat ℂ n s) (l : Fin s) (c : ℂ) : Mat ℂ n s :=
  fun a b => if b = l then c * U a b else U a b

/-- row `l` of `full_W_H` rescaled by `c` -/
def scaleRow {s : Nat} (WH : Mat ℂ s n) (l : Fin s) (c : ℂ) : Mat ℂ s n :=
  fun a b => if a = l then c * WH a b else WH a b

/-- covariance of one link: `(H F)(H F)ᴴ = Σ_d (H f_d)(H f_d)ᴴ` -/
def linkCov {t s : Nat} (H : Mat ℂ n t) (F : Mat ℂ t s) : Matrix (Fin n) (Fin n) ℂ :=
  (toM H * toM F) * (toM H * toM F)ᴴ

/-- the current inputs of receiver `k` of a (plain) channel object, for a fixed layout -/
structure RxInputs (K n : Nat) (T S : Fin K → Nat) (k : Fin K) where
  G : (j : Fin K) → Mat ℂ n (T j)
  V : (j : Fin K) → Mat ℂ (T j) (S j)
  Uk : Mat ℂ n (S k)
  noise : Option ℝ

end PyPhysim.Sinr.Spec
