import PyPhysim.Proofs.C13Models
import Mathlib.Analysis.Real.Pi.Bounds

/-! # C13 — free space with exponent 2 against the Friis formula

`FSPL = 20·log10(4π·d·f / c)` with `d` in metres, `f` in Hz, `c = 299 792 458 m/s`.
The code works with `d` in km and `fc` in MHz and the literal `4.377911390697565`
(which is `log10(3·10⁸ / 4π) − 3`).  The difference is the constant
`20·(log10(c/4π) − 3 − 4.3779…)`; it is enclosed with `π ∈ (3.141592, 3.141593)` and the
rational-exponent bounds `10^(723/98) ≤ c/4π ≤ 10^(332/45)`.
-/
namespace PyPhysim.C13
open Real

/-- `10^(p/q) ≤ y` from `10^p ≤ y^q` -/
theorem pow10_rat_le {p q : ℕ} (hq : q ≠ 0) {y : ℝ} (hy : 0 ≤ y) (h : (10 : ℝ) ^ p ≤ y ^ q) :
    (10 : ℝ) ^ ((p : ℝ) / (q : ℝ)) ≤ y := by
  have h10 : (0 : ℝ) ≤ (10 : ℝ) ^ ((p : ℝ) / (q : ℝ)) := (pow10_pos _).le
  rw [← pow_le_pow_iff_left₀ h10 hy hq, ← Real.rpow_natCast, ← Real.rpow_mul (by norm_num)]
  have : (p : ℝ) / (q : ℝ) * (q : ℝ) = (p : ℝ) := by
    field_simp
  rw [this, Real.rpow_natCast]
  exact h

theorem le_pow10_rat {p q : ℕ} (hq : q ≠ 0) {y : ℝ} (hy : 0 ≤ y) (h : y ^ q ≤ (10 : ℝ) ^ p) :
    y ≤ (10 : ℝ) ^ ((p : ℝ) / (q : ℝ)) := by
  have h10 : (0 : ℝ) ≤ (10 : ℝ) ^ ((p : ℝ) / (q : ℝ)) := (pow10_pos _).le
  rw [← pow_le_pow_iff_left₀ hy h10 hq, ← Real.rpow_natCast ((10:ℝ) ^ _), ← Real.rpow_mul (by norm_num)]
  have : (p : ℝ) / (q : ℝ) * (q : ℝ) = (p : ℝ) := by
    field_simp
  rw [this, Real.rpow_natCast]
  exact h

/-- speed of light over `4π` -/
noncomputable def friisK : ℝ := 299792458 / (4 * π)

theorem friisK_bounds : (23856722 : ℝ) ≤ friisK ∧ friisK ≤ 23856732 := by
  have h1 := pi_gt_d6
  have h2 := pi_lt_d6
  have hp : 0 < 4 * π := by positivity
  unfold friisK
  constructor
  · rw [le_div_iff₀ hp]; nlinarith
  · rw [div_le_iff₀ hp]; nlinarith

theorem friisK_pos : 0 < friisK := by
  have := friisK_bounds.1; linarith

theorem big_lower : (10 : ℝ) ^ (723 : ℕ) ≤ (23856722 : ℝ) ^ (98 : ℕ) := by
  have : (10 : ℕ) ^ 723 ≤ 23856722 ^ 98 := by decide +kernel
  exact_mod_cast this

theorem big_upper : (23856732 : ℝ) ^ (45 : ℕ) ≤ (10 : ℝ) ^ (332 : ℕ) := by
  have : (23856732 : ℕ) ^ 45 ≤ 10 ^ 332 := by decide +kernel
  exact_mod_cast this

/-- `7.37755… ≤ log10(c/4π) ≤ 7.37777…` -/
theorem log10_friisK_bounds :
    (723 : ℝ) / 98 ≤ logb 10 friisK ∧ logb 10 friisK ≤ (332 : ℝ) / 45 := by
  obtain ⟨lo, hi⟩ := friisK_bounds
  constructor
  · rw [le_logb_iff_rpow_le (by norm_num) friisK_pos]
    have := pow10_rat_le (p := 723) (q := 98) (by norm_num) (by norm_num) big_lower
    push_cast at this
    linarith
  · rw [logb_le_iff_le_rpow (by norm_num) friisK_pos]
    have := le_pow10_rat (p := 332) (q := 45) (by norm_num) (by norm_num) big_upper
    push_cast at this
    linarith

/-- the Friis free-space loss in dB for `d` km and `fc` MHz -/
noncomputable def friisDb (d fc : ℝ) : ℝ :=
  20 * logb 10 (4 * π * (d * 1000) * (fc * 1000000) / 299792458)

theorem log10_1000 : logb 10 (1000 : ℝ) = 3 := by
  have : (1000 : ℝ) = (10 : ℝ) ^ (3 : ℝ) := by norm_num
  rw [this, log10_pow10]

theorem friisDb_split {d fc : ℝ} (hd : 0 < d) (hfc : 0 < fc) :
    friisDb d fc = 20 * (logb 10 d + 3 + logb 10 (fc * 1000000) - logb 10 friisK) := by
  unfold friisDb
  have hK := friisK_pos
  have e : 4 * π * (d * 1000) * (fc * 1000000) / 299792458 = d * 1000 * (fc * 1000000) / friisK := by
    unfold friisK
    have : (0 : ℝ) < π := pi_pos
    field_simp
  rw [e, logb_div (by positivity) hK.ne', logb_mul (by positivity) (by positivity),
    logb_mul hd.ne' (by norm_num), log10_1000]

/-- the exact difference between the model with exponent 2 and Friis: a constant -/
theorem fs_minus_friis {d fc : ℝ} (hd : 0 < d) (hfc : 0 < fc) :
    Gen.generalDb 2 (Gen.fsCalcC fc 2) d - friisDb d fc
      = 20 * (logb 10 friisK - 3 - 4.377911390697565) := by
  rw [friisDb_split hd hfc, generalDb_real, fsCalcC_real]
  ring

theorem fs_friis_abs {d fc : ℝ} (hd : 0 < d) (hfc : 0 < fc) :
    |Gen.generalDb 2 (Gen.fsCalcC fc 2) d - friisDb d fc| ≤ 0.01 := by
  rw [fs_minus_friis hd hfc, abs_le]
  obtain ⟨lo, hi⟩ := log10_friisK_bounds
  constructor <;> norm_num at lo hi ⊢ <;> linarith

end PyPhysim.C13
