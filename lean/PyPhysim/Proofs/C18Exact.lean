import PyPhysim.Proofs.C18Est

/-!
C18 — exactness of the CAZAC estimator on noise-free observations, rejection
of users on other cyclic shifts, additivity in the observation.
-/
set_option linter.unusedSectionVars false
namespace PyPhysim.C18P
open PyPhysim.Cazac PyPhysim.Proto Finset

variable {F : Type} [Field F] [CisOps F]

local notation "cis" => (CisOps.cis : ℚ → F)
local notation "conj" => (CisOps.conj : F → F)

/-- Noise-free observation: a user with sequence `x` sends on every `m`-th
    subcarrier of a channel with frequency response `H`. -/
def observe (H : List F) (m : ℕ) (x : List F) : List F :=
  (List.range x.length).map (fun n => H.getD (m * n) 0 * x.getD n 0)

/-- elementwise sum (superposition of observations / of estimates) -/
def addL (a b : List F) : List F := List.zipWith (· + ·) a b

theorem observe_length (H : List F) (m : ℕ) (x : List F) : (observe H m x).length = x.length := by
  unfold observe; simp

theorem observe_getD (H : List F) (m : ℕ) (x : List F) (n : ℕ) (hn : n < x.length) :
    (observe H m x).getD n 0 = H.getD (m * n) 0 * x.getD n 0 := by
  unfold observe
  rw [map_range_getD _ _ _ hn]

theorem fftPad_length (h : List F) (M : ℕ) : (fftPad h M).length = M := by
  unfold fftPad; simp

theorem fftPad_getD (h : List F) (M f : ℕ) (hf : f < M) (hL : h.length ≤ M) :
    (fftPad h M).getD f 0
      = ∑ l ∈ range h.length, h.getD l 0 * cis (-(((f * l : ℕ) : ℚ) / ((M : ℕ) : ℚ))) := by
  unfold fftPad
  rw [map_range_getD _ _ _ hf, List.take_of_length_le hL, dot_eq_sum]

theorem getD_of_length_le (h : List F) (k : ℕ) (hk : h.length ≤ k) : h.getD k 0 = 0 := by
  simp [List.getD_eq_getElem?_getD, List.getElem?_eq_none hk]

section
variable (L : CisLaws F) [CharZero F]
include L

/-- inverse DFT of a (frequency-shifted) comb-sampled frequency response -/
theorem idft_comb (hh : ℕ → F) (Lh N m : ℕ) (hN : 0 < N) (hm : 0 < m) (d : ℤ) (k : ℕ) :
    ∑ n ∈ range N,
        (∑ l ∈ range Lh, hh l * cis (-((((m * n) * l : ℕ) : ℚ) / ((m * N : ℕ) : ℚ))))
          * cis ((n : ℚ) * ((d : ℚ) / (N : ℚ))) * cis (((n * k : ℕ) : ℚ) / ((N : ℕ) : ℚ))
      = ∑ l ∈ range Lh, hh l * (if (N : ℤ) ∣ ((k : ℤ) + d - (l : ℤ)) then (N : F) else 0) := by
  have hN' : (N : ℚ) ≠ 0 := by exact_mod_cast (Nat.ne_of_gt hN)
  have hm' : (m : ℚ) ≠ 0 := by exact_mod_cast (Nat.ne_of_gt hm)
  have h1 : ∀ n ∈ range N,
      (∑ l ∈ range Lh, hh l * cis (-((((m * n) * l : ℕ) : ℚ) / ((m * N : ℕ) : ℚ))))
          * cis ((n : ℚ) * ((d : ℚ) / (N : ℚ))) * cis (((n * k : ℕ) : ℚ) / ((N : ℕ) : ℚ))
        = ∑ l ∈ range Lh, hh l * cis ((n : ℚ) * ((((k : ℤ) + d - (l : ℤ) : ℤ) : ℚ) / (N : ℚ))) := by
    intro n _
    rw [Finset.sum_mul, Finset.sum_mul]
    apply Finset.sum_congr rfl
    intro l _
    rw [mul_assoc, mul_assoc, ← L.cis_add, ← L.cis_add]
    congr 2
    push_cast
    field_simp
    ring
  rw [Finset.sum_congr rfl h1, Finset.sum_comm]
  apply Finset.sum_congr rfl
  intro l _
  rw [← Finset.mul_sum, L.sum_cis_div N hN]

/-- delay-domain estimate when the observation comes from a user whose
    sequence differs from the reference by a linear phase `d` bins and a scalar `c` -/
theorem tapEst_observe (r r' h : List F) (c : F) (m : ℕ) (d : ℤ) (k : ℕ)
    (hm : 0 < m) (hN : 0 < r.length) (hlen : r'.length = r.length) (hL : h.length ≤ m * r.length)
    (hprod : ∀ n, n < r.length →
      conj (r.getD n 0) * r'.getD n 0 = c * cis ((n : ℚ) * ((d : ℚ) / (r.length : ℚ)))) :
    tapEst r (observe (fftPad h (m * r.length)) m r') k
      = c * ∑ l ∈ range h.length,
          h.getD l 0 * (if (r.length : ℤ) ∣ ((k : ℤ) + d - (l : ℤ)) then 1 else 0) := by
  have hNF : ((r.length : ℕ) : F) ≠ 0 := by exact_mod_cast (Nat.ne_of_gt hN)
  unfold tapEst
  have h1 : ∀ n ∈ range r.length,
      conj (r.getD n 0) * (observe (fftPad h (m * r.length)) m r').getD n 0
          * cis (((n * k : ℕ) : ℚ) / ((r.length : ℕ) : ℚ))
        = c * ((∑ l ∈ range h.length,
              h.getD l 0 * cis (-((((m * n) * l : ℕ) : ℚ) / ((m * r.length : ℕ) : ℚ))))
            * cis ((n : ℚ) * ((d : ℚ) / (r.length : ℚ)))
            * cis (((n * k : ℕ) : ℚ) / ((r.length : ℕ) : ℚ))) := by
    intro n hn
    have hn' := Finset.mem_range.mp hn
    rw [observe_getD _ _ _ _ (by rw [hlen]; exact hn'),
      fftPad_getD h _ (m * n) (Nat.mul_lt_mul_of_pos_left hn' hm) hL]
    have := hprod n hn'
    linear_combination (∑ l ∈ range h.length,
        h.getD l 0 * cis (-((((m * n) * l : ℕ) : ℚ) / ((m * r.length : ℕ) : ℚ))))
      * cis (((n * k : ℕ) : ℚ) / ((r.length : ℕ) : ℚ)) * this
  rw [Finset.sum_congr rfl h1, ← Finset.mul_sum,
    idft_comb L (fun l => h.getD l 0) h.length r.length m hN hm d k]
  have hS : ∑ l ∈ range h.length,
        h.getD l 0 * (if (r.length : ℤ) ∣ ((k : ℤ) + d - (l : ℤ)) then ((r.length : ℕ) : F) else 0)
      = (∑ l ∈ range h.length,
          h.getD l 0 * (if (r.length : ℤ) ∣ ((k : ℤ) + d - (l : ℤ)) then (1 : F) else 0))
        * ((r.length : ℕ) : F) := by
    rw [Finset.sum_mul]
    apply Finset.sum_congr rfl
    intro l _
    split_ifs <;> ring
  rw [hS, mul_div_assoc, mul_div_assoc, div_self hNF, mul_one]

/-- own user: the delay-domain estimate is the tap itself (times the scalar) -/
theorem tapEst_own (r h : List F) (c : F) (m k : ℕ)
    (hm : 0 < m) (hN : 0 < r.length) (hL : h.length ≤ r.length) (hk : k < r.length)
    (hr : ∀ n, n < r.length → r.getD n 0 * conj (r.getD n 0) = c) :
    tapEst r (observe (fftPad h (m * r.length)) m r) k = c * h.getD k 0 := by
  rw [tapEst_observe L r r h c m 0 k hm hN rfl
    (Nat.le_trans hL (Nat.le_mul_of_pos_left _ hm))]
  · congr 1
    have h1 : ∀ l ∈ range h.length,
        h.getD l 0 * (if (r.length : ℤ) ∣ ((k : ℤ) + 0 - (l : ℤ)) then (1 : F) else 0)
          = if l = k then h.getD k 0 else 0 := by
      intro l hl
      have hl' := Finset.mem_range.mp hl
      by_cases hlk : l = k
      · subst hlk; simp
      · rw [if_neg hlk, if_neg, mul_zero]
        intro hd
        apply hlk
        have h2 : ((k : ℤ) + 0 - (l : ℤ)) = 0 := by
          apply Int.eq_zero_of_abs_lt_dvd hd
          rw [abs_lt]
          constructor <;> omega
        omega
    rw [Finset.sum_congr rfl h1, Finset.sum_ite_eq' (range h.length) k (fun _ => h.getD k 0)]
    by_cases hk' : k < h.length
    · simp [hk']
    · rw [getD_of_length_le h k (Nat.le_of_not_lt hk')]; simp
  · intro n hn
    have : ((n : ℚ) * (((0 : ℤ) : ℚ) / (r.length : ℚ))) = 0 := by simp
    rw [this, L.cis_zero, mul_one, mul_comm]
    exact hr n hn

/-- **Exactness**: a noise-free observation of a channel whose taps fit in the
    kept window is estimated exactly (plain / comb; normalised or not through `c`). -/
theorem estimate_exact_core (r h : List F) (c : F) (nrm : Bool) (m K : ℕ)
    (hm : 0 < m) (hN : 0 < r.length)
    (hr : ∀ n, n < r.length → r.getD n 0 * conj (r.getD n 0) = c)
    (hc : c * (if nrm then ((r.length : ℕ) : F) else 1) = 1)
    (hfit : h.length ≤ K + 1) (hlen : h.length ≤ r.length) :
    estimate1 r nrm m (observe (fftPad h (m * r.length)) m r) K = .ok (fftPad h (m * r.length)) := by
  rw [estimate1_closed r _ nrm m K (observe_length _ _ _) hm hN]
  congr 1
  have hLM : h.length ≤ m * r.length := Nat.le_trans hlen (Nat.le_mul_of_pos_left _ hm)
  have hfe : ∀ f, freqEst r (observe (fftPad h (m * r.length)) m r) m K f
      = c * ∑ l ∈ range h.length,
          h.getD l 0 * cis (-(((f * l : ℕ) : ℚ) / ((m * r.length : ℕ) : ℚ))) := by
    intro f
    unfold freqEst
    have h1 : ∀ k ∈ range (min (K + 1) r.length),
        tapEst r (observe (fftPad h (m * r.length)) m r) k
            * cis (-(((f * k : ℕ) : ℚ) / ((m * r.length : ℕ) : ℚ)))
          = c * (h.getD k 0 * cis (-(((f * k : ℕ) : ℚ) / ((m * r.length : ℕ) : ℚ)))) := by
      intro k hk
      have hk' : k < r.length := Nat.lt_of_lt_of_le (Finset.mem_range.mp hk) (Nat.min_le_right _ _)
      rw [tapEst_own L r h c m k hm hN hlen hk' hr, mul_assoc]
    rw [Finset.sum_congr rfl h1, ← Finset.mul_sum]
    congr 1
    symm
    apply Finset.sum_subset
    · intro l hl
      rw [Finset.mem_range] at hl ⊢
      exact Nat.lt_of_lt_of_le hl (Nat.le_min.mpr ⟨hfit, hlen⟩)
    · intro k _ hk
      rw [Finset.mem_range] at hk
      rw [getD_of_length_le h k (Nat.le_of_not_lt hk), zero_mul]
  have hpad : fftPad h (m * r.length) = (List.range (m * r.length)).map (fun f =>
      ∑ l ∈ range h.length, h.getD l 0 * cis (-(((f * l : ℕ) : ℚ) / ((m * r.length : ℕ) : ℚ)))) := by
    unfold fftPad
    apply map_range_congr
    intro f _
    rw [List.take_of_length_le hLM, dot_eq_sum]
  conv_rhs => rw [hpad]
  apply map_range_congr
  intro f _
  rw [hfe f]
  cases nrm
  · simp only [Bool.false_eq_true, if_false, mul_one] at hc ⊢
    rw [hc, one_mul]
  · simp only [if_true] at hc ⊢
    rw [mul_comm, ← mul_assoc, mul_comm _ c, hc, one_mul]

/-- **Rejection**: a user whose sequence differs from the reference by a
    linear phase of `d` bins and whose taps avoid the (shifted) kept window
    contributes nothing. -/
theorem estimate_reject_core (r r' h : List F) (c : F) (nrm : Bool) (m K : ℕ) (d : ℤ)
    (hm : 0 < m) (hN : 0 < r.length) (hlen : r'.length = r.length) (hL : h.length ≤ m * r.length)
    (hprod : ∀ n, n < r.length →
      conj (r.getD n 0) * r'.getD n 0 = c * cis ((n : ℚ) * ((d : ℚ) / (r.length : ℚ))))
    (hwin : ∀ k l, k ≤ K → k < r.length → l < h.length →
      (r.length : ℤ) ∣ ((k : ℤ) + d - (l : ℤ)) → h.getD l 0 = 0) :
    estimate1 r nrm m (observe (fftPad h (m * r.length)) m r') K
      = .ok ((List.range (m * r.length)).map (fun _ => (0 : F))) := by
  rw [estimate1_closed r _ nrm m K (by rw [observe_length, hlen]) hm hN]
  congr 1
  apply map_range_congr
  intro f _
  have hfe : freqEst r (observe (fftPad h (m * r.length)) m r') m K f = 0 := by
    unfold freqEst
    apply Finset.sum_eq_zero
    intro k hk
    have hk1 := Finset.mem_range.mp hk
    have hkK : k ≤ K := by have := Nat.min_le_left (K + 1) r.length; omega
    have hkN : k < r.length := Nat.lt_of_lt_of_le hk1 (Nat.min_le_right _ _)
    rw [tapEst_observe L r r' h c m d k hm hN hlen hL hprod]
    have : ∑ l ∈ range h.length,
        h.getD l 0 * (if (r.length : ℤ) ∣ ((k : ℤ) + d - (l : ℤ)) then (1 : F) else 0) = 0 := by
      apply Finset.sum_eq_zero
      intro l hl
      split_ifs with hd
      · rw [hwin k l hkK hkN (Finset.mem_range.mp hl) hd, zero_mul]
      · rw [mul_zero]
    rw [this, mul_zero, zero_mul]
  rw [hfe]
  cases nrm <;> simp

end

/-! ### additivity -/

theorem addL_getD (a b : List F) (i : ℕ) (ha : i < a.length) (hb : i < b.length) :
    (addL a b).getD i 0 = a.getD i 0 + b.getD i 0 := by
  unfold addL
  rw [zipWith_getD _ a b i ha hb]

theorem addL_length (a b : List F) : (addL a b).length = min a.length b.length := by
  unfold addL; simp

theorem addL_map_range (f g : ℕ → F) (M : ℕ) :
    addL ((List.range M).map f) ((List.range M).map g) = (List.range M).map (fun i => f i + g i) := by
  unfold addL
  simp [List.zipWith_map_left, List.zipWith_map_right, List.zipWith_self]

theorem tapEst_add (r Y1 Y2 : List F) (k : ℕ) (h1 : Y1.length = r.length) (h2 : Y2.length = r.length) :
    tapEst r (addL Y1 Y2) k = tapEst r Y1 k + tapEst r Y2 k := by
  unfold tapEst
  rw [← add_div, ← Finset.sum_add_distrib]
  congr 1
  apply Finset.sum_congr rfl
  intro n hn
  have hn' := Finset.mem_range.mp hn
  rw [addL_getD Y1 Y2 n (by omega) (by omega)]
  ring

/-- **Additivity**: the estimate of a superposition of observations is the sum
    of the estimates. -/
theorem estimate1_add (r Y1 Y2 E1 E2 : List F) (nrm : Bool) (m K : ℕ)
    (hm : 0 < m) (hN : 0 < r.length)
    (hY1 : Y1.length = r.length) (hY2 : Y2.length = r.length)
    (h1 : estimate1 r nrm m Y1 K = .ok E1) (h2 : estimate1 r nrm m Y2 K = .ok E2) :
    estimate1 r nrm m (addL Y1 Y2) K = .ok (addL E1 E2) := by
  rw [estimate1_closed r Y1 nrm m K hY1 hm hN] at h1
  rw [estimate1_closed r Y2 nrm m K hY2 hm hN] at h2
  rw [estimate1_closed r _ nrm m K (by rw [addL_length, hY1, hY2, Nat.min_self]) hm hN]
  injection h1 with h1
  injection h2 with h2
  rw [← h1, ← h2, addL_map_range]
  congr 1
  apply map_range_congr
  intro f _
  have hfe : freqEst r (addL Y1 Y2) m K f = freqEst r Y1 m K f + freqEst r Y2 m K f := by
    unfold freqEst
    rw [← Finset.sum_add_distrib]
    apply Finset.sum_congr rfl
    intro k _
    rw [tapEst_add r Y1 Y2 k hY1 hY2]
    ring
  rw [hfe]
  cases nrm <;> simp [add_mul]

end PyPhysim.C18P
