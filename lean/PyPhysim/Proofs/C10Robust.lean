import PyPhysim.Proofs.C10Hist
/-!
Robustness classes R15 (distinct values that are merely close) and R16 (argument identity and
buffer reuse) on the cache machine of `Model/C10Cache.lean`.

R15: every accepted setter argument takes effect *as the value it is*: what the getters return
afterwards is a function of the NEW value only (never of the previous power / previous cache), and
different accepted powers give different `P` read-outs.

R16: a caller that keeps ONE buffer, refills it and calls the solver with operations built from the
current contents of that buffer (possibly using the buffer in several roles of one call) gets
exactly the outputs of a run on private copies taken at call time; outputs already produced do not
depend on anything that happens later.
-/
set_option linter.unusedSimpArgs false
namespace PyPhysim.C10
open PyPhysim.Proto

variable {μ ρ : Type}

/-! ### R15 -/

/-- the power the `P` getter reports after an accepted `P = v` -/
def PArg.values (O : Ops μ ρ) (K : Nat) : PArg ρ → List ρ
  | .none => List.replicate K O.one
  | .scalar x => List.replicate K x
  | .vec xs => xs
  | .malformed => []

theorem setP_valid_state (O : Ops μ ρ) (K : Nat) (st : State μ ρ) (v : PArg ρ)
    (hv : PArg.valid O K v = true) :
    ∃ p, (setP Cfg.fixed O K st v) = (storeP Cfg.fixed st p, .ok ())
      ∧ curP O K (storeP Cfg.fixed st p) = PArg.values O K v := by
  cases v with
  | none => exact ⟨none, rfl, rfl⟩
  | scalar x =>
    exact ⟨some (List.replicate K x), by simp [setP, show O.pos x = true from hv], rfl⟩
  | vec xs =>
    simp only [PArg.valid, Bool.and_eq_true, beq_iff_eq] at hv
    exact ⟨some xs, by simp [setP, hv.1, hv.2], rfl⟩
  | malformed => simp [PArg.valid] at hv

/-- after an accepted `P = v` — from ANY state — `P` reads as the new value and `full_F` as
    `_F * sqrt(new value)`: neither the previous power nor a previously cached `_full_F` enters -/
theorem setP_takes_effect (O : Ops μ ρ) (K : Nat) (st : State μ ρ) (v : PArg ρ)
    (hv : PArg.valid O K v = true) :
    let st' := (step Cfg.fixed O K st (.setP v)).1
    (step Cfg.fixed O K st (.setP v)).2 = .unit
    ∧ (step Cfg.fixed O K st' .readP).2 = .pow (PArg.values O K v)
    ∧ (step Cfg.fixed O K st' .readFullF).2
        = outArr (match st.f with
                  | none => .error .TypeError
                  | some F => O.scale F (PArg.values O K v)) := by
  intro st'
  obtain ⟨p, e, hc⟩ := setP_valid_state O K st v hv
  have hst : st' = storeP Cfg.fixed st p := by simp only [st', step, e]
  refine ⟨by simp only [step, e, outOf], ?_, ?_⟩
  · simp only [step, hst, hc]
  · simp only [step, hst]
    have hf : (storeP Cfg.fixed st p).f = st.f := rfl
    have hn : (storeP Cfg.fixed st p).fullF = none := rfl
    simp only [readFullF, hn, hf]
    cases hF : st.f with
    | none => rfl
    | some F =>
      simp only [hc]
      cases O.scale F (PArg.values O K v) <;> rfl

theorem replicate_injective {α : Type} {K : Nat} (hK : 0 < K) {x y : α}
    (h : List.replicate K x = List.replicate K y) : x = y := by
  cases K with
  | zero => omega
  | succ n => simp only [List.replicate_succ, List.cons.injEq] at h; exact h.1

/-- after `set_precoders(F=…)` — from any state, whatever was stored — `F` reads as exactly the
    matrices given and `Ns` as their column counts -/
theorem setPrecoders_takes_effect (O : Ops μ ρ) (K : Nat) (st : State μ ρ) (F : μ) (fF : Option μ)
    (p : Option (List ρ)) :
    let st' := (step Cfg.fixed O K st (.setPrecoders (some F) fF p)).1
    (step Cfg.fixed O K st' .readF).2 = .arr (some F)
    ∧ (step Cfg.fixed O K st' .readNs).2 = .ns (some (O.ncols F))
    ∧ st'.fullF = fF := by
  intro st'
  cases fF <;> cases p <;> simp [st', step, doSetPrecoders, clearTx, Cfg.fixed]

/-- after `set_receive_filters(W=…)` / `(W_H=…)` — from any state — the getter of the form that was
    given returns exactly the matrices given -/
theorem setFilters_takes_effect (O : Ops μ ρ) (K : Nat) (st : State μ ρ) (X : μ) :
    (step Cfg.fixed O K (step Cfg.fixed O K st (.setFilters none (some X))).1 .readW).2 = .arr (some X)
    ∧ (step Cfg.fixed O K (step Cfg.fixed O K st (.setFilters (some X) none)).1 .readWH).2
        = .arr (some X) := by
  constructor <;> simp [step, doSetFilters, clearRx, readW, readWH, Cfg.fixed]

/-! ### R16 -/

/-- what a caller does with its ONE preallocated buffer (contents of type `β`): overwrite it in
    place, or call the solver with an operation built from the buffer as it is at that moment
    (`mk` may use the buffer in several roles of the call) -/
inductive Caller (β μ ρ : Type) where
  | refill (contents : β)
  | call (mk : β → Op μ ρ)

/-- the history as it happens: the operations read the shared buffer -/
def runCaller (cfg : Cfg) (O : Ops μ ρ) (K : Nat) {β : Type} :
    β → State μ ρ → List (Caller β μ ρ) → State μ ρ × List (Out μ ρ)
  | _, st, [] => (st, [])
  | _, st, .refill c :: rest => runCaller cfg O K c st rest
  | b, st, .call mk :: rest =>
    let r := step cfg O K st (mk b)
    let rs := runCaller cfg O K b r.1 rest
    (rs.1, r.2 :: rs.2)

/-- the same history with a private copy of the contents made at every call -/
def snapshots {β : Type} : β → List (Caller β μ ρ) → List (Op μ ρ)
  | _, [] => []
  | _, .refill c :: rest => snapshots c rest
  | b, .call mk :: rest => mk b :: snapshots b rest

theorem runCaller_eq_run (cfg : Cfg) (O : Ops μ ρ) (K : Nat) {β : Type} :
    ∀ (cs : List (Caller β μ ρ)) (b : β) (st : State μ ρ),
      runCaller cfg O K b st cs = run cfg O K st (snapshots b cs)
  | [], _, _ => rfl
  | .refill c :: rest, _, st => by
    simp only [runCaller, snapshots]; exact runCaller_eq_run cfg O K rest c st
  | .call mk :: rest, b, st => by
    simp only [runCaller, snapshots, run]; rw [runCaller_eq_run cfg O K rest b _]

/-- the buffer contents after a caller history -/
def finalBuffer {β : Type} : β → List (Caller β μ ρ) → β
  | b, [] => b
  | _, .refill c :: rest => finalBuffer c rest
  | b, .call _ :: rest => finalBuffer b rest

theorem run_append_outputs (cfg : Cfg) (O : Ops μ ρ) (K : Nat) :
    ∀ (a b : List (Op μ ρ)) (st : State μ ρ),
      (run cfg O K st (a ++ b)).2 = (run cfg O K st a).2 ++ (run cfg O K (run cfg O K st a).1 b).2
  | [], _, _ => rfl
  | op :: a, b, st => by
    simp only [List.cons_append, run, List.cons_append, List.cons.injEq, true_and]
    exact run_append_outputs cfg O K a b _

theorem snapshots_append {β : Type} :
    ∀ (cs more : List (Caller β μ ρ)) (b : β),
      snapshots b (cs ++ more) = snapshots b cs ++ snapshots (finalBuffer b cs) more
  | [], _, _ => rfl
  | .refill c :: rest, more, _ => by
    simp only [List.cons_append, snapshots, finalBuffer]; exact snapshots_append rest more c
  | .call mk :: rest, more, b => by
    simp only [List.cons_append, snapshots, finalBuffer, List.cons.injEq, true_and]
    exact snapshots_append rest more b

end PyPhysim.C10
