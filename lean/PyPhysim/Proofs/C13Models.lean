import PyPhysim.Proofs.C13Policy

/-! # C13 — setter machines, PS7, Okumura–Hata, antenna gain (α = ℝ) -/
set_option linter.unnecessarySeqFocus false
set_option linter.unusedTactic false
set_option linter.unreachableTactic false
namespace PyPhysim.C13
open PyPhysim.Proto

/-! ## PathLossFreeSpace: `_C` is recomputed by every setter -/

/-- the cached constant is consistent with the current exponent and frequency -/
def FsInv (s : GenState ℝ) : Prop := s.C = Gen.fsCalcC s.fc s.n

theorem fsInit_inv (n fc : ℝ) : FsInv (fsInit n fc) := rfl

theorem fsStep_inv {s : GenState ℝ} (h : FsInv s) (o : FsOp ℝ) : FsInv (fsStep s o) := by
  cases o
  · rfl
  · rfl
  · exact h
  · exact h

theorem fsRun_inv {s : GenState ℝ} (h : FsInv s) (ops : List (FsOp ℝ)) : FsInv (fsRun s ops) := by
  induction ops generalizing s with
  | nil => exact h
  | cons o t ih => exact ih (fsStep_inv h o)

theorem fsCalcC_real (fc n : ℝ) :
    Gen.fsCalcC fc n = 10 * n * (Real.logb 10 (fc * 1000000) - 4.377911390697565) := by
  simp only [Gen.fsCalcC, log10_real] <;> gen_nf

/-- the last value written by each kind of setter is the one in force -/
theorem fsRun_append_setN (s : GenState ℝ) (ops : List (FsOp ℝ)) (v : ℝ) :
    (fsRun s (ops ++ [.setN v])).n = v := by
  simp [fsRun, List.foldl_append, fsStep]

theorem fsRun_append_setFc (s : GenState ℝ) (ops : List (FsOp ℝ)) (v : ℝ) :
    (fsRun s (ops ++ [.setFc v])).fc = v := by
  simp [fsRun, List.foldl_append, fsStep]

/-! ## PathLossMetisPS7 -/

theorem ps7LosDb_real (fc d : ℝ) :
    Gen.ps7LosDb fc d = 18.7 * Real.logb 10 d + 46.8 + 20 * Real.logb 10 (fc / 1000 / 5) := by
  simp only [Gen.ps7LosDb, log10_real] <;> gen_nf

theorem ps7NlosDb_real (fc d w : ℝ) :
    Gen.ps7NlosDb fc d w
      = 36.8 * Real.logb 10 d + 43.8 + 20 * Real.logb 10 (fc / 1000 / 5) + 5 * (w - 1) := by
  simp only [Gen.ps7NlosDb, log10_real] <;> gen_nf

theorem ps7_detDb_mono (s : Ps7State ℝ) (nw : Nat) {d₁ d₂ : ℝ} (h₁ : 0 < d₁) (h : d₁ ≤ d₂) :
    s.detDb nw d₁ ≤ s.detDb nw d₂ := by
  have := log10_mono h₁ h
  unfold Ps7State.detDb
  split_ifs
  · rw [ps7LosDb_real, ps7LosDb_real]; nlinarith
  · rw [ps7NlosDb_real, ps7NlosDb_real]; nlinarith

/-- every additional wall adds loss (NLOS) -/
theorem ps7_walls_mono (s : Ps7State ℝ) {w₁ w₂ : Nat} (h₀ : 1 ≤ w₁) (h : w₁ ≤ w₂) (d : ℝ) :
    s.detDb w₁ d ≤ s.detDb w₂ d := by
  unfold Ps7State.detDb
  rw [if_neg (by omega), if_neg (by omega), ps7NlosDb_real, ps7NlosDb_real]
  have : (w₁ : ℝ) ≤ (w₂ : ℝ) := by exact_mod_cast h
  linarith

/-! ## PathLossOkomuraHata -/

/-- the ranges enforced by the guarded setters -/
structure OhInv (s : OhState ℝ) : Prop where
  fc_lo : 150 ≤ s.fc
  fc_hi : s.fc ≤ 1500
  hbs_lo : 30 ≤ s.hbs
  hbs_hi : s.hbs ≤ 200
  hms_lo : 1 ≤ s.hms
  hms_hi : s.hms ≤ 10
  area : s.area ∈ ["open", "suburban", "medium city", "large city"]

theorem ohInit_inv : OhInv (ohInit : OhState ℝ) := by
  constructor <;> simp [ohInit, Gen.ohDefaultFc, Gen.ohDefaultHbs, Gen.ohDefaultHms, Gen.ohDefaultArea] <;> norm_num

theorem ohFcAccepted_iff (v : ℝ) : Gen.ohFcAccepted v = true ↔ 150 ≤ v ∧ v ≤ 1500 := by
  simp only [Gen.ohFcAccepted, Bool.not_eq_true', Bool.or_eq_false_iff, decide_eq_false_iff_not, not_lt]
  norm_num

theorem ohHbsAccepted_iff (v : ℝ) : Gen.ohHbsAccepted v = true ↔ 30 ≤ v ∧ v ≤ 200 := by
  simp only [Gen.ohHbsAccepted, Bool.not_eq_true', Bool.or_eq_false_iff, decide_eq_false_iff_not, not_lt]
  norm_num

theorem ohHmsAccepted_iff (v : ℝ) : Gen.ohHmsAccepted v = true ↔ 1 ≤ v ∧ v ≤ 10 := by
  simp only [Gen.ohHmsAccepted, Bool.not_eq_true', Bool.or_eq_false_iff, decide_eq_false_iff_not, not_lt]
  norm_num

theorem ohAreaAccepted_iff (v : String) :
    Gen.ohAreaAccepted v = true ↔ v ∈ ["open", "suburban", "medium city", "large city"] := by
  simp [Gen.ohAreaAccepted]

theorem ohStep_inv {s : OhState ℝ} (h : OhInv s) (o : OhOp ℝ) : OhInv (ohStep s o).1 := by
  cases o with
  | setFc v =>
    simp only [ohStep]; split_ifs with hv
    · obtain ⟨a, b⟩ := (ohFcAccepted_iff v).1 hv; exact { h with fc_lo := a, fc_hi := b }
    · exact h
  | setHbs v =>
    simp only [ohStep]; split_ifs with hv
    · obtain ⟨a, b⟩ := (ohHbsAccepted_iff v).1 hv; exact { h with hbs_lo := a, hbs_hi := b }
    · exact h
  | setHms v =>
    simp only [ohStep]; split_ifs with hv
    · obtain ⟨a, b⟩ := (ohHmsAccepted_iff v).1 hv; exact { h with hms_lo := a, hms_hi := b }
    · exact h
  | setArea v =>
    simp only [ohStep]; split_ifs with hv
    · exact { h with area := (ohAreaAccepted_iff v).1 hv }
    · exact h
  | setSmall b => exact { h with }
  | setShadow b => exact { h with }

theorem ohRun_inv {s : OhState ℝ} (h : OhInv s) (ops : List (OhOp ℝ)) : OhInv (ohRun s ops) := by
  induction ops generalizing s with
  | nil => exact h
  | cons o t ih => exact ih (ohStep_inv h o)

/-- a rejected value raises and leaves the object untouched; an accepted one is stored -/
theorem ohStep_rejected (s : OhState ℝ) (o : OhOp ℝ) (e : PyErr) (h : (ohStep s o).2 = some e) :
    e = .RuntimeError ∧ (ohStep s o).1 = s := by
  cases o with
  | setSmall b => simp [ohStep] at h
  | setShadow b => simp [ohStep] at h
  | setFc v => simp only [ohStep] at h ⊢; split_ifs at h ⊢ <;> simp_all
  | setHbs v => simp only [ohStep] at h ⊢; split_ifs at h ⊢ <;> simp_all
  | setHms v => simp only [ohStep] at h ⊢; split_ifs at h ⊢ <;> simp_all
  | setArea v => simp only [ohStep] at h ⊢; split_ifs at h ⊢ <;> simp_all

theorem ohDb_real (fc hbs a K d : ℝ) :
    Gen.ohDb fc hbs a K d
      = 69.55 + 26.16 * Real.logb 10 fc - 13.82 * Real.logb 10 hbs - a
        + (44.9 - 6.55 * Real.logb 10 hbs) * Real.logb 10 d - K := by
  simp only [Gen.ohDb, log10_real] <;> gen_nf

/-- the distance slope `44.9 − 6.55·log10(h_bs)` is positive on the whole admissible range -/
theorem oh_slope_pos {hbs : ℝ} (h₀ : 30 ≤ hbs) (h₁ : hbs ≤ 200) :
    0 < (44.9 : ℝ) - 6.55 * Real.logb 10 hbs := by
  have hb : Real.logb 10 hbs ≤ Real.logb 10 1000 := log10_mono (by linarith) (by linarith)
  have h3 : Real.logb 10 1000 = 3 := by
    have : (1000 : ℝ) = (10 : ℝ) ^ (3 : ℝ) := by norm_num
    rw [this, log10_pow10]
  rw [h3] at hb
  nlinarith

theorem oh_detDb_mono {s : OhState ℝ} (hs : OhInv s) (a K : ℝ) {d₁ d₂ : ℝ} (h₁ : 0 < d₁) (h : d₁ ≤ d₂) :
    s.detDb a K d₁ ≤ s.detDb a K d₂ := by
  unfold OhState.detDb
  rw [ohDb_real, ohDb_real]
  have := log10_mono h₁ h
  have sl := oh_slope_pos hs.hbs_lo hs.hbs_hi
  nlinarith

/-- with a valid area type both correction ladders return a value -/
theorem oh_ladders_ok {s : OhState ℝ} (hs : OhInv s) :
    ∃ a K, Gen.ohA s.area s.fc s.hms = .ok a ∧ Gen.ohK s.area s.fc = .ok K := by
  have := hs.area
  simp only [List.mem_cons, List.mem_nil_iff, or_false] at this
  rcases this with h | h | h | h <;> rw [h] <;> simp [Gen.ohA, Gen.ohK] <;>
    (try (split_ifs <;> simp))

theorem oh_dbScalar_eq {s : OhState ℝ} (hs : OhInv s) :
    ∃ a K, ∀ d, s.dbScalar d = scalarDb s.small (s.detDb a K) d ∧
      ∀ ds, s.dbArray ds = arrayDb s.small (s.detDb a K) ds := by
  obtain ⟨a, K, ha, hK⟩ := oh_ladders_ok hs
  refine ⟨a, K, fun d => ⟨?_, fun ds => ?_⟩⟩
  · simp only [OhState.dbScalar, ha, hK]
  · simp only [OhState.dbArray, ha, hK]

/-! ## AntGainBS3GPP25996 -/

theorem minimum_real (a b : ℝ) : minimum a b = min a b := by
  unfold minimum
  split_ifs with h
  · exact (min_eq_right (le_of_lt h)).symm
  · exact (min_eq_left (not_lt.1 h)).symm

theorem antGain_real (g t am x : ℝ) :
    Gen.antGain g t am x = g * (10 : ℝ) ^ (-(min (12 * (x / t) ^ 2) am) / 10) := by
  simp only [Gen.antGain, dB2Linear_real, minimum_real, sq]
  rw [show x / t * (x / t) = (x / t) ^ 2 by ring]
  norm_num

theorem antGain_symm (g t am x : ℝ) : Gen.antGain g t am (-x) = Gen.antGain g t am x := by
  rw [antGain_real, antGain_real, show (-x / t) ^ 2 = (x / t) ^ 2 by ring]

theorem antGain_zero {g t am : ℝ} (ham : 0 ≤ am) : Gen.antGain g t am 0 = g := by
  rw [antGain_real]
  have : min (12 * ((0 : ℝ) / t) ^ 2) am = 0 := by
    rw [zero_div]; norm_num; exact ham
  rw [this]; norm_num

theorem antGain_le_peak {g t am : ℝ} (hg : 0 ≤ g) (ham : 0 ≤ am) (x : ℝ) :
    Gen.antGain g t am x ≤ Gen.antGain g t am 0 := by
  rw [antGain_zero ham, antGain_real]
  have hm : 0 ≤ min (12 * (x / t) ^ 2) am := le_min (by positivity) ham
  have : (10 : ℝ) ^ (-(min (12 * (x / t) ^ 2) am) / 10) ≤ 1 :=
    Real.rpow_le_one_of_one_le_of_nonpos (by norm_num) (by linarith)
  nlinarith

theorem antGain_floor {g t am : ℝ} (hg : 0 ≤ g) (x : ℝ) :
    g * (10 : ℝ) ^ (-am / 10) ≤ Gen.antGain g t am x := by
  rw [antGain_real]
  apply mul_le_mul_of_nonneg_left _ hg
  apply Real.rpow_le_rpow_of_exponent_le (by norm_num)
  have := min_le_right (12 * (x / t) ^ 2) am
  linarith

theorem antGain_at_floor {g t am x : ℝ} (h : am ≤ 12 * (x / t) ^ 2) :
    Gen.antGain g t am x = g * (10 : ℝ) ^ (-am / 10) := by
  rw [antGain_real, min_eq_right h]

/-- decreasing away from boresight -/
theorem antGain_antitone {g t am : ℝ} (hg : 0 ≤ g) {x y : ℝ} (h : |x| ≤ |y|) :
    Gen.antGain g t am y ≤ Gen.antGain g t am x := by
  rw [antGain_real, antGain_real]
  apply mul_le_mul_of_nonneg_left _ hg
  apply Real.rpow_le_rpow_of_exponent_le (by norm_num)
  have hxy : (x / t) ^ 2 ≤ (y / t) ^ 2 := by
    rw [div_pow, div_pow]
    apply div_le_div_of_nonneg_right _ (sq_nonneg t)
    exact sq_le_sq.2 h
  have : min (12 * (x / t) ^ 2) am ≤ min (12 * (y / t) ^ 2) am :=
    min_le_min (by linarith) le_rfl
  linarith

/-- the two sector configurations the constructor accepts -/
theorem antNew_ok {k : Nat} {a : Ant ℝ} (h : antNew k = .ok a) :
    (k = 3 ∨ k = 6) ∧ 0 < a.gain0 ∧ 0 < a.am ∧ 0 < a.theta := by
  unfold antNew Gen.antParams at h
  by_cases h3 : k = 3
  · subst h3
    simp at h; subst h
    exact ⟨Or.inl rfl, dB2Linear_pos _, by norm_num, by norm_num⟩
  · by_cases h6 : k = 6
    · subst h6
      simp at h; subst h
      exact ⟨Or.inr rfl, dB2Linear_pos _, by norm_num, by norm_num⟩
    · simp [h3, h6] at h

theorem antNew_error (k : Nat) (h3 : k ≠ 3) (h6 : k ≠ 6) :
    (antNew k : Except PyErr (Ant ℝ)) = .error .ValueError := by
  simp [antNew, Gen.antParams, h3, h6]

end PyPhysim.C13
