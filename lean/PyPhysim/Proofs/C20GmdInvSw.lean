import Mathlib.Tactic.SplitIfs

/-!
# `gmd` — the transposition of two positions (used by the matrix and the bookkeeping invariant)
-/
namespace PyPhysim.LinAlg.GmdInv

/-- the transposition of `a` and `b` -/
def sw (a b : Nat) (x : Nat) : Nat := if x = b then a else if x = a then b else x

theorem sw_inj (a b x y : Nat) : sw a b x = sw a b y ↔ x = y := by
  unfold sw; split_ifs <;> omega

theorem sw_of_lt (a b x k : Nat) (ha : k < a) (hb : k < b) (hx : x ≤ k) : sw a b x = x := by
  unfold sw; split_ifs <;> omega

theorem sw_of_ge (a b x p : Nat) (ha : a < p) (hb : b < p) (hx : p ≤ x) : sw a b x = x := by
  unfold sw; split_ifs <;> omega

theorem sw_lt (a b x p : Nat) (ha : a < p) (hb : b < p) (hx : x < p) : sw a b x < p := by
  unfold sw; split_ifs <;> omega

theorem sw_gt (a b x k : Nat) (ha : k < a) (hb : k < b) (hx : k < x) : k < sw a b x := by
  unfold sw; split_ifs <;> omega

end PyPhysim.LinAlg.GmdInv
