import Mathlib.LinearAlgebra.Matrix.PosDef
import Mathlib.LinearAlgebra.Matrix.NonsingularInverse
import Mathlib.Analysis.Complex.Order
import PyPhysim.Proofs.C04Bridge

/-!
Zero-forcing / MMSE filter algebra in Mathlib's matrix vocabulary, and the
specification predicates (`FullColRank`, `IsPinv`, `IsSolve`) used by the
property theorems.
-/
set_option linter.unusedSectionVars false
namespace PyPhysim.C04
open Matrix
open scoped ComplexOrder

variable {m n k : Nat}

/-- full column rank of the channel: the Gram matrix `Hᴴ H` is invertible -/
def FullColRank (H : Mat ℂ m n) : Prop := IsUnit ((toM H)ᴴ * toM H)

/-- contract of `np.linalg.pinv`: the four Moore–Penrose conditions -/
structure IsPinv (H : Mat ℂ m n) (G : Mat ℂ n m) : Prop where
  hgh : matMul (matMul H G) H = H
  ghg : matMul (matMul G H) G = G
  hg_herm : cT (matMul H G) = matMul H G
  gh_herm : cT (matMul G H) = matMul G H

/-- contract of `np.linalg.solve(A, B)`: the result `W` satisfies `A · W = B` -/
def IsSolve (A : Mat ℂ n n) (B : Mat ℂ n m) (W : Mat ℂ n m) : Prop := matMul A W = B

namespace Pf

/-- cancel an invertible square factor on the left of rectangular matrices -/
theorem unit_cancel {M : Matrix (Fin n) (Fin n) ℂ} (hu : IsUnit M) {X Y : Matrix (Fin n) (Fin k) ℂ}
    (h : M * X = M * Y) : X = Y := by
  obtain ⟨u, rfl⟩ := hu
  have h2 := congrArg (fun Z => (↑u⁻¹ : Matrix (Fin n) (Fin n) ℂ) * Z) h
  simpa [← Matrix.mul_assoc] using h2

/-- `H G H = H` and full column rank give a left inverse -/
theorem pinv_left_inv (A : Matrix (Fin m) (Fin n) ℂ) (G : Matrix (Fin n) (Fin m) ℂ)
    (hu : IsUnit (Aᴴ * A)) (h1 : A * G * A = A) : G * A = 1 := by
  have e : (Aᴴ * A) * (G * A) = (Aᴴ * A) * 1 := by
    rw [Matrix.mul_one, Matrix.mul_assoc, ← Matrix.mul_assoc A G A, h1]
  exact unit_cancel hu e

/-- the normal-equation form of the pseudo-inverse: `(Hᴴ H) G = Hᴴ` -/
theorem pinv_normal (A : Matrix (Fin m) (Fin n) ℂ) (G : Matrix (Fin n) (Fin m) ℂ)
    (h1 : A * G * A = A) (h3 : (A * G)ᴴ = A * G) : (Aᴴ * A) * G = Aᴴ := by
  calc (Aᴴ * A) * G = Aᴴ * (A * G) := by rw [Matrix.mul_assoc]
    _ = Aᴴ * (A * G)ᴴ := by rw [h3]
    _ = (A * G * A)ᴴ := by rw [conjTranspose_mul (A * G) A]
    _ = Aᴴ := by rw [h1]

/-- the left inverse of a full-column-rank matrix that is a Moore–Penrose inverse is unique -/
theorem pinv_unique (A : Matrix (Fin m) (Fin n) ℂ) (G G' : Matrix (Fin n) (Fin m) ℂ)
    (hu : IsUnit (Aᴴ * A)) (hG : (Aᴴ * A) * G = Aᴴ) (hG' : (Aᴴ * A) * G' = Aᴴ) : G = G' :=
  unit_cancel hu (hG.trans hG'.symm)

/-- `(Hᴴ H) G = Hᴴ` conversely gives all four Moore–Penrose conditions (so the contract
    is satisfiable exactly by `(Hᴴ H)⁻¹ Hᴴ`) -/
theorem normal_gives_pinv (A : Matrix (Fin m) (Fin n) ℂ) (G : Matrix (Fin n) (Fin m) ℂ)
    (hu : IsUnit (Aᴴ * A)) (hG : (Aᴴ * A) * G = Aᴴ) :
    G * A = 1 ∧ (A * G)ᴴ = A * G := by
  have hGA : G * A = 1 := by
    have e : (Aᴴ * A) * (G * A) = (Aᴴ * A) * 1 := by
      rw [← Matrix.mul_assoc, hG, Matrix.mul_one]
    exact unit_cancel hu e
  refine ⟨hGA, ?_⟩
  -- A = Gᴴ (Aᴴ A), hence A G = Gᴴ (Aᴴ A) G is Hermitian
  have hA : A = Gᴴ * (Aᴴ * A) := by
    have h2 := congrArg conjTranspose hG
    simpa [conjTranspose_mul, Matrix.mul_assoc] using h2.symm
  have e2 : A * G = Gᴴ * (Aᴴ * A) * G := by
    conv_lhs => rw [hA]
  rw [e2]
  simp only [conjTranspose_mul, conjTranspose_conjTranspose, Matrix.mul_assoc]

/-- the regularised Gram matrix is positive definite for a positive noise variance -/
theorem mmse_lhs_posDef (A : Matrix (Fin m) (Fin n) ℂ) {s : ℝ} (hs : 0 < s) :
    (Aᴴ * A + (s : ℂ) • (1 : Matrix (Fin n) (Fin n) ℂ)).PosDef := by
  have h1 : (Aᴴ * A).PosSemidef := posSemidef_conjTranspose_mul_self A
  have h2 : ((s : ℂ) • (1 : Matrix (Fin n) (Fin n) ℂ)).PosDef :=
    PosDef.one.smul (by exact_mod_cast hs)
  exact Matrix.PosDef.posSemidef_add h1 h2

theorem mmse_lhs_isUnit (A : Matrix (Fin m) (Fin n) ℂ) {s : ℝ} (hs : 0 < s) :
    IsUnit (Aᴴ * A + (s : ℂ) • (1 : Matrix (Fin n) (Fin n) ℂ)) :=
  (mmse_lhs_posDef A hs).isUnit

/-- `(Hᴴ H + s I)(W_zf − W_mmse) = s W_zf` -/
theorem mmse_sub (A : Matrix (Fin m) (Fin n) ℂ) (G W : Matrix (Fin n) (Fin m) ℂ) (s : ℂ)
    (hG : (Aᴴ * A) * G = Aᴴ) (hW : (Aᴴ * A + s • (1 : Matrix (Fin n) (Fin n) ℂ)) * W = Aᴴ) :
    (Aᴴ * A + s • (1 : Matrix (Fin n) (Fin n) ℂ)) * (G - W) = s • G := by
  rw [Matrix.mul_sub, hW, Matrix.add_mul, hG, Matrix.smul_mul, Matrix.one_mul]
  abel

/-- the MMSE filter applied to the channel: `W H = 1 − s (Hᴴ H + s I)⁻¹` in inverse-free form -/
theorem mmse_mul_channel (A : Matrix (Fin m) (Fin n) ℂ) (W : Matrix (Fin n) (Fin m) ℂ) (s : ℂ)
    (hW : (Aᴴ * A + s • (1 : Matrix (Fin n) (Fin n) ℂ)) * W = Aᴴ) :
    (Aᴴ * A + s • (1 : Matrix (Fin n) (Fin n) ℂ)) * (1 - W * A) = s • 1 := by
  rw [Matrix.mul_sub, ← Matrix.mul_assoc, hW, Matrix.mul_one]
  abel

/-- every full-column-rank matrix has a Moore–Penrose inverse: `(Hᴴ H)⁻¹ Hᴴ` -/
theorem pinv_exists (A : Matrix (Fin m) (Fin n) ℂ) (hu : IsUnit (Aᴴ * A)) :
    ∃ G : Matrix (Fin n) (Fin m) ℂ, A * G * A = A ∧ G * A * G = G ∧ (A * G)ᴴ = A * G ∧ (G * A)ᴴ = G * A := by
  have hdet : IsUnit (Aᴴ * A).det := (Matrix.isUnit_iff_isUnit_det _).mp hu
  refine ⟨(Aᴴ * A)⁻¹ * Aᴴ, ?_⟩
  have hN : (Aᴴ * A) * ((Aᴴ * A)⁻¹ * Aᴴ) = Aᴴ := by
    rw [← Matrix.mul_assoc, Matrix.mul_nonsing_inv _ hdet, Matrix.one_mul]
  obtain ⟨hGA, hH⟩ := normal_gives_pinv A _ hu hN
  refine ⟨?_, ?_, hH, ?_⟩
  · rw [Matrix.mul_assoc, hGA, Matrix.mul_one]
  · rw [hGA, Matrix.one_mul]
  · rw [hGA, conjTranspose_one]

/-- the MMSE system has a solution for every positive noise variance -/
theorem mmse_exists (A : Matrix (Fin m) (Fin n) ℂ) {s : ℝ} (hs : 0 < s) :
    ∃ W : Matrix (Fin n) (Fin m) ℂ, (Aᴴ * A + (s : ℂ) • (1 : Matrix (Fin n) (Fin n) ℂ)) * W = Aᴴ := by
  have hdet := (Matrix.isUnit_iff_isUnit_det _).mp (mmse_lhs_isUnit A hs)
  exact ⟨(Aᴴ * A + (s : ℂ) • (1 : Matrix (Fin n) (Fin n) ℂ))⁻¹ * Aᴴ, by
    rw [← Matrix.mul_assoc, Matrix.mul_nonsing_inv _ hdet, Matrix.one_mul]⟩

end Pf
end PyPhysim.C04
