import PyPhysim.Proofs.C07Loop
import PyPhysim.Proofs.C05Runner

/-! Helper lemmas for C07: `simulate()` over the list of variations — the complete
run against the C05 specification (`simVarsC_spec`) and the disk after any prefix
of its trace (`simVarsC_crash`). -/
namespace PyPhysim.C07

open PyPhysim.C05 (Outcome VarState Keep Stored Saved guard after stateOf freshState IsVarRun RunsSpec logOf)

variable {R T : Type}

section
variable [DecidableEq T]

theorem loadPart_congr (cfg : Cfg R T) (d d' : Disk R T) (i : Nat)
    (h : (d'.part i).main = (d.part i).main) : loadPart cfg d' i = loadPart cfg d i := by
  unfold loadPart; rw [h]

theorem startOf_congr (cfg : Cfg R T) (d d' : Disk R T) (i : Nat)
    (h : (d'.part i).main = (d.part i).main) : startOf cfg d' i = startOf cfg d i := by
  unfold startOf; rw [loadPart_congr cfg d d' i h]

theorem LoadsOk.congr {cfg : Cfg R T} {d d' : Disk R T} {i : Nat} (hl : LoadsOk cfg d i)
    (h : (d'.part i).main = (d.part i).main) : LoadsOk cfg d' i := by
  intro e; rw [loadPart_congr cfg d d' i h]; exact hl e

/-- a file holding a state saved for variation `i` loads as that state -/
theorem loadPart_valid (cfg : Cfg R T) (d : Disk R T) (i : Nat) (s : VarState R)
    (h : (d.part i).main = .valid (partOf cfg i s)) : loadPart cfg d i = .resume s.acc s.rep := by
  unfold loadPart; rw [h]; simp [partOf]

theorem startOf_valid (cfg : Cfg R T) (d : Disk R T) (i : Nat) (s : VarState R)
    (h : (d.part i).main = .valid (partOf cfg i s)) : startOf cfg d i = some (s.acc, s.rep) := by
  unfold startOf; rw [loadPart_valid cfg d i s h]

theorem LoadsOk.of_valid {cfg : Cfg R T} {d : Disk R T} {i : Nat} (s : VarState R)
    (h : (d.part i).main = .valid (partOf cfg i s)) : LoadsOk cfg d i := by
  intro e; rw [loadPart_valid cfg d i s h]; simp

/-- either the load raises and nothing happens, or the variation is described by `VarSpec` -/
theorem runVarC_cases (cfg : Cfg R T) (i : Nat) (d : Disk R T) (c : Clock) (outs : List (Outcome R)) :
    (∃ e, loadPart cfg d i = .error e ∧ runVarC cfg i d c outs = ⟨[], outs, c, .error e⟩) ∨
    (LoadsOk cfg d i ∧ ∃ used,
      VarSpec cfg i (stateOf cfg.merge (startOf cfg d i)) outs (runVarC cfg i d c outs) used ∧
      callLog (runVarC cfg i d c outs).trace = List.replicate used.length i) := by
  cases hld : loadPart cfg d i with
  | error e => left; exact ⟨e, rfl, runVarC_error cfg i d c outs e hld⟩
  | fresh =>
    right
    have hl : LoadsOk cfg d i := by intro e; rw [hld]; simp
    exact ⟨hl, runVarC_spec cfg i d c outs hl⟩
  | resume a n =>
    right
    have hl : LoadsOk cfg d i := by intro e; rw [hld]; simp
    exact ⟨hl, runVarC_spec cfg i d c outs hl⟩

theorem simVarsC_nil (cfg : Cfg R T) (d : Disk R T) (c : Clock) (outs : List (Outcome R)) :
    simVarsC cfg [] d c outs = ⟨[], [], [], outs, c, none⟩ := rfl

theorem simVarsC_cons_error (cfg : Cfg R T) (i : Nat) (is : List Nat) (d : Disk R T) (c : Clock)
    (outs : List (Outcome R)) (e : Err) (h : (runVarC cfg i d c outs).res = .error e) :
    simVarsC cfg (i :: is) d c outs =
      ⟨(runVarC cfg i d c outs).trace, [], [], (runVarC cfg i d c outs).rest,
        (runVarC cfg i d c outs).clock, some e⟩ := by
  rw [simVarsC]; simp only [h]

theorem simVarsC_cons_ok (cfg : Cfg R T) (i : Nat) (is : List Nat) (d : Disk R T) (c : Clock)
    (outs : List (Outcome R)) (st : VarState R) (h : (runVarC cfg i d c outs).res = .ok st) :
    simVarsC cfg (i :: is) d c outs =
      ⟨(runVarC cfg i d c outs).trace ++
          (simVarsC cfg is (d.applyAll (runVarC cfg i d c outs).trace) (runVarC cfg i d c outs).clock
            (runVarC cfg i d c outs).rest).trace,
        ⟨st.acc, st.skipped⟩ ::
          (simVarsC cfg is (d.applyAll (runVarC cfg i d c outs).trace) (runVarC cfg i d c outs).clock
            (runVarC cfg i d c outs).rest).results,
        st.rep ::
          (simVarsC cfg is (d.applyAll (runVarC cfg i d c outs).trace) (runVarC cfg i d c outs).clock
            (runVarC cfg i d c outs).rest).reps,
        (simVarsC cfg is (d.applyAll (runVarC cfg i d c outs).trace) (runVarC cfg i d c outs).clock
            (runVarC cfg i d c outs).rest).rest,
        (simVarsC cfg is (d.applyAll (runVarC cfg i d c outs).trace) (runVarC cfg i d c outs).clock
            (runVarC cfg i d c outs).rest).clock,
        (simVarsC cfg is (d.applyAll (runVarC cfg i d c outs).trace) (runVarC cfg i d c outs).clock
            (runVarC cfg i d c outs).rest).status⟩ := by
  rw [simVarsC]; simp only [h]

end

/-- a trace that only contains events of the variations `is` -/
def OnlyVars (is : List Nat) (t : List (Ev R T)) : Prop :=
  ∀ ev ∈ t, ∃ j ∈ is, ev = .call j ∨ ∃ op, ev = .part j op

theorem OnlyVar.toVars {i : Nat} {is : List Nat} {t : List (Ev R T)} (h : OnlyVar i t) :
    OnlyVars (i :: is) t :=
  fun ev hev => ⟨i, by simp, h ev hev⟩

theorem OnlyVars.cons {i : Nat} {is : List Nat} {t : List (Ev R T)} (h : OnlyVars is t) :
    OnlyVars (i :: is) t :=
  fun ev hev => by obtain ⟨j, hj, h'⟩ := h ev hev; exact ⟨j, by simp [hj], h'⟩

theorem OnlyVars.append {is : List Nat} {a b : List (Ev R T)} (ha : OnlyVars is a) (hb : OnlyVars is b) :
    OnlyVars is (a ++ b) := by
  intro ev h
  rcases List.mem_append.mp h with h | h
  · exact ha ev h
  · exact hb ev h

theorem OnlyVars.nil (is : List Nat) : OnlyVars is ([] : List (Ev R T)) := by intro ev h; simp at h

theorem OnlyVars.prefix {is : List Nat} {a b : List (Ev R T)} (h : OnlyVars is b) (hp : a <+: b) :
    OnlyVars is a :=
  fun ev hev => h ev (hp.subset hev)

theorem OnlyVars.partOps_notMem {is : List Nat} {t : List (Ev R T)} (h : OnlyVars is t) {j : Nat}
    (hj : j ∉ is) : partOps j t = [] := by
  induction t with
  | nil => rfl
  | cons ev t ih =>
    have ht : OnlyVars is t := fun e he => h e (by simp [he])
    obtain ⟨k, hk, hev⟩ := h ev (by simp)
    rcases hev with rfl | ⟨op, rfl⟩
    · simpa [partOps] using ih ht
    · have : ¬ k = j := fun e => hj (e ▸ hk)
      simp [partOps, this, ih ht]

theorem OnlyVars.finOps {is : List Nat} {t : List (Ev R T)} (h : OnlyVars is t) : finOps t = [] := by
  induction t with
  | nil => rfl
  | cons ev t ih =>
    have ht : OnlyVars is t := fun e he => h e (by simp [he])
    obtain ⟨k, _, hev⟩ := h ev (by simp)
    rcases hev with rfl | ⟨op, rfl⟩ <;> simpa [C07.finOps] using ih ht

theorem OnlyVars.part_notMem {is : List Nat} {t : List (Ev R T)} (h : OnlyVars is t) {j : Nat}
    (hj : j ∉ is) (d : Disk R T) : (d.applyAll t).part j = d.part j := by
  rw [Disk.applyAll_part, h.partOps_notMem hj]; rfl

theorem OnlyVars.fin_eq {is : List Nat} {t : List (Ev R T)} (h : OnlyVars is t) (d : Disk R T) :
    (d.applyAll t).fin = d.fin := by
  rw [Disk.applyAll_fin, h.finOps]; rfl

theorem OnlyVars.call_mem {is : List Nat} {t : List (Ev R T)} (h : OnlyVars is t) {j : Nat}
    (hj : Ev.call j ∈ t) : j ∈ is := by
  obtain ⟨k, hk, hev⟩ := h _ hj
  rcases hev with hev | ⟨op, hev⟩
  · cases hev; exact hk
  · cases hev

section
variable [DecidableEq T]

/-- **A complete run of the model against the C05 specification.** -/
theorem simVarsC_spec (cfg : Cfg R T) :
    ∀ (is : List Nat) (d : Disk R T) (c : Clock) (outs : List (Outcome R)), is.Nodup →
      ((∀ i ∈ is, LoadsOk cfg d i) →
          (simVarsC cfg is d c outs).status = none ∨ (simVarsC cfg is d c outs).status = some .Exhausted) ∧
      ((simVarsC cfg is d c outs).status = none →
        ∃ segs sts, RunsSpec cfg.base (startOf cfg d) is segs sts ∧
          outs = segs.flatten ++ (simVarsC cfg is d c outs).rest ∧
          (simVarsC cfg is d c outs).results = sts.map VarState.stored ∧
          (simVarsC cfg is d c outs).reps = sts.map (·.rep) ∧
          callLog (simVarsC cfg is d c outs).trace = logOf is segs ∧
          ∀ j st, (j, st) ∈ is.zip sts →
            ((d.applyAll (simVarsC cfg is d c outs).trace).part j).main = .valid (partOf cfg j st)) ∧
      OnlyVars is (simVarsC cfg is d c outs).trace ∧
      (cfg.mode = .atomic → AllAtomic (simVarsC cfg is d c outs).trace)
  | [], d, c, outs, _ => by
    refine ⟨fun _ => Or.inl rfl, fun _ => ⟨[], [], ?_, ?_, rfl, rfl, rfl, ?_⟩, OnlyVars.nil _, fun _ => AllAtomic.nil⟩
    · simp [RunsSpec]
    · simp [simVarsC_nil]
    · intro j st h; simp at h
  | i :: is, d, c, outs, hnd => by
    have hnd' : is.Nodup := (List.nodup_cons.mp hnd).2
    have hi : i ∉ is := (List.nodup_cons.mp hnd).1
    rcases runVarC_cases cfg i d c outs with ⟨e, hld, hrun⟩ | ⟨hl, used, hs, hcalls⟩
    · -- the load raises: nothing happens
      have hres : (runVarC cfg i d c outs).res = .error e := by rw [hrun]
      rw [simVarsC_cons_error cfg i is d c outs e hres]
      refine ⟨fun hall => absurd hld (hall i (by simp) e), fun h => by simp at h, ?_, fun _ => ?_⟩
      · rw [hrun]; exact OnlyVars.nil _
      · rw [hrun]; exact AllAtomic.nil
    · cases hres : (runVarC cfg i d c outs).res with
      | error e =>
        obtain ⟨he, _⟩ := hs.failed e hres
        rw [simVarsC_cons_error cfg i is d c outs e hres]
        refine ⟨fun _ => Or.inr (by rw [he]), fun h => by simp at h, hs.only.toVars, hs.atomic⟩
      | ok st =>
        rw [simVarsC_cons_ok cfg i is d c outs st hres]
        obtain ⟨ih1, ih2, ih3, ih4⟩ := simVarsC_spec cfg is (d.applyAll (runVarC cfg i d c outs).trace)
          (runVarC cfg i d c outs).clock (runVarC cfg i d c outs).rest hnd'
        have hsame : ∀ j ∈ is, ((d.applyAll (runVarC cfg i d c outs).trace).part j).main = (d.part j).main := by
          intro j hj
          have hji : j ≠ i := fun h => hi (h ▸ hj)
          rw [hs.only.part_ne hji]
        refine ⟨?_, ?_, hs.only.toVars.append ih3.cons, fun hm => (hs.atomic hm).append (ih4 hm)⟩
        · intro hall
          exact ih1 (fun j hj => (hall j (by simp [hj])).congr (hsame j hj))
        · intro hst
          obtain ⟨segs, sts, r1, r2, r3, r4, r5, r6⟩ := ih2 hst
          refine ⟨used :: segs, st :: sts, ?_, ?_, ?_, ?_, ?_, ?_⟩
          · simp only [RunsSpec]
            refine ⟨hs.isVarRun st hres, C05.RunsSpec_congr cfg.base _ _ is segs sts ?_ r1⟩
            intro j hj
            exact startOf_congr cfg d _ j (hsame j hj)
          · rw [List.flatten_cons, List.append_assoc, ← r2, ← hs.split]
          · simp [r3, VarState.stored]
          · simp [r4]
          · rw [callLog_append, hcalls, r5]; rfl
          · intro j st' hmem
            simp only [List.zip_cons_cons, List.mem_cons, Prod.mk.injEq] at hmem
            rw [Disk.applyAll_append]
            rcases hmem with ⟨rfl, rfl⟩ | hmem
            · rw [ih3.part_notMem hi]; exact hs.final_main st' hres d
            · exact r6 j st' hmem

/-! ### the disk after a crash -/

/-- What the partial-results files `m` look like after a run over the variations
    `is` was killed, relative to the files `old` it started from and the segments
    `segs` of the outcome stream the variations consumed: a variation either
    completed (its file holds its final state, and the crash came later), or the
    crash came while it was running (its file is the old one or holds the state after
    a prefix of its segment — or is torn, with the in-place discipline only — and
    no later variation was touched). -/
def CrashSpec (cfg : Cfg R T) (start : Nat → Option (R × Nat)) (old m : Nat → File (Part R T)) :
    List Nat → List (List (Outcome R)) → Prop
  | [], [] => True
  | i :: is, seg :: segs =>
    (∃ st, IsVarRun cfg.merge cfg.repMax (cfg.keep i) (start i) seg st ∧ m i = .valid (partOf cfg i st) ∧
        CrashSpec cfg start old m is segs) ∨
    ((m i = old i ∨ (cfg.mode = .inPlace ∧ m i = .torn) ∨
        ∃ p s, p <+: seg ∧ stateOf cfg.merge (start i) p = some s ∧ m i = .valid (partOf cfg i s) ∧
          ∀ q, q <+: p → q ≠ p → ∀ s', stateOf cfg.merge (start i) q = some s' →
            guard cfg.repMax (cfg.keep i) s' = true) ∧
      (∀ j ∈ is, m j = old j) ∧ segs.length = is.length)
  | _, _ => False

omit [DecidableEq T] in
theorem CrashSpec.congr (cfg : Cfg R T) (start start' : Nat → Option (R × Nat))
    (old old' m m' : Nat → File (Part R T)) :
    ∀ (is : List Nat) (segs : List (List (Outcome R))),
      (∀ j ∈ is, start j = start' j ∧ old j = old' j ∧ m j = m' j) →
      CrashSpec cfg start old m is segs → CrashSpec cfg start' old' m' is segs
  | [], [], _, h => h
  | i :: is, seg :: segs, hc, h => by
    obtain ⟨e1, e2, e3⟩ := hc i (by simp)
    simp only [CrashSpec] at h ⊢
    rcases h with ⟨st, h1, h2, h3⟩ | ⟨h1, h2⟩
    · left
      exact ⟨st, by rw [← e1]; exact h1, by rw [← e3]; exact h2,
        CrashSpec.congr cfg start start' old old' m m' is segs (fun j hj => hc j (by simp [hj])) h3⟩
    · right
      refine ⟨?_, fun j hj => by
        obtain ⟨_, f2, f3⟩ := hc j (by simp [hj]); rw [← f2, ← f3]; exact h2.1 j hj, h2.2⟩
      rw [← e1, ← e2, ← e3]; exact h1
  | [], _ :: _, _, h => by simp [CrashSpec] at h
  | _ :: _, [], _, h => by simp [CrashSpec] at h

omit [DecidableEq T] in
/-- segments for variations that were never reached -/
theorem CrashSpec.untouched (cfg : Cfg R T) (start : Nat → Option (R × Nat)) (old : Nat → File (Part R T)) :
    ∀ (is : List Nat), CrashSpec cfg start old old is (List.replicate is.length [])
  | [] => by simp [CrashSpec]
  | i :: is => by
    simp only [List.length_cons, List.replicate_succ]
    rw [CrashSpec]
    exact Or.inr ⟨Or.inl rfl, fun _ _ => rfl, by simp⟩

theorem flatten_replicate_nil {α : Type} (n : Nat) : (List.replicate n ([] : List α)).flatten = [] := by
  induction n with
  | zero => rfl
  | succ n ih => simp [List.replicate_succ, ih]

omit [DecidableEq T] in
/-- the file of the running variation after a prefix of its trace -/
theorem VarSpec.crash_slot {cfg : Cfg R T} {i : Nat} {start : Option (R × Nat)} {outs : List (Outcome R)}
    {v : VarRun R T} {used : List (Outcome R)}
    (hs : VarSpec cfg i (stateOf cfg.merge start) outs v used) (d : Disk R T) (pre : List (Ev R T))
    (hp : pre <+: v.trace) :
    ((d.applyAll pre).part i).main = (d.part i).main ∨
    (cfg.mode = .inPlace ∧ ((d.applyAll pre).part i).main = .torn) ∨
    ∃ p s, p <+: used ∧ stateOf cfg.merge start p = some s ∧
      ((d.applyAll pre).part i).main = .valid (partOf cfg i s) ∧
      ∀ q, q <+: p → q ≠ p → ∀ s', stateOf cfg.merge start q = some s' →
        guard cfg.repMax (cfg.keep i) s' = true := by
  have hsub : ∀ x ∈ contents (partOps i pre), x ∈ contents (partOps i v.trace) := by
    intro x hx
    obtain ⟨r, hr⟩ := partOps_prefix i hp
    rw [← hr, contents_append]; exact List.mem_append_left _ hx
  have hfound : ∀ x ∈ contents (partOps i pre), ∃ p s, p <+: used ∧ stateOf cfg.merge start p = some s ∧
      x = partOf cfg i s ∧ ∀ q, q <+: p → q ≠ p → ∀ s', stateOf cfg.merge start q = some s' →
        guard cfg.repMax (cfg.keep i) s' = true := by
    intro x hx
    obtain ⟨p, s, hp1, hp2, hp3⟩ := hs.saved x (hsub x hx)
    refine ⟨p, s, hp1, hp2, hp3, ?_⟩
    intro q hq hne s' hs'
    refine hs.running q (hq.trans hp1) ?_ s' hs'
    intro hqu
    have h1 : q.length ≤ p.length := hq.length_le
    have h2 : p.length ≤ used.length := hp1.length_le
    have h0 : q.length = used.length := by rw [hqu]
    have h3 : q.length = p.length := by omega
    exact hne (hq.eq_of_length h3)
  rw [Disk.applyAll_part]
  cases hm : cfg.mode with
  | atomic =>
    have hat := (hs.atomic hm).prefix hp
    rcases Slot.atomic_main (d.part i) (partOps i pre) (hat.partOps i) with h | ⟨x, hx, h⟩
    · left; exact h
    · right; right
      obtain ⟨p, s, h1, h2, h3, h4⟩ := hfound x hx
      exact ⟨p, s, h1, h2, by rw [h, h3], h4⟩
  | inPlace =>
    rcases Slot.any_main (d.part i) (partOps i pre) with h | h | ⟨x, hx, h⟩
    · left; exact h
    · right; left; exact ⟨rfl, h⟩
    · right; right
      obtain ⟨p, s, h1, h2, h3, h4⟩ := hfound x hx
      exact ⟨p, s, h1, h2, by rw [h, h3], h4⟩

/-- **The disk after any crash point of a run** (any prefix of its trace). -/
theorem simVarsC_crash (cfg : Cfg R T) :
    ∀ (is : List Nat) (d : Disk R T) (c : Clock) (outs : List (Outcome R)), is.Nodup →
      ∀ pre, pre <+: (simVarsC cfg is d c outs).trace →
        ∃ segs, segs.flatten <+: outs ∧
          CrashSpec cfg (startOf cfg d) (fun j => (d.part j).main)
            (fun j => ((d.applyAll pre).part j).main) is segs
  | [], d, c, outs, _, pre, hp => ⟨[], List.nil_prefix, by simp [CrashSpec]⟩
  | i :: is, d, c, outs, hnd, pre, hp => by
    have hnd' : is.Nodup := (List.nodup_cons.mp hnd).2
    have hi : i ∉ is := (List.nodup_cons.mp hnd).1
    rcases runVarC_cases cfg i d c outs with ⟨e, hld, hrun⟩ | ⟨hl, used, hs, _⟩
    · have hres : (runVarC cfg i d c outs).res = .error e := by rw [hrun]
      rw [simVarsC_cons_error cfg i is d c outs e hres, hrun] at hp
      have : pre = [] := List.prefix_nil.mp hp
      subst this
      refine ⟨List.replicate (i :: is).length [], by rw [flatten_replicate_nil]; exact List.nil_prefix, ?_⟩
      exact CrashSpec.untouched cfg _ _ (i :: is)
    · -- a crash while variation `i` is running
      have during : ∀ pre, pre <+: (runVarC cfg i d c outs).trace →
          ∃ segs, segs.flatten <+: outs ∧
            CrashSpec cfg (startOf cfg d) (fun j => (d.part j).main)
              (fun j => ((d.applyAll pre).part j).main) (i :: is) segs := by
        intro pre hp
        refine ⟨used :: List.replicate is.length [], ?_, ?_⟩
        · rw [List.flatten_cons, flatten_replicate_nil, List.append_nil, hs.split]
          exact List.prefix_append _ _
        · simp only [CrashSpec]
          right
          refine ⟨hs.crash_slot d pre hp, ?_, by simp⟩
          intro j hj
          have hji : j ≠ i := fun h => hi (h ▸ hj)
          show ((d.applyAll pre).part j).main = (d.part j).main
          rw [(hs.only.prefix hp).part_ne hji]
      cases hres : (runVarC cfg i d c outs).res with
      | error e =>
        rw [simVarsC_cons_error cfg i is d c outs e hres] at hp
        exact during pre hp
      | ok st =>
        rw [simVarsC_cons_ok cfg i is d c outs st hres] at hp
        rcases prefix_append_cases hp with hp | ⟨q, rfl, hq⟩
        · exact during pre hp
        · obtain ⟨segs, g1, g2⟩ := simVarsC_crash cfg is (d.applyAll (runVarC cfg i d c outs).trace)
            (runVarC cfg i d c outs).clock (runVarC cfg i d c outs).rest hnd' q hq
          obtain ⟨_, _, o3, _⟩ := simVarsC_spec cfg is (d.applyAll (runVarC cfg i d c outs).trace)
            (runVarC cfg i d c outs).clock (runVarC cfg i d c outs).rest hnd'
          refine ⟨used :: segs, ?_, ?_⟩
          · rw [List.flatten_cons]
            obtain ⟨r, hr⟩ := g1
            refine ⟨r, ?_⟩
            rw [List.append_assoc, hr, ← hs.split]
          · simp only [CrashSpec]
            left
            refine ⟨st, hs.isVarRun st hres, ?_, ?_⟩
            · show ((d.applyAll _).part i).main = _
              rw [Disk.applyAll_append, (o3.prefix hq).part_notMem hi]
              exact hs.final_main st hres d
            · refine CrashSpec.congr cfg _ _ _ _ _ _ is segs ?_ g2
              intro j hj
              have hji : j ≠ i := fun h => hi (h ▸ hj)
              have hsame : ((d.applyAll (runVarC cfg i d c outs).trace).part j).main = (d.part j).main := by
                rw [hs.only.part_ne hji]
              refine ⟨startOf_congr cfg d _ j hsame, hsame, ?_⟩
              rw [Disk.applyAll_append]

/-- events of other variations and of the final file do not concern a crash spec -/
theorem simVarsC_trace_untouched (cfg : Cfg R T) (is : List Nat) (d : Disk R T) (c : Clock)
    (outs : List (Outcome R)) (hnd : is.Nodup) (pre : List (Ev R T))
    (hp : pre <+: (simVarsC cfg is d c outs).trace) :
    (∀ j, j ∉ is → (d.applyAll pre).part j = d.part j) ∧ (d.applyAll pre).fin = d.fin := by
  obtain ⟨_, _, o3, _⟩ := simVarsC_spec cfg is d c outs hnd
  exact ⟨fun j hj => (o3.prefix hp).part_notMem hj d, (o3.prefix hp).fin_eq d⟩

end

end PyPhysim.C07
