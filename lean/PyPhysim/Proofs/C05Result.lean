import PyPhysim.Proofs.C05Loop
import PyPhysim.Model.C05Result

/-! Helper lemmas for C05: folds of `Result.merge`. -/
namespace PyPhysim.C05

theorem merge_ty (a b : RVal) : (a.merge b).ty = a.ty := by
  unfold RVal.merge; cases a.ty <;> rfl

theorem merge_acc (a b : RVal) : (a.merge b).acc = a.acc := by
  unfold RVal.merge; cases a.ty <;> rfl

theorem merge_vlist (a b : RVal) :
    (a.merge b).vlist = if a.acc then a.vlist ++ b.vlist else a.vlist := by
  unfold RVal.merge; cases a.ty <;> rfl

theorem merge_tlist (a b : RVal) :
    (a.merge b).tlist = if a.acc then a.tlist ++ b.tlist else a.tlist := by
  unfold RVal.merge; cases a.ty <;> rfl

theorem foldl_merge_ty_acc : ∀ (rs : List RVal) (a : RVal),
    (rs.foldl RVal.merge a).ty = a.ty ∧ (rs.foldl RVal.merge a).acc = a.acc
  | [], _ => ⟨rfl, rfl⟩
  | b :: rs, a => by
    simp only [List.foldl_cons]
    obtain ⟨h1, h2⟩ := foldl_merge_ty_acc rs (a.merge b)
    exact ⟨by rw [h1, merge_ty], by rw [h2, merge_acc]⟩

theorem foldl_merge_lists_acc : ∀ (rs : List RVal) (a : RVal), a.acc = true →
    (rs.foldl RVal.merge a).vlist = a.vlist ++ rs.flatMap (·.vlist) ∧
    (rs.foldl RVal.merge a).tlist = a.tlist ++ rs.flatMap (·.tlist)
  | [], a, _ => by simp
  | b :: rs, a, h => by
    simp only [List.foldl_cons, List.flatMap_cons]
    obtain ⟨h1, h2⟩ := foldl_merge_lists_acc rs (a.merge b) (by rw [merge_acc]; exact h)
    rw [h1, h2, merge_vlist, merge_tlist]
    simp [h, List.append_assoc]

theorem foldl_merge_lists_noacc : ∀ (rs : List RVal) (a : RVal), a.acc = false →
    (rs.foldl RVal.merge a).vlist = a.vlist ∧ (rs.foldl RVal.merge a).tlist = a.tlist
  | [], a, _ => by simp
  | b :: rs, a, h => by
    simp only [List.foldl_cons]
    obtain ⟨h1, h2⟩ := foldl_merge_lists_noacc rs (a.merge b) (by rw [merge_acc]; exact h)
    rw [h1, h2, merge_vlist, merge_tlist]
    simp [h]

theorem merge_scalars_add (a b : RVal) (h : a.ty ≠ .misc) :
    (a.merge b).n = a.n + b.n ∧ (a.merge b).value = a.value + b.value ∧
    (a.merge b).total = a.total + b.total ∧ (a.merge b).rsum = a.rsum + b.rsum ∧
    (a.merge b).rsq = a.rsq + b.rsq ∧
    (a.merge b).choice = List.zipWith (· + ·) a.choice b.choice := by
  unfold RVal.merge
  cases hty : a.ty <;> simp_all

theorem merge_scalars_misc (a b : RVal) (h : a.ty = .misc) :
    (a.merge b).n = b.n ∧ (a.merge b).value = b.value ∧ (a.merge b).total = b.total ∧
    (a.merge b).rsum = b.rsum ∧ (a.merge b).rsq = b.rsq := by
  unfold RVal.merge
  simp [h]

theorem foldl_merge_counts : ∀ (rs : List RVal) (a : RVal), a.ty ≠ .misc →
    (rs.foldl RVal.merge a).n = a.n + (rs.map (·.n)).sum ∧
    (rs.foldl RVal.merge a).value = a.value + (rs.map (·.value)).sum ∧
    (rs.foldl RVal.merge a).total = a.total + (rs.map (·.total)).sum
  | [], a, _ => by simp
  | b :: rs, a, h => by
    simp only [List.foldl_cons, List.map_cons, List.sum_cons]
    obtain ⟨h1, h2, h3⟩ := foldl_merge_counts rs (a.merge b) (by rw [merge_ty]; exact h)
    obtain ⟨m1, m2, m3, _⟩ := merge_scalars_add a b h
    rw [h1, h2, h3, m1, m2, m3]
    refine ⟨by omega, by omega, by omega⟩

theorem foldl_merge_misc_last (rs : List RVal) (l a : RVal) (h : a.ty = .misc) :
    ((rs ++ [l]).foldl RVal.merge a).value = l.value ∧ ((rs ++ [l]).foldl RVal.merge a).n = l.n ∧
    ((rs ++ [l]).foldl RVal.merge a).total = l.total := by
  rw [List.foldl_append]
  simp only [List.foldl_cons, List.foldl_nil]
  have hty : (rs.foldl RVal.merge a).ty = .misc := by rw [(foldl_merge_ty_acc rs a).1]; exact h
  obtain ⟨m1, m2, m3, _⟩ := merge_scalars_misc (rs.foldl RVal.merge a) l hty
  exact ⟨m2, m1, m3⟩

end PyPhysim.C05
