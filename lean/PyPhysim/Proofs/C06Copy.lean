import PyPhysim.Proofs.C06Heap

/-! C06: `merge_all_results` into an empty object yields a deep copy of the operand. -/
namespace PyPhysim.C06M
open PyPhysim.Proto

/-- list address and element addresses of a dictionary entry are allocated -/
def ValidEntry (m : Mach) (e : String × Nat) : Prop :=
  e.2 < m.lists.length ∧ ∀ a ∈ listAt m e.2, a < m.res.length

theorem viewList_frame {s : Nat} {m m' : Mach} (hf : Frame (fun _ => False) s m m') {e : String × Nat}
    (hv : ValidEntry m e) : viewList m' e.2 = viewList m e.2 := by
  simp only [viewList, hf.listAt hv.1]
  apply filterMap_congr'
  intro a ha
  exact hf.res a (hv.2 a ha) (fun h => h)

theorem validEntry_frame {s : Nat} {m m' : Mach} (hf : Frame (fun _ => False) s m m') {e : String × Nat}
    (hv : ValidEntry m e) : ValidEntry m' e :=
  ⟨Nat.lt_of_lt_of_le hv.1 hf.listsLen, fun a ha => by
    rw [hf.listAt hv.1] at ha
    exact Nat.lt_of_lt_of_le (hv.2 a ha) hf.resLen⟩

/-- the copies denote the same results and are allocated -/
theorem copyElems_view (m : Mach) (as : List Nat) (hv : ∀ a ∈ as, a < m.res.length) :
    (copyElems m as).2.filterMap (fun a => (copyElems m as).1.res[a]?) = as.filterMap (fun a => m.res[a]?)
      ∧ ∀ a ∈ (copyElems m as).2, a < (copyElems m as).1.res.length := by
  induction as generalizing m with
  | nil => simp [copyElems]
  | cons a rest ih =>
    have ha : a < m.res.length := hv a (by simp)
    obtain ⟨r, hr⟩ : ∃ r, m.res[a]? = some r := ⟨m.res[a], List.getElem?_eq_getElem ha⟩
    simp only [copyElems, hr]
    have hv1 : ∀ a' ∈ rest, a' < (allocRes m r).1.res.length := fun a' h' => by
      have := hv a' (by simp [h']); simp [allocRes]; omega
    obtain ⟨i1, i2⟩ := ih (allocRes m r).1 hv1
    obtain ⟨f1, _, _, _⟩ := copyElems_spec (allocRes m r).1 rest
    have hnew : (copyElems (allocRes m r).1 rest).1.res[(allocRes m r).2]? = some r := by
      show (copyElems (allocRes m r).1 rest).1.res[m.res.length]? = some r
      rw [f1.res m.res.length (by simp [allocRes]) (fun h => h)]
      simp [allocRes]
    constructor
    · simp only [List.filterMap_cons, hnew, hr]
      congr 1
      rw [i1]
      apply filterMap_congr'
      intro a' h'
      simp only [allocRes]
      exact List.getElem?_append_left (hv a' (by simp [h']))
    · intro a' h'
      rcases List.mem_cons.mp h' with e | e
      · subst e
        have := f1.resLen; simp [allocRes] at this ⊢; omega
      · exact i2 a' e

theorem dictSet_append {d : Dict} {k : String} {l : Nat} (h : dictGet? d k = none) :
    dictSet d k l = d ++ [(k, l)] := by
  induction d with
  | nil => rfl
  | cons e rest ih =>
    obtain ⟨k', l'⟩ := e
    simp only [dictGet?] at h
    split at h
    · cases h
    · rename_i hne
      simp [dictSet, hne, ih h]

theorem dictGet?_append_none {d : Dict} {k k' : String} {l : Nat} (h : dictGet? d k = none) (hne : k' ≠ k) :
    dictGet? (d ++ [(k', l)]) k = none := by
  induction d with
  | nil => simp [dictGet?, hne]
  | cons e rest ih =>
    obtain ⟨k2, l2⟩ := e
    simp only [dictGet?] at h
    split at h
    · cases h
    · rename_i hne2
      simp [dictGet?, hne2, ih h]

/-- the copying loop appends one entry per entry of the operand, denoting the same results -/
theorem copyDict_view (s : Nat) (d : Dict) (m : Mach) (hs : s < m.sims.length)
    (hvs : ∀ e ∈ dictOf m s, ValidEntry m e) (hvd : ∀ e ∈ d, ValidEntry m e)
    (hnew : ∀ e ∈ d, dictGet? (dictOf m s) e.1 = none) (hnd : (d.map (·.1)).Nodup) :
    view (copyDict s m d) s = view m s ++ d.map (fun e => (e.1, viewList m e.2)) := by
  induction d generalizing m with
  | nil => simp [copyDict]
  | cons e rest ih =>
    obtain ⟨nm, l⟩ := e
    have hve : ValidEntry m (nm, l) := hvd _ (by simp)
    obtain ⟨c1, c2, c3, c4⟩ := copyElems_spec m (listAt m l)
    obtain ⟨w1, w2⟩ := copyElems_view m (listAt m l) hve.2
    unfold copyDict
    generalize hce : copyElems m (listAt m l) = ce at c1 c2 c3 c4 w1 w2
    obtain ⟨m1, cs⟩ := ce
    simp only at c1 c2 c3 c4 w1 w2 ⊢
    have hfr : Frame (fun _ => False) s m m1 := { c1 with sims := fun j _ => by rw [c3] }
    have hs2 : s < (allocList m1 cs).1.sims.length := by simp [allocList, c3]; exact hs
    have hd2 : dictOf (allocList m1 cs).1 s = dictOf m s := by simp [dictOf, allocList, c3]
    have hl' : (allocList m1 cs).2 = m.lists.length := by simp [allocList, c2]
    set m3 := setDict (allocList m1 cs).1 s (dictSet (dictOf (allocList m1 cs).1 s) nm (allocList m1 cs).2)
      with hm3
    have hstep : Frame (fun _ => False) s m m3 :=
      (hfr.trans (frame_allocList _ _ m1 cs)).trans (frame_setDict _ _ _ _)
    have hdict3 : dictOf m3 s = dictOf m s ++ [(nm, m.lists.length)] := by
      rw [hm3, dictOf_setDict _ _ _ hs2, hd2, hl', dictSet_append (hnew (nm, l) (by simp))]
    have hlist3 : listAt m3 m.lists.length = cs := by
      simp [hm3, listAt, setDict, allocList, c2]
    have hres3 : m3.res = m1.res := by simp [hm3, setDict, allocList]
    have hnewentry : ValidEntry m3 (nm, m.lists.length) := by
      refine ⟨by simp [hm3, setDict, allocList, c2], fun a ha => ?_⟩
      rw [hlist3] at ha; rw [hres3]; exact w2 a ha
    have hview_new : viewList m3 m.lists.length = viewList m l := by
      simp only [viewList, hlist3, hres3]; exact w1
    -- induction hypothesis on the rest
    have hnd' : nm ∉ rest.map (·.1) ∧ (rest.map (·.1)).Nodup := List.nodup_cons.mp hnd
    have hnm_rest : ∀ e ∈ rest, e.1 ≠ nm := fun e he heq =>
      hnd'.1 (by rw [← heq]; exact List.mem_map_of_mem he)
    rw [ih m3 (by simpa [hm3, setDict] using hs2)
      (by
        intro e he
        rw [hdict3] at he
        rcases List.mem_append.mp he with h | h
        · exact validEntry_frame hstep (hvs e h)
        · simp at h; subst h; exact hnewentry)
      (fun e he => validEntry_frame hstep (hvd e (by simp [he])))
      (by
        intro e he
        rw [hdict3]
        exact dictGet?_append_none (hnew e (by simp [he])) (hnm_rest e he).symm)
      hnd'.2]
    -- put the pieces together
    simp only [view, hdict3, List.map_append, List.map_cons, List.map_nil, List.append_assoc,
      List.singleton_append, hview_new]
    congr 1
    · apply List.map_congr_left
      intro e he
      rw [viewList_frame hstep (hvs e he)]
    · congr 1
      apply List.map_congr_left
      intro e he
      rw [viewList_frame hstep (hvd e (by simp [he]))]

/-- **merging into an empty object copies the operand** (repaired source) -/
theorem mergeAll_empty_view (m : Mach) (s o : Nat) (hs : s < m.sims.length) (ho : o < m.sims.length)
    (hempty : dictOf m s = []) (hvo : ∀ e ∈ dictOf m o, ValidEntry m e)
    (hnd : ((dictOf m o).map (·.1)).Nodup) :
    (mergeAll m s o).2 = none ∧ view (mergeAll m s o).1 s = view m o := by
  simp only [mergeAll, hs, ho, and_self, if_true, hempty, true_and]
  rw [copyDict_view s (dictOf m o) m hs (by rw [hempty]; intro e he; cases he) hvo
    (by rw [hempty]; intro e _; rfl) hnd]
  simp [view, hempty]

end PyPhysim.C06M

namespace PyPhysim.C06M

theorem mem_dedupNat (l : List Nat) (a : Nat) : a ∈ dedupNat l ↔ a ∈ l := by
  induction l with
  | nil => simp [dedupNat]
  | cons x xs ih =>
    simp only [dedupNat]
    split
    · rename_i h
      rw [ih]
      constructor
      · exact fun h' => List.mem_cons_of_mem _ h'
      · intro h'
        rcases List.mem_cons.mp h' with e | e
        · subst e; exact (ih).mp h |> fun _ => (mem_dedupNat_aux xs a h ih)
        · exact e
    · simp [ih]
where
  mem_dedupNat_aux (xs : List Nat) (a : Nat) (h : a ∈ dedupNat xs) (ih : a ∈ dedupNat xs ↔ a ∈ xs) : a ∈ xs :=
    ih.mp h

theorem getElem?_posOf {a : Nat} {l : List Nat} (h : a ∈ l) : l[posOf a l]? = some a := by
  induction l with
  | nil => cases h
  | cons x xs ih =>
    simp only [posOf]
    split
    · rename_i e; simp [e]
    · rename_i e
      rcases List.mem_cons.mp h with e' | e'
      · exact absurd e'.symm e
      · simpa using ih e'

theorem getElem?_filterMap_of_isSome {α β} (g : α → Option β) (l : List α) (h : ∀ a ∈ l, (g a).isSome)
    (i : Nat) : (l.filterMap g)[i]? = (l[i]?).bind g := by
  induction l generalizing i with
  | nil => simp
  | cons x xs ih =>
    obtain ⟨y, hy⟩ := Option.isSome_iff_exists.mp (h x (by simp))
    simp only [List.filterMap_cons, hy]
    cases i with
    | zero => simp [hy]
    | succ i => simpa using ih (fun a ha => h a (by simp [ha])) i

end PyPhysim.C06M
