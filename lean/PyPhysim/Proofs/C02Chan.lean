import PyPhysim.Proofs.C02Dft

/-!
C02 — the SISO tapped-delay-line channel as a sum of delayed copies, and
`cp_makes_circular`: on the FFT window of every OFDM symbol the linear
convolution with a channel whose memory does not exceed the cyclic prefix is a
circular convolution of that symbol alone.
-/
set_option linter.unusedSectionVars false
namespace PyPhysim.C02
open PyPhysim.Proto Finset

variable {K : Type} [Field K]

/-! ### `out[d:d+n] += xs` -/

theorem addAt_length (out : List K) (d : ℕ) (xs : List K) : (addAt out d xs).length = out.length := by
  induction out generalizing d with
  | nil => cases d <;> simp [addAt]
  | cons o out ih =>
    cases d with
    | zero => simp [addAt]; omega
    | succ d => simp [addAt, ih]

theorem getD_zero_of_le (l : List K) (m : ℕ) (h : l.length ≤ m) : l.getD m 0 = 0 := by
  simp [List.getD_eq_getElem?_getD, List.getElem?_eq_none h]

theorem addAt_getD (out : List K) (d : ℕ) (xs : List K) (m : ℕ) (h : d + xs.length ≤ out.length) :
    (addAt out d xs).getD m 0 = out.getD m 0 + (if d ≤ m then xs.getD (m - d) 0 else 0) := by
  induction out generalizing d m with
  | nil =>
    have hx : xs = [] := List.eq_nil_of_length_eq_zero (by
      have := h; simp only [List.length_nil] at this; omega)
    subst hx
    cases d <;> simp [addAt]
  | cons o out ih =>
    cases d with
    | zero =>
      simp only [addAt, Nat.zero_le, if_true, Nat.sub_zero]
      by_cases hm : m < (o :: out).length
      · have hl : m < (List.zipWith (· + ·) (o :: out)
            (xs ++ List.replicate ((o :: out).length - xs.length) 0)).length := by
          simp [List.length_zipWith]; simp at h hm; omega
        rw [List.getD_eq_getElem?_getD, List.getElem?_eq_getElem hl, List.getElem_zipWith]
        simp only [Option.getD_some]
        rw [List.getD_eq_getElem?_getD, List.getElem?_eq_getElem hm]
        simp only [Option.getD_some]
        congr 1
        rw [List.getElem_append]
        split
        · rename_i hlt
          rw [List.getD_eq_getElem?_getD, List.getElem?_eq_getElem hlt]; rfl
        · rename_i hge
          rw [List.getElem_replicate, getD_zero_of_le _ _ (by omega)]
      · have hm' : (o :: out).length ≤ m := by omega
        rw [getD_zero_of_le _ _ (by rw [List.length_zipWith]; simp; simp at hm' h; omega),
          getD_zero_of_le _ _ hm', getD_zero_of_le _ _ (by simp at h hm'; omega)]
        simp
    | succ d =>
      simp only [addAt]
      cases m with
      | zero => simp
      | succ m =>
        simp only [List.getD_cons_succ]
        rw [ih d m (by simp at h; omega)]
        congr 1
        by_cases hdm : d ≤ m
        · rw [if_pos hdm, if_pos (by omega)]; congr 1; omega
        · rw [if_neg hdm, if_neg (by omega)]

/-! ### `corrupt_data` as a sum of delayed copies -/

theorem foldl_addAt_length (tv : List (ℕ × List K)) (x out : List K) :
    (tv.foldl (fun out dv => addAt out dv.1 (List.zipWith (· * ·) dv.2 x)) out).length = out.length := by
  induction tv generalizing out with
  | nil => rfl
  | cons dv t ih => simp only [List.foldl_cons]; rw [ih, addAt_length]

theorem foldl_addAt_getD (tv : List (ℕ × List K)) (x out : List K)
    (h : ∀ dv ∈ tv, dv.1 + (List.zipWith (· * ·) dv.2 x).length ≤ out.length) (m : ℕ) :
    (tv.foldl (fun out dv => addAt out dv.1 (List.zipWith (· * ·) dv.2 x)) out).getD m 0
      = out.getD m 0
        + (tv.map (fun dv => if dv.1 ≤ m then (List.zipWith (· * ·) dv.2 x).getD (m - dv.1) 0 else 0)).sum := by
  induction tv generalizing out with
  | nil => simp
  | cons dv t ih =>
    simp only [List.foldl_cons, List.map_cons, List.sum_cons]
    rw [ih _ (by intro e he; rw [addAt_length]; exact h e (by simp [he])),
      addAt_getD _ _ _ _ (h dv (by simp))]
    ring

theorem zipWith_replicate_getD (n : ℕ) (v : K) (x : List K) (hx : x.length = n) (i : ℕ) :
    (List.zipWith (· * ·) (List.replicate n v) x).getD i 0 = v * x.getD i 0 := by
  by_cases hi : i < n
  · have h1 : i < (List.zipWith (· * ·) (List.replicate n v) x).length := by simp [hx, hi]
    rw [List.getD_eq_getElem?_getD, List.getElem?_eq_getElem h1, List.getElem_zipWith,
      List.getD_eq_getElem?_getD, List.getElem?_eq_getElem (by omega : i < x.length)]
    simp
  · rw [getD_zero_of_le _ _ (by simp [hx]; omega), getD_zero_of_le _ _ (by omega)]
    simp

/-- a time-invariant impulse response: tap `i` has the same value `gains[i]` at every one of the
    `ns` samples -/
def staticIR (delays : List ℕ) (gains : List K) (ns : ℕ) : ImpulseResponse K :=
  ⟨delays, gains.map (List.replicate ns), ns⟩

/-- the channel output for a time-invariant impulse response is the linear convolution
    `z[m] = Σ_i g_i · x[m - d_i]` -/
theorem corrupt_static_getD (delays : List ℕ) (gains : List K) (x : List K) (M : ℕ)
    (hM : delays.getLast? = some M) (hd : ∀ d ∈ delays, d ≤ M) (z : List K)
    (hz : corrupt (staticIR delays gains x.length) x = .ok z) (m : ℕ) :
    z.length = x.length + M ∧
    z.getD m 0 = ((delays.zip gains).map (fun dg => if dg.1 ≤ m then dg.2 * x.getD (m - dg.1) 0 else 0)).sum := by
  unfold corrupt ImpulseResponse.memory staticIR at hz
  simp only [hM] at hz
  cases hz
  constructor
  · rw [foldl_addAt_length]; simp
  · rw [foldl_addAt_getD]
    · rw [List.zip_map_right, List.map_map]
      have h0 : (List.replicate (x.length + M) (0 : K)).getD m 0 = 0 := by
        simp only [List.getD_eq_getElem?_getD, List.getElem?_replicate]
        split <;> rfl
      rw [h0, zero_add]
      congr 1
      apply List.map_congr_left
      intro dg _
      simp only [Function.comp, Prod.map_fst, Prod.map_snd, id]
      rw [zipWith_replicate_getD _ _ _ rfl]
    · intro dv hdv
      rw [List.zip_map_right] at hdv
      obtain ⟨dg, hdg, rfl⟩ := List.mem_map.mp hdv
      have hd1 := hd dg.1 (List.of_mem_zip hdg).1
      simp only [Prod.map_fst, Prod.map_snd, id, List.length_zipWith, List.length_replicate,
        Nat.min_self]
      omega

/-! ### the cyclic prefix turns the linear convolution into a circular one -/

theorem addCP_getD (C : ℕ) (t : List K) (hC : C ≤ t.length) (q : ℕ) (hq : q < t.length + C) :
    (addCP C t).getD q 0 = t.getD ((q + t.length - C) % t.length) 0 := by
  have hN : 0 < t.length := by omega
  unfold addCP
  split
  · simp only [List.getD_eq_getElem?_getD, List.getElem?_append, List.length_drop]
    have e : t.length - (t.length - C) = C := by omega
    rw [e]
    split
    · rename_i hlt
      rw [List.getElem?_drop, Nat.mod_eq_of_lt (by omega)]
      congr 2; omega
    · rename_i hge
      have e2 : q + t.length - C = (q - C) + t.length := by omega
      rw [e2, Nat.add_mod_right, Nat.mod_eq_of_lt (by omega)]
  · have e : C = 0 := by omega
    subst e
    rw [Nat.sub_zero, Nat.add_mod_right, Nat.mod_eq_of_lt (by omega)]

/-- sample `q` of block `r` of the emitted stream is sample `(q - C) mod N` of symbol `r` -/
theorem stream_getD (N C : ℕ) (ts : List (List K)) (hts : ∀ t ∈ ts, t.length = N) (hC : C ≤ N)
    (r q : ℕ) (hr : r < ts.length) (hq : q < N + C) :
    ((ts.map (addCP C)).flatten).getD (r * (N + C) + q) 0
      = (ts.getD r []).getD ((q + N - C) % N) 0 := by
  have hrow : ∀ b ∈ ts.map (addCP C), b.length = N + C := by
    intro b hb
    obtain ⟨t, ht, rfl⟩ := List.mem_map.mp hb
    rw [addCP_length _ _ (by rw [hts t ht]; exact hC), hts t ht]
  have htr : (ts[r]).length = N := hts _ (List.getElem_mem hr)
  rw [List.getD_eq_getElem?_getD, getElem?_flatten_uniform _ _ hrow r q hq, List.getElem?_map,
    List.getElem?_eq_getElem hr]
  simp only [Option.map_some, Option.bind_some]
  rw [← List.getD_eq_getElem?_getD, addCP_getD _ _ (by rw [htr]; exact hC) _ (by rw [htr]; exact hq), htr]
  congr 1
  simp [List.getD_eq_getElem?_getD, List.getElem?_eq_getElem hr]

/-- **cp_makes_circular**: after a time-invariant channel with memory `M ≤ C`, sample `n` of the
    FFT window of OFDM symbol `r` is `Σ_i g_i · t_r[(n - d_i) mod N]`: the circular convolution
    of symbol `r` alone (no inter-symbol interference) -/
theorem cp_makes_circular' (N C : ℕ) (hC : C ≤ N) (ts : List (List K))
    (hts : ∀ t ∈ ts, t.length = N) (delays : List ℕ) (gains : List K) (M : ℕ)
    (hM : delays.getLast? = some M) (hd : ∀ d ∈ delays, d ≤ M) (hMC : M ≤ C) (z : List K)
    (hz : corrupt (staticIR delays gains ((ts.map (addCP C)).flatten).length)
        ((ts.map (addCP C)).flatten) = .ok z)
    (r n : ℕ) (hr : r < ts.length) (hn : n < N) :
    z.getD (r * (N + C) + C + n) 0
      = ((delays.zip gains).map (fun dg => dg.2 * (ts.getD r []).getD ((n + N - dg.1) % N) 0)).sum := by
  rw [(corrupt_static_getD delays gains _ M hM hd z hz _).2]
  congr 1
  apply List.map_congr_left
  intro dg hdg
  have hd1 := hd dg.1 (List.of_mem_zip hdg).1
  rw [if_pos (by omega)]
  have e : r * (N + C) + C + n - dg.1 = r * (N + C) + (C + n - dg.1) := by omega
  rw [e, stream_getD N C ts hts hC r _ hr (by omega)]
  congr 3
  omega

end PyPhysim.C02
