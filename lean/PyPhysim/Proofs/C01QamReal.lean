import Mathlib.Analysis.SpecialFunctions.Sqrt
import Mathlib.Tactic.FieldSimp
import Mathlib.Tactic.Positivity
import PyPhysim.Proofs.C01Qam
import PyPhysim.Proofs.C01Psk

/-! Scaled QAM constellation over ℝ: distinct points, total energy `L²` (unit mean). -/
namespace PyPhysim.C01
open List

/-- the scaling constant `sqrt((M-1)·2/3)` squared -/
theorem qam_scale_sq (L : Nat) (hL : 2 ≤ L) :
    (Real.sqrt ((((L * L - 1 : Nat) : ℝ) * ((2 : Nat) : ℝ)) / ((3 : Nat) : ℝ))) ^ 2
      = (((L:ℝ) * L - 1) * 2) / 3 := by
  have h1 : 1 ≤ L * L := by nlinarith
  rw [Real.sq_sqrt]
  · push_cast [Nat.cast_sub h1]; ring
  · positivity

theorem qam_scale_pos (L : Nat) (hL : 2 ≤ L) :
    0 < Real.sqrt ((((L * L - 1 : Nat) : ℝ) * ((2 : Nat) : ℝ)) / ((3 : Nat) : ℝ)) := by
  apply Real.sqrt_pos.mpr
  have h1 : 1 ≤ L * L := by nlinarith
  have h2 : (0:ℝ) < ((L * L - 1 : Nat) : ℝ) := by
    have : 0 < L * L - 1 := by
      have : 4 ≤ L * L := by nlinarith
      omega
    exact_mod_cast this
  positivity

theorem qam_natural_nodup (L : Nat) (hL : 2 ≤ L) : (qamNatural (α := ℝ) L).Nodup := by
  unfold qamNatural
  have he := qam_scale_pos L hL
  simp only [Trig.sqrt] at *
  apply List.Nodup.map_on _ (qam_grid_nodup L)
  intro a _ b _ hab
  simp only [Prod.mk.injEq] at hab
  obtain ⟨h1, h2⟩ := hab
  have hne := ne_of_gt he
  have e1 : ((a.1 : Int) : ℝ) = ((b.1 : Int) : ℝ) := by
    field_simp at h1; exact h1
  have e2 : ((a.2 : Int) : ℝ) = ((b.2 : Int) : ℝ) := by
    field_simp at h2; exact h2
  ext
  · exact_mod_cast e1
  · exact_mod_cast e2

theorem sum_map_div_sq (l : List (Int × Int)) (e : ℝ) :
    ((l.map (fun g => (((g.1 : Int) : ℝ) / e, ((g.2 : Int) : ℝ) / e))).map
        (fun p => p.1 ^ 2 + p.2 ^ 2)).sum
      = (((l.map (fun p => p.1 * p.1 + p.2 * p.2)).sum : Int) : ℝ) / e ^ 2 := by
  induction l with
  | nil => simp
  | cons g gs ih =>
    simp only [List.map_cons, List.sum_cons, ih]
    push_cast
    by_cases he : e = 0
    · subst he; simp
    · field_simp

/-- total energy of the scaled grid is `L²`, i.e. unit mean energy over the `M = L²` points -/
theorem qam_natural_energy (L : Nat) (hL : 2 ≤ L) :
    ((qamNatural (α := ℝ) L).map (fun p => p.1 ^ 2 + p.2 ^ 2)).sum = (L:ℝ) * L := by
  unfold qamNatural
  simp only [Trig.sqrt]
  rw [sum_map_div_sq, qam_scale_sq L hL]
  have hE := qam_energy L
  unfold qamGridEnergy at hE
  have hE' : (3:ℝ) * (((qamGrid L).map (fun p => p.1 * p.1 + p.2 * p.2)).sum : Int)
      = 2 * ((L:ℝ) * L) * ((L:ℝ) * L - 1) := by exact_mod_cast hE
  have hpos : (0:ℝ) < (L:ℝ) * L - 1 := by
    have : (2:ℝ) ≤ L := by exact_mod_cast hL
    nlinarith
  generalize (((qamGrid L).map (fun p => p.1 * p.1 + p.2 * p.2)).sum : Int) = S at hE'
  have h3 : ((S:ℝ)) = 2 * ((L:ℝ) * L) * ((L:ℝ) * L - 1) / 3 := by linarith
  rw [h3]
  have hne : (L:ℝ) ^ 2 - 1 ≠ 0 := by
    have : (L:ℝ) ^ 2 - 1 = (L:ℝ) * L - 1 := by ring
    rw [this]; exact ne_of_gt hpos
  field_simp

end PyPhysim.C01
