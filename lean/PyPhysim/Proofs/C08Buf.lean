/-
C08 — helper lemmas for the robustness classes R15 (distinct values that are merely close) and R16
(argument identity and buffer reuse).  Core Lean only.
-/
import PyPhysim.Proofs.C08
import PyPhysim.Model.C08Buf

namespace PyPhysim.C08
open PyPhysim.Proto

section Close
variable {α : Type} [Add α] [Mul α] [Zero α]

theorem setPLCheck_congr (cfg : Cfg) {a b : State α} (h1 : a.isExt = b.isExt) (h2 : a.k = b.k)
    (h3 : a.extK = b.extK) (q : Option (Mat α)) (qe : Mat α) :
    setPLCheck cfg a q qe = setPLCheck cfg b q qe := by
  unfold setPLCheck State.userK
  rw [h1, h2, h3]

theorem setPLCheck_doSetPL (st : State α) (p : Option (Mat α)) (pe : Mat α) (q : Option (Mat α)) (qe : Mat α) :
    setPLCheck Cfg.fixed (doSetPL Cfg.fixed st p pe) q qe = setPLCheck Cfg.fixed st q qe := by
  have h : (doSetPL Cfg.fixed st p pe).isExt = st.isExt ∧ (doSetPL Cfg.fixed st p pe).k = st.k
      ∧ (doSetPL Cfg.fixed st p pe).extK = st.extK := by
    unfold doSetPL
    cases st.isExt <;> cases p <;> simp [Cfg.fixed]
  exact setPLCheck_congr Cfg.fixed h.1 h.2.1 h.2.2 q qe

theorem doSetPL_doSetPL (st : State α) (p : Option (Mat α)) (pe : Mat α) (q : Option (Mat α)) (qe : Mat α) :
    doSetPL Cfg.fixed (doSetPL Cfg.fixed st p pe) q qe = doSetPL Cfg.fixed st q qe := by
  unfold doSetPL
  cases he : st.isExt <;> cases p <;> cases q <;> simp [Cfg.fixed]

/-- the second of two accepted `set_pathloss` calls decides alone -/
theorem step_setPL_setPL (F : Fns α) (st : State α) (p : Option (Mat α)) (pe : Mat α) (q : Option (Mat α))
    (qe : Mat α) (h1 : setPLCheck Cfg.fixed st p pe = none) (h2 : setPLCheck Cfg.fixed st q qe = none) :
    step Cfg.fixed F (step Cfg.fixed F st (.setPL p pe)).1 (.setPL q qe) = step Cfg.fixed F st (.setPL q qe) := by
  simp only [step, h1, h2, setPLCheck_doSetPL, doSetPL_doSetPL]

theorem step_setNoise_setNoise (F : Fns α) (st : State α) (v w : Option α)
    (hw : ∀ x, w = some x → F.nonneg x = true) :
    (step Cfg.fixed F (step Cfg.fixed F st (.setNoise v)).1 (.setNoise w)).1
      = (step Cfg.fixed F st (.setNoise w)).1 := by
  cases w with
  | none =>
    cases v with
    | none => simp [step, doSetNoise]
    | some x => by_cases hx : F.nonneg x = true <;> simp [step, doSetNoise, hx]
  | some y =>
    have hy := hw y rfl
    cases v with
    | none => simp [step, doSetNoise, hy]
    | some x => by_cases hx : F.nonneg x = true <;> simp [step, doSetNoise, hx, hy]

theorem step_setW_setW (F : Fns α) (st : State α) (v w : Option (List (Mat α))) :
    step Cfg.fixed F (step Cfg.fixed F st (.setW v)).1 (.setW w) = step Cfg.fixed F st (.setW w) := by
  simp [step]

theorem install_install (st : State α) (M M' : Mat α) (nr nt : List Nat) (K : Nat) :
    install Cfg.fixed (install Cfg.fixed st M nr nt K) M' nr nt K = install Cfg.fixed st M' nr nt K := by
  simp only [install, Cfg.fixed, if_true]
  cases hp : st.pl with
  | none => simp
  | some p =>
    simp only [State.userK]
    by_cases hf : plFits p (if st.isExt = true then K - st.extK else K) K = true
    · simp [hf]
    · simp [hf]

/-- the second of two accepted `init_from_channel_matrix` calls with the same antenna layout decides alone -/
theorem step_init_init (F : Fns α) (st : State α) (M M' : Mat α) (nr nt : List Nat) (K : Nat) (ntE : List Nat)
    (h : initCheck M (fullLayout st.isExt nr nt K ntE).1 (fullLayout st.isExt nr nt K ntE).2.1
      (fullLayout st.isExt nr nt K ntE).2.2.1 = true)
    (h' : initCheck M' (fullLayout st.isExt nr nt K ntE).1 (fullLayout st.isExt nr nt K ntE).2.1
      (fullLayout st.isExt nr nt K ntE).2.2.1 = true) :
    step Cfg.fixed F (step Cfg.fixed F st (.init M nr nt K ntE)).1 (.init M' nr nt K ntE)
      = step Cfg.fixed F st (.init M' nr nt K ntE) := by
  have hi : (install Cfg.fixed { st with extK := (fullLayout st.isExt nr nt K ntE).2.2.2 } M
      (fullLayout st.isExt nr nt K ntE).1 (fullLayout st.isExt nr nt K ntE).2.1
      (fullLayout st.isExt nr nt K ntE).2.2.1).isExt = st.isExt := by
    rw [install_isExt]
  simp only [step, doInit, h, h', if_true, hi]
  have := install_install { st with extK := (fullLayout st.isExt nr nt K ntE).2.2.2 } M M'
    (fullLayout st.isExt nr nt K ntE).1 (fullLayout st.isExt nr nt K ntE).2.1 (fullLayout st.isExt nr nt K ntE).2.2.1
  refine Prod.ext ?_ rfl
  simp only
  rw [← this]
  congr 1
  simp only [install, Cfg.fixed, if_true]
  cases hp : st.pl with
  | none => simp
  | some p =>
    simp only [State.userK]
    by_cases hf : plFits p (if st.isExt = true then (fullLayout st.isExt nr nt K ntE).2.2.1
        - (fullLayout st.isExt nr nt K ntE).2.2.2 else (fullLayout st.isExt nr nt K ntE).2.2.1)
        (fullLayout st.isExt nr nt K ntE).2.2.1 = true
    · simp [hf]
    · simp [hf]

end Close

namespace Buf
variable {α : Type} [Add α] [Mul α] [Zero α]

theorem bufRun_eq_run_resolve (cfg : Cfg) (F : Fns α) (prog : List (BOp α)) (h : Heap α) (st : State α) :
    bufRun cfg F (h, st) prog
      = ((heapAfter h prog, (run cfg F st (resolve h prog)).1), (run cfg F st (resolve h prog)).2) := by
  induction prog generalizing h st with
  | nil => rfl
  | cons op ops ih =>
    cases op with
    | refill s M => simp only [bufRun, bufStep, resolve, heapAfter, ih]
    | call mk => simp only [bufRun, bufStep, resolve, heapAfter, ih, run]

theorem bufRun_append (cfg : Cfg) (F : Fns α) (p q : List (BOp α)) (hs : Heap α × State α) :
    bufRun cfg F hs (p ++ q)
      = ((bufRun cfg F (bufRun cfg F hs p).1 q).1, (bufRun cfg F hs p).2 ++ (bufRun cfg F (bufRun cfg F hs p).1 q).2) := by
  induction p generalizing hs with
  | nil => simp [bufRun]
  | cons op ops ih =>
    simp only [List.cons_append, bufRun, ih]
    cases (bufStep cfg F hs op).2 <;> simp

end Buf
end PyPhysim.C08
