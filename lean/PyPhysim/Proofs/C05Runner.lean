import PyPhysim.Proofs.C05Loop

/-! Helper lemmas for C05: `simulate()` over the list of variations, the store of
partial results, repeated calls. -/
namespace PyPhysim.C05

variable {R : Type}

theorem stateOf_calls (merge : R → R → R) (start : Option (R × Nat)) (p : List (Outcome R))
    (s : VarState R) (h : stateOf merge start p = some s) : s.calls = p.length := by
  cases start with
  | none =>
    simp only [stateOf, freshState] at h
    split at h
    · simp at h
    · simp only [Option.some.injEq] at h; rw [← h]
  | some ar =>
    obtain ⟨a, r⟩ := ar
    simp only [stateOf, Option.some.injEq, after] at h
    rw [← h]; simp

theorem lookup_filter_ne {α : Type} (l : List (Nat × α)) (i j : Nat) (h : j ≠ i) :
    (l.filter (fun p => p.1 != i)).lookup j = l.lookup j := by
  induction l with
  | nil => rfl
  | cons p l ih =>
    obtain ⟨k, v⟩ := p
    by_cases hk : k = i
    · subst hk
      have : (j == k) = false := by simpa using h
      simp [List.filter, List.lookup, this, ih]
    · have hk' : (k != i) = true := by simpa using hk
      simp only [List.filter, hk', List.lookup]
      split <;> simp_all

theorem save_file (r : Runner R) (i : Nat) (s : VarState R) : (r.save i s).file = r.file := by
  unfold Runner.save; split <;> simp_all

theorem save_results (r : Runner R) (i : Nat) (s : VarState R) :
    (r.save i s).results = r.results ∧ (r.save i s).reps = r.reps ∧
    (r.save i s).resultsReps = r.resultsReps := by
  unfold Runner.save; split <;> simp

theorem lookup_save (r : Runner R) (i j : Nat) (s : VarState R) :
    (r.save i s).store.lookup j
      = if r.file = true ∧ j = i then some s.saved else r.store.lookup j := by
  unfold Runner.save
  by_cases hf : r.file = true
  · simp only [hf, if_true, true_and]
    by_cases hj : j = i
    · subst hj; simp [List.lookup, VarState.saved]
    · have : (j == i) = false := by simpa using hj
      simp [List.lookup, this, hj, lookup_filter_ne _ _ _ hj]
  · simp [hf]

theorem save_store_nofile (r : Runner R) (i : Nat) (s : VarState R) (h : r.file = false) :
    (r.save i s).store = r.store := by
  simp [Runner.save, h]

theorem load_congr (r r' : Runner R) (j : Nat) (hf : r'.file = r.file)
    (hs : r'.store.lookup j = r.store.lookup j) : r'.load j = r.load j := by
  simp [Runner.load, hf, hs]

theorem RunsSpec_congr (cfg : Cfg R) (load load' : Nat → Option (R × Nat)) :
    ∀ (is : List Nat) (segs : List (List (Outcome R))) (sts : List (VarState R)),
      (∀ j ∈ is, load j = load' j) → RunsSpec cfg load is segs sts → RunsSpec cfg load' is segs sts
  | [], [], [], _, h => h
  | i :: is, seg :: segs, st :: sts, hl, h => by
    simp only [RunsSpec] at h ⊢
    refine ⟨by rw [← hl i (by simp)]; exact h.1, ?_⟩
    exact RunsSpec_congr cfg load load' is segs sts (fun j hj => hl j (by simp [hj])) h.2
  | [], _ :: _, _, _, h => by simp [RunsSpec] at h
  | [], [], _ :: _, _, h => by simp [RunsSpec] at h
  | _ :: _, [], _, _, h => by simp [RunsSpec] at h
  | _ :: _, _ :: _, [], _, h => by simp [RunsSpec] at h

theorem RunsSpec_lengths (cfg : Cfg R) (load : Nat → Option (R × Nat)) :
    ∀ (is : List Nat) (segs : List (List (Outcome R))) (sts : List (VarState R)),
      RunsSpec cfg load is segs sts → segs.length = is.length ∧ sts.length = is.length
  | [], [], [], _ => by simp
  | i :: is, seg :: segs, st :: sts, h => by
    simp only [RunsSpec] at h
    have := RunsSpec_lengths cfg load is segs sts h.2
    simp [this]
  | [], _ :: _, _, h => by simp [RunsSpec] at h
  | [], [], _ :: _, h => by simp [RunsSpec] at h
  | _ :: _, [], _, h => by simp [RunsSpec] at h
  | _ :: _, _ :: _, [], h => by simp [RunsSpec] at h

/-- what one step of the `for` loop does to the runner -/
def stepRunner (r : Runner R) (i : Nat) (s : VarState R) : Runner R :=
  { (r.save i s) with reps := r.reps.push s.rep, results := r.results ++ [⟨s.acc, s.skipped⟩] }

theorem simVars_cons (cfg : Cfg R) (i : Nat) (is : List Nat) (r : Runner R) (outs : List (Outcome R)) :
    simVars cfg (i :: is) r outs =
      match runVariation cfg.merge cfg.repMax (cfg.keep i) (r.load i) outs with
      | .starved c => ⟨r, List.replicate c i, [], some .Exhausted⟩
      | .done e =>
        if e.exhausted then ⟨r, List.replicate e.st.calls i, [], some .Exhausted⟩
        else
          { simVars cfg is (stepRunner r i e.st) e.rest with
            log := List.replicate e.st.calls i ++ (simVars cfg is (stepRunner r i e.st) e.rest).log } := by
  rw [simVars]; rfl

/-- `simulate()` over a duplicate-free list of variations, against the specification. -/
theorem simVars_spec (cfg : Cfg R) :
    ∀ (is : List Nat) (r : Runner R) (outs : List (Outcome R)), is.Nodup →
      (simVars cfg is r outs).status = none →
      ∃ segs sts, RunsSpec cfg r.load is segs sts ∧
        outs = segs.flatten ++ (simVars cfg is r outs).rest ∧
        (simVars cfg is r outs).log = logOf is segs ∧
        (simVars cfg is r outs).runner.results = r.results ++ sts.map VarState.stored ∧
        (∀ l, r.reps = .list l →
            (simVars cfg is r outs).runner.reps = .list (l ++ sts.map (·.rep))) ∧
        (simVars cfg is r outs).runner.file = r.file ∧
        (simVars cfg is r outs).runner.resultsReps = r.resultsReps ∧
        (∀ j, j ∉ is → (simVars cfg is r outs).runner.store.lookup j = r.store.lookup j) ∧
        (r.file = true → ∀ j st, (j, st) ∈ is.zip sts →
            (simVars cfg is r outs).runner.store.lookup j = some st.saved) ∧
        (r.file = false → (simVars cfg is r outs).runner.store = r.store)
  | [], r, outs, _, _ => by
    refine ⟨[], [], by simp [RunsSpec], by simp [simVars], by simp [simVars, logOf],
      by simp [simVars], ?_, by simp [simVars], by simp [simVars], by simp [simVars], ?_, by simp [simVars]⟩
    · intro l hl; simp [simVars, hl]
    · intro _ j st h; simp at h
  | i :: is, r, outs, hnd, hst => by
    rw [simVars_cons] at hst ⊢
    cases hrv : runVariation cfg.merge cfg.repMax (cfg.keep i) (r.load i) outs with
    | starved c => rw [hrv] at hst; simp at hst
    | done e =>
      rw [hrv] at hst
      simp only at hst ⊢
      by_cases hex : e.exhausted = true
      · simp [hex] at hst
      · have hex' : e.exhausted = false := by simpa using hex
        simp only [hex', Bool.false_eq_true, if_false] at hst ⊢
        obtain ⟨seg, hseg, hrun⟩ :=
          runVariation_isVarRun cfg.merge cfg.repMax (cfg.keep i) (r.load i) outs e hrv hex'
        have hnd' : is.Nodup := (List.nodup_cons.mp hnd).2
        have hi : i ∉ is := (List.nodup_cons.mp hnd).1
        obtain ⟨segs, sts, h1, h2, h3, h4, h5, h6, h7, h8, h9, h10⟩ :=
          simVars_spec cfg is (stepRunner r i e.st) e.rest hnd' hst
        have hfile : (stepRunner r i e.st).file = r.file := by simp [stepRunner, save_file]
        have hlook : ∀ j, (stepRunner r i e.st).store.lookup j
            = if r.file = true ∧ j = i then some e.st.saved else r.store.lookup j := by
          intro j; simp only [stepRunner]; exact lookup_save r i j e.st
        refine ⟨seg :: segs, e.st :: sts, ?_, ?_, ?_, ?_, ?_, ?_, ?_, ?_, ?_, ?_⟩
        · simp only [RunsSpec]
          refine ⟨hrun, RunsSpec_congr cfg _ _ is segs sts ?_ h1⟩
          intro j hj
          have hji : j ≠ i := fun h => hi (h ▸ hj)
          exact load_congr r _ j hfile (by rw [hlook]; simp [hji])
        · rw [List.flatten_cons, List.append_assoc, ← h2, ← hseg]
        · simp only [logOf]
          rw [h3, stateOf_calls _ _ _ _ hrun.1]
        · rw [h4]; simp [stepRunner, VarState.stored]
        · intro l hl
          rw [h5 (l ++ [e.st.rep]) (by simp [stepRunner, hl, Reps.push])]
          simp
        · rw [h6, hfile]
        · rw [h7]; simp [stepRunner, (save_results r i e.st).2.2]
        · intro j hj
          have hji : j ≠ i := fun h => hj (by simp [h])
          have hjis : j ∉ is := fun h => hj (by simp [h])
          rw [h8 j hjis, hlook]; simp [hji]
        · intro hf j st hmem
          simp only [List.zip_cons_cons, List.mem_cons, Prod.mk.injEq] at hmem
          rcases hmem with ⟨rfl, rfl⟩ | hmem
          · rw [h8 j hi, hlook]; simp [hf]
          · exact h9 (by rw [hfile]; exact hf) j st hmem
        · intro hf
          rw [h10 (by rw [hfile]; exact hf)]
          simp only [stepRunner]; exact save_store_nofile r i e.st hf

/-! ### shape of the call log -/

theorem mem_logOf : ∀ (is : List Nat) (segs : List (List (Outcome R))) (x : Nat),
    x ∈ logOf is segs → x ∈ is
  | [], _, x, h => by simp [logOf] at h
  | _ :: _, [], x, h => by simp [logOf] at h
  | i :: is, seg :: segs, x, h => by
    simp only [logOf, List.mem_append, List.mem_replicate] at h
    rcases h with ⟨_, rfl⟩ | h
    · simp
    · simp [mem_logOf is segs x h]

/-- over an increasing list of variations the log never goes back -/
theorem logOf_sorted : ∀ (is : List Nat) (segs : List (List (Outcome R))),
    is.Pairwise (· < ·) → (logOf is segs).Pairwise (· ≤ ·)
  | [], _, _ => by simp [logOf]
  | _ :: _, [], _ => by simp [logOf]
  | i :: is, seg :: segs, h => by
    simp only [logOf]
    rw [List.pairwise_append]
    obtain ⟨h1, h2⟩ := List.pairwise_cons.mp h
    refine ⟨by simp [List.pairwise_replicate], logOf_sorted is segs h2, ?_⟩
    intro a ha b hb
    rw [List.mem_replicate] at ha
    have := h1 b (mem_logOf is segs b hb)
    omega

/-- every variation whose run is non-empty appears in the log -/
theorem mem_logOf_of_ne_nil (cfg : Cfg R) (load : Nat → Option (R × Nat)) :
    ∀ (is : List Nat) (segs : List (List (Outcome R))) (sts : List (VarState R)),
      RunsSpec cfg load is segs sts → (∀ seg ∈ segs, seg ≠ []) → ∀ i ∈ is, i ∈ logOf is segs
  | [], [], [], _, _, i, hi => by simp at hi
  | j :: is, seg :: segs, st :: sts, h, hne, i, hi => by
    simp only [RunsSpec] at h
    simp only [logOf, List.mem_append, List.mem_replicate]
    rcases List.mem_cons.mp hi with rfl | hi'
    · left
      refine ⟨?_, rfl⟩
      have := hne seg (by simp)
      exact fun h0 => this (List.length_eq_zero_iff.mp h0)
    · right
      exact mem_logOf_of_ne_nil cfg load is segs sts h.2 (fun s hs => hne s (by simp [hs])) i hi'
  | [], _ :: _, _, h, _, _, _ => by simp [RunsSpec] at h
  | [], [], _ :: _, h, _, _, _ => by simp [RunsSpec] at h
  | _ :: _, [], _, h, _, _, _ => by simp [RunsSpec] at h
  | _ :: _, _ :: _, [], h, _, _, _ => by simp [RunsSpec] at h

theorem RunsSpec_fresh_ne_nil (cfg : Cfg R) :
    ∀ (is : List Nat) (segs : List (List (Outcome R))) (sts : List (VarState R)),
      RunsSpec cfg (fun _ => none) is segs sts → ∀ seg ∈ segs, seg ≠ []
  | [], [], [], _, seg, hs => by simp at hs
  | j :: is, s0 :: segs, st :: sts, h, seg, hs => by
    simp only [RunsSpec] at h
    rcases List.mem_cons.mp hs with rfl | hs'
    · exact isVarRun_fresh_ne_nil _ _ _ _ _ h.1
    · exact RunsSpec_fresh_ne_nil cfg is segs sts h.2 seg hs'
  | [], _ :: _, _, h, _, _ => by simp [RunsSpec] at h
  | [], [], _ :: _, h, _, _ => by simp [RunsSpec] at h
  | _ :: _, [], _, h, _, _ => by simp [RunsSpec] at h
  | _ :: _, _ :: _, [], h, _, _ => by simp [RunsSpec] at h

/-! ### without a results file nothing survives a `simulate()` -/

theorem load_nofile (r : Runner R) (i : Nat) (h : r.file = false) : r.load i = none := by
  simp [Runner.load, h]

theorem stepRunner_nofile (r : Runner R) (i : Nat) (s : VarState R) (h : r.file = false) :
    (stepRunner r i s).file = false ∧
    (stepRunner r i s).results = r.results ++ [⟨s.acc, s.skipped⟩] ∧
    (stepRunner r i s).reps = r.reps.push s.rep ∧
    (stepRunner r i s).resultsReps = r.resultsReps := by
  simp [stepRunner, save_file, h, (save_results r i s).2.2]

/-- two runners without a results file that hold the same results behave the same,
    whatever their stores contain -/
theorem simVars_nofile_congr (cfg : Cfg R) :
    ∀ (is : List Nat) (r r' : Runner R) (outs : List (Outcome R)),
      r.file = false → r'.file = false → r.results = r'.results → r.reps = r'.reps →
      r.resultsReps = r'.resultsReps →
      (simVars cfg is r outs).log = (simVars cfg is r' outs).log ∧
      (simVars cfg is r outs).rest = (simVars cfg is r' outs).rest ∧
      (simVars cfg is r outs).status = (simVars cfg is r' outs).status ∧
      (simVars cfg is r outs).runner.results = (simVars cfg is r' outs).runner.results ∧
      (simVars cfg is r outs).runner.reps = (simVars cfg is r' outs).runner.reps ∧
      (simVars cfg is r outs).runner.resultsReps = (simVars cfg is r' outs).runner.resultsReps ∧
      (simVars cfg is r outs).runner.file = false ∧ (simVars cfg is r' outs).runner.file = false
  | [], r, r', outs, hf, hf', h1, h2, h3 => by simp [simVars, hf, hf', h1, h2, h3]
  | i :: is, r, r', outs, hf, hf', h1, h2, h3 => by
    rw [simVars_cons, simVars_cons, load_nofile r i hf, load_nofile r' i hf']
    cases hrv : runVariation cfg.merge cfg.repMax (cfg.keep i) none outs with
    | starved c => simp [hf, hf', h1, h2, h3]
    | done e =>
      by_cases hex : e.exhausted = true
      · simp [hex, hf, hf', h1, h2, h3]
      · have hex' : e.exhausted = false := by simpa using hex
        simp only [hex', Bool.false_eq_true, if_false]
        obtain ⟨a1, a2, a3, a4⟩ := stepRunner_nofile r i e.st hf
        obtain ⟨b1, b2, b3, b4⟩ := stepRunner_nofile r' i e.st hf'
        obtain ⟨c1, c2, c3, c4, c5, c6, c7, c8⟩ :=
          simVars_nofile_congr cfg is (stepRunner r i e.st) (stepRunner r' i e.st) e.rest a1 b1
            (by rw [a2, b2, h1]) (by rw [a3, b3, h2]) (by rw [a4, b4, h3])
        exact ⟨by rw [c1], c2, c3, c4, c5, c6, c7, c8⟩

/-! ### unfolding `simulateAll` -/

theorem simulateAll_status (cfg : Cfg R) (r : Runner R) (outs : List (Outcome R)) :
    (simulateAll cfg r outs).status = (simVars cfg (List.range cfg.nvar) r.clear outs).status := by
  unfold simulateAll
  simp only
  cases h : (simVars cfg (List.range cfg.nvar) r.clear outs).status <;> simp [h]

theorem simulateAll_fields (cfg : Cfg R) (r : Runner R) (outs : List (Outcome R)) :
    (simulateAll cfg r outs).log = (simVars cfg (List.range cfg.nvar) r.clear outs).log ∧
    (simulateAll cfg r outs).rest = (simVars cfg (List.range cfg.nvar) r.clear outs).rest ∧
    (simulateAll cfg r outs).runner.results
      = (simVars cfg (List.range cfg.nvar) r.clear outs).runner.results ∧
    (simulateAll cfg r outs).runner.reps
      = (simVars cfg (List.range cfg.nvar) r.clear outs).runner.reps ∧
    (simulateAll cfg r outs).runner.store
      = (simVars cfg (List.range cfg.nvar) r.clear outs).runner.store ∧
    (simulateAll cfg r outs).runner.file
      = (simVars cfg (List.range cfg.nvar) r.clear outs).runner.file := by
  unfold simulateAll
  simp only
  cases h : (simVars cfg (List.range cfg.nvar) r.clear outs).status <;> simp

theorem simulateAll_resultsReps (cfg : Cfg R) (r : Runner R) (outs : List (Outcome R)) :
    (simulateAll cfg r outs).runner.resultsReps =
      match (simVars cfg (List.range cfg.nvar) r.clear outs).status with
      | none => some (simVars cfg (List.range cfg.nvar) r.clear outs).runner.reps
      | some _ => (simVars cfg (List.range cfg.nvar) r.clear outs).runner.resultsReps := by
  unfold simulateAll
  simp only
  cases h : (simVars cfg (List.range cfg.nvar) r.clear outs).status <;> simp

end PyPhysim.C05
