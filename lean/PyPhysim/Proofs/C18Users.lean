import PyPhysim.Proofs.C18Exact
import PyPhysim.Proofs.C18Zc

/-!
C18 — the estimator theorems for the sequences the code builds
(`shiftedPhases` → `seqValues` → `ueSequence`): normalisation, cyclic-shift
windows, several antennas.
-/
set_option linter.unusedSectionVars false
namespace PyPhysim.C18P
open PyPhysim.Cazac PyPhysim.Proto Finset

variable {F : Type} [Field F] [CisOps F]

local notation "cis" => (CisOps.cis : ℚ → F)
local notation "conj" => (CisOps.conj : F → F)

/-- the stored 1-D user sequence: `x` or `x / ‖x‖` -/
def rowOf (x : List F) (nrm : Bool) (nu : F) : List F :=
  if nrm then x.map (fun v => v / nu) else x

theorem ueSequence_plain (x : List F) (nrm : Bool) (nu : F) :
    ueSequence x none nrm nu = .ok ⟨nrm, [rowOf x nrm nu], none⟩ := by
  cases nrm <;> simp [ueSequence, rowOf]

theorem rowOf_length (x : List F) (nrm : Bool) (nu : F) : (rowOf x nrm nu).length = x.length := by
  cases nrm <;> simp [rowOf]

theorem rowOf_getD (x : List F) (nrm : Bool) (nu : F) (n : ℕ) (hn : n < x.length) :
    (rowOf x nrm nu).getD n 0 = if nrm then x.getD n 0 / nu else x.getD n 0 := by
  cases nrm
  · simp [rowOf]
  · simp [rowOf, List.getD_eq_getElem?_getD, List.getElem?_map, List.getElem?_eq_getElem hn]

section
variable (L : CisLaws F) [CharZero F]
include L

/-- the scalar by which `conj(r)·r'` differs from a pure phase -/
noncomputable def rowScale (N : ℕ) (nrm : Bool) : F := if nrm then 1 / (N : F) else 1

theorem rowScale_mul (N : ℕ) (hN : 0 < N) (nrm : Bool) :
    rowScale (F := F) N nrm * (if nrm then ((N : ℕ) : F) else 1) = 1 := by
  have hNF : (N : F) ≠ 0 := by exact_mod_cast (Nat.ne_of_gt hN)
  cases nrm <;> simp [rowScale, hNF]

/-- product of the conjugated reference row with another user's row -/
theorem row_prod (p0 pu : List ℚ) (nrm : Bool) (nu : F) (hlen : pu.length = p0.length)
    (hN : 0 < p0.length)
    (hnu : nrm = true → conj nu = nu ∧ nu * nu = (p0.length : F)) (n : ℕ) (hn : n < p0.length) :
    conj ((rowOf (seqValues p0 : List F) nrm nu).getD n 0) * (rowOf (seqValues pu : List F) nrm nu).getD n 0
      = rowScale p0.length nrm * cis (pu.getD n 0 - p0.getD n 0) := by
  have hNF : ((p0.length : ℕ) : F) ≠ 0 := by exact_mod_cast (Nat.ne_of_gt hN)
  rw [rowOf_getD _ _ _ _ (by rw [seqValues_length]; exact hn),
    rowOf_getD _ _ _ _ (by rw [seqValues_length, hlen]; exact hn),
    seqValues_getD _ _ hn, seqValues_getD _ _ (by rw [hlen]; exact hn)]
  have hph : cis (pu.getD n 0 - p0.getD n 0) = cis (-(p0.getD n 0)) * cis (pu.getD n 0) := by
    rw [← L.cis_add]; congr 1; ring
  cases nrm
  · simp only [Bool.false_eq_true, if_false, rowScale, one_mul]
    rw [L.conj_cis, hph]
  · obtain ⟨h1, h2⟩ := hnu rfl
    have hnu0 : nu ≠ 0 := by
      intro h0
      rw [h0, mul_zero] at h2
      exact hNF h2.symm
    simp only [if_true, rowScale]
    rw [L.conj_div, L.conj_cis, h1, hph, ← h2]
    field_simp

/-- **Exactness for the sequences the code builds** (plain and comb, normalised or not). -/
theorem ue_estimate_exact (ph : List ℚ) (nrm : Bool) (nu : F) (h : List F) (m K : ℕ)
    (hm : 0 < m) (hN : 0 < ph.length)
    (hnu : nrm = true → conj nu = nu ∧ nu * nu = (ph.length : F))
    (hfit : h.length ≤ K + 1) (hlen : h.length ≤ ph.length) :
    estimate1 (rowOf (seqValues ph : List F) nrm nu) nrm m
        (observe (fftPad h (m * ph.length)) m (rowOf (seqValues ph : List F) nrm nu)) K
      = .ok (fftPad h (m * ph.length)) := by
  have hl : (rowOf (seqValues ph : List F) nrm nu).length = ph.length := by
    rw [rowOf_length, seqValues_length]
  have := estimate_exact_core L (rowOf (seqValues ph : List F) nrm nu) h (rowScale ph.length nrm) nrm m K hm
    (by rw [hl]; exact hN)
    (by
      intro n hn
      rw [hl] at hn
      rw [mul_comm, row_prod L ph ph nrm nu rfl hN hnu n hn, sub_self, L.cis_zero, mul_one])
    (by rw [hl]; exact rowScale_mul L ph.length hN nrm)
    hfit (by rw [hl]; exact hlen)
  rw [hl] at this
  exact this

/-- the relative shift (in bins of the `N`-point grid) between shifts `c0` and `cu` -/
theorem shift_phase (ph : List ℚ) (c0 cu D t n : ℕ) (hD : 0 < D) (ht : 0 < t)
    (hN : ph.length = D * t) (hn : n < ph.length) :
    (ph.zipIdx.map (fun p => ((cu * p.2 : ℕ) : ℚ) / ((D : ℕ) : ℚ) + p.1)).getD n 0
      - (ph.zipIdx.map (fun p => ((c0 * p.2 : ℕ) : ℚ) / ((D : ℕ) : ℚ) + p.1)).getD n 0
      = (n : ℚ) * (((((cu : ℤ) - c0) * t : ℤ) : ℚ) / (ph.length : ℚ)) := by
  rw [shifted_getD ph cu D n hn, shifted_getD ph c0 D n hn, hN]
  have h1 : (D : ℚ) ≠ 0 := by exact_mod_cast (Nat.ne_of_gt hD)
  have h2 : (t : ℚ) ≠ 0 := by exact_mod_cast (Nat.ne_of_gt ht)
  push_cast
  field_simp
  ring

/-- taps shorter than one shift window never fall into another user's window -/
theorem window_lte (D t k l : ℕ) (e : ℤ) (hk : k < t) (hl : l < t) (he0 : e ≠ 0)
    (he1 : -(D : ℤ) < e) (he2 : e < D) : ¬ (((D * t : ℕ) : ℤ) ∣ ((k : ℤ) + e * t - (l : ℤ))) := by
  rintro ⟨j, hj⟩
  push_cast at hj
  have ht : (0 : ℤ) < t := by omega
  have h1 : ((D : ℤ) * j - e) * t = (k : ℤ) - l := by linear_combination -hj
  have h2 : (D : ℤ) * j - e = 0 := by
    rcases lt_trichotomy ((D : ℤ) * j - e) 0 with h | h | h
    · have : ((D : ℤ) * j - e) * t ≤ -1 * t := Int.mul_le_mul_of_nonneg_right (by omega) (le_of_lt ht)
      omega
    · exact h
    · have : 1 * (t : ℤ) ≤ ((D : ℤ) * j - e) * t := Int.mul_le_mul_of_nonneg_right (by omega) (le_of_lt ht)
      omega
  have h3 : (D : ℤ) ∣ e := ⟨j, by linarith⟩
  have h4 : e = 0 := Int.eq_zero_of_abs_lt_dvd h3 (by rw [abs_lt]; constructor <;> omega)
  exact he0 h4

/-- **Rejection of users on other cyclic shifts** (LTE form): `D ∣ N`, shifts
    `c0 ≠ cu < D`, kept taps and the other user's delay spread at most one
    shift window `N/D`. -/
theorem ue_estimate_reject (ph p0 pu : List ℚ) (c0 cu D t : ℕ) (nrm : Bool) (nu : F) (h : List F)
    (m K : ℕ) (hm : 0 < m) (hD : 0 < D) (ht : 0 < t) (hN : ph.length = D * t)
    (h0 : shiftedPhases ph c0 D = .ok p0) (hu : shiftedPhases ph cu D = .ok pu) (hne : c0 ≠ cu)
    (hnu : nrm = true → conj nu = nu ∧ nu * nu = (ph.length : F))
    (hK : K + 1 ≤ t) (hL : h.length ≤ t) :
    estimate1 (rowOf (seqValues p0 : List F) nrm nu) nrm m
        (observe (fftPad h (m * ph.length)) m (rowOf (seqValues pu : List F) nrm nu)) K
      = .ok ((List.range (m * ph.length)).map (fun _ => (0 : F))) := by
  have hc0 : c0 < D := by
    unfold shiftedPhases at h0
    by_contra hc; rw [if_neg hc] at h0; cases h0
  have hcu : cu < D := by
    unfold shiftedPhases at hu
    by_contra hc; rw [if_neg hc] at hu; cases hu
  rw [shiftedPhases_ok ph c0 D hc0] at h0
  rw [shiftedPhases_ok ph cu D hcu] at hu
  injection h0 with h0
  injection hu with hu
  have hNpos : 0 < ph.length := by rw [hN]; exact Nat.mul_pos hD ht
  have hp0 : p0.length = ph.length := by rw [← h0]; simp
  have hpu : pu.length = ph.length := by rw [← hu]; simp
  have hl0 : (rowOf (seqValues p0 : List F) nrm nu).length = ph.length := by
    rw [rowOf_length, seqValues_length, hp0]
  have hlu : (rowOf (seqValues pu : List F) nrm nu).length = ph.length := by
    rw [rowOf_length, seqValues_length, hpu]
  have := estimate_reject_core L (rowOf (seqValues p0 : List F) nrm nu)
    (rowOf (seqValues pu : List F) nrm nu) h (rowScale ph.length nrm) nrm m K
    ((((cu : ℤ) - c0) * t : ℤ)) hm (by rw [hl0]; exact hNpos) (by rw [hl0, hlu])
    (by
      rw [hl0]
      calc h.length ≤ t := hL
        _ ≤ D * t := Nat.le_mul_of_pos_left _ hD
        _ = ph.length := hN.symm
        _ ≤ m * ph.length := Nat.le_mul_of_pos_left _ hm)
    (by
      intro n hn
      rw [hl0] at hn ⊢
      have hn0 : n < p0.length := by rw [hp0]; exact hn
      rw [row_prod L p0 pu nrm nu (by rw [hp0, hpu]) (by rw [hp0]; exact hNpos)
        (by rw [hp0]; exact hnu) n hn0, hp0]
      congr 2
      rw [← h0, ← hu]
      exact shift_phase L ph c0 cu D t n hD ht hN hn)
    (by
      intro k l hk _ hl hd
      exfalso
      rw [hl0, hN] at hd
      exact window_lte L D t k l ((cu : ℤ) - c0) (by omega) (by omega) (by omega) (by omega) (by omega) hd)
  rw [hl0] at this
  exact this

end

/-! ### several receive antennas -/

theorem mapM_map_ok {α β γ : Type} (f : β → Except PyErr γ) (g : α → β) (e : α → γ) (as : List α)
    (h : ∀ a ∈ as, f (g a) = .ok (e a)) : (as.map g).mapM f = .ok (as.map e) := by
  induction as with
  | nil => rfl
  | cons a t ih =>
    rw [List.map_cons, List.mapM_cons, h a (by simp), ih (fun b hb => h b (by simp [hb]))]
    rfl

end PyPhysim.C18P
