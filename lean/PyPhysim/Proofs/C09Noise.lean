import Mathlib.Tactic.Abel
import PyPhysim.Proofs.C09Ext

/-!
The reduction matrix of `_calc_stream_reduction_matrix` lies in the noise
eigenspace: from the SVD contract of `Re_k = pe·E Eᴴ + σ²·1` and the fact that
the `n` smallest singular values equal `σ²`.
-/
set_option linter.unusedSectionVars false
namespace PyPhysim.BD
namespace Pf
open Matrix

section noise
variable {N n r : Nat}

theorem trace_re_nonneg {m k : Nat} (X : Matrix (Fin m) (Fin k) ℂ) : 0 ≤ (trace (Xᴴ * X)).re := by
  have := frobSq_nonneg (fun i j => X i j : Mat ℂ m k)
  rwa [frobSq_eq_trace] at this

theorem eq_zero_of_trace_re {m k : Nat} (X : Matrix (Fin m) (Fin k) ℂ) (h : (trace (Xᴴ * X)).re = 0) : X = 0 := by
  have h1 : frobSq (fun i j => X i j : Mat ℂ m k) = 0 := by rw [frobSq_eq_trace]; exact h
  have := (frobSq_eq_zero_iff _).mp h1
  ext i j
  exact congrFun (congrFun this i) j

/-- A positive semidefinite-plus-noise matrix `R = pe·E Eᴴ + nv·1` (`pe ≥ 0`, `nv > 0`)
    has no eigenvalue `-nv`: `R D = -nv D` forces `D = 0`. -/
theorem no_negative_eigen (pe nv : ℝ) (hpe : 0 ≤ pe) (hnv : 0 < nv) (E : Matrix (Fin N) (Fin r) ℂ)
    (D : Matrix (Fin N) (Fin n) ℂ)
    (h : ((pe : ℂ) • (E * Eᴴ) + (nv : ℂ) • (1 : Matrix (Fin N) (Fin N) ℂ)) * D = (-(nv : ℂ)) • D) : D = 0 := by
  have h1 : Dᴴ * (((pe : ℂ) • (E * Eᴴ) + (nv : ℂ) • (1 : Matrix (Fin N) (Fin N) ℂ)) * D) = (-(nv : ℂ)) • (Dᴴ * D) := by
    rw [h, Matrix.mul_smul]
  have h2 : (pe : ℂ) • ((Eᴴ * D)ᴴ * (Eᴴ * D)) + (nv : ℂ) • (Dᴴ * D) = (-(nv : ℂ)) • (Dᴴ * D) := by
    rw [← h1, Matrix.add_mul, Matrix.mul_add, Matrix.smul_mul, Matrix.mul_smul, Matrix.smul_mul, Matrix.mul_smul,
      Matrix.one_mul, conjTranspose_mul, conjTranspose_conjTranspose]
    simp only [Matrix.mul_assoc]
  have h3 := congrArg (fun M => (trace M).re) h2
  simp only [trace_add, trace_smul, smul_eq_mul, Complex.add_re, Complex.mul_re, Complex.ofReal_re,
    Complex.ofReal_im, zero_mul, sub_zero, Complex.neg_re, Complex.neg_im, neg_zero] at h3
  have a := trace_re_nonneg (Eᴴ * D)
  have b := trace_re_nonneg D
  have hb : (trace (Dᴴ * D)).re = 0 := by nlinarith
  exact eq_zero_of_trace_re D hb

/-- SVD contract ⇒ noise eigenspace.  If `Re = U·diag(S)·V_H` with `U`, `V_H` unitary and the
    `n` smallest singular values are equal to the noise variance, the `n` least right
    singular vectors `P` satisfy `Re · P = σ² · P`. -/
theorem leastCols_noise_eigenspace (pe nv : ℝ) (hpe : 0 ≤ pe) (hnv : 0 < nv) (E : Mat ℂ N r)
    (U VH : Mat ℂ N N) (S : Fin N → ℝ) (hn : n ≤ N)
    (hsvd : covExtInt pe nv E = matMul (matMul U (diagM (fun i => Cx.ofReal (S i)))) VH)
    (hU : matMul (cT U) U = eye) (hV : matMul VH (cT VH) = eye)
    (hS : ∀ j : Fin n, S (revIdx hn j) = nv) :
    matMul (covExtInt pe nv E) (leastCols VH n hn) = fun i j => Cx.ofReal nv * leastCols VH n hn i j := by
  -- Mathlib vocabulary
  set R : Matrix (Fin N) (Fin N) ℂ := (pe : ℂ) • (toM E * (toM E)ᴴ) + (nv : ℂ) • 1 with hR
  have hRdef : toM (covExtInt pe nv E) = R := toM_covExtInt pe nv E
  set D : Matrix (Fin N) (Fin N) ℂ := diagonal (fun i => ((S i : ℝ) : ℂ)) with hD
  have hsvd' : R = toM U * D * toM VH := by
    rw [← hRdef, hsvd]; simp only [toM_matMul, toM_diagM]; rfl
  have hU' : (toM U)ᴴ * toM U = 1 := by
    have := congrArg toM hU; simpa only [toM_matMul, toM_cT, toM_eye] using this
  have hV' : toM VH * (toM VH)ᴴ = 1 := by
    have := congrArg toM hV; simpa only [toM_matMul, toM_cT, toM_eye] using this
  set Sel : Matrix (Fin N) (Fin n) ℂ := Matrix.of (fun a j => if a = revIdx hn j then (1 : ℂ) else 0) with hSel
  set P : Matrix (Fin N) (Fin n) ℂ := toM (leastCols VH n hn) with hP
  have hVP : toM VH * P = Sel := by
    have := congrArg toM (VH_mul_leastCols VH hn hV)
    simpa only [toM_matMul] using this
  have hDSel : D * Sel = (nv : ℂ) • Sel := by
    ext a j
    simp only [hD, hSel, diagonal_mul, of_apply, Matrix.smul_apply, smul_eq_mul]
    by_cases h : a = revIdx hn j
    · subst h; simp [hS j]
    · simp [h]
  have hDstar : Dᴴ = D := by
    rw [hD, diagonal_conjTranspose]; congr 1; funext i; simp
  have hRherm : Rᴴ = R := by
    rw [hR]
    simp only [conjTranspose_add, conjTranspose_smul, conjTranspose_mul, conjTranspose_conjTranspose,
      conjTranspose_one, Complex.star_def, Complex.conj_ofReal]
  have hPsel : P = (toM VH)ᴴ * Sel := by
    ext i j
    simp only [hP, hSel, Matrix.mul_apply, conjTranspose_apply, of_apply, leastCols, Cx.conj]
    rw [Finset.sum_eq_single (revIdx hn j)]
    · simp
    · intro b _ hb; simp [hb]
    · intro h; exact absurd (Finset.mem_univ _) h
  set Q : Matrix (Fin N) (Fin n) ℂ := toM U * Sel with hQ
  have hRP : R * P = (nv : ℂ) • Q := by
    rw [hsvd', Matrix.mul_assoc, hVP, Matrix.mul_assoc, hDSel, Matrix.mul_smul]
  have hRQ : R * Q = (nv : ℂ) • P := by
    have : R = (toM VH)ᴴ * D * (toM U)ᴴ := by
      rw [← hRherm, hsvd', conjTranspose_mul, conjTranspose_mul, hDstar, Matrix.mul_assoc]
    rw [this, hQ, Matrix.mul_assoc, ← Matrix.mul_assoc (toM U)ᴴ, hU', Matrix.one_mul, Matrix.mul_assoc, hDSel,
      Matrix.mul_smul, ← hPsel]
  have hzero : P - Q = 0 := by
    apply no_negative_eigen pe nv hpe hnv (toM E) (P - Q)
    rw [← hR, Matrix.mul_sub, hRP, hRQ, smul_sub, neg_smul, neg_smul]
    abel
  have hPQ : P = Q := sub_eq_zero.mp hzero
  apply toM_inj
  rw [toM_matMul, hRdef, ← hP, hRP, ← hPQ]
  ext i j
  simp [Cx.ofReal, hP]

end noise
end Pf
end PyPhysim.BD
