import Mathlib.Data.List.Nodup
import Mathlib.Data.List.Perm.Subperm
import Mathlib.Data.List.Perm.Basic
import Mathlib.Tactic.Ring
import Mathlib.Tactic.Linarith
import PyPhysim.Proofs.GrayGenerated
import PyPhysim.Model.C01

/-! Gray relabelling is a permutation of the natural constellation. -/
namespace PyPhysim.C01
open PyPhysim.Proto PyPhysim.Gray List

theorem relabel_some {β : Type} (natural : List β) : ∀ (idx : List Nat) (t : List β),
    relabel natural idx = .ok t → t.map some = idx.map (fun i => natural[i]?)
  | [], t, h => by
    simp only [relabel] at h
    cases h; rfl
  | i :: is, t, h => by
    unfold relabel at h
    cases hi : natural[i]? with
    | none => rw [hi] at h; cases h
    | some p =>
      rw [hi] at h
      cases hr : relabel natural is with
      | error e => rw [hr] at h; cases h
      | ok ps =>
        rw [hr] at h
        cases h
        have := relabel_some natural is ps hr
        simp [this, hi]

theorem perm_range_of_nodup (l : List Nat) (n : Nat) (hnd : l.Nodup) (hlt : ∀ x ∈ l, x < n)
    (hlen : l.length = n) : l.Perm (List.range n) := by
  apply (List.subperm_of_subset hnd ?_).perm_of_length_le
  · simp [hlen]
  · intro x hx; exact List.mem_range.mpr (hlt x hx)

/-- the emitted table is a rearrangement of the natural constellation -/
theorem relabel_perm {β : Type} (natural : List β) (idx : List Nat) (t : List β)
    (h : relabel natural idx = .ok t) (hp : idx.Perm (List.range natural.length)) :
    t.Perm natural := by
  have h1 := relabel_some natural idx t h
  have h2 : (idx.map (fun i => natural[i]?)).Perm ((List.range natural.length).map (fun i => natural[i]?)) :=
    hp.map _
  have h3 : (List.range natural.length).map (fun i => natural[i]?) = natural.map some := by
    apply List.ext_getElem?
    intro k
    simp only [List.getElem?_map, List.getElem?_range]
    by_cases hk : k < natural.length
    · simp [hk]
    · have hk' := Nat.le_of_not_lt hk
      simp [List.getElem?_eq_none hk', hk]
  rw [← h1, h3] at h2
  exact (List.map_perm_map_iff (Option.some_injective β)).mp h2

/-- relabelling succeeds when every index is in range -/
theorem relabel_ok {β : Type} (natural : List β) : ∀ (idx : List Nat),
    (∀ i ∈ idx, i < natural.length) → ∃ t, relabel natural idx = .ok t
  | [], _ => ⟨[], rfl⟩
  | i :: is, h => by
    obtain ⟨ps, hps⟩ := relabel_ok natural is (fun x hx => h x (by simp [hx]))
    have hi : i < natural.length := h i (by simp)
    refine ⟨natural[i] :: ps, ?_⟩
    unfold relabel
    rw [List.getElem?_eq_getElem hi, hps]

/-- and fails when some index is out of range (construction raises) -/
theorem relabel_error {β : Type} (natural : List β) : ∀ (idx : List Nat),
    (∃ i ∈ idx, natural.length ≤ i) → relabel natural idx = .error .IndexError
  | [], h => by obtain ⟨i, hi, _⟩ := h; simp at hi
  | i :: is, h => by
    unfold relabel
    by_cases hi : i < natural.length
    · have : ∃ j ∈ is, natural.length ≤ j := by
        obtain ⟨j, hj, hjl⟩ := h
        simp at hj
        rcases hj with rfl | hj
        · omega
        · exact ⟨j, hj, hjl⟩
      rw [List.getElem?_eq_getElem hi, relabel_error natural is this]
    · rw [List.getElem?_eq_none (Nat.le_of_not_lt hi)]

/-- PSK index array `gray2binary(arange M)` is a permutation of `[0,M)` for `M = 2^m ≤ 2^64` -/
theorem psk_idx_perm (m : Nat) (hm : m ≤ 64) :
    ((List.range (2^m)).map (pskPosInit Generated.gray2binary)).Perm (List.range (2^m)) := by
  have hM : (2:Nat)^m ≤ 2^64 := Nat.pow_le_pow_right (by norm_num) hm
  apply perm_range_of_nodup
  · apply List.Nodup.map_on _ List.nodup_range
    intro a ha b hb hab
    have ha' := List.mem_range.mp ha
    have hb' := List.mem_range.mp hb
    simp only [pskPosInit, gen_g2b] at hab
    have e1 := b2g_g2b 6 a (by simp; omega)
    have e2 := b2g_g2b 6 b (by simp; omega)
    rw [hab] at e1
    exact e1.symm.trans e2
  · intro x hx
    obtain ⟨a, ha, rfl⟩ := List.mem_map.mp hx
    simp only [pskPosInit, gen_g2b]
    exact g2b_lt 6 a m (List.mem_range.mp ha)
  · simp

end PyPhysim.C01

namespace PyPhysim.C01
open PyPhysim.Proto PyPhysim.Gray List

/-- `gray2binary (2^k) = 2^(k+1) - 1`: the label that falls out of range when `M` is not a power of two -/
theorem g2b_two_pow (k : Nat) (hk : k < 64) : Generated.gray2binary (2^k) = 2^(k+1) - 1 := by
  rw [gen_g2b, ← b2g_ones k]
  apply g2b_b2g 6
  have h1 : (2:Nat)^(k+1) ≤ 2^64 := Nat.pow_le_pow_right (by norm_num) (by omega)
  have h2 : 0 < (2:Nat)^(k+1) := Nat.two_pow_pos _
  simp; omega

/-- QAM index array `(b2g r <<< k) + b2g c` is a permutation of `[0, L²)` for `L = 2^k` -/
theorem qam_idx_perm (k : Nat) :
    ((List.range (2^k * 2^k)).map (qamPos Generated.binary2gray k (2^k))).Perm (List.range (2^k * 2^k)) := by
  have hL : 0 < 2^k := Nat.two_pow_pos k
  have key : ∀ l, l < 2^k * 2^k →
      qamPos Generated.binary2gray k (2^k) l = b2g (l / 2^k) * 2^k + b2g (l % 2^k) := by
    intro l _
    simp only [qamPos, gen_b2g, Nat.shiftLeft_eq]
  have hr : ∀ l, l < 2^k * 2^k → b2g (l / 2^k) < 2^k := fun l hl =>
    b2g_lt _ k (Nat.div_lt_of_lt_mul hl)
  have hc : ∀ l, b2g (l % 2^k) < 2^k := fun l => b2g_lt _ k (Nat.mod_lt _ hL)
  have b2g_inj : ∀ a b, a < 2^k → b < 2^k → b2g a = b2g b → a = b := by
    intro a b ha hb hab
    have hk : ∀ x, x < 2^k → x < 2^(2^k) := fun x hx =>
      lt_trans hx (Nat.pow_lt_pow_right (by norm_num) (Nat.lt_two_pow_self))
    have e1 := g2b_b2g k a (hk a ha)
    have e2 := g2b_b2g k b (hk b hb)
    rw [hab] at e1
    exact e1.symm.trans e2
  apply perm_range_of_nodup
  · apply List.Nodup.map_on _ List.nodup_range
    intro a ha b hb hab
    have ha' := List.mem_range.mp ha
    have hb' := List.mem_range.mp hb
    rw [key a ha', key b hb'] at hab
    have h1 : (b2g (a / 2^k) * 2^k + b2g (a % 2^k)) / 2^k = b2g (a / 2^k) := by
      rw [Nat.mul_comm, Nat.mul_add_div hL, Nat.div_eq_of_lt (hc a), Nat.add_zero]
    have h2 : (b2g (b / 2^k) * 2^k + b2g (b % 2^k)) / 2^k = b2g (b / 2^k) := by
      rw [Nat.mul_comm, Nat.mul_add_div hL, Nat.div_eq_of_lt (hc b), Nat.add_zero]
    have h3 : (b2g (a / 2^k) * 2^k + b2g (a % 2^k)) % 2^k = b2g (a % 2^k) := by
      rw [Nat.mul_comm, Nat.mul_add_mod, Nat.mod_eq_of_lt (hc a)]
    have h4 : (b2g (b / 2^k) * 2^k + b2g (b % 2^k)) % 2^k = b2g (b % 2^k) := by
      rw [Nat.mul_comm, Nat.mul_add_mod, Nat.mod_eq_of_lt (hc b)]
    have er : b2g (a / 2^k) = b2g (b / 2^k) := by rw [← h1, ← h2, hab]
    have ec : b2g (a % 2^k) = b2g (b % 2^k) := by rw [← h3, ← h4, hab]
    have r := b2g_inj _ _ (Nat.div_lt_of_lt_mul ha') (Nat.div_lt_of_lt_mul hb') er
    have c := b2g_inj _ _ (Nat.mod_lt _ hL) (Nat.mod_lt _ hL) ec
    rw [← Nat.div_add_mod a (2^k), ← Nat.div_add_mod b (2^k), r, c]
  · intro x hx
    obtain ⟨a, ha, rfl⟩ := List.mem_map.mp hx
    have ha' := List.mem_range.mp ha
    rw [key a ha']
    have := hr a ha'
    have := hc a
    nlinarith
  · simp

end PyPhysim.C01
