import PyPhysim.Proofs.C11Spec

/-!
The channel views the SINR code reads: block `(k, j)` of `big_H` is the block of
the matrix given to `init_from_channel_matrix`, every entry multiplied by
`√pathloss[k, j]`.
-/
set_option linter.unusedSectionVars false
namespace PyPhysim.Sinr.Pf
open PyPhysim.Sinr PyPhysim.Sinr.Spec

/-- antenna `a` of user `k` is owned by user `k` -/
theorem owner_offs : ∀ (N : List Nat) (k a : Nat) (hk : k < N.length), a < N[k] → owner N (offs N k + a) = k
  | [], k, _, hk, _ => absurd hk (by simp)
  | x :: xs, 0, a, _, ha => by
    simp only [List.getElem_cons_zero] at ha
    simp [offs, owner, ha]
  | x :: xs, k+1, a, hk, ha => by
    simp only [List.getElem_cons_succ] at ha
    have hk' : k < xs.length := by simpa using hk
    have ih := owner_offs xs k a hk' ha
    have h1 : ¬ (x + offs xs k + a < x) := by omega
    have h2 : x + offs xs k + a - x = offs xs k + a := by omega
    simp only [offs, owner, h1, if_false, h2, ih]

variable {α ρ : Type} [Mul α] [RC ρ α] [RFun ρ]

/-- block `(k, j)` of `big_H` with a path loss set -/
theorem block_pathloss (big : Nat → Nat → α) (Nr NtAll : List Nat) (p : Nat → Nat → ρ) (k j : Nat)
    (hk : k < Nr.length) (hj : j < NtAll.length) (a : Fin Nr[k]) (b : Fin NtAll[j]) :
    blockOf (bigPL big Nr NtAll (some p)) (offs Nr k) (offs NtAll j) Nr[k] NtAll[j] a b =
      big (offs Nr k + a.val) (offs NtAll j + b.val) * RC.ofReal (RFun.sqrt (p k j)) := by
  simp only [blockOf, bigPL, owner_offs Nr k a.val hk a.isLt, owner_offs NtAll j b.val hj b.isLt]

/-- … and without one -/
theorem block_no_pathloss (big : Nat → Nat → α) (Nr NtAll : List Nat) (r0 c0 m n : Nat) (a : Fin m) (b : Fin n) :
    blockOf (bigPL (ρ := ρ) big Nr NtAll none) r0 c0 m n a b = big (r0 + a.val) (c0 + b.val) := rfl

/-- a channel block scaled by `√g` -/
noncomputable def plScale {n t : Nat} (H : Mat ℂ n t) (g : ℝ) : Mat ℂ n t :=
  fun a b => H a b * RC.ofReal (RFun.sqrt g)

theorem amp_plScale {n t : Nat} (u : Fin n → ℂ) (H : Mat ℂ n t) (g : ℝ) (f : Fin t → ℂ) :
    amp u (plScale H g) f = ((Real.sqrt g : ℝ) : ℂ) * amp u H f := by
  simp only [amp, plScale, RC.ofReal, RFun.sqrt, Finset.mul_sum]
  refine Finset.sum_congr rfl (fun a _ => Finset.sum_congr rfl (fun b _ => ?_))
  ring

end PyPhysim.Sinr.Pf
