import PyPhysim.Model.CacheEffects
/-!
# What the sufficiency condition on an effect table means

`sufficientRow d r` (`Model/CacheEffects.lean`) is a decidable condition on one row of
an effect table and a dependency table.  This file proves the semantic statement behind
it, for ANY object whose attributes take values in any type `V`:

> let every derived attribute `c` come with a coherence relation `rel c` that looks only
> at `c` and at the attributes in the dependency closure of `c`; if a call changes only
> the attributes the row lists as written, and whatever it stores in a derived attribute
> is `None` or coherent, then a row that satisfies `sufficientRow` takes coherent objects
> to coherent objects.

Nothing here refers to a particular class: the theorem is instantiated with the tables
generated from the source in `Properties/C08.lean` / `Properties/C10.lean`.
-/
namespace PyPhysim.CacheEffects

variable {V : Type}

/-- an attribute valuation -/
abbrev Obj (V : Type) := String → V

/-- `rel c` reads only `c` and the dependency closure of `c` -/
def Local (d : Deps) (rel : String → Obj V → Prop) : Prop :=
  ∀ c (σ τ : Obj V), (∀ a, a = c ∨ a ∈ d.closure c → σ a = τ a) → (rel c σ ↔ rel c τ)

/-- every derived attribute (outside `skip`) is empty or coherent -/
def Coh (none : V) (d : Deps) (skip : String → Bool) (rel : String → Obj V → Prop) (σ : Obj V) : Prop :=
  ∀ c ∈ d.derived, skip c = false → σ c = none ∨ rel c σ

/-- the call obeys the row: attributes outside `written` keep their value; a derived attribute
    listed under `clears` / `assigns` ends `None` or coherent; a derived attribute written only
    on some paths is left as it was, or ends `None` or coherent -/
def Obeys (none : V) (d : Deps) (rel : String → Obj V → Prop) (r : Row) (σ τ : Obj V) : Prop :=
  (∀ a, a ∉ r.written → τ a = σ a)
  ∧ (∀ c ∈ d.derived, c ∈ r.mustWritten → τ c = none ∨ rel c τ)
  ∧ (∀ c ∈ d.derived, c ∈ r.written → τ c = σ c ∨ τ c = none ∨ rel c τ)

theorem sufficientRowBut_spec {skip : String → Bool} {d : Deps} {r : Row}
    (h : sufficientRowBut skip d r = true) {c : String} (hc : c ∈ d.derived) (hs : skip c = false) :
    c ∈ r.mustWritten ∨ ∀ a ∈ r.written, a = c ∨ a ∉ d.closure c := by
  unfold sufficientRowBut at h
  rw [List.all_eq_true] at h
  have h1 := h c hc
  simp only [hs, Bool.false_or, Bool.or_eq_true, List.all_eq_true] at h1
  rcases h1 with h1 | h1
  · exact .inl (by simpa using h1)
  · right
    intro a ha
    rcases h1 a ha with h2 | h2
    · exact .inl (by simpa using h2)
    · exact .inr (by simpa using h2)

/-- **Meaning of the sufficiency condition.**  A call that obeys a row satisfying
    `sufficientRowBut skip` preserves the coherence of every derived attribute outside `skip`,
    whatever the values, the coherence relations (as long as they read only the dependency
    closure) and the attributes are. -/
theorem sufficient_preserves_coherence (none : V) (d : Deps) (skip : String → Bool)
    (rel : String → Obj V → Prop) (hloc : Local d rel) (r : Row)
    (hsuff : sufficientRowBut skip d r = true) (σ τ : Obj V) (hob : Obeys none d rel r σ τ)
    (hcoh : Coh none d skip rel σ) : Coh none d skip rel τ := by
  intro c hc hs
  obtain ⟨hframe, hmust, hmay⟩ := hob
  rcases sufficientRowBut_spec hsuff hc hs with hm | hout
  · exact hmust c hc hm
  · -- no attribute of the closure of `c` (other than `c` itself) is written
    have keep : τ c = σ c → (τ c = none ∨ rel c τ) := by
      intro hcc
      have hag : ∀ a, a = c ∨ a ∈ d.closure c → σ a = τ a := by
        intro a ha
        by_cases hw : a ∈ r.written
        · rcases hout a hw with h1 | h1
          · rw [h1, hcc]
          · rcases ha with h2 | h2
            · rw [h2, hcc]
            · exact absurd h2 h1
        · exact (hframe a hw).symm
      rcases hcoh c hc hs with h0 | h0
      · exact .inl (by rw [hcc, h0])
      · exact .inr ((hloc c σ τ hag).mp h0)
    by_cases hw : c ∈ r.written
    · rcases hmay c hc hw with h1 | h1
      · exact keep h1
      · exact h1
    · exact keep (hframe c hw)

/-- the same for a whole table: every row of `rows`, with the dependency table of its class -/
theorem sufficientBut_preserves_coherence (none : V) (deps : String → Deps) (skip : Row → String → Bool)
    (rows : List Row) (hsuff : sufficientBut skip deps rows = true)
    (rel : String → String → Obj V → Prop) (hloc : ∀ cls, Local (deps cls) (rel cls))
    (r : Row) (hr : r ∈ rows) (σ τ : Obj V) (hob : Obeys none (deps r.cls) (rel r.cls) r σ τ)
    (hcoh : Coh none (deps r.cls) (skip r) (rel r.cls) σ) : Coh none (deps r.cls) (skip r) (rel r.cls) τ := by
  unfold sufficientBut at hsuff
  rw [List.all_eq_true] at hsuff
  exact sufficient_preserves_coherence none (deps r.cls) (skip r) (rel r.cls) (hloc r.cls) r (hsuff r hr) σ τ hob hcoh

theorem sufficient_eq_sufficientBut (deps : String → Deps) (rows : List Row) :
    sufficient deps rows = sufficientBut (fun _ _ => false) deps rows := by
  unfold sufficient sufficientBut sufficientRow sufficientRowBut
  simp

end PyPhysim.CacheEffects
