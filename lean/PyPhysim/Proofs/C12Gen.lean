import Mathlib.Algebra.Order.Field.Basic
import Mathlib.Algebra.BigOperators.Group.List.Basic
import Mathlib.Tactic.Ring
import PyPhysim.Model.C12
import PyPhysim.Generated.C12WaterFilling

/-!
# C12 helper lemmas, part 5: the regenerated text of `doWF` equals the hand model

`Generated/C12WaterFilling.lean` (re-emitted from the AST of `waterfilling.py` on every run)
states the algorithm on the *descending* view `asc.reverse` with Python index arithmetic and
the loop counter `r`; the hand model (`Model/C12.lean`) recurses on the *ascending* list and
drops its head.  The dictionary is `asc.drop r` = "the channels still in use, worst first":

* `loopTest_cons`, `loopTest_end`, `loopTest_empty` — the regenerated loop test / recomputation
  at counter `r` is the model's test `P < Σ excess` on `asc.drop r`;
* `loop_spec`  — the regenerated loop (fuel `n + 1` suffices) stops at `r'` with
  `asc.drop r' = dropLoop (asc.drop r)`;
* `finish_cons`, `finish_end` — remainder split, scatter and returned level;
* `doWFGen_eq_doWFWith` — the assembled regenerated function is `doWFWith`.
-/
namespace PyPhysim.C12
open PyPhysim.Proto PyPhysim.Generated.C12WaterFilling

/-! ### the numpy primitives -/

theorem pyGet_natCast {β : Type} (l : List β) (i : Nat) (h : i < l.length) :
    pyGet l (i : Int) = .ok l[i] := by
  have h0 : ¬ ((i : Int) < 0) := by omega
  simp [pyGet, h0, h]

theorem pyGet_nil {β : Type} (i : Int) : pyGet ([] : List β) i = .error .IndexError := by
  unfold pyGet
  by_cases h : i < 0 <;> simp [h]

theorem pyGet_neg_one {β : Type} (l : List β) (h : l ≠ []) : ∃ x, pyGet l (-1) = .ok x := by
  have hl : 0 < l.length := List.length_pos_iff.mpr h
  have e : (-1 : Int) + (l.length : Int) = ((l.length - 1 : Nat) : Int) := by omega
  refine ⟨l[l.length - 1]'(by omega), ?_⟩
  have h1 : l.length - 1 < l.length := by omega
  simp [pyGet, e, h1]

theorem pyGet_zero {β : Type} (l : List β) :
    pyGet l 0 = match l.head? with | some x => .ok x | none => .error .IndexError := by
  cases l <;> simp [pyGet]

theorem pyPrefix_natCast {β : Type} (l : List β) (k : Nat) (h : k ≤ l.length) :
    pyPrefix l (k : Int) = .ok (l.take k) := by
  have : (0 : Int) ≤ (k : Int) ∧ (k : Int) ≤ (l.length : Int) := by omega
  simp [pyPrefix, this]

theorem pyScatter_reverse {α : Type} [Zero α] (n : Nat) (is : List Nat) (vs : List α)
    (h : is.length = vs.length) :
    pyScatter n is.reverse vs.reverse = scatter n (is.zip vs) := by
  unfold pyScatter scatter
  congr 1
  funext j
  unfold pyScatterAt scatterAt
  have : (List.zip is.reverse vs.reverse).reverse = List.zip is vs := by
    rw [List.zip_eq_zipWith, List.zip_eq_zipWith, ← List.reverse_zipWith h, List.reverse_reverse]
  rw [this]
  rfl

/-! ### the descending view -/

theorem take_reverse_map {β γ : Type} (asc : List β) (f : β → γ) (r : Nat) (hr : r ≤ asc.length) :
    (asc.reverse.map f).take (asc.length - r) = ((asc.drop r).reverse).map f := by
  rw [← List.map_take, List.take_reverse]
  congr 3
  omega

theorem get_desc {β γ : Type} (asc : List β) (f : β → γ) (r : Nat) (w : β) (hr : r < asc.length)
    (hw : asc[r]? = some w) :
    pyGet (asc.reverse.map f) (((asc.length - r - 1 : Nat)) : Int) = .ok (f w) := by
  rw [pyGet_natCast _ _ (by simp; omega)]
  congr 1
  simp only [List.getElem_map, List.getElem_reverse]
  have hv := (List.getElem?_eq_some_iff.mp hw).2
  rw [← hv]
  congr 2
  omega

variable {α : Type} [Field α] [LinearOrder α]

omit [LinearOrder α] in
/-- `Ps` of the regenerated text (descending, over the gains) is the reversed `excess` -/
theorem ps_desc (N Es : α) (w : Chan α) (K : List (Chan α)) :
    (K.reverse.map (fun x => x.1)).map (fun x => N / (Es * w.1) - N / (Es * x))
      = (excess N Es w K).reverse := by
  simp [excess, level, List.map_reverse, Function.comp_def]

theorem drop_facts {β : Type} (asc : List β) (r : Nat) (w : β) (rest : List β)
    (h : asc.drop r = w :: rest) :
    r < asc.length ∧ asc[r]? = some w ∧ asc.drop (r + 1) = rest := by
  have hr : r < asc.length := by
    by_contra hc
    rw [List.drop_eq_nil_of_le (by omega)] at h
    cases h
  refine ⟨hr, ?_, ?_⟩
  · have := congrArg List.head? h
    simpa [List.head?_drop] using this
  · have := congrArg List.tail h
    simpa [List.tail_drop] using this

/-- recomputation + loop test at counter `r`, some channel still in use -/
theorem loopTest_cons (asc : List (Chan α)) (P N Es : α) (r : Nat) (w : Chan α)
    (rest : List (Chan α)) (h : asc.drop r = w :: rest) :
    loopTest (asc.reverse.map (fun x => x.1)) (asc.reverse.map (fun x => x.2)) P N Es asc.length r
      = .ok (decide (P < (excess N Es w (w :: rest)).sum)) := by
  obtain ⟨hr, hw, _⟩ := drop_facts asc r w rest h
  have e1 : ((asc.length : Int) - (r : Int)) = (((asc.length - r : Nat)) : Int) := by omega
  have e2 : (((asc.length - r : Nat)) : Int) - 1 = (((asc.length - r - 1 : Nat)) : Int) := by omega
  have hget := get_desc asc (fun x => x.1) r w hr hw
  have hpre := pyPrefix_natCast (asc.reverse.map (fun x => x.1)) (asc.length - r) (by simp)
  rw [take_reverse_map asc _ r hr.le, h] at hpre
  have hpos : (0 : Int) < (((asc.length - r : Nat)) : Int) := by omega
  simp only [loopTest, e1, e2, hget, hpre, bind, Except.bind, pure, Except.pure, ps_desc,
    List.sum_reverse, hpos, decide_true, Bool.and_true]

/-- … every channel removed (`r = n`, `n > 0`): `Ps` is empty and the bound stops the loop -/
theorem loopTest_end (asc : List (Chan α)) (P N Es : α) (hne : asc ≠ []) :
    loopTest (asc.reverse.map (fun x => x.1)) (asc.reverse.map (fun x => x.2)) P N Es
      asc.length asc.length = .ok false := by
  have e1 : ((asc.length : Int) - (asc.length : Int)) = ((0 : Nat) : Int) := by omega
  have e2 : ((0 : Nat) : Int) - 1 = -1 := by omega
  obtain ⟨x, hx⟩ := pyGet_neg_one (asc.reverse.map (fun x => x.1)) (by simpa using hne)
  have hpre := pyPrefix_natCast (asc.reverse.map (fun x => x.1)) 0 (by simp)
  simp only [loopTest, e1, e2, hx, hpre, bind, Except.bind, pure, Except.pure]
  simp

/-- … no channel at all: `vtChannelsSorted[-1]` raises -/
theorem loopTest_empty (P N Es : α) :
    loopTest ([] : List α) ([] : List Nat) P N Es 0 0 = .error .IndexError := by
  simp [loopTest, pyPrefix, pyGet_nil, bind, Except.bind]

/-- the regenerated loop from counter `r` stops where the model's `dropLoop` stops on
    `asc.drop r`; fuel: one more than the number of channels still in use -/
theorem loop_spec (asc : List (Chan α)) (P N Es : α) (hne : asc ≠ []) :
    ∀ (L : List (Chan α)) (r fuel : Nat), asc.drop r = L → r ≤ asc.length → L.length < fuel →
      ∃ r', loop (asc.reverse.map (fun x => x.1)) (asc.reverse.map (fun x => x.2)) P N Es
              asc.length fuel r = .ok r' ∧ r' ≤ asc.length ∧ asc.drop r' = dropLoop N Es P L := by
  intro L
  induction L with
  | nil =>
    intro r fuel h hr hf
    have : r = asc.length := by
      have := congrArg List.length h
      simp at this
      omega
    subst this
    obtain ⟨f, rfl⟩ : ∃ f, fuel = f + 1 := ⟨fuel - 1, by simp at hf; omega⟩
    refine ⟨asc.length, ?_, le_rfl, ?_⟩
    · simp only [PyPhysim.Generated.C12WaterFilling.loop, loopTest_end asc P N Es hne]
    · simp [dropLoop]
  | cons w rest ih =>
    intro r fuel h hr hf
    obtain ⟨hlt, _, hnext⟩ := drop_facts asc r w rest h
    obtain ⟨f, rfl⟩ : ∃ f, fuel = f + 1 := ⟨fuel - 1, by simp at hf; omega⟩
    by_cases hS : P < (excess N Es w (w :: rest)).sum
    · obtain ⟨r', h1, h2, h3⟩ := ih (r + 1) f hnext (by omega) (by simp at hf; omega)
      refine ⟨r', ?_, h2, ?_⟩
      · simp only [PyPhysim.Generated.C12WaterFilling.loop, loopTest_cons asc P N Es r w rest h, hS, decide_true, h1]
      · simp only [dropLoop, hS, if_true, h3]
    · refine ⟨r, ?_, hr, ?_⟩
      · simp only [PyPhysim.Generated.C12WaterFilling.loop, loopTest_cons asc P N Es r w rest h, hS, decide_false]
      · simp only [dropLoop, hS, if_false, h]

omit [LinearOrder α] in
/-- after the loop, every channel removed: `vtOptPaux[0]` raises -/
theorem finish_end (asc : List (Chan α)) (P N Es : α) (hne : asc ≠ []) :
    finish (asc.reverse.map (fun x => x.1)) (asc.reverse.map (fun x => x.2)) P N Es
      asc.length asc.length = .error .IndexError := by
  have e1 : ((asc.length : Int) - (asc.length : Int)) = ((0 : Nat) : Int) := by omega
  have e2 : ((0 : Nat) : Int) - 1 = -1 := by omega
  obtain ⟨x, hx⟩ := pyGet_neg_one (asc.reverse.map (fun x => x.1)) (by simpa using hne)
  have hpre := pyPrefix_natCast (asc.reverse.map (fun x => x.1)) 0 (by simp)
  have hpre' := pyPrefix_natCast (asc.reverse.map (fun x => x.2)) 0 (by simp)
  simp only [finish, e1, e2, hx, hpre, hpre', bind, Except.bind, pure, Except.pure]
  simp [pyGet_nil]

omit [LinearOrder α] in
/-- after the loop, channels `w :: rest = asc.drop r` in use: remainder split, scatter back
    to the original order and returned level are the model's -/
theorem finish_cons (asc : List (Chan α)) (P N Es : α) (r : Nat) (w : Chan α)
    (rest : List (Chan α)) (h : asc.drop r = w :: rest) :
    finish (asc.reverse.map (fun x => x.1)) (asc.reverse.map (fun x => x.2)) P N Es asc.length r
      = (let kept := w :: rest
         let Ps := excess N Es w kept
         let dPdiff := P - Ps.sum
         let aux := Ps.map (fun x => dPdiff / ((kept.length : Nat) : α) + x)
         let p := scatter asc.length (List.zip (kept.map (·.2)) aux)
         match kept.getLast?, aux.getLast? with
         | some best, some aux0 => .ok (p, aux0 + N / (Es * best.1))
         | _, _ => .error .IndexError) := by
  obtain ⟨hr, hw, _⟩ := drop_facts asc r w rest h
  have hlen : (w :: rest).length = asc.length - r := by rw [← h, List.length_drop]
  have e1 : ((asc.length : Int) - (r : Int)) = (((asc.length - r : Nat)) : Int) := by omega
  have e2 : (((asc.length - r : Nat)) : Int) - 1 = (((asc.length - r - 1 : Nat)) : Int) := by omega
  have hget := get_desc asc (fun x => x.1) r w hr hw
  have hpre := pyPrefix_natCast (asc.reverse.map (fun x => x.1)) (asc.length - r) (by simp)
  rw [take_reverse_map asc _ r hr.le, h] at hpre
  have hpre' := pyPrefix_natCast (asc.reverse.map (fun x => x.2)) (asc.length - r) (by simp)
  rw [take_reverse_map asc _ r hr.le, h] at hpre'
  -- the best channel
  have hbest : (asc.reverse.map (fun x => x.1)).head? = ((w :: rest).getLast?).map (fun x => x.1) := by
    rw [← h, List.getLast?_drop, if_neg (by omega)]
    simp
  obtain ⟨best, hb⟩ : ∃ best, (w :: rest).getLast? = some best :=
    ⟨(w :: rest).getLast (by simp), List.getLast?_eq_some_getLast (by simp)⟩
  -- the powers of the channels in use, descending = the model's `aux`, reversed
  have haux : ((w :: rest).reverse.map (fun x => x.1)).map
        (fun x => (P - (((w :: rest).reverse.map (fun x => x.1)).map
            (fun x => N / (Es * w.1) - N / (Es * x))).sum) / ((((asc.length - r : Nat)) : Int) : α)
          + (N / (Es * w.1) - N / (Es * x)))
      = ((excess N Es w (w :: rest)).map
          (fun x => (P - (excess N Es w (w :: rest)).sum) / (((w :: rest).length : Nat) : α) + x)).reverse := by
    rw [ps_desc, List.sum_reverse, hlen, Int.cast_natCast]
    simp [excess, level, List.map_reverse, Function.comp_def]
  simp only [finish, e1, e2, hget, hpre, hpre', bind, Except.bind, pure, Except.pure, haux]
  rw [pyGet_zero, pyGet_zero, hbest, hb, List.head?_reverse]
  simp only [List.map_reverse]
  rw [pyScatter_reverse _ _ _ (by simp [excess])]
  cases hA : ((excess N Es w (w :: rest)).map
      (fun x => (P - (excess N Es w (w :: rest)).sum) / (((w :: rest).length : Nat) : α) + x)).getLast? with
  | none => simp [excess] at hA
  | some a => simp

/-- the regenerated `doWF`, assembled, is the hand model (every sort result, every input) -/
theorem doWFGen_eq_doWFWith (asc : List (Chan α)) (P N Es : α) :
    doWFGen asc asc.length P N Es = doWFWith asc asc.length P N Es := by
  cases hasc : asc with
  | nil =>
    simp [doWFGen, sortView, removed0, PyPhysim.Generated.C12WaterFilling.loop, loopTest_empty, doWFWith]
  | cons a l =>
    rw [← hasc]
    have hne : asc ≠ [] := by rw [hasc]; simp
    obtain ⟨r', h1, h2, h3⟩ := loop_spec asc P N Es hne asc 0 (asc.length + 1) (by simp) (by omega)
      (by omega)
    have hm : doWFWith asc asc.length P N Es =
        (match dropLoop N Es P asc with
          | [] => .error .IndexError
          | w :: rest =>
            let kept := w :: rest
            let Ps := excess N Es w kept
            let dPdiff := P - Ps.sum
            let aux := Ps.map (fun x => dPdiff / ((kept.length : Nat) : α) + x)
            let p := scatter asc.length (List.zip (kept.map (·.2)) aux)
            match kept.getLast?, aux.getLast? with
            | some best, some aux0 => .ok (p, aux0 + N / (Es * best.1))
            | _, _ => .error .IndexError) := by
      rw [hasc]; rfl
    rw [hm]
    simp only [doWFGen, sortView, removed0, h1]
    cases hK : dropLoop N Es P asc with
    | nil =>
      rw [hK] at h3
      have : r' = asc.length := by
        have := congrArg List.length h3
        simp at this
        omega
      rw [this]
      exact finish_end asc P N Es hne
    | cons w rest =>
      rw [hK] at h3
      exact finish_cons asc P N Es r' w rest h3

end PyPhysim.C12
