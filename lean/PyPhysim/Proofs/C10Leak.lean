import PyPhysim.Proofs.C10Power
import Mathlib.Analysis.Complex.Basic

/-!
Leaked interference power of the minimum-leakage solver: the cost the code
reports is the sum over all cross links of `P_l ‖W_kᴴ H_kl F_l‖²`, it coincides
with the cost of the reverse network for equal powers (reciprocity), and one
iteration made of two per-user minimisations cannot increase it.
-/
set_option linter.unusedSectionVars false
set_option linter.unusedVariables false
set_option linter.unusedSimpArgs false
namespace PyPhysim.C10
open Matrix
open scoped ComplexOrder

variable {K : Nat} {d : Dims K}

/-- interference power of transmitter `l` at the output of the filter of receiver `k`:
    `tr(W_kᴴ H_kl F_l F_lᴴ H_klᴴ W_k) = ‖W_kᴴ H_kl F_l‖²_F` -/
noncomputable def link (H : Chan ℂ d) (F : Prec ℂ d) (W : Filt ℂ d) (k l : Fin K) : ℂ :=
  Matrix.trace (((toM (W k))ᴴ * (toM (H k l) * toM (F l))) * ((toM (W k))ᴴ * (toM (H k l) * toM (F l)))ᴴ)

/-- leakage seen through the receive filters in the direct network -/
noncomputable def leakDirect (H : Chan ℂ d) (fF : Prec ℂ d) (W : Filt ℂ d) : ℂ :=
  ∑ k, Matrix.trace ((toM (W k))ᴴ * toM (calcQ H fF k) * toM (W k))

/-- leakage seen through the precoders in the reverse network -/
noncomputable def leakReverse (H : Chan ℂ d) (W : Filt ℂ d) (P : Fin K → ℂ) (F : Prec ℂ d) : ℂ :=
  ∑ k, Matrix.trace ((toM (F k))ᴴ * toM (calcQrev H W P k) * toM (F k))

theorem toM_calcQ (H : Chan ℂ d) (fF : Prec ℂ d) (k : Fin K) :
    toM (calcQ H fF k)
      = ∑ l, if l = k then 0 else (toM (H k l) * toM (fF l)) * (toM (H k l) * toM (fF l))ᴴ := by
  unfold calcQ
  rw [toM_msum]
  refine Finset.sum_congr rfl (fun l _ => ?_)
  split
  · exact toM_mzero
  · simp only [toM_outerG, toM_matMul]

theorem toM_calcQrev (H : Chan ℂ d) (W : Filt ℂ d) (P : Fin K → ℂ) (k : Fin K) :
    toM (calcQrev H W P k)
      = ∑ l, if l = k then 0 else
          P l • (((toM (H l k))ᴴ * toM (W l)) * ((toM (H l k))ᴴ * toM (W l))ᴴ) := by
  unfold calcQrev
  rw [toM_msum]
  refine Finset.sum_congr rfl (fun l _ => ?_)
  split
  · exact toM_mzero
  · simp only [toM_matMul, toM_smul, toM_cT, Matrix.smul_mul]

theorem toM_fullF (F : Prec ℂ d) (P : Fin K → ℂ) (l : Fin K) :
    toM (fullF F P l) = RSqrt.sqrt (P l) • toM (F l) := by
  simp only [fullF, toM_mscale]

/-- the direct leakage is the sum of the link powers weighted by the TRANSMIT powers -/
theorem leakDirect_eq (H : Chan ℂ d) (F : Prec ℂ d) (W : Filt ℂ d) (P : Fin K → ℂ) :
    leakDirect H (fullF F P) W
      = ∑ k, ∑ l, if l = k then 0 else
          (RSqrt.sqrt (P l) * star (RSqrt.sqrt (P l) : ℂ)) * link H F W k l := by
  unfold leakDirect
  refine Finset.sum_congr rfl (fun k _ => ?_)
  rw [toM_calcQ, Matrix.mul_sum, Matrix.sum_mul, Matrix.trace_sum]
  refine Finset.sum_congr rfl (fun l _ => ?_)
  split
  · simp
  · simp only [toM_fullF, link, Matrix.mul_smul, Matrix.smul_mul, conjTranspose_smul, conjTranspose_mul,
      conjTranspose_conjTranspose, Matrix.trace_smul, smul_eq_mul, Matrix.mul_assoc]
    ring

/-- the reverse leakage is the sum of the same link powers weighted by the powers of the
    RECEIVING users (which transmit in the reverse network) -/
theorem leakReverse_eq (H : Chan ℂ d) (F : Prec ℂ d) (W : Filt ℂ d) (P : Fin K → ℂ) :
    leakReverse H W P F = ∑ k, ∑ l, if l = k then 0 else P k * link H F W k l := by
  unfold leakReverse
  rw [Finset.sum_comm]
  refine Finset.sum_congr rfl (fun k _ => ?_)
  rw [toM_calcQrev, Matrix.mul_sum, Matrix.sum_mul, Matrix.trace_sum]
  refine Finset.sum_congr rfl (fun l _ => ?_)
  by_cases h : l = k
  · simp [h]
  · have h' : ¬ k = l := fun e => h e.symm
    simp only [h, h', if_false, link, Matrix.mul_smul, Matrix.smul_mul, Matrix.trace_smul, smul_eq_mul]
    congr 1
    simp only [conjTranspose_mul, conjTranspose_conjTranspose]
    have e1 : (toM (F k))ᴴ * ((toM (H l k))ᴴ * toM (W l) * ((toM (W l))ᴴ * toM (H l k))) * toM (F k)
        = ((toM (F k))ᴴ * (toM (H l k))ᴴ * toM (W l)) * ((toM (W l))ᴴ * toM (H l k) * toM (F k)) := by
      simp only [Matrix.mul_assoc]
    have e2 : (toM (W l))ᴴ * (toM (H l k) * toM (F k)) * ((toM (F k))ᴴ * (toM (H l k))ᴴ * toM (W l))
        = ((toM (W l))ᴴ * toM (H l k) * toM (F k)) * ((toM (F k))ᴴ * (toM (H l k))ᴴ * toM (W l)) := by
      simp only [Matrix.mul_assoc]
    rw [e1, e2, Matrix.trace_mul_comm]

/-- Clause "leakage reciprocity": for equal powers `p ≥ 0` the total leakage of the direct
    network (what `get_cost` sums) equals the total leakage of the reverse network (what the
    precoder update minimises). -/
theorem leak_reciprocity (H : Chan ℂ d) (F : Prec ℂ d) (W : Filt ℂ d) (p : ℝ) (hp : 0 ≤ p) :
    leakDirect H (fullF F (fun _ => (p : ℂ))) W = leakReverse H W (fun _ => (p : ℂ)) F := by
  rw [leakDirect_eq, leakReverse_eq]
  refine Finset.sum_congr rfl (fun k _ => Finset.sum_congr rfl (fun l _ => ?_))
  rw [sqrt_mul_star p hp]

/-- every link power is a non-negative real -/
theorem link_nonneg (H : Chan ℂ d) (F : Prec ℂ d) (W : Filt ℂ d) (k l : Fin K) : 0 ≤ link H F W k l :=
  (posSemidef_self_mul_conjTranspose _).trace_nonneg

/-- one iteration of the minimum-leakage solver, as two families of per-user inequalities
    (what the `leig` calls guarantee against the current iterate, see `kyfan_min`):
    the new precoder of every user leaks no more than the old one INTO THE OLD FILTERS of the
    reverse network, and the new filter of every user collects no more interference FROM THE NEW
    PRECODERS than the old one.  Then the total leakage does not increase. -/
theorem minleak_step_le (H : Chan ℂ d) (F F' : Prec ℂ d) (W W' : Filt ℂ d) (p : ℝ) (hp : 0 ≤ p)
    (hF : ∀ k, (Matrix.trace ((toM (F' k))ᴴ * toM (calcQrev H W (fun _ => (p : ℂ)) k) * toM (F' k))).re
             ≤ (Matrix.trace ((toM (F k))ᴴ * toM (calcQrev H W (fun _ => (p : ℂ)) k) * toM (F k))).re)
    (hW : ∀ k, (Matrix.trace ((toM (W' k))ᴴ * toM (calcQ H (fullF F' (fun _ => (p : ℂ))) k) * toM (W' k))).re
             ≤ (Matrix.trace ((toM (W k))ᴴ * toM (calcQ H (fullF F' (fun _ => (p : ℂ))) k) * toM (W k))).re) :
    (leakDirect H (fullF F' (fun _ => (p : ℂ))) W').re ≤ (leakDirect H (fullF F (fun _ => (p : ℂ))) W).re := by
  calc (leakDirect H (fullF F' (fun _ => (p : ℂ))) W').re
      ≤ (leakDirect H (fullF F' (fun _ => (p : ℂ))) W).re := by
        unfold leakDirect
        rw [Complex.re_sum, Complex.re_sum]
        exact Finset.sum_le_sum (fun k _ => hW k)
    _ = (leakReverse H W (fun _ => (p : ℂ)) F').re := by rw [leak_reciprocity H F' W p hp]
    _ ≤ (leakReverse H W (fun _ => (p : ℂ)) F).re := by
        unfold leakReverse
        rw [Complex.re_sum, Complex.re_sum]
        exact Finset.sum_le_sum (fun k _ => hF k)
    _ = (leakDirect H (fullF F (fun _ => (p : ℂ))) W).re := by rw [leak_reciprocity H F W p hp]

/-! ### what `get_cost` computes -/

theorem ofReal_norm_of_nonneg {z : ℂ} (h : 0 ≤ z) : ((‖z‖ : ℝ) : ℂ) = z := by
  obtain ⟨hre, him⟩ := Complex.nonneg_iff.mp h
  have hz : z = ((z.re : ℝ) : ℂ) := Complex.ext (by simp) (by simp [← him])
  rw [hz, Complex.norm_real, Real.norm_of_nonneg hre]

theorem calcQ_posSemidef (H : Chan ℂ d) (fF : Prec ℂ d) (k : Fin K) : (toM (calcQ H fF k)).PosSemidef := by
  rw [toM_calcQ]
  refine posSemidef_sum _ (fun l _ => ?_)
  split
  · exact PosSemidef.zero
  · exact posSemidef_self_mul_conjTranspose _

/-- `MinLeakageIASolver.get_cost()` without noise — `Σ_k tr(|W_kᴴ Q_k W_k|)` with the entrywise
    absolute value — is the total leakage `Σ_k tr(W_kᴴ Q_k W_k)` -/
theorem minLeakCost_eq (H : Chan ℂ d) (fF : Prec ℂ d) (W : Filt ℂ d) :
    minLeakCost H fF none W = leakDirect H fF W := by
  unfold minLeakCost leakDirect
  rw [sumFin_eq]
  refine Finset.sum_congr rfl (fun k _ => ?_)
  rw [sumFin_eq, Matrix.trace]
  refine Finset.sum_congr rfl (fun i _ => ?_)
  have hps : ((toM (W k))ᴴ * toM (calcQ H fF k) * toM (W k)).PosSemidef :=
    (calcQ_posSemidef H fF k).conjTranspose_mul_mul_same _
  have hm : matMul (matMul (cT (W k)) (calcQn H fF none k)) (W k) i i
      = ((toM (W k))ᴴ * toM (calcQ H fF k) * toM (W k)) i i := by
    have := congrFun (congrFun (show toM (matMul (matMul (cT (W k)) (calcQn H fF none k)) (W k))
        = (toM (W k))ᴴ * toM (calcQ H fF k) * toM (W k) by
          simp only [toM_matMul, toM_cT, calcQn]) i) i
    exact this
  rw [hm]
  simp only [AbsR.abs, Matrix.diag_apply]
  exact ofReal_norm_of_nonneg hps.diag_nonneg

end PyPhysim.C10
