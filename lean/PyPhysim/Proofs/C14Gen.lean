/-
C14 — bridge lemmas between the module REGENERATED from the current source
(`Generated/C14Jakes.lean`: symbolic execution of `generate_more_samples` /
`skip_samples_for_next_generation`, the time scale, the Jakes formula) and the
hand model (`Model/C14.lean`).

The only lemmas that look at the generated text are the NORMAL FORMS
(`genStep_default … skipStep_neg`, `timeOfIndex_eq`, `rayPhaseGen_eq`,
`amplitudeGen_eq`, `free…`): they are proved by case analysis + linear integer
arithmetic / `ring`, so an equivalent spelling of the source (commuted sums and
products, `math.tau`, a mirrored guard, extracted helpers) re-proves, while a
semantic change (other first index / count / step, another counter update, a
counter that moves before a refusal, another time scale, phase, amplitude)
leaves one of them false.  Everything else is derived from the normal forms.
-/
import Mathlib.Tactic.Ring
import PyPhysim.Proofs.C14
import PyPhysim.Generated.C14Jakes

-- the fallback alternatives of the normal-form proofs are deliberate (they serve equivalent spellings of the source)
set_option linter.unusedTactic false
set_option linter.unreachableTactic false

namespace PyPhysim.C14
open PyPhysim.Proto
open PyPhysim.Generated.C14 (genStep skipStep timeOfIndex initCounter)

/-! ### normal forms of the regenerated bookkeeping -/

/-- closes a normal-form goal `genStep k a = (k', r)` after the request kind is fixed -/
macro "c14_nf" : tactic =>
  `(tactic| first
    | rfl
    | (simp only [genStep, skipStep]
       split <;> first
         | (exfalso; omega)
         | rfl
         | (refine Prod.ext ?_ ?_ <;> simp <;> omega)
         | (refine Prod.ext ?_ ?_ <;> simp <;> (try constructor) <;> omega))
    | (simp only [genStep, skipStep]
       refine Prod.ext ?_ ?_ <;> simp <;> omega))

theorem genStep_default (k : Int) : genStep k .default = (k + 1, .ok (k, 1, 1)) := by c14_nf
theorem genStep_notInt (k : Int) : genStep k .notInt = (k, .error .TypeError) := by c14_nf
theorem genStep_nonneg (k : Int) (n : Nat) :
    genStep k (.int (Int.ofNat n)) = (k + (n : Int), .ok (k, (n : Int), 1)) := by c14_nf
theorem genStep_neg (k : Int) (m : Nat) :
    genStep k (.int (Int.negSucc m)) = (k, .error .ValueError) := by c14_nf

theorem skipStep_default (k : Int) : skipStep k .default = (k, some .TypeError) := by c14_nf
theorem skipStep_notInt (k : Int) : skipStep k .notInt = (k, some .TypeError) := by c14_nf
theorem skipStep_nonneg (k : Int) (n : Nat) :
    skipStep k (.int (Int.ofNat n)) = (k + (n : Int), none) := by c14_nf
theorem skipStep_neg (k : Int) (m : Nat) :
    skipStep k (.int (Int.negSucc m)) = (k, some .ValueError) := by c14_nf

theorem initCounter_eq : initCounter = 0 := by rfl

/-! ### the model's view of one request, in the vocabulary of the generated module -/

/-- what the MODEL says about `generate_more_samples(a)` in state `s`: the counter
    after the call and either the exception or (first sample number, count, 1) of
    the produced block -/
def modelGenStep (s : State) (a : SizeArg) : Int × Except PyErr (Int × Int × Int) :=
  (((stepR s (.gen a)).1.k : Int),
    match (RawOp.gen a).check with
    | .error e => .error e
    | .ok op => match produced s op with
      | some b => .ok ((b.first : Int), (b.count : Int), 1)
      | none => .ok (0, 0, 0))

/-- what the MODEL says about `skip_samples_for_next_generation(a)` -/
def modelSkipStep (s : State) (a : SizeArg) : Int × Option PyErr :=
  (((stepR s (.skip a)).1.k : Int), (stepR s (.skip a)).2)

theorem genStep_eq_model (s : State) (a : SizeArg) : genStep (s.k : Int) a = modelGenStep s a := by
  cases a with
  | default => rw [genStep_default]; simp [modelGenStep, stepR, RawOp.check, step, produced, genBlock, reqCount]
  | notInt => rw [genStep_notInt]; simp [modelGenStep, stepR, RawOp.check]
  | int z =>
    cases z with
    | ofNat n =>
      rw [genStep_nonneg]
      simp [modelGenStep, stepR, RawOp.check, checkSize, Except.map, step, produced, genBlock, reqCount]
    | negSucc m =>
      rw [genStep_neg]
      simp [modelGenStep, stepR, RawOp.check, checkSize, Except.map]

theorem skipStep_eq_model (s : State) (a : SizeArg) : skipStep (s.k : Int) a = modelSkipStep s a := by
  cases a with
  | default => rw [skipStep_default]; simp [modelSkipStep, stepR, RawOp.check]
  | notInt => rw [skipStep_notInt]; simp [modelSkipStep, stepR, RawOp.check]
  | int z =>
    cases z with
    | ofNat n =>
      rw [skipStep_nonneg]
      simp [modelSkipStep, stepR, RawOp.check, checkSize, Except.map, step]
    | negSucc m =>
      rw [skipStep_neg]
      simp [modelSkipStep, stepR, RawOp.check, checkSize, Except.map]

/-- the sample indexes a regenerated request evaluates: `first + step * j`, `j < count` -/
def genIndexes (k : Int) (a : SizeArg) : List Int :=
  match (genStep k a).2 with
  | .ok (f, c, st) => (List.range c.toNat).map fun (j : Nat) => f + st * (j : Int)
  | .error _ => []

/-- an accepted regenerated request evaluates exactly the sample numbers of the
    model's block: `k, k+1, …, k+n-1` -/
theorem genIndexes_eq_block (s : State) (a : SizeArg) (op : Op) (h : (RawOp.gen a).check = .ok op) :
    ∃ n, op = .gen n ∧
      genIndexes (s.k : Int) a = ((genBlock s n).samples id).map Int.ofNat := by
  unfold genIndexes
  cases a with
  | default =>
    refine ⟨none, ?_, ?_⟩
    · simpa [RawOp.check] using h.symm
    · rw [genStep_default]; simp [Block.samples, genBlock, reqCount]
  | notInt => simp [RawOp.check] at h
  | int z =>
    cases z with
    | ofNat n =>
      refine ⟨some n, ?_, ?_⟩
      · simpa [RawOp.check, checkSize, Except.map] using h.symm
      · rw [genStep_nonneg]
        simp only [Block.samples, genBlock, reqCount, Int.toNat_natCast, List.map_map]
        apply List.map_congr_left
        intro j _
        simp
    | negSucc m => simp [RawOp.check, checkSize, Except.map] at h

/-- a refused regenerated request evaluates nothing -/
theorem genIndexes_refused (s : State) (a : SizeArg) (e : PyErr) (h : (RawOp.gen a).check = .error e) :
    genIndexes (s.k : Int) a = [] := by
  unfold genIndexes
  rw [genStep_eq_model]
  simp [modelGenStep, h]

/-! ### normal forms of the regenerated time scale and formula (over ℝ) -/

theorem timeOfIndex_eq (Ts : ℝ) (i : Nat) : timeOfIndex Ts i = sampleTime Ts i := by
  unfold Generated.C14.timeOfIndex sampleTime
  first | rfl | ring

theorem rayPhaseGen_eq (Fd t : ℝ) (r : ℝ × ℝ) : Generated.C14.rayPhase Fd t r = rayPhase Fd t r := by
  unfold Generated.C14.rayPhase rayPhase
  first | rfl | ring

theorem amplitudeGen_eq (L : Nat) :
    (Generated.C14.amplitude L : ℝ) = Transc.sqrt (((1 : Nat) : ℝ) / ((L : Nat) : ℝ)) := by
  unfold Generated.C14.amplitude
  first | rfl | (congr 1; ring)

theorem freeRayPhase_eq (Fd t : ℝ) (r : ℝ × ℝ) : Generated.C14.freeRayPhase Fd t r = rayPhase Fd t r := by
  unfold Generated.C14.freeRayPhase rayPhase
  first | rfl | ring

theorem freeAmplitude_eq (L : Nat) :
    (Generated.C14.freeAmplitude L : ℝ) = Transc.sqrt (((1 : Nat) : ℝ) / ((L : Nat) : ℝ)) := by
  unfold Generated.C14.freeAmplitude
  first | rfl | (congr 1; ring)

theorem isEmpty_iff_length (rays : List (ℝ × ℝ)) : rays.isEmpty = (rays.length == 0) := by
  cases rays <;> rfl

/-- the regenerated sum over the rays is the model's `jakes` (same exception for `L = 0`) -/
theorem jakesGen_eq (Fd : ℝ) (rays : List (ℝ × ℝ)) (t : ℝ) :
    Generated.C14.jakes Fd rays.length rays t = jakes Fd rays t := by
  simp only [Generated.C14.jakes, jakes, isEmpty_iff_length, amplitudeGen_eq,
    funext (rayPhaseGen_eq Fd t)]

theorem freeJakes_eq (Fd : ℝ) (rays : List (ℝ × ℝ)) (t : ℝ) :
    Generated.C14.freeJakes Fd rays.length rays t = jakes Fd rays t := by
  simp only [Generated.C14.freeJakes, jakes, isEmpty_iff_length, freeAmplitude_eq,
    funext (freeRayPhase_eq Fd t)]

end PyPhysim.C14
