import PyPhysim.Proofs.C20GmdInvTop
import PyPhysim.Proofs.C04Schemes
import PyPhysim.Proofs.C04Rank
import PyPhysim.Proofs.C04Energy

/-!
# GMD MIMO from the SVD contract alone

`GMDMimo._calc_precoder` / `_calc_receive_filter` run `gmd(*np.linalg.svd(channel))`.  The sweep
inside `util.misc.gmd` has an executable model (`PyPhysim.LinAlg.gmd`, `Model/C20Gmd.lean`, shared
with C20) that is PROVED correct (`Proofs/C20GmdInv*.lean`, `gmd_sound`).  This file carries that
result into the vocabulary of the C04 model:

* `gmdCall U S VH σ̄` — what the code's `gmd(U, S, V_H)` returns according to the C20 model, as C04
  matrices (`ofCols` / `ofRows` views of the arrays);
* conversion lemmas between the two core-only matrix vocabularies (`PyPhysim.C04.matMul/cT/eye`
  and `PyPhysim.LinAlg.matMul/cT/eye`: same text, two namespaces);
* `gmd_contract_from_svd` — under the SVD contract the call returns `.ok (Q, R, P)` satisfying the
  `gmd` contract that `gmd_roundtrip` / `encode_energy_gmd` assume;
* `fullColRank_of_svd` — positive singular values and `Nt ≤ Nr` are full column rank.
-/
set_option linter.unusedSectionVars false
set_option linter.unusedVariables false
namespace PyPhysim.C04
open PyPhysim.Proto Matrix

/-! ### the two matrix vocabularies are the same functions -/

theorem sumFin_linalg {β : Type} [Zero β] [Add β] : ∀ (n : Nat) (f : Fin n → β),
    sumFin n f = LinAlg.sumFin n f
  | 0, _ => rfl
  | n+1, f => by rw [sumFin, LinAlg.sumFin, sumFin_linalg n]

/-- `A.dot(B)` of the C04 model is `A.dot(B)` of the C20 model -/
theorem matMul_linalg {m k n : Nat} (A : Mat ℂ m k) (B : Mat ℂ k n) :
    matMul A B = LinAlg.matMul A B := by
  funext i j
  exact sumFin_linalg k _

/-- `A.conj().T` of the C04 model is the one of the C20 model (both are `star` at `ℂ`) -/
theorem cT_linalg {m n : Nat} (A : Mat ℂ m n) : cT A = LinAlg.cT A := rfl

/-- `np.eye(n)` -/
theorem eye_linalg {n : Nat} : (eye : Mat ℂ n n) = LinAlg.eye := rfl

theorem cT_cT {m n : Nat} (A : Mat ℂ m n) : cT (cT A) = A := by
  funext i j
  simp [cT, conj_def]

/-! ### the call `gmd(U, S, V_H)` -/

/-- a matrix stored as an array of columns / of rows (the results of the C20 array model), seen
    as a C04 matrix -/
def ofCols {m n : Nat} (A : Array (Array ℂ)) : Mat ℂ m n := fun i j => LinAlg.entryCols A i.val j.val
def ofRows {m n : Nat} (A : Array (Array ℂ)) : Mat ℂ m n := fun i j => LinAlg.entryRows A i.val j.val

/-- the `Nr × Nt` matrix `Σ` of a full SVD: `S` on the main diagonal, zero elsewhere -/
noncomputable def svdSigma {Nr Nt : Nat} (S : Fin (min Nr Nt) → ℝ) : Mat ℂ Nr Nt :=
  LinAlg.sigmaMat (fun i => ((S i : ℝ) : ℂ))

/-- `sigma_bar = math.exp(np.mean(np.log(S[0:p])))`, read over the reals -/
noncomputable def gmdSigmaBar {p : Nat} (S : Fin p → ℝ) : ℝ := Real.exp ((∑ i, Real.log (S i)) / p)

/-- `gmd(U, S, V_H)` as `GMDMimo` calls it (`tol = 0`: all `min(Nr, Nt)` singular values in use),
    computed by the executable model of the sweep (`PyPhysim.LinAlg.gmd`, instantiated at `ℂ` as the
    compiled drivers instantiate it at binary64: real `sqrt` of the real part, `≤` on real parts).
    `P = V_H.conj().T.copy()`, `Q = U.copy()` are handed over by columns; `σ̄` is the value the code
    computes from `S`. -/
noncomputable def gmdCall {Nr Nt : Nat} (U : Mat ℂ Nr Nr) (S : Fin (min Nr Nt) → ℝ) (VH : Mat ℂ Nt Nt)
    (sb : ℝ) : Except PyErr (Mat ℂ Nr Nr × Mat ℂ Nr Nt × Mat ℂ Nt Nt) :=
  match @LinAlg.gmd ℂ _ _ _ _ _ _ _ _ LinAlg.GmdInv.leRe LinAlg.GmdInv.decLeRe Nr Nt (min Nr Nt) (sb : ℂ)
      (LinAlg.colsOf U) (Array.ofFn (fun i => ((S i : ℝ) : ℂ))) (LinAlg.colsOf (cT VH)) with
  | .ok (Q, R, P, _) => .ok (ofCols Q, ofRows R, ofCols P)
  | .error e => .error e

/-- the contract of a full `np.linalg.svd(H)` as `GMDMimo` uses it: `U Σ V_H = H`, `Uᴴ U = 1`,
    `V_H V_Hᴴ = 1`, singular values positive (full rank) and sorted non-increasingly -/
structure IsFullSvd {Nr Nt : Nat} (H : Mat ℂ Nr Nt) (U : Mat ℂ Nr Nr) (S : Fin (min Nr Nt) → ℝ)
    (VH : Mat ℂ Nt Nt) : Prop where
  factor : matMul (matMul U (svdSigma S)) VH = H
  u_unitary : matMul (cT U) U = eye
  v_unitary : matMul VH (cT VH) = eye
  pos : ∀ i, 0 < S i
  sorted : ∀ i j, i ≤ j → S j ≤ S i

/-- the contract of `gmd` the C04 scheme theorems assume, plus what makes it a *geometric mean*
    decomposition -/
structure IsGmd {Nr Nt : Nat} (H : Mat ℂ Nr Nt) (sb : ℝ) (Q : Mat ℂ Nr Nr) (R : Mat ℂ Nr Nt)
    (P : Mat ℂ Nt Nt) : Prop where
  factor : matMul (matMul Q R) (cT P) = H
  p_unitary : matMul (cT P) P = eye
  q_unitary : matMul (cT Q) Q = eye
  upper : ∀ i j, j.val < i.val → R i j = 0
  diag : ∀ i j, i.val = j.val → i.val < min Nr Nt → R i j = (sb : ℂ)

namespace Pf
variable {Nr Nt : Nat}

/-- **central lemma.**  Under the SVD contract, for every `σ̄ > 0` with `σ̄^p = ∏ S` the model of
    `gmd(U, S, V_H)` raises nothing and returns a triple satisfying the `gmd` contract for `H`. -/
theorem gmd_contract_of_svd (H : Mat ℂ Nr Nt) (U : Mat ℂ Nr Nr) (S : Fin (min Nr Nt) → ℝ)
    (VH : Mat ℂ Nt Nt) (hsvd : IsFullSvd H U S VH) (hp : 0 < min Nr Nt) (sb : ℝ) (hsb : 0 < sb)
    (hprod : sb ^ (min Nr Nt) = ∏ i, S i) :
    ∃ Q R P, gmdCall U S VH sb = .ok (Q, R, P) ∧ IsGmd H sb Q R P := by
  have hU : LinAlg.matMul (LinAlg.cT U) U = LinAlg.eye := by
    rw [← cT_linalg, ← matMul_linalg, ← eye_linalg]; exact hsvd.u_unitary
  have hV : LinAlg.matMul (LinAlg.cT (cT VH)) (cT VH) = LinAlg.eye := by
    rw [← cT_linalg, ← matMul_linalg, ← eye_linalg, cT_cT]; exact hsvd.v_unitary
  obtain ⟨Q, R, P, mg, hok, h1, h2, h3, h4, h5⟩ :=
    @LinAlg.GmdInv.gmd_sound ℂ _ _ _ LinAlg.GmdInv.leRe LinAlg.GmdInv.decLeRe Complex.ofRealHom
      LinAlg.GmdInv.realLike_complex Nr Nt U (cT VH) S sb hp hU hV hsvd.pos hsvd.sorted hsb hprod
  refine ⟨ofCols Q, ofRows R, ofCols P, ?_, ?_, ?_, ?_, ?_, ?_⟩
  · unfold gmdCall
    have hok' : @LinAlg.gmd ℂ _ _ _ _ _ _ _ _ LinAlg.GmdInv.leRe LinAlg.GmdInv.decLeRe Nr Nt (min Nr Nt)
        (sb : ℂ) (LinAlg.colsOf U) (Array.ofFn (fun i => ((S i : ℝ) : ℂ))) (LinAlg.colsOf (cT VH))
        = .ok (Q, R, P, mg) := hok
    rw [hok']
  · rw [matMul_linalg, matMul_linalg, cT_linalg]
    refine Eq.trans h1 ?_
    rw [← hsvd.factor, matMul_linalg, matMul_linalg, ← cT_linalg, cT_cT]
    rfl
  · rw [matMul_linalg, cT_linalg, eye_linalg]; exact h3
  · rw [matMul_linalg, cT_linalg, eye_linalg]; exact h2
  · exact h4
  · exact h5

/-- the value the code computes for `σ̄` satisfies the hypotheses of the central lemma -/
theorem gmdSigmaBar_spec {p : Nat} (S : Fin p → ℝ) (hp : 0 < p) (hS : ∀ i, 0 < S i) :
    0 < gmdSigmaBar S ∧ gmdSigmaBar S ^ p = ∏ i, S i :=
  ⟨Real.exp_pos _, LinAlg.GmdInv.exp_mean_log_pow p S hp hS⟩


/-- `Σᴴ Σ = diag(S²)` for a tall (`Nt ≤ Nr`) `Σ` -/
theorem sigma_gram (S : Fin (min Nr Nt) → ℝ) (h : Nt ≤ Nr) :
    (toM (svdSigma S))ᴴ * toM (svdSigma S)
      = diagonal (fun b : Fin Nt => (((S ⟨b.val, Nat.lt_min.mpr ⟨lt_of_lt_of_le b.isLt h, b.isLt⟩⟩ : ℝ) : ℂ)) ^ 2) := by
  ext a b
  rw [Matrix.mul_apply, Finset.sum_eq_single (⟨b.val, lt_of_lt_of_le b.isLt h⟩ : Fin Nr)]
  · by_cases hab : a = b
    · subst hab
      simp [svdSigma, LinAlg.sigmaMat, conjTranspose_apply, sq]
    · have : ¬ b.val = a.val := fun e => hab (Fin.ext e.symm)
      simp [svdSigma, LinAlg.sigmaMat, conjTranspose_apply, hab, this]
  · intro r _ hr
    have : ¬ r.val = b.val := fun e => hr (Fin.ext e)
    simp [svdSigma, LinAlg.sigmaMat, this]
  · intro hh; exact absurd (Finset.mem_univ _) hh

/-- positive singular values and `Nt ≤ Nr`: the channel has full column rank -/
theorem fullColRank_of_svd (H : Mat ℂ Nr Nt) (U : Mat ℂ Nr Nr) (S : Fin (min Nr Nt) → ℝ)
    (VH : Mat ℂ Nt Nt) (hsvd : IsFullSvd H U S VH) (h : Nt ≤ Nr) : FullColRank H := by
  have hf := hsvd.factor
  have hU := hsvd.u_unitary
  have hV := hsvd.v_unitary
  c04_matrix at hf
  c04_matrix at hU
  c04_matrix at hV
  unfold FullColRank
  have e : (toM H)ᴴ * toM H = (toM VH)ᴴ * ((toM (svdSigma S))ᴴ * toM (svdSigma S)) * toM VH := by
    rw [← hf]
    simp only [conjTranspose_mul, Matrix.mul_assoc]
    rw [← Matrix.mul_assoc (toM U)ᴴ, hU, Matrix.one_mul]
  rw [e, sigma_gram S h]
  have hVu : IsUnit (toM VH) := ⟨⟨toM VH, (toM VH)ᴴ, hV, mul_eq_one_comm.mp hV⟩, rfl⟩
  have hVHu : IsUnit (toM VH)ᴴ := ⟨⟨(toM VH)ᴴ, toM VH, mul_eq_one_comm.mp hV, hV⟩, rfl⟩
  refine (hVHu.mul ?_).mul hVu
  rw [Matrix.isUnit_iff_isUnit_det, det_diagonal, isUnit_iff_ne_zero]
  refine Finset.prod_ne_zero_iff.mpr (fun b _ => pow_ne_zero 2 ?_)
  exact_mod_cast (hsvd.pos _).ne'

/-- conversely, full column rank forces `Nt ≤ Nr` -/
theorem le_of_fullColRank (H : Mat ℂ Nr Nt) (hr : FullColRank H) : Nt ≤ Nr := by
  have := (isUnit_gram_iff_rank (toM H)).mp hr
  have h2 := Matrix.rank_le_height (toM H)
  omega

/-- what makes GMD MIMO useful: seen through `Qᴴ` on the receive side and `P` on the transmit side
    the channel is the triangular `R` -/
theorem gmd_triangular (H : Mat ℂ Nr Nt) (sb : ℝ) (Q : Mat ℂ Nr Nr) (R : Mat ℂ Nr Nt) (P : Mat ℂ Nt Nt)
    (hg : IsGmd H sb Q R P) : matMul (cT Q) (matMul H P) = R := by
  have hf := hg.factor
  have hP := hg.p_unitary
  have hQ := hg.q_unitary
  c04_matrix at hf
  c04_matrix at hP
  c04_matrix at hQ
  c04_matrix
  rw [← hf]
  simp only [Matrix.mul_assoc]
  rw [hP, Matrix.mul_one, ← Matrix.mul_assoc, hQ, Matrix.one_mul]

/-- the equivalent channel `Q.dot(R)` the code hands to `pinv` / `solve` is `H P` -/
theorem gmd_channelEq_eq (H : Mat ℂ Nr Nt) (sb : ℝ) (Q : Mat ℂ Nr Nr) (R : Mat ℂ Nr Nt) (P : Mat ℂ Nt Nt)
    (hg : IsGmd H sb Q R P) : gmdChannelEq Q R = matMul H P := by
  have hf := hg.factor
  have hP := hg.p_unitary
  c04_matrix at hf
  c04_matrix at hP
  c04_matrix
  exact gmd_channel_eq _ _ _ _ hf hP

end Pf

namespace Ex

/-- the channel `diag(4, 1)` … -/
noncomputable def H3 : Mat ℂ 2 2 := svdSigma LinAlg.GmdInv.exS

/-- … with its full SVD `1 · diag(4, 1) · 1`: singular values `(4, 1)`, geometric mean `2`
    (the sweep performs one genuine Givens rotation on it) -/
theorem fullSvd_contract : IsFullSvd H3 eye LinAlg.GmdInv.exS eye ∧ 0 < min 2 2 ∧ 2 ≤ 2 := by
  have he : matMul (cT (eye : Mat ℂ 2 2)) eye = eye := by
    c04_matrix
    simp
  have he' : matMul (eye : Mat ℂ 2 2) (cT eye) = eye := by
    c04_matrix
    simp
  refine ⟨⟨?_, he, he', LinAlg.GmdInv.ex_hyps.2.2.2.1, LinAlg.GmdInv.ex_hyps.2.2.2.2.1⟩, by decide, le_refl _⟩
  c04_matrix
  simp [H3]

end Ex
end PyPhysim.C04
