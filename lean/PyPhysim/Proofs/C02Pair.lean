import PyPhysim.Proofs.C02Eq

/-!
C02 — the (OFDM object, long-lived equaliser) pair: after any history of
operations the pair behaves like a freshly built pair with the current
(valid) configuration.
-/
set_option linter.unusedSectionVars false
namespace PyPhysim.C02
open PyPhysim.Proto

section
variable {α : Type} [Zero α] [Add α] [Mul α] [Div α] [NatCast α]

theorem runPair_ofdm (F Finv : ℕ → List α → List α) (sc : Params → α) (s : Pair)
    (ops : List (PairOp α)) : (runPair F Finv sc s ops).1.ofdm = run s.ofdm (setOps ops) := by
  induction ops generalizing s with
  | nil => rfl
  | cons op ops ih =>
    cases op with
    | setParams f c u =>
      simp only [runPair, setOps, run]
      rw [ih]
      congr 1
      cases h : setParameters f c u <;> simp [stepPair, step, h]
    | modulate x => simp only [runPair, setOps]; rw [ih]; rfl
    | demodulate y => simp only [runPair, setOps]; rw [ih]; rfl
    | equalize d ir => simp only [runPair, setOps]; rw [ih]; rfl
    | usedIndexes => simp only [runPair, setOps]; rw [ih]; rfl
    | zeropadOf n => simp only [runPair, setOps]; rw [ih]; rfl

theorem runPair_valid (F Finv : ℕ → List α → List α) (sc : Params → α) (s : Pair)
    (hs : s.ofdm.Valid) (ops : List (PairOp α)) : (runPair F Finv sc s ops).1.ofdm.Valid := by
  rw [runPair_ofdm]; exact run_valid _ hs _

/-- only `set_parameters` changes the pair, and only when it is accepted -/
theorem stepPair_state (F Finv : ℕ → List α → List α) (sc : Params → α) (s : Pair) (op : PairOp α) :
    (stepPair F Finv sc s op).1 = s ∨
      ∃ f c u p, op = .setParams f c u ∧ setParameters f c u = .ok p ∧ (stepPair F Finv sc s op).1 = ⟨p⟩ := by
  cases op with
  | setParams f c u =>
    cases h : setParameters f c u with
    | error e => left; simp [stepPair, h]
    | ok p => right; exact ⟨f, c, u, p, rfl, h, by simp [stepPair, h]⟩
  | modulate x => left; rfl
  | demodulate y => left; rfl
  | equalize d ir => left; rfl
  | usedIndexes => left; rfl
  | zeropadOf n => left; rfl

end

section field
variable {K : Type} [Field K]

/-- after any history, demodulating what the long-lived object modulates returns the input -/
theorem pair_roundtrip (F Finv : ℕ → List K → List K) (sc : Params → K) (s : Pair)
    (hs : s.ofdm.Valid) (ops : List (PairOp K))
    (hK : KernelPair (runPair F Finv sc s ops).1.ofdm.fft F Finv)
    (hsc : sc (runPair F Finv sc s ops).1.ofdm ≠ 0) (x : List K) :
    ∃ tx, (stepPair F Finv sc (runPair F Finv sc s ops).1 (.modulate x)).2 = .ok tx ∧
      (stepPair F Finv sc (runPair F Finv sc s ops).1 (.demodulate tx)).2
        = .ok (x ++ List.replicate (zeropad (runPair F Finv sc s ops).1.ofdm x.length) 0) :=
  ⟨_, rfl, ofdm_roundtrip' _ (runPair_valid F Finv sc s hs ops) F Finv hK _ hsc x⟩

/-- after any history, transmit – time-invariant channel – demodulate – equalise, all through the
    one long-lived pair, recovers the input (hypotheses of `one_tap_exact` on the CURRENT configuration) -/
theorem pair_one_tap [CharZero K] (Ω : ℕ → K) (sc : Params → K) (s : Pair) (hs : s.ofdm.Valid)
    (ops : List (PairOp K)) (p : Params)
    (hp : p = (runPair (fun n a => dft (fun m => Ω n ^ m) n a)
      (fun n a => idft (fun m => (Ω n)⁻¹ ^ m) n a) sc s ops).1.ofdm)
    (hΩ : IsPrimitiveRoot (Ω p.fft) p.fft) (hsc : sc p ≠ 0)
    (delays : List ℕ) (gains : List K) (M : ℕ) (hM : delays.getLast? = some M)
    (hd : ∀ d ∈ delays, d ≤ M) (hnd : delays.Nodup) (hMC : M ≤ p.cp) (hMN : M < p.fft)
    (hH : ∀ k ∈ usedIdx p.fft p.used, Hs (Ω p.fft) delays gains k ≠ 0) (x : List K) :
    ∃ tx z d,
      (stepPair (fun n a => dft (fun m => Ω n ^ m) n a) (fun n a => idft (fun m => (Ω n)⁻¹ ^ m) n a) sc
          (runPair (fun n a => dft (fun m => Ω n ^ m) n a)
            (fun n a => idft (fun m => (Ω n)⁻¹ ^ m) n a) sc s ops).1 (.modulate x)).2 = .ok tx ∧
      corrupt (staticIR delays gains tx.length) tx = .ok z ∧
      (stepPair (fun n a => dft (fun m => Ω n ^ m) n a) (fun n a => idft (fun m => (Ω n)⁻¹ ^ m) n a) sc
          (runPair (fun n a => dft (fun m => Ω n ^ m) n a)
            (fun n a => idft (fun m => (Ω n)⁻¹ ^ m) n a) sc s ops).1
          (.demodulate (z.take tx.length))).2 = .ok d ∧
      (stepPair (fun n a => dft (fun m => Ω n ^ m) n a) (fun n a => idft (fun m => (Ω n)⁻¹ ^ m) n a) sc
          (runPair (fun n a => dft (fun m => Ω n ^ m) n a)
            (fun n a => idft (fun m => (Ω n)⁻¹ ^ m) n a) sc s ops).1
          (.equalize d (staticIR delays gains tx.length))).2
        = .ok (x ++ List.replicate (zeropad p x.length) 0) := by
  have hpv : p.Valid := by rw [hp]; exact runPair_valid _ _ sc s hs ops
  have hN : p.fft ≠ 0 := by have := hpv.2.2.2; have := hpv.2.1; omega
  -- the kernels at the current size are the textbook transforms for the root `Ω p.fft`
  have key := one_tap_exact' p hpv (Ω p.fft) hΩ (sc p) hsc delays gains M hM hd hnd hMC hMN hH x
  unfold oneTapReceive at key
  have hmod : modulate (fun n a => idft (fun m => (Ω n)⁻¹ ^ m) n a) (sc p) p x
      = modulate (fun n a => idft (fun m => (Ω p.fft)⁻¹ ^ m) n a) (sc p) p x := rfl
  have hdem : ∀ y, demodulate (fun n a => dft (fun m => Ω n ^ m) n a) (sc p) p y
      = demodulate (fun n a => dft (fun m => Ω p.fft ^ m) n a) (sc p) p y := fun _ => rfl
  have heq : ∀ d ir, equalize (fun n a => dft (fun m => Ω n ^ m) n a) p d ir
      = equalize (fun n a => dft (fun m => Ω p.fft ^ m) n a) p d ir := fun _ _ => rfl
  generalize (runPair (fun n a => dft (fun m => Ω n ^ m) n a)
      (fun n a => idft (fun m => (Ω n)⁻¹ ^ m) n a) sc s ops).1 = s' at hp ⊢
  have e : s'.ofdm = p := hp.symm
  simp only [stepPair, e]
  cases hc : corrupt (staticIR delays gains
      (modulate (fun n a => idft (fun m => (Ω p.fft)⁻¹ ^ m) n a) (sc p) p x).length)
      (modulate (fun n a => idft (fun m => (Ω p.fft)⁻¹ ^ m) n a) (sc p) p x) with
  | error e => rw [hc] at key; cases key
  | ok z =>
    rw [hc] at key
    simp only at key
    cases hdm : demodulate (fun n a => dft (fun m => Ω p.fft ^ m) n a) (sc p) p
        (z.take (modulate (fun n a => idft (fun m => (Ω p.fft)⁻¹ ^ m) n a) (sc p) p x).length) with
    | error e => rw [hdm] at key; cases key
    | ok d =>
      rw [hdm] at key
      simp only at key
      refine ⟨_, z, d, rfl, ?_, ?_, ?_⟩
      · rw [hmod]; exact hc
      · rw [hmod, hdem]; exact hdm
      · rw [hmod, heq]; exact key

end field
section robustness
variable {K : Type} [Field K]

/-- scaling every tap by `c` scales the whole frequency response by `c` -/
theorem Hs_scale (ω c : K) (delays : List ℕ) (gains : List K) (k : ℕ) :
    Hs ω delays (gains.map (fun g => c * g)) k = c * Hs ω delays gains k := by
  unfold Hs
  rw [List.zip_map_right, List.map_map]
  induction delays.zip gains with
  | nil => simp
  | cons dg t ih =>
    simp only [List.map_cons, List.sum_cons, Function.comp, Prod.map_snd, Prod.map_fst, id] at ih ⊢
    rw [ih]; ring

section
variable {α : Type} [Zero α] [Add α] [Mul α] [Div α] [NatCast α]
/-- an operation that raises leaves the pair exactly as it was -/
theorem stepPair_error_unchanged (F Finv : ℕ → List α → List α) (sc : Params → α) (s : Pair)
    (op : PairOp α) (e : PyErr) (h : (stepPair F Finv sc s op).2 = .error e) :
    (stepPair F Finv sc s op).1 = s := by
  cases op with
  | setParams f c u =>
    cases hs : setParameters f c u with
    | error e' => simp [stepPair, hs]
    | ok p => simp [stepPair, hs] at h
  | modulate x => rfl
  | demodulate y => rfl
  | equalize d ir => rfl
  | usedIndexes => rfl
  | zeropadOf n => rfl
end
end robustness
section forms
/-- `num_used_subcarriers=None` means `fft_size`: leaving the argument out, passing `None` and passing
    `fft_size` explicitly are the same call -/
theorem setParameters_default (fft cp : Int) : setParameters fft cp none = setParameters fft cp (some fft) := rfl

variable {α : Type} [Zero α] [Add α] [Mul α] [Div α] [NatCast α]

/-- constructor path = setter path: an accepted `set_parameters(f, c, u)` on ANY existing pair leaves exactly
    the pair that `OFDM(f, c, u)` + a new equaliser is -/
theorem stepPair_set_eq_fresh (F Finv : ℕ → List α → List α) (sc : Params → α) (s : Pair) (f c : Int)
    (u : Option Int) (p : Params) (h : setParameters f c u = .ok p) :
    (stepPair F Finv sc s (.setParams f c u)).1 = freshPair p := by
  simp [stepPair, h, freshPair]
end forms
end PyPhysim.C02
