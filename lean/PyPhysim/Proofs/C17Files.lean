import PyPhysim.Proofs.C17Classes
import Std.Data.String.ToInt
/-!
Helper lemmas for C17: file store (`save_to_file` / `load_from_file`) and
file-name templates.
-/
namespace PyPhysim.C17
open PyPhysim.Proto

/-! ### extensions -/

theorem normExt_idem (ext : String) : normExt (normExt ext) = normExt ext := by
  unfold normExt
  by_cases h : (ext == "") = true
  · simp only [h, if_true]; decide
  · simp only [h]; simp [h]

theorem storeRead_head (st : Store) (f : FName) (c : Content) : storeRead ((f, c) :: st) f = some c := by
  simp [storeRead]

/-- what `save_to_file` does, for a format the mapping knows -/
theorem saveToFile_eq (fr : Nat → PyFloat → String) (st : Store) (s : SimResults) (txt : String)
    (tpl : List Seg) (ext stem : String) (n : Node) (rest : Chain) (fmt : Fmt)
    (hp : s.params = n :: rest) (hn : getFilename fr n.parameters txt tpl = .ok stem)
    (hf : fmtOf (normExt ext) = some fmt) :
    saveToFile fr st s txt tpl ext =
      .ok (({ stem := stem, ext := normExt ext },
              match fmt with
              | .pickle => Content.pickled { s with originalFilename := .str (txt ++ normExt ext) }
              | .json => Content.json (simToJson { s with originalFilename := .str (txt ++ normExt ext) })) :: st,
           { s with originalFilename := .str (txt ++ normExt ext) },
           { stem := stem, ext := normExt ext }) := by
  unfold saveToFile
  simp only [hp, hn, bind_ok, hf]
  cases fmt <;> rfl

theorem loadFromFile_pickle (fuel : Nat) (st : Store) (stem ext : String) (s : SimResults)
    (hf : fmtOf (normExt ext) = some .pickle) :
    loadFromFile fuel (({ stem := stem, ext := normExt ext }, Content.pickled s) :: st)
      { stem := stem, ext := normExt ext } = .ok s := by
  unfold loadFromFile
  simp only [normExt_idem, hf, storeRead_head]

theorem loadFromFile_json (fuel : Nat) (st : Store) (stem ext : String) (j : Json)
    (hf : fmtOf (normExt ext) = some .json) :
    loadFromFile fuel (({ stem := stem, ext := normExt ext }, Content.json j) :: st)
      { stem := stem, ext := normExt ext } = simFromJson fuel j := by
  unfold loadFromFile
  simp only [normExt_idem, hf, storeRead_head]

theorem saveToFile_unknown_ext (fr : Nat → PyFloat → String) (st : Store) (s : SimResults) (txt : String)
    (tpl : List Seg) (ext stem : String) (n : Node) (rest : Chain)
    (hp : s.params = n :: rest) (hn : getFilename fr n.parameters txt tpl = .ok stem)
    (hf : fmtOf (normExt ext) = .none) :
    saveToFile fr st s txt tpl ext = raise .KeyError := by
  unfold saveToFile
  simp only [hp, hn, bind_ok, hf]

theorem goodSim_set_filename (s : SimResults) (t : String) (h : goodSim s) :
    goodSim { s with originalFilename := .str t } := by
  obtain ⟨h1, h2, h3, h4, _, h6⟩ := h
  exact ⟨h1, h2, h3, h4, rfl, h6⟩

/-! ### templates -/

/-- number of `{n}` fields in a template -/
def countField (n : String) : List Seg → Nat
  | [] => 0
  | .lit _ :: r => countField n r
  | .field m :: r => (if m == n then 1 else 0) + countField n r

/-- both environments render every field other than `n` alike -/
def agreeExcept (fr : Nat → PyFloat → String) (n : String) (e1 e2 : List (String × PyVal)) : Prop :=
  ∀ m, (m == n) = false → (lookup m e1).map (render fr) = (lookup m e2).map (render fr)

theorem expand_lit (fr : Nat → PyFloat → String) (env : List (String × PyVal)) (s : String) (r : List Seg) :
    expand fr env (.lit s :: r) = (expand fr env r).bind fun t => .ok (s ++ t) := rfl

theorem expand_field (fr : Nat → PyFloat → String) (env : List (String × PyVal)) (n : String) (r : List Seg) :
    expand fr env (.field n :: r) =
      match lookup n env with
      | .none => raise .KeyError
      | some v =>
        match render fr v with
        | .none => .error .unmodelled
        | some t => (expand fr env r).bind fun u => .ok (t ++ u) := rfl

/-- an expansion is its pieces: field `m` contributes the rendering of its value -/
theorem expand_field_ok (fr : Nat → PyFloat → String) (env : List (String × PyVal)) (n : String)
    (r : List Seg) (a : String) (h : expand fr env (.field n :: r) = .ok a) :
    ∃ v t u, lookup n env = some v ∧ render fr v = some t ∧ expand fr env r = .ok u ∧ a = t ++ u := by
  rw [expand_field] at h
  cases hl : lookup n env with
  | none => rw [hl] at h; cases h
  | some v =>
    rw [hl] at h
    simp only at h
    cases hr : render fr v with
    | none => rw [hr] at h; cases h
    | some t =>
      rw [hr] at h
      simp only at h
      cases hu : expand fr env r with
      | error e => rw [hu] at h; cases h
      | ok u =>
        rw [hu] at h
        injection h with h
        exact ⟨v, t, u, rfl, hr, rfl, h.symm⟩

theorem expand_lit_ok (fr : Nat → PyFloat → String) (env : List (String × PyVal)) (s : String)
    (r : List Seg) (a : String) (h : expand fr env (.lit s :: r) = .ok a) :
    ∃ u, expand fr env r = .ok u ∧ a = s ++ u := by
  rw [expand_lit] at h
  cases hu : expand fr env r with
  | error e => rw [hu] at h; cases h
  | ok u => rw [hu] at h; injection h with h; exact ⟨u, rfl, h.symm⟩

/-- lengths: the two names differ by `k·(|t₁| − |t₂|)` -/
theorem expand_length (fr : Nat → PyFloat → String) (n : String) (e1 e2 : List (String × PyVal))
    (v1 v2 : PyVal) (t1 t2 : String) (hv1 : lookup n e1 = some v1) (hv2 : lookup n e2 = some v2)
    (ht1 : render fr v1 = some t1) (ht2 : render fr v2 = some t2) (hag : agreeExcept fr n e1 e2) :
    ∀ (segs : List Seg) (a b : String), expand fr e1 segs = .ok a → expand fr e2 segs = .ok b →
      a.length + countField n segs * t2.length = b.length + countField n segs * t1.length
  | [], a, b, ha, hb => by
    simp only [expand] at ha hb
    injection ha with ha; injection hb with hb
    subst ha; subst hb; simp [countField]
  | .lit s :: r, a, b, ha, hb => by
    obtain ⟨u1, hu1, rfl⟩ := expand_lit_ok fr e1 s r a ha
    obtain ⟨u2, hu2, rfl⟩ := expand_lit_ok fr e2 s r b hb
    have ih := expand_length fr n e1 e2 v1 v2 t1 t2 hv1 hv2 ht1 ht2 hag r u1 u2 hu1 hu2
    simp only [countField, String.length_append]; omega
  | .field m :: r, a, b, ha, hb => by
    obtain ⟨w1, p1, u1, hl1, hr1, hu1, rfl⟩ := expand_field_ok fr e1 m r a ha
    obtain ⟨w2, p2, u2, hl2, hr2, hu2, rfl⟩ := expand_field_ok fr e2 m r b hb
    have ih := expand_length fr n e1 e2 v1 v2 t1 t2 hv1 hv2 ht1 ht2 hag r u1 u2 hu1 hu2
    by_cases hm : (m == n) = true
    · have : m = n := by simpa using hm
      subst this
      rw [hv1] at hl1; rw [hv2] at hl2
      injection hl1 with hl1; injection hl2 with hl2
      subst hl1; subst hl2
      rw [ht1] at hr1; rw [ht2] at hr2
      injection hr1 with hr1; injection hr2 with hr2
      subst hr1; subst hr2
      simp only [countField, hm, if_true, String.length_append, Nat.add_mul, Nat.one_mul]; omega
    · have hm' : (m == n) = false := by simpa using hm
      have := hag m hm'
      rw [hl1, hl2] at this
      simp only [Option.map] at this
      injection this with this
      rw [hr1, hr2] at this
      injection this with this
      subst this
      simp only [countField, hm', String.length_append]
      simp only [Bool.false_eq_true, if_false, Nat.zero_add]; omega

theorem string_append_inj {a b c d : String} (h : a ++ c = b ++ d) (hl : a.length = b.length) :
    a = b ∧ c = d := by
  have h' : a.toList ++ c.toList = b.toList ++ d.toList := by
    rw [← String.toList_append, ← String.toList_append, h]
  have := List.append_inj h' (by rw [String.length_toList, String.length_toList]; exact hl)
  exact ⟨String.toList_inj.1 this.1, String.toList_inj.1 this.2⟩

/-- equal-length renderings: equal names force equal renderings -/
theorem expand_eq_pieces (fr : Nat → PyFloat → String) (n : String) (e1 e2 : List (String × PyVal))
    (v1 v2 : PyVal) (t1 t2 : String) (hv1 : lookup n e1 = some v1) (hv2 : lookup n e2 = some v2)
    (ht1 : render fr v1 = some t1) (ht2 : render fr v2 = some t2) (hag : agreeExcept fr n e1 e2)
    (hlen : t1.length = t2.length) :
    ∀ (segs : List Seg) (a b : String), expand fr e1 segs = .ok a → expand fr e2 segs = .ok b →
      a = b → 0 < countField n segs → t1 = t2
  | [], _, _, _, _, _, hc => by simp [countField] at hc
  | .lit s :: r, a, b, ha, hb, hab, hc => by
    obtain ⟨u1, hu1, rfl⟩ := expand_lit_ok fr e1 s r a ha
    obtain ⟨u2, hu2, rfl⟩ := expand_lit_ok fr e2 s r b hb
    have := (string_append_inj hab rfl).2
    exact expand_eq_pieces fr n e1 e2 v1 v2 t1 t2 hv1 hv2 ht1 ht2 hag hlen r u1 u2 hu1 hu2 this
      (by simpa [countField] using hc)
  | .field m :: r, a, b, ha, hb, hab, hc => by
    obtain ⟨w1, p1, u1, hl1, hr1, hu1, rfl⟩ := expand_field_ok fr e1 m r a ha
    obtain ⟨w2, p2, u2, hl2, hr2, hu2, rfl⟩ := expand_field_ok fr e2 m r b hb
    by_cases hm : (m == n) = true
    · have : m = n := by simpa using hm
      subst this
      rw [hv1] at hl1; rw [hv2] at hl2
      injection hl1 with hl1; injection hl2 with hl2
      subst hl1; subst hl2
      rw [ht1] at hr1; rw [ht2] at hr2
      injection hr1 with hr1; injection hr2 with hr2
      subst hr1; subst hr2
      exact (string_append_inj hab hlen).1
    · have hm' : (m == n) = false := by simpa using hm
      have := hag m hm'
      rw [hl1, hl2] at this
      simp only [Option.map] at this
      injection this with this
      rw [hr1, hr2] at this
      injection this with this
      subst this
      have hrest := (string_append_inj hab rfl).2
      exact expand_eq_pieces fr n e1 e2 v1 v2 t1 t2 hv1 hv2 ht1 ht2 hag hlen r u1 u2 hu1 hu2 hrest
        (by simpa [countField, hm'] using hc)

/-! ### renderings -/

theorem lookup_normKVs (k : String) : ∀ kvs : List (String × PyVal),
    lookup k (normKVs kvs) = (lookup k kvs).map norm
  | [] => rfl
  | (k', v) :: kvs => by
    simp only [normKVs, lookup]
    split
    · rfl
    · exact lookup_normKVs k kvs

theorem render_norm (fr : Nat → PyFloat → String) (hfr : ∀ w f, fr w f = fr 64 f) (v : PyVal) :
    render fr (norm v) = render fr v := by
  cases v <;> simp [norm, render, hfr _ _]

theorem expand_norm (fr : Nat → PyFloat → String) (hfr : ∀ w f, fr w f = fr 64 f)
    (env : List (String × PyVal)) : ∀ segs : List Seg, expand fr (normKVs env) segs = expand fr env segs
  | [] => rfl
  | .lit s :: r => by rw [expand_lit, expand_lit, expand_norm fr hfr env r]
  | .field n :: r => by
    rw [expand_field, expand_field, lookup_normKVs, expand_norm fr hfr env r]
    cases lookup n env with
    | none => rfl
    | some v => simp only [Option.map, render_norm fr hfr v]

end PyPhysim.C17
