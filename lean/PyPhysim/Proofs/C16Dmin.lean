import PyPhysim.Proofs.C16
import PyPhysim.Proofs.C01Detect
import PyPhysim.Proofs.C01QamReal

/-! Minimum distances of the emitted constellations and the `Q`-arguments as `d_min/(2σ)`. -/
namespace PyPhysim.C16
open PyPhysim.C01

/-- noise standard deviation per real dimension at unit symbol energy: `σ² = 1/(2γ)` -/
noncomputable def sigma (s : ℝ) : ℝ := Real.sqrt (1 / (2 * db2lin s))

theorem arg_general (s d : ℝ) : d / (2 * sigma s) = Real.sqrt (2 * db2lin s) * (d / 2) := by
  have hγ := db2lin_pos s
  have h2 : 0 < 2 * db2lin s := by positivity
  have hs : 0 < Real.sqrt (2 * db2lin s) := Real.sqrt_pos.mpr h2
  unfold sigma
  rw [one_div, Real.sqrt_inv]
  field_simp

/-- squared chord between two natural PSK points -/
theorem psk_dist2 (M k₁ k₂ : Nat) (φ : ℝ) :
    dist2 (pskNaturalPoint M k₁ φ) (pskNaturalPoint (α := ℝ) M k₂ φ)
      = 2 - 2 * Real.cos (2 * Real.pi / M * ((k₁:ℝ) - k₂)) := by
  simp only [pskNaturalPoint, dist2, Trig.cos, Trig.sin, Trig.pi]
  have h2 : ((2:Nat):ℝ) = 2 := by norm_num
  rw [h2]
  set a := 2 * Real.pi / (M:ℝ) * (k₁:ℝ) + φ
  set b := 2 * Real.pi / (M:ℝ) * (k₂:ℝ) + φ
  have hab : 2 * Real.pi / (M:ℝ) * ((k₁:ℝ) - k₂) = a - b := by simp only [a, b]; ring
  rw [hab, Real.cos_sub]
  nlinarith [Real.cos_sq_add_sin_sq a, Real.cos_sq_add_sin_sq b]

theorem two_sub_two_cos (x : ℝ) : 2 - 2 * Real.cos (2 * x) = (2 * Real.sin x) ^ 2 := by
  rw [Real.cos_two_mul, ← Real.cos_sq_add_sin_sq x]; ring_nf
  nlinarith [Real.cos_sq_add_sin_sq x]

/-- neighbouring PSK points are `2·sin(π/M)` apart -/
theorem psk_adjacent_dist2 (M k : Nat) (hM : 1 ≤ M) (φ : ℝ) :
    dist2 (pskNaturalPoint M (k+1) φ) (pskNaturalPoint (α := ℝ) M k φ)
      = (2 * Real.sin (Real.pi / M)) ^ 2 := by
  rw [psk_dist2, ← two_sub_two_cos]
  congr 2
  push_cast; ring

/-- `cos(2π d/M) ≤ cos(2π/M)` for `1 ≤ d ≤ M-1` -/
theorem cos_step_le (M d : Nat) (h1 : 1 ≤ d) (h2 : d < M) :
    Real.cos (2 * Real.pi / M * (d:ℝ)) ≤ Real.cos (2 * Real.pi / M) := by
  have hM : (0:ℝ) < M := by exact_mod_cast (by omega : 0 < M)
  have hpi := Real.pi_pos
  have hstep : 0 ≤ 2 * Real.pi / (M:ℝ) := by positivity
  rcases Nat.lt_or_ge M (2 * d) with hbig | hsmall
  · -- reflect: cos(2π d/M) = cos(2π (M-d)/M)
    have hd' : (1:ℝ) ≤ ((M - d : Nat) : ℝ) := by exact_mod_cast (by omega : 1 ≤ M - d)
    have e : 2 * Real.pi / M * (d:ℝ) = 2 * Real.pi - 2 * Real.pi / M * ((M - d : Nat) : ℝ) := by
      rw [Nat.cast_sub (le_of_lt h2)]; field_simp; ring
    rw [e, Real.cos_two_pi_sub]
    apply Real.cos_le_cos_of_nonneg_of_le_pi hstep
    · have : (((M - d : Nat)):ℝ) ≤ (M:ℝ) / 2 := by
        rw [Nat.cast_sub (le_of_lt h2)]
        have : (M:ℝ) < 2 * d := by exact_mod_cast hbig
        linarith
      calc 2 * Real.pi / M * ((M - d : Nat) : ℝ) ≤ 2 * Real.pi / M * ((M:ℝ) / 2) :=
            mul_le_mul_of_nonneg_left this hstep
        _ = Real.pi := by field_simp
    · calc 2 * Real.pi / (M:ℝ) = 2 * Real.pi / M * 1 := by ring
        _ ≤ 2 * Real.pi / M * ((M - d : Nat) : ℝ) := mul_le_mul_of_nonneg_left hd' hstep
  · have hd' : (1:ℝ) ≤ d := by exact_mod_cast h1
    apply Real.cos_le_cos_of_nonneg_of_le_pi hstep
    · have : (d:ℝ) ≤ (M:ℝ) / 2 := by
        have : (2 * d : ℝ) ≤ M := by exact_mod_cast hsmall
        linarith
      calc 2 * Real.pi / M * (d:ℝ) ≤ 2 * Real.pi / M * ((M:ℝ) / 2) :=
            mul_le_mul_of_nonneg_left this hstep
        _ = Real.pi := by field_simp
    · calc 2 * Real.pi / (M:ℝ) = 2 * Real.pi / M * 1 := by ring
        _ ≤ 2 * Real.pi / M * (d:ℝ) := mul_le_mul_of_nonneg_left hd' hstep

/-- no two distinct PSK points are closer than neighbours: `d_min = 2·sin(π/M)` -/
theorem psk_min_dist2 (M k₁ k₂ : Nat) (h₁ : k₁ < M) (h₂ : k₂ < M) (hne : k₁ ≠ k₂) (φ : ℝ) :
    (2 * Real.sin (Real.pi / M)) ^ 2 ≤ dist2 (pskNaturalPoint M k₁ φ) (pskNaturalPoint (α := ℝ) M k₂ φ) := by
  rw [psk_dist2, ← two_sub_two_cos]
  have e0 : 2 * (Real.pi / (M:ℝ)) = 2 * Real.pi / M := by ring
  rw [e0]
  rcases Nat.lt_or_ge k₁ k₂ with hlt | hge
  · have := cos_step_le M (k₂ - k₁) (by omega) (by omega)
    have e : 2 * Real.pi / M * ((k₁:ℝ) - k₂) = -(2 * Real.pi / M * ((k₂ - k₁ : Nat) : ℝ)) := by
      rw [Nat.cast_sub (le_of_lt hlt)]; ring
    rw [e, Real.cos_neg]; linarith
  · have hgt : k₂ < k₁ := by omega
    have := cos_step_le M (k₁ - k₂) (by omega) (by omega)
    have e : 2 * Real.pi / M * ((k₁:ℝ) - k₂) = 2 * Real.pi / M * ((k₁ - k₂ : Nat) : ℝ) := by
      rw [Nat.cast_sub (le_of_lt hgt)]
    rw [e]; linarith

/-- distinct cells of the integer QAM grid are at squared distance ≥ 4 (= one grid step) -/
theorem qam_grid_min_dist2 (L : Nat) (hL : 0 < L) (a b : Nat) (hne : a ≠ b) :
    4 ≤ dist2 (qamGridPoint L a) (qamGridPoint L b) := by
  have hne' : qamGridPoint L a ≠ qamGridPoint L b := fun h => hne (qam_grid_inj L hL a b h)
  simp only [qamGridPoint, dist2] at *
  set ja : Int := ((a % L : Nat) : Int)
  set jb : Int := ((b % L : Nat) : Int)
  set ia : Int := ((a / L : Nat) : Int)
  set ib : Int := ((b / L : Nat) : Int)
  have hcase : ja ≠ jb ∨ ia ≠ ib := by
    by_contra hc
    rw [not_or, not_not, not_not] at hc
    apply hne'
    rw [hc.1, hc.2]
  rcases hcase with h | h
  · have : 1 ≤ (ja - jb) * (ja - jb) := by
      rcases lt_or_gt_of_ne h with h' | h' <;> nlinarith
    nlinarith [mul_self_nonneg (ia - ib)]
  · have : 1 ≤ (ia - ib) * (ia - ib) := by
      rcases lt_or_gt_of_ne h with h' | h' <;> nlinarith
    nlinarith [mul_self_nonneg (ja - jb)]

/-- horizontally neighbouring grid cells are exactly one step (squared distance 4) apart -/
theorem qam_grid_adjacent_dist2 (L a : Nat) (hL : 0 < L) (h : a % L + 1 < L) :
    dist2 (qamGridPoint L (a + 1)) (qamGridPoint L a) = 4 := by
  have hm : (a + 1) % L = a % L + 1 := by
    have h0 := Nat.div_add_mod a L
    have e : a + 1 = L * (a / L) + (a % L + 1) := by omega
    rw [e, Nat.mul_add_mod, Nat.mod_eq_of_lt h]
  have hd : (a + 1) / L = a / L := by
    have := Nat.div_add_mod a L
    have h2 := Nat.div_add_mod (a+1) L
    rw [hm] at h2
    have : L * ((a+1)/L) = L * (a / L) := by omega
    exact Nat.eq_of_mul_eq_mul_left hL this
  simp only [qamGridPoint, dist2, hm, hd]
  push_cast; ring

/-- the QAM scale `e = sqrt((M-1)·2/3)` turns one grid step into `d_min = 2/e` and the
    `Q` argument is `d_min/(2σ)` -/
theorem qam_arg_general (L : Nat) (hL : 2 ≤ L) (s : ℝ) :
    qamArg (L * L) s =
      (2 / Real.sqrt ((((L * L - 1 : Nat) : ℝ) * ((2 : Nat) : ℝ)) / ((3 : Nat) : ℝ))) / (2 * sigma s) := by
  rw [arg_general, qamArg_eq]
  unfold argShape
  have h1 : 1 ≤ L * L := by nlinarith
  have hLr : (2:ℝ) ≤ L := by exact_mod_cast hL
  have hpos : (0:ℝ) < (L:ℝ) * L - 1 := by nlinarith
  have hγ := db2lin_pos s
  have e2 : ((2:Nat):ℝ) = 2 := by norm_num
  have e3 : ((3:Nat):ℝ) = 3 := by norm_num
  rw [e2, e3, Nat.cast_sub h1]
  push_cast
  rw [mul_one, show (2:ℝ) / Real.sqrt (((L:ℝ) * L - 1) * 2 / 3) / 2 = 1 / Real.sqrt (((L:ℝ) * L - 1) * 2 / 3) by
    field_simp]
  rw [mul_one_div, ← Real.sqrt_div (by positivity)]
  congr 1
  field_simp

end PyPhysim.C16
