import Mathlib.Algebra.Field.Basic
import Mathlib.Tactic.Ring
import PyPhysim.Model.C20Gmd
import PyPhysim.Proofs.C20GmdStep

/-!
# `gmd` — array layer of the refinement proof

Total *views* of the arrays of the executable model (`vget`, `nget`, `cget`, `entryCols`,
`entryRows`), and for every array primitive of `Model/C20Gmd.lean` (`idx`, `upd`, `rotCols`,
`swapCols`, the two inner loops) a lemma saying: inside the bounds the primitive returns `.ok`,
sizes are preserved, and the view of the result is the stated function of the views of the
arguments.  Everything here is for an arbitrary field `K` of scalars (`K` and `ℂ` later).
-/
set_option linter.unusedSectionVars false
set_option linter.unusedVariables false
namespace PyPhysim.LinAlg.GmdInv
open PyPhysim.Proto PyPhysim.LinAlg

variable {K : Type} [Field K]

/-- entry `i` of a scalar array, `0` outside -/
def vget (a : Array K) (i : Nat) : K := (a[i]?).getD 0
/-- entry `i` of an index array, `0` outside -/
def nget (a : Array Nat) (i : Nat) : Nat := (a[i]?).getD 0
/-- column (row) `j` of a matrix stored by columns (rows), empty outside -/
def cget (M : Array (Array K)) (j : Nat) : Array K := (M[j]?).getD #[]

theorem entryCols_eq (M : Array (Array K)) (i j : Nat) : entryCols M i j = vget (cget M j) i := rfl
theorem entryRows_eq (M : Array (Array K)) (i j : Nat) : entryRows M i j = vget (cget M i) j := rfl

@[simp] theorem ok_bind {ε β γ : Type} (a : β) (f : β → Except ε γ) : (Except.ok a >>= f) = f a := rfl
@[simp] theorem ok_map {ε β γ : Type} (a : β) (f : β → γ) :
    (f <$> (Except.ok a : Except ε β)) = .ok (f a) := rfl
@[simp] theorem pure_eq_ok {ε β : Type} (a : β) : (pure a : Except ε β) = .ok a := rfl

theorem idx_v (a : Array K) (i : Nat) (h : i < a.size) : idx a i = .ok (vget a i) := by
  simp [idx, vget, h]
theorem idx_n (a : Array Nat) (i : Nat) (h : i < a.size) : idx a i = .ok (nget a i) := by
  simp [idx, nget, h]
theorem idx_c (M : Array (Array K)) (i : Nat) (h : i < M.size) : idx M i = .ok (cget M i) := by
  simp [idx, cget, h]
theorem upd_ok {β : Type} (a : Array β) (i : Nat) (x : β) (h : i < a.size) :
    upd a i x = .ok (a.set! i x) := by
  simp [upd, h]

@[simp] theorem size_set' {β : Type} (a : Array β) (i : Nat) (x : β) : (a.set! i x).size = a.size := by
  simp

theorem vget_set (a : Array K) (i : Nat) (x : K) (q : Nat) (h : i < a.size) :
    vget (a.set! i x) q = if q = i then x else vget a q := by
  simp only [vget, Array.set!_eq_setIfInBounds, Array.getElem?_setIfInBounds]
  by_cases hq : q = i
  · subst hq; simp [h]
  · have : ¬ i = q := fun e => hq e.symm
    simp [hq, this]

theorem nget_set (a : Array Nat) (i : Nat) (x : Nat) (q : Nat) (h : i < a.size) :
    nget (a.set! i x) q = if q = i then x else nget a q := by
  simp only [nget, Array.set!_eq_setIfInBounds, Array.getElem?_setIfInBounds]
  by_cases hq : q = i
  · subst hq; simp [h]
  · have : ¬ i = q := fun e => hq e.symm
    simp [hq, this]

theorem cget_set (M : Array (Array K)) (i : Nat) (x : Array K) (q : Nat) (h : i < M.size) :
    cget (M.set! i x) q = if q = i then x else cget M q := by
  simp only [cget, Array.set!_eq_setIfInBounds, Array.getElem?_setIfInBounds]
  by_cases hq : q = i
  · subst hq; simp [h]
  · have : ¬ i = q := fun e => hq e.symm
    simp [hq, this]

theorem vget_of_le (a : Array K) (i : Nat) (h : a.size ≤ i) : vget a i = 0 := by
  simp [vget, h]

/-- view of `(ca.zip cb).map (fun (x, y) => x * g + y * g')` for equally long columns -/
theorem vget_zipmap (ca cb : Array K) (g g' : K) (h : ca.size = cb.size) (i : Nat) :
    vget ((ca.zip cb).map (fun (x, y) => x * g + y * g')) i = vget ca i * g + vget cb i * g' := by
  simp only [vget, Array.getElem?_map]
  by_cases hi : i < ca.size
  · have hi' : i < cb.size := h ▸ hi
    simp [hi, hi']
  · have hi' : ¬ i < cb.size := h ▸ hi
    simp [hi, hi']

theorem size_zipmap (ca cb : Array K) (f : K × K → K) (h : ca.size = cb.size) :
    ((ca.zip cb).map f).size = ca.size := by
  simp [h]

/-- the value `rotCols` returns inside the bounds -/
def rotColsP (M : Array (Array K)) (a b : Nat) (g : K × K × K × K) : Array (Array K) :=
  ((M.set! a (((cget M a).zip (cget M b)).map (fun (x, y) => x * g.1 + y * g.2.2.1))).set! b
    (((cget M a).zip (cget M b)).map (fun (x, y) => x * g.2.1 + y * g.2.2.2)))
/-- the value `swapCols` returns inside the bounds -/
def swapColsP (M : Array (Array K)) (a b : Nat) : Array (Array K) :=
  (M.set! a (cget M b)).set! b (cget M a)

/-- `M[:, [a, b]] = M[:, [a, b]].dot(G)` inside the bounds -/
theorem rotCols_ok (M : Array (Array K)) (a b r : Nat) (g : K × K × K × K) (hab : a ≠ b)
    (ha : a < M.size) (hb : b < M.size) (hca : (cget M a).size = r) (hcb : (cget M b).size = r) :
    ∃ M', rotCols M a b g = .ok M' ∧ M'.size = M.size ∧
      (∀ j, (cget M' j).size = if j = a ∨ j = b then r else (cget M j).size) ∧
      ∀ i j, entryCols M' i j =
        if j = a then entryCols M i a * g.1 + entryCols M i b * g.2.2.1
        else if j = b then entryCols M i a * g.2.1 + entryCols M i b * g.2.2.2
        else entryCols M i j := by
  obtain ⟨g00, g01, g10, g11⟩ := g
  have hsz : (cget M a).size = (cget M b).size := by rw [hca, hcb]
  refine ⟨rotColsP M a b (g00, g01, g10, g11), ?_, ?_, ?_, ?_⟩ <;> unfold rotColsP
  · simp only [rotCols, idx_c M a ha, idx_c M b hb, ok_bind]
    rw [upd_ok _ _ _ ha, ok_bind, upd_ok _ _ _ (by simpa using hb)]
  · simp
  · intro j
    rw [cget_set _ _ _ _ (by simpa using hb), cget_set _ _ _ _ ha]
    by_cases hjb : j = b
    · simp [hjb, hsz, hcb]
    · by_cases hja : j = a
      · simp [hja, hab, hsz, hcb]
      · simp [hja, hjb]
  · intro i j
    simp only [entryCols_eq]
    rw [cget_set _ _ _ _ (by simpa using hb), cget_set _ _ _ _ ha]
    by_cases hjb : j = b
    · have : ¬ b = a := fun e => hab e.symm
      simp only [hjb, this, if_true, if_false]
      exact vget_zipmap _ _ _ _ hsz i
    · by_cases hja : j = a
      · simp only [hja, hab, if_true, if_false]
        exact vget_zipmap _ _ _ _ hsz i
      · simp only [hja, hjb, if_false]

/-- interchange of two columns inside the bounds -/
theorem swapCols_ok (M : Array (Array K)) (a b : Nat) (ha : a < M.size) (hb : b < M.size) :
    ∃ M', swapCols M a b = .ok M' ∧ M'.size = M.size ∧
      (∀ j, cget M' j = if j = b then cget M a else if j = a then cget M b else cget M j) := by
  refine ⟨swapColsP M a b, ?_, ?_, ?_⟩ <;> unfold swapColsP
  · simp only [swapCols, idx_c M a ha, idx_c M b hb, ok_bind]
    rw [upd_ok _ _ _ ha, ok_bind, upd_ok _ _ _ (by simpa using hb)]
  · simp
  · intro j
    rw [cget_set _ _ _ _ (by simpa using hb), cget_set _ _ _ _ ha]

end PyPhysim.LinAlg.GmdInv
