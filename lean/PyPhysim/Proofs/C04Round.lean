import PyPhysim.Proofs.C04Schemes

/-!
Model-level facts about the filters / encoders of Blast, SVD and GMD MIMO:
what `encode` returns when it succeeds, and the decoded block as a matrix.
-/
set_option linter.unusedSectionVars false
namespace PyPhysim.C04
open Matrix PyPhysim.Proto

namespace Pf
variable {Nr Nt n L : Nat}

theorem toM_blastFilter_zf (nv : ℂ) (h : ¬ 0 < nv.re) (Gp Ws : Mat ℂ Nt Nr) :
    toM (blastFilter nv Gp Ws) = (sqrtNat Nt : ℂ) • toM Gp := by
  ext i j
  simp [blastFilter, posB_def, h, zfFilter, mul_comm]

theorem toM_blastFilter_mmse (nv : ℂ) (h : 0 < nv.re) (Gp Ws : Mat ℂ Nt Nr) :
    toM (blastFilter nv Gp Ws) = (sqrtNat Nt : ℂ) • toM Ws := by
  ext i j
  simp [blastFilter, posB_def, h, mmseFilter, mul_comm]

/-- a successful `Blast.encode` -/
theorem blastEncode_ok {x : Vec ℂ n} {E : Mat ℂ Nt (n / Nt)} (hE : blastEncode Nt x = .ok E) :
    0 < Nt ∧ ∃ h : n % Nt = 0, toM E = (sqrtNat Nt : ℂ)⁻¹ • toM (reshapeF Nt x h) := by
  unfold blastEncode at hE
  split at hE
  · cases hE
  · rename_i hNt
    split at hE
    · rename_i h
      refine ⟨Nat.pos_of_ne_zero hNt, h, ?_⟩
      cases hE
      ext i j
      simp [div_eq_inv_mul]
    · cases hE

/-- `Blast.encode` rejects exactly the lengths that are not a multiple of `Nt` -/
theorem blastEncode_error {x : Vec ℂ n} (hNt : 0 < Nt) :
    (n % Nt ≠ 0 ↔ blastEncode Nt x = .error .ValueError) := by
  unfold blastEncode
  have h0 : Nt ≠ 0 := Nat.pos_iff_ne_zero.mp hNt
  simp only [h0, if_false]
  by_cases h : n % Nt = 0 <;> simp [h]

/-- a successful `SVDMimo.encode` / `GMDMimo.encode` -/
theorem precodeC_ok {W : Mat ℂ Nt Nt} {x : Vec ℂ n} {E : Mat ℂ Nt (n / Nt)}
    (hE : precodeC W x = .ok E) :
    0 < Nt ∧ ∃ h : n % Nt = 0, E = matMul W (reshapeC Nt x h) := by
  unfold precodeC at hE
  split at hE
  · cases hE
  · rename_i hNt
    split at hE
    · rename_i h
      refine ⟨Nat.pos_of_ne_zero hNt, h, ?_⟩
      cases hE
      rfl
    · cases hE

theorem precodeC_error {W : Mat ℂ Nt Nt} {x : Vec ℂ n} (hNt : 0 < Nt) :
    (n % Nt ≠ 0 ↔ precodeC W x = .error .ValueError) := by
  unfold precodeC
  have h0 : Nt ≠ 0 := Nat.pos_iff_ne_zero.mp hNt
  simp only [h0, if_false]
  by_cases h : n % Nt = 0 <;> simp [h]

theorem toM_svdPrecoder (VH : Mat ℂ Nt Nt) :
    toM (svdPrecoder VH) = (sqrtNat Nt : ℂ)⁻¹ • (toM VH)ᴴ := by
  ext i j
  simp [svdPrecoder, cT, conj_def, div_eq_inv_mul]

theorem toM_gmdPrecoder (P : Mat ℂ Nt Nt) :
    toM (gmdPrecoder P) = (sqrtNat Nt : ℂ)⁻¹ • toM P := by
  ext i j
  simp [gmdPrecoder, div_eq_inv_mul]

theorem toM_blastPrecoder : toM (blastPrecoder Nt : Mat ℂ Nt Nt) = (sqrtNat Nt : ℂ)⁻¹ • 1 := by
  ext i j
  simp [blastPrecoder, eye, Matrix.one_apply, div_eq_inv_mul]

theorem toM_svdFilter {K : Nat} (U : Mat ℂ Nr K) (S : Vec ℂ K) :
    toM (svdFilter Nt U S) = (sqrtNat Nt : ℂ) • (diagonal (fun a => 1 / S a) * (toM U)ᴴ) := by
  have h : toM (svdFilter Nt U S) =
      toM (fun i j => sqrtNat Nt * matMul (diagM (fun a => 1 / S a)) (cT U) i j) := by
    ext i j
    simp [svdFilter, mul_comm]
  rw [h]
  change toM (smul (sqrtNat Nt) (matMul (diagM (fun a => 1 / S a)) (cT U))) = _
  simp only [toM_smul, toM_matMul, toM_diagM, toM_cT]

end Pf
end PyPhysim.C04
