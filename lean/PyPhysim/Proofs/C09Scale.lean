import PyPhysim.Proofs.C09Top

/-!
Scale covariance: a common gain `c ≠ 0` on the whole channel leaves the kernel
contracts, the precoders and their powers unchanged and multiplies the
effective channel by `c`.
-/
set_option linter.unusedSectionVars false
namespace PyPhysim.BD
namespace Pf
open Matrix

section scale
variable {K N : Nat}

theorem scaleMat_matMul {m k n : Nat} (c : ℂ) (A : Mat ℂ m k) (B : Mat ℂ k n) :
    matMul (scaleMat c A) B = scaleMat c (matMul A B) := by
  funext i j
  simp only [matMul_apply, scaleMat, Finset.mul_sum, mul_assoc]

theorem tildeChannel_scale {T : Nat} (c : ℂ) (H : Mat ℂ (K * N) T) (k : Fin K) :
    tildeChannel (scaleMat c H) k = scaleMat c (tildeChannel H k) := rfl

theorem scaleMat_eq_zero_iff {m n : Nat} (c : ℂ) (hc : c ≠ 0) (A : Mat ℂ m n) :
    scaleMat c A = (fun _ _ => 0) ↔ A = fun _ _ => 0 := by
  constructor
  · intro h
    funext i j
    have := congrFun (congrFun h i) j
    simpa [scaleMat, hc] using this
  · intro h; subst h; funext i j; simp [scaleMat]

variable (hK : 0 < K) (H : Mat ℂ (K * N) (K * N)) (VH1 : Fin K → Mat ℂ (K * N) (K * N))
  (VH2 : Fin K → Mat ℂ N N) (S2 S2' : Fin K → Fin N → ℝ)

/-- the same `V_H` factors satisfy the contract for `c·H` iff they do for `H` -/
theorem contract_scale (c : ℂ) (hc : c ≠ 0) :
    BDContract hK (scaleMat c H) VH1 VH2 S2' ↔ BDContract hK H VH1 VH2 S2 := by
  constructor
  · intro h
    refine ⟨h.unitary1, h.unitary2, fun k => ?_⟩
    have := h.null k
    rw [tildeChannel_scale, scaleMat_matMul] at this
    exact (scaleMat_eq_zero_iff c hc _).mp this
  · intro h
    refine ⟨h.unitary1, h.unitary2, fun k => ?_⟩
    show matMul (tildeChannel (scaleMat c H) k) (calcBD hK H VH1 VH2 S2 k).V0 = _
    rw [tildeChannel_scale, scaleMat_matMul]
    exact (scaleMat_eq_zero_iff c hc _).mpr (h.null k)

/-- the unscaled precoder does not depend on the channel's scale (nor on the singular values) -/
theorem msBad_scale (c : ℂ) :
    msBad (calcBD hK (scaleMat c H) VH1 VH2 S2') = msBad (calcBD hK H VH1 VH2 S2) := rfl

end scale
end Pf
end PyPhysim.BD
