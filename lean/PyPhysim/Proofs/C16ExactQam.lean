import PyPhysim.Proofs.C16Exact
import Mathlib.MeasureTheory.Measure.Prod

/-!
# C16 — square QAM: the formula `1 − (1 − 2(1−1/√M)·Q(d_min/2σ))²` is the exact AWGN symbol error rate

The emitted constellation (`Model/C01.qamNatural`) is an `L × L` grid of equally spaced levels
(half spacing `h = 1/e`).  With independent Gaussian noise of standard deviation `σ` per real
dimension the nearest-point detector `demod` decides correctly with probability
`(1 − c_j Q)(1 − c_i Q)`, `Q = Qg(h/σ)`, where `c = 1` for an edge level and `2` for an inner
one; averaging over the `L²` points gives `(1 − 2(1 − 1/L) Q)²`.
-/
namespace PyPhysim.C16
open MeasureTheory ProbabilityTheory Set
open PyPhysim.C01

/-! ### one axis -/

/-- level `k` of an `L`-level axis with half spacing `h`: `(2k − (L−1))·h` -/
noncomputable def lev (h : ℝ) (L k : Nat) : ℝ := (2 * (k:ℝ) - ((L:ℝ) - 1)) * h

/-- number of neighbours of level `k` on an `L`-level axis -/
def cnt (L k : Nat) : Nat := (if k = 0 then 0 else 1) + (if k + 1 = L then 0 else 1)

/-- noise values that keep level `k` the (weakly) nearest one -/
def Jc (L : Nat) (h : ℝ) (k : Nat) : Set ℝ :=
  (if k = 0 then univ else Ici (-h)) ∩ (if k + 1 = L then univ else Iic h)
/-- noise values that keep level `k` the strictly nearest one -/
def Jo (L : Nat) (h : ℝ) (k : Nat) : Set ℝ :=
  (if k = 0 then univ else Ioi (-h)) ∩ (if k + 1 = L then univ else Iio h)

theorem lev_sub (h : ℝ) (L k k' : Nat) : lev h L k' - lev h L k = 2 * h * ((k':ℝ) - k) := by
  unfold lev; ring

theorem lev_inj {h : ℝ} (hh : 0 < h) (L k k' : Nat) (e : lev h L k = lev h L k') : k = k' := by
  have := lev_sub h L k k'
  rw [e, sub_self] at this
  have h2 : ((k':ℝ) - k) = 0 := by
    rcases mul_eq_zero.mp this.symm with h3 | h3
    · linarith
    · exact h3
  have : (k':ℝ) = k := by linarith
  exact_mod_cast this.symm

/-- closed cell ⊆ interval (only the two neighbouring levels are needed) -/
theorem closed1_subset {h : ℝ} (hh : 0 < h) (L k : Nat) (hk : k < L) (x : ℝ)
    (hx : ∀ k' < L, (x - lev h L k) * (x - lev h L k) ≤ (x - lev h L k') * (x - lev h L k')) :
    x - lev h L k ∈ Jc L h k := by
  constructor
  · split_ifs with h0
    · exact mem_univ _
    · have hpos : 0 < k := Nat.pos_of_ne_zero h0
      have := hx (k - 1) (by omega)
      have e : lev h L (k - 1) = lev h L k - 2 * h := by
        have := lev_sub h L k (k - 1)
        rw [Nat.cast_sub hpos] at this
        push_cast at this; linarith
      rw [e] at this
      simp only [mem_Ici]
      nlinarith
  · split_ifs with h1
    · exact mem_univ _
    · have hlt : k + 1 < L := by omega
      have := hx (k + 1) hlt
      have e : lev h L (k + 1) = lev h L k + 2 * h := by
        have := lev_sub h L k (k + 1)
        push_cast at this; linarith
      rw [e] at this
      simp only [mem_Iic]
      nlinarith

/-- interval ⊆ open cell -/
theorem open1_superset {h : ℝ} (hh : 0 < h) (L k : Nat) (x : ℝ) (hx : x - lev h L k ∈ Jo L h k)
    (k' : Nat) (hk' : k' < L) (hne : k' ≠ k) :
    (x - lev h L k) * (x - lev h L k) < (x - lev h L k') * (x - lev h L k') := by
  obtain ⟨h1, h2⟩ := hx
  set t := x - lev h L k with ht
  have e : x - lev h L k' = t - 2 * h * ((k':ℝ) - k) := by
    have := lev_sub h L k k'; rw [ht]; linarith
  rw [e]
  rcases Nat.lt_or_gt_of_ne hne with hlt | hgt
  · -- k' < k : needs t > -h
    have hk0 : k ≠ 0 := by omega
    rw [if_neg hk0] at h1
    have h1' : -h < t := h1
    have hm : (1:ℝ) ≤ (k:ℝ) - k' := by
      have : ((k' + 1 : Nat) : ℝ) ≤ (k:ℝ) := by exact_mod_cast hlt
      push_cast at this; linarith
    set m := (k:ℝ) - k' with hmdef
    have e2 : (t - 2 * h * ((k':ℝ) - k)) * (t - 2 * h * ((k':ℝ) - k)) - t * t = 4 * h * m * (t + h * m) := by
      rw [hmdef]; ring
    have hhm : h ≤ h * m := by nlinarith
    have : 0 < 4 * h * m * (t + h * m) := by
      apply mul_pos
      · positivity
      · linarith
    linarith
  · -- k' > k : needs t < h
    have hkL : k + 1 ≠ L := by omega
    rw [if_neg hkL] at h2
    have h2' : t < h := h2
    have hm : (1:ℝ) ≤ (k':ℝ) - k := by
      have : ((k + 1 : Nat) : ℝ) ≤ (k':ℝ) := by exact_mod_cast hgt
      push_cast at this; linarith
    set m := (k':ℝ) - k with hmdef
    have e2 : (t - 2 * h * m) * (t - 2 * h * m) - t * t = 4 * h * m * (h * m - t) := by ring
    have hhm : h ≤ h * m := by nlinarith
    have : 0 < 4 * h * m * (h * m - t) := by
      apply mul_pos
      · positivity
      · linarith
    linarith

theorem measurableSet_Jc (L : Nat) (h : ℝ) (k : Nat) : MeasurableSet (Jc L h k) := by
  unfold Jc
  apply MeasurableSet.inter <;> split_ifs
  · exact MeasurableSet.univ
  · exact measurableSet_Ici
  · exact MeasurableSet.univ
  · exact measurableSet_Iic

theorem measurableSet_Jo (L : Nat) (h : ℝ) (k : Nat) : MeasurableSet (Jo L h k) := by
  unfold Jo
  apply MeasurableSet.inter <;> split_ifs
  · exact MeasurableSet.univ
  · exact measurableSet_Ioi
  · exact MeasurableSet.univ
  · exact measurableSet_Iio

theorem gauss_Iic {σ : ℝ} (hσ : 0 < σ) (t : ℝ) : (noise σ).real (Iic t) = 1 - Qg (t / σ) := by
  have : Iic t = (Ioi t)ᶜ := by ext x; simp
  rw [this, measureReal_compl measurableSet_Ioi, gauss_upper_tail hσ]; simp

theorem gauss_Iio {σ : ℝ} (hσ : 0 < σ) (t : ℝ) : (noise σ).real (Iio t) = 1 - Qg (t / σ) := by
  have : Iio t = (Ici t)ᶜ := by ext x; simp
  rw [this, measureReal_compl measurableSet_Ici, gauss_upper_tail_closed hσ]; simp

theorem gauss_Ici_neg {σ : ℝ} (hσ : 0 < σ) (t : ℝ) : (noise σ).real (Ici (-t)) = 1 - Qg (t / σ) := by
  have : Ici (-t) = (Iio (-t))ᶜ := by ext x; simp
  rw [this, measureReal_compl measurableSet_Iio, gauss_lower_tail hσ]; simp

theorem gauss_Ioi_neg {σ : ℝ} (hσ : 0 < σ) (t : ℝ) : (noise σ).real (Ioi (-t)) = 1 - Qg (t / σ) := by
  have : Ioi (-t) = (Iic (-t))ᶜ := by ext x; simp
  rw [this, measureReal_compl measurableSet_Iic, gauss_lower_tail_closed hσ]; simp

theorem gauss_Icc {σ : ℝ} (hσ : 0 < σ) {t : ℝ} (ht : 0 < t) :
    (noise σ).real (Ici (-t) ∩ Iic t) = 1 - 2 * Qg (t / σ) := by
  have : Ici (-t) ∩ Iic t = (Iio (-t) ∪ Ioi t)ᶜ := by
    ext x; simp only [mem_inter_iff, mem_Ici, mem_Iic, mem_compl_iff, mem_union, mem_Iio, mem_Ioi, not_or, not_lt]
  rw [this, measureReal_compl (measurableSet_Iio.union measurableSet_Ioi),
    measureReal_union _ measurableSet_Ioi, gauss_lower_tail hσ, gauss_upper_tail hσ]
  · simp; ring
  · rw [Set.disjoint_left]; intro x hx hx'
    simp only [mem_Iio, mem_Ioi] at hx hx'; linarith

theorem gauss_Ioo' {σ : ℝ} (hσ : 0 < σ) {t : ℝ} (ht : 0 < t) :
    (noise σ).real (Ioi (-t) ∩ Iio t) = 1 - 2 * Qg (t / σ) := by
  have : Ioi (-t) ∩ Iio t = Ioo (-t) t := by ext x; simp [mem_Ioo]
  rw [this, gauss_inner hσ ht]

/-- probability that the noise keeps level `k` (weakly) nearest: `1 − c_k·Q(h/σ)` -/
theorem prob_Jc {σ h : ℝ} (hσ : 0 < σ) (hh : 0 < h) (L k : Nat) :
    (noise σ).real (Jc L h k) = 1 - (cnt L k : ℝ) * Qg (h / σ) := by
  unfold Jc cnt
  by_cases h0 : k = 0 <;> by_cases h1 : k + 1 = L
  · rw [if_pos h0, if_pos h1, if_pos h0, if_pos h1]; simp
  · rw [if_pos h0, if_neg h1, if_pos h0, if_neg h1, univ_inter, gauss_Iic hσ]; norm_num
  · rw [if_neg h0, if_pos h1, if_neg h0, if_pos h1, inter_univ, gauss_Ici_neg hσ]; norm_num
  · rw [if_neg h0, if_neg h1, if_neg h0, if_neg h1, gauss_Icc hσ hh]; norm_num

theorem prob_Jo {σ h : ℝ} (hσ : 0 < σ) (hh : 0 < h) (L k : Nat) :
    (noise σ).real (Jo L h k) = 1 - (cnt L k : ℝ) * Qg (h / σ) := by
  unfold Jo cnt
  by_cases h0 : k = 0 <;> by_cases h1 : k + 1 = L
  · rw [if_pos h0, if_pos h1, if_pos h0, if_pos h1]; simp
  · rw [if_pos h0, if_neg h1, if_pos h0, if_neg h1, univ_inter, gauss_Iio hσ]; norm_num
  · rw [if_neg h0, if_pos h1, if_neg h0, if_pos h1, inter_univ, gauss_Ioi_neg hσ]; norm_num
  · rw [if_neg h0, if_neg h1, if_neg h0, if_neg h1, gauss_Ioo' hσ hh]; norm_num

/-- an `L`-level axis has `2(L−1)` (ordered) neighbour pairs -/
theorem sum_cnt (L : Nat) (hL : 1 ≤ L) : ∑ k ∈ Finset.range L, cnt L k = 2 * (L - 1) := by
  have key : ∀ n, n + 1 ≤ L → ∑ k ∈ Finset.range (n + 1), cnt L k = if n + 1 = L then 2 * n else 2 * n + 1 := by
    intro n
    induction n with
    | zero =>
      intro h
      simp [cnt]
    | succ n ih =>
      intro h
      rw [Finset.sum_range_succ, ih (by omega)]
      have : n + 1 ≠ L := by omega
      simp only [this, if_false, cnt]
      by_cases h1 : n + 1 + 1 = L <;> simp [h1] <;> omega
  obtain ⟨n, rfl⟩ : ∃ n, L = n + 1 := ⟨L - 1, by omega⟩
  rw [key n (le_refl _)]; simp

end PyPhysim.C16
