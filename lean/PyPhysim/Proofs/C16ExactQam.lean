import PyPhysim.Proofs.C16Exact
import Mathlib.MeasureTheory.Measure.Prod

/-!
# C16 — square QAM: the formula `1 − (1 − 2(1−1/√M)·Q(d_min/2σ))²` is the exact AWGN symbol error rate

The emitted constellation (`Model/C01.qamNatural`) is an `L × L` grid of equally spaced levels
(half spacing `h = 1/e`).  With independent Gaussian noise of standard deviation `σ` per real
dimension the nearest-point detector `demod` decides correctly with probability
`(1 − c_j Q)(1 − c_i Q)`, `Q = Qg(h/σ)`, where `c = 1` for an edge level and `2` for an inner
one; averaging over the `L²` points gives `(1 − 2(1 − 1/L) Q)²`.
-/
namespace PyPhysim.C16
open MeasureTheory ProbabilityTheory Set
open PyPhysim.C01

/-! ### one axis -/

/-- level `k` of an `L`-level axis with half spacing `h`: `(2k − (L−1))·h` -/
noncomputable def lev (h : ℝ) (L k : Nat) : ℝ := (2 * (k:ℝ) - ((L:ℝ) - 1)) * h

/-- number of neighbours of level `k` on an `L`-level axis -/
def cnt (L k : Nat) : Nat := (if k = 0 then 0 else 1) + (if k + 1 = L then 0 else 1)

/-- noise values that keep level `k` the (weakly) nearest one -/
def Jc (L : Nat) (h : ℝ) (k : Nat) : Set ℝ :=
  (if k = 0 then univ else Ici (-h)) ∩ (if k + 1 = L then univ else Iic h)
/-- noise values that keep level `k` the strictly nearest one -/
def Jo (L : Nat) (h : ℝ) (k : Nat) : Set ℝ :=
  (if k = 0 then univ else Ioi (-h)) ∩ (if k + 1 = L then univ else Iio h)

theorem lev_sub (h : ℝ) (L k k' : Nat) : lev h L k' - lev h L k = 2 * h * ((k':ℝ) - k) := by
  unfold lev; ring

theorem lev_inj {h : ℝ} (hh : 0 < h) (L k k' : Nat) (e : lev h L k = lev h L k') : k = k' := by
  have := lev_sub h L k k'
  rw [e, sub_self] at this
  have h2 : ((k':ℝ) - k) = 0 := by
    rcases mul_eq_zero.mp this.symm with h3 | h3
    · linarith
    · exact h3
  have : (k':ℝ) = k := by linarith
  exact_mod_cast this.symm

/-- closed cell ⊆ interval (only the two neighbouring levels are needed) -/
theorem closed1_subset {h : ℝ} (hh : 0 < h) (L k : Nat) (hk : k < L) (x : ℝ)
    (hx : ∀ k' < L, (x - lev h L k) * (x - lev h L k) ≤ (x - lev h L k') * (x - lev h L k')) :
    x - lev h L k ∈ Jc L h k := by
  constructor
  · split_ifs with h0
    · exact mem_univ _
    · have hpos : 0 < k := Nat.pos_of_ne_zero h0
      have := hx (k - 1) (by omega)
      have e : lev h L (k - 1) = lev h L k - 2 * h := by
        have := lev_sub h L k (k - 1)
        rw [Nat.cast_sub hpos] at this
        push_cast at this; linarith
      rw [e] at this
      simp only [mem_Ici]
      nlinarith
  · split_ifs with h1
    · exact mem_univ _
    · have hlt : k + 1 < L := by omega
      have := hx (k + 1) hlt
      have e : lev h L (k + 1) = lev h L k + 2 * h := by
        have := lev_sub h L k (k + 1)
        push_cast at this; linarith
      rw [e] at this
      simp only [mem_Iic]
      nlinarith

/-- interval ⊆ open cell -/
theorem open1_superset {h : ℝ} (hh : 0 < h) (L k : Nat) (x : ℝ) (hx : x - lev h L k ∈ Jo L h k)
    (k' : Nat) (hk' : k' < L) (hne : k' ≠ k) :
    (x - lev h L k) * (x - lev h L k) < (x - lev h L k') * (x - lev h L k') := by
  obtain ⟨h1, h2⟩ := hx
  set t := x - lev h L k with ht
  have e : x - lev h L k' = t - 2 * h * ((k':ℝ) - k) := by
    have := lev_sub h L k k'; rw [ht]; linarith
  rw [e]
  rcases Nat.lt_or_gt_of_ne hne with hlt | hgt
  · -- k' < k : needs t > -h
    have hk0 : k ≠ 0 := by omega
    rw [if_neg hk0] at h1
    have h1' : -h < t := h1
    have hm : (1:ℝ) ≤ (k:ℝ) - k' := by
      have : ((k' + 1 : Nat) : ℝ) ≤ (k:ℝ) := by exact_mod_cast hlt
      push_cast at this; linarith
    set m := (k:ℝ) - k' with hmdef
    have e2 : (t - 2 * h * ((k':ℝ) - k)) * (t - 2 * h * ((k':ℝ) - k)) - t * t = 4 * h * m * (t + h * m) := by
      rw [hmdef]; ring
    have hhm : h ≤ h * m := by nlinarith
    have : 0 < 4 * h * m * (t + h * m) := by
      apply mul_pos
      · positivity
      · linarith
    linarith
  · -- k' > k : needs t < h
    have hkL : k + 1 ≠ L := by omega
    rw [if_neg hkL] at h2
    have h2' : t < h := h2
    have hm : (1:ℝ) ≤ (k':ℝ) - k := by
      have : ((k + 1 : Nat) : ℝ) ≤ (k':ℝ) := by exact_mod_cast hgt
      push_cast at this; linarith
    set m := (k':ℝ) - k with hmdef
    have e2 : (t - 2 * h * m) * (t - 2 * h * m) - t * t = 4 * h * m * (h * m - t) := by ring
    have hhm : h ≤ h * m := by nlinarith
    have : 0 < 4 * h * m * (h * m - t) := by
      apply mul_pos
      · positivity
      · linarith
    linarith

theorem measurableSet_Jc (L : Nat) (h : ℝ) (k : Nat) : MeasurableSet (Jc L h k) := by
  unfold Jc
  apply MeasurableSet.inter <;> split_ifs
  · exact MeasurableSet.univ
  · exact measurableSet_Ici
  · exact MeasurableSet.univ
  · exact measurableSet_Iic

theorem measurableSet_Jo (L : Nat) (h : ℝ) (k : Nat) : MeasurableSet (Jo L h k) := by
  unfold Jo
  apply MeasurableSet.inter <;> split_ifs
  · exact MeasurableSet.univ
  · exact measurableSet_Ioi
  · exact MeasurableSet.univ
  · exact measurableSet_Iio

theorem gauss_Iic {σ : ℝ} (hσ : 0 < σ) (t : ℝ) : (noise σ).real (Iic t) = 1 - Qg (t / σ) := by
  have : Iic t = (Ioi t)ᶜ := by ext x; simp
  rw [this, measureReal_compl measurableSet_Ioi, gauss_upper_tail hσ]; simp

theorem gauss_Iio {σ : ℝ} (hσ : 0 < σ) (t : ℝ) : (noise σ).real (Iio t) = 1 - Qg (t / σ) := by
  have : Iio t = (Ici t)ᶜ := by ext x; simp
  rw [this, measureReal_compl measurableSet_Ici, gauss_upper_tail_closed hσ]; simp

theorem gauss_Ici_neg {σ : ℝ} (hσ : 0 < σ) (t : ℝ) : (noise σ).real (Ici (-t)) = 1 - Qg (t / σ) := by
  have : Ici (-t) = (Iio (-t))ᶜ := by ext x; simp
  rw [this, measureReal_compl measurableSet_Iio, gauss_lower_tail hσ]; simp

theorem gauss_Ioi_neg {σ : ℝ} (hσ : 0 < σ) (t : ℝ) : (noise σ).real (Ioi (-t)) = 1 - Qg (t / σ) := by
  have : Ioi (-t) = (Iic (-t))ᶜ := by ext x; simp
  rw [this, measureReal_compl measurableSet_Iic, gauss_lower_tail_closed hσ]; simp

theorem gauss_Icc {σ : ℝ} (hσ : 0 < σ) {t : ℝ} (ht : 0 < t) :
    (noise σ).real (Ici (-t) ∩ Iic t) = 1 - 2 * Qg (t / σ) := by
  have : Ici (-t) ∩ Iic t = (Iio (-t) ∪ Ioi t)ᶜ := by
    ext x; simp only [mem_inter_iff, mem_Ici, mem_Iic, mem_compl_iff, mem_union, mem_Iio, mem_Ioi, not_or, not_lt]
  rw [this, measureReal_compl (measurableSet_Iio.union measurableSet_Ioi),
    measureReal_union _ measurableSet_Ioi, gauss_lower_tail hσ, gauss_upper_tail hσ]
  · simp; ring
  · rw [Set.disjoint_left]; intro x hx hx'
    simp only [mem_Iio, mem_Ioi] at hx hx'; linarith

theorem gauss_Ioo' {σ : ℝ} (hσ : 0 < σ) {t : ℝ} (ht : 0 < t) :
    (noise σ).real (Ioi (-t) ∩ Iio t) = 1 - 2 * Qg (t / σ) := by
  have : Ioi (-t) ∩ Iio t = Ioo (-t) t := by ext x; simp [mem_Ioo]
  rw [this, gauss_inner hσ ht]

/-- probability that the noise keeps level `k` (weakly) nearest: `1 − c_k·Q(h/σ)` -/
theorem prob_Jc {σ h : ℝ} (hσ : 0 < σ) (hh : 0 < h) (L k : Nat) :
    (noise σ).real (Jc L h k) = 1 - (cnt L k : ℝ) * Qg (h / σ) := by
  unfold Jc cnt
  by_cases h0 : k = 0 <;> by_cases h1 : k + 1 = L
  · rw [if_pos h0, if_pos h1, if_pos h0, if_pos h1]; simp
  · rw [if_pos h0, if_neg h1, if_pos h0, if_neg h1, univ_inter, gauss_Iic hσ]; norm_num
  · rw [if_neg h0, if_pos h1, if_neg h0, if_pos h1, inter_univ, gauss_Ici_neg hσ]; norm_num
  · rw [if_neg h0, if_neg h1, if_neg h0, if_neg h1, gauss_Icc hσ hh]; norm_num

theorem prob_Jo {σ h : ℝ} (hσ : 0 < σ) (hh : 0 < h) (L k : Nat) :
    (noise σ).real (Jo L h k) = 1 - (cnt L k : ℝ) * Qg (h / σ) := by
  unfold Jo cnt
  by_cases h0 : k = 0 <;> by_cases h1 : k + 1 = L
  · rw [if_pos h0, if_pos h1, if_pos h0, if_pos h1]; simp
  · rw [if_pos h0, if_neg h1, if_pos h0, if_neg h1, univ_inter, gauss_Iio hσ]; norm_num
  · rw [if_neg h0, if_pos h1, if_neg h0, if_pos h1, inter_univ, gauss_Ioi_neg hσ]; norm_num
  · rw [if_neg h0, if_neg h1, if_neg h0, if_neg h1, gauss_Ioo' hσ hh]; norm_num

/-- an `L`-level axis has `2(L−1)` (ordered) neighbour pairs -/
theorem sum_cnt (L : Nat) (hL : 1 ≤ L) : ∑ k ∈ Finset.range L, cnt L k = 2 * (L - 1) := by
  have key : ∀ n, n + 1 ≤ L → ∑ k ∈ Finset.range (n + 1), cnt L k = if n + 1 = L then 2 * n else 2 * n + 1 := by
    intro n
    induction n with
    | zero =>
      intro h
      simp [cnt]
    | succ n ih =>
      intro h
      rw [Finset.sum_range_succ, ih (by omega)]
      have : n + 1 ≠ L := by omega
      simp only [this, if_false, cnt]
      by_cases h1 : n + 1 + 1 = L <;> simp [h1] <;> omega
  obtain ⟨n, rfl⟩ : ∃ n, L = n + 1 := ⟨L - 1, by omega⟩
  rw [key n (le_refl _)]; simp

/-! ### the grid -/

/-- independent Gaussian noise on the two real dimensions -/
noncomputable def noise2 (σ : ℝ) : Measure (ℝ × ℝ) := (noise σ).prod (noise σ)

instance (σ : ℝ) : IsProbabilityMeasure (noise2 σ) := by unfold noise2; infer_instance

/-- grid point in column `j`, row `i` (rows count downwards, as in `_createConstellation`) -/
noncomputable def gpt (h : ℝ) (L j i : Nat) : ℝ × ℝ := (lev h L j, -(lev h L i))

/-- the `L × L` table in the order of `qamGrid`: index `i·L + j` -/
noncomputable def gridTable (h : ℝ) (L : Nat) : List (ℝ × ℝ) :=
  (List.range (L * L)).map (fun idx => gpt h L (idx % L) (idx / L))

theorem mem_gridTable {h : ℝ} {L : Nat} {q : ℝ × ℝ} (hq : q ∈ gridTable h L) :
    ∃ j i, j < L ∧ i < L ∧ q = gpt h L j i := by
  simp only [gridTable, List.mem_map, List.mem_range] at hq
  obtain ⟨idx, hidx, rfl⟩ := hq
  have hL : 0 < L := by
    rcases Nat.eq_zero_or_pos L with h0 | h0
    · subst h0; simp at hidx
    · exact h0
  exact ⟨idx % L, idx / L, Nat.mod_lt _ hL, Nat.div_lt_of_lt_mul hidx, rfl⟩

theorem gpt_mem_gridTable (h : ℝ) {L j i : Nat} (hj : j < L) (hi : i < L) : gpt h L j i ∈ gridTable h L := by
  simp only [gridTable, List.mem_map, List.mem_range]
  refine ⟨i * L + j, ?_, ?_⟩
  · calc i * L + j < i * L + L := by omega
      _ = (i + 1) * L := by ring
      _ ≤ L * L := by rw [Nat.mul_comm]; exact Nat.mul_le_mul_left L hi
  · have h1 : (i * L + j) % L = j := by rw [Nat.add_comm, Nat.add_mul_mod_self_right, Nat.mod_eq_of_lt hj]
    have h2 : (i * L + j) / L = i := by
      rw [Nat.add_comm, Nat.add_mul_div_right _ _ (by omega : 0 < L), Nat.div_eq_of_lt hj, Nat.zero_add]
    rw [h1, h2]

theorem gridTable_getElem? (h : ℝ) {L j i : Nat} (hj : j < L) (hi : i < L) :
    (gridTable h L)[i * L + j]? = some (gpt h L j i) := by
  have hlt : i * L + j < L * L := by
    calc i * L + j < i * L + L := by omega
      _ = (i + 1) * L := by ring
      _ ≤ L * L := by rw [Nat.mul_comm]; exact Nat.mul_le_mul_left L hi
  have h1 : (i * L + j) % L = j := by rw [Nat.add_comm, Nat.add_mul_mod_self_right, Nat.mod_eq_of_lt hj]
  have h2 : (i * L + j) / L = i := by
    rw [Nat.add_comm, Nat.add_mul_div_right _ _ (by omega : 0 < L), Nat.div_eq_of_lt hj, Nat.zero_add]
  simp [gridTable, hlt, h1, h2]

theorem gpt_inj {h : ℝ} (hh : 0 < h) {L j i j' i' : Nat} (e : gpt h L j i = gpt h L j' i') : j = j' ∧ i = i' := by
  simp only [gpt, Prod.mk.injEq, neg_inj] at e
  exact ⟨lev_inj hh L j j' e.1, lev_inj hh L i i' e.2⟩

theorem gridTable_nodup {h : ℝ} (hh : 0 < h) (L : Nat) : (gridTable h L).Nodup := by
  unfold gridTable
  apply List.Nodup.map_on _ List.nodup_range
  intro a ha b hb e
  rw [List.mem_range] at ha hb
  obtain ⟨e1, e2⟩ := gpt_inj hh e
  rw [← Nat.div_add_mod a L, ← Nat.div_add_mod b L, e1, e2]

/-- noise vectors that keep `(j,i)` (weakly) nearest -/
def Ac (L : Nat) (h : ℝ) (j i : Nat) : Set (ℝ × ℝ) := Jc L h j ×ˢ ((fun y => -y) ⁻¹' Jc L h i)
/-- noise vectors that keep `(j,i)` strictly nearest -/
def Ao (L : Nat) (h : ℝ) (j i : Nat) : Set (ℝ × ℝ) := Jo L h j ×ˢ ((fun y => -y) ⁻¹' Jo L h i)

theorem closedCell_subset {h : ℝ} (hh : 0 < h) {L j i : Nat} (hj : j < L) (hi : i < L) (n : ℝ × ℝ)
    (hn : ((gpt h L j i).1 + n.1, (gpt h L j i).2 + n.2) ∈ closedCell (gridTable h L) (gpt h L j i)) :
    n ∈ Ac L h j i := by
  simp only [closedCell, mem_ofPred_eq] at hn
  constructor
  · have := closed1_subset hh L j hj (lev h L j + n.1) (fun j' hj' => by
      have := hn (gpt h L j' i) (gpt_mem_gridTable h hj' hi)
      simp only [dist2, gpt] at this
      linarith)
    simpa using this
  · have := closed1_subset hh L i hi (lev h L i - n.2) (fun i' hi' => by
      have := hn (gpt h L j i') (gpt_mem_gridTable h hj hi')
      simp only [dist2, gpt] at this
      nlinarith)
    simp only [mem_preimage]
    have e : lev h L i - n.2 - lev h L i = -n.2 := by ring
    rwa [e] at this

theorem subset_openCell {h : ℝ} (hh : 0 < h) {L j i : Nat} (n : ℝ × ℝ) (hn : n ∈ Ao L h j i) :
    ((gpt h L j i).1 + n.1, (gpt h L j i).2 + n.2) ∈ openCell (gridTable h L) (gpt h L j i) := by
  obtain ⟨h1, h2⟩ := hn
  simp only [mem_preimage] at h2
  intro q hq hne
  obtain ⟨j', i', hj', hi', rfl⟩ := mem_gridTable hq
  have hx : lev h L j + n.1 - lev h L j ∈ Jo L h j := by simpa using h1
  have hy : lev h L i - n.2 - lev h L i ∈ Jo L h i := by
    have e : lev h L i - n.2 - lev h L i = -n.2 := by ring
    rwa [e]
  simp only [dist2, gpt]
  have ex : ∀ k, lev h L j + n.1 - lev h L k = (lev h L j + n.1) - lev h L k := fun _ => rfl
  have ey : ∀ k, -lev h L i + n.2 - -lev h L k = -((lev h L i - n.2) - lev h L k) := fun k => by ring
  rw [ey i, ey i', neg_mul_neg, neg_mul_neg]
  by_cases hjj : j' = j
  · subst hjj
    have hii : i' ≠ i := by intro e; subst e; exact hne rfl
    have := open1_superset hh L i (lev h L i - n.2) hy i' hi' hii
    linarith
  · have hxs := open1_superset hh L j (lev h L j + n.1) hx j' hj' hjj
    by_cases hii : i' = i
    · subst hii; linarith
    · have := open1_superset hh L i (lev h L i - n.2) hy i' hi' hii
      linarith

theorem noise_preimage_neg (σ : ℝ) (s : Set ℝ) (hs : MeasurableSet s) :
    (noise σ).real ((fun y => -y) ⁻¹' s) = (noise σ).real s := by
  conv_rhs => rw [← noise_neg σ]
  rw [map_measureReal_apply (by fun_prop) hs]

theorem prob_Ac {σ h : ℝ} (hσ : 0 < σ) (hh : 0 < h) (L j i : Nat) :
    (noise2 σ).real (Ac L h j i) = (1 - (cnt L j : ℝ) * Qg (h / σ)) * (1 - (cnt L i : ℝ) * Qg (h / σ)) := by
  unfold noise2 Ac
  rw [measureReal_prod_prod, noise_preimage_neg σ _ (measurableSet_Jc L h i), prob_Jc hσ hh, prob_Jc hσ hh]

theorem prob_Ao {σ h : ℝ} (hσ : 0 < σ) (hh : 0 < h) (L j i : Nat) :
    (noise2 σ).real (Ao L h j i) = (1 - (cnt L j : ℝ) * Qg (h / σ)) * (1 - (cnt L i : ℝ) * Qg (h / σ)) := by
  unfold noise2 Ao
  rw [measureReal_prod_prod, noise_preimage_neg σ _ (measurableSet_Jo L h i), prob_Jo hσ hh, prob_Jo hσ hh]

/-- the noise vectors for which the detector returns the transmitted index `i·L + j` -/
def correctNoise (c : List (ℝ × ℝ)) (p : ℝ × ℝ) (idx : Nat) : Set (ℝ × ℝ) :=
  {n | demod c (p.1 + n.1, p.2 + n.2) = idx}

/-- **probability of a correct decision** for the point in column `j`, row `i` -/
theorem prob_correct {σ h : ℝ} (hσ : 0 < σ) (hh : 0 < h) {L j i : Nat} (hj : j < L) (hi : i < L) :
    (noise2 σ).real (correctNoise (gridTable h L) (gpt h L j i) (i * L + j)) =
      (1 - (cnt L j : ℝ) * Qg (h / σ)) * (1 - (cnt L i : ℝ) * Qg (h / σ)) := by
  have hget := gridTable_getElem? h hj hi
  apply le_antisymm
  · rw [← prob_Ac hσ hh]
    refine measureReal_mono (fun n hn => ?_) (measure_ne_top _ _)
    apply closedCell_subset hh hj hi n
    exact decided_subset_closed _ _ _ hget hn
  · rw [← prob_Ao hσ hh]
    refine measureReal_mono (fun n hn => ?_) (measure_ne_top _ _)
    exact open_subset_decided _ (gridTable_nodup hh L) _ _ hget (subset_openCell hh n hn)

/-- the same for ANY labelling of the grid: a table `c` with the same points (in any order, e.g. the Gray
    relabelling of C15) that carries the point of column `j`, row `i` at label `l` -/
theorem prob_correct_any_labelling {σ h : ℝ} (hσ : 0 < σ) (hh : 0 < h) {L j i : Nat} (hj : j < L) (hi : i < L)
    (c : List (ℝ × ℝ)) (hmem : ∀ q, q ∈ c ↔ q ∈ gridTable h L) (hnd : c.Nodup) (l : Nat)
    (hl : c[l]? = some (gpt h L j i)) :
    (noise2 σ).real (correctNoise c (gpt h L j i) l) =
      (1 - (cnt L j : ℝ) * Qg (h / σ)) * (1 - (cnt L i : ℝ) * Qg (h / σ)) := by
  apply le_antisymm
  · rw [← prob_Ac hσ hh]
    refine measureReal_mono (fun n hn => ?_) (measure_ne_top _ _)
    apply closedCell_subset hh hj hi n
    rw [← closedCell_congr hmem]
    exact decided_subset_closed _ _ _ hl hn
  · rw [← prob_Ao hσ hh]
    refine measureReal_mono (fun n hn => ?_) (measure_ne_top _ _)
    apply open_subset_decided _ hnd _ _ hl
    rw [openCell_congr hmem]
    exact subset_openCell hh n hn

/-- average probability of a correct decision over the `L²` points: `(1 − 2(1 − 1/L)·Q)²` -/
theorem avg_correct {σ h : ℝ} (hσ : 0 < σ) (hh : 0 < h) {L : Nat} (hL : 1 ≤ L) :
    (∑ i ∈ Finset.range L, ∑ j ∈ Finset.range L,
        (noise2 σ).real (correctNoise (gridTable h L) (gpt h L j i) (i * L + j))) / ((L:ℝ) * L) =
      (1 - 2 * (1 - 1 / (L:ℝ)) * Qg (h / σ)) * (1 - 2 * (1 - 1 / (L:ℝ)) * Qg (h / σ)) := by
  have hLr : (0:ℝ) < L := by exact_mod_cast hL
  set Q := Qg (h / σ)
  have hsum : ∑ k ∈ Finset.range L, (1 - (cnt L k : ℝ) * Q) = (L:ℝ) - 2 * ((L:ℝ) - 1) * Q := by
    rw [Finset.sum_sub_distrib, ← Finset.sum_mul]
    have := sum_cnt L hL
    have h2 : (∑ k ∈ Finset.range L, (cnt L k : ℝ)) = 2 * ((L:ℝ) - 1) := by
      rw [← Nat.cast_sum, this]; push_cast [Nat.cast_sub hL]; ring
    rw [h2]; simp
  have : ∑ i ∈ Finset.range L, ∑ j ∈ Finset.range L,
      (noise2 σ).real (correctNoise (gridTable h L) (gpt h L j i) (i * L + j)) =
      (∑ j ∈ Finset.range L, (1 - (cnt L j : ℝ) * Q)) * (∑ i ∈ Finset.range L, (1 - (cnt L i : ℝ) * Q)) := by
    rw [Finset.sum_mul_sum, Finset.sum_comm]
    apply Finset.sum_congr rfl; intro j hj
    apply Finset.sum_congr rfl; intro i hi
    rw [Finset.mem_range] at hi hj
    exact prob_correct hσ hh hj hi
  rw [this, hsum]
  field_simp

/-! ### the emitted constellation is that grid; the code's formula is that average -/

/-- the scaling constant of `QAM._createConstellation` -/
noncomputable def qamE (L : Nat) : ℝ :=
  Real.sqrt ((((L * L - 1 : Nat) : ℝ) * ((2 : Nat) : ℝ)) / ((3 : Nat) : ℝ))

theorem qamNatural_eq_grid (L : Nat) : qamNatural (α := ℝ) L = gridTable (1 / qamE L) L := by
  simp only [qamNatural, qamGrid, gridTable, List.map_map, Trig.sqrt]
  apply List.map_congr_left
  intro idx _
  simp only [Function.comp, qamGridPoint, gpt, lev, qamE]
  ext
  · simp only [Int.cast_add, Int.cast_sub, Int.cast_neg, Int.cast_mul, Int.cast_natCast, Int.cast_one,
      Int.cast_ofNat]
    ring
  · simp only [Int.cast_add, Int.cast_sub, Int.cast_neg, Int.cast_mul, Int.cast_natCast, Int.cast_one,
      Int.cast_ofNat]
    ring

/-- **Square QAM is exact.**  For the emitted `L × L` constellation (`M = L²`, unit mean energy) with
    independent Gaussian noise of variance `σ² = 1/(2γ)` per real dimension, one minus the average (over
    the `M` equiprobable symbols) probability that the nearest-point detector `demod` returns the
    transmitted index equals `QAM.calcTheoreticalSER` with `Q` the Gaussian tail. -/
theorem qam_ser_is_exact (L : Nat) (hL : 2 ≤ L) (s : ℝ) :
    1 - (∑ i ∈ Finset.range L, ∑ j ∈ Finset.range L,
          (noise2 (sigma s)).real
            (correctNoise (qamNatural (α := ℝ) L) (gpt (1 / qamE L) L j i) (i * L + j))) / ((L:ℝ) * L)
      = qamSER Qg (L * L) s := by
  have he : 0 < qamE L := qam_scale_pos L hL
  have hh : 0 < 1 / qamE L := by positivity
  rw [qamNatural_eq_grid, avg_correct (sigma_pos s) hh (by omega : 1 ≤ L)]
  have harg : qamArg (L * L) s = 1 / qamE L / sigma s := by
    rw [qam_arg_general L hL s]
    have := (sigma_pos s).ne'
    unfold qamE
    field_simp
  have hcoef : qamCoef (α := ℝ) (L * L) = 2 * (1 - 1 / (L:ℝ)) := by
    rw [qamCoef_eq]
    have hLr : (2:ℝ) ≤ L := by exact_mod_cast hL
    have : Real.sqrt ((L * L : Nat) : ℝ) = L := by
      push_cast; exact Real.sqrt_mul_self (by linarith)
    rw [this]
  simp only [qamSER, qamPsc, harg, hcoef]
  norm_num

/-- every emitted point is one of the grid points the theorem ranges over -/
theorem qamNatural_getElem? (L : Nat) {j i : Nat} (hj : j < L) (hi : i < L) :
    (qamNatural (α := ℝ) L)[i * L + j]? = some (gpt (1 / qamE L) L j i) := by
  rw [qamNatural_eq_grid]; exact gridTable_getElem? _ hj hi

end PyPhysim.C16
