import PyPhysim.Proofs.C09Top

/-!
External-interference variants end to end (`whiteningBD`, `enhancedNone`,
`enhancedReduced`, `enhancedDecide`) and the SVD contract that yields the
null-space basis.
-/
set_option linter.unusedSectionVars false
namespace PyPhysim.BD
namespace Pf
open Matrix

/-! ### the null space from the full SVD of a wide matrix -/
section svd
variable {R T n : Nat}

/-- the `R × T` rectangular diagonal matrix of a full SVD -/
def sigmaRect (S : Fin R → ℝ) : Mat ℂ R T := fun a b => if a.val = b.val then ((S a : ℝ) : ℂ) else 0

/-- `VH · V0` selects the last columns of the identity -/
theorem VH_mul_leastCols (VH : Mat ℂ T T) (h : n ≤ T) (hU : matMul VH (cT VH) = eye) :
    matMul VH (leastCols VH n h) = fun a j => if a = revIdx h j then 1 else 0 := by
  funext a j
  have := congrFun (congrFun hU a) (revIdx h j)
  simpa [matMul_apply, cT, leastCols, eye] using this

/-- For a wide matrix `A = U Σ V_H` (`R` rows, `T ≥ R + n` columns) the `n` last right
    singular vectors are annihilated by `A`, whatever the singular values are. -/
theorem svd_null (A : Mat ℂ R T) (U : Mat ℂ R R) (S : Fin R → ℝ) (VH : Mat ℂ T T) (h : n ≤ T) (hR : R + n ≤ T)
    (hsvd : A = matMul (matMul U (sigmaRect S)) VH) (hU : matMul VH (cT VH) = eye) :
    matMul A (leastCols VH n h) = fun _ _ => 0 := by
  rw [hsvd, matMul_assoc, VH_mul_leastCols VH h hU, matMul_assoc]
  have : matMul (sigmaRect S : Mat ℂ R T) (fun a j => if a = revIdx h j then (1 : ℂ) else 0) = fun _ (_ : Fin n) => 0 := by
    funext a j
    rw [matMul_apply, Finset.sum_eq_single (revIdx h j)]
    · have hne : a.val ≠ (revIdx h j).val := by
        have := a.isLt; have := j.isLt
        simp only [revIdx]; omega
      simp [sigmaRect, hne]
    · intro b _ hb; simp [hb]
    · intro hb; exact absurd (Finset.mem_univ _) hb
  rw [this]
  funext a j
  simp [matMul_apply]

theorem length_tildeIdx {K N : Nat} (k : Fin K) : (tildeIdx (N := N) k).length = (K - 1) * N := by
  unfold tildeIdx
  rw [List.length_flatMap]
  simp only [List.length_map, List.length_finRange, List.map_const', List.sum_replicate, smul_eq_mul]
  congr 1
  have hnd : (List.finRange K).Nodup := List.nodup_finRange K
  have : (List.finRange K).filter (fun u => decide (u ≠ k)) = (List.finRange K).erase k := by
    rw [hnd.erase_eq_filter]
    apply List.filter_congr
    intro u _
    by_cases h : u = k <;> simp [h]
  rw [this, List.length_erase_of_mem (List.mem_finRange k), List.length_finRange]

theorem tildeIdx_room {K N : Nat} (k : Fin K) : (tildeIdx (N := N) k).length + N ≤ K * N := by
  rw [length_tildeIdx]
  have hK : 0 < K := k.pos
  have : (K - 1) * N + N = K * N := by
    rw [← Nat.succ_mul, Nat.succ_eq_add_one, Nat.sub_add_cancel hK]
  omega

end svd

/-! ### whitening -/
section whitening
variable {K N : Nat}
variable (hK : 0 < K) (H : Mat ℂ (K * N) (K * N)) (Ww Wi : Fin K → Mat ℂ N N)
  (VH1 : Fin K → Mat ℂ (K * N) (K * N)) (VH2 : Fin K → Mat ℂ N N) (S2 : Fin K → Fin N → ℝ)

theorem filters_left_inverse (hW : ∀ k, matMul (Ww k) (Wi k) = eye) (k : Fin K) :
    matMul (cT (Wi k)) (whiteningFilters Ww k) = eye := by
  have h := hW k
  to_matrix at h
  show matMul (cT (Wi k)) (cT (Ww k)) = eye
  to_matrix
  rw [← conjTranspose_mul, h, conjTranspose_one]

theorem rowBlock_colBlock (A : Mat ℂ (K * N) (K * N)) (Ms : Mat ℂ (K * N) (K * N)) (j k : Fin K) :
    matMul (rowBlock A j) (colBlock Ms k) = fun r c => matMul A Ms (join j r) (join k c) := rfl

/-- after whitening, the precoders still block-diagonalise the ACTUAL channel -/
theorem whitening_blockDiagonal (c : BDContract hK (whiteningChannel Ww H) VH1 VH2 S2)
    (hW : ∀ k, matMul (Ww k) (Wi k) = eye) (iPu : ℝ) :
    IsBlockDiagonal (matMul H (blockDiagonalizeNoWF hK iPu (whiteningChannel Ww H) VH1 VH2 S2).2) := by
  obtain ⟨t, ht⟩ := noWF_colScaled iPu (msBad (calcBD hK (whiteningChannel Ww H) VH1 VH2 S2))
  refine blockDiagonal_colScaled H _ _ t ht (blockDiagonal_stack H _ (fun j k hjk => ?_))
  exact null_of_whitened_null (whiteningFilters Ww) (fun k => cT (Wi k)) (filters_left_inverse Ww Wi hW) H _ j
    (calcBD_null hK (whiteningChannel Ww H) VH1 VH2 S2 c j k hjk)

theorem whitening_null_blocks (c : BDContract hK (whiteningChannel Ww H) VH1 VH2 S2)
    (hW : ∀ k, matMul (Ww k) (Wi k) = eye) (iPu : ℝ) (j k : Fin K) (hjk : j ≠ k) :
    matMul (rowBlock H j) (colBlock (blockDiagonalizeNoWF hK iPu (whiteningChannel Ww H) VH1 VH2 S2).2 k)
      = fun _ _ => 0 := by
  rw [rowBlock_colBlock]
  funext r cc
  exact whitening_blockDiagonal hK H Ww Wi VH1 VH2 S2 c hW iPu _ _ (by simpa using hjk)

theorem nowf_null_blocks (c : BDContract hK H VH1 VH2 S2) (iPu : ℝ) (j k : Fin K) (hjk : j ≠ k) :
    matMul (rowBlock H j) (colBlock (blockDiagonalizeNoWF hK iPu H VH1 VH2 S2).2 k) = fun _ _ => 0 := by
  rw [rowBlock_colBlock]
  funext r cc
  exact blockDiagonalizeNoWF_blockDiagonal hK H VH1 VH2 S2 c iPu _ _ (by simpa using hjk)

theorem nowf_rx_block (iPu : ℝ) (k : Fin K) (Wp : Mat ℂ N N)
    (hpinv : matMul Wp (diagBlock (blockDiagonalizeNoWF hK iPu H VH1 VH2 S2).1 k) = eye) :
    matMul Wp (matMul (rowBlock H k) (colBlock (blockDiagonalizeNoWF hK iPu H VH1 VH2 S2).2 k)) = eye := by
  rw [← diagBlock_newH]; exact hpinv

end whitening

/-! ### stream reduction -/
section reduction
variable {T N n r : Nat}

theorem enhancedReduced_Ms (iPu : ℝ) (Hk : Mat ℂ N T) (Msk : Mat ℂ T N) (Pk : Mat ℂ N n) (G : Mat ℂ n n)
    (Wp : Mat ℂ n N) : (enhancedReduced iPu Hk Msk n Pk G Wp).Ms = (reduce iPu Hk Msk Pk G).MsPk := rfl

theorem reduced_nulls (iPu : ℝ) (Hk Hj : Mat ℂ N T) (Msk : Mat ℂ T N) (Pk : Mat ℂ N n) (G : Mat ℂ n n)
    (hnull : matMul Hj Msk = fun _ _ => 0) : matMul Hj (reduce iPu Hk Msk Pk G).MsPk = fun _ _ => 0 := by
  rw [reduce_MsPk_factor]
  exact null_mul _ _ _ hnull

theorem reduced_rx (iPu : ℝ) (Hk : Mat ℂ N T) (Msk : Mat ℂ T N) (Pk : Mat ℂ N n) (G : Mat ℂ n n)
    (Wp : Mat ℂ n N) (hpinv : matMul Wp (reduce iPu Hk Msk Pk G).pinvArg = eye) :
    matMul (rxFilterRed Wp (reduce iPu Hk Msk Pk G).pbar) (matMul Hk (reduce iPu Hk Msk Pk G).MsPk) = eye := by
  rw [← reduce_heqRed]
  exact rxFilterRed_inverts Wp _ _ hpinv

/-- orthonormal `Msk` and `Pk` give a product with `‖·‖²_F = n` -/
theorem frobSq_MsP (Msk : Mat ℂ T N) (Pk : Mat ℂ N n) (hM : matMul (cT Msk) Msk = eye)
    (hPk : matMul (cT Pk) Pk = eye) : frobSq (matMul Msk Pk) = n :=
  frobSq_of_unit_cols _ (col_normSq_of_orthonormal _ (orthonormal_mul Msk Pk hM hPk))

/-- `np.eye(N)[:, 0:n]` has orthonormal columns -/
theorem eyeCols_orthonormal (hn : n ≤ N) : matMul (cT (eyeCols : Mat ℂ N n)) eyeCols = eye := by
  funext a b
  simp only [matMul_apply, cT, eyeCols, Cx.conj, eye]
  rw [Finset.sum_eq_single (⟨a.val, lt_of_lt_of_le a.isLt hn⟩ : Fin N)]
  · by_cases hab : a = b
    · subst hab; simp
    · have : a.val ≠ b.val := fun h => hab (Fin.ext h)
      simp [hab, this]
  · intro i _ hi
    have : i.val ≠ a.val := fun h => hi (Fin.ext h)
    simp [this]
  · intro h; exact absurd (Finset.mem_univ _) h

/-- with the interference gone only the noise is left at the filter output:
    `W Re Wᴴ = σ² W Wᴴ` -/
theorem rx_cov_noise_only (pe nv : ℝ) (E : Mat ℂ N r) (W : Mat ℂ n N) (hWE : matMul W E = fun _ _ => 0) :
    matMul W (matMul (covExtInt pe nv E) (cT W)) = fun i j => Cx.ofReal nv * matMul W (cT W) i j := by
  have h' := congrArg toM hWE
  rw [toM_matMul] at h'
  have hz : toM (fun (_ : Fin n) (_ : Fin r) => (0 : ℂ)) = 0 := rfl
  rw [hz] at h'
  have key : toM (fun i j => Cx.ofReal nv * matMul W (cT W) i j : Mat ℂ n n) = (nv : ℂ) • (toM W * (toM W)ᴴ) := by
    ext i j
    have := congrFun (congrFun (toM_matMul W (cT W)) i) j
    rw [toM_cT] at this
    simp only [of_apply] at this
    simp [Cx.ofReal, this]
  apply toM_inj
  rw [key, toM_matMul, toM_matMul, toM_covExtInt, toM_cT, Matrix.add_mul, Matrix.mul_add, Matrix.smul_mul,
    Matrix.mul_smul, Matrix.smul_mul, Matrix.mul_smul, Matrix.one_mul, Matrix.mul_assoc (toM E), ← Matrix.mul_assoc (toM W),
    h', Matrix.zero_mul, smul_zero, zero_add]

/-- the search over the number of streams returns the step of the FIRST maximal metric value -/
theorem enhancedDecide_ok (hN : 0 < N) (iPu : ℝ) (Hk : Mat ℂ N T) (Msk : Mat ℂ T N) (VHre : Mat ℂ N N)
    (G : (i : Fin N) → Mat ℂ (i.val + 1) (i.val + 1)) (Wp : (i : Fin N) → Mat ℂ (i.val + 1) N) (vals : Fin N → ℝ) :
    ∃ i : Fin N, i.val = argmaxFirst (List.ofFn vals) ∧
      (∀ j, vals j ≤ vals i) ∧ (∀ j : Fin N, j.val < i.val → vals j < vals i) ∧
      enhancedDecide iPu Hk Msk VHre G Wp vals =
        .ok { enhancedReduced iPu Hk Msk (i.val + 1) (decidePk VHre i) (G i) (Wp i) with
              ns := streamsOfIndex (argmaxFirst (List.ofFn vals)) } := by
  obtain ⟨m, rfl⟩ : ∃ m, N = m + 1 := ⟨N - 1, by omega⟩
  have hl : List.ofFn vals = vals 0 :: List.ofFn (fun i : Fin m => vals i.succ) := List.ofFn_succ
  obtain ⟨hlt, v, hv, hmax, hfirst⟩ := argmaxFirst_spec (vals 0) (List.ofFn (fun i : Fin m => vals i.succ))
  rw [← hl] at hlt hv hmax hfirst
  have hb : argmaxFirst (List.ofFn vals) < m + 1 := by simpa using hlt
  refine ⟨⟨_, hb⟩, rfl, ?_, ?_, ?_⟩
  · intro j
    have hvi : vals ⟨_, hb⟩ = v := by
      obtain ⟨_, e⟩ := List.getElem?_eq_some_iff.mp hv
      rw [List.getElem_ofFn] at e
      exact e
    rw [hvi]
    exact hmax _ (by rw [List.mem_ofFn]; exact ⟨j, rfl⟩)
  · intro j hj
    have hvi : vals ⟨_, hb⟩ = v := by
      obtain ⟨_, e⟩ := List.getElem?_eq_some_iff.mp hv
      rw [List.getElem_ofFn] at e
      exact e
    rw [hvi]
    exact hfirst j.val hj (vals j) (by rw [List.getElem?_ofFn]; simp [j.isLt])
  · unfold enhancedDecide
    simp only [hb, dite_true]

end reduction
end Pf
end PyPhysim.BD
