import PyPhysim.Proofs.C03Mu

/-!
# C03 — `MuMimoChannel.corrupt_data_in_freq_domain`: superposition of MIMO links

* `mu_transmit_tables_dest` — `mu_transmit_tables` with a number of output rows that depends on
  the destination (receivers / transmitters with different antenna counts);
* `freqSpec_eq_tab` — the MIMO frequency-domain output of one link as a table addressed by the
  flat position `m = b·B + q`;
* `mu_corruptFreq_mimo` — the multiuser frequency-domain transmission of MIMO links.
-/
namespace PyPhysim.C03
open PyPhysim.Proto

variable {α : Type} [CommSemiring α]

/-- source / destination of link `idx` in the two directions -/
def muSrc (sw : Bool) (nTx idx : Nat) : Nat := if sw then idx / nTx else idx % nTx
def muDst (sw : Bool) (nTx idx : Nat) : Nat := if sw then idx % nTx else idx / nTx

theorem muSrc_muLink (sw : Bool) (nRx nTx j a : Nat) (hT : 0 < nTx)
    (hj : j < (if sw then nTx else nRx)) (ha : a < (if sw then nRx else nTx)) :
    muSrc sw nTx (muLink sw nTx j a) = a := by
  cases sw
  · simp only [Bool.false_eq_true, if_false, muLink, muSrc] at ha ⊢
    rw [Nat.mul_comm j nTx, Nat.mul_add_mod, Nat.mod_eq_of_lt ha]
  · simp only [if_true, muLink, muSrc] at hj ⊢
    rw [Nat.mul_comm a nTx, Nat.mul_add_div hT, Nat.div_eq_of_lt hj, Nat.add_zero]

theorem muDst_muLink (sw : Bool) (nRx nTx j a : Nat) (hT : 0 < nTx)
    (hj : j < (if sw then nTx else nRx)) (ha : a < (if sw then nRx else nTx)) :
    muDst sw nTx (muLink sw nTx j a) = j := by
  cases sw
  · simp only [Bool.false_eq_true, if_false, muLink, muDst] at ha ⊢
    rw [Nat.mul_comm j nTx, Nat.mul_add_div hT, Nat.div_eq_of_lt ha, Nat.add_zero]
  · simp only [if_true, muLink, muDst] at hj ⊢
    rw [Nat.mul_comm a nTx, Nat.mul_add_mod, Nat.mod_eq_of_lt hj]

theorem muLink_lt (sw : Bool) (nRx nTx j a : Nat)
    (hj : j < (if sw then nTx else nRx)) (ha : a < (if sw then nRx else nTx)) :
    muLink sw nTx j a < nRx * nTx := by
  cases sw
  · simp only [Bool.false_eq_true, if_false, muLink] at hj ha ⊢
    exact idx_bound nTx j a nRx hj ha
  · simp only [if_true, muLink] at hj ha ⊢
    exact idx_bound nTx a j nRx ha hj

theorem muSrc_lt (sw : Bool) (nRx nTx idx : Nat) (hT : 0 < nTx) (hidx : idx < nRx * nTx) :
    muSrc sw nTx idx < (if sw then nRx else nTx) := by
  cases sw
  · simp only [Bool.false_eq_true, if_false, muSrc]; exact Nat.mod_lt _ hT
  · simp only [if_true, muSrc]; exact Nat.div_lt_of_lt_mul (by rw [Nat.mul_comm]; exact hidx)

/-- **Superposition, destinations with different numbers of antennas.** If every link, fed
    with the signal of its source, returns an `R dest × len` table `F link`, the multiuser
    transmission returns for every destination the entrywise sum over its sources. -/
theorem mu_transmit_tables_dest (nRx nTx : Nat) (hR : 0 < nRx) (hT : 0 < nTx) (Lk L' : Nat → Su α) (sw : Bool)
    (hsw : (Lk 0).tdl.switched = sw)
    (x : List (List (List α))) (hx : x.length = (if sw then nRx else nTx))
    (send : Su α → List (List α) → Except PyErr (Su α × List (List α)))
    (R : Nat → Nat) (len : Nat) (F : Nat → Nat → Nat → α)
    (hsend : ∀ idx, idx < nRx * nTx → ∃ s, x[muSrc sw nTx idx]? = some s ∧
        send (Lk idx) s = .ok (L' idx, tab (R (muDst sw nTx idx)) (fun r => tab len (F idx r)))) :
    Mu.transmit { nRx := nRx, nTx := nTx, links := tab (nRx * nTx) Lk } x send
      = .ok ({ nRx := nRx, nTx := nTx, links := tab (nRx * nTx) L' },
             tab (if sw then nTx else nRx) (fun j => tab (R j) (fun r => tab len (fun m =>
               ((List.range (if sw then nRx else nTx)).map (fun a => F (muLink sw nTx j a) r m)).sum)))) := by
  have hN : 0 < nRx * nTx := Nat.mul_pos hR hT
  obtain ⟨N', hN'⟩ : ∃ N', nRx * nTx = N' + 1 := ⟨nRx * nTx - 1, by omega⟩
  unfold Mu.transmit Mu.switched
  have hT' : ¬ nTx = 0 := by omega
  have hlinks0 : ∀ (f : Nat → Su α), tab (nRx * nTx) f = f 0 :: tab N' (fun i => f (i + 1)) := by
    intro f; rw [hN', tab_succ]
  simp only [hlinks0 Lk, hsw, bind, Except.bind, pure, Except.pure, hT', if_false]
  rw [← hlinks0 Lk]
  rw [mapM_tab_zipIdx (nRx * nTx) Lk _
    (fun idx => (L' idx, tab (R (muDst sw nTx idx)) (fun r => tab len (F idx r))))]
  swap
  · intro idx hidx
    obtain ⟨s, hs1, hs2⟩ := hsend idx hidx
    simp only [muSrc] at hs1
    simp only [hs1, hs2]
  simp only [tab_map]
  cases sw with
  | true =>
    simp only [if_true] at hx ⊢
    simp only [hx, ne_eq, not_true_eq_false, if_false]
    rw [mapM_range_tab nTx _ (fun j => tab (R j) (fun r => tab len (fun m =>
            ((List.range nRx).map (fun a => F (muLink true nTx j a) r m)).sum)))]
    intro j hj
    rw [filterMap_of_forall_some (List.range nRx) _ (fun a => tab (R j) (fun r => tab len (F (a * nTx + j) r)))]
    · rw [sumOutputs_range (R j) len nRx hR (fun a => F (a * nTx + j))]
      simp [muLink]
    · intro a ha
      rw [List.mem_range] at ha
      rw [getElem?_tab, if_pos (idx_bound nTx a j nRx ha hj)]
      have : muDst true nTx (a * nTx + j) = j := muDst_muLink true nRx nTx j a hT hj ha
      simp only [this]
  | false =>
    simp only [Bool.false_eq_true, if_false] at hx ⊢
    simp only [hx, ne_eq, not_true_eq_false, if_false]
    rw [mapM_range_tab nRx _ (fun j => tab (R j) (fun r => tab len (fun m =>
            ((List.range nTx).map (fun a => F (muLink false nTx j a) r m)).sum)))]
    intro j hj
    rw [filterMap_of_forall_some (List.range nTx) _ (fun a => tab (R j) (fun r => tab len (F (j * nTx + a) r)))]
    · rw [sumOutputs_range (R j) len nTx hT (fun a => F (j * nTx + a))]
      simp [muLink]
    · intro a ha
      rw [List.mem_range] at ha
      rw [getElem?_tab, if_pos (idx_bound nTx j a nRx hj ha)]
      have : muDst false nTx (j * nTx + a) = j := muDst_muLink false nRx nTx j a hT hj ha
      simp only [this]

/-! ## the MIMO frequency-domain output of one link as a flat table -/

/-- `nb` blocks, inside each block the selected carriers in order = one table over `m = b·B + q` -/
theorem flatMap_blocks_eq_tab {β : Type} (ps : List Nat) (nb : Nat)
    (G : Nat → Nat → Nat → β) (H : Nat → β)
    (hGH : ∀ b q, q < ps.length →
      G b (match ps[q]? with | some p => p | none => 0) q = H (b * ps.length + q)) :
    (List.range nb).flatMap (fun b => ps.zipIdx.map (fun pq => G b pq.1 pq.2)) = tab (nb * ps.length) H := by
  induction nb with
  | zero => simp [tab]
  | succ nb ih =>
    rw [List.range_succ, List.flatMap_append, ih, Nat.succ_mul, tab_add]
    congr 1
    simp only [List.flatMap_cons, List.flatMap_nil, List.append_nil]
    rw [zipIdx_map_eq_tab ps (fun p q => G nb p q)]
    unfold tab
    apply List.map_congr_left
    intro q hq
    rw [List.mem_range] at hq
    exact hGH nb q hq

/-- block `b`, position `q` of the flat form is the block form (`freqAt`) on carrier `ps[q]` -/
theorem freqAtFlat_block (fftK : Fft α) (ir : IR α) (sw : Bool) (fft : Nat) (ps : List Nat) (nIn : Nat)
    (xf : Nat → Nat → α) (j b q : Nat) (hq : q < ps.length) :
    freqAtFlat fftK ir sw fft ps nIn xf j (b * ps.length + q)
      = freqAt fftK ir sw fft ps.length nIn xf j b (match ps[q]? with | some p => p | none => 0) q := by
  have hps : 0 < ps.length := by omega
  unfold freqAt freqAtFlat
  have h1 : (b * ps.length + q) / ps.length = b := by
    rw [Nat.mul_comm, Nat.mul_add_div hps, Nat.div_eq_of_lt hq, Nat.add_zero]
  have h2 : (b * ps.length + q) % ps.length = q := by
    rw [Nat.mul_comm, Nat.mul_add_mod, Nat.mod_eq_of_lt hq]
  rw [h1, h2]
  cases ps[q]? <;> rfl

theorem freqSpec_eq_tab (fftK : Fft α) (ir : IR α) (sw : Bool) (fft : Nat) (ps : List Nat)
    (nb nOut nIn : Nat) (xf : Nat → Nat → α) :
    freqSpec fftK ir sw fft ps ps.length nb nOut nIn xf
      = tab nOut (fun j => tab (nb * ps.length) (freqAtFlat fftK ir sw fft ps nIn xf j)) := by
  unfold freqSpec
  congr 1
  funext j
  exact flatMap_blocks_eq_tab ps nb (fun b p q => freqAt fftK ir sw fft ps.length nIn xf j b p q) _
    (fun b q hq => (freqAtFlat_block fftK ir sw fft ps nIn xf j b q hq).symm)

/-- the path loss as an explicit factor: the flat entry computed from the reported (scaled)
    response is `√pathloss` times the entry computed from the unscaled TDL response -/
theorem freqAtFlat_scale (fftK : Fft α) (hK : Fft.Homogeneous fftK) (s : α) (ir : IR α) (sw : Bool) (fft : Nat)
    (ps : List Nat) (nIn : Nat) (xf : Nat → Nat → α) (j m : Nat) :
    freqAtFlat fftK (ir.scale s) sw fft ps nIn xf j m = s * freqAtFlat fftK ir sw fft ps nIn xf j m := by
  unfold freqAtFlat
  rw [← List.sum_map_mul_left]
  congr 1
  apply List.map_congr_left
  intro a _
  cases sw <;> simp only [Bool.false_eq_true, if_false, if_true] <;> rw [denseAt_scale, hK] <;> ring

/-- reported tap values of block `b`: the fading samples at `pos + b·stride` times the tap
    amplitude, times `√pathloss` when a path loss is set -/
theorem report_block_vals (proc : Proc α) (c : Su α) (fft nb : Nat) (last : IR α)
    (h : IsBlockConcat proc c.tdl fft nb last) (r t b : Nat) (hb : b < nb) :
    (c.report last).vals.map (fun h => h r t b)
      = c.tdl.taps.zipIdx.map (fun ta =>
          plMul c.pl (proc c.tdl.link (c.tdl.pos + b * (if c.tdl.jakes then fft else 1)) ta.2 r t * ta.1.2)) := by
  have hv := h.2.2.2 r t b hb
  have hblock : (blockIR proc c.tdl fft b).vals.map (fun h => h r t 0)
      = c.tdl.taps.zipIdx.map (fun ta =>
          proc c.tdl.link (c.tdl.pos + b * (if c.tdl.jakes then fft else 1)) ta.2 r t * ta.1.2) := by
    simp only [blockIR, genIR, stride, List.map_map]
    apply List.map_congr_left
    intro ta _
    simp
  unfold Su.report plMul
  cases c.pl with
  | none => simp only; rw [hv, hblock]
  | some s =>
    simp only [IR.scale, List.map_map]
    have : (List.map ((fun h => h r t b) ∘ fun h r t k => s * h r t k) last.vals)
        = (last.vals.map (fun h => h r t b)).map (s * ·) := by
      rw [List.map_map]; rfl
    rw [this, hv, hblock, List.map_map]
    rfl

/-- **`MuMimoChannel.corrupt_data_in_freq_domain`.**  `nRx × nTx` links, link `(r,t)` a MIMO TDL
    channel with `Nr r × Nt t` antennas, direction `sw`, per-link path losses; see
    `mu_freq_mimo_spec` in `Properties/C03` for the reading of the statement. -/
theorem mu_corruptFreq_mimo (proc : Proc α) (fftK : Fft α) (nRx nTx : Nat) (hR : 0 < nRx) (hT : 0 < nTx)
    (Lk : Nat → Su α) (Nr Nt : Nat → Nat) (sw : Bool)
    (hant : ∀ l, l < nRx * nTx → (Lk l).tdl.ant = some (Nr (l / nTx), Nt (l % nTx)))
    (hsw : ∀ l, l < nRx * nTx → (Lk l).tdl.switched = sw)
    (hIn : ∀ a, a < (if sw then nRx else nTx) → 0 < (if sw then Nr a else Nt a))
    (hK : (∀ l, l < nRx * nTx → (Lk l).pl = none) ∨ Fft.Homogeneous fftK)
    (sel : Sel) (fft n : Nat) (ps : List Nat) (B nb : Nat) (hplan : freqPlan sel fft n = .ok (ps, B, nb))
    (xf : Nat → Nat → Nat → α) :
    ∃ (L' : Nat → Su α) (ir : Nat → IR α),
      Mu.corruptFreq proc fftK { nRx := nRx, nTx := nTx, links := tab (nRx * nTx) Lk }
          (tab (if sw then nRx else nTx) (fun a => tab (if sw then Nr a else Nt a) (fun i => tab n (xf a i)))) fft sel
        = .ok ({ nRx := nRx, nTx := nTx, links := tab (nRx * nTx) L' },
               tab (if sw then nTx else nRx) (fun j => tab (if sw then Nt j else Nr j) (fun r => tab n (fun m =>
                 ((List.range (if sw then nRx else nTx)).map (fun a =>
                   freqAtFlat fftK (ir (muLink sw nTx j a)) sw fft ps (if sw then Nr a else Nt a) (xf a) r m)).sum)))) ∧
      ∀ l, l < nRx * nTx →
        (L' l).lastIR = .ok (ir l) ∧ (ir l).n = nb ∧ (ir l).delays = (Lk l).tdl.delays ∧
        (L' l).pl = (Lk l).pl ∧ (L' l).tdl.taps = (Lk l).tdl.taps ∧ (L' l).tdl.ant = (Lk l).tdl.ant ∧
        (L' l).tdl.switched = (Lk l).tdl.switched ∧ (L' l).tdl.jakes = (Lk l).tdl.jakes ∧
        (L' l).tdl.link = (Lk l).tdl.link ∧
        (L' l).tdl.pos = (Lk l).tdl.pos + nb * (if (Lk l).tdl.jakes then fft else 1) ∧
        ∀ r t b, b < nb → (ir l).vals.map (fun h => h r t b)
          = (Lk l).tdl.taps.zipIdx.map (fun ta => plMul (Lk l).pl
              (proc (Lk l).tdl.link ((Lk l).tdl.pos + b * (if (Lk l).tdl.jakes then fft else 1)) ta.2 r t * ta.1.2)) := by
  obtain ⟨hfft, hB, hnb, hn, hlen, -, -⟩ := freqPlan_ok hplan
  have hN0 : 0 < nRx * nTx := Nat.mul_pos hR hT
  let nInOf : Nat → Nat := fun a => if sw then Nr a else Nt a
  let nOutOf : Nat → Nat := fun j => if sw then Nt j else Nr j
  have hdims : ∀ l, l < nRx * nTx →
      (Lk l).tdl.dims (Nr (l / nTx)) (Nt (l % nTx)) = (nOutOf (muDst sw nTx l), nInOf (muSrc sw nTx l)) := by
    intro l hl; unfold Tdl.dims; rw [hsw l hl]; cases sw <;> rfl
  -- per-link results
  have hlink : ∀ l, l < nRx * nTx → ∃ last, (Lk l).corruptFreq proc fftK
          (tab (nInOf (muSrc sw nTx l)) (fun i => tab n (xf (muSrc sw nTx l) i))) fft sel
        = .ok ({ Lk l with tdl := (Lk l).tdl.afterFx fft nb last },
               freqSpec fftK ((Lk l).report last) sw fft ps B nb (nOutOf (muDst sw nTx l)) (nInOf (muSrc sw nTx l))
                 (xf (muSrc sw nTx l)))
      ∧ IsBlockConcat proc (Lk l).tdl fft nb last := by
    intro l hl
    have h := su_corruptFreq_mimo proc fftK (Lk l) (Nr (l / nTx)) (Nt (l % nTx)) (hant l hl)
      (by rw [hdims l hl]; exact hIn _ (muSrc_lt sw nRx nTx l hT hl))
      (hK.elim (fun h => Or.inl (h l hl)) Or.inr) sel fft n ps B nb hplan (xf (muSrc sw nTx l))
    rw [hdims l hl, hsw l hl] at h
    exact h
  let lastOf : Nat → IR α := fun l =>
    if h : l < nRx * nTx then Classical.choose (hlink l h) else { n := 0, delays := [], vals := [] }
  have hlast : ∀ l, l < nRx * nTx → (Lk l).corruptFreq proc fftK
          (tab (nInOf (muSrc sw nTx l)) (fun i => tab n (xf (muSrc sw nTx l) i))) fft sel
        = .ok ({ Lk l with tdl := (Lk l).tdl.afterFx fft nb (lastOf l) },
               freqSpec fftK ((Lk l).report (lastOf l)) sw fft ps B nb (nOutOf (muDst sw nTx l))
                 (nInOf (muSrc sw nTx l)) (xf (muSrc sw nTx l)))
      ∧ IsBlockConcat proc (Lk l).tdl fft nb (lastOf l) := by
    intro l hl
    have := Classical.choose_spec (hlink l hl)
    simp only [lastOf, dif_pos hl]
    exact this
  refine ⟨fun l => { Lk l with tdl := (Lk l).tdl.afterFx fft nb (lastOf l) },
          fun l => (Lk l).report (lastOf l), ?_, ?_⟩
  · have := mu_transmit_tables_dest nRx nTx hR hT Lk
      (fun l => { Lk l with tdl := (Lk l).tdl.afterFx fft nb (lastOf l) }) sw (hsw 0 hN0)
      (tab (if sw then nRx else nTx) (fun a => tab (nInOf a) (fun i => tab n (xf a i)))) (by simp [tab_length])
      (fun su s => su.corruptFreq proc fftK s fft sel) nOutOf n
      (fun idx r m => freqAtFlat fftK ((Lk idx).report (lastOf idx)) sw fft ps (nInOf (muSrc sw nTx idx))
        (xf (muSrc sw nTx idx)) r m)
      (by
        intro idx hidx
        refine ⟨tab (nInOf (muSrc sw nTx idx)) (fun i => tab n (xf (muSrc sw nTx idx) i)), ?_, ?_⟩
        · rw [getElem?_tab, if_pos (muSrc_lt sw nRx nTx idx hT hidx)]
        · rw [(hlast idx hidx).1, ← hlen, freqSpec_eq_tab fftK _ sw fft ps nb, hn, hlen])
    unfold Mu.corruptFreq
    rw [this]
    congr 2
    unfold tab
    apply List.map_congr_left
    intro j hj
    rw [List.mem_range] at hj
    apply List.map_congr_left
    intro r _
    apply List.map_congr_left
    intro m _
    congr 1
    apply List.map_congr_left
    intro a ha
    rw [List.mem_range] at ha
    rw [muSrc_muLink sw nRx nTx j a hT hj ha]
  · intro l hl
    have hbc := (hlast l hl).2
    refine ⟨su_lastIR (Lk l) _ _ rfl, by rw [Su.report_n]; exact hbc.1,
      by rw [Su.report_delays]; exact hbc.2.1, rfl, rfl, rfl, rfl, rfl, rfl, rfl, ?_⟩
    intro r t b hb
    exact report_block_vals proc (Lk l) fft nb (lastOf l) hbc r t b hb

end PyPhysim.C03
