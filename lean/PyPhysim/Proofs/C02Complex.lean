import Mathlib.RingTheory.RootsOfUnity.Complex
import Mathlib.Analysis.Real.Sqrt
import Mathlib.Tactic.IntervalCases
import PyPhysim.Proofs.C02Eq
import PyPhysim.Generated.OfdmIndex

/-!
C02 — instantiation at ℂ with numpy's twiddle factor, the power scale, the
spectrum of the emitted symbols, and the rational witness data for the corner
`memory = cp = fft`.
-/
set_option linter.unusedSectionVars false
namespace PyPhysim.C02
open PyPhysim.Proto

/-- numpy's forward twiddle factor `exp(-2πi/N)` (written as the inverse of `exp(2πi/N)`) -/
noncomputable def npOmega (N : ℕ) : ℂ := (Complex.exp (2 * Real.pi * Complex.I / N))⁻¹

theorem npOmega_primitive (N : ℕ) (hN : N ≠ 0) : IsPrimitiveRoot (npOmega N) N :=
  (Complex.isPrimitiveRoot_exp N hN).inv

theorem npOmega_eq (N : ℕ) : npOmega N = Complex.exp (-(2 * Real.pi * Complex.I / N)) := by
  unfold npOmega; rw [Complex.exp_neg]

/-- the code's power scale (`_calculate_power_scale` as regenerated from the source), over ℝ -/
noncomputable def codeScale (p : Params) : ℝ :=
  Generated.C02.calculate_power_scale (α := ℝ) p.fft p.cp p.used

/-- the power scale of a valid configuration is positive, so its square root is a legal scale -/
theorem codeScale_pos (p : Params) (hp : p.Valid) : 0 < codeScale p := by
  unfold codeScale Generated.C02.calculate_power_scale
  have h1 : (0 : ℝ) < (p.fft : ℝ) := by
    have : 0 < p.fft := by have := hp.2.2.2; have := hp.2.1; omega
    exact_mod_cast this
  have h2 : (0 : ℝ) < (p.used : ℝ) := by
    have : 0 < p.used := by have := hp.2.2.2; omega
    exact_mod_cast this
  have h3 : (0 : ℝ) ≤ (p.cp : ℝ) := Nat.cast_nonneg _
  positivity

theorem sqrt_scale_ne_zero (p : Params) (hp : p.Valid) :
    ((Real.sqrt (codeScale p) : ℝ) : ℂ) ≠ 0 := by
  have := Real.sqrt_pos.mpr (codeScale_pos p hp)
  exact_mod_cast this.ne'

/-- `-1` is a primitive square root of unity in ℚ (the field of the witness below) -/
theorem neg_one_primitive : IsPrimitiveRoot (-1 : ℚ) 2 := by
  apply IsPrimitiveRoot.mk_of_lt _ (by norm_num) (by norm_num)
  intro l h0 h2
  interval_cases l
  norm_num

section spectrum
variable {K : Type} [Field K]

/-- what a textbook-DFT receiver sees of every emitted symbol body: `fft(body) = s · X`, hence
    nothing on the bins where the IFFT input `X` is zero -/
theorem emitted_spectrum (p : Params) (hp : p.Valid) (F Finv : ℕ → List K → List K)
    (hK : KernelPair p.fft F Finv) (s : K) (x : List K) :
    (rows (p.fft + p.cp) (numSymbols p x.length) (modulate Finv s p x)).map
        (fun b => F p.fft (b.drop p.cp))
      = (prepare p x).map (fun X => X.map (fun v => s * v)) := by
  have hrow := blocks_row_length Finv s p hp hK.len_inv x
  have hbl := blocks_length Finv s p x
  have hrf := rows_flatten _ _ hrow
  rw [hbl] at hrf
  rw [modulate_eq_flatten, hrf]
  unfold blocks
  rw [List.map_map]
  apply List.map_congr_left
  intro X hX
  simp only [Function.comp]
  rw [drop_addCP _ _ (by simp [hK.len_inv]; exact hp.1), hK.homog s _ (hK.len_inv X),
    hK.inv X (prepare_row_length p x X hX)]

end spectrum
end PyPhysim.C02
