import PyPhysim.Proofs.C19Geom
import PyPhysim.Model.C19Spec
import Mathlib.Tactic.Positivity
import Mathlib.Tactic.LinearCombination

set_option linter.unusedSectionVars false

/-! C19 — the repaired `get_border_point`: soundness (on an edge, on the ray, first),
completeness for polygons seen counter-clockwise from the centre. -/
namespace PyPhysim.C19

section lists
variable {β : Type}

theorem adjPairs_cons_cons (x y : β) (r : List β) : adjPairs (x :: y :: r) = (x, y) :: adjPairs (y :: r) := rfl

theorem adjPairs_map {γ : Type} (f : β → γ) : ∀ l : List β,
    adjPairs (l.map f) = (adjPairs l).map (fun e => (f e.1, f e.2))
  | [] => rfl
  | [_] => rfl
  | x :: y :: r => by
    simp only [List.map_cons, adjPairs_cons_cons]
    have := adjPairs_map f (y :: r)
    simp only [List.map_cons] at this
    rw [this]

theorem cyc_map {γ : Type} (f : β → γ) (l : List β) :
    cyc (l.map f) = (cyc l).map (fun e => (f e.1, f e.2)) := by
  cases l with
  | nil => rfl
  | cons a t =>
    simp only [cyc, List.map_cons]
    have := adjPairs_map f (a :: t ++ [a])
    simp only [List.map_cons, List.map_append, List.map_nil] at this
    simpa using this

/-- every adjacent pair of a suffix is an adjacent pair of the list -/
theorem adjPairs_suffix (l₁ l₂ : List β) : ∀ e ∈ adjPairs l₂, e ∈ adjPairs (l₁ ++ l₂) := by
  induction l₁ with
  | nil => intro e h; simpa using h
  | cons x t ih =>
    intro e h
    have h' := ih e h
    cases hl : t ++ l₂ with
    | nil => rw [hl] at h'; simp [adjPairs] at h'
    | cons y r =>
      rw [hl] at h'
      show e ∈ adjPairs (x :: (t ++ l₂))
      rw [hl, adjPairs_cons_cons]
      exact List.mem_cons_of_mem _ h'
end lists

section field
variable {α : Type} [Field α] [LinearOrder α] [IsStrictOrderedRing α]

/-! ### `minOpt` -/
theorem minOpt_none (l : List α) : minOpt l = none ↔ l = [] := by
  cases l with
  | nil => simp [minOpt]
  | cons x xs =>
    simp only [minOpt]
    cases minOpt xs <;> simp

theorem minOpt_spec : ∀ (l : List α) (m : α), minOpt l = some m → m ∈ l ∧ ∀ x ∈ l, m ≤ x
  | [], m, h => by simp [minOpt] at h
  | x :: xs, m, h => by
    simp only [minOpt] at h
    cases hm : minOpt xs with
    | none =>
      rw [hm] at h
      have hx : xs = [] := (minOpt_none xs).mp hm
      simp only [Option.some.injEq] at h
      subst h; subst hx
      simp
    | some m' =>
      rw [hm] at h
      simp only [Option.some.injEq] at h
      obtain ⟨hmem, hle⟩ := minOpt_spec xs m' hm
      by_cases hlt : m' < x
      · rw [if_pos hlt] at h
        subst h
        refine ⟨List.mem_cons_of_mem _ hmem, ?_⟩
        intro y hy
        rcases List.mem_cons.mp hy with rfl | hy
        · exact le_of_lt hlt
        · exact hle y hy
      · rw [if_neg hlt] at h
        subst h
        refine ⟨List.mem_cons_self, ?_⟩
        intro y hy
        rcases List.mem_cons.mp hy with rfl | hy
        · exact le_refl _
        · exact le_trans (not_lt.mp hlt) (hle y hy)

/-! ### one edge -/

/-- what `edgeStep` returns is a positive step to a point of the edge -/
theorem edgeStep_sound (d a b : Pt α) (t : α) (h : edgeStep d (a, b) = some t) :
    0 < t ∧ OnSegment a b (smul t d) := by
  unfold edgeStep at h
  simp only [Nat.cast_zero] at h
  split_ifs at h with hc ht
  · simp only [Option.some.injEq] at h
    obtain ⟨hsign, hne⟩ := hc
    have hden : cross a d - cross b d ≠ 0 := by
      rcases hne with h1 | h1
      · exact ne_of_lt (by linarith)
      · exact ne_of_gt (by linarith)
    refine ⟨h ▸ ht, cross a d / (cross a d - cross b d), ?_, ?_, ?_⟩
    · simp only [Nat.cast_zero]
      rcases hsign with ⟨h1, h2⟩ | ⟨h1, h2⟩
      · exact div_nonneg h1 (by linarith)
      · exact div_nonneg_of_nonpos h1 (by linarith)
    · simp only [Nat.cast_one]
      rcases hsign with ⟨h1, h2⟩ | ⟨h1, h2⟩
      · have hpos : 0 < cross a d - cross b d := lt_of_le_of_ne (by linarith) (Ne.symm hden)
        rw [div_le_one hpos]; linarith
      · have hneg : cross a d - cross b d < 0 := lt_of_le_of_ne (by linarith) hden
        rw [div_le_one_of_neg hneg]; linarith
    · rw [← h]
      obtain ⟨a1, a2⟩ := a
      obtain ⟨b1, b2⟩ := b
      obtain ⟨d1, d2⟩ := d
      simp only [cross, smul, padd, psub] at *
      ext
      · simp only; field_simp; ring
      · simp only; field_simp; ring

/-- every point of the edge on the open ray is found, when the edge's line misses the centre -/
theorem edgeStep_complete (d a b : Pt α) (hab : cross a b ≠ 0) (t' : α) (ht' : 0 < t')
    (hseg : OnSegment a b (smul t' d)) : edgeStep d (a, b) = some t' := by
  obtain ⟨σ, h0, h1, hp⟩ := hseg
  simp only [Nat.cast_zero, Nat.cast_one] at h0 h1
  -- t'·cross a d = σ·C,  t'·cross b d = -(1-σ)·C
  have e1 : t' * cross a d = σ * cross a b := by
    have : cross a (smul t' d) = cross a (padd a (smul σ (psub b a))) := by rw [hp]
    simp only [cross, smul, padd, psub] at this ⊢
    linear_combination this
  have e2 : t' * cross b d = -(1 - σ) * cross a b := by
    have : cross b (smul t' d) = cross b (padd a (smul σ (psub b a))) := by rw [hp]
    simp only [cross, smul, padd, psub] at this ⊢
    linear_combination this
  have hs : cross a d = σ * cross a b / t' := by field_simp; linear_combination e1
  have hs' : cross b d = -(1 - σ) * cross a b / t' := by field_simp; linear_combination e2
  have hdiff : cross a d - cross b d = cross a b / t' := by rw [hs, hs']; field_simp; ring
  unfold edgeStep
  simp only [Nat.cast_zero]
  have ht : cross a b / (cross a d - cross b d) = t' := by
    rw [hdiff]; field_simp
  rcases lt_or_gt_of_ne hab with hneg | hpos
  · have hdn : cross a d - cross b d < 0 := by rw [hdiff]; exact div_neg_of_neg_of_pos hneg ht'
    have c1 : cross a d ≤ 0 := by
      rw [hs]; exact div_nonpos_of_nonpos_of_nonneg (mul_nonpos_of_nonneg_of_nonpos h0 hneg.le) ht'.le
    have c2 : 0 ≤ cross b d := by
      rw [hs']; apply div_nonneg _ ht'.le
      have : 0 ≤ (1 - σ) * (-cross a b) := mul_nonneg (by linarith) (by linarith)
      linarith
    rw [if_pos ⟨Or.inr ⟨c1, c2⟩, Or.inl (by linarith)⟩, ht, if_pos ht']
  · have hdp : 0 < cross a d - cross b d := by rw [hdiff]; exact div_pos hpos ht'
    have c1 : 0 ≤ cross a d := by
      rw [hs]; exact div_nonneg (mul_nonneg h0 hpos.le) ht'.le
    have c2 : cross b d ≤ 0 := by
      rw [hs']; apply div_nonpos_of_nonpos_of_nonneg _ ht'.le
      have : 0 ≤ (1 - σ) * cross a b := mul_nonneg (by linarith) hpos.le
      linarith
    rw [if_pos ⟨Or.inl ⟨c1, c2⟩, Or.inr (by linarith)⟩, ht, if_pos ht']

/-! ### the whole polygon -/

/-- **soundness**: the step is positive, `t·d` lies on an edge, and no point of the boundary on the
    open ray is nearer (edges whose line passes through the centre excepted) -/
theorem borderStep_sound (rel : List (Pt α)) (d : Pt α) (t : α) (h : borderStep rel d = some t) :
    0 < t ∧ OnBoundary rel (smul t d) ∧
      ∀ e ∈ cyc rel, cross e.1 e.2 ≠ 0 → ∀ t', 0 < t' → OnSegment e.1 e.2 (smul t' d) → t ≤ t' := by
  unfold borderStep at h
  obtain ⟨hmem, hmin⟩ := minOpt_spec _ _ h
  obtain ⟨e, he, hes⟩ := List.mem_filterMap.mp hmem
  obtain ⟨ht, hseg⟩ := edgeStep_sound d e.1 e.2 t hes
  refine ⟨ht, ⟨e, he, hseg⟩, ?_⟩
  intro e' he' hne t' ht' hseg'
  have := edgeStep_complete d e'.1 e'.2 hne t' ht' hseg'
  exact hmin t' (List.mem_filterMap.mpr ⟨e', he', this⟩)

/-- transitivity of "counter-clockwise of" inside the open half-plane `cross · d > 0` -/
theorem ccw_trans (d u v w : Pt α) (hu : 0 < cross u d) (hv : 0 < cross v d) (hw : 0 < cross w d)
    (huv : 0 < cross u v) (hvw : 0 < cross v w) : 0 < cross u w := by
  have h := cross_three u v w d
  have hpos : 0 < cross u w * cross v d := by
    rw [h]; exact add_pos (mul_pos huv hw) (mul_pos hvw hu)
  exact (pos_iff_pos_of_mul_pos hpos).mpr hv

/-- along a chain of counter-clockwise steps inside an open half-plane, the head is clockwise of
    every later element -/
theorem chain_ccw (d : Pt α) : ∀ (x : Pt α) (rest : List (Pt α)),
    (∀ v ∈ x :: rest, 0 < cross v d) → (∀ e ∈ adjPairs (x :: rest), 0 < cross e.1 e.2) →
    ∀ y ∈ rest, 0 < cross x y
  | _, [], _, _, y, hy => by simp at hy
  | x, y' :: r, hf, hadj, y, hy => by
    have hxy' : 0 < cross x y' := hadj (x, y') (by simp [adjPairs])
    rcases List.mem_cons.mp hy with rfl | hy
    · exact hxy'
    · have ih := chain_ccw d y' r (fun v hv => hf v (List.mem_cons_of_mem _ hv))
        (fun e he => hadj e (by rw [adjPairs_cons_cons]; exact List.mem_cons_of_mem _ he)) y hy
      exact ccw_trans d x y' y (hf x (by simp)) (hf y' (by simp))
        (hf y (List.mem_cons_of_mem _ (List.mem_cons_of_mem _ hy))) hxy' ih

/-- the vertices of a polygon seen counter-clockwise from the origin are never all strictly on one
    side of a line through the origin -/
theorem not_all_left (rel : List (Pt α)) (hne : rel ≠ []) (hstar : StarCCW rel) (d : Pt α) :
    ¬ ∀ v ∈ rel, 0 < cross v d := by
  intro hall
  cases rel with
  | nil => exact hne rfl
  | cons a t =>
    have hstar' : ∀ e ∈ adjPairs (a :: (t ++ [a])), 0 < cross e.1 e.2 := by
      intro e he
      have := hstar e (by simpa [cyc] using he)
      simpa using this
    have hf : ∀ v ∈ a :: (t ++ [a]), 0 < cross v d := by
      intro v hv
      simp only [List.mem_cons, List.mem_append, List.not_mem_nil, or_false] at hv
      rcases hv with rfl | hv | rfl
      · exact hall _ (by simp)
      · exact hall _ (List.mem_cons_of_mem _ hv)
      · exact hall _ (by simp)
    have := chain_ccw d a (t ++ [a]) hf hstar' a (by simp)
    rw [cross_self] at this
    exact lt_irrefl _ this

/-- walking forward from a vertex on the non-negative side one reaches the first step down -/
theorem descent_linear (f : Pt α → α) : ∀ (x : Pt α) (rest : List (Pt α)), 0 ≤ f x →
    (∃ y ∈ rest, f y ≤ 0) → ∃ e ∈ adjPairs (x :: rest), 0 ≤ f e.1 ∧ f e.2 ≤ 0
  | _, [], _, ⟨y, hy, _⟩ => by simp at hy
  | x, y' :: r, hx, ⟨y, hy, hfy⟩ => by
    by_cases h : f y' ≤ 0
    · exact ⟨(x, y'), by simp [adjPairs], hx, h⟩
    · have hy' : 0 ≤ f y' := le_of_lt (not_le.mp h)
      have hyr : y ∈ r := by
        rcases List.mem_cons.mp hy with rfl | hy
        · exact absurd hfy h
        · exact hy
      obtain ⟨e, he, h1, h2⟩ := descent_linear f y' r hy' ⟨y, hyr, hfy⟩
      exact ⟨e, by rw [adjPairs_cons_cons]; exact List.mem_cons_of_mem _ he, h1, h2⟩

/-- a cyclic sequence with a non-negative and a non-positive value has a cyclic step down -/
theorem descent_cyclic (f : Pt α → α) (rel : List (Pt α)) (hx : ∃ x ∈ rel, 0 ≤ f x)
    (hy : ∃ y ∈ rel, f y ≤ 0) : ∃ e ∈ cyc rel, 0 ≤ f e.1 ∧ f e.2 ≤ 0 := by
  cases rel with
  | nil => obtain ⟨x, hx, _⟩ := hx; simp at hx
  | cons a t =>
    simp only [cyc]
    by_cases ha : 0 ≤ f a
    · -- start at `a`; the step down happens before or at the closing copy of `a`
      obtain ⟨y, hymem, hfy⟩ := hy
      have : ∃ y ∈ t ++ [a], f y ≤ 0 := by
        rcases List.mem_cons.mp hymem with rfl | hyt
        · exact ⟨y, by simp, hfy⟩
        · exact ⟨y, by simp [hyt], hfy⟩
      exact descent_linear f a (t ++ [a]) ha this
    · -- `f a < 0`: start at a vertex `x` of the tail, the closing copy of `a` is below
      obtain ⟨x, hxmem, hfx⟩ := hx
      have hxt : x ∈ t := by
        rcases List.mem_cons.mp hxmem with rfl | hxt
        · exact absurd hfx ha
        · exact hxt
      obtain ⟨l₁, l₂, rfl⟩ := List.append_of_mem hxt
      obtain ⟨e, he, h1, h2⟩ := descent_linear f x (l₂ ++ [a]) hfx ⟨a, by simp, le_of_lt (not_le.mp ha)⟩
      refine ⟨e, ?_, h1, h2⟩
      have := adjPairs_suffix (a :: l₁) (x :: (l₂ ++ [a])) e he
      simpa using this

/-- **completeness**: a polygon seen counter-clockwise from its centre has a border point in
    every direction -/
theorem borderStep_exists (rel : List (Pt α)) (hne : rel ≠ []) (hstar : StarCCW rel) (d : Pt α)
    (hd : d ≠ (0, 0)) : ∃ t, borderStep rel d = some t := by
  -- some vertex is on the non-negative side and some on the non-positive side of the line of `d`
  have hx : ∃ x ∈ rel, 0 ≤ cross x d := by
    by_contra hcon
    push Not at hcon
    apply not_all_left rel hne hstar (-d.1, -d.2)
    intro v hv
    have := hcon v hv
    simp only [cross] at this ⊢
    linarith
  have hy : ∃ y ∈ rel, cross y d ≤ 0 := by
    by_contra hcon
    push Not at hcon
    exact not_all_left rel hne hstar d hcon
  obtain ⟨e, he, h1, h2⟩ := descent_cyclic (fun v => cross v d) rel hx hy
  have hC : 0 < cross e.1 e.2 := by simpa using hstar e he
  -- the two values are not both zero
  have hne' : cross e.2 d < cross e.1 d := by
    rcases lt_or_eq_of_le (le_trans h2 h1) with h | h
    · exact h
    · exfalso
      have z1 : cross e.1 d = 0 := le_antisymm (h ▸ h2) h1
      have z2 : cross e.2 d = 0 := h ▸ z1
      -- cross a b · d = cross a d · b - cross b d · a = 0
      obtain ⟨d1, d2⟩ := d
      obtain ⟨⟨a1, a2⟩, ⟨b1, b2⟩⟩ := e
      simp only [cross] at z1 z2 hC
      have k1 : (a1 * b2 - a2 * b1) * d1 = 0 := by linear_combination b1 * z1 - a1 * z2
      have k2 : (a1 * b2 - a2 * b1) * d2 = 0 := by linear_combination b2 * z1 - a2 * z2
      have hCne : a1 * b2 - a2 * b1 ≠ 0 := ne_of_gt hC
      have hd1 : d1 = 0 := by
        rcases mul_eq_zero.mp k1 with h | h
        · exact absurd h hCne
        · exact h
      have hd2 : d2 = 0 := by
        rcases mul_eq_zero.mp k2 with h | h
        · exact absurd h hCne
        · exact h
      exact hd (by rw [hd1, hd2])
  have hstep : edgeStep d e = some (cross e.1 e.2 / (cross e.1 d - cross e.2 d)) := by
    unfold edgeStep
    simp only [Nat.cast_zero]
    rw [if_pos ⟨Or.inl ⟨h1, h2⟩, Or.inr hne'⟩, if_pos (div_pos hC (by linarith))]
  unfold borderStep
  cases hm : minOpt (List.filterMap (edgeStep d) (cyc rel)) with
  | some t => exact ⟨t, rfl⟩
  | none =>
    exfalso
    have := (minOpt_none _).mp hm
    have hmem : cross e.1 e.2 / (cross e.1 d - cross e.2 d) ∈ List.filterMap (edgeStep d) (cyc rel) :=
      List.mem_filterMap.mpr ⟨e, he, hstep⟩
    rw [this] at hmem
    simp at hmem

/-- `StarCCW` is invariant under rotation by a unit vector -/
theorem starCCW_rot (base : List (Pt α)) (u : Pt α) (hu : norm2 u = 1) (h : StarCCW base) :
    StarCCW (base.map (rot u)) := by
  intro e he
  rw [cyc_map] at he
  obtain ⟨e0, he0, rfl⟩ := List.mem_map.mp he
  have := h e0 he0
  simp only [cross_rot, hu, one_mul]
  exact this
end field

end PyPhysim.C19
