import PyPhysim.Proofs.C20GmdInvAlg
import PyPhysim.Proofs.C20GmdInvPerm

/-!
# `gmd` — the loop invariant on the abstract state and its preservation by `stepA`

Scalars: a field `K` with conjugation containing the reals through `ι : ℝ →+* K` such that on
the reals conjugation, `sqrt` and `≤` of `K` are the real ones (`RealLike`; `K = ℝ` with
`ι = id`, `K = ℂ` with the coercion and the comparison of real parts).

`Inv … k g` = `MInv` (matrix part, over `K`) ∧ `BInv` (bookkeeping part, over `ℝ`: the array `d`
holds real numbers) of the abstract state `g`.
`Inv.step`: one iteration `stepA sb k` turns `Inv k` into `Inv (k + 1)`;
`Inv.bounds`: under `Inv k` every index the array model reads in iteration `k` is in range.
-/
set_option linter.unusedSectionVars false
set_option linter.unusedVariables false
set_option linter.unusedSimpArgs false
namespace PyPhysim.LinAlg.GmdInv
open PyPhysim.Proto PyPhysim.LinAlg Matrix

variable {K : Type} [Field K] [StarRing K] [RSqrt K] [LE K] [DecidableLE K]

/-- `K` contains the reals through `ι`, and on them conjugation, `sqrt` and `≤` are the real ones -/
structure RealLike (ι : ℝ →+* K) : Prop where
  star_ι : ∀ x, star (ι x) = ι x
  sqrt_ι : ∀ x, RSqrt.sqrt (ι x) = ι (Real.sqrt x)
  le_ι : ∀ x y, ι x ≤ ι y ↔ x ≤ y

theorem gmdCS_ι {ι : ℝ →+* K} (hι : RealLike ι) (flag : Bool) (sb d1 d2 : ℝ) :
    gmdCS flag (ι sb) (ι d1) (ι d2) = (ι (gmdCS flag sb d1 d2).1, ι (gmdCS flag sb d1 d2).2) := by
  unfold gmdCS
  cases flag
  · simp only [Bool.false_eq_true, if_false]
    have e1 : (ι sb * ι sb - ι d2 * ι d2) / (ι d1 * ι d1 - ι d2 * ι d2) =
        ι ((sb * sb - d2 * d2) / (d1 * d1 - d2 * d2)) := by
      simp only [map_div₀, map_sub, map_mul]
    rw [e1, hι.sqrt_ι]
    have e2 : (1 : K) - ι (Real.sqrt ((sb * sb - d2 * d2) / (d1 * d1 - d2 * d2))) *
        ι (Real.sqrt ((sb * sb - d2 * d2) / (d1 * d1 - d2 * d2))) =
        ι (1 - Real.sqrt ((sb * sb - d2 * d2) / (d1 * d1 - d2 * d2)) *
          Real.sqrt ((sb * sb - d2 * d2) / (d1 * d1 - d2 * d2))) := by
      simp only [map_sub, map_mul, map_one]
    rw [e2, hι.sqrt_ι]
    rfl
  · simp only [if_true, map_one, map_zero]

theorem gmdY_ι (ι : ℝ →+* K) (sb d1 d2 : ℝ) : gmdY (ι sb) (ι d1) (ι d2) = ι (gmdY sb d1 d2) := by
  simp only [gmdY, map_div₀, map_mul]

/-- the loop invariant of the sweep after `k` iterations, on the abstract state -/
structure Inv (ι : ℝ →+* K) (m n p : Nat) (A : Matrix (Fin m) (Fin n) K) (S : Nat → ℝ) (sb : ℝ) (k : Nat)
    (g : GA K) : Prop where
  mi : MInv m n p A (ι sb) k g.d g.z g.R (colv m g.Q) (colv n g.P)
  bi : ∃ dr : Nat → ℝ, (∀ q, g.d q = ι (dr q)) ∧ BInv p S sb k dr g.perm g.invperm g.large g.small

theorem pickA_1 {ι : ℝ →+* K} (hι : RealLike ι) (sb : ℝ) (k : Nat) (g : GA K) (dr : Nat → ℝ)
    (hd : ∀ q, g.d q = ι (dr q)) :
    (pickA (ι sb) k g).1 = g.perm (pickRank sb (dr k) g.large g.small) := by
  unfold pickA pickRank
  rw [hd k]
  by_cases h : sb ≤ dr k
  · rw [if_pos ((hι.le_ι _ _).mpr h), if_pos h]
  · rw [if_neg (fun h' => h ((hι.le_ι _ _).mp h')), if_neg h]
theorem pickA_2 {ι : ℝ →+* K} (hι : RealLike ι) (sb : ℝ) (k : Nat) (g : GA K) (dr : Nat → ℝ)
    (hd : ∀ q, g.d q = ι (dr q)) :
    (pickA (ι sb) k g).2.1 = if sb ≤ dr k then g.large else g.large + 1 := by
  unfold pickA
  rw [hd k]
  by_cases h : sb ≤ dr k
  · rw [if_pos ((hι.le_ι _ _).mpr h), if_pos h]
  · rw [if_neg (fun h' => h ((hι.le_ι _ _).mp h')), if_neg h]
theorem pickA_3 {ι : ℝ →+* K} (hι : RealLike ι) (sb : ℝ) (k : Nat) (g : GA K) (dr : Nat → ℝ)
    (hd : ∀ q, g.d q = ι (dr q)) :
    (pickA (ι sb) k g).2.2.1 = if sb ≤ dr k then g.small - 1 else g.small := by
  unfold pickA
  rw [hd k]
  by_cases h : sb ≤ dr k
  · rw [if_pos ((hι.le_ι _ _).mpr h), if_pos h]
  · rw [if_neg (fun h' => h ((hι.le_ι _ _).mp h')), if_neg h]
theorem pickA_4 {ι : ℝ →+* K} (hι : RealLike ι) (sb : ℝ) (k : Nat) (g : GA K) (dr : Nat → ℝ)
    (hd : ∀ q, g.d q = ι (dr q)) :
    (pickA (ι sb) k g).2.2.2 = if sb ≤ dr k then decide (sb ≤ dr (g.perm g.small))
      else decide (dr (g.perm g.large) ≤ sb) := by
  unfold pickA
  rw [hd k]
  by_cases h : sb ≤ dr k
  · rw [if_pos ((hι.le_ι _ _).mpr h), if_pos h, hd]
    exact decide_eq_decide.mpr (hι.le_ι _ _)
  · rw [if_neg (fun h' => h ((hι.le_ι _ _).mp h')), if_neg h, hd]
    exact decide_eq_decide.mpr (hι.le_ι _ _)

theorem dswA_eq (g : GA K) (k1 i q : Nat) : dswA g k1 i q = g.d (sw k1 i q) := by
  unfold dswA sw
  by_cases h : i = k1
  · subst h
    simp only [ne_eq, not_true_eq_false, if_false]
    split_ifs with h1 <;> simp [h1]
  · simp only [ne_eq, h, not_false_eq_true, if_true]
    split_ifs <;> rfl

theorem colv_swap_if (r : Nat) (M : Nat → Nat → K) (k1 i j : Nat) :
    colv r (if i ≠ k1 then swapF M k1 i else M) j = colv r M (sw k1 i j) := by
  by_cases h : i = k1
  · subst h
    have : sw i i j = j := by unfold sw; split_ifs <;> omega
    simp [this]
  · simp only [ne_eq, h, not_false_eq_true, if_true, colv_swapF]

theorem sw_left (a b : Nat) : sw a b a = b := by
  unfold sw; split_ifs <;> omega

/-- under the invariant every index read by iteration `k` of the array model is in range -/
theorem Inv.bounds {ι : ℝ →+* K} {m n p : Nat} {A : Matrix (Fin m) (Fin n) K} {S : Nat → ℝ} {sb : ℝ}
    {k : Nat} {g : GA K} (h : Inv ι m n p A S sb k g) (hk : k + 1 < p) :
    g.small < p ∧ g.large < p ∧ g.perm g.small < p ∧ g.perm g.large < p ∧ g.invperm (k + 1) < p := by
  obtain ⟨dr, hd, bi⟩ := h.bi
  have hc := bi.cnt
  have hs := bi.sp
  have hls : g.large ≤ g.small := by omega
  refine ⟨hs, by omega, (bi.pm g.small hls (le_refl _)).2.1, (bi.pm g.large (le_refl _) hls).2.1, ?_⟩
  have := bi.ip (k + 1) (by omega) hk
  omega

/-- PRESERVATION: one iteration of the sweep turns the invariant for `k` into the invariant for
    `k + 1` (singular values positive and non-increasing, `σ̄ > 0`) -/
theorem Inv.step {ι : ℝ →+* K} (hι : RealLike ι) {m n p : Nat} {A : Matrix (Fin m) (Fin n) K}
    {S : Nat → ℝ} {sb : ℝ} {k : Nat} {g : GA K}
    (h : Inv ι m n p A S sb k g) (hpm : p ≤ m) (hpn : p ≤ n) (hk : k + 1 < p) (hsb : 0 < sb)
    (Spos : ∀ r, r < p → 0 < S r) (Smono : ∀ r r', r ≤ r' → r' < p → S r' ≤ S r) :
    Inv ι m n p A S sb (k + 1) (stepA (ι sb) k g) := by
  obtain ⟨dr, hd, bi⟩ := h.bi
  have hc := bi.cnt
  have hs := bi.sp
  have hl1 := bi.l1
  have hls : g.large ≤ g.small := by omega
  set r0 := pickRank sb (dr k) g.large g.small with hr0
  set i := (pickA (ι sb) k g).1 with hi
  have hi' : i = g.perm r0 := pickA_1 hι sb k g dr hd
  have hr0l : g.large ≤ r0 := by rw [hr0, pickRank]; split <;> omega
  have hr0s : r0 ≤ g.small := by rw [hr0, pickRank]; split <;> omega
  obtain ⟨hik, hip, hdi, _⟩ := bi.pm r0 hr0l hr0s
  rw [← hi'] at hik hip hdi
  have e_dk : g.d (sw (k + 1) i k) = ι (dr k) := by
    rw [sw_of_lt (k + 1) i k k (by omega) hik (le_refl k), hd]
  have e_dk1 : g.d (sw (k + 1) i (k + 1)) = ι (dr i) := by rw [sw_left, hd]
  -- the rotation parameters satisfy the two identities (over the reals)
  have hprod : dr k * ∏ r ∈ Finset.Ico g.large (g.small + 1), S r = sb ^ (g.small + 1 - g.large + 1) := by
    rw [bi.prod]; congr 1; omega
  have SposI : ∀ r ∈ Finset.Ico g.large (g.small + 1), 0 < S r := by
    intro r hr; have := Finset.mem_Ico.mp hr; exact Spos r (by omega)
  have hcs : (gmdCS (pickA (ι sb) k g).2.2.2 sb (dr k) (dr i)).1 ^ 2 +
      (gmdCS (pickA (ι sb) k g).2.2.2 sb (dr k) (dr i)).2 ^ 2 = 1 ∧
      (gmdCS (pickA (ι sb) k g).2.2.2 sb (dr k) (dr i)).1 ^ 2 * dr k ^ 2 +
      (gmdCS (pickA (ι sb) k g).2.2.2 sb (dr k) (dr i)).2 ^ 2 * dr i ^ 2 = sb ^ 2 := by
    rw [pickA_4 hι sb k g dr hd]
    by_cases hge : sb ≤ dr k
    · have e0 : r0 = g.small := by rw [hr0, pickRank, if_pos hge]
      have e1 : i = g.perm g.small := by rw [hi', e0]
      rw [if_pos hge, ← e1, hdi, e0]
      exact pick_small_cs S sb (dr k) g.large (g.small + 1) g.small hsb SposI
        (fun r hr => by have := Finset.mem_Ico.mp hr; exact Smono r g.small (by omega) hs)
        (Finset.mem_Ico.mpr ⟨hls, by omega⟩) hprod hge
    · have e0 : r0 = g.large := by rw [hr0, pickRank, if_neg hge]
      have e1 : i = g.perm g.large := by rw [hi', e0]
      rw [if_neg hge, ← e1, hdi, e0]
      exact pick_large_cs S sb (dr k) g.large (g.small + 1) g.large hsb bi.dpos SposI
        (fun r hr => by have := Finset.mem_Ico.mp hr; exact Smono g.large r (by omega) (by omega))
        (Finset.mem_Ico.mpr ⟨le_refl _, by omega⟩) hprod (not_le.mp hge)
  -- … and so do their images in `K`
  set cr := (gmdCS (pickA (ι sb) k g).2.2.2 sb (dr k) (dr i)).1 with hcr
  set sr := (gmdCS (pickA (ι sb) k g).2.2.2 sb (dr k) (dr i)).2 with hsr
  have ecs : gmdCS (pickA (ι sb) k g).2.2.2 (ι sb) (ι (dr k)) (ι (dr i)) = (ι cr, ι sr) :=
    gmdCS_ι hι _ sb (dr k) (dr i)
  have k1 : ι cr ^ 2 + ι sr ^ 2 = 1 := by
    rw [← map_pow, ← map_pow, ← map_add, hcs.1, map_one]
  constructor
  · -- matrix part: interchange, then rotation
    have hsw := h.mi.swap hpm hpn (k + 1) i (by omega) hk hik hip
    have k2 : ι cr ^ 2 * g.d (sw (k + 1) i k) ^ 2 + ι sr ^ 2 * g.d (sw (k + 1) i (k + 1)) ^ 2 = ι sb ^ 2 := by
      rw [e_dk, e_dk1]
      simp only [← map_pow, ← map_mul, ← map_add]
      rw [hcs.2]
    have hne : ι sb ≠ 0 := by
      rw [Ne, map_eq_zero]; exact hsb.ne'
    refine hsw.rot hpm hpn hk (ι cr) (ι sr) hne k1 k2 (hι.star_ι _) (hι.star_ι _) (hι.star_ι _)
      (by rw [e_dk]; exact hι.star_ι _) (by rw [e_dk1]; exact hι.star_ι _) _ _ _ _ _ ?_ ?_ ?_ ?_ ?_
    · intro q
      show (stepA (ι sb) k g).d q = _
      simp only [stepA, dswA_eq, ← hi, e_dk, e_dk1]
    · intro t
      show (stepA (ι sb) k g).z t = _
      simp only [stepA, dswA_eq, ← hi, e_dk, e_dk1, ecs]
    · intro a b
      show (stepA (ι sb) k g).R a b = _
      simp only [stepA, dswA_eq, ← hi, e_dk, e_dk1, ecs]
    · intro j
      show colv m (stepA (ι sb) k g).Q j = _
      simp only [stepA, dswA_eq, colv_rotF, colv_swap_if, ← hi, e_dk, e_dk1, ecs]
    · intro j
      show colv n (stepA (ι sb) k g).P j = _
      simp only [stepA, dswA_eq, colv_rotF, colv_swap_if, ← hi, e_dk, e_dk1, ecs]
  · -- bookkeeping part
    refine ⟨fun q => if q = k + 1 then gmdY sb (dr k) (dr i) else dr (sw (k + 1) i q), ?_, ?_⟩
    · intro q
      show (stepA (ι sb) k g).d q = _
      simp only [stepA, dswA_eq, ← hi, e_dk, e_dk1, gmdY_ι, hd]
      split <;> rfl
    · refine bi.step hk hsb Spos r0 i _ _ hr0 hi' (pickA_2 hι sb k g dr hd) (pickA_3 hι sb k g dr hd) _ _ _
        (fun q => rfl) ?_ ?_
      · intro q
        show (stepA (ι sb) k g).perm q = _
        simp only [stepA, ← hi]
      · intro q
        show (stepA (ι sb) k g).invperm q = _
        simp only [stepA, ← hi]

end PyPhysim.LinAlg.GmdInv
