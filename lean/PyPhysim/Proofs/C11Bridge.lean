import Mathlib.Data.Matrix.Mul
import Mathlib.Algebra.BigOperators.Fin
import Mathlib.LinearAlgebra.Matrix.ConjTranspose
import Mathlib.Data.Complex.Basic
import Mathlib.Analysis.Complex.Norm
import Mathlib.Analysis.SpecialFunctions.Log.Base
import Mathlib.Analysis.SpecialFunctions.Sqrt
import PyPhysim.Model.C11

/-!
Bridge between the core-only model `PyPhysim.Sinr` (`Fin`-indexed functions, own
`sumFin`) and Mathlib: the scalar classes instantiated at `ℂ` / `ℝ`, and
`Matrix.of` of every model operation as the corresponding Mathlib operation.
-/
set_option linter.unusedSectionVars false
namespace PyPhysim.Sinr
open Matrix

/-- conjugation of the model scalars at `ℂ` -/
noncomputable instance instConjComplex : Conj ℂ := ⟨star⟩
/-- `float * complex` promotion and `np.abs` at `ℝ`, `ℂ` -/
noncomputable instance instRCRealComplex : RC ℝ ℂ := ⟨Complex.ofReal, fun z => ‖z‖⟩
/-- `np.sqrt`, `np.log2`, `np.log10` at `ℝ` -/
noncomputable instance instRFunReal : RFun ℝ := ⟨Real.sqrt, Real.logb 2, Real.logb 10⟩

theorem sumFin_eq {β : Type} [AddCommMonoid β] : ∀ (n : Nat) (f : Fin n → β), sumFin n f = ∑ i, f i
  | 0, f => by simp [sumFin]
  | n+1, f => by rw [sumFin, sumFin_eq n, Fin.sum_univ_castSucc]

/-- a model matrix seen as a Mathlib matrix -/
abbrev toM {m n : Nat} (A : Mat ℂ m n) : Matrix (Fin m) (Fin n) ℂ := Matrix.of A

theorem toM_inj {m n : Nat} {A B : Mat ℂ m n} (h : toM A = toM B) : A = B :=
  Matrix.of.injective h

variable {m k n t s : Nat}

theorem toM_matMul (A : Mat ℂ m k) (B : Mat ℂ k n) : toM (matMul A B) = toM A * toM B := by
  ext i j
  simp [matMul, sumFin_eq, Matrix.mul_apply]

theorem toM_cT (A : Mat ℂ m n) : toM (cT A) = (toM A)ᴴ := by
  ext i j
  simp [cT, Conj.conj, conjTranspose_apply]

theorem toM_eye : toM (eye : Mat ℂ n n) = 1 := by
  ext i j
  simp [eye, Matrix.one_apply]

theorem toM_zeroM : toM (zeroM : Mat ℂ m n) = 0 := by
  ext i j; simp [zeroM]

theorem toM_madd (A B : Mat ℂ m n) : toM (madd A B) = toM A + toM B := by
  ext i j; simp [madd]

theorem toM_msub (A B : Mat ℂ m n) : toM (msub A B) = toM A - toM B := by
  ext i j; simp [msub]

theorem toM_smul (c : ℂ) (A : Mat ℂ m n) : toM (smul c A) = c • toM A := by
  ext i j; simp [smul]

theorem toM_sumMat (K : Nat) (f : Fin K → Mat ℂ n n) : toM (sumMat K f) = ∑ j, toM (f j) := by
  ext a b
  simp [sumMat, sumFin_eq, Matrix.sum_apply]

theorem toM_covTerm (G : Mat ℂ n t) (V : Mat ℂ t s) :
    toM (covTerm G V) = (toM G * toM V) * (toM G * toM V)ᴴ := by
  simp only [covTerm, toM_matMul, toM_cT, conjTranspose_mul, Matrix.mul_assoc]

theorem toM_covTermS (G : Mat ℂ n t) (V : Mat ℂ t s) :
    toM (covTermS G V) = (toM G * toM V) * (toM G * toM V)ᴴ := by
  simp only [covTermS, toM_matMul, toM_cT]

theorem toM_noiseCov (c : ℝ) : toM (noiseCov n c : Mat ℂ n n) = (c : ℂ) • (1 : Matrix (Fin n) (Fin n) ℂ) := by
  simp only [noiseCov, toM_smul, toM_eye, RC.ofReal]

theorem toM_extCov {e : Nat} (He : Mat ℂ n e) (pe : ℝ) :
    toM (extCov He pe) = (pe : ℂ) • (toM He * (toM He)ᴴ) := by
  simp only [extCov, toM_smul, toM_matMul, toM_cT, RC.ofReal]

theorem item_eq (A : Mat ℂ 1 1) : item A = toM A 0 0 := rfl

/-- `(X Xᴴ)₀₀ = Σ_d |X₀d|²` for a row `X` -/
theorem row_mul_conjTranspose_self (X : Matrix (Fin 1) (Fin s) ℂ) :
    (X * Xᴴ) 0 0 = ((∑ d, Complex.normSq (X 0 d) : ℝ) : ℂ) := by
  simp only [Matrix.mul_apply, conjTranspose_apply, Complex.ofReal_sum]
  refine Finset.sum_congr rfl (fun d _ => ?_)
  rw [Complex.star_def, Complex.mul_conj]

end PyPhysim.Sinr
