import PyPhysim.Model.C18

/-! C18 — `extra_dimension=False`: reshaping a flattened block. -/
set_option linter.unusedSectionVars false
namespace PyPhysim.C18P
open PyPhysim.Cazac PyPhysim.Proto

theorem flatten_length_const {β : Type} (rows : List (List β)) (ne : Nat) (h : ∀ r ∈ rows, r.length = ne) :
    rows.flatten.length = rows.length * ne := by
  induction rows with
  | nil => simp
  | cons R rest ih =>
    rw [List.flatten_cons, List.length_append, ih (fun r hr => h r (by simp [hr])), h R (by simp),
      List.length_cons, Nat.succ_mul]
    omega

theorem flatten_drop_take {β : Type} (rows : List (List β)) (ne : Nat) (h : ∀ r ∈ rows, r.length = ne)
    (c : Nat) (hc : c < rows.length) :
    ((rows.flatten).drop (c * ne)).take ne = rows[c] := by
  induction rows generalizing c with
  | nil => simp at hc
  | cons R rest ih =>
    have hR : R.length = ne := h R (by simp)
    rw [List.flatten_cons]
    cases c with
    | zero =>
      simp only [Nat.zero_mul, List.drop_zero, List.getElem_cons_zero]
      rw [List.take_append_of_le_length (by omega), List.take_of_length_le (by omega)]
    | succ c =>
      have : (c + 1) * ne = R.length + c * ne := by rw [Nat.succ_mul, hR]; omega
      rw [this, List.drop_append, List.getElem_cons_succ, List.drop_of_length_le (by omega),
        List.nil_append, Nat.add_sub_cancel_left]
      exact ih (fun r hr => h r (by simp [hr])) c (by simpa using hc)

/-- `extra_dimension=False`: reshaping the flattened `Nc × Ne` block gives the block back -/
theorem reshapeRows_flatten {β : Type} (rows : List (List β)) (ne : Nat) (hnc : 0 < rows.length)
    (h : ∀ r ∈ rows, r.length = ne) :
    reshapeRows rows.length rows.flatten = .ok rows := by
  unfold reshapeRows
  have hl := flatten_length_const rows ne h
  rw [if_neg (by omega), hl, if_neg (by simp)]
  simp only [Nat.mul_div_cancel_left ne hnc]
  congr 1
  apply List.ext_getElem
  · simp
  · intro c h1 h2
    simp only [List.getElem_map, List.getElem_range]
    exact flatten_drop_take rows ne h c h2
end PyPhysim.C18P
