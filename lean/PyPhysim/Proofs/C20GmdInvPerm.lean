import Mathlib.Algebra.BigOperators.Intervals
import Mathlib.Algebra.Order.BigOperators.GroupWithZero.Finset
import Mathlib.Algebra.Order.BigOperators.Group.LocallyFinite
import Mathlib.Order.Interval.Finset.Nat
import Mathlib.Tactic.Linarith
import Mathlib.Tactic.Positivity
import PyPhysim.Proofs.C20GmdStep
import PyPhysim.Proofs.C20GmdInvSw

/-!
# `gmd` — the bookkeeping part of the loop invariant

`BInv … k d perm invperm large small`: the not-yet-used singular values are the ranks
`large … small` of the (non-increasing) input `S`; `perm` sends each such rank to its current
position in `d` (a position `> k`), `invperm` is its inverse on the positions `k < q < p`;
`d[k] · ∏ S[large..small] = σ̄^(p-k)` (the *product invariant*).

The product invariant is what makes the sweep work: it forces a partner on the other side of `σ̄`
(`pick_small_cs`, `pick_large_cs`: the rotation parameters the code computes satisfy the two
defining identities in every branch, the `flag` branch included — it is only taken when
`d[k] = σ̄`, and never taken in the `d[k] < σ̄` branch).
-/
set_option linter.unusedSectionVars false
set_option linter.unusedVariables false
set_option linter.unusedSimpArgs false
namespace PyPhysim.LinAlg.GmdInv
open PyPhysim.Proto PyPhysim.LinAlg

theorem pow_le_prod_Ico (S : Nat → ℝ) (sb : ℝ) (lo hi : Nat) (hsb : 0 ≤ sb)
    (h : ∀ r ∈ Finset.Ico lo hi, sb ≤ S r) : sb ^ (hi - lo) ≤ ∏ r ∈ Finset.Ico lo hi, S r := by
  calc sb ^ (hi - lo) = ∏ r ∈ Finset.Ico lo hi, sb := by simp [Finset.prod_const, Nat.card_Ico]
    _ ≤ _ := Finset.prod_le_prod (fun _ _ => hsb) h

theorem prod_Ico_le_pow (S : Nat → ℝ) (sb : ℝ) (lo hi : Nat) (h0 : ∀ r ∈ Finset.Ico lo hi, 0 ≤ S r)
    (h : ∀ r ∈ Finset.Ico lo hi, S r ≤ sb) : ∏ r ∈ Finset.Ico lo hi, S r ≤ sb ^ (hi - lo) := by
  calc ∏ r ∈ Finset.Ico lo hi, S r ≤ ∏ r ∈ Finset.Ico lo hi, sb := Finset.prod_le_prod h0 h
    _ = sb ^ (hi - lo) := by simp [Finset.prod_const, Nat.card_Ico]

/-- branch `d[k] ≥ σ̄` (partner = smallest remaining value `S sm`): the parameters `(c, s)` the
    code computes — `(1, 0)` when `S sm ≥ σ̄` too, the square roots otherwise — satisfy
    `c² + s² = 1`, `c² d[k]² + s² (S sm)² = σ̄²` -/
theorem pick_small_cs (S : Nat → ℝ) (sb dk : ℝ) (lo hi sm : Nat) (hsb : 0 < sb)
    (Spos : ∀ r ∈ Finset.Ico lo hi, 0 < S r) (hmin : ∀ r ∈ Finset.Ico lo hi, S sm ≤ S r)
    (hsm : sm ∈ Finset.Ico lo hi)
    (hprod : dk * ∏ r ∈ Finset.Ico lo hi, S r = sb ^ (hi - lo + 1)) (hge : sb ≤ dk) :
    (gmdCS (decide (sb ≤ S sm)) sb dk (S sm)).1 ^ 2 + (gmdCS (decide (sb ≤ S sm)) sb dk (S sm)).2 ^ 2 = 1 ∧
    (gmdCS (decide (sb ≤ S sm)) sb dk (S sm)).1 ^ 2 * dk ^ 2 +
      (gmdCS (decide (sb ≤ S sm)) sb dk (S sm)).2 ^ 2 * S sm ^ 2 = sb ^ 2 := by
  by_cases hf : sb ≤ S sm
  · have h1 : sb ^ (hi - lo) ≤ ∏ r ∈ Finset.Ico lo hi, S r :=
      pow_le_prod_Ico S sb lo hi hsb.le (fun r hr => le_trans hf (hmin r hr))
    have hpos : 0 < sb ^ (hi - lo) := pow_pos hsb _
    have hdk : dk = sb := by
      apply le_antisymm _ hge
      have : dk * sb ^ (hi - lo) ≤ sb * sb ^ (hi - lo) := by
        calc dk * sb ^ (hi - lo) ≤ dk * ∏ r ∈ Finset.Ico lo hi, S r :=
              mul_le_mul_of_nonneg_left h1 (le_trans hsb.le hge)
          _ = sb * sb ^ (hi - lo) := by rw [hprod]; ring
      exact le_of_mul_le_mul_right this hpos
    simp only [hf, decide_true, gmdCS, if_true]
    rw [hdk]; constructor <;> ring
  · simp only [hf, decide_false]
    exact Pf.gmdCS_spec sb dk (S sm) hsb (Or.inl ⟨(Spos sm hsm).le, not_le.mp hf, hge⟩)

/-- branch `d[k] < σ̄`: the `flag` case `S lg ≤ σ̄` (largest remaining value not above `σ̄`)
    contradicts the product invariant -/
theorem pick_large_flag_never (S : Nat → ℝ) (sb dk : ℝ) (lo hi lg : Nat) (hsb : 0 < sb)
    (Spos : ∀ r ∈ Finset.Ico lo hi, 0 < S r) (hmax : ∀ r ∈ Finset.Ico lo hi, S r ≤ S lg)
    (hprod : dk * ∏ r ∈ Finset.Ico lo hi, S r = sb ^ (hi - lo + 1)) (hlt : dk < sb) :
    ¬ S lg ≤ sb := by
  intro hf
  have h1 : ∏ r ∈ Finset.Ico lo hi, S r ≤ sb ^ (hi - lo) :=
    prod_Ico_le_pow S sb lo hi (fun r hr => (Spos r hr).le) (fun r hr => le_trans (hmax r hr) hf)
  have hpos : 0 < ∏ r ∈ Finset.Ico lo hi, S r := Finset.prod_pos Spos
  have : dk * ∏ r ∈ Finset.Ico lo hi, S r < sb * sb ^ (hi - lo) :=
    calc dk * ∏ r ∈ Finset.Ico lo hi, S r < sb * ∏ r ∈ Finset.Ico lo hi, S r :=
          mul_lt_mul_of_pos_right hlt hpos
      _ ≤ sb * sb ^ (hi - lo) := mul_le_mul_of_nonneg_left h1 hsb.le
  rw [hprod] at this
  have e : sb ^ (hi - lo + 1) = sb * sb ^ (hi - lo) := by ring
  linarith

/-- branch `d[k] < σ̄` (partner = largest remaining value `S lg`): the rotation is always
    performed (`pick_large_flag_never`) and its parameters satisfy the two identities -/
theorem pick_large_cs (S : Nat → ℝ) (sb dk : ℝ) (lo hi lg : Nat) (hsb : 0 < sb) (hdk : 0 < dk)
    (Spos : ∀ r ∈ Finset.Ico lo hi, 0 < S r) (hmax : ∀ r ∈ Finset.Ico lo hi, S r ≤ S lg)
    (hlg : lg ∈ Finset.Ico lo hi)
    (hprod : dk * ∏ r ∈ Finset.Ico lo hi, S r = sb ^ (hi - lo + 1)) (hlt : dk < sb) :
    (gmdCS (decide (S lg ≤ sb)) sb dk (S lg)).1 ^ 2 + (gmdCS (decide (S lg ≤ sb)) sb dk (S lg)).2 ^ 2 = 1 ∧
    (gmdCS (decide (S lg ≤ sb)) sb dk (S lg)).1 ^ 2 * dk ^ 2 +
      (gmdCS (decide (S lg ≤ sb)) sb dk (S lg)).2 ^ 2 * S lg ^ 2 = sb ^ 2 := by
  have hf := pick_large_flag_never S sb dk lo hi lg hsb Spos hmax hprod hlt
  simp only [hf, decide_false]
  exact Pf.gmdCS_spec sb dk (S lg) hsb (Or.inr ⟨hdk.le, hlt, (not_le.mp hf).le⟩)

/-- the bookkeeping part of the loop invariant after `k` iterations (see the file header) -/
structure BInv (p : Nat) (S : Nat → ℝ) (sb : ℝ) (k : Nat) (d : Nat → ℝ) (perm invperm : Nat → Nat)
    (large small : Nat) : Prop where
  cnt : large + (p - 1 - k) = small + 1
  l1 : 1 ≤ large
  sp : small < p
  pm : ∀ r, large ≤ r → r ≤ small →
    k < perm r ∧ perm r < p ∧ d (perm r) = S r ∧ invperm (perm r) = r
  ip : ∀ q, k < q → q < p → large ≤ invperm q ∧ invperm q ≤ small ∧ perm (invperm q) = q
  dpos : 0 < d k
  prod : d k * ∏ r ∈ Finset.Ico large (small + 1), S r = sb ^ (p - k)

/-- the rank picked in iteration `k` -/
noncomputable def pickRank (sb : ℝ) (dk : ℝ) (large small : Nat) : Nat := if sb ≤ dk then small else large

theorem BInv.perm_inj {p : Nat} {S : Nat → ℝ} {sb : ℝ} {k : Nat} {d : Nat → ℝ} {perm invperm : Nat → Nat}
    {large small : Nat} (h : BInv p S sb k d perm invperm large small) (r r' : Nat)
    (h1 : large ≤ r) (h2 : r ≤ small) (h1' : large ≤ r') (h2' : r' ≤ small) (e : perm r = perm r') :
    r = r' := by
  have a := (h.pm r h1 h2).2.2.2
  have b := (h.pm r' h1' h2').2.2.2
  rw [e] at a
  omega

/-- one iteration on the bookkeeping: the partner position lies in `(k, p)`, holds the picked
    singular value, and after the interchange, the `perm`/`invperm` updates and `d[k+1] = y` the
    invariant holds for `k + 1` -/
theorem BInv.step {p : Nat} {S : Nat → ℝ} {sb : ℝ} {k : Nat} {d : Nat → ℝ} {perm invperm : Nat → Nat}
    {large small : Nat} (h : BInv p S sb k d perm invperm large small) (hk : k + 1 < p) (hsb : 0 < sb)
    (Spos : ∀ r, r < p → 0 < S r)
    (r0 i large' small' : Nat) (hr0 : r0 = pickRank sb (d k) large small) (hi : i = perm r0)
    (hl' : large' = if sb ≤ d k then large else large + 1)
    (hs' : small' = if sb ≤ d k then small - 1 else small)
    (d' : Nat → ℝ) (perm' invperm' : Nat → Nat)
    (hd' : ∀ q, d' q = if q = k + 1 then gmdY sb (d k) (d i) else d (sw (k + 1) i q))
    (hperm' : ∀ q, perm' q = if i ≠ k + 1 ∧ q = invperm (k + 1) then i else perm q)
    (hinv' : ∀ q, invperm' q = if i ≠ k + 1 ∧ q = i then invperm (k + 1) else invperm q) :
    BInv p S sb (k + 1) d' perm' invperm' large' small' := by
  have hls : large ≤ small := by have := h.cnt; omega
  have hr0l : large ≤ r0 := by rw [hr0, pickRank]; split <;> omega
  have hr0s : r0 ≤ small := by rw [hr0, pickRank]; split <;> omega
  obtain ⟨hik, hip, hdi, hinvi⟩ := h.pm r0 hr0l hr0s
  rw [← hi] at hik hip hdi hinvi
  -- the new range is the old one without `r0`
  have hrange : ∀ r, (large' ≤ r ∧ r ≤ small') ↔ (large ≤ r ∧ r ≤ small ∧ r ≠ r0) := by
    intro r
    rw [hl', hs', hr0, pickRank]
    have := h.l1
    split <;> omega
  obtain ⟨hjl, hjs, hpj⟩ := h.ip (k + 1) (by omega) hk
  have hjne : i ≠ k + 1 → invperm (k + 1) ≠ r0 := by
    intro hne e
    rw [e, ← hi] at hpj
    exact hne hpj
  refine ⟨?_, ?_, ?_, ?_, ?_, ?_, ?_⟩
  · rw [hl', hs']
    have := h.cnt
    have := h.l1
    split <;> omega
  · rw [hl']; have := h.l1; split <;> omega
  · rw [hs']; have := h.sp; split <;> omega
  · intro r hr1 hr2
    obtain ⟨hrl, hrs, hrne⟩ := (hrange r).mp ⟨hr1, hr2⟩
    obtain ⟨q1, q2, q3, q4⟩ := h.pm r hrl hrs
    have hne_i : perm r ≠ i := by
      intro e
      exact hrne (h.perm_inj r r0 hrl hrs hr0l hr0s (by rw [e, hi]))
    by_cases hik1 : i = k + 1
    · -- no interchange
      have e1 : perm' r = perm r := by rw [hperm' r]; simp [hik1]
      have hne1 : perm r ≠ k + 1 := by rw [← hik1]; exact hne_i
      rw [e1]
      refine ⟨by omega, q2, ?_, ?_⟩
      · rw [hd' (perm r), if_neg hne1, hik1]
        have : sw (k + 1) (k + 1) (perm r) = perm r := by unfold sw; split_ifs <;> omega
        rw [this, q3]
      · rw [hinv' (perm r)]; simp [hik1, q4]
    · by_cases hrj : r = invperm (k + 1)
      · have e1 : perm' r = i := by rw [hperm' r]; simp [hik1, hrj]
        rw [e1]
        refine ⟨by omega, hip, ?_, ?_⟩
        · rw [hd' i, if_neg hik1]
          have : sw (k + 1) i i = k + 1 := by unfold sw; simp
          rw [this, ← hpj, ← hrj, q3]
        · rw [hinv' i]; simp [hik1, hrj]
      · have e1 : perm' r = perm r := by rw [hperm' r]; simp [hrj]
        have hne1 : perm r ≠ k + 1 := by
          intro e
          exact hrj (h.perm_inj r _ hrl hrs hjl hjs (by rw [e, hpj]))
        rw [e1]
        refine ⟨by omega, q2, ?_, ?_⟩
        · rw [hd' (perm r), if_neg hne1]
          have : sw (k + 1) i (perm r) = perm r := by unfold sw; split_ifs <;> omega
          rw [this, q3]
        · rw [hinv' (perm r)]; simp [hne_i, q4]
  · intro q hq1 hq2
    obtain ⟨t1, t2, t3⟩ := h.ip q (by omega) hq2
    by_cases hik1 : i = k + 1
    · have e1 : invperm' q = invperm q := by rw [hinv' q]; simp [hik1]
      have hne0 : invperm q ≠ r0 := by
        intro e
        rw [e, ← hi] at t3
        omega
      rw [e1]
      refine ⟨((hrange _).mpr ⟨t1, t2, hne0⟩).1, ((hrange _).mpr ⟨t1, t2, hne0⟩).2, ?_⟩
      rw [hperm' _]; simp [hik1, t3]
    · by_cases hqi : q = i
      · have e1 : invperm' q = invperm (k + 1) := by rw [hinv' q]; simp [hik1, hqi]
        rw [e1]
        refine ⟨((hrange _).mpr ⟨hjl, hjs, hjne hik1⟩).1, ((hrange _).mpr ⟨hjl, hjs, hjne hik1⟩).2, ?_⟩
        rw [hperm' _]; simp [hik1, hqi]
      · have e1 : invperm' q = invperm q := by rw [hinv' q]; simp [hqi]
        have hne0 : invperm q ≠ r0 := by
          intro e
          rw [e, ← hi] at t3
          exact hqi t3.symm
        have hnej : invperm q ≠ invperm (k + 1) := by
          intro e
          rw [e, hpj] at t3
          omega
        rw [e1]
        refine ⟨((hrange _).mpr ⟨t1, t2, hne0⟩).1, ((hrange _).mpr ⟨t1, t2, hne0⟩).2, ?_⟩
        rw [hperm' _]; simp [hnej, t3]
  · rw [hd' (k + 1), if_pos rfl, gmdY, hdi]
    have := h.dpos
    have := Spos r0 (by have := h.sp; omega)
    positivity
  · rw [hd' (k + 1), if_pos rfl, gmdY, hdi]
    have hpr := h.prod
    have hpk : p - k = (p - (k + 1)) + 1 := by omega
    rw [hpk, pow_succ] at hpr
    by_cases hge : sb ≤ d k
    · have e0 : r0 = small := by rw [hr0, pickRank, if_pos hge]
      have e1 : large' = large := by rw [hl', if_pos hge]
      have e2 : small' + 1 = small := by rw [hs', if_pos hge]; have := h.l1; omega
      rw [e1, e2, e0]
      rw [Finset.prod_Ico_succ_top hls] at hpr
      field_simp
      linear_combination hpr
    · have e0 : r0 = large := by rw [hr0, pickRank, if_neg hge]
      have e1 : large' = large + 1 := by rw [hl', if_neg hge]
      have e2 : small' = small := by rw [hs', if_neg hge]
      rw [e1, e2, e0]
      rw [Finset.prod_eq_prod_Ico_succ_bot (by omega : large < small + 1)] at hpr
      field_simp
      linear_combination hpr

end PyPhysim.LinAlg.GmdInv
