import PyPhysim.Proofs.C10Fresh
/-!
Observational equivalence of solver states (repaired code).

Two states are `ObsEq` when they hold the same primaries (`_F`, `_P`, `_Ns`) and the
getters `W`, `W_H`, `full_F` return the same values, both being coherent.  Which of the
lazily derived attributes happen to be populated — i.e. which getters / queries were
called before — is NOT part of it.  Every operation maps equivalent states to equivalent
states with equal outputs, so no sequence of later calls can tell them apart: getters
and queries never change a later result (class R11), and a copy / twin that skipped them
behaves identically.
-/
set_option linter.unusedSimpArgs false
set_option linter.unusedVariables false
namespace PyPhysim.C10
open PyPhysim.Proto

variable {μ ρ : Type}

structure ObsEq (O : Ops μ ρ) (K : Nat) (s t : State μ ρ) : Prop where
  f : s.f = t.f
  p : s.p = t.p
  ns : s.ns = t.ns
  gw : getW O s = getW O t
  gwh : getWH O s = getWH O t
  gff : getFullF O K s = getFullF O K t
  cs : Coherent O K s
  ct : Coherent O K t

theorem ObsEq.refl (O : Ops μ ρ) (K : Nat) (s : State μ ρ) (h : Coherent O K s) : ObsEq O K s s :=
  ⟨rfl, rfl, rfl, rfl, rfl, rfl, h, h⟩

theorem ObsEq.symm {O : Ops μ ρ} {K : Nat} {s t : State μ ρ} (h : ObsEq O K s t) : ObsEq O K t s :=
  ⟨h.f.symm, h.p.symm, h.ns.symm, h.gw.symm, h.gwh.symm, h.gff.symm, h.ct, h.cs⟩

theorem ObsEq.trans {O : Ops μ ρ} {K : Nat} {s t u : State μ ρ} (h : ObsEq O K s t) (g : ObsEq O K t u) :
    ObsEq O K s u :=
  ⟨h.f.trans g.f, h.p.trans g.p, h.ns.trans g.ns, h.gw.trans g.gw, h.gwh.trans g.gwh, h.gff.trans g.gff,
   h.cs, g.ct⟩

theorem getW_congr (O : Ops μ ρ) (s t : State μ ρ) (h1 : s.w = t.w) (h2 : s.wH = t.wH) :
    getW O s = getW O t := by
  unfold getW readW
  rw [h1, h2]
  cases t.w with
  | some X => rfl
  | none => cases t.wH <;> rfl

theorem getW_readW (O : Ops μ ρ) (st : State μ ρ) : getW O (readW O st).1 = getW O st := by
  unfold getW readW
  cases hw : st.w <;> cases hh : st.wH <;> simp [hw, hh]

theorem getW_readWH (O : Ops μ ρ) (st : State μ ρ) : getW O (readWH O st).1 = getW O st := by
  unfold getW readW readWH
  cases hw : st.w <;> cases hh : st.wH <;> simp [hw, hh]

/-- a read leaves the state observationally where it was -/
theorem readFullF_obs (O : Ops μ ρ) (K : Nat) (st : State μ ρ) (h : Coherent O K st) :
    ObsEq O K (readFullF O K st).1 st := by
  have f := readFullF_fields O K st
  exact ⟨f.1, f.2.1, f.2.2.2.2.2.2, getW_congr O _ _ f.2.2.1 f.2.2.2.1, getWH_congr O _ _ f.2.2.1 f.2.2.2.1,
    getFullF_readFullF O K st, readFullF_coherent O K st h, h⟩

theorem readW_obs (O : Ops μ ρ) (K : Nat) (st : State μ ρ) (h : Coherent O K st) :
    ObsEq O K (readW O st).1 st := by
  have f := readW_fields O st
  exact ⟨f.1, f.2.2.1, f.2.2.2.2.2, getW_readW O st, getWH_readW O st,
    getFullF_congr O K _ _ f.1 f.2.1 f.2.2.1, readW_coherent O K st h, h⟩

theorem readWH_obs (O : Ops μ ρ) (K : Nat) (st : State μ ρ) (h : Coherent O K st) :
    ObsEq O K (readWH O st).1 st := by
  have f := readWH_fields O st
  exact ⟨f.1, f.2.2.1, f.2.2.2.2.2, getW_readWH O st, getWH_readWH O st,
    getFullF_congr O K _ _ f.1 f.2.1 f.2.2.1, readWH_coherent O K st h, h⟩

/-- storing a value in `_full_W_H` / `_full_W` is not observable by the three getters -/
theorem obs_set_fullWH (O : Ops μ ρ) (K : Nat) (st : State μ ρ) (z : Option μ)
    (hc : Coherent O K { st with fullWH := z }) (h : Coherent O K st) :
    ObsEq O K { st with fullWH := z } st :=
  ⟨rfl, rfl, rfl, getW_congr O _ _ rfl rfl, getWH_congr O _ _ rfl rfl, getFullF_congr O K _ _ rfl rfl rfl, hc, h⟩

theorem obs_set_fullW (O : Ops μ ρ) (K : Nat) (st : State μ ρ) (z : Option μ)
    (hc : Coherent O K { st with fullW := z }) (h : Coherent O K st) :
    ObsEq O K { st with fullW := z } st :=
  ⟨rfl, rfl, rfl, getW_congr O _ _ rfl rfl, getWH_congr O _ _ rfl rfl, getFullF_congr O K _ _ rfl rfl rfl, hc, h⟩

theorem readFullWH_obs (O : Ops μ ρ) (K : Nat) (st : State μ ρ) (h : Coherent O K st) :
    ObsEq O K (readFullWH Cfg.fixed O K st).1 st := by
  have hcoh := readFullWH_coherent O K st h
  revert hcoh
  unfold readFullWH
  cases hz : st.fullWH with
  | some Z => intro _; exact ObsEq.refl O K st h
  | none =>
    simp only
    have o1 := readWH_obs O K st h
    cases hr : readWH O st with
    | mk st1 oy =>
      rw [hr] at o1; simp only at o1
      cases oy with
      | none => intro _; exact o1
      | some Y =>
        simp only
        have o2 := readFullF_obs O K st1 o1.cs
        cases hr2 : readFullF O K st1 with
        | mk st2 r2 =>
          rw [hr2] at o2; simp only at o2
          cases r2 with
          | error e => intro _; simpa [Cfg.fixed] using o2.trans o1
          | ok fF =>
            simp only
            cases hc : O.comp Y fF with
            | error e => intro _; simpa [Cfg.fixed] using o2.trans o1
            | ok Z =>
              intro hcoh
              exact (obs_set_fullWH O K st2 (some Z) hcoh o2.cs).trans (o2.trans o1)

theorem readFullW_obs (O : Ops μ ρ) (K : Nat) (st : State μ ρ) (h : Coherent O K st) :
    ObsEq O K (readFullW Cfg.fixed O K st).1 st := by
  have hcoh := readFullW_coherent O K st h
  revert hcoh
  unfold readFullW
  cases hz : st.fullW with
  | some Z => intro _; exact ObsEq.refl O K st h
  | none =>
    simp only
    have o1 := readFullWH_obs O K st h
    cases hr : readFullWH Cfg.fixed O K st with
    | mk st1 r =>
      rw [hr] at o1; simp only at o1
      cases r with
      | error e => intro _; simpa [Cfg.fixed] using o1
      | ok oz =>
        cases oz with
        | none => intro _; simpa [Cfg.fixed] using o1
        | some Z =>
          intro hcoh
          exact (obs_set_fullW O K st1 (some (O.herm Z)) hcoh o1.cs).trans o1

/-- what the `P` setter accepts: `some p` = the value stored, `none` = rejected -/
def acceptP (O : Ops μ ρ) (K : Nat) : PArg ρ → Option (Option (List ρ))
  | .none => some none
  | .scalar x => if O.pos x then some (some (List.replicate K x)) else none
  | .vec xs => if xs.length ≠ K then none else if xs.all O.pos then some (some xs) else none
  | .malformed => none

theorem setP_eq (O : Ops μ ρ) (K : Nat) (st : State μ ρ) (v : PArg ρ) :
    setP Cfg.fixed O K st v =
      match acceptP O K v with
      | some p => (storeP Cfg.fixed st p, .ok ())
      | none => (st, .error .ValueError) := by
  cases v with
  | none => rfl
  | malformed => rfl
  | scalar x => by_cases h : O.pos x <;> simp [setP, acceptP, h]
  | vec xs =>
    by_cases h1 : xs.length ≠ K
    · simp [setP, acceptP, h1]
    · by_cases h2 : xs.all O.pos
      · simp only [setP, acceptP, h1, h2, if_false, if_true]
      · simp only [setP, acceptP, h1, h2, if_false]; rfl

/-- equivalent states whose caches are emptied and whose primaries are overwritten alike -/
theorem obs_of_fields (O : Ops μ ρ) (K : Nat) (s t : State μ ρ)
    (hf : s.f = t.f) (hff : s.fullF = t.fullF) (hp : s.p = t.p) (hns : s.ns = t.ns)
    (hw : getW O s = getW O t) (hwh : getWH O s = getWH O t)
    (cs : Coherent O K s) (ct : Coherent O K t) : ObsEq O K s t :=
  ⟨hf, hp, hns, hw, hwh, getFullF_congr O K s t hf hff hp, cs, ct⟩

/-- the state `randomizeF` leaves when the power is accepted -/
def randomizedState (O : Ops μ ρ) (K : Nat) (st : State μ ρ) (q : Option (List ρ)) (drawn : μ) (ns : NsArg) :
    State μ ρ :=
  { clearTx Cfg.fixed (storeP Cfg.fixed st q) with f := some (O.normalize drawn), ns := some (ns.expand K) }

theorem doRandomizeF_eq (O : Ops μ ρ) (K : Nat) (st : State μ ρ) (drawn : μ) (ns : NsArg) (p : PArg ρ) :
    doRandomizeF Cfg.fixed O K st drawn ns p =
      match acceptP O K p with
      | some q => (randomizedState O K st q drawn ns, .unit)
      | none => (st, .err .ValueError) := by
  unfold doRandomizeF
  simp only [Cfg.fixed, if_true]
  rw [show (⟨true, true, true, true⟩ : Cfg) = Cfg.fixed from rfl, setP_eq O K st p]
  cases acceptP O K p <;> rfl

/-- the state `solve` leaves when it is accepted -/
def solvedState (st : State μ ρ) (q : Option (List ρ)) (sol : Solution μ) : State μ ρ :=
  { clearRx (clearTx Cfg.fixed (storeP Cfg.fixed st q)) with
      f := some sol.f, fullF := sol.fullF,
      w := if sol.filtIsH then none else some sol.filt,
      wH := if sol.filtIsH then some sol.filt else none,
      ns := some sol.ns }

theorem doSolve_eq (O : Ops μ ρ) (K : Nat) (st : State μ ρ) (cf : Bool) (ns : NsArg) (p : PArg ρ)
    (sol : Solution μ) :
    doSolve Cfg.fixed O K st cf ns p sol =
      if cf && K != 3 then (st, .err .AssertionError)
      else match acceptP O K p with
        | some q => (solvedState st q sol, .unit)
        | none => (st, .err .ValueError) := by
  unfold doSolve
  split
  · rfl
  · simp only [Cfg.fixed, if_true]
    rw [show (⟨true, true, true, true⟩ : Cfg) = Cfg.fixed from rfl, setP_eq O K st p]
    cases acceptP O K p <;> rfl

/-- states obtained from equivalent states by keeping `_W`/`_W_H` and overwriting the other
    attributes alike are equivalent -/
theorem obs_overwrite (O : Ops μ ρ) (K : Nat) (s t s' t' : State μ ρ)
    (hsw : s'.w = s.w) (hswh : s'.wH = s.wH) (htw : t'.w = t.w) (htwh : t'.wH = t.wH)
    (hf : s'.f = t'.f) (hff : s'.fullF = t'.fullF) (hp : s'.p = t'.p) (hns : s'.ns = t'.ns)
    (cs : Coherent O K s') (ct : Coherent O K t') (h : ObsEq O K s t) : ObsEq O K s' t' :=
  obs_of_fields O K s' t' hf hff hp hns
    ((getW_congr O s' s hsw hswh).trans (h.gw.trans (getW_congr O t t' htw.symm htwh.symm)))
    ((getWH_congr O s' s hsw hswh).trans (h.gwh.trans (getWH_congr O t t' htw.symm htwh.symm)))
    cs ct

theorem storeP_obs (O : Ops μ ρ) (K : Nat) (s t : State μ ρ) (q : Option (List ρ)) (h : ObsEq O K s t) :
    ObsEq O K (storeP Cfg.fixed s q) (storeP Cfg.fixed t q) :=
  obs_overwrite O K s t _ _ rfl rfl rfl rfl h.f rfl rfl h.ns
    (storeP_coherent O K s q h.cs) (storeP_coherent O K t q h.ct) h

/-- every operation maps observationally equal states to observationally equal states and gives
    the same output on both -/
theorem step_obs (O : Ops μ ρ) (K : Nat) (s t : State μ ρ) (op : Op μ ρ) (h : ObsEq O K s t) :
    ObsEq O K (step Cfg.fixed O K s op).1 (step Cfg.fixed O K t op).1
    ∧ (step Cfg.fixed O K s op).2 = (step Cfg.fixed O K t op).2 := by
  have cS := step_coherent O K s op h.cs
  have cT := step_coherent O K t op h.ct
  cases op with
  | setP v =>
    simp only [step] at cS cT ⊢
    rw [setP_eq O K s v] at cS ⊢
    rw [setP_eq O K t v] at cT ⊢
    generalize acceptP O K v = a at cS cT ⊢
    cases a with
    | none => exact ⟨h, rfl⟩
    | some q => exact ⟨storeP_obs O K s t q h, rfl⟩
  | randomizeF drawn ns p =>
    simp only [step] at cS cT ⊢
    rw [doRandomizeF_eq O K s drawn ns p] at cS ⊢
    rw [doRandomizeF_eq O K t drawn ns p] at cT ⊢
    generalize acceptP O K p = a at cS cT ⊢
    cases a with
    | none => exact ⟨h, rfl⟩
    | some q =>
      exact ⟨obs_overwrite O K s t (randomizedState O K s q drawn ns) (randomizedState O K t q drawn ns)
        rfl rfl rfl rfl rfl rfl rfl rfl cS cT h, rfl⟩
  | setPrecoders f fullF p =>
    simp only [step, doSetPrecoders] at cS cT ⊢
    cases f <;> cases fullF <;> cases p <;>
      first
      | exact ⟨h, rfl⟩
      | exact ⟨obs_overwrite O K s t _ _ rfl rfl rfl rfl rfl rfl (by first | rfl | exact h.p) rfl cS cT h, rfl⟩
  | setFilters wH w =>
    simp only [step] at cS cT ⊢
    rcases setFilters_cases s wH w with es | es <;> rcases setFilters_cases t wH w with et | et
    · rw [es, et]; exact ⟨h, rfl⟩
    · exfalso
      cases wH <;> cases w <;> simp [doSetFilters, Cfg.fixed] at es et
    · exfalso
      cases wH <;> cases w <;> simp [doSetFilters, Cfg.fixed] at es et
    · rw [es] at cS ⊢
      rw [et] at cT ⊢
      refine ⟨⟨h.f, h.p, h.ns, getW_congr O _ _ rfl rfl, getWH_congr O _ _ rfl rfl, ?_, cS, cT⟩, rfl⟩
      exact (getFullF_congr O K { clearRx s with w := w, wH := wH } s rfl rfl rfl).trans
        (h.gff.trans (getFullF_congr O K t { clearRx t with w := w, wH := wH } rfl rfl rfl))
  | solve cf ns p sol =>
    simp only [step] at cS cT ⊢
    rw [doSolve_eq O K s cf ns p sol] at cS ⊢
    rw [doSolve_eq O K t cf ns p sol] at cT ⊢
    generalize acceptP O K p = a at cS cT ⊢
    by_cases hk : (cf && K != 3) = true
    · simp only [hk, if_true]; exact ⟨h, trivial⟩
    · simp only [hk, if_false] at cS cT ⊢
      cases a with
      | none => exact ⟨h, rfl⟩
      | some q =>
        exact ⟨obs_of_fields O K (solvedState s q sol) (solvedState t q sol) rfl rfl rfl rfl
          (getW_congr O _ _ rfl rfl) (getWH_congr O _ _ rfl rfl) cS cT, rfl⟩
  | clear =>
    refine ⟨obs_of_fields O K _ _ rfl rfl rfl rfl (getW_congr O _ _ rfl rfl) (getWH_congr O _ _ rfl rfl) cS cT, rfl⟩
  | setInit a => exact ⟨h, rfl⟩
  | query => exact ⟨h, rfl⟩
  | fork => exact ⟨h, rfl⟩
  | readF => exact ⟨h, by simp only [step, h.f]⟩
  | readFullF =>
    refine ⟨(readFullF_obs O K s h.cs).trans (h.trans (readFullF_obs O K t h.ct).symm), ?_⟩
    simp only [step]
    have : (readFullF O K s).2 = (readFullF O K t).2 := h.gff
    rw [this]
  | readW =>
    refine ⟨(readW_obs O K s h.cs).trans (h.trans (readW_obs O K t h.ct).symm), ?_⟩
    simp only [step]
    have : (readW O s).2 = (readW O t).2 := h.gw
    rw [this]
  | readWH =>
    refine ⟨(readWH_obs O K s h.cs).trans (h.trans (readWH_obs O K t h.ct).symm), ?_⟩
    simp only [step]
    have : (readWH O s).2 = (readWH O t).2 := h.gwh
    rw [this]
  | readFullWH =>
    refine ⟨(readFullWH_obs O K s h.cs).trans (h.trans (readFullWH_obs O K t h.ct).symm), ?_⟩
    simp only [step]
    rw [readFullWH_spec O K s h.cs, readFullWH_spec O K t h.ct, specFullWH_congr O K s t h.gwh h.gff]
  | readFullW =>
    refine ⟨(readFullW_obs O K s h.cs).trans (h.trans (readFullW_obs O K t h.ct).symm), ?_⟩
    simp only [step]
    rw [readFullW_spec O K s h.cs, readFullW_spec O K t h.ct]
    unfold specFullW
    rw [specFullWH_congr O K s t h.gwh h.gff]
  | readNs => exact ⟨h, by simp only [step, h.ns]⟩
  | readP => exact ⟨h, by simp only [step, curP, h.p]⟩

theorem run_obs (O : Ops μ ρ) (K : Nat) :
    ∀ (ops : List (Op μ ρ)) (s t : State μ ρ), ObsEq O K s t →
      ObsEq O K (run Cfg.fixed O K s ops).1 (run Cfg.fixed O K t ops).1
      ∧ (run Cfg.fixed O K s ops).2 = (run Cfg.fixed O K t ops).2
  | [], s, t, h => ⟨h, rfl⟩
  | op :: ops, s, t, h => by
    have h1 := step_obs O K s t op h
    have h2 := run_obs O K ops _ _ h1.1
    simp only [run]
    exact ⟨h2.1, by rw [h1.2, h2.2]⟩

/-- the operation is a getter or a call of the non-mutating API -/
def Op.isPassive : Op μ ρ → Bool
  | .readF | .readFullF | .readW | .readWH | .readFullWH | .readFullW | .readNs | .readP => true
  | .query | .fork => true
  | _ => false

theorem passive_obs (O : Ops μ ρ) (K : Nat) (st : State μ ρ) (op : Op μ ρ) (hp : op.isPassive = true)
    (h : Coherent O K st) : ObsEq O K (step Cfg.fixed O K st op).1 st := by
  cases op with
  | readF => exact ObsEq.refl O K st h
  | readFullF => exact readFullF_obs O K st h
  | readW => exact readW_obs O K st h
  | readWH => exact readWH_obs O K st h
  | readFullWH => exact readFullWH_obs O K st h
  | readFullW => exact readFullW_obs O K st h
  | readNs => exact ObsEq.refl O K st h
  | readP => exact ObsEq.refl O K st h
  | query => exact ObsEq.refl O K st h
  | fork => exact ObsEq.refl O K st h
  | setP v => simp [Op.isPassive] at hp
  | randomizeF d n p => simp [Op.isPassive] at hp
  | setPrecoders a b c => simp [Op.isPassive] at hp
  | setFilters a b => simp [Op.isPassive] at hp
  | solve a b c d => simp [Op.isPassive] at hp
  | clear => simp [Op.isPassive] at hp
  | setInit a => simp [Op.isPassive] at hp

end PyPhysim.C10
