import Mathlib.Analysis.SpecialFunctions.Pow.Real
import Mathlib.Analysis.SpecialFunctions.Pow.Asymptotics
import Mathlib.Analysis.SpecialFunctions.Trigonometric.Basic
import Mathlib.Analysis.SpecialFunctions.Log.Base
import Mathlib.Tactic.Ring
import Mathlib.Tactic.Linarith
import Mathlib.Tactic.Positivity
import PyPhysim.Model.C16
import PyPhysim.Proofs.C01Psk

/-! Real-analytic lemmas for C16. `Q` is abstract (Mathlib has no `erfc`). -/
namespace PyPhysim.C16
open PyPhysim.C01 Filter Topology

noncomputable instance realFn : Fn ℝ := ⟨fun x => (10:ℝ) ^ x, Real.logb 2⟩

/-- what the proofs assume of the Gaussian tail function -/
structure IsQ (Q : ℝ → ℝ) : Prop where
  anti : Antitone Q
  zero : Q 0 = 1 / 2
  nonneg : ∀ x, 0 ≤ Q x
  lim : Tendsto Q atTop (𝓝 0)

theorem db2lin_pos (s : ℝ) : 0 < db2lin s := by
  simp only [db2lin, Fn.pow10]; positivity

theorem db2lin_mono : Monotone (db2lin (α := ℝ)) := by
  intro a b h
  simp only [db2lin, Fn.pow10]
  apply Real.rpow_le_rpow_of_exponent_le (by norm_num)
  have : ((10:Nat):ℝ) = 10 := by norm_num
  rw [this]; linarith

theorem db2lin_tendsto : Tendsto (db2lin (α := ℝ)) atTop atTop := by
  have h10 : (0:ℝ) < Real.log 10 := Real.log_pos (by norm_num)
  have : (db2lin (α := ℝ)) = fun s => Real.exp (s * (Real.log 10 / 10)) := by
    funext s
    simp only [db2lin, Fn.pow10]
    rw [Real.rpow_def_of_pos (by norm_num)]
    congr 1
    have : ((10:Nat):ℝ) = 10 := by norm_num
    rw [this]; ring
  rw [this]
  exact Real.tendsto_exp_atTop.comp (tendsto_id.atTop_mul_const (by positivity))

theorem sin_pi_div_nonneg (M : Nat) (hM : 1 ≤ M) : 0 ≤ Real.sin (Real.pi / (M:ℝ)) := by
  have hM' : (1:ℝ) ≤ M := by exact_mod_cast hM
  apply Real.sin_nonneg_of_nonneg_of_le_pi
  · positivity
  · exact div_le_self Real.pi_pos.le hM'

theorem sin_pi_div_pos (M : Nat) (hM : 2 ≤ M) : 0 < Real.sin (Real.pi / (M:ℝ)) := by
  have hM' : (2:ℝ) ≤ M := by exact_mod_cast hM
  apply Real.sin_pos_of_pos_of_lt_pi
  · positivity
  · have : (0:ℝ) < M := by linarith
    rw [div_lt_iff₀ this]
    nlinarith [Real.pi_pos]

/-- all three `Q` arguments have the shape `sqrt(a·γ)·b` with `a, b ≥ 0` -/
noncomputable def argShape (a b : ℝ) (s : ℝ) : ℝ := Real.sqrt (a * db2lin s) * b

theorem argShape_nonneg (a b : ℝ) (hb : 0 ≤ b) (s : ℝ) : 0 ≤ argShape a b s :=
  mul_nonneg (Real.sqrt_nonneg _) hb

theorem argShape_mono (a b : ℝ) (ha : 0 ≤ a) (hb : 0 ≤ b) : Monotone (argShape a b) := by
  intro s t h
  unfold argShape
  apply mul_le_mul_of_nonneg_right _ hb
  apply Real.sqrt_le_sqrt
  exact mul_le_mul_of_nonneg_left (db2lin_mono h) ha

theorem argShape_tendsto (a b : ℝ) (ha : 0 < a) (hb : 0 < b) : Tendsto (argShape a b) atTop atTop := by
  unfold argShape
  apply Tendsto.atTop_mul_const hb
  apply Real.tendsto_sqrt_atTop.comp
  exact Tendsto.const_mul_atTop ha db2lin_tendsto

theorem pskArg_eq (M : Nat) (s : ℝ) : pskArg M s = argShape 2 (Real.sin (Real.pi / (M:ℝ))) s := by
  simp [pskArg, argShape, Trig.sqrt, Trig.sin, Trig.pi]

theorem bpskArg_eq (s : ℝ) : bpskArg s = argShape 2 1 s := by
  simp [bpskArg, argShape, Trig.sqrt]

theorem qamArg_eq (M : Nat) (s : ℝ) : qamArg M s = argShape (3 / ((M:ℝ) - 1)) 1 s := by
  simp only [qamArg, argShape, Trig.sqrt, mul_one]
  congr 1
  have : ((3:Nat):ℝ) = 3 := by norm_num
  have h1 : ((1:Nat):ℝ) = 1 := by norm_num
  rw [this, h1]; ring

/-- `0 ≤ c·Q(arg) ≤ c/2` for a non-negative argument -/
theorem Q_bounds {Q : ℝ → ℝ} (hQ : IsQ Q) (x : ℝ) (hx : 0 ≤ x) : 0 ≤ Q x ∧ Q x ≤ 1 / 2 :=
  ⟨hQ.nonneg x, by rw [← hQ.zero]; exact hQ.anti hx⟩

theorem qamCoef_eq (M : Nat) : qamCoef (α := ℝ) M = 2 * (1 - 1 / Real.sqrt M) := by
  simp [qamCoef, Trig.sqrt]

theorem qamCoef_bounds (M : Nat) (hM : 1 ≤ M) : 0 ≤ qamCoef (α := ℝ) M ∧ qamCoef (α := ℝ) M < 2 := by
  rw [qamCoef_eq]
  have h1 : (1:ℝ) ≤ Real.sqrt M := by
    rw [show (1:ℝ) = Real.sqrt 1 by simp]
    exact Real.sqrt_le_sqrt (by exact_mod_cast hM)
  have hpos : 0 < Real.sqrt (M:ℝ) := by linarith
  have h2 : 1 / Real.sqrt (M:ℝ) ≤ 1 := by rw [div_le_one hpos]; exact h1
  have h3 : 0 < 1 / Real.sqrt (M:ℝ) := by positivity
  constructor <;> linarith

theorem powNat_eq (x : ℝ) (n : Nat) : powNat x n = x ^ n := by
  induction n with
  | zero => simp [powNat]
  | succ n ih => simp [powNat, ih, pow_succ]

end PyPhysim.C16
