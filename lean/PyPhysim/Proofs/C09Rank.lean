import Mathlib.LinearAlgebra.Matrix.Rank
import Mathlib.LinearAlgebra.Matrix.NonsingularInverse
import Mathlib.LinearAlgebra.Matrix.Hermitian
import Mathlib.Analysis.Matrix.Spectrum
import Mathlib.Analysis.Matrix.PosDef
import Mathlib.Order.Interval.Finset.Fin
import Mathlib.Tactic.Module
import Mathlib.Tactic.Linarith
import Mathlib.Tactic.FinCases
import Mathlib.Tactic.Ring
import PyPhysim.Proofs.C09Noise

/-!
The rank-counting argument behind "enough streams are sacrificed".

`R = pe·E Eᴴ + σ²·1` is the covariance of external interference plus noise at a
receiver with `N` antennas, `E` the `N × r` interference channel.

* `extCov_mulVec_of_ker`, `ker_of_extCov_mulVec` — the `σ²`-eigenspace of `R` is the
  kernel of `Eᴴ` (for `pe ≠ 0`; one inclusion for every `pe`);
* `finrank_ker_conjTranspose` — that kernel has dimension `N − rank E` (rank–nullity);
* `exists_orthonormal_in_noise_space` — `n ≤ N − rank E` orthonormal vectors can be
  chosen inside it (spectral theorem for `E Eᴴ`);
* `card_singular_ne_noise_le_rank`, `noise_le_singular`, `least_singular_eq_noise` —
  for ANY factorisation `R = U·diag(S)·V_H` with unitary factors and non-negative
  singular values sorted in decreasing order, at most `rank E` of the `S_i` differ from
  `σ²`, none is smaller, hence the last `N − rank E` of them are equal to `σ²`.
-/
set_option linter.unusedSectionVars false
namespace PyPhysim.BD
namespace Pf
open Matrix
open scoped ComplexOrder

section rank
variable {N n r : Nat}

/-! ### the noise eigenspace is the kernel of `Eᴴ` -/

/-- every vector orthogonal to the external interference is an eigenvector of
    `R = pe·E Eᴴ + σ²·1` for the eigenvalue `σ²` (any `pe`, any `σ²`) -/
theorem extCov_mulVec_of_ker (pe nv : ℂ) (E : Matrix (Fin N) (Fin r) ℂ) (v : Fin N → ℂ)
    (h : Eᴴ *ᵥ v = 0) : (pe • (E * Eᴴ) + nv • (1 : Matrix (Fin N) (Fin N) ℂ)) *ᵥ v = nv • v := by
  rw [add_mulVec, smul_mulVec, smul_mulVec, one_mulVec, ← mulVec_mulVec, h, mulVec_zero, smul_zero, zero_add]

/-- conversely, for `pe ≠ 0`, an eigenvector for `σ²` is orthogonal to the interference:
    `vᴴ E Eᴴ v = ‖Eᴴ v‖² = 0` -/
theorem ker_of_extCov_mulVec (pe nv : ℂ) (hpe : pe ≠ 0) (E : Matrix (Fin N) (Fin r) ℂ) (v : Fin N → ℂ)
    (h : (pe • (E * Eᴴ) + nv • (1 : Matrix (Fin N) (Fin N) ℂ)) *ᵥ v = nv • v) : Eᴴ *ᵥ v = 0 := by
  rw [add_mulVec, smul_mulVec, smul_mulVec, one_mulVec, ← mulVec_mulVec] at h
  have h0 : pe • E *ᵥ (Eᴴ *ᵥ v) = 0 := by
    have := sub_eq_zero.mpr h
    simpa using this
  have h1 : E *ᵥ (Eᴴ *ᵥ v) = 0 := by
    rcases smul_eq_zero.mp h0 with h | h
    · exact absurd h hpe
    · exact h
  have h2 : star (Eᴴ *ᵥ v) ⬝ᵥ (Eᴴ *ᵥ v) = 0 := by
    rw [star_mulVec, conjTranspose_conjTranspose, ← dotProduct_mulVec, h1, dotProduct_zero]
  exact dotProduct_star_self_eq_zero.mp h2

/-- rank–nullity for `Eᴴ`: the vectors orthogonal to the interference form a space of
    dimension `N − rank E` -/
theorem finrank_ker_conjTranspose (E : Matrix (Fin N) (Fin r) ℂ) :
    Module.finrank ℂ (LinearMap.ker Eᴴ.mulVecLin) + E.rank = N := by
  have h := LinearMap.finrank_range_add_finrank_ker Eᴴ.mulVecLin
  have hr : Module.finrank ℂ (LinearMap.range Eᴴ.mulVecLin) = E.rank := by
    rw [← rank_conjTranspose E]; rfl
  rw [hr, Module.finrank_fin_fun] at h
  omega

/-! ### `n ≤ N − rank E` orthonormal vectors inside the noise eigenspace -/

/-- there are `n` orthonormal vectors (the columns of `P`) orthogonal to the interference as
    soon as `n + rank E ≤ N` -/
theorem exists_orthonormal_ker (E : Matrix (Fin N) (Fin r) ℂ) (hn : n + E.rank ≤ N) :
    ∃ P : Matrix (Fin N) (Fin n) ℂ, Pᴴ * P = 1 ∧ Eᴴ * P = 0 := by
  classical
  have hA : (E * Eᴴ).IsHermitian := isHermitian_mul_conjTranspose_self E
  set U : Matrix (Fin N) (Fin N) ℂ := (hA.eigenvectorUnitary : Matrix (Fin N) (Fin N) ℂ) with hUdef
  set ev : Fin N → ℝ := hA.eigenvalues with hev
  have hUU : star U * U = 1 := Unitary.coe_star_mul_self hA.eigenvectorUnitary
  have hspec : E * Eᴴ = U * diagonal (fun i => ((ev i : ℝ) : ℂ)) * star U := by
    have := hA.spectral_theorem
    rw [Unitary.conjStarAlgAut_apply] at this
    exact this
  -- the number of zero eigenvalues
  have hrank : E.rank = Fintype.card {i // ev i ≠ 0} := by
    rw [← rank_self_mul_conjTranspose E]; exact hA.rank_eq_card_non_zero_eigs
  have hcard : Fintype.card (Fin n) ≤ Fintype.card {i // ev i = 0} := by
    have h1 : Fintype.card {i // ev i = 0} + Fintype.card {i // ¬ ev i = 0} = N := by
      rw [Fintype.card_subtype_compl]
      have : Fintype.card {i // ev i = 0} ≤ Fintype.card (Fin N) := Fintype.card_subtype_le _
      simp only [Fintype.card_fin] at this ⊢
      omega
    have h2 : Fintype.card {i // ¬ ev i = 0} = E.rank := by
      rw [hrank]
    rw [Fintype.card_fin]
    omega
  obtain ⟨f⟩ := Function.Embedding.nonempty_of_card_le hcard
  refine ⟨U.submatrix id (fun j => (f j).1), ?_, ?_⟩
  · -- orthonormal columns
    have : (U.submatrix id (fun j => (f j).1))ᴴ * U.submatrix id (fun j => (f j).1)
        = (star U * U).submatrix (fun j => (f j).1) (fun j => (f j).1) := by
      ext a b
      simp [Matrix.mul_apply, star_eq_conjTranspose]
    rw [this, hUU]
    ext a b
    simp only [submatrix_apply, one_apply]
    have hinj : ((f a).1 = (f b).1) ↔ a = b :=
      ⟨fun h => f.injective (Subtype.ext h), fun h => by rw [h]⟩
    simp only [hinj]
  · -- `E Eᴴ P = 0`, hence `‖Eᴴ P‖² = 0`
    have hAU : E * Eᴴ * U = U * diagonal (fun i => ((ev i : ℝ) : ℂ)) := by
      rw [hspec, Matrix.mul_assoc, hUU, Matrix.mul_one]
    have hAP : E * Eᴴ * U.submatrix id (fun j => (f j).1) = 0 := by
      have : E * Eᴴ * U.submatrix id (fun j => (f j).1) = (E * Eᴴ * U).submatrix id (fun j => (f j).1) := by
        ext a b
        simp [Matrix.mul_apply]
      rw [this, hAU]
      ext a b
      simp only [submatrix_apply, mul_diagonal, id, Matrix.zero_apply]
      rw [(f b).2]
      simp
    set P := U.submatrix id (fun j => (f j).1) with hP
    have h2 : (Eᴴ * P)ᴴ * (Eᴴ * P) = 0 := by
      rw [conjTranspose_mul, conjTranspose_conjTranspose, Matrix.mul_assoc, ← Matrix.mul_assoc E, hAP,
        Matrix.mul_zero]
    exact eq_zero_of_trace_re _ (by rw [h2]; simp)

/-- … and not more: `n` orthonormal vectors orthogonal to the interference force `n + rank E ≤ N` -/
theorem rank_room_of_orthonormal_ker (E : Matrix (Fin N) (Fin r) ℂ) (P : Matrix (Fin N) (Fin n) ℂ)
    (h1 : Pᴴ * P = 1) (h2 : Eᴴ * P = 0) : n + E.rank ≤ N := by
  have hrank : P.rank = n := by
    rw [← rank_conjTranspose_mul_self P, h1, rank_one, Fintype.card_fin]
  have hle : LinearMap.range P.mulVecLin ≤ LinearMap.ker Eᴴ.mulVecLin := by
    rintro x ⟨y, rfl⟩
    rw [LinearMap.mem_ker, mulVecLin_apply, mulVecLin_apply, mulVec_mulVec, h2, zero_mulVec]
  have h3 := Submodule.finrank_mono hle
  have h4 := finrank_ker_conjTranspose E
  have h5 : Module.finrank ℂ (LinearMap.range P.mulVecLin) = n := hrank
  omega

/-! ### singular values of `R = pe·E Eᴴ + σ²·1` under the SVD contract -/

theorem diag_gram_re_nonneg {m k : Nat} (X : Matrix (Fin m) (Fin k) ℂ) (i : Fin k) : 0 ≤ ((Xᴴ * X) i i).re := by
  simp only [Matrix.mul_apply, conjTranspose_apply, Complex.re_sum]
  refine Finset.sum_nonneg (fun a _ => ?_)
  rw [Complex.star_def, mul_comm, Complex.mul_conj]
  simp [Complex.normSq_nonneg]

section svd
variable (pe nv : ℝ) (E : Matrix (Fin N) (Fin r) ℂ) (U VH : Matrix (Fin N) (Fin N) ℂ) (S : Fin N → ℝ)

/-- `Rᴴ R = R R = V (Σ²) V_H`: from the factorisation, `Uᴴ U = 1` and `R` Hermitian -/
theorem extCov_sq_of_svd
    (hsvd : (pe : ℂ) • (E * Eᴴ) + (nv : ℂ) • (1 : Matrix (Fin N) (Fin N) ℂ) = U * diagonal (fun i => ((S i : ℝ) : ℂ)) * VH)
    (hU : Uᴴ * U = 1) :
    ((pe : ℂ) • (E * Eᴴ) + (nv : ℂ) • (1 : Matrix (Fin N) (Fin N) ℂ)) * ((pe : ℂ) • (E * Eᴴ) + (nv : ℂ) • 1)
      = VHᴴ * diagonal (fun i => (((S i) ^ 2 : ℝ) : ℂ)) * VH := by
  set R : Matrix (Fin N) (Fin N) ℂ := (pe : ℂ) • (E * Eᴴ) + (nv : ℂ) • 1 with hR
  set D : Matrix (Fin N) (Fin N) ℂ := diagonal (fun i => ((S i : ℝ) : ℂ)) with hD
  have hDstar : Dᴴ = D := by
    rw [hD, diagonal_conjTranspose]; congr 1; funext i; simp
  have hRherm : Rᴴ = R := by
    rw [hR]
    simp only [conjTranspose_add, conjTranspose_smul, conjTranspose_mul, conjTranspose_conjTranspose,
      conjTranspose_one, Complex.star_def, Complex.conj_ofReal]
  have hDD : D * D = diagonal (fun i => (((S i) ^ 2 : ℝ) : ℂ)) := by
    rw [hD, diagonal_mul_diagonal]; congr 1; funext i; push_cast; ring
  calc R * R = Rᴴ * R := by rw [hRherm]
    _ = VHᴴ * D * (Uᴴ * U) * D * VH := by
        rw [hsvd, conjTranspose_mul, conjTranspose_mul, hDstar]; simp only [Matrix.mul_assoc]
    _ = VHᴴ * (D * D) * VH := by rw [hU, Matrix.mul_one]; simp only [Matrix.mul_assoc]
    _ = _ := by rw [hDD]

/-- counting: at most `rank E` singular values of `R` differ from the noise variance -/
theorem card_singular_ne_noise_le_rank (hnv : 0 ≤ nv) (hS0 : ∀ i, 0 ≤ S i)
    (hsvd : (pe : ℂ) • (E * Eᴴ) + (nv : ℂ) • (1 : Matrix (Fin N) (Fin N) ℂ) = U * diagonal (fun i => ((S i : ℝ) : ℂ)) * VH)
    (hU : Uᴴ * U = 1) (hV : VH * VHᴴ = 1) :
    (Finset.univ.filter (fun i => S i ≠ nv)).card ≤ E.rank := by
  classical
  have hsq := extCov_sq_of_svd pe nv E U VH S hsvd hU
  set B : Matrix (Fin N) (Fin N) ℂ := (pe : ℂ) • (E * Eᴴ) with hB
  have hV' : VHᴴ * VH = 1 := mul_eq_one_comm.mp hV
  -- `R R − σ⁴·1` in two ways
  have h1 : (B + (nv : ℂ) • (1 : Matrix (Fin N) (Fin N) ℂ)) * (B + (nv : ℂ) • 1) - ((nv ^ 2 : ℝ) : ℂ) • 1
      = E * (((pe : ℂ) • Eᴴ) * (B + ((2 * nv : ℝ) : ℂ) • 1)) := by
    rw [← Matrix.mul_assoc, Matrix.mul_smul, ← hB]
    simp only [add_mul, mul_add, Matrix.smul_mul, Matrix.mul_smul, Matrix.one_mul, Matrix.mul_one, smul_smul]
    push_cast
    module
  have h2 : (B + (nv : ℂ) • (1 : Matrix (Fin N) (Fin N) ℂ)) * (B + (nv : ℂ) • 1) - ((nv ^ 2 : ℝ) : ℂ) • 1
      = VHᴴ * diagonal (fun i => (((S i) ^ 2 - nv ^ 2 : ℝ) : ℂ)) * VH := by
    rw [hsq]
    have : diagonal (fun i => (((S i) ^ 2 - nv ^ 2 : ℝ) : ℂ))
        = diagonal (fun i => (((S i) ^ 2 : ℝ) : ℂ)) - ((nv ^ 2 : ℝ) : ℂ) • (1 : Matrix (Fin N) (Fin N) ℂ) := by
      ext a b
      by_cases hab : a = b
      · subst hab; simp
      · simp [hab]
    rw [this, Matrix.mul_sub, Matrix.sub_mul, Matrix.mul_smul, Matrix.mul_one, Matrix.smul_mul, hV']
  have hdet : IsUnit VH.det := isUnit_det_of_right_inverse hV
  have hdet' : IsUnit VHᴴ.det := isUnit_det_of_left_inverse hV
  have hrk : (diagonal (fun i => (((S i) ^ 2 - nv ^ 2 : ℝ) : ℂ))).rank ≤ E.rank := by
    have := rank_mul_le_left E (((pe : ℂ) • Eᴴ) * (B + ((2 * nv : ℝ) : ℂ) • 1))
    rw [← h1, h2, rank_mul_eq_left_of_isUnit_det _ _ hdet, rank_mul_eq_right_of_isUnit_det _ _ hdet'] at this
    exact this
  rw [rank_diagonal, Fintype.card_subtype] at hrk
  refine le_trans (Finset.card_le_card ?_) hrk
  intro i hi
  simp only [Finset.mem_filter, Finset.mem_univ, true_and] at hi ⊢
  intro h0
  apply hi
  have h0' : (S i) ^ 2 - nv ^ 2 = 0 := by exact_mod_cast h0
  have : (S i - nv) * (S i + nv) = 0 := by ring_nf; ring_nf at h0'; linarith
  rcases mul_eq_zero.mp this with h | h
  · linarith
  · have := hS0 i; have hS : S i = 0 := by linarith
    have hn0 : nv = 0 := by linarith
    rw [hS, hn0]

/-- no singular value of `R` is below the noise variance (`pe ≥ 0`: `R − σ²·1` is positive
    semidefinite) -/
theorem noise_le_singular (hpe : 0 ≤ pe) (hnv : 0 ≤ nv) (hS0 : ∀ i, 0 ≤ S i)
    (hsvd : (pe : ℂ) • (E * Eᴴ) + (nv : ℂ) • (1 : Matrix (Fin N) (Fin N) ℂ) = U * diagonal (fun i => ((S i : ℝ) : ℂ)) * VH)
    (hU : Uᴴ * U = 1) (hV : VH * VHᴴ = 1) (i : Fin N) : nv ≤ S i := by
  have hsq := extCov_sq_of_svd pe nv E U VH S hsvd hU
  set B : Matrix (Fin N) (Fin N) ℂ := (pe : ℂ) • (E * Eᴴ) with hB
  have hBherm : Bᴴ = B := by
    rw [hB]
    simp only [conjTranspose_smul, conjTranspose_mul, conjTranspose_conjTranspose, Complex.star_def,
      Complex.conj_ofReal]
  -- `V_H R R V = Σ²`
  have hdiag : VH * ((B + (nv : ℂ) • (1 : Matrix (Fin N) (Fin N) ℂ)) * (B + (nv : ℂ) • 1)) * VHᴴ
      = diagonal (fun i => (((S i) ^ 2 : ℝ) : ℂ)) := by
    rw [hsq]
    calc VH * (VHᴴ * diagonal (fun i => (((S i) ^ 2 : ℝ) : ℂ)) * VH) * VHᴴ
        = (VH * VHᴴ) * diagonal (fun i => (((S i) ^ 2 : ℝ) : ℂ)) * (VH * VHᴴ) := by simp only [Matrix.mul_assoc]
      _ = _ := by rw [hV, Matrix.one_mul, Matrix.mul_one]
  have hexp : VH * ((B + (nv : ℂ) • (1 : Matrix (Fin N) (Fin N) ℂ)) * (B + (nv : ℂ) • 1)) * VHᴴ
      = (B * VHᴴ)ᴴ * (B * VHᴴ) + ((2 * nv * pe : ℝ) : ℂ) • ((Eᴴ * VHᴴ)ᴴ * (Eᴴ * VHᴴ)) + ((nv ^ 2 : ℝ) : ℂ) • 1 := by
    have e1 : (B * VHᴴ)ᴴ * (B * VHᴴ) = VH * (B * B) * VHᴴ := by
      rw [conjTranspose_mul, conjTranspose_conjTranspose, hBherm]; simp only [Matrix.mul_assoc]
    have e2 : ((2 * nv * pe : ℝ) : ℂ) • ((Eᴴ * VHᴴ)ᴴ * (Eᴴ * VHᴴ)) = ((2 * nv : ℝ) : ℂ) • (VH * B * VHᴴ) := by
      rw [conjTranspose_mul, conjTranspose_conjTranspose, conjTranspose_conjTranspose, hB]
      simp only [Matrix.mul_assoc, Matrix.mul_smul, Matrix.smul_mul, smul_smul]
      push_cast
      ring_nf
    have e3 : ((nv ^ 2 : ℝ) : ℂ) • (1 : Matrix (Fin N) (Fin N) ℂ) = ((nv ^ 2 : ℝ) : ℂ) • (VH * VHᴴ) := by rw [hV]
    rw [e1, e2, e3]
    simp only [add_mul, mul_add, Matrix.smul_mul, Matrix.mul_smul, Matrix.one_mul, Matrix.mul_one, smul_smul]
    push_cast
    module
  have hentry := congrFun (congrFun (hexp.symm.trans hdiag) i) i
  have hre := congrArg Complex.re hentry
  simp only [Matrix.add_apply, Matrix.smul_apply, smul_eq_mul, Complex.add_re, Complex.re_ofReal_mul,
    diagonal_apply_eq, Complex.ofReal_re, one_apply_eq, mul_one] at hre
  have a := diag_gram_re_nonneg (B * VHᴴ) i
  have b := diag_gram_re_nonneg (Eᴴ * VHᴴ) i
  have hsq2 : nv ^ 2 ≤ S i ^ 2 := by
    have : 0 ≤ 2 * nv * pe * (((Eᴴ * VHᴴ)ᴴ * (Eᴴ * VHᴴ)) i i).re := mul_nonneg (by positivity) b
    linarith
  exact (sq_le_sq₀ hnv (hS0 i)).mp hsq2

end svd

/-- sorted singular values: if none is below `σ²`, they decrease along the index and at least
    `n` of them equal `σ²`, then the LAST `n` equal `σ²` -/
theorem last_eq_of_sorted (S : Fin N → ℝ) (nv : ℝ) (hn : n ≤ N) (hsort : ∀ i j : Fin N, i ≤ j → S j ≤ S i)
    (hlow : ∀ i, nv ≤ S i) (hcount : n ≤ (Finset.univ.filter (fun i => S i = nv)).card) (j : Fin n) :
    S (revIdx hn j) = nv := by
  by_contra hne
  have hgt : nv < S (revIdx hn j) := lt_of_le_of_ne (hlow _) (Ne.symm hne)
  have hsub : Finset.univ.filter (fun i => S i = nv) ⊆ Finset.Ioi (revIdx hn j) := by
    intro i hi
    simp only [Finset.mem_filter, Finset.mem_univ, true_and] at hi
    rw [Finset.mem_Ioi]
    by_contra hle
    have := hsort i (revIdx hn j) (not_lt.mp hle)
    linarith
  have hc := Finset.card_le_card hsub
  rw [Fin.card_Ioi] at hc
  have : (revIdx hn j).val = N - 1 - j.val := rfl
  have := j.isLt
  omega

/-- **the rank-counting step**: under the SVD contract (unitary factors, non-negative singular
    values in decreasing order) and `n + rank E ≤ N`, the `n` smallest singular values of
    `R = pe·E Eᴴ + σ²·1` are equal to the noise variance -/
theorem least_singular_eq_noise (pe nv : ℝ) (hpe : 0 ≤ pe) (hnv : 0 ≤ nv) (E : Matrix (Fin N) (Fin r) ℂ)
    (U VH : Matrix (Fin N) (Fin N) ℂ) (S : Fin N → ℝ) (hn : n ≤ N)
    (hsvd : (pe : ℂ) • (E * Eᴴ) + (nv : ℂ) • (1 : Matrix (Fin N) (Fin N) ℂ) = U * diagonal (fun i => ((S i : ℝ) : ℂ)) * VH)
    (hU : Uᴴ * U = 1) (hV : VH * VHᴴ = 1) (hS0 : ∀ i, 0 ≤ S i) (hsort : ∀ i j : Fin N, i ≤ j → S j ≤ S i)
    (hrank : n + E.rank ≤ N) (j : Fin n) : S (revIdx hn j) = nv := by
  classical
  apply last_eq_of_sorted S nv hn hsort (noise_le_singular pe nv E U VH S hpe hnv hS0 hsvd hU hV)
  have h1 := card_singular_ne_noise_le_rank pe nv E U VH S hnv hS0 hsvd hU hV
  have h2 := Finset.card_filter_add_card_filter_not (s := (Finset.univ : Finset (Fin N))) (fun i => S i = nv)
  simp only [Finset.card_univ, Fintype.card_fin] at h2
  have h3 : (Finset.univ.filter (fun i => ¬ S i = nv)).card = (Finset.univ.filter (fun i => S i ≠ nv)).card := rfl
  omega

/-! ### the SVD contract is satisfiable for every receiver -/

/-- every `R = pe·E Eᴴ + σ²·1` (`pe ≥ 0`, `σ² ≥ 0`) HAS a factorisation with the whole SVD contract
    (unitary factors, non-negative singular values in decreasing order): the spectral decomposition
    of the positive semidefinite matrix `R`, eigenvalues sorted -/
theorem exists_sorted_svd (pe nv : ℝ) (hpe : 0 ≤ pe) (hnv : 0 ≤ nv) (E : Matrix (Fin N) (Fin r) ℂ) :
    ∃ (U VH : Matrix (Fin N) (Fin N) ℂ) (S : Fin N → ℝ),
      (pe : ℂ) • (E * Eᴴ) + (nv : ℂ) • (1 : Matrix (Fin N) (Fin N) ℂ) = U * diagonal (fun i => ((S i : ℝ) : ℂ)) * VH ∧
      Uᴴ * U = 1 ∧ VH * VHᴴ = 1 ∧ (∀ i, 0 ≤ S i) ∧ ∀ i j : Fin N, i ≤ j → S j ≤ S i := by
  classical
  set R : Matrix (Fin N) (Fin N) ℂ := (pe : ℂ) • (E * Eᴴ) + (nv : ℂ) • 1 with hR
  have hpsd : R.PosSemidef :=
    ((posSemidef_self_mul_conjTranspose E).smul (Complex.zero_le_real.mpr hpe)).add
      (PosSemidef.one.smul (Complex.zero_le_real.mpr hnv))
  have hA : R.IsHermitian := hpsd.1
  set U0 : Matrix (Fin N) (Fin N) ℂ := (hA.eigenvectorUnitary : Matrix (Fin N) (Fin N) ℂ) with hU0
  have hUU : star U0 * U0 = 1 := Unitary.coe_star_mul_self hA.eigenvectorUnitary
  have hspec : R = U0 * diagonal (fun i => ((hA.eigenvalues i : ℝ) : ℂ)) * star U0 := by
    have := hA.spectral_theorem
    rw [Unitary.conjStarAlgAut_apply] at this
    exact this
  -- order-preserving re-indexing of the (sorted) eigenvalues
  let e : Fin (Fintype.card (Fin N)) ≃ Fin N := Fintype.equivOfCardEq (Fintype.card_fin _)
  let c : Fin N ≃ Fin (Fintype.card (Fin N)) := finCongr (Fintype.card_fin N).symm
  let σ : Fin N ≃ Fin N := c.trans e
  have hev : ∀ i, hA.eigenvalues (σ i) = hA.eigenvalues₀ (c i) := by
    intro i
    show hA.eigenvalues₀ (e.symm (e (c i))) = _
    rw [Equiv.symm_apply_apply]
  set U : Matrix (Fin N) (Fin N) ℂ := U0.submatrix id σ with hU
  have hUU' : Uᴴ * U = 1 := by
    have : Uᴴ * U = (star U0 * U0).submatrix σ σ := by
      ext a b
      simp [hU, Matrix.mul_apply, star_eq_conjTranspose]
    rw [this, hUU]
    ext a b
    simp [one_apply]
  refine ⟨U, Uᴴ, fun i => hA.eigenvalues (σ i), ?_, hUU', ?_, fun i => hpsd.eigenvalues_nonneg _, ?_⟩
  · refine hspec.trans ?_
    have key : ∀ (A B : Matrix (Fin N) (Fin N) ℂ) (d : Fin N → ℂ) (a b : Fin N),
        (A * diagonal d * B) a b = ∑ k, A a k * d k * B k b := by
      intro A B d a b
      rw [Matrix.mul_apply]
      simp only [mul_diagonal]
    ext a b
    rw [key, key]
    simp only [star_eq_conjTranspose, conjTranspose_apply, hU, submatrix_apply, id]
    exact (Equiv.sum_comp σ (fun k => U0 a k * ((hA.eigenvalues k : ℝ) : ℂ) * star (U0 b k))).symm
  · rw [conjTranspose_conjTranspose]; exact hUU'
  · intro i j hij
    show hA.eigenvalues (σ j) ≤ hA.eigenvalues (σ i)
    rw [hev, hev]
    apply hA.eigenvalues₀_antitone
    show (c i).val ≤ (c j).val
    simpa [c] using hij

/-! ### model-level statements (`Mat ℂ`, `covExtInt`, `reductionMatrix`) -/

theorem toM_ofReal_scale {m k : Nat} (nv : ℝ) (P : Mat ℂ m k) :
    toM (fun i j => Cx.ofReal nv * P i j : Mat ℂ m k) = (nv : ℂ) • toM P := by
  ext i j; simp [Cx.ofReal]

theorem toM_zero {m k : Nat} : toM (fun (_ : Fin m) (_ : Fin k) => (0 : ℂ)) = 0 := rfl

theorem rank_le_antennas (E : Mat ℂ N r) : (toM E).rank ≤ N := by
  have := rank_le_card_height (toM E); simpa using this

/-- `n ≤ N − rank E` orthonormal reduction vectors exist inside the noise eigenspace -/
theorem exists_reduction_in_noise_space (pe nv : ℝ) (E : Mat ℂ N r) (hn : n ≤ N - (toM E).rank) :
    ∃ P : Mat ℂ N n, matMul (cT P) P = eye ∧ matMul (cT E) P = (fun _ _ => 0) ∧
      matMul (covExtInt pe nv E) P = fun i j => Cx.ofReal nv * P i j := by
  have hle := rank_le_antennas E
  obtain ⟨P', h1, h2⟩ := exists_orthonormal_ker (n := n) (toM E) (by omega)
  refine ⟨fun i j => P' i j, ?_, ?_, ?_⟩
  · apply toM_inj
    rw [toM_matMul, toM_cT, toM_eye]; exact h1
  · apply toM_inj
    rw [toM_matMul, toM_cT, toM_zero]; exact h2
  · apply toM_inj
    rw [toM_matMul, toM_covExtInt, toM_ofReal_scale, Matrix.add_mul, Matrix.smul_mul, Matrix.smul_mul, Matrix.one_mul,
      Matrix.mul_assoc]
    have : (toM E)ᴴ * toM (fun i j => P' i j : Mat ℂ N n) = 0 := h2
    rw [this, Matrix.mul_zero, smul_zero, zero_add]

/-- no more than `N − rank E` orthonormal vectors fit into the noise eigenspace (`pe ≠ 0`) -/
theorem room_of_reduction_in_noise_space (pe nv : ℝ) (hpe : pe ≠ 0) (E : Mat ℂ N r) (P : Mat ℂ N n)
    (h1 : matMul (cT P) P = eye) (h2 : matMul (covExtInt pe nv E) P = fun i j => Cx.ofReal nv * P i j) :
    n ≤ N - (toM E).rank := by
  have h3 := (noise_eigenspace_iff pe nv hpe E P).mp h2
  have h1' := congrArg toM h1
  have h3' := congrArg toM h3
  rw [toM_matMul, toM_cT, toM_eye] at h1'
  rw [toM_matMul, toM_cT, toM_zero] at h3'
  have := rank_room_of_orthonormal_ker (toM E) (toM P) h1' h3'
  omega

/-- for ANY matrix `P` inside the noise eigenspace (`Re P = σ² P`) and any `M`, the filter
    `W = M Pᴴ` sees the noise only: `W Re Wᴴ = σ² W Wᴴ` -/
theorem filter_cov_noise_only {s : Nat} (pe nv : ℝ) (E : Mat ℂ N r) (P : Mat ℂ N n) (M : Mat ℂ s n)
    (hP : matMul (covExtInt pe nv E) P = fun i j => Cx.ofReal nv * P i j) :
    matMul (matMul M (cT P)) (matMul (covExtInt pe nv E) (cT (matMul M (cT P)))) =
      fun i j => Cx.ofReal nv * matMul (matMul M (cT P)) (cT (matMul M (cT P))) i j := by
  have hP' := congrArg toM hP
  rw [toM_matMul, toM_ofReal_scale] at hP'
  apply toM_inj
  rw [toM_ofReal_scale]
  simp only [toM_matMul, toM_cT, conjTranspose_mul, conjTranspose_conjTranspose]
  rw [← Matrix.mul_assoc (toM (covExtInt pe nv E)), hP', Matrix.smul_mul, Matrix.mul_smul]

/-- a filter `W = M Pᴴ` built on a matrix orthogonal to the interference annihilates it -/
theorem filter_kills_ext {s : Nat} (E : Mat ℂ N r) (P : Mat ℂ N n) (M : Mat ℂ s n)
    (h : matMul (cT E) P = fun _ _ => 0) : matMul (matMul M (cT P)) E = fun _ _ => 0 := by
  have h' := congrArg toM h
  rw [toM_matMul, toM_cT, toM_zero] at h'
  have hPE : (toM P)ᴴ * toM E = 0 := by
    have := congrArg conjTranspose h'
    simpa [conjTranspose_mul] using this
  apply toM_inj
  rw [toM_matMul, toM_matMul, toM_cT, toM_zero, Matrix.mul_assoc, hPE, Matrix.mul_zero]

/-- the rank-counting step at the model level: the hypothesis `hS` of
    `leastCols_noise_eigenspace` follows from the SVD contract with sorted non-negative singular
    values and `n ≤ N − rank E` -/
theorem least_singular_eq_noise_model (pe nv : ℝ) (hpe : 0 ≤ pe) (hnv : 0 ≤ nv) (E : Mat ℂ N r)
    (U VH : Mat ℂ N N) (S : Fin N → ℝ) (hn : n ≤ N)
    (hsvd : covExtInt pe nv E = matMul (matMul U (diagM (fun i => Cx.ofReal (S i)))) VH)
    (hU : matMul (cT U) U = eye) (hV : matMul VH (cT VH) = eye)
    (hS0 : ∀ i, 0 ≤ S i) (hsort : ∀ i j : Fin N, i ≤ j → S j ≤ S i)
    (hrank : n ≤ N - (toM E).rank) (j : Fin n) : S (revIdx hn j) = nv := by
  have hle := rank_le_antennas E
  have hsvd' : (pe : ℂ) • (toM E * (toM E)ᴴ) + (nv : ℂ) • (1 : Matrix (Fin N) (Fin N) ℂ)
      = toM U * diagonal (fun i => ((S i : ℝ) : ℂ)) * toM VH := by
    rw [← toM_covExtInt, hsvd]; simp only [toM_matMul, toM_diagM]; rfl
  have hU' : (toM U)ᴴ * toM U = 1 := by
    have := congrArg toM hU; simpa only [toM_matMul, toM_cT, toM_eye] using this
  have hV' : toM VH * (toM VH)ᴴ = 1 := by
    have := congrArg toM hV; simpa only [toM_matMul, toM_cT, toM_eye] using this
  exact least_singular_eq_noise pe nv hpe hnv (toM E) (toM U) (toM VH) S hn hsvd' hU' hV' hS0 hsort (by omega) j

/-- the SVD contract used by the C09 theorems is satisfiable for EVERY interference channel -/
theorem exists_sorted_svd_model (pe nv : ℝ) (hpe : 0 ≤ pe) (hnv : 0 ≤ nv) (E : Mat ℂ N r) :
    ∃ (U VH : Mat ℂ N N) (S : Fin N → ℝ),
      covExtInt pe nv E = matMul (matMul U (diagM (fun i => Cx.ofReal (S i)))) VH ∧
      matMul (cT U) U = eye ∧ matMul VH (cT VH) = eye ∧ (∀ i, 0 ≤ S i) ∧ ∀ i j : Fin N, i ≤ j → S j ≤ S i := by
  obtain ⟨U, VH, S, h1, h2, h3, h4, h5⟩ := exists_sorted_svd pe nv hpe hnv (toM E)
  refine ⟨fun i j => U i j, fun i j => VH i j, S, ?_, ?_, ?_, h4, h5⟩
  · apply toM_inj
    rw [toM_covExtInt, h1]
    simp only [toM_matMul, toM_diagM]
    rfl
  · apply toM_inj
    rw [toM_matMul, toM_cT, toM_eye]; exact h2
  · apply toM_inj
    rw [toM_matMul, toM_cT, toM_eye]; exact h3

/-! ### a concrete instance: `N = 3` antennas, one interferer, `n = 2` streams kept -/
namespace Ex3
/-- `E = (2i, 0, 0)ᵀ` -/
noncomputable def E : Mat ℂ 3 1 := fun i _ => if i.val = 0 then ⟨0, 2⟩ else 0
/-- singular values of `Re = diag(4·pe + σ², σ², σ²)` -/
def S (pe nv : ℝ) : Fin 3 → ℝ := fun i => if i.val = 0 then 4 * pe + nv else nv

theorem rank_le_one : (toM E).rank ≤ 1 := rank_le_width (toM E)

theorem two_streams : 2 ≤ 3 - (toM E).rank := by have := rank_le_one; omega

theorem svd (pe nv : ℝ) :
    covExtInt pe nv E = matMul (matMul (eye : Mat ℂ 3 3) (diagM (fun i => Cx.ofReal (S pe nv i)))) eye := by
  rw [matMul_eye, eye_matMul]
  funext i j
  simp only [covExtInt, matMul_apply, cT, Cx.conj, Cx.ofReal, eye, diagM, E, S]
  fin_cases i <;> fin_cases j <;> (simp [Complex.ext_iff]; try ring)

theorem unitary : matMul (cT (eye : Mat ℂ 3 3)) eye = eye ∧ matMul (eye : Mat ℂ 3 3) (cT eye) = eye := by
  have h : cT (eye : Mat ℂ 3 3) = eye := by
    funext i j
    simp only [cT, eye, Cx.conj]
    by_cases h : i = j
    · subst h; simp
    · have : ¬ j = i := fun e => h e.symm
      simp [h, this]
  rw [h, matMul_eye]
  exact ⟨rfl, rfl⟩

theorem S_nonneg (pe nv : ℝ) (hpe : 0 ≤ pe) (hnv : 0 ≤ nv) (i : Fin 3) : 0 ≤ S pe nv i := by
  unfold S; split <;> nlinarith

theorem S_sorted (pe nv : ℝ) (hpe : 0 ≤ pe) (i j : Fin 3) (hij : i ≤ j) : S pe nv j ≤ S pe nv i := by
  unfold S
  have : i.val ≤ j.val := hij
  by_cases hi : i.val = 0 <;> by_cases hj : j.val = 0 <;> simp [hi, hj] <;> first | linarith | omega

/-! the same receiver with the interferer on the LAST antenna and the singular values listed in
    increasing order: everything but the ordering clause of the SVD contract holds -/
noncomputable def E' : Mat ℂ 3 1 := fun i _ => if i.val = 2 then ⟨0, 2⟩ else 0
def S' (pe nv : ℝ) : Fin 3 → ℝ := fun i => if i.val = 2 then 4 * pe + nv else nv

theorem two_streams' : 2 ≤ 3 - (toM E').rank := by have := rank_le_width (toM E'); omega

theorem svd' (pe nv : ℝ) :
    covExtInt pe nv E' = matMul (matMul (eye : Mat ℂ 3 3) (diagM (fun i => Cx.ofReal (S' pe nv i)))) eye := by
  rw [matMul_eye, eye_matMul]
  funext i j
  simp only [covExtInt, matMul_apply, cT, Cx.conj, Cx.ofReal, eye, diagM, E', S']
  fin_cases i <;> fin_cases j <;> (simp [Complex.ext_iff]; try ring)

theorem S'_nonneg (pe nv : ℝ) (hpe : 0 ≤ pe) (hnv : 0 ≤ nv) (i : Fin 3) : 0 ≤ S' pe nv i := by
  unfold S'; split <;> nlinarith

theorem S'_last (pe nv : ℝ) (hpe : 0 < pe) : S' pe nv (revIdx (by norm_num : 2 ≤ 3) (0 : Fin 2)) ≠ nv := by
  simp only [S', revIdx]
  norm_num
  linarith

end Ex3

end rank
end Pf
end PyPhysim.BD
