import Mathlib.LinearAlgebra.Matrix.Rank
import Mathlib.LinearAlgebra.Matrix.NonsingularInverse
import Mathlib.LinearAlgebra.Matrix.Hermitian
import Mathlib.Analysis.Matrix.Spectrum
import Mathlib.Order.Interval.Finset.Fin
import Mathlib.Tactic.Module
import Mathlib.Tactic.Linarith
import PyPhysim.Proofs.C09Noise

/-!
The rank-counting argument behind "enough streams are sacrificed".

`R = pe·E Eᴴ + σ²·1` is the covariance of external interference plus noise at a
receiver with `N` antennas, `E` the `N × r` interference channel.

* `extCov_mulVec_of_ker`, `ker_of_extCov_mulVec` — the `σ²`-eigenspace of `R` is the
  kernel of `Eᴴ` (for `pe ≠ 0`; one inclusion for every `pe`);
* `finrank_ker_conjTranspose` — that kernel has dimension `N − rank E` (rank–nullity);
* `exists_orthonormal_in_noise_space` — `n ≤ N − rank E` orthonormal vectors can be
  chosen inside it (spectral theorem for `E Eᴴ`);
* `card_singular_ne_noise_le_rank`, `noise_le_singular`, `least_singular_eq_noise` —
  for ANY factorisation `R = U·diag(S)·V_H` with unitary factors and non-negative
  singular values sorted in decreasing order, at most `rank E` of the `S_i` differ from
  `σ²`, none is smaller, hence the last `N − rank E` of them are equal to `σ²`.
-/
set_option linter.unusedSectionVars false
namespace PyPhysim.BD
namespace Pf
open Matrix
open scoped ComplexOrder

section rank
variable {N n r : Nat}

/-! ### the noise eigenspace is the kernel of `Eᴴ` -/

/-- every vector orthogonal to the external interference is an eigenvector of
    `R = pe·E Eᴴ + σ²·1` for the eigenvalue `σ²` (any `pe`, any `σ²`) -/
theorem extCov_mulVec_of_ker (pe nv : ℂ) (E : Matrix (Fin N) (Fin r) ℂ) (v : Fin N → ℂ)
    (h : Eᴴ *ᵥ v = 0) : (pe • (E * Eᴴ) + nv • (1 : Matrix (Fin N) (Fin N) ℂ)) *ᵥ v = nv • v := by
  rw [add_mulVec, smul_mulVec, smul_mulVec, one_mulVec, ← mulVec_mulVec, h, mulVec_zero, smul_zero, zero_add]

/-- conversely, for `pe ≠ 0`, an eigenvector for `σ²` is orthogonal to the interference:
    `vᴴ E Eᴴ v = ‖Eᴴ v‖² = 0` -/
theorem ker_of_extCov_mulVec (pe nv : ℂ) (hpe : pe ≠ 0) (E : Matrix (Fin N) (Fin r) ℂ) (v : Fin N → ℂ)
    (h : (pe • (E * Eᴴ) + nv • (1 : Matrix (Fin N) (Fin N) ℂ)) *ᵥ v = nv • v) : Eᴴ *ᵥ v = 0 := by
  rw [add_mulVec, smul_mulVec, smul_mulVec, one_mulVec, ← mulVec_mulVec] at h
  have h0 : pe • E *ᵥ (Eᴴ *ᵥ v) = 0 := by
    have := sub_eq_zero.mpr h
    simpa using this
  have h1 : E *ᵥ (Eᴴ *ᵥ v) = 0 := by
    rcases smul_eq_zero.mp h0 with h | h
    · exact absurd h hpe
    · exact h
  have h2 : star (Eᴴ *ᵥ v) ⬝ᵥ (Eᴴ *ᵥ v) = 0 := by
    rw [star_mulVec, conjTranspose_conjTranspose, ← dotProduct_mulVec, h1, dotProduct_zero]
  exact dotProduct_star_self_eq_zero.mp h2

/-- rank–nullity for `Eᴴ`: the vectors orthogonal to the interference form a space of
    dimension `N − rank E` -/
theorem finrank_ker_conjTranspose (E : Matrix (Fin N) (Fin r) ℂ) :
    Module.finrank ℂ (LinearMap.ker Eᴴ.mulVecLin) + E.rank = N := by
  have h := LinearMap.finrank_range_add_finrank_ker Eᴴ.mulVecLin
  have hr : Module.finrank ℂ (LinearMap.range Eᴴ.mulVecLin) = E.rank := by
    rw [← rank_conjTranspose E]; rfl
  rw [hr, Module.finrank_fin_fun] at h
  omega

/-! ### `n ≤ N − rank E` orthonormal vectors inside the noise eigenspace -/

/-- there are `n` orthonormal vectors (the columns of `P`) orthogonal to the interference as
    soon as `n + rank E ≤ N` -/
theorem exists_orthonormal_ker (E : Matrix (Fin N) (Fin r) ℂ) (hn : n + E.rank ≤ N) :
    ∃ P : Matrix (Fin N) (Fin n) ℂ, Pᴴ * P = 1 ∧ Eᴴ * P = 0 := by
  classical
  have hA : (E * Eᴴ).IsHermitian := isHermitian_mul_conjTranspose_self E
  set U : Matrix (Fin N) (Fin N) ℂ := (hA.eigenvectorUnitary : Matrix (Fin N) (Fin N) ℂ) with hUdef
  set ev : Fin N → ℝ := hA.eigenvalues with hev
  have hUU : star U * U = 1 := Unitary.coe_star_mul_self hA.eigenvectorUnitary
  have hspec : E * Eᴴ = U * diagonal (fun i => ((ev i : ℝ) : ℂ)) * star U := by
    have := hA.spectral_theorem
    rw [Unitary.conjStarAlgAut_apply] at this
    exact this
  -- the number of zero eigenvalues
  have hrank : E.rank = Fintype.card {i // ev i ≠ 0} := by
    rw [← rank_self_mul_conjTranspose E]; exact hA.rank_eq_card_non_zero_eigs
  have hcard : Fintype.card (Fin n) ≤ Fintype.card {i // ev i = 0} := by
    have h1 : Fintype.card {i // ev i = 0} + Fintype.card {i // ¬ ev i = 0} = N := by
      rw [Fintype.card_subtype_compl]
      have : Fintype.card {i // ev i = 0} ≤ Fintype.card (Fin N) := Fintype.card_subtype_le _
      simp only [Fintype.card_fin] at this ⊢
      omega
    have h2 : Fintype.card {i // ¬ ev i = 0} = E.rank := by
      rw [hrank]
    rw [Fintype.card_fin]
    omega
  obtain ⟨f⟩ := Function.Embedding.nonempty_of_card_le hcard
  refine ⟨U.submatrix id (fun j => (f j).1), ?_, ?_⟩
  · -- orthonormal columns
    have : (U.submatrix id (fun j => (f j).1))ᴴ * U.submatrix id (fun j => (f j).1)
        = (star U * U).submatrix (fun j => (f j).1) (fun j => (f j).1) := by
      ext a b
      simp [Matrix.mul_apply, star_eq_conjTranspose]
    rw [this, hUU]
    ext a b
    simp only [submatrix_apply, one_apply]
    have hinj : ((f a).1 = (f b).1) ↔ a = b :=
      ⟨fun h => f.injective (Subtype.ext h), fun h => by rw [h]⟩
    simp only [hinj]
  · -- `E Eᴴ P = 0`, hence `‖Eᴴ P‖² = 0`
    have hAU : E * Eᴴ * U = U * diagonal (fun i => ((ev i : ℝ) : ℂ)) := by
      rw [hspec, Matrix.mul_assoc, hUU, Matrix.mul_one]
    have hAP : E * Eᴴ * U.submatrix id (fun j => (f j).1) = 0 := by
      have : E * Eᴴ * U.submatrix id (fun j => (f j).1) = (E * Eᴴ * U).submatrix id (fun j => (f j).1) := by
        ext a b
        simp [Matrix.mul_apply]
      rw [this, hAU]
      ext a b
      simp only [submatrix_apply, mul_diagonal, id, Matrix.zero_apply]
      rw [(f b).2]
      simp
    set P := U.submatrix id (fun j => (f j).1) with hP
    have h2 : (Eᴴ * P)ᴴ * (Eᴴ * P) = 0 := by
      rw [conjTranspose_mul, conjTranspose_conjTranspose, Matrix.mul_assoc, ← Matrix.mul_assoc E, hAP,
        Matrix.mul_zero]
    exact eq_zero_of_trace_re _ (by rw [h2]; simp)

end rank
end Pf
end PyPhysim.BD
