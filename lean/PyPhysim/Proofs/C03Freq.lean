import PyPhysim.Proofs.C03Tdl

/-!
# C03 — helper lemmas for the frequency-domain transmission
(block schedule of the fading generator, concatenated response, per-block multiply)
-/
namespace PyPhysim.C03
open PyPhysim.Proto

/-! ## the regenerated schedule constants -/

theorem samplesPerBlock_eq (fft : Nat) : (Generated.samplesPerBlock fft).toNat = 1 := rfl

theorem skipPerBlock_eq (fft : Nat) : Generated.skipPerBlock fft = (fft : Int) - 1 := rfl

/-- fading positions consumed per block: `fft` for Jakes (1 generated + `fft-1` skipped), 1 for Rayleigh -/
def stride (jakes : Bool) (fft : Nat) : Nat := if jakes then fft else 1

theorem nextBlockPos_eq (jakes : Bool) (fft pos : Nat) (hfft : 0 < fft) :
    nextBlockPos jakes fft pos = pos + stride jakes fft := by
  unfold nextBlockPos stride
  rw [samplesPerBlock_eq, skipPerBlock_eq]
  cases jakes
  · simp
  · simp only [if_true]
    omega

theorem blockEndPos_eq (jakes : Bool) (fft : Nat) (hfft : 0 < fft) (nb pos : Nat) :
    blockEndPos jakes fft nb pos = pos + nb * stride jakes fft := by
  induction nb generalizing pos with
  | zero => simp [blockEndPos]
  | succ nb ih =>
    rw [blockEndPos, ih, nextBlockPos_eq _ _ _ hfft]
    ring

section
variable {β : Type}

theorem tab_succ (n : Nat) (f : Nat → β) : tab (n + 1) f = f 0 :: tab n (fun i => f (i + 1)) := by
  simp [tab, List.range_succ_eq_map, Function.comp_def]

theorem tab_flatMap {γ : Type} (n : Nat) (f : Nat → β) (g : β → List γ) :
    (tab n f).flatMap g = (List.range n).flatMap (fun b => g (f b)) := by
  unfold tab
  rw [List.flatMap_map]

theorem zipWith_map_same {ι γ δ ε : Type} (f : γ → δ → ε) (g : ι → γ) (h : ι → δ) (l : List ι) :
    List.zipWith f (l.map g) (l.map h) = l.map (fun x => f (g x) (h x)) := by
  rw [List.zipWith_map, List.zipWith_self]

theorem map_eq_zipIdx_map (ps : List β) {γ : Type} (g : β → γ) :
    ps.map g = ps.zipIdx.map (fun pq => g pq.1) := by
  apply List.ext_getElem?
  intro i
  simp [List.getElem?_zipIdx, Function.comp_def]

theorem tab_eq_zipIdx_map (ps : List β) {γ : Type} (g : Nat → γ) :
    tab ps.length g = ps.zipIdx.map (fun pq => g pq.2) := by
  apply List.ext_getElem?
  intro i
  rw [getElem?_tab, List.getElem?_map, List.getElem?_zipIdx]
  by_cases h : i < ps.length
  · simp [h]
  · simp [h, List.getElem?_eq_none (Nat.le_of_not_lt h)]

end

variable {α : Type} [CommSemiring α]

theorem blockIRs_eq (proc : Proc α) (c : Tdl α) (fft : Nat) (hfft : 0 < fft) (nb pos : Nat) :
    blockIRs proc c fft nb pos = tab nb (fun b => genIR proc c (pos + b * stride c.jakes fft) 1) := by
  induction nb generalizing pos with
  | zero => simp [blockIRs, tab]
  | succ nb ih =>
    rw [blockIRs, ih, nextBlockPos_eq _ _ _ hfft, tab_succ, samplesPerBlock_eq]
    simp only [Nat.zero_mul, Nat.add_zero]
    congr 1
    unfold tab
    apply List.map_congr_left
    intro b _
    congr 1
    ring

/-! ## concatenation of one-sample responses -/

theorem concatVal_tab (i : Nat) (G : Nat → IR α) (hn : ∀ b, (G b).n = 1) (nb : Nat) (r t b : Nat) (hb : b < nb) :
    concatVal i (tab nb G) r t b = (match (G b).vals[i]? with | some h => h r t 0 | none => 0) := by
  induction nb generalizing G b with
  | zero => omega
  | succ nb ih =>
    rw [tab_succ, concatVal, hn 0]
    cases b with
    | zero =>
      rw [if_pos Nat.zero_lt_one]
      cases (G 0).vals[i]? <;> rfl
    | succ b =>
      have : ¬ (b + 1 < 1) := by omega
      simp only [this, if_false, Nat.add_sub_cancel]
      exact ih (fun i => G (i + 1)) (fun b => hn (b + 1)) b (by omega)

theorem foldl_n_tab (G : Nat → IR α) (hn : ∀ b, (G b).n = 1) (nb s : Nat) :
    (tab nb G).foldl (fun s j => s + j.n) s = s + nb := by
  induction nb generalizing G s with
  | zero => simp [tab]
  | succ nb ih =>
    rw [tab_succ, List.foldl_cons, ih (fun i => G (i + 1)) (fun b => hn (b + 1)), hn 0]
    omega

/-- `concatenate_samples` of `nb ≥ 1` one-sample responses sharing delays and tap count:
    sample `b` of the result is sample 0 of the `b`-th operand -/
theorem concatIR_tab (G : Nat → IR α) (hn : ∀ b, (G b).n = 1) (ds : List Nat) (hd : ∀ b, (G b).delays = ds)
    (L : Nat) (hL : ∀ b, (G b).vals.length = L) (nb : Nat) (hnb : 0 < nb) :
    ∃ last, concatIR (tab nb G) = .ok last ∧ last.n = nb ∧ last.delays = ds ∧ last.vals.length = L ∧
      ∀ r t b, b < nb → last.vals.map (fun h => h r t b) = (G b).vals.map (fun h => h r t 0) := by
  obtain ⟨k, rfl⟩ : ∃ k, nb = k + 1 := ⟨nb - 1, by omega⟩
  cases k with
  | zero =>
    refine ⟨G 0, by simp [tab, concatIR], hn 0, hd 0, hL 0, ?_⟩
    intro r t b hb
    have : b = 0 := by omega
    subst this
    rfl
  | succ k =>
    refine ⟨{ n := (tab (k + 2) G).foldl (fun s j => s + j.n) 0, delays := (G 0).delays,
              vals := tab (G 0).vals.length (fun i => concatVal i (tab (k + 2) G)) }, ?_, ?_, hd 0, ?_, ?_⟩
    · rw [tab_succ, tab_succ]
      simp [concatIR]
    · show (tab (k + 2) G).foldl (fun s j => s + j.n) 0 = k + 1 + 1
      rw [foldl_n_tab G hn]
      omega
    · simp [tab_length, hL 0]
    · intro r t b hb
      apply List.ext_getElem?
      intro i
      simp only [List.getElem?_map, getElem?_tab, hL 0]
      by_cases hi : i < L
      · simp only [hi, if_true, Option.map_some]
        rw [concatVal_tab i G hn (k + 2) r t b hb]
        have : i < (G b).vals.length := by rw [hL b]; exact hi
        rw [List.getElem?_eq_getElem this]
        simp
      · simp only [hi, if_false, Option.map_none]
        have : (G b).vals.length ≤ i := by rw [hL b]; omega
        rw [List.getElem?_eq_none this]
        rfl

/-! ## per-block multiplication -/

theorem blk_bound (b nb B : Nat) (hb : b < nb) : b * B + B ≤ nb * B := by
  calc b * B + B = (b + 1) * B := by ring
    _ ≤ nb * B := Nat.mul_le_mul_right _ hb

theorem blk_tab (N B b : Nat) (xf : Nat → α) (h : b * B + B ≤ N) :
    blk (tab N xf) B b = tab B (fun q => xf (b * B + q)) := by
  unfold blk
  apply List.ext_getElem?
  intro q
  rw [List.getElem?_take, List.getElem?_drop, getElem?_tab, getElem?_tab]
  by_cases hq : q < B
  · have : b * B + q < N := by omega
    simp [hq, this]
  · simp [hq]

/-- `freq_response * signal[block]` with `|ps| = B` selected carriers -/
theorem zipWith_hsel_blk (ps : List Nat) (f : Nat → α) (g : Nat → α) :
    List.zipWith (· * ·) (ps.map f) (tab ps.length g) = ps.zipIdx.map (fun pq => f pq.1 * g pq.2) := by
  rw [map_eq_zipIdx_map ps f, tab_eq_zipIdx_map ps g, zipWith_map_same]

theorem zeros_eq_zipIdx_map (ps : List Nat) : (zeros ps.length : List α) = ps.zipIdx.map (fun _ => 0) := by
  rw [List.map_const', List.length_zipIdx]
  rfl

theorem foldl_zipWith_add {ι κ : Type} (l : List κ) (as : List ι) (F : ι → κ → α) (g : κ → α) :
    as.foldl (fun acc a => List.zipWith (· + ·) acc (l.map (F a))) (l.map g)
      = l.map (fun pq => g pq + (as.map (fun a => F a pq)).sum) := by
  induction as generalizing g with
  | nil => simp
  | cons a as ih =>
    rw [List.foldl_cons, zipWith_map_same, ih]
    apply List.map_congr_left
    intro pq _
    simp [add_assoc]

/-- SISO frequency-domain output in closed form, for any list of per-block responses `G b` -/
theorem freqSiso_tab (fftK : Fft α) (G : Nat → IR α) (fft : Nat) (ps : List Nat) (nb : Nat) (xf : Nat → α) :
    freqSiso fftK (tab nb G) fft ps ps.length (tab (nb * ps.length) xf)
      = (List.range nb).flatMap (fun b => ps.zipIdx.map (fun pq =>
          fftK ((G b).denseAt 0 0 0) fft pq.1 * xf (b * ps.length + pq.2))) := by
  unfold freqSiso
  rw [tab_zipIdx, tab_flatMap]
  apply List.flatMap_congr
  intro b hb
  rw [List.mem_range] at hb
  simp only [hSel]
  rw [blk_tab _ _ _ _ (blk_bound _ _ _ hb),
    zipWith_hsel_blk]

theorem freqRowBlock_tab (fftK : Fft α) (sw : Bool) (ir : IR α) (fft : Nat) (ps : List Nat) (b nb nIn j : Nat)
    (hb : b < nb) (xf : Nat → Nat → α) :
    freqRowBlock fftK sw ir fft ps ps.length b nIn j (tab nIn (fun a => tab (nb * ps.length) (xf a)))
      = ps.zipIdx.map (fun pq => ((List.range nIn).map (fun a =>
          fftK (if sw then ir.denseAt a j 0 else ir.denseAt j a 0) fft pq.1 * xf a (b * ps.length + pq.2))).sum) := by
  unfold freqRowBlock
  rw [tab_take, tab_zipIdx, zeros_eq_zipIdx_map]
  have hblk : ∀ a, blk (tab (nb * ps.length) (xf a)) ps.length b = tab ps.length (fun q => xf a (b * ps.length + q)) :=
    fun a => blk_tab _ _ _ _ (blk_bound _ _ _ hb)
  have hstep : ∀ (acc : List α) (xa : List α × Nat), xa ∈ tab nIn (fun a => (tab (nb * ps.length) (xf a), a)) →
      List.zipWith (· + ·) acc (List.zipWith (· * ·)
          (if sw then hSel fftK ir fft ps xa.2 j else hSel fftK ir fft ps j xa.2) (blk xa.1 ps.length b))
        = List.zipWith (· + ·) acc (ps.zipIdx.map (fun pq =>
            fftK (if sw then ir.denseAt xa.2 j 0 else ir.denseAt j xa.2 0) fft pq.1 * xf xa.2 (b * ps.length + pq.2))) := by
    intro acc xa hxa
    simp only [tab, List.mem_map, List.mem_range] at hxa
    obtain ⟨a, _, rfl⟩ := hxa
    have := hblk a
    simp only [tab] at this
    simp only [this]
    cases sw <;> simp only [hSel, Bool.false_eq_true, if_false, if_true] <;>
      exact congrArg _ (zipWith_hsel_blk ps _ _)
  rw [List.foldl_ext _ _ _ hstep]
  unfold tab
  rw [List.foldl_map]
  have := foldl_zipWith_add ps.zipIdx (List.range nIn)
    (fun a pq => fftK (if sw then ir.denseAt a j 0 else ir.denseAt j a 0) fft pq.1 * xf a (b * ps.length + pq.2))
    (fun _ => (0 : α))
  simp only [zero_add] at this
  exact this

/-- MIMO frequency-domain output in closed form -/
theorem freqMimo_tab (fftK : Fft α) (sw : Bool) (G : Nat → IR α) (fft : Nat) (ps : List Nat) (nb nOut nIn : Nat)
    (xf : Nat → Nat → α) :
    freqMimo fftK sw (tab nb G) fft ps ps.length nOut nIn (tab nIn (fun a => tab (nb * ps.length) (xf a)))
      = tab nOut (fun j => (List.range nb).flatMap (fun b => ps.zipIdx.map (fun pq =>
          ((List.range nIn).map (fun a =>
            fftK (if sw then (G b).denseAt a j 0 else (G b).denseAt j a 0) fft pq.1
              * xf a (b * ps.length + pq.2))).sum))) := by
  unfold freqMimo
  unfold tab
  apply List.map_congr_left
  intro j _
  have := tab_zipIdx nb G
  unfold tab at this
  rw [this, List.flatMap_map]
  apply List.flatMap_congr
  intro b hb
  rw [List.mem_range] at hb
  have := freqRowBlock_tab fftK sw (G b) fft ps b nb nIn j hb xf
  unfold tab at this
  exact this

end PyPhysim.C03
