import PyPhysim.Proofs.C06Heap

/-! C06: `append_result` / `append_all_results` never touch a Result object; appending to an
existing name extends that list object in place. -/
namespace PyPhysim.C06M
open PyPhysim.Proto

theorem addResult_res (m : Mach) (s a : Nat) : (addResult m s a).1.res = m.res := by
  unfold addResult; split <;> simp [allocList, setDict]

theorem appendResult_res (m : Mach) (s a : Nat) : (appendResult m s a).1.res = m.res := by
  unfold appendResult
  split
  · rfl
  · split
    · exact addResult_res m s a
    · split
      · rfl
      · split
        · rfl
        · split <;> simp [setList]

theorem appendElems_res (s : Nat) (m : Mach) (as : List Nat) : (appendElems s m as).1.res = m.res := by
  induction as generalizing m with
  | nil => rfl
  | cons a rest ih =>
    unfold appendElems
    have h := appendResult_res m s a
    split
    · rename_i m' hm; rw [hm] at h; rw [ih m']; exact h
    · rename_i m' e hm; rw [hm] at h; exact h

theorem appendLists_res (s : Nat) (m : Mach) (d : List (String × Nat)) :
    (appendLists s m d).1.res = m.res := by
  induction d generalizing m with
  | nil => rfl
  | cons e rest ih =>
    obtain ⟨nm, l⟩ := e
    unfold appendLists
    split
    · rfl
    · have h := appendElems_res s m (listAt m l)
      split
      · rename_i m' hm; rw [hm] at h; rw [ih m']; exact h
      · rename_i m' e hm; rw [hm] at h; exact h

/-- `append_all_results` changes no Result object at all (it only extends / creates lists) -/
theorem appendAll_res (m : Mach) (s o : Nat) : (appendAll m s o).1.res = m.res := by
  unfold appendAll; split
  · exact appendLists_res s m _
  · rfl

/-- appending results of one name and type to the list `s` already has under that name extends
    that list object in place, in order; nothing raises -/
theorem appendElems_concat (s : Nat) (m : Mach) (as : List Nat) (nm : String) (ls a0 : Nat) (tl : List Nat)
    (r0 : Res) (hd : dictGet? (dictOf m s) nm = some ls) (hl : listAt m ls = a0 :: tl)
    (hlt : ls < m.lists.length) (hr0 : m.res[a0]? = some r0)
    (has : ∀ a ∈ as, ∃ r, m.res[a]? = some r ∧ r.name = nm ∧ r.ty = r0.ty) :
    (appendElems s m as).2 = none ∧ (appendElems s m as).1.sims = m.sims
      ∧ (appendElems s m as).1.lists = m.lists.set ls (a0 :: tl ++ as) := by
  induction as generalizing m tl with
  | nil =>
    refine ⟨rfl, rfl, ?_⟩
    simp only [appendElems, List.append_nil]
    have : m.lists[ls]? = some (a0 :: tl) := by
      simp only [listAt] at hl
      cases h : m.lists[ls]? with
      | none => simp [h] at hl
      | some xs => simp [h] at hl; rw [hl]
    have hget : m.lists[ls] = a0 :: tl := by
      rw [List.getElem?_eq_getElem hlt] at this; exact Option.some.inj this
    rw [← hget, List.set_getElem_self]
  | cons a rest ih =>
    obtain ⟨r, hr, hn, ht⟩ := has a (by simp)
    have hstep : appendResult m s a = (setList m ls (a0 :: tl ++ [a]), none) := by
      simp [appendResult, hr, hn, hd, hl, hr0, ht]
    simp only [appendElems, hstep]
    have hl' : listAt (setList m ls (a0 :: tl ++ [a])) ls = a0 :: (tl ++ [a]) := by
      simp [listAt, setList, hlt]
    obtain ⟨i1, i2, i3⟩ := ih (setList m ls (a0 :: tl ++ [a])) (tl ++ [a])
      (by simpa [dictOf, setList] using hd) hl' (by simpa [setList] using hlt)
      (by simpa [setList] using hr0)
      (fun a' h' => by simpa [setList] using has a' (by simp [h']))
    refine ⟨i1, by rw [i2]; rfl, ?_⟩
    rw [i3]
    simp [setList, List.append_assoc]

theorem dictGet?_dictSet_self (d : Dict) (k : String) (l : Nat) : dictGet? (dictSet d k l) k = some l := by
  induction d with
  | nil => simp [dictSet, dictGet?]
  | cons e rest ih =>
    obtain ⟨k', l'⟩ := e
    by_cases h : k' = k
    · simp [dictSet, dictGet?, h]
    · simp [dictSet, dictGet?, h, ih]

theorem dictSet_append' {d : Dict} {k : String} {l : Nat} (h : dictGet? d k = none) :
    dictSet d k l = d ++ [(k, l)] := by
  induction d with
  | nil => rfl
  | cons e rest ih =>
    obtain ⟨k', l'⟩ := e
    simp only [dictGet?] at h
    split at h
    · cases h
    · rename_i hne
      simp [dictSet, hne, ih h]

/-- appending results of a name `self` does not have yet creates one new list object holding
    exactly these results, in order, under a new last key; nothing raises -/
theorem appendElems_new_name (s : Nat) (m : Mach) (a : Nat) (rest : List Nat) (nm : String) (r : Res)
    (hs : s < m.sims.length) (hd : dictGet? (dictOf m s) nm = none) (hr : m.res[a]? = some r)
    (hn : r.name = nm)
    (has : ∀ a' ∈ rest, ∃ r', m.res[a']? = some r' ∧ r'.name = nm ∧ r'.ty = r.ty) :
    (appendElems s m (a :: rest)).2 = none
      ∧ (appendElems s m (a :: rest)).1.res = m.res
      ∧ (appendElems s m (a :: rest)).1.lists = m.lists ++ [a :: rest]
      ∧ dictOf (appendElems s m (a :: rest)).1 s = dictOf m s ++ [(nm, m.lists.length)]
      ∧ ∀ j, j ≠ s → (appendElems s m (a :: rest)).1.sims[j]? = m.sims[j]? := by
  have hstep : appendResult m s a
      = (setDict (allocList m [a]).1 s (dictSet (dictOf (allocList m [a]).1 s) nm (allocList m [a]).2), none) := by
    simp [appendResult, hr, hn, hd, addResult]
  set m1 := setDict (allocList m [a]).1 s (dictSet (dictOf (allocList m [a]).1 s) nm (allocList m [a]).2)
    with hm1
  have hs1 : s < (allocList m [a]).1.sims.length := by simpa [allocList] using hs
  have hd1 : dictOf m1 s = dictOf m s ++ [(nm, m.lists.length)] := by
    rw [hm1, dictOf_setDict _ _ _ hs1]
    have : dictOf (allocList m [a]).1 s = dictOf m s := by simp [dictOf, allocList]
    rw [this, show (allocList m [a]).2 = m.lists.length from rfl, dictSet_append' hd]
  have hg : dictGet? (dictOf m1 s) nm = some m.lists.length := by
    rw [hm1, dictOf_setDict _ _ _ hs1]
    exact dictGet?_dictSet_self _ _ _
  have hl1 : listAt m1 m.lists.length = [a] := by simp [hm1, listAt, setDict, allocList]
  obtain ⟨i1, i2, i3⟩ := appendElems_concat s m1 rest nm m.lists.length a [] r hg hl1
    (by simp [hm1, setDict, allocList]) (by simpa [hm1, setDict, allocList] using hr)
    (fun a' h' => by simpa [hm1, setDict, allocList] using has a' h')
  simp only [appendElems, hstep]
  refine ⟨i1, ?_, ?_, ?_, ?_⟩
  · rw [appendElems_res]; simp [hm1, setDict, allocList]
  · rw [i3]; simp [hm1, setDict, allocList]
  · simp only [dictOf, i2]; exact hd1
  · intro j hj
    rw [i2]
    simp [hm1, setDict, allocList, Ne.symm hj]

end PyPhysim.C06M
