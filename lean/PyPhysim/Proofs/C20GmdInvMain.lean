import PyPhysim.Proofs.C20GmdInvLoop

/-!
# `gmd` — the sweep of the array model: outer loop, final column, result

`sweep_ok`: from a state with the right shape satisfying `Inv 0`, `j ≤ p − 1` iterations of the
array model return `.ok` a state with the same shape satisfying `Inv j` (induction; each iteration
is `gmdStep_refines` + `Inv.step`, the bounds come from `Inv.bounds`).
`finish_ok`: the statements after the loop (`R[p-1, p-1] = σ̄`, `R[0:p-1, p-1] = z`) return `.ok`.
-/
set_option linter.unusedSectionVars false
set_option linter.unusedVariables false
set_option linter.unusedSimpArgs false
namespace PyPhysim.LinAlg.GmdInv
open PyPhysim.Proto PyPhysim.LinAlg Matrix

variable {K : Type} [Field K] [StarRing K] [RSqrt K] [LE K] [DecidableLE K]

theorem sweep_ok {ι : ℝ →+* K} (hι : RealLike ι) (m n p : Nat) (A : Matrix (Fin m) (Fin n) K) (S : Nat → ℝ)
    (sb : ℝ) (st0 : GmdState K)
    (sh0 : Shape m n p st0) (inv0 : Inv ι m n p A S sb 0 (absSt st0)) (hpm : p ≤ m) (hpn : p ≤ n)
    (hsb : 0 < sb) (Spos : ∀ r, r < p → 0 < S r) (Smono : ∀ r r', r ≤ r' → r' < p → S r' ≤ S r) :
    ∀ j, j ≤ p - 1 → ∃ st, (List.range j).foldlM (fun st k => gmdStep (ι sb) k st) st0 = .ok st ∧
      Shape m n p st ∧ Inv ι m n p A S sb j (absSt st) := by
  intro j
  induction j with
  | zero => intro _; exact ⟨st0, rfl, sh0, inv0⟩
  | succ j ih =>
    intro hj
    obtain ⟨st, hst, sh, inv⟩ := ih (by omega)
    have hk : j + 1 < p := by omega
    obtain ⟨b1, b2, b3, b4, b5⟩ := inv.bounds hk
    obtain ⟨st', hst', sh', e⟩ := gmdStep_refines (ι sb) m n p j st sh hpm hpn hk b1 b2 b3 b4 b5
    refine ⟨st', ?_, sh', ?_⟩
    · rw [List.range_succ, List.foldlM_append, hst]
      simp only [ok_bind, List.foldlM_cons, List.foldlM_nil, hst']
      rfl
    · rw [e]
      exact inv.step hι hpm hpn hk hsb Spos Smono

/-- the last loop of `gmd`: `R[0:p-1, p-1] = z` -/
theorem lastCol_ok (m n q : Nat) (R : Array (Array K)) (z : Array K)
    (hR : R.size = m) (hrow : ∀ i, i < m → (cget R i).size = n) (hqz : q ≤ z.size) (hqm : q ≤ m)
    (hqn : q < n) :
    ∃ R', (List.range q).foldlM (fun (R : Array (Array K)) t => do
        let zt ← idx z t
        let row ← idx R t
        let row ← upd row q zt
        upd R t row) R = (.ok R' : Except PyErr _) ∧ R'.size = m ∧ (∀ i, i < m → (cget R' i).size = n) ∧
      (∀ a b, entryRows R' a b = if b = q ∧ a < q then vget z a else entryRows R a b) := by
  suffices h : ∀ t0, t0 ≤ q → ∃ R', (List.range t0).foldlM (fun (R : Array (Array K)) t => do
        let zt ← idx z t
        let row ← idx R t
        let row ← upd row q zt
        upd R t row) R = (.ok R' : Except PyErr _) ∧ R'.size = m ∧ (∀ i, i < m → (cget R' i).size = n) ∧
      (∀ a b, entryRows R' a b = if b = q ∧ a < t0 then vget z a else entryRows R a b) from h q (le_refl q)
  intro t0
  induction t0 with
  | zero => intro _; exact ⟨R, by simp, hR, hrow, by simp⟩
  | succ t0 ih =>
    intro ht
    obtain ⟨R1, h1, hR1, hrow1, hv1⟩ := ih (by omega)
    refine ⟨R1.set! t0 ((cget R1 t0).set! q (vget z t0)), ?_, ?_, ?_, ?_⟩
    · rw [List.range_succ, List.foldlM_append, h1]
      simp only [ok_bind, List.foldlM_cons, List.foldlM_nil]
      rw [idx_v _ _ (by omega), ok_bind, idx_c _ _ (by omega), ok_bind,
        upd_ok _ _ _ (by rw [hrow1 t0 (by omega)]; exact hqn), ok_bind, upd_ok _ _ _ (by omega), ok_bind]
      rfl
    · simpa using hR1
    · intro i hi
      rw [cget_set _ _ _ _ (by omega)]
      split
      · simp [hrow1 t0 (by omega)]
      · exact hrow1 i hi
    · intro a b
      rw [entryRows_eq, cget_set _ _ _ _ (by omega)]
      by_cases ha : a = t0
      · subst ha
        rw [if_pos rfl, vget_set _ _ _ _ (by rw [hrow1 a (by omega)]; exact hqn)]
        by_cases hb : b = q
        · simp [hb]
        · simp only [hb, false_and, if_false]
          rw [← entryRows_eq, hv1]; simp [hb]
      · rw [if_neg ha, ← entryRows_eq, hv1]
        by_cases hb : b = q
        · have : a < t0 + 1 ↔ a < t0 := by omega
          simp [hb, this]
        · simp [hb]

/-- the part of `gmd` after the sweep, as a function of the final state -/
def finishM (p : Nat) (sb : K) (st : GmdState K) :
    Except PyErr (Array (Array K) × Array (Array K) × Array (Array K) × K) := do
  let row ← idx st.R (p - 1)
  let row ← upd row (p - 1) sb
  let R ← upd st.R (p - 1) row
  let R ← (List.range (p - 1)).foldlM (fun (R : Array (Array K)) t => do
      let zt ← idx st.z t
      let row ← idx R t
      let row ← upd row (p - 1) zt
      upd R t row) R
  pure (st.Q, R, st.P, st.margin)

theorem finish_ok (m n p : Nat) (sb : K) (st : GmdState K) (sh : Shape m n p st) (hp : 1 ≤ p)
    (hpm : p ≤ m) (hpn : p ≤ n) :
    ∃ R', finishM p sb st = .ok (st.Q, R', st.P, st.margin) ∧
      (∀ a b, entryRows R' a b = if b = p - 1 ∧ a < p - 1 then vget st.z a
        else if a = p - 1 ∧ b = p - 1 then sb else entryRows st.R a b) := by
  have hR1 : (st.R.set! (p - 1) ((cget st.R (p - 1)).set! (p - 1) sb)).size = m := by simp [sh.R]
  have hR1row : ∀ i, i < m → (cget (st.R.set! (p - 1) ((cget st.R (p - 1)).set! (p - 1) sb)) i).size = n := by
    intro i hi
    rw [cget_set _ _ _ _ (by rw [sh.R]; omega)]
    split
    · simp [sh.Rrow (p - 1) (by omega)]
    · exact sh.Rrow i hi
  obtain ⟨R', h1, _, _, hv⟩ := lastCol_ok m n (p - 1) _ st.z hR1 hR1row (by rw [sh.z]) (by omega) (by omega)
  refine ⟨R', ?_, ?_⟩
  · unfold finishM
    rw [idx_c _ _ (by rw [sh.R]; omega), ok_bind, upd_ok _ _ _ (by rw [sh.Rrow _ (by omega)]; omega), ok_bind,
      upd_ok _ _ _ (by rw [sh.R]; omega), ok_bind, h1]
    rfl
  · intro a b
    rw [hv]
    by_cases c1 : b = p - 1 ∧ a < p - 1
    · rw [if_pos c1, if_pos c1]
    · rw [if_neg c1, if_neg c1, entryRows_eq, cget_set _ _ _ _ (by rw [sh.R]; omega)]
      by_cases h2 : a = p - 1
      · rw [if_pos h2, vget_set _ _ _ _ (by rw [sh.Rrow _ (by omega)]; omega)]
        by_cases h3 : b = p - 1
        · simp [h2, h3]
        · simp [h2, h3, entryRows_eq]
      · simp [h2, entryRows_eq]

/-- the invariant after the last iteration gives the decomposition, column by column:
    `A · P[:, b] = Σ_a R[a, b] · Q[:, a]` with the final `R` upper triangular with diagonal `σ̄` -/
theorem Inv.final {ι : ℝ →+* K} {m n p : Nat} {A : Matrix (Fin m) (Fin n) K} {S : Nat → ℝ} {sb : ℝ}
    {g : GA K}
    (h : Inv ι m n p A S sb (p - 1) g) (hp : 1 ≤ p) (hpm : p ≤ m) (hpn : p ≤ n) (Rf : Nat → Nat → K)
    (hRf : ∀ a b, Rf a b = if b = p - 1 ∧ a < p - 1 then g.z a
      else if a = p - 1 ∧ b = p - 1 then ι sb else g.R a b) :
    (∀ b, b < n → A *ᵥ colv n g.P b = ∑ a ∈ Finset.range m, Rf a b • colv m g.Q a) ∧
    (∀ a b, b < a → Rf a b = 0) ∧ (∀ a, a < p → Rf a a = ι sb) := by
  obtain ⟨dr, hd, bi⟩ := h.bi
  have hR0 : ∀ a b, ¬ ((a ≤ b ∧ b < p - 1) ∨ (a = p - 1 ∧ b = p - 1)) → g.R a b = 0 := by
    intro a b hn
    by_contra hne
    exact hn (h.mi.rT a b hne)
  have hdk : g.d (p - 1) = ι sb := by
    have h1 := bi.prod
    have h2 := bi.cnt
    have e : g.small + 1 = g.large := by omega
    rw [e, Finset.Ico_self, Finset.prod_empty, mul_one] at h1
    rw [hd, h1, show p - (p - 1) = 1 by omega, pow_one]
  refine ⟨?_, ?_, ?_⟩
  · intro b hb
    by_cases hb1 : b < p - 1
    · rw [h.mi.c1 b hb1]
      have hsub : Finset.range (b + 1) ⊆ Finset.range m := by
        intro x hx; have := Finset.mem_range.mp hx; exact Finset.mem_range.mpr (by omega)
      rw [← Finset.sum_subset hsub]
      · apply Finset.sum_congr rfl
        intro a ha
        have n1 : ¬ b = p - 1 := by omega
        rw [hRf a b]; simp only [n1, false_and, and_false, if_false]
      · intro a ha1 ha2
        have : ¬ a < b + 1 := fun hh => ha2 (Finset.mem_range.mpr hh)
        have n1 : ¬ b = p - 1 := by omega
        rw [hRf a b]; simp only [n1, false_and, and_false, if_false]
        rw [hR0 a b (by omega), zero_smul]
    · by_cases hb2 : b = p - 1
      · rw [hb2, h.mi.c2, hdk]
        have hsub : Finset.range (p - 1 + 1) ⊆ Finset.range m := by
          intro x hx; have := Finset.mem_range.mp hx; exact Finset.mem_range.mpr (by omega)
        rw [← Finset.sum_subset hsub, Finset.sum_range_succ]
        · congr 1
          · apply Finset.sum_congr rfl
            intro a ha
            have := Finset.mem_range.mp ha
            rw [hRf a (p - 1)]; simp only [this, and_self, if_true]
          · rw [hRf (p - 1) (p - 1)]; simp
        · intro a ha1 ha2
          have : ¬ a < p - 1 + 1 := fun hh => ha2 (Finset.mem_range.mpr hh)
          have n1 : ¬ a < p - 1 := by omega
          have n2 : ¬ a = p - 1 := by omega
          rw [hRf a (p - 1)]; simp only [n1, n2, false_and, and_false, if_false]
          rw [hR0 a (p - 1) (by omega), zero_smul]
      · rw [h.mi.c4 b (by omega) hb]
        symm
        apply Finset.sum_eq_zero
        intro a _
        rw [hRf a b]; simp only [hb2, false_and, and_false, if_false]
        rw [hR0 a b (by omega), zero_smul]
  · intro a b hba
    rw [hRf a b]
    have n1 : ¬ (b = p - 1 ∧ a < p - 1) := by omega
    have n2 : ¬ (a = p - 1 ∧ b = p - 1) := by omega
    simp only [n1, n2, if_false]
    exact hR0 a b (by omega)
  · intro a ha
    rw [hRf a a]
    by_cases h1 : a = p - 1
    · simp [h1]
    · have n1 : ¬ (a = p - 1 ∧ a < p - 1) := by omega
      simp only [n1, h1, false_and, if_false]
      exact h.mi.rD a (by omega)

end PyPhysim.LinAlg.GmdInv
