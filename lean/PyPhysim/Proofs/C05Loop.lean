import PyPhysim.Model.C05Spec

/-! Helper lemmas for C05: the repetition loop against its fold specification. -/
namespace PyPhysim.C05

variable {R : Type}

/-- one loop iteration, by outcome -/
def stepOut (merge : R → R → R) (s : VarState R) : Outcome R → VarState R
  | .ok r => stepOk merge s r
  | .skip => stepSkip s

theorem after_nil (merge : R → R → R) (s : VarState R) : after merge s [] = s := by
  cases s; simp [after, oks, skips]

theorem after_cons (merge : R → R → R) (s : VarState R) (o : Outcome R) (p : List (Outcome R)) :
    after merge s (o :: p) = after merge (stepOut merge s o) p := by
  cases o with
  | ok r =>
    simp only [after, oks, skips, stepOut, stepOk, List.foldl_cons, List.length_cons, VarState.mk.injEq]
    refine ⟨trivial, ?_, trivial, ?_⟩ <;> omega
  | skip =>
    simp only [after, oks, skips, stepOut, stepSkip, List.length_cons, VarState.mk.injEq]
    refine ⟨trivial, trivial, ?_, ?_⟩ <;> omega

theorem after_append (merge : R → R → R) (s : VarState R) (p q : List (Outcome R)) :
    after merge s (p ++ q) = after merge (after merge s p) q := by
  induction p generalizing s with
  | nil => simp [after_nil]
  | cons o p ih => simp [after_cons, ih]

theorem oks_append (p q : List (Outcome R)) : oks (p ++ q) = oks p ++ oks q := by
  induction p with
  | nil => rfl
  | cons o p ih => cases o <;> simp [oks, ih]

theorem skips_append (p q : List (Outcome R)) : skips (p ++ q) = skips p + skips q := by
  induction p with
  | nil => simp [skips]
  | cons o p ih => cases o <;> simp [skips, ih] <;> omega

/-- every call is either a counted repetition or a skip -/
theorem oks_length_add_skips (p : List (Outcome R)) : (oks p).length + skips p = p.length := by
  induction p with
  | nil => rfl
  | cons o p ih => cases o <;> simp [oks, skips] <;> omega

/-- The `while` loop against its specification, for every stream and start state. -/
theorem loop_spec (merge : R → R → R) (repMax : Nat) (keep : Keep R) :
    ∀ (outs : List (Outcome R)) (s : VarState R),
      ∃ used, outs = used ++ (loop merge repMax keep s outs).rest ∧
        (loop merge repMax keep s outs).st = after merge s used ∧
        (∀ p, p <+: used → p ≠ used → guard repMax keep (after merge s p) = true) ∧
        ((loop merge repMax keep s outs).exhausted = false →
            guard repMax keep (loop merge repMax keep s outs).st = false) ∧
        ((loop merge repMax keep s outs).exhausted = true →
            (loop merge repMax keep s outs).rest = [] ∧
            guard repMax keep (loop merge repMax keep s outs).st = true)
  | [], s => by
    refine ⟨[], by simp [loop], by simp [loop, after_nil], ?_, ?_, ?_⟩
    · intro p hp hne
      exact absurd (List.prefix_nil.mp hp) hne
    · simp [loop]
    · simp [loop]
  | o :: os, s => by
    by_cases hg : guard repMax keep s = true
    · have hstep : loop merge repMax keep s (o :: os)
          = loop merge repMax keep (stepOut merge s o) os := by
        cases o <;> simp [loop, hg, stepOut]
      obtain ⟨used, h1, h2, h3, h4, h5⟩ := loop_spec merge repMax keep os (stepOut merge s o)
      rw [hstep]
      refine ⟨o :: used, by rw [List.cons_append, ← h1], by rw [h2, after_cons], ?_, h4, h5⟩
      intro p hp hne
      cases p with
      | nil => rw [after_nil]; exact hg
      | cons o' p' =>
        obtain ⟨rfl, hp'⟩ := List.cons_prefix_cons.mp hp
        rw [after_cons]
        exact h3 p' hp' (fun h => hne (by rw [h]))
    · have hg' : guard repMax keep s = false := by simpa using hg
      refine ⟨[], by simp [loop, hg'], by simp [loop, hg', after_nil], ?_, ?_, ?_⟩
      · intro p hp hne
        exact absurd (List.prefix_nil.mp hp) hne
      · intro _; simp [loop, hg']
      · simp [loop, hg']

/-- the repetition counter never passes the limit (unless it started beyond it) -/
theorem loop_rep_le (merge : R → R → R) (repMax : Nat) (keep : Keep R) :
    ∀ (outs : List (Outcome R)) (s : VarState R),
      (loop merge repMax keep s outs).st.rep ≤ max s.rep repMax
  | [], s => by simp [loop]; omega
  | o :: os, s => by
    by_cases hg : guard repMax keep s = true
    · have hlt : s.rep < repMax := by
        simp only [guard, Bool.and_eq_true, decide_eq_true_eq] at hg; exact hg.2
      cases o with
      | ok r =>
        have := loop_rep_le merge repMax keep os (stepOk merge s r)
        simp only [loop, hg, if_true]
        simp only [stepOk] at this ⊢
        omega
      | skip =>
        have := loop_rep_le merge repMax keep os (stepSkip s)
        simp only [loop, hg, if_true]
        simp only [stepSkip] at this ⊢
        omega
    · have hg' : guard repMax keep s = false := by simpa using hg
      simp [loop, hg']; omega

/-! ### The first repetition of a fresh variation -/

/-- `k` more skips (and calls) happened before -/
def shift (k : Nat) (s : VarState R) : VarState R :=
  { s with skipped := s.skipped + k, calls := s.calls + k }

theorem shift_zero (s : VarState R) : shift 0 s = s := by cases s; simp [shift]

theorem shift_shift (j k : Nat) (s : VarState R) : shift k (shift j s) = shift (j + k) s := by
  cases s; simp only [shift, VarState.mk.injEq]; refine ⟨trivial, trivial, ?_, ?_⟩ <;> omega

theorem shift_after (merge : R → R → R) (k : Nat) (s : VarState R) (p : List (Outcome R)) :
    shift k (after merge s p) = after merge (shift k s) p := by
  cases s; simp only [shift, after, VarState.mk.injEq]; refine ⟨trivial, trivial, ?_, ?_⟩ <;> omega

theorem freshState_skip (merge : R → R → R) (p : List (Outcome R)) :
    freshState merge (.skip :: p) = (freshState merge p).map (shift 1) := by
  simp only [freshState, oks, skips]
  cases oks p with
  | nil => rfl
  | cons r rs => simp [shift]

theorem freshState_ok (merge : R → R → R) (r : R) (p : List (Outcome R)) :
    freshState merge (.ok r :: p) = some (after merge ⟨r, 1, 0, 1⟩ p) := by
  simp only [freshState, oks, skips, after, List.length_cons, Option.some.injEq, VarState.mk.injEq]
  refine ⟨trivial, ?_, ?_, ?_⟩ <;> omega

theorem freshState_nil (merge : R → R → R) : freshState merge ([] : List (Outcome R)) = none := rfl

/-- The first-repetition retry followed by the loop, against the fold specification. -/
theorem firstRun_done (merge : R → R → R) (repMax : Nat) (keep : Keep R) :
    ∀ (outs : List (Outcome R)) (k : Nat) (e : VarEnd R),
      firstRun merge repMax keep k outs = .done e →
      ∃ used, outs = used ++ e.rest ∧
        (freshState merge used).map (shift k) = some e.st ∧
        (∀ p, p <+: used → p ≠ used → ∀ s, (freshState merge p).map (shift k) = some s →
            guard repMax keep s = true) ∧
        (e.exhausted = false → guard repMax keep e.st = false) ∧
        (e.exhausted = true → e.rest = [] ∧ guard repMax keep e.st = true)
  | [], k, e => by intro h; simp [firstRun] at h
  | .skip :: os, k, e => by
    intro h
    simp only [firstRun] at h
    obtain ⟨used, h1, h2, h3, h4, h5⟩ := firstRun_done merge repMax keep os (k + 1) e h
    refine ⟨.skip :: used, by rw [List.cons_append, ← h1], ?_, ?_, h4, h5⟩
    · rw [freshState_skip, Option.map_map]
      rw [← h2]; congr 1; funext s; simp [Function.comp, shift_shift, Nat.add_comm]
    · intro p hp hne s hs
      cases p with
      | nil => simp [freshState_nil] at hs
      | cons o' p' =>
        obtain ⟨rfl, hp'⟩ := List.cons_prefix_cons.mp hp
        rw [freshState_skip, Option.map_map] at hs
        refine h3 p' hp' (fun h => hne (by rw [h])) s ?_
        rw [← hs]; congr 1; funext s; simp [Function.comp, shift_shift, Nat.add_comm]
  | .ok r :: os, k, e => by
    intro h
    simp only [firstRun, VarResult.done.injEq] at h
    obtain ⟨used, h1, h2, h3, h4, h5⟩ := loop_spec merge repMax keep os ⟨r, 1, k, k + 1⟩
    rw [h] at h1 h2 h4 h5
    have hs0 : (⟨r, 1, k, k + 1⟩ : VarState R) = shift k ⟨r, 1, 0, 1⟩ := by
      simp [shift, Nat.add_comm]
    refine ⟨.ok r :: used, by rw [List.cons_append, ← h1], ?_, ?_, h4, h5⟩
    · rw [freshState_ok, Option.map_some, shift_after, ← hs0, h2]
    · intro p hp hne s hs
      cases p with
      | nil => simp [freshState_nil] at hs
      | cons o' p' =>
        obtain ⟨rfl, hp'⟩ := List.cons_prefix_cons.mp hp
        rw [freshState_ok, Option.map_some, shift_after, ← hs0, Option.some.injEq] at hs
        rw [← hs]
        exact h3 p' hp' (fun h => hne (by rw [h]))

theorem firstRun_starved (merge : R → R → R) (repMax : Nat) (keep : Keep R) :
    ∀ (outs : List (Outcome R)) (k c : Nat),
      firstRun merge repMax keep k outs = .starved c → c = k + outs.length ∧ oks outs = []
  | [], k, c => by intro h; simp only [firstRun, VarResult.starved.injEq] at h; simp [h, oks]
  | .skip :: os, k, c => by
    intro h
    simp only [firstRun] at h
    obtain ⟨h1, h2⟩ := firstRun_starved merge repMax keep os (k + 1) c h
    refine ⟨by simp only [List.length_cons]; omega, by simpa [oks] using h2⟩
  | .ok r :: os, k, c => by intro h; simp [firstRun] at h

/-- One variation (fresh or resumed) against the fold specification. -/
theorem runVariation_done (merge : R → R → R) (repMax : Nat) (keep : Keep R)
    (start : Option (R × Nat)) (outs : List (Outcome R)) (e : VarEnd R)
    (h : runVariation merge repMax keep start outs = .done e) :
    ∃ used, outs = used ++ e.rest ∧
      stateOf merge start used = some e.st ∧
      (∀ p, p <+: used → p ≠ used → ∀ s, stateOf merge start p = some s →
          guard repMax keep s = true) ∧
      (e.exhausted = false → guard repMax keep e.st = false) ∧
      (e.exhausted = true → e.rest = [] ∧ guard repMax keep e.st = true) := by
  cases start with
  | none =>
    simp only [runVariation] at h
    obtain ⟨used, h1, h2, h3, h4, h5⟩ := firstRun_done merge repMax keep outs 0 e h
    refine ⟨used, h1, ?_, ?_, h4, h5⟩
    · simpa [stateOf, shift_zero, Option.map_id'] using h2
    · intro p hp hne s hs
      refine h3 p hp hne s ?_
      simpa [stateOf, shift_zero, Option.map_id'] using hs
  | some ar =>
    obtain ⟨a, r⟩ := ar
    simp only [runVariation, VarResult.done.injEq] at h
    obtain ⟨used, h1, h2, h3, h4, h5⟩ := loop_spec merge repMax keep outs ⟨a, r, 0, 0⟩
    rw [h] at h1 h2 h4 h5
    refine ⟨used, h1, by simp [stateOf, h2], ?_, h4, h5⟩
    intro p hp hne s hs
    simp only [stateOf, Option.some.injEq] at hs
    rw [← hs]; exact h3 p hp hne

/-- a completed (not exhausted) variation consumed exactly one `IsVarRun` segment -/
theorem runVariation_isVarRun (merge : R → R → R) (repMax : Nat) (keep : Keep R)
    (start : Option (R × Nat)) (outs : List (Outcome R)) (e : VarEnd R)
    (h : runVariation merge repMax keep start outs = .done e) (hex : e.exhausted = false) :
    ∃ seg, outs = seg ++ e.rest ∧ IsVarRun merge repMax keep start seg e.st := by
  obtain ⟨used, h1, h2, h3, h4, _⟩ := runVariation_done merge repMax keep start outs e h
  exact ⟨used, h1, h2, h4 hex, h3⟩

theorem runVariation_starved (merge : R → R → R) (repMax : Nat) (keep : Keep R)
    (start : Option (R × Nat)) (outs : List (Outcome R)) (c : Nat)
    (h : runVariation merge repMax keep start outs = .starved c) :
    start = none ∧ c = outs.length ∧ oks outs = [] := by
  cases start with
  | none =>
    simp only [runVariation] at h
    have := firstRun_starved merge repMax keep outs 0 c h
    exact ⟨rfl, by omega, this.2⟩
  | some ar => obtain ⟨a, r⟩ := ar; simp [runVariation] at h

theorem firstRun_rep_le (merge : R → R → R) (repMax : Nat) (keep : Keep R) :
    ∀ (outs : List (Outcome R)) (k : Nat) (e : VarEnd R),
      firstRun merge repMax keep k outs = .done e → e.st.rep ≤ max 1 repMax
  | [], k, e => by intro h; simp [firstRun] at h
  | .skip :: os, k, e => by
    intro h; simp only [firstRun] at h
    exact firstRun_rep_le merge repMax keep os (k + 1) e h
  | .ok r :: os, k, e => by
    intro h
    simp only [firstRun, VarResult.done.injEq] at h
    rw [← h]
    exact loop_rep_le merge repMax keep os ⟨r, 1, k, k + 1⟩

theorem firstRun_skips_then_ok (merge : R → R → R) (repMax : Nat) (keep : Keep R) (r : R)
    (os : List (Outcome R)) : ∀ (k j : Nat),
      firstRun merge repMax keep j (List.replicate k .skip ++ .ok r :: os)
        = .done (loop merge repMax keep ⟨r, 1, j + k, j + k + 1⟩ os)
  | 0, j => by simp [firstRun]
  | k + 1, j => by
    rw [List.replicate_succ, List.cons_append, firstRun, firstRun_skips_then_ok merge repMax keep r os k (j + 1)]
    have : j + 1 + k = j + (k + 1) := by omega
    rw [this]

/-- a fresh complete run contains at least one call -/
theorem isVarRun_fresh_ne_nil (merge : R → R → R) (repMax : Nat) (keep : Keep R)
    (seg : List (Outcome R)) (st : VarState R)
    (h : IsVarRun merge repMax keep none seg st) : seg ≠ [] := by
  intro hs; subst hs
  have := h.1
  simp [stateOf, freshState, oks] at this

end PyPhysim.C05
