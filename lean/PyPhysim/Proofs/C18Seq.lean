import PyPhysim.Proofs.C18Exact
import PyPhysim.Proofs.C18Zc
import PyPhysim.Proofs.C18Ext

/-!
C18 — list-level statements about the sequences: CAZAC properties of
`seqValues (zcPhases N u)`, orthogonality of shifted sequences, the structure
of `rootSequence`.
-/
set_option linter.unusedSectionVars false
namespace PyPhysim.C18P
open PyPhysim.Cazac PyPhysim.Proto Finset

variable {F : Type} [Field F] [CisOps F]

local notation "cis" => (CisOps.cis : ℚ → F)
local notation "conj" => (CisOps.conj : F → F)

section
variable (L : CisLaws F)
include L

/-- every element of a phase-defined sequence has unit modulus -/
theorem seqValues_unit (ph : List ℚ) : ∀ v ∈ (seqValues ph : List F), v * conj v = 1 := by
  intro v hv
  unfold seqValues at hv
  obtain ⟨q, _, rfl⟩ := List.mem_map.mp hv
  exact L.cis_mul_conj q

theorem zc_autocorr_list (N u τ : ℕ) (hodd : N % 2 = 1) (hcop : Nat.Coprime u N) (hτ : ¬ N ∣ τ) :
    ∑ n ∈ range N, (seqValues (zcPhases N u) : List F).getD ((n + τ) % N) 0
        * conj ((seqValues (zcPhases N u) : List F).getD n 0) = 0 := by
  have hN : 0 < N := by omega
  refine Eq.trans (Finset.sum_congr rfl ?_) (zc_autocorr L N u τ hodd hcop hτ)
  intro n hn
  rw [zcSeq_getD N u _ (Nat.mod_lt _ hN), zcSeq_getD N u n (Finset.mem_range.mp hn)]

theorem zc_flat_list (N u : ℕ) (hodd : N % 2 = 1) (hcop : Nat.Coprime u N) :
    ∀ v ∈ fftPad (seqValues (zcPhases N u) : List F) N, v * conj v = (N : F) := by
  have hN : 0 < N := by omega
  intro v hv
  unfold fftPad at hv
  obtain ⟨k, _, rfl⟩ := List.mem_map.mp hv
  have hlen : (seqValues (zcPhases N u) : List F).length = N := by
    rw [seqValues_length, zcPhases_length]
  rw [List.take_of_length_le (by rw [hlen]), dot_eq_sum, hlen]
  have h1 : ∀ n ∈ range N, (seqValues (zcPhases N u) : List F).getD n 0
        * cis (-(((k * n : ℕ) : ℚ) / ((N : ℕ) : ℚ)))
      = cis (zcPhase N u n) * cis (-(((n * k : ℕ) : ℚ) / (N : ℚ))) := by
    intro n hn
    rw [zcSeq_getD N u n (Finset.mem_range.mp hn), Nat.mul_comm k n]
  rw [Finset.sum_congr rfl h1]
  apply flat_of_autocorr L (fun n => cis (zcPhase N u n)) N hN
  intro τ hτ
  by_cases h0 : τ = 0
  · subst h0
    rw [if_pos rfl]
    refine Eq.trans (Finset.sum_congr rfl ?_) (zc_energy L N u)
    intro m hm
    simp only [Nat.add_zero, Nat.mod_eq_of_lt (Finset.mem_range.mp hm)]
  · rw [if_neg h0]
    apply zc_autocorr L N u τ hodd hcop
    intro hd
    have := Nat.le_of_dvd (Nat.pos_of_ne_zero h0) hd
    omega

/-- user sequences on different cyclic shifts are orthogonal when `D ∣ length` -/
theorem shifts_orthogonal_list (ph p1 p2 : List ℚ) (c1 c2 D t : ℕ) (hD : 0 < D)
    (hN : ph.length = D * t) (h1 : shiftedPhases ph c1 D = .ok p1) (h2 : shiftedPhases ph c2 D = .ok p2)
    (hne : c1 ≠ c2) :
    ∑ n ∈ range ph.length,
      (seqValues p1 : List F).getD n 0 * conj ((seqValues p2 : List F).getD n 0) = 0 := by
  have hc1 : c1 < D := by
    unfold shiftedPhases at h1
    by_contra hc; rw [if_neg hc] at h1; cases h1
  have hc2 : c2 < D := by
    unfold shiftedPhases at h2
    by_contra hc; rw [if_neg hc] at h2; cases h2
  rw [shiftedPhases_ok ph c1 D hc1] at h1
  rw [shiftedPhases_ok ph c2 D hc2] at h2
  injection h1 with h1
  injection h2 with h2
  have hl1 : p1.length = ph.length := by rw [← h1]; simp
  have hl2 : p2.length = ph.length := by rw [← h2]; simp
  have hD' : (D : ℚ) ≠ 0 := by exact_mod_cast (Nat.ne_of_gt hD)
  have hterm : ∀ n ∈ range ph.length,
      (seqValues p1 : List F).getD n 0 * conj ((seqValues p2 : List F).getD n 0)
        = cis ((n : ℚ) * ((((c1 : ℤ) - c2 : ℤ) : ℚ) / (D : ℚ))) := by
    intro n hn
    have hn' := Finset.mem_range.mp hn
    rw [seqValues_getD p1 n (by rw [hl1]; exact hn'), seqValues_getD p2 n (by rw [hl2]; exact hn'),
      L.conj_cis, ← L.cis_add, ← h1, ← h2, shifted_getD ph c1 D n hn', shifted_getD ph c2 D n hn']
    congr 1
    push_cast
    field_simp
    ring
  rw [Finset.sum_congr rfl hterm]
  apply L.sum_cis_nat_mul_eq_zero
  · refine ⟨(t : ℤ) * ((c1 : ℤ) - c2), ?_⟩
    rw [hN]
    push_cast
    field_simp
  · rintro ⟨z, hz⟩
    have h4 : ((c1 : ℤ) - c2) = (D : ℤ) * z := by
      field_simp at hz
      exact_mod_cast hz
    have h5 : (c1 : ℤ) - c2 = 0 :=
      Int.eq_zero_of_abs_lt_dvd ⟨z, h4⟩ (by rw [abs_lt]; constructor <;> omega)
    omega

end

/-- root index 0 passes the code's `assert u < Nzc` but gives the all-ones
    sequence: its cyclic autocorrelation is `N` at every lag -/
theorem zc_root0_autocorr (L : CisLaws F) (N τ : ℕ) (hN : 0 < N) :
    ∑ n ∈ range N, (seqValues (zcPhases N 0) : List F).getD ((n + τ) % N) 0
        * conj ((seqValues (zcPhases N 0) : List F).getD n 0) = (N : F) := by
  have h0 : ∀ k, zcPhase N 0 k = 0 := by intro k; simp [zcPhase]
  have h1 : ∀ n ∈ range N, (seqValues (zcPhases N 0) : List F).getD ((n + τ) % N) 0
        * conj ((seqValues (zcPhases N 0) : List F).getD n 0) = 1 := by
    intro n hn
    rw [zcSeq_getD N 0 _ (Nat.mod_lt _ hN), zcSeq_getD N 0 n (Finset.mem_range.mp hn), h0, h0,
      L.cis_zero, L.conj_one, mul_one]
  rw [Finset.sum_congr rfl h1]
  simp

/-! ### structure of `RootSequence` -/

theorem rootSequence_zc (table : List ℕ) (t1 t2 : List (List ℤ)) (u s p : ℕ) (hs : 24 < s)
    (hp : primeLookup table s = .ok p) (hps : p ≤ s) (hu : u < p) :
    ∃ r, rootSequence table t1 t2 u (some s) none = .ok r ∧ r.nzc = p ∧ r.size = s ∧
      (∀ i, i < s → r.seqArray[i]? = some (zcPhase p u (i % p))) ∧ r.base = zcPhases p u := by
  have hp0 : 0 < p := by omega
  have hbase : (zcPhases p u).length = p := zcPhases_length p u
  have hidx : ∀ j, j < p → (zcPhases p u)[j]? = some (zcPhase p u j) := by
    intro j hj
    unfold zcPhases
    simp [List.getElem?_map, List.getElem?_range hj]
  unfold rootSequence
  simp only [hp]
  unfold rootSequenceCore
  rw [if_neg (by omega), if_pos hs, if_pos hu]
  by_cases hgt : s > p
  · rw [if_pos hgt]
    obtain ⟨l, hl, hlen, hget⟩ := extendedZF_spec (zcPhases p u) s (by rw [hbase]; exact hp0)
      (by rw [hbase]; exact hps)
    rw [hl]
    refine ⟨_, rfl, hbase, hlen, ?_, rfl⟩
    intro i hi
    show l[i]? = _
    rw [hget i hi, hbase, hidx _ (Nat.mod_lt _ hp0)]
  · rw [if_neg hgt]
    have hsp : s = p := by omega
    refine ⟨_, rfl, hbase, ?_, ?_, rfl⟩
    · show (zcPhases p u).length = s
      rw [hbase, hsp]
    · intro i hi
      show (zcPhases p u)[i]? = _
      rw [Nat.mod_eq_of_lt (by omega), hidx i (by omega)]

theorem rootSequence_index_guard (table : List ℕ) (t1 t2 : List (List ℤ)) (u s p : ℕ) (hs : 24 < s)
    (hp : primeLookup table s = .ok p) (hps : p ≤ s) (hu : ¬ u < p) :
    rootSequence table t1 t2 u (some s) none = .error .AssertionError := by
  unfold rootSequence
  simp only [hp]
  unfold rootSequenceCore
  rw [if_neg (by omega), if_pos hs, if_neg hu]

theorem rootSequence_table (table : List ℕ) (t1 t2 : List (List ℤ)) (u s p : ℕ)
    (hs : s = 12 ∨ s = 24) (hp : primeLookup table s = .ok p) (hps : p ≤ s)
    (row : List ℤ) (hrow : (if s = 12 then t1 else t2)[u]? = some row) :
    rootSequence table t1 t2 u (some s) none = .ok ⟨u, tablePhases row, none⟩ := by
  unfold rootSequence
  simp only [hp]
  unfold rootSequenceCore
  rcases hs with rfl | rfl
  · simp only [if_true] at hrow
    rw [if_neg (by omega), if_neg (by omega), if_pos rfl, hrow]
  · simp only [show (24 : ℕ) ≠ 12 by omega, if_false] at hrow
    rw [if_neg (by omega), if_neg (by omega), if_neg (by omega), if_pos rfl, hrow]

end PyPhysim.C18P
