import Mathlib.Algebra.BigOperators.Ring.List
import PyPhysim.Proofs.C03Conv
import PyPhysim.Model.C03Spec

/-!
# C03 — one time-domain transmission of `TdlChannel`, `SuChannel` in closed form
-/
namespace PyPhysim.C03
open PyPhysim.Proto

variable {α : Type} [CommSemiring α]

/-- state after a time-domain transmission of `n` symbols -/
def Tdl.afterTx (proc : Proc α) (c : Tdl α) (n : Nat) : Tdl α :=
  { c with pos := c.pos + n, last := some (genIR proc c c.pos n) }

theorem genIR_delays (proc : Proc α) (c : Tdl α) (pos n : Nat) : (genIR proc c pos n).delays = c.delays := rfl
theorem genIR_n (proc : Proc α) (c : Tdl α) (pos n : Nat) : (genIR proc c pos n).n = n := rfl

omit [CommSemiring α] in
theorem signalOk_siso (c : Tdl α) (hant : c.ant = none) (v : List α) : c.signalOk [v] = true := by
  simp [Tdl.signalOk, hant]

omit [CommSemiring α] in
theorem signalOk_mimo {β : Type} (c : Tdl α) (nr nt : Nat) (hant : c.ant = some (nr, nt)) (f : Nat → β)
    (g : β → List α) : c.signalOk ((tab (c.dims nr nt).2 f).map g) = true := by
  simp [Tdl.signalOk, hant, tab_length]

omit [CommSemiring α] in
theorem signalOk_mimo' (c : Tdl α) (nr nt : Nat) (hant : c.ant = some (nr, nt)) (f : Nat → List α) :
    c.signalOk (tab (c.dims nr nt).2 f) = true := by
  simp [Tdl.signalOk, hant, tab_length]

theorem tdl_corrupt_siso (proc : Proc α) (c : Tdl α) (hant : c.ant = none) (mem : Nat)
    (hmem : c.mem = .ok mem) (n : Nat) (xf : Nat → α) :
    c.corrupt proc [tab n xf]
      = .ok (c.afterTx proc n, [convSpecSiso (genIR proc c c.pos n) n mem xf]) := by
  unfold Tdl.corrupt
  simp only [numSymbols, tab_length, hmem, hant, bind, Except.bind, pure, Except.pure,
    signalOk_siso c hant, Bool.not_true, Bool.false_eq_true, if_false]
  rw [corruptSiso_eq]
  simp only [Tdl.afterTx, hant]
  rfl

theorem tdl_corrupt_mimo (proc : Proc α) (c : Tdl α) (nr nt : Nat) (hant : c.ant = some (nr, nt)) (mem : Nat)
    (hmem : c.mem = .ok mem) (n : Nat) (xf : Nat → Nat → α) (hIn : 0 < (c.dims nr nt).2) :
    c.corrupt proc (tab (c.dims nr nt).2 (fun a => tab n (xf a)))
      = .ok (c.afterTx proc n,
             convSpec (genIR proc c c.pos n) c.switched (c.dims nr nt).1 (c.dims nr nt).2 n mem xf) := by
  unfold Tdl.corrupt
  simp only [numSymbols_tab _ _ _ hIn, hmem, hant, bind, Except.bind, pure, Except.pure, tab_length,
    signalOk_mimo' c nr nt hant, Bool.not_true, Bool.false_eq_true, ne_eq, not_true_eq_false, if_false]
  rw [corruptMimo_eq]
  simp only [Tdl.afterTx, hant]
  rfl


/-! ## linearity in the input, scaling of the response (path loss) -/

theorem convAtSiso_linear (ir : IR α) (n : Nat) (a b : α) (xf xg : Nat → α) (m : Nat) :
    convAtSiso ir n (fun k => a * xf k + b * xg k) m = a * convAtSiso ir n xf m + b * convAtSiso ir n xg m := by
  unfold convAtSiso
  rw [← List.sum_map_mul_left, ← List.sum_map_mul_left, ← List.sum_map_add]
  congr 1
  apply List.map_congr_left
  intro dh _
  split_ifs <;> ring

theorem convAt_linear (ir : IR α) (sw : Bool) (nIn n : Nat) (a b : α) (xf xg : Nat → Nat → α) (j m : Nat) :
    convAt ir sw nIn n (fun i k => a * xf i k + b * xg i k) j m
      = a * convAt ir sw nIn n xf j m + b * convAt ir sw nIn n xg j m := by
  unfold convAt
  rw [← List.sum_map_mul_left, ← List.sum_map_mul_left, ← List.sum_map_add]
  congr 1
  apply List.map_congr_left
  intro dh _
  rw [← List.sum_map_mul_left, ← List.sum_map_mul_left, ← List.sum_map_add]
  congr 1
  apply List.map_congr_left
  intro i _
  split_ifs <;> ring

theorem scale_delays (s : α) (ir : IR α) : (ir.scale s).delays = ir.delays := rfl
theorem scale_n (s : α) (ir : IR α) : (ir.scale s).n = ir.n := rfl

theorem convAtSiso_scale (s : α) (ir : IR α) (n : Nat) (xf : Nat → α) (m : Nat) :
    convAtSiso (ir.scale s) n xf m = convAtSiso ir n xf m * s := by
  unfold convAtSiso IR.scale
  simp only [List.zip_map_right, List.map_map]
  rw [← List.sum_map_mul_right]
  congr 1
  apply List.map_congr_left
  intro dh _
  simp only [Function.comp, Prod.map, id]
  split_ifs
  · ring
  · simp

theorem convAt_scale (s : α) (ir : IR α) (sw : Bool) (nIn n : Nat) (xf : Nat → Nat → α) (j m : Nat) :
    convAt (ir.scale s) sw nIn n xf j m = convAt ir sw nIn n xf j m * s := by
  unfold convAt IR.scale
  simp only [List.zip_map_right, List.map_map]
  rw [← List.sum_map_mul_right]
  congr 1
  apply List.map_congr_left
  intro dh _
  simp only [Function.comp, Prod.map, id]
  rw [← List.sum_map_mul_right]
  congr 1
  apply List.map_congr_left
  intro a _
  cases sw <;> simp only [orient, id] <;> split_ifs <;> first | ring | simp

theorem scaleRows_tab (s : α) (nOut len : Nat) (f : Nat → Nat → α) :
    scaleRows s (tab nOut (fun j => tab len (f j))) = tab nOut (fun j => tab len (fun m => f j m * s)) := by
  simp [scaleRows, tab]

end PyPhysim.C03
