import PyPhysim.Proofs.C19Border
import PyPhysim.Proofs.C19Trig

set_option linter.unusedSectionVars false

/-! C19 — border point in absolute coordinates, random placement, circle, point processes,
distance matrices. -/
namespace PyPhysim.C19

section field
variable {α : Type} [Field α] [LinearOrder α] [IsStrictOrderedRing α]

/-! ### border point, absolute coordinates -/

theorem onSegment_translate (pos a b q : Pt α) (h : OnSegment (psub a pos) (psub b pos) q) :
    OnSegment a b (padd pos q) := by
  obtain ⟨s, h0, h1, hq⟩ := h
  refine ⟨s, h0, h1, ?_⟩
  rw [hq]
  simp only [padd, psub, smul]
  ext <;> simp <;> ring

theorem onSegment_untranslate (pos a b q : Pt α) (h : OnSegment a b (padd pos q)) :
    OnSegment (psub a pos) (psub b pos) q := by
  obtain ⟨s, h0, h1, hq⟩ := h
  refine ⟨s, h0, h1, ?_⟩
  simp only [padd, psub, smul, Prod.mk.injEq] at hq ⊢
  obtain ⟨h1', h2'⟩ := hq
  ext
  · simp only; linear_combination h1'
  · simp only; linear_combination h2'

/-- **border point**: when `get_border_point` returns `p` there is a step `t > 0` such that
    `b = pos + t·d` is on the boundary of the polygon, `p = pos + ratio·(b - pos)`, and no boundary
    point on the open ray is nearer to the centre (edges whose line passes through the centre excepted) -/
theorem borderPoint_spec' (pos : Pt α) (verts : List (Pt α)) (d : Pt α) (ratio : α) (p : Pt α)
    (h : borderPoint pos verts d ratio = .ok p) :
    ∃ t, 0 < t ∧ OnBoundary verts (padd pos (smul t d)) ∧ p = padd pos (smul (ratio * t) d) ∧
      ∀ e ∈ cyc verts, cross (psub e.1 pos) (psub e.2 pos) ≠ 0 → ∀ t', 0 < t' →
        OnSegment e.1 e.2 (padd pos (smul t' d)) → t ≤ t' := by
  unfold borderPoint at h
  cases hb : borderStep (verts.map (fun v => psub v pos)) d with
  | none => rw [hb] at h; cases h
  | some t =>
    rw [hb] at h
    simp only [Except.ok.injEq] at h
    obtain ⟨ht, ⟨e, he, hseg⟩, hfirst⟩ := borderStep_sound _ d t hb
    rw [cyc_map] at he
    obtain ⟨e0, he0, rfl⟩ := List.mem_map.mp he
    refine ⟨t, ht, ⟨e0, he0, onSegment_translate pos _ _ _ hseg⟩, ?_, ?_⟩
    · rw [← h]
      simp only [padd, smul, Nat.cast_one]
      ext <;> simp <;> ring
    · intro e' he' hne t' ht' hs'
      apply hfirst (psub e'.1 pos, psub e'.2 pos) _ hne t' ht' (onSegment_untranslate pos _ _ _ hs')
      rw [cyc_map]
      exact List.mem_map.mpr ⟨e', he', rfl⟩

/-- a polygon that is seen counter-clockwise from `pos` has a border point in every direction -/
theorem borderPoint_exists' (pos : Pt α) (verts : List (Pt α)) (hne : verts ≠ [])
    (hstar : StarCCW (verts.map (fun v => psub v pos))) (d : Pt α) (hd : d ≠ (0, 0)) (ratio : α) :
    ∃ p, borderPoint pos verts d ratio = .ok p := by
  obtain ⟨t, ht⟩ := borderStep_exists _ (by simpa using hne) hstar d hd
  unfold borderPoint
  rw [ht]
  exact ⟨_, rfl⟩

/-- the vertices `Shape.vertices` reports, taken relative to the centre, are the rotated base -/
theorem place_rel (pos u : Pt α) (base : List (Pt α)) :
    (place pos u base).map (fun v => psub v pos) = base.map (rot u) := by
  simp only [place, List.map_map]
  apply List.map_congr_left
  intro v _
  simp only [Function.comp, psub, padd]
  ext <;> simp

/-- the unrotated rectangle is seen counter-clockwise from a centre strictly inside it -/
theorem rect_star (r : Rect α) (h1 : r.lower.1 < r.pos.1) (h2 : r.pos.1 < r.upper.1)
    (h3 : r.lower.2 < r.pos.2) (h4 : r.pos.2 < r.upper.2) : StarCCW (rectVerts r) := by
  intro e he
  simp only [rectVerts, cyc, List.cons_append, List.nil_append, adjPairs, List.mem_cons, List.not_mem_nil,
    or_false] at he
  simp only [Nat.cast_zero]
  rcases he with rfl | rfl | rfl | rfl <;> simp only [cross, psub] <;> nlinarith

/-! ### random placement -/

theorem firstAccepted_spec (acc : Pt α → Bool) (mk : α × α → Pt α) :
    ∀ (us : List (α × α)) (n : ℕ) (p : Pt α) (m : ℕ), firstAccepted acc mk us n = some (p, m) →
      ∃ k, k < us.length ∧ m = n + k + 1 ∧ us[k]?.map mk = some p ∧ acc p = true ∧
        ∀ j, j < k → ∃ uj, us[j]? = some uj ∧ acc (mk uj) = false
  | [], _, _, _, h => by simp [firstAccepted] at h
  | u :: us, n, p, m, h => by
    simp only [firstAccepted] at h
    by_cases ha : acc (mk u) = true
    · rw [if_pos ha] at h
      simp only [Option.some.injEq, Prod.mk.injEq] at h
      obtain ⟨rfl, rfl⟩ := h
      exact ⟨0, by simp, by omega, by simp, ha, by intro j hj; omega⟩
    · rw [if_neg ha] at h
      obtain ⟨k, hk, hm, hp, hacc, hrej⟩ := firstAccepted_spec acc mk us (n + 1) p m h
      refine ⟨k + 1, by simp; omega, by omega, by simpa using hp, hacc, ?_⟩
      intro j hj
      cases j with
      | zero => exact ⟨u, by simp, by simpa using ha⟩
      | succ j =>
        obtain ⟨uj, h1, h2⟩ := hrej j (by omega)
        exact ⟨uj, by simpa using h1, h2⟩

/-- candidates lie in the square `pos ± radius` when the draws are in `[0, 1)` -/
theorem candidate_in_box (pos : Pt α) (R : α) (hR : 0 ≤ R) (u : α × α)
    (h1 : 0 ≤ u.1) (h1' : u.1 < 1) (h2 : 0 ≤ u.2) (h2' : u.2 < 1) :
    pos.1 - R ≤ (candidate pos R u).1 ∧ (candidate pos R u).1 ≤ pos.1 + R ∧
    pos.2 - R ≤ (candidate pos R u).2 ∧ (candidate pos R u).2 ≤ pos.2 + R := by
  simp only [candidate, Nat.cast_one, Nat.cast_ofNat]
  refine ⟨?_, ?_, ?_, ?_⟩ <;> nlinarith

/-! ### point processes -/

theorem ppRect_range (w h u v : α) (hw : 0 ≤ w) (hh : 0 ≤ h) (hu : 0 ≤ u) (hu' : u < 1) (hv : 0 ≤ v)
    (hv' : v < 1) :
    -(w / 2) ≤ (ppRectPoint w h u v).1 ∧ (ppRectPoint w h u v).1 ≤ w / 2 ∧
    -(h / 2) ≤ (ppRectPoint w h u v).2 ∧ (ppRectPoint w h u v).2 ≤ h / 2 := by
  simp only [ppRectPoint, Nat.cast_one, Nat.cast_ofNat]
  refine ⟨?_, ?_, ?_, ?_⟩ <;> nlinarith
end field

/-! ### over ℝ: circle, distances, circular point process -/
section real
open Real

theorem circleInside_iff (pos : Pt ℝ) (r : ℝ) (hr : 0 < r) (p : Pt ℝ) :
    circleInside pos r p = true ↔ dist2 pos p < r * r := by
  unfold circleInside
  rw [decide_eq_true_eq]
  simp only [dist, Circ.sqrt]
  rw [Real.sqrt_lt' hr, sq]

theorem circleVerts_on_circle (pos : Pt ℝ) (r : ℝ) :
    ∀ v ∈ place pos (1, 0) (circleVerts r), dist2 pos v = r * r := by
  intro v hv
  simp only [place, circleVerts, List.mem_map, List.mem_range] at hv
  obtain ⟨w, ⟨k, _, rfl⟩, rfl⟩ := hv
  have h := cisDeg_unit (((30 * k : ℕ)) : ℝ)
  simp only [norm2] at h
  simp only [dist2, norm2, psub, padd, rot, cmul, smul]
  linear_combination (r * r) * h

theorem circleBorder_spec (pos : Pt ℝ) (r ratio ang : ℝ) :
    psub (circleBorderPoint pos r (Circ.cisDeg ang) ratio) pos = smul (ratio * r) (Circ.cisDeg ang) ∧
    dist2 pos (circleBorderPoint pos r (Circ.cisDeg ang) ratio) = (ratio * r) * (ratio * r) := by
  have h := cisDeg_unit ang
  simp only [norm2] at h
  constructor
  · simp only [circleBorderPoint, psub, padd, smul]
    exact Prod.ext (by simp only []; ring) (by simp only []; ring)
  · simp only [circleBorderPoint, dist2, norm2, psub, padd, smul]
    linear_combination (ratio * r * (ratio * r)) * h

theorem dist_spec (p q : Pt ℝ) : 0 ≤ dist p q ∧ dist p q * dist p q = dist2 p q := by
  simp only [dist, Circ.sqrt]
  refine ⟨Real.sqrt_nonneg _, Real.mul_self_sqrt ?_⟩
  simp only [dist2, norm2]
  nlinarith [mul_self_nonneg (psub p q).1, mul_self_nonneg (psub p q).2]

theorem distMatrix_entry (users cells : List (Pt ℝ)) (i j : ℕ) (u c : Pt ℝ)
    (hu : users[i]? = some u) (hc : cells[j]? = some c) :
    (distMatrix users cells)[i]?.bind (fun row => row[j]?) = some (dist u c) := by
  simp [distMatrix, List.getElem?_map, hu, hc]

theorem ppRadius_range (rmax rmin u : ℝ) (h1 : rmin ≤ rmax) (hu' : u < 1) :
    rmin ≤ ppRadius rmax rmin u ∧ ppRadius rmax rmin u ≤ rmax := by
  simp only [ppRadius, Circ.sqrt]
  have s0 : 0 ≤ Real.sqrt u := Real.sqrt_nonneg _
  have s1 : Real.sqrt u ≤ 1 := by
    rw [show (1 : ℝ) = Real.sqrt 1 by simp]
    exact Real.sqrt_le_sqrt (le_of_lt hu')
  constructor <;> nlinarith

theorem ppCircle_norm (rmax rmin u v : ℝ) :
    norm2 (ppCirclePoint rmax rmin u v) = ppRadius rmax rmin u * ppRadius rmax rmin u := by
  have h := cisRad_unit (v * ((2 : ℕ) : ℝ) * Circ.pi)
  simp only [norm2] at h
  simp only [ppCirclePoint, norm2, smul, conj]
  linear_combination (ppRadius rmax rmin u * ppRadius rmax rmin u) * h
end real

end PyPhysim.C19
