import Mathlib.Data.Rat.Floor
import Mathlib.Algebra.BigOperators.Ring.List
import Mathlib.Algebra.Order.BigOperators.Group.List
import Mathlib.Tactic.Linarith
import Mathlib.Tactic.Ring
import Mathlib.Tactic.FieldSimp
import PyPhysim.Model.C03Disc

/-!
# C03 — discretisation of a tap profile (over ℚ)
-/
namespace PyPhysim.C03

/-! ## `np.round` -/

theorem roundHalfEven_spec (x : ℚ) :
    |x - (roundHalfEven x : ℚ)| ≤ 1 / 2 ∧ (|x - (roundHalfEven x : ℚ)| = 1 / 2 → roundHalfEven x % 2 = 0) := by
  have h1 : ((Rat.floor x : ℤ) : ℚ) ≤ x := Int.floor_le x
  have h2 : x < ((Rat.floor x : ℤ) : ℚ) + 1 := Int.lt_floor_add_one x
  unfold roundHalfEven
  simp only
  split_ifs with c1 c2 c3
  · constructor
    · rw [abs_le]; constructor <;> linarith
    · intro h
      rw [abs_of_nonneg (by linarith)] at h
      linarith
  · push_cast
    constructor
    · rw [abs_le]; constructor <;> linarith
    · intro h
      rw [abs_of_nonpos (by linarith)] at h
      linarith
  · constructor
    · rw [abs_le]; constructor <;> linarith
    · intro _; exact c3
  · push_cast
    constructor
    · rw [abs_le]; constructor <;> linarith
    · intro _; omega

/-! ## `np.unique` -/

theorem mem_insertU (a x : Int) (l : List Int) : x ∈ insertU a l ↔ x = a ∨ x ∈ l := by
  induction l with
  | nil => simp [insertU]
  | cons b bs ih =>
    unfold insertU
    split_ifs with h1 h2
    · simp
    · subst h2; simp
    · simp only [List.mem_cons, ih]
      tauto

theorem insertU_sorted (a : Int) (l : List Int) (h : l.Pairwise (· < ·)) : (insertU a l).Pairwise (· < ·) := by
  induction l with
  | nil => simp [insertU]
  | cons b bs ih =>
    rw [List.pairwise_cons] at h
    unfold insertU
    split_ifs with h1 h2
    · rw [List.pairwise_cons]
      refine ⟨?_, List.pairwise_cons.mpr h⟩
      intro y hy
      rcases List.mem_cons.mp hy with rfl | hy
      · exact h1
      · exact lt_trans h1 (h.1 y hy)
    · exact List.pairwise_cons.mpr h
    · rw [List.pairwise_cons]
      refine ⟨?_, ih h.2⟩
      intro y hy
      rcases (mem_insertU a y bs).mp hy with rfl | hy
      · omega
      · exact h.1 y hy

theorem uniqueSorted_sorted (l : List Int) : (uniqueSorted l).Pairwise (· < ·) := by
  induction l with
  | nil => simp [uniqueSorted]
  | cons a l ih => exact insertU_sorted a _ ih

theorem mem_uniqueSorted (x : Int) (l : List Int) : x ∈ uniqueSorted l ↔ x ∈ l := by
  induction l with
  | nil => simp [uniqueSorted]
  | cons a l ih =>
    show x ∈ insertU a (uniqueSorted l) ↔ _
    rw [mem_insertU, ih]
    simp

theorem uniqueSorted_nodup (l : List Int) : (uniqueSorted l).Nodup :=
  (uniqueSorted_sorted l).imp (fun h => ne_of_lt h)

/-! ## the accumulation loop -/

theorem getElem?_foldl_modify (ts : List (Nat × ℚ)) (acc : List ℚ) (j : Nat) :
    (ts.foldl (fun acc ip => acc.modify ip.1 (· + ip.2)) acc)[j]?
      = acc[j]?.map (· + ((ts.filter (fun ip => ip.1 == j)).map (·.2)).sum) := by
  induction ts generalizing acc with
  | nil => simp
  | cons t ts ih =>
    rw [List.foldl_cons, ih, List.getElem?_modify]
    cases hj : acc[j]? with
    | none => simp
    | some a =>
      by_cases h : t.1 = j
      · simp [h, List.filter_cons, add_assoc]
      · simp [h, List.filter_cons]

theorem sum_modify_add (l : List ℚ) (i : Nat) (v : ℚ) (h : i < l.length) :
    (l.modify i (· + v)).sum = l.sum + v := by
  induction l generalizing i with
  | nil => simp at h
  | cons a l ih =>
    cases i with
    | zero => simp [List.modify_zero_cons]; ring
    | succ i =>
      simp only [List.modify_succ_cons, List.sum_cons, ih i (by simpa using h)]
      ring

theorem foldl_modify_length (ts : List (Nat × ℚ)) (acc : List ℚ) :
    (ts.foldl (fun acc ip => acc.modify ip.1 (· + ip.2)) acc).length = acc.length := by
  induction ts generalizing acc with
  | nil => rfl
  | cons t ts ih => rw [List.foldl_cons, ih, List.length_modify]

theorem sum_foldl_modify (ts : List (Nat × ℚ)) (acc : List ℚ) (h : ∀ t ∈ ts, t.1 < acc.length) :
    (ts.foldl (fun acc ip => acc.modify ip.1 (· + ip.2)) acc).sum = acc.sum + (ts.map (·.2)).sum := by
  induction ts generalizing acc with
  | nil => simp
  | cons t ts ih =>
    rw [List.foldl_cons, ih, sum_modify_add _ _ _ (h t (by simp))]
    · simp [add_assoc]
    · intro t' ht'
      rw [List.length_modify]
      exact h t' (by simp [ht'])

theorem accumulate_length (m : Nat) (inv : List Nat) (p : List ℚ) : (accumulate m inv p).length = m := by
  simp [accumulate, foldl_modify_length]

/-! ## the discretised profile -/

theorem inverseIdx_lt (idx : List Int) : ∀ k ∈ inverseIdx (uniqueSorted idx) idx, k < (uniqueSorted idx).length := by
  intro k hk
  simp only [inverseIdx, List.mem_map] at hk
  obtain ⟨a, ha, rfl⟩ := hk
  exact List.idxOf_lt_length_of_mem ((mem_uniqueSorted a idx).mpr ha)

/-- total accumulated power = total input power -/
theorem accumulate_sum (idx : List Int) (p : List ℚ) (hlen : idx.length = p.length) :
    (accumulate (uniqueSorted idx).length (inverseIdx (uniqueSorted idx) idx) p).sum = p.sum := by
  unfold accumulate
  rw [sum_foldl_modify]
  · rw [List.map_snd_zip (by simp [inverseIdx, hlen])]
    simp
  · intro t ht
    simp only [List.length_replicate]
    exact inverseIdx_lt idx t.1 (List.of_mem_zip ht).1

/-- each accumulated entry is the total power of the input taps rounding to that delay -/
theorem accumulate_getElem? (idx : List Int) (p : List ℚ) (j : Nat) (hj : j < (uniqueSorted idx).length) :
    (accumulate (uniqueSorted idx).length (inverseIdx (uniqueSorted idx) idx) p)[j]?
      = some (collidingPower idx p ((uniqueSorted idx)[j])) := by
  unfold accumulate
  rw [getElem?_foldl_modify, List.getElem?_replicate]
  simp only [hj, if_true, Option.map_some, zero_add]
  congr 1
  unfold collidingPower inverseIdx
  rw [List.zip_map_left, List.filter_map, List.map_map]
  have hsnd : ((fun (x : Nat × ℚ) => x.2) ∘ Prod.map (fun a => List.idxOf a (uniqueSorted idx)) id)
      = (fun (x : Int × ℚ) => x.2) := by
    funext x; rfl
  rw [hsnd]
  congr 2
  apply List.filter_congr
  intro ip hip
  have hmem : ip.1 ∈ uniqueSorted idx := (mem_uniqueSorted _ _).mpr (List.of_mem_zip hip).1
  simp only [Function.comp, Prod.map, id]
  by_cases h : ip.1 = (uniqueSorted idx)[j]
  · simp [h, (uniqueSorted_nodup idx).idxOf_getElem j hj]
  · have : ¬ List.idxOf ip.1 (uniqueSorted idx) = j := by
      intro hh
      apply h
      have hlt : List.idxOf ip.1 (uniqueSorted idx) < (uniqueSorted idx).length :=
        List.idxOf_lt_length_of_mem hmem
      have := List.getElem_idxOf hlt
      simp only [hh] at this
      exact this.symm
    simp [h, this]

theorem sum_pos_of_pos (p : List ℚ) (hne : p ≠ []) (hpos : ∀ x ∈ p, 0 < x) : 0 < p.sum := by
  induction p with
  | nil => exact absurd rfl hne
  | cons a l ih =>
    rw [List.sum_cons]
    have ha : 0 < a := hpos a (by simp)
    by_cases hl : l = []
    · subst hl; simpa using ha
    · have := ih hl (fun x hx => hpos x (by simp [hx]))
      linarith


/-! ## the order in which the taps are listed does not matter (R12) -/

theorem uniqueSorted_perm {l l' : List Int} (h : l.Perm l') : uniqueSorted l = uniqueSorted l' := by
  apply List.Perm.eq_of_pairwise (le := (· < ·)) _ (uniqueSorted_sorted l) (uniqueSorted_sorted l')
  · rw [List.perm_ext_iff_of_nodup (uniqueSorted_nodup l) (uniqueSorted_nodup l')]
    intro a
    rw [mem_uniqueSorted, mem_uniqueSorted, h.mem_iff]
  · intro a b _ _ h1 h2
    omega

theorem zip_map_fst_snd {β γ : Type} (l : List (β × γ)) : (l.map (·.1)).zip (l.map (·.2)) = l := by
  induction l with
  | nil => rfl
  | cons a l ih => simp [ih]

theorem collidingPower_perm (Ts : ℚ) {taps taps' : List (ℚ × ℚ)} (h : taps.Perm taps') (d : Int) :
    collidingPower (delayIdx (taps.map (·.1)) Ts) (taps.map (·.2)) d
      = collidingPower (delayIdx (taps'.map (·.1)) Ts) (taps'.map (·.2)) d := by
  have key : ∀ l : List (ℚ × ℚ), (delayIdx (l.map (·.1)) Ts).zip (l.map (·.2))
      = l.map (fun t => (roundHalfEven (t.1 / Ts), t.2)) := by
    intro l
    unfold delayIdx
    rw [List.map_map]
    induction l with
    | nil => rfl
    | cons a l ih => simp [ih]
  unfold collidingPower
  rw [key, key]
  exact (((h.map _).filter _).map _).sum_eq

end PyPhysim.C03
